#!/usr/bin/env python3
"""Drives the built sudachipy extension through a script of API calls (C19/C18).

usage: run_calls.py <script.json>     (script: pkg, config, resource_dir, mode, calls[])
prints one JSON line per call; the process must survive every call (a crash = missing lines)."""
import json, sys, warnings
warnings.simplefilter("ignore")
script = json.load(open(sys.argv[1], encoding="utf-8"))
sys.path.insert(0, script["pkg"])
import sudachipy
from sudachipy import Dictionary, SplitMode, MorphemeList

MODES = {"A": SplitMode.A, "B": SplitMode.B, "C": SplitMode.C}


def mode_name(m):
    for k, v in MODES.items():
        if m == v:
            return k
    return str(m)


def word_info(m):
    """the raw WordInfo the binding hands out (deprecated entry point Morpheme.get_word_info): ids as raw 32-bit word ids"""
    w = m.get_word_info()
    return {"surface": w.surface, "hwl": w.head_word_length, "len": w.length(), "pos_id": w.pos_id, "norm": w.normalized_form,
            "dfid": w.dictionary_form_word_id, "dform": w.dictionary_form, "read": w.reading_form,
            "a": list(w.a_unit_split), "b": list(w.b_unit_split), "ws": list(w.word_structure), "syn": list(w.synonym_group_ids)}


def dump(ml, text):
    out = []
    for m in ml:
        b, e = m.begin(), m.end()
        raw = m.raw_surface()
        out.append({
            "wi": word_info(m),
            "b": b, "e": e, "s": m.surface(), "raw": raw, "pos": list(m.part_of_speech()),
            "norm": m.normalized_form(), "dform": m.dictionary_form(), "read": m.reading_form(),
            "did": m.dictionary_id(), "wid": m.word_id(), "oov": m.is_oov(), "len": len(m),
            "syn": list(m.synonym_group_ids()),
            "slice_ok": (text[b:e] == raw) if text is not None else True,
        })
    return out


def safe_dump(ml, text):
    """`dump` of a list that may be stale (a split of a stale list): reading it may raise - that is not the call's outcome"""
    try:
        return dump(ml, text)
    except BaseException as ex:
        return "unreadable:" + type(ex).__name__


def cost_of(ml):
    try:
        return ml.get_internal_cost()
    except BaseException as ex:
        return "exc:" + type(ex).__name__


def reads_of(m):
    out = []
    for f in (m.begin, m.end):
        try:
            out.append(str(f()))
        except BaseException:
            out.append("!")
    try:
        out.append(m.raw_surface().encode("utf-8").hex())
    except BaseException:
        out.append("!")
    return ":".join(out)


def list_reads(ml):
    """what Python reads from EVERY morpheme of a list (possibly stale): begin:end:surface, `!` = an exception"""
    n = len(ml)
    return "%d[%s]" % (n, ",".join(reads_of(ml[i]) for i in range(n)))


dic = Dictionary(config_path=script["config"], resource_dir=script["resource_dir"])
tok = dic.create(mode=MODES[script["mode"]])
lists = []     # (MorphemeList, text)
kept = []      # Morpheme objects kept across calls (may become stale)
for i, c in enumerate(script["calls"]):
    try:
        op = c["op"]
        if op == "tokenize":
            kw = {}
            if c.get("mode"):
                kw["mode"] = MODES[c["mode"]] if not c.get("mode_str") else c["mode"]
            if c.get("out") is not None:
                kw["out"] = lists[c["out"]][0]
            ml = tok.tokenize(c["text"], **kw)
            if c.get("out") is not None:
                lists[c["out"]] = (ml, c["text"]); ret = c["out"]
            else:
                lists.append((ml, c["text"])); ret = len(lists) - 1
            if c.get("keep") and len(ml) > 0:
                kept.append(ml[len(ml) - 1])
            res = {"i": i, "ok": True, "mode": mode_name(tok.mode), "ms": dump(ml, c["text"]), "n": len(ml), "size": ml.size(),
                   "cost": cost_of(ml), "bool": bool(ml), "iter": len(list(iter(ml))), "ret": ret}
        elif op == "split":
            ml, text = lists[c["list"]]
            m = ml[c["index"]]
            kw = {"add_single": c["add_single"]}
            if c.get("out") is not None:
                kw["out"] = lists[c["out"]][0]
            sub = m.split(MODES[c["mode"]], **kw)
            if c.get("out") is not None:
                lists[c["out"]] = (sub, text); ret = c["out"]
            else:
                lists.append((sub, text)); ret = len(lists) - 1
            res = {"i": i, "ok": True, "mode": mode_name(tok.mode), "ms": safe_dump(sub, text), "n": len(sub), "cost": cost_of(sub), "ret": ret}
        elif op == "index":
            # MorphemeList.__getitem__ with an int (possibly negative / out of range), a slice, a str, an int beyond isize
            ml, text = lists[c["list"]]
            a = c["arg"]
            arg = slice(0, 1) if a == "slice" else ("0" if a == "str" else (1 << 70 if a == "huge" else a))
            n_iter = len(list(iter(ml)))
            try:
                m = ml[arg]
                res = {"i": i, "ok": True, "mode": mode_name(tok.mode), "key": [m.begin(), m.end(), m.word_id()], "iter": n_iter,
                       "keys": [[x.begin(), x.end(), x.word_id()] for x in ml]}
            except BaseException as ex:
                res = {"i": i, "ok": True, "mode": mode_name(tok.mode), "exc": type(ex).__name__, "iter": n_iter}
        elif op == "splitx":
            # Morpheme.split with the argument shapes the plain `split` op does not use: out = the morpheme's own list,
            # a mode that is not a mode, add_single left out
            ml, text = lists[c["list"]]
            m = ml[c["index"]]
            kw = {}
            if c.get("add_single") is not None:
                kw["add_single"] = c["add_single"]
            outl = None
            if c.get("out") == "own":
                kw["out"] = ml; outl = ml
            elif c.get("out") is not None:
                kw["out"] = lists[c["out"]][0]; outl = kw["out"]
            mode = MODES[c["mode"]] if c["mode"] in MODES else c["mode"]
            before = len(outl) if outl is not None else None
            try:
                sub = m.split(mode, **kw)
                if c.get("out") is not None and c.get("out") != "own":
                    lists[c["out"]] = (sub, text)
                else:
                    lists.append((sub, text))
                res = {"i": i, "ok": True, "mode": mode_name(tok.mode), "ms": dump(sub, text), "n": len(sub), "same": (outl is None) or (sub is outl), "ret": len(lists) - 1}
            except BaseException as ex:
                res = {"i": i, "ok": True, "mode": mode_name(tok.mode), "exc": type(ex).__name__, "before": before, "after": len(outl) if outl is not None else None}
        elif op == "create":
            # Dictionary.create(mode, fields): a second tokenizer, used for one text
            kw = {}
            if c.get("fields") is not None:
                kw["fields"] = set(c["fields"])
            mode = MODES[c["mode"]] if c["mode"] in MODES else c["mode"]
            try:
                t2 = dic.create(mode, **kw)
                ml = t2.tokenize(c["text"])
                lists.append((ml, c["text"]))
                res = {"i": i, "ok": True, "mode": mode_name(tok.mode), "ms": dump(ml, c["text"]), "n": len(ml), "ret": len(lists) - 1}
            except BaseException as ex:
                res = {"i": i, "ok": True, "mode": mode_name(tok.mode), "exc": type(ex).__name__}
        elif op == "lookup":
            kw = {}
            if c.get("out") is not None:
                kw["out"] = lists[c["out"]][0]
            ml = dic.lookup(c["query"], **kw)
            if c.get("out") is not None:
                lists[c["out"]] = (ml, c["query"]); ret = c["out"]
            else:
                lists.append((ml, c["query"])); ret = len(lists) - 1
            res = {"i": i, "ok": True, "mode": mode_name(tok.mode), "ms": dump(ml, c["query"]), "n": len(ml), "ret": ret}
        elif op == "stale":
            vals = []
            for m in kept:
                try:
                    vals.append([m.surface(), m.begin(), m.end(), m.normalized_form(), len(m)])
                except BaseException as ex:   # a PanicException surfaced by PyO3 is catchable: not a crash
                    vals.append("exc:" + type(ex).__name__)
            res = {"i": i, "ok": True, "mode": mode_name(tok.mode), "stale": vals}
        else:
            res = {"i": i, "err": "bad-op"}
    except BaseException as ex:
        res = {"i": i, "err": type(ex).__name__, "msg": str(ex)[:200], "mode": mode_name(tok.mode)}
    # after EVERY call: what Python reads from every list it holds (stale ones included) and from the kept morphemes
    try:
        res["all"] = [list_reads(l[0]) for l in lists]
        res["kept"] = [reads_of(m) for m in kept]
    except BaseException as ex:
        res["all_exc"] = type(ex).__name__
    sys.stdout.write(json.dumps(res, ensure_ascii=False) + "\n")
    sys.stdout.flush()
sys.stdout.write(json.dumps({"done": True}) + "\n")
