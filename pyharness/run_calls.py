#!/usr/bin/env python3
"""Drives the built sudachipy extension through a script of API calls (C19/C18).

usage: run_calls.py <script.json>     (script: pkg, config, resource_dir, mode, calls[])
prints one JSON line per call; the process must survive every call (a crash = missing lines)."""
import json, sys, warnings
warnings.simplefilter("ignore")
script = json.load(open(sys.argv[1], encoding="utf-8"))
sys.path.insert(0, script["pkg"])
import sudachipy
from sudachipy import Dictionary, SplitMode, MorphemeList

MODES = {"A": SplitMode.A, "B": SplitMode.B, "C": SplitMode.C}


def mode_name(m):
    for k, v in MODES.items():
        if m == v:
            return k
    return str(m)


def dump(ml, text):
    out = []
    for m in ml:
        b, e = m.begin(), m.end()
        raw = m.raw_surface()
        out.append({
            "b": b, "e": e, "s": m.surface(), "raw": raw, "pos": list(m.part_of_speech()),
            "norm": m.normalized_form(), "dform": m.dictionary_form(), "read": m.reading_form(),
            "did": m.dictionary_id(), "wid": m.word_id(), "oov": m.is_oov(), "len": len(m),
            "syn": list(m.synonym_group_ids()),
            "slice_ok": (text[b:e] == raw) if text is not None else True,
        })
    return out


dic = Dictionary(config_path=script["config"], resource_dir=script["resource_dir"])
tok = dic.create(mode=MODES[script["mode"]])
lists = []     # (MorphemeList, text)
kept = []      # Morpheme objects kept across calls (may become stale)
for i, c in enumerate(script["calls"]):
    try:
        op = c["op"]
        if op == "tokenize":
            kw = {}
            if c.get("mode"):
                kw["mode"] = MODES[c["mode"]] if not c.get("mode_str") else c["mode"]
            if c.get("out") is not None:
                kw["out"] = lists[c["out"]][0]
            ml = tok.tokenize(c["text"], **kw)
            if c.get("out") is not None:
                lists[c["out"]] = (ml, c["text"])
            else:
                lists.append((ml, c["text"]))
            if c.get("keep") and len(ml) > 0:
                kept.append(ml[len(ml) - 1])
            res = {"i": i, "ok": True, "mode": mode_name(tok.mode), "ms": dump(ml, c["text"]), "n": len(ml), "size": ml.size()}
        elif op == "split":
            ml, text = lists[c["list"]]
            m = ml[c["index"]]
            kw = {"add_single": c["add_single"]}
            if c.get("out") is not None:
                kw["out"] = lists[c["out"]][0]
            sub = m.split(MODES[c["mode"]], **kw)
            if c.get("out") is not None:
                lists[c["out"]] = (sub, text)
            else:
                lists.append((sub, text))
            res = {"i": i, "ok": True, "mode": mode_name(tok.mode), "ms": dump(sub, text), "n": len(sub)}
        elif op == "lookup":
            ml = dic.lookup(c["query"])
            lists.append((ml, c["query"]))
            res = {"i": i, "ok": True, "mode": mode_name(tok.mode), "ms": dump(ml, c["query"]), "n": len(ml)}
        elif op == "stale":
            vals = []
            for m in kept:
                try:
                    vals.append([m.surface(), m.begin(), m.end(), m.normalized_form(), len(m)])
                except BaseException as ex:   # a PanicException surfaced by PyO3 is catchable: not a crash
                    vals.append("exc:" + type(ex).__name__)
            res = {"i": i, "ok": True, "mode": mode_name(tok.mode), "stale": vals}
        else:
            res = {"i": i, "err": "bad-op"}
    except BaseException as ex:
        res = {"i": i, "err": type(ex).__name__, "msg": str(ex)[:200], "mode": mode_name(tok.mode)}
    sys.stdout.write(json.dumps(res, ensure_ascii=False) + "\n")
    sys.stdout.flush()
sys.stdout.write(json.dumps({"done": True}) + "\n")
