#!/usr/bin/env python3
"""C08: code-point offsets seen from Python. usage: run_c08.py <script.json> ; prints one JSON list of results.
script = {pkg, resource_dir, cfg, cases: [{mode, text}]}
per case: Dictionary(config_path=cfg).create(mode).tokenize(text) -> for every morpheme
  [begin(), end(), len(m), raw_surface(), text[begin():end()]]
and the pre-tokenizer entry point (python/src/pretokenizer.rs: `__call__(index, string)` slices `string` by
begin_c..end_c) driven directly: the optional `tokenizers` package is replaced by a stub whose
`PreTokenizer.custom(x)` returns x, `string` is an object with `__str__` and `slice(slice)` over code points."""
import json, sys, types
script = json.load(open(sys.argv[1]))
sys.path.insert(0, script["pkg"])

stub = types.ModuleType("tokenizers")
pre_mod = types.ModuleType("tokenizers.pre_tokenizers")
class PreTokenizer:
    @staticmethod
    def custom(x):
        return x
pre_mod.PreTokenizer = PreTokenizer
stub.pre_tokenizers = pre_mod
sys.modules["tokenizers"] = stub
sys.modules["tokenizers.pre_tokenizers"] = pre_mod

from sudachipy import Dictionary, SplitMode
MODES = {"A": SplitMode.A, "B": SplitMode.B, "C": SplitMode.C}


class NS:
    """stand-in for tokenizers.NormalizedString: str() and slice() by code points"""
    def __init__(self, s):
        self.s = s
    def __str__(self):
        return self.s
    def slice(self, sl):
        return self.s[sl]


out = []
try:
    d = Dictionary(config_path=script["cfg"], resource_dir=script["resource_dir"])
except BaseException as ex:
    print(json.dumps([{"ok": False, "exc": type(ex).__name__, "msg": str(ex)[:200]}]))
    sys.exit(0)
toks = {}
pres = {}
for c in script["cases"]:
    res = {}
    text = c["text"]
    try:
        t = toks.get(c["mode"])
        if t is None:
            t = d.create(MODES[c["mode"]])
            toks[c["mode"]] = t
        ms = t.tokenize(text)
        res["ok"] = True
        res["ms"] = [[m.begin(), m.end(), len(m), m.raw_surface(), text[m.begin():m.end()]] for m in ms]
    except BaseException as ex:
        res = {"ok": False, "exc": type(ex).__name__, "msg": str(ex)[:200]}
    try:
        p = pres.get(c["mode"])
        if p is None:
            p = d.pre_tokenizer(mode=MODES[c["mode"]])
            pres[c["mode"]] = p
        res["pre"] = [str(x) for x in p(0, NS(text))]
    except BaseException as ex:
        res["pre_exc"] = "%s %s" % (type(ex).__name__, str(ex)[:200])
    out.append(res)
print(json.dumps(out, ensure_ascii=False))
