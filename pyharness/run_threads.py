#!/usr/bin/env python3
"""C18 (Python half): threads over tokenizers created from ONE Dictionary; the GIL is released during
analysis.  usage: run_threads.py <pkg dir> <seed>; prints {"ok": true|false, ...}"""
import json, sys, threading, random, warnings
warnings.simplefilter("ignore")
sys.path.insert(0, sys.argv[1])
seed = int(sys.argv[2]) if len(sys.argv) > 2 else 1
from sudachipy import Dictionary, SplitMode

RES = "/repo/python/tests/resources"
dic = Dictionary(config_path=RES + "/sudachi.json", resource_dir=RES)
rnd = random.Random(seed)
ALPHA = list("東京都に行った京都アイウ0123456789,.あいう。！（）ｱｲｳ一二三十百千万ＡＢabc ") + ["特A", "な。な", "㍿", "👍🏻"]
MODES = [SplitMode.A, SplitMode.B, SplitMode.C]


def dump(ml):
    return [(m.surface(), m.begin(), m.end(), tuple(m.part_of_speech()), m.normalized_form(), m.dictionary_form(), m.word_id()) for m in ml]


nthreads = rnd.choice([2, 4, 8])
work = []
for t in range(nthreads):
    mode = rnd.choice(MODES)
    texts = ["".join(rnd.choice(ALPHA) for _ in range(rnd.randint(0, 40))) for _ in range(rnd.randint(20, 60))]
    texts.append("東京都" * 3000)
    work.append((mode, texts))

results = [None] * nthreads
errors = []
barrier = threading.Barrier(nthreads)


def worker(t):
    try:
        mode, texts = work[t]
        tok = dic.create(mode=mode)
        out = None
        barrier.wait()
        acc = []
        for k, tx in enumerate(texts):
            if k % 3 == 0:
                ml = tok.tokenize(tx)
            elif k % 3 == 1:
                ml = tok.tokenize(tx, mode=MODES[k % len(MODES)])
            else:
                out = tok.tokenize(tx, out=out) if out is not None else tok.tokenize(tx)
                ml = out
            acc.append(dump(ml))
        results[t] = acc
    except BaseException as ex:
        errors.append("%d: %s %s" % (t, type(ex).__name__, ex))


threads = [threading.Thread(target=worker, args=(t,)) for t in range(nthreads)]
for th in threads: th.start()
for th in threads: th.join()

# the pre-tokenizer uses thread-local tokenizers
try:
    pre = dic.pre_tokenizer(mode=SplitMode.C)
    pres = [None] * nthreads
    def pworker(t):
        try:
            pres[t] = [[str(x) for x in pre.pre_tokenize_str(tx)] for tx in work[t][1][:10]]
        except BaseException as ex:
            errors.append("pre %d: %s %s" % (t, type(ex).__name__, ex))
    ths = [threading.Thread(target=pworker, args=(t,)) for t in range(nthreads)]
    for th in ths: th.start()
    for th in ths: th.join()
    pre_ok = True
except BaseException as ex:
    pre_ok = "unavailable: %s" % type(ex).__name__     # the `tokenizers` package is optional

# sequential baseline, afterwards, in the main thread
bad = []
for t in range(nthreads):
    mode, texts = work[t]
    tok = dic.create(mode=mode)
    for k, tx in enumerate(texts):
        if k % 3 == 1:
            ml = tok.tokenize(tx, mode=MODES[k % len(MODES)])
        else:
            ml = tok.tokenize(tx)
        if results[t] is None or results[t][k] != dump(ml):
            bad.append((t, k))
print(json.dumps({"ok": not bad and not errors, "threads": nthreads, "bad": bad[:5], "errors": errors[:5], "pre": pre_ok}))
