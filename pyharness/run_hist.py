#!/usr/bin/env python3
"""C10: a history of Tokenizer.tokenize(text, mode=, out=) calls on ONE long-lived Python tokenizer with reused out lists.

usage: run_hist.py <script.json>   (script: pkg, config, resource_dir, mode, calls[{text, mode|null, out|null}])
prints one JSON line per call: did it raise, tok.mode afterwards, every result list ever returned (length + word ids,
read through node-level accessors only: a list whose input buffer was swapped away stays readable), and the morphemes
of the list the call returned."""
import json, sys, warnings
warnings.simplefilter("ignore")
script = json.load(open(sys.argv[1], encoding="utf-8"))
sys.path.insert(0, script["pkg"])
from sudachipy import Dictionary, SplitMode

MODES = {"A": SplitMode.A, "B": SplitMode.B, "C": SplitMode.C}


def mode_name(m):
    for k, v in MODES.items():
        if m == v:
            return k
    return str(m)


dic = Dictionary(config_path=script["config"], resource_dir=script["resource_dir"])
tok = dic.create(mode=MODES[script["mode"]])
lists = []
for i, c in enumerate(script["calls"]):
    res = {"i": i}
    try:
        kw = {}
        if c.get("mode"):
            kw["mode"] = MODES[c["mode"]]
        if c.get("out") is not None:
            kw["out"] = lists[c["out"]]
        ml = tok.tokenize(c["text"], **kw)
        if c.get("out") is None:
            lists.append(ml)
        elif ml is not lists[c["out"]]:
            res["out_identity"] = False
        res["outcome"] = "ok"
        res["ms"] = [[m.begin(), m.end(), m.surface(), m.word_id(), m.normalized_form(), m.dictionary_form(), m.reading_form()] for m in ml]
    except BaseException as ex:
        res["outcome"] = "PANIC" if type(ex).__name__ == "PanicException" else "err"
        res["exc"] = type(ex).__name__ + ": " + str(ex)[:120]
    res["mode"] = mode_name(tok.mode)
    try:
        res["lists"] = [[len(l), [m.word_id() for m in l]] for l in lists]
    except BaseException as ex:
        res["lists_exc"] = type(ex).__name__
    sys.stdout.write(json.dumps(res, ensure_ascii=False) + "\n")
    sys.stdout.flush()
sys.stdout.write(json.dumps({"done": True}) + "\n")
