#!/usr/bin/env python3
"""C19: surface projections. usage: run_proj.py <script.json> ; prints one JSON list of results.
script = {pkg, resource_dir, cases: [{cfg, proj, mode, text}]}: Dictionary(config_path=cfg).create(mode[, projection=proj]).tokenize(text)"""
import json, sys
script = json.load(open(sys.argv[1]))
sys.path.insert(0, script["pkg"])
from sudachipy import Dictionary, SplitMode
MODES = {"A": SplitMode.A, "B": SplitMode.B, "C": SplitMode.C}
dics = {}
out = []
for c in script["cases"]:
    try:
        d = dics.get(c["cfg"])
        if d is None:
            d = Dictionary(config_path=c["cfg"], resource_dir=script["resource_dir"])
            dics[c["cfg"]] = d
        kw = {}
        if c.get("proj") is not None:
            kw["projection"] = c["proj"]
        t = d.create(MODES[c["mode"]], **kw)
        ms = t.tokenize(c["text"])
        out.append({"ok": True, "ms": [[m.surface(), str(m), m.raw_surface(), m.begin(), m.end()] for m in ms]})
    except BaseException as ex:
        out.append({"ok": False, "exc": type(ex).__name__, "msg": str(ex)[:200]})
print(json.dumps(out, ensure_ascii=False))
