#!/bin/bash
# usage: seedtest.sh <Cxx> <suffix> [other checks to run too...]
# 1) confirms a seeded change in its scratch worktree (suite passes with it, demo fails with it and passes without),
# 2) applies it to /repo, runs ./check <Cxx> (and the extra checks), undoes it, 3) files it under /verif/seeded/<id>/
P=$1; S=$2; shift 2
D=/tmp/seed/${P}${S}; W=$D/repo; ID=${P}${S}
export RUST_BACKTRACE=0 CARGO_NET_OFFLINE=true
[ -f $D/out/patch.diff ] || { echo "no patch"; exit 2; }
cd $W && git checkout -q -- . && git clean -fdq
# confirm against /repo's CURRENT head (fix: commits may have landed since the change was written)
HEADREV=$(git -C /repo rev-parse --short HEAD); git checkout -q --detach $HEADREV
git apply --check $D/out/patch.diff || { echo "patch does not apply to scratch worktree"; exit 2; }
chmod +x $D/out/demo.sh 2>/dev/null
# demo on the unchanged tree
( cd $W && bash $D/out/demo.sh >/tmp/seed_$ID.demo0.log 2>&1 ); d0=$?
git -C $W checkout -q -- . ; git -C $W clean -fdq
git -C $W apply $D/out/patch.diff
( cd $W && cargo build --workspace --offline >/tmp/seed_$ID.build.log 2>&1 ); b=$?
suite=$(cd $W && cargo test --workspace --no-fail-fast --offline 2>&1 | grep -E "^test result" | awk '{p+=$4; f+=$6} END {print p":"f}')
( cd $W && bash $D/out/demo.sh >/tmp/seed_$ID.demo1.log 2>&1 ); d1=$?
git -C $W checkout -q -- . ; git -C $W clean -fdq
echo "confirm: build=$b suite(pass:fail)=$suite demo_unchanged_exit=$d0 demo_patched_exit=$d1"
# our checks against the change
cd /verif
git -C /repo apply --check $D/out/patch.diff || { echo "patch does not apply to /repo HEAD"; exit 3; }
git -C /repo apply $D/out/patch.diff
res=""
for C in $P "$@"; do
  out=$(timeout 1800 ./check $C 2>&1 | tail -2 | cut -c1-300); rc=$(echo "$out" | grep -c VIOLATION)
  echo "check $C -> $(echo "$out" | tail -2)"
  res="$res $C:$rc"
done
git -C /repo checkout -q -- . ; git -C /repo clean -fdq -- sudachi sudachi-cli python plugin 2>/dev/null
mkdir -p /verif/seeded/$ID
cp $D/out/patch.diff $D/out/meta.json $D/out/demo.sh /verif/seeded/$ID/ 2>/dev/null
for f in $D/out/*; do case "$f" in *patch.diff|*meta.json|*demo.sh) ;; *) cp -r "$f" /verif/seeded/$ID/ ;; esac; done
python3 - "$ID" "$b" "$suite" "$d0" "$d1" "$res" "$HEADREV" <<'PY'
import json,sys
ID,b,suite,d0,d1,res,head=sys.argv[1:8]
p=f'/verif/seeded/{ID}/meta.json'
try: m=json.load(open(p))
except Exception: m={"property":ID[:3]}
m["confirmed_by_framework_author"]={"build_exit":int(b),"suite_pass_fail":suite,"demo_exit_unchanged":int(d0),"demo_exit_patched":int(d1),
  "ran":"seedtest.sh: demo.sh on the unchanged scratch worktree; git apply patch; cargo build --workspace --offline; cargo test --workspace --no-fail-fast --offline; demo.sh again; restore",
  "checks(1=VIOLATION reported)":res.strip(),"repo_head":head}
json.dump(m,open(p,'w'),indent=1,ensure_ascii=False)
PY
echo "filed /verif/seeded/$ID  [$res ]"
