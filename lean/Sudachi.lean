import Sudachi.Model.Wire
import Sudachi.Model.CharCat
import Sudachi.Proofs.CharCat
import Sudachi.Driver
import Sudachi.Props.C17
