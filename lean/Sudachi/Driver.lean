import Sudachi.Model.Wire
import Sudachi.Model.CharCat
import Sudachi.Model.Edit
import Sudachi.Model.EditAccess
import Sudachi.Model.EditGhost
import Sudachi.Model.Lattice
import Sudachi.Model.LatticeRec
import Sudachi.Model.LatticeLex
import Sudachi.Model.Sentence
import Sudachi.Model.OovIO
import Sudachi.Model.Normalize
import Sudachi.Model.Numeric
import Sudachi.Model.Cli
import Sudachi.Model.PyGlue
import Sudachi.Model.PySession
import Sudachi.Model.Sched
import Sudachi.Model.Rewrite
import Sudachi.Model.RewriteNumeric
import Sudachi.Model.RewriteNumericSplit
import Sudachi.Model.Subset
import Sudachi.Model.SubsetRw
import Sudachi.Model.Split
import Sudachi.Model.Params
import Sudachi.Model.ParamsCfg
import Sudachi.Model.ParamsGrammar
import Sudachi.Model.LayersIO
import Sudachi.Model.Codec
import Sudachi.Model.CodecBuild
import Sudachi.Model.Trie
import Sudachi.Model.BuildIO
import Sudachi.Model.BuildLoad
import Sudachi.Model.RecycleIO
import Sudachi.Model.Total
import Sudachi.Model.TotalIO
import Sudachi.Model.Stages
import Sudachi.Model.RecycleTotal
/-! Line protocol dispatcher: one case per line in, one answer per line out. -/
namespace Driver

def answer (line : String) : String :=
  let toks := Wire.words line.toList
  match toks with
  | p :: op :: rest =>
    match String.ofList p with
    | "C01" => if String.ofList op == "morph" then EditM.handleMorph rest
               else if String.ofList op == "part" then Total.handlePart rest
               else if String.ofList op == "stages" then Stages.handle rest else EditM.handle rest
    | "C17" => if op = "buffer".toList then CharCat.handleBuffer rest else CharCat.handle rest
    | "C08" => if op = "morphc".toList then EditAcc.handleMorphA rest
               else if op = "acc".toList then EditAcc.handleAcc rest
               else if op = "pyoff".toList then EditAcc.handlePyOff rest else EditG.handle rest
    | "C02" => if op = "build".toList then Vit.handleLex rest else Vit.handleRec rest
    | "C16" => Sentence.handle rest
    | "C13" => Oov.handle op rest
    | "C07" => Normalize.handle op rest
    | "C15" => if op = "pipe".toList then RewriteNumeric.handle rest
               else if op = "modes".toList then RewriteNumericSplit.handle rest else Numeric.handle op rest
    | "C19" => if op = "pyglue".toList then PyGlue.handle rest else if op = "pysess".toList then PySession.handle rest else Cli.handle op rest
    | "C18" => Sched.handleOp op rest
    | "C14" => Rewrite.handle rest
    | "C11" => Subset.handleAll op rest
    | "C09" => Split.handle op rest
    | "C20" => Params.handle3 op rest
    | "C12" => Layers.handle op rest
    | "C05" => Codec.handle rest
    | "C04" => Trie.handle op rest
    | "C06" => BuildLoad.handle rest
    | "C10" => if op = "pysess".toList then Recycle.IO.handlePy rest
      else if op = "hpipe".toList then RecycleTotal.handleHPipe rest else Recycle.IO.handle rest
    | "C03" => TotalIO.handle op rest
    | _ => "bad-op"
  | _ => "bad-op"

end Driver
