import Sudachi.Model.Wire
import Sudachi.Model.CharCat
import Sudachi.Model.Edit
import Sudachi.Model.Lattice
/-! Line protocol dispatcher: one case per line in, one answer per line out. -/
namespace Driver

def answer (line : String) : String :=
  let toks := Wire.words line.toList
  match toks with
  | p :: op :: rest =>
    match String.ofList p with
    | "C01" => if String.ofList op == "morph" then EditM.handleMorph rest else EditM.handle rest
    | "C17" => CharCat.handle rest
    | "C08" => EditM.handle rest
    | "C02" => Vit.handle rest
    | _ => "bad-op"
  | _ => "bad-op"

end Driver
