import Sudachi.Model.Wire
import Sudachi.Model.CharCat
/-! Line protocol dispatcher: one case per line in, one answer per line out. -/
namespace Driver

def answer (line : String) : String :=
  let toks := Wire.words line.toList
  match toks with
  | p :: _op :: rest =>
    match String.ofList p with
    | "C17" => CharCat.handle rest
    | _ => "bad-op"
  | _ => "bad-op"

end Driver
