import Sudachi.Model.Codec
import Sudachi.Model.CodecBuild
import Sudachi.Proofs.Codec
import Sudachi.Proofs.CodecLayout
import Sudachi.Proofs.CodecFile
import Sudachi.Proofs.CodecCsv
/-!
# C05 — compile-then-load round trip preserves every dictionary field, deterministically

Model: `Codec` (`Model/Codec.lean`: writers of `dic/build/primitives.rs`, `lexicon.rs write_word_info`,
`conn.rs write_elem`, readers of `dic/read/*`, `lexicon/word_infos.rs`, `connect.rs`, `grammar.rs`,
`header.rs`; `Model/CodecBuild.lean`: CSV field parsers, resolver, layout of `DictBuilder::compile`).
Quantifiers: every string of Unicode scalar values, every length `0..32767`, every array of up to 127
`u32`s, every well-formed entry, every matrix shape and every list of in-range matrix lines.
-/
namespace C05
open Codec

/-- Clause "length prefix: 1 byte below 127, else 2 bytes with the high bit; the reader accepts both".
For every length the writer accepts (`0..=i16::MAX`) the reader returns it and leaves the rest
untouched — 126/127/128 are not special cases. -/
theorem len_roundtrip (n : Nat) (hn : n ≤ 32767) (rest : Bytes) :
    writeLen n = .ok (encLen n) ∧ stringLength (encLen n ++ rest) = some (n, rest) ∧
      (encLen n).length = (if n < 127 then 1 else 2) := by
  refine ⟨?_, stringLength_encLen n hn rest, encLen_length n⟩
  unfold writeLen
  simp only [show ¬ n > 32767 by omega, if_false]

/-- the writer rejects every longer length (no silent truncation of the 15-bit prefix) -/
theorem len_too_long (n : Nat) (hn : n > 32767) : writeLen n = .err "InvalidSize" := by
  unfold writeLen; simp only [hn, if_true]

/-- Clause "UTF-16 strings incl. surrogate pairs": one scalar value, BMP or astral, followed by
anything, decodes to itself. -/
theorem utf16_roundtrip (c : Nat) (hc : IsScalar c) (us : List Nat) :
    decodeUtf16 (encodeUtf16 c ++ us) = (decodeUtf16 us).map (c :: ·) :=
  decodeUtf16_encode c hc us

/-- Whole strings: `utf16_string_parser (Utf16Writer::write s ++ rest) = (s, rest)` for every string of
scalar values with at most 32767 UTF-16 code units. -/
theorem string_roundtrip (s : Str) (hs : Scalars s) (hl : (units s).length ≤ 32767) (rest : Bytes) :
    utf16StringParser (encStr s ++ rest) = some (s, rest) :=
  utf16StringParser_encStr s hs hl rest

/-- Clause "up to 127 array items": `u32_array_parser (write_u32_array xs ++ rest) = (xs, rest)`
(split units, word structure and synonym groups all use this codec; `WordId::from_raw` is the identity). -/
theorem u32array_roundtrip (xs : List Nat) (hl : xs.length ≤ 127) (h : ∀ x ∈ xs, x < 4294967296) (rest : Bytes) :
    writeU32Array xs = .ok (encU32s xs) ∧ u32ArrayParser (encU32s xs ++ rest) = some (xs, rest) := by
  refine ⟨?_, u32ArrayParser_encU32s xs h rest⟩
  unfold writeU32Array
  simp only [show ¬ xs.length > 127 by omega, if_false]

/-- Clause "field order and encodings of the writer mirror the reader" + "forms equal to the headword
are stored empty and restored on access".  For every well-formed entry, parsing the record written by
`write_word_info` (followed by any bytes) and reading it through the `WordInfo` accessors yields the
declared headword, key length, POS id, dictionary-form id, split units, word structure and synonym
groups; the normalised form and the reading come back as declared **unless declared empty**, in which
case the accessor answers the headword (see `empty_form_counterexample`). -/
theorem wordinfo_roundtrip (e : Entry) (wf : e.WF) (rest : Bytes) :
    ∃ wi, parseWordInfo (encWordInfo e ++ rest) = some wi ∧
      wi.surface = e.headwordS ∧
      wi.headWordLength = utf8LenStr e.surface ∧
      wi.posId = e.pos ∧
      wi.normalizedFormA = (if e.normS = [] then e.headwordS else e.normS) ∧
      wi.readingFormA = (if e.readingS = [] then e.headwordS else e.readingS) ∧
      wi.dicFormWordId = u32ToI e.dicForm ∧
      wi.aUnitSplit = e.splitsA ∧ wi.bUnitSplit = e.splitsB ∧
      wi.wordStructure = e.wordStructure ∧ wi.synonymGroupIds = e.synonyms := by
  refine ⟨_, parseWordInfo_enc e wf rest, rfl, rfl, rfl, ?_, ?_, rfl, rfl, rfl, rfl, rfl⟩
  · simp only [WordInfoData.normalizedFormA, stored]
    by_cases h1 : e.normS = e.headwordS
    · by_cases h2 : e.normS = []
      · simp [h1]
      · simp [h1]
    · by_cases h2 : e.normS = []
      · simp [h2]
      · simp [h1, h2]
  · simp only [WordInfoData.readingFormA, stored]
    by_cases h1 : e.readingS = e.headwordS
    · by_cases h2 : e.readingS = []
      · simp [h1]
      · simp [h1]
    · by_cases h2 : e.readingS = []
      · simp [h2]
      · simp [h1, h2]

/-- the checked writer accepts every well-formed entry and emits exactly `encWordInfo`: the byte-size guard of
`Utf16Writer::write` (256 KiB of UTF-8) cannot fire for a string of at most 32767 UTF-16 units (`utf8LenStr_le`:
at most three bytes per unit), so well-formedness alone suffices -/
theorem wordinfo_written (e : Entry) (wf : e.WF) : writeWordInfo e = .ok (encWordInfo e) := by
  apply writeWordInfo_ok e wf
  have a := utf8LenStr_le e.headwordS
  have b := utf8LenStr_le e.normS
  have c := utf8LenStr_le e.readingS
  have := wf.hw.2; have := wf.nf.2; have := wf.rd.2
  omega

/-- a concrete entry (`あ`, reading declared empty) -/
def emptyReadingEntry : Entry :=
  { left := 0, right := 0, cost := 0, surface := [12354], headword := none, dicForm := INVALID_WID, normForm := none,
    pos := 0, splitsA := [], splitsB := [], reading := some [], wordStructure := [], synonyms := [] }

/-- The property's "exactly the declared data" is FALSE for an empty declared reading (same for the
normalised form): the binary format uses the empty string for "equal to the headword", so a row that
declares the empty reading is loaded with the headword as its reading.  Kernel-checked witness, also
reproduced on the implementation (finding `c05:empty-form`). -/
theorem empty_form_counterexample :
    emptyReadingEntry.readingS = [] ∧
    (parseWordInfo (encWordInfo emptyReadingEntry)).map (·.readingFormA) = some [12354] := by
  decide

/-- F-EMPTY is a property of the FORMAT, not of one line of the writer: for EVERY entry, declaring the reading
(resp. the normalised form) empty and not declaring it at all (= equal to the headword) produce byte-identical
records, so no reader can tell them apart; a repair needs a format change (a flag or a sentinel), or the builder
must refuse an empty declared form. -/
theorem empty_form_indistinguishable (e : Entry) :
    encWordInfo { e with reading := some [] } = encWordInfo { e with reading := none } ∧
    encWordInfo { e with normForm := some [] } = encWordInfo { e with normForm := none } := by
  have a : ∀ hw : Str, stored [] hw = stored hw hw := by
    intro hw; unfold stored; split <;> simp
  constructor
  · apply encWordInfo_congr <;> first | rfl | exact a e.headwordS
  · apply encWordInfo_congr <;> first | rfl | exact a e.headwordS

/-- a minimal entry with headword `s` and dictionary-form id `df` -/
def plainEntry (s : Str) (df : Nat) : Entry :=
  { left := 0, right := 0, cost := 0, surface := s, headword := none, dicForm := df, normForm := none,
    pos := 0, splitsA := [], splitsB := [], reading := none, wordStructure := [], synonyms := [] }

/-- the lexicon section holding `es` (as `LexiconWriter::write` lays it out at offset 0) -/
def lexOf (es : List Entry) : Lexicon :=
  { bytes := lexiconBytes es (es.map encWordInfo) 0, trieOff := 0, trieSize := 0, widTableOff := 0, widTableSize := 0,
    paramsOff := 4, size := es.length, infosOff := 4 + 6 * es.length, hasSynonyms := true }

set_option maxRecDepth 100000 in
/-- D8, first half (kernel-checked witness on the model; reproduced on the implementation, finding
`c05:user-dicform:panic`).  A USER dictionary row `あ` declaring the dictionary form `U0` passes
`validate_entries` (user word 0 exists), is written with the raw id `0x10000000`, and
`WordInfos::get_word_info` then indexes the offsets table of the same lexicon with that raw id: panic. -/
theorem user_dicform_counterexample :
    validateEntries false 1 1 (some 5) [plainEntry [12354] (widNew 1 0)] = true ∧
    (lexOf [plainEntry [12354] (widNew 1 0)]).getWordInfo 0 = .panic "slice:word_id_to_offset" := by
  decide

set_option maxRecDepth 100000 in
/-- D8, second half (finding `c05:user-dicform:wrong`).  A user row `あ` declaring the dictionary form
`1` (= SYSTEM word 1 for the validator: 5 system words exist) gets the headword of USER word 1 (`い`)
as its dictionary form, whatever system word 1 is. -/
theorem user_dicform_wrong_counterexample :
    validateEntries false 1 1 (some 5) [plainEntry [12354] 1, plainEntry [12356] INVALID_WID] = true ∧
    ((lexOf [plainEntry [12354] 1, plainEntry [12356] INVALID_WID]).getWordInfo 0).bind (fun wi => .ok wi.dictionaryFormA)
      = .ok [12356] := by
  decide

/-- Clause "the connection cost of every id pair equals the matrix text" (`write_elem` at
`right*num_left+left`, read with the same formula).  For every shape and every list of in-range lines
written in file order onto the zero matrix, the cost read for `(l, r)` is the cost of the last line
naming that pair, or 0. -/
theorem matrix_roundtrip (nl nr : Nat) (lines : List (Int × Int × Int)) (hok : LinesOk nl nr lines)
    (l r : Nat) (hl : l < nl) (hr : r < nr) :
    ∃ m, writeAll nl lines (List.replicate (nl * nr * 2) 0) = .ok m ∧ m.length = nl * nr * 2 ∧
      connCost m nl nr l r = .ok (declared lines l r 0) := by
  obtain ⟨m, hm, hh⟩ := writeAll_holds nl nr lines hok _ _ (holds_zero nl nr)
  refine ⟨m, hm, hh.1, ?_⟩
  unfold connCost
  have : ¬ (l ≥ nl ∨ r ≥ nr) := by omega
  simp only [this, if_false, hh.2 l r hl hr]

/-- Lexicon section alone, for ANY bytes `pre` in front of it (this was `dict_roundtrip_partial`; the whole file is
`dict_roundtrip` below): any list of well-formed entries and a file below 4 GiB, the offsets table written by
`LexiconWriter::write` (`offset_base = offset + 10·n + 4`) leads `WordInfos::parse_word_info(i)` to exactly the
fields of entry `i`. -/
theorem lexicon_records_roundtrip (pre : Bytes) (es : List Entry) (hwf : ∀ e ∈ es, e.WF)
    (hsize : (pre ++ lexiconBytes es (es.map encWordInfo) pre.length).length < 4294967296)
    (i : Nat) (e : Entry) (hi : es[i]? = some e) :
    (lexAt pre es).parseWordInfo i = .ok
      { surface := e.headwordS, headWordLength := utf8LenStr e.surface, posId := e.pos,
        normalizedForm := stored e.normS e.headwordS, dicFormWordId := u32ToI e.dicForm,
        readingForm := stored e.readingS e.headwordS, aUnitSplit := e.splitsA, bUnitSplit := e.splitsB,
        wordStructure := e.wordStructure, synonymGroupIds := e.synonyms } :=
  parseWordInfo_lexAt pre es hwf hsize i e hi

/-- Header clause: `Header::parse (Header::write_to h ++ rest)` returns the version and the creation time as
written and the description **up to its first NUL byte** (`nul_terminated_str_from_slice`); for a NUL-free
description of at most 256 bytes that is the description itself (256 bytes exactly: no terminator is stored and
none is needed). -/
theorem header_roundtrip (v t : Nat) (desc rest : Bytes) (hv : IsVersion v) (ht : t < 18446744073709551616)
    (hd : desc.length ≤ 256) :
    writeHeader v t desc = .ok (hdrBytes v t desc) ∧ (hdrBytes v t desc).length = 272 ∧
    parseHeader (hdrBytes v t desc ++ rest) = .ok { version := v, createTime := t, description := desc.takeWhile (· ≠ 0) } ∧
    ((∀ b ∈ desc, b ≠ 0) → desc.takeWhile (· ≠ 0) = desc) := by
  have hv64 : v < 18446744073709551616 := by
    rcases hv with h | h | h | h | h <;> subst h <;> decide
  exact ⟨writeHeader_ok v t desc hd, hdrBytes_length v t desc hd, parseHeader_hdrBytes v t desc rest hv hv64 ht hd,
    takeWhile_no_zero desc⟩

/-- the writer refuses a longer description (no silent truncation) -/
theorem header_too_long (v t : Nat) (desc : Bytes) (hd : desc.length > 256) : writeHeader v t desc = .err "InvalidDataFormat" := by
  unfold writeHeader; simp only [DESCRIPTION_SIZE, hd, if_true]

set_option maxRecDepth 100000 in
/-- a description with an embedded NUL is written in full and loaded truncated (outside the property's list of
declared data; reported as an observation) -/
theorem header_nul_counterexample :
    (writeHeader SYSTEM_DICT_VERSION_2 0 [120, 0, 121]).bind parseHeader
      = .ok { version := SYSTEM_DICT_VERSION_2, createTime := 0, description := [120] } := by
  decide

/-- Grammar clause, POS table: `pos_list_parser (write_pos_table rows ++ rest) = (rows, rest)` for every list of
fewer than 65536 rows of six strings of at most 32767 UTF-16 units each (1-byte and 2-byte length prefixes alike). -/
theorem pos_table_roundtrip (pos : List (List Str)) (startPos : Nat) (h : PosOk (pos.drop startPos)) (rest : Bytes) :
    writePosTable pos startPos = .ok (posTableBytes (pos.drop startPos)) ∧
    posListParser (posTableBytes (pos.drop startPos) ++ rest) = some (pos.drop startPos, rest) :=
  ⟨writePosTable_ok pos startPos h, posListParser_enc _ h rest⟩

/-- **Whole-file clause** (`dict_roundtrip`, full).  For every builder state within the limits of the format
(`FileOk`, a decidable predicate: description ≤ 256 bytes, `u64` time, `u16` number of POS rows with six strings
each, strings of scalar values with ≤ 32767 UTF-16 units, keys ≤ 32767 bytes, `i16` matrix sizes with one cell per
pair, `i16` parameters, `u16` POS ids, `u32` ids, ≤ 127 items per array, ≤ 127 indexed entries per key, trie a
multiple of four bytes, file < 4 GiB) whose references are valid (`validateEntries`, the compiler's own check),
system or user dictionary alike:

* `DictBuilder::compile` succeeds and writes `fileBytes c` = header ++ POS table ++ matrix ++ index ++ lexicon;
* `read_any_dictionary` (and `read_system_dictionary` resp. `read_user_dictionary`) loads these bytes;
* the header carries the version of the dictionary kind, the creation time and the description (up to a NUL);
* the grammar carries exactly the POS rows the dictionary adds, the matrix sizes, and EVERY cell of the matrix
  (`conn_matrix().cost(l, r)` for any contents `v` the matrix bytes hold);
* the trie region and the word-id table region of the loaded lexicon are the trie blob and the table the builder
  wrote (`Lexicon::parse` offsets);
* for EVERY entry `i`: `get_params(i)` is its (left, right, cost) and `parse_word_info(i)` returns its headword,
  key length, POS id, stored normalised form and reading, dictionary-form id, split units, word structure and
  synonym groups (`wordinfo_roundtrip` turns the stored forms into the declared ones).

The dictionary-form id is the id as `write_word_info` stores it (`storeDf`, code variant `c.dfFix`): the declared id
itself for the code as it stands (`storeDf_cur`) and, in both variants, for `*` and every reference of a system
dictionary (`storeDf_sys`); the repaired writer stores `UN` as `N` (`storeDf_user`). -/
theorem dict_roundtrip (c : CompileInput) (hok : FileOk c)
    (hval : validateEntries c.dfOwn c.maxLeft c.maxRight c.numSystem c.entries = true) :
    ∃ ld g,
      compile c = .ok (fileBytes c) ∧
      readAny (fileBytes c) 0 = .ok ld ∧
      (if c.user then readUser (fileBytes c) 0 else readSystem (fileBytes c) 0) = .ok ld ∧
      -- header
      ld.header.version = versionOf c.user ∧ ld.header.createTime = c.time ∧
      ld.header.description = c.desc.takeWhile (· ≠ 0) ∧
      ((∀ b ∈ c.desc, b ≠ 0) → ld.header.description = c.desc) ∧
      -- grammar section
      ld.grammar = some g ∧ g.posList = c.pos.drop c.startPos ∧
      g.numLeft = c.conn.numLeft.toNat ∧ g.numRight = c.conn.numRight.toNat ∧
      (∀ v, Holds c.conn.matrix c.conn.numLeft.toNat c.conn.numRight.toNat v →
        ∀ l r, l < c.conn.numLeft.toNat → r < c.conn.numRight.toNat → g.cost l r = .ok (v l r)) ∧
      -- index
      (ld.lexicon.bytes.drop ld.lexicon.trieOff).take (4 * ld.lexicon.trieSize) = c.trie ∧
      (ld.lexicon.bytes.drop ld.lexicon.widTableOff).take ld.lexicon.widTableSize = widTableBytes c.entries ∧
      -- lexicon section
      ld.lexicon.size = c.entries.length ∧
      ∀ i e, c.entries[i]? = some e →
        ld.lexicon.getParams i = .ok (e.left, e.right, e.cost) ∧
        ld.lexicon.parseWordInfo i = .ok
          { surface := e.headwordS, headWordLength := utf8LenStr e.surface, posId := e.pos,
            normalizedForm := stored e.normS e.headwordS, dicFormWordId := u32ToI (storeDf c.dfFix e).dicForm,
            readingForm := stored e.readingS e.headwordS, aUnitSplit := e.splitsA, bUnitSplit := e.splitsB,
            wordStructure := e.wordStructure, synonymGroupIds := e.synonyms } := by
  obtain ⟨ld, g, hread, h⟩ := readAny_file c hok
  refine ⟨ld, g, compile_ok c hok hval, hread, readKind_file c ld g _ hread h, ?_, ?_, ?_, ?_, h.grammar, h.posList,
    h.numLeft, h.numRight, ?_, h.trie, h.widTable, by rw [h.size, storedEntries_length], ?_⟩
  · rw [h.header]
  · rw [h.header]
  · rw [h.header]
  · intro hz; rw [h.header]; exact takeWhile_no_zero c.desc hz
  · intro v hv l r hl hr; exact cost_loaded c ld g h v hv l r hl hr
  · intro i e hi
    have hs := storedEntries_get c i e hi
    obtain ⟨p1, p2, p3⟩ := storeDf_params c.dfFix e
    obtain ⟨f1, f2, f3, f4, f5, f6, f7, f8, f9⟩ := storeDf_fields c.dfFix e
    have hp := params_loaded c ld g h i _ hs (storedEntries_ok c hok.entries _ (List.mem_of_getElem? hs)).2
    have hw := wordinfo_loaded c ld g h hok i _ hs
    rw [p1, p2, p3] at hp
    rw [f1, f2, f3, f4, f5, f6, f7, f8, f9] at hw
    exact ⟨hp, hw⟩

/-- Whole file + matrix TEXT: when the matrix bytes of the builder state are what the lines of the matrix text
write onto the zero matrix (`write_elem` in file order), every cost the loaded grammar answers is the cost of the
last line naming the pair, or 0. -/
theorem dict_roundtrip_matrix (c : CompileInput) (hok : FileOk c)
    (lines : List (Int × Int × Int)) (hlines : LinesOk c.conn.numLeft.toNat c.conn.numRight.toNat lines)
    (hm : writeAll c.conn.numLeft.toNat lines (List.replicate (c.conn.numLeft.toNat * c.conn.numRight.toNat * 2) 0) = .ok c.conn.matrix) :
    ∃ ld g, readAny (fileBytes c) 0 = .ok ld ∧ ld.grammar = some g ∧
      ∀ l r, l < c.conn.numLeft.toNat → r < c.conn.numRight.toNat → g.cost l r = .ok (declared lines l r 0) := by
  obtain ⟨ld, g, hread, h⟩ := readAny_file c hok
  obtain ⟨m, hm', hh⟩ := writeAll_holds _ _ lines hlines _ _ (holds_zero _ _)
  rw [hm] at hm'
  cases hm'
  exact ⟨ld, g, hread, h.grammar, fun l r hl hr => cost_loaded c ld g h _ hh l r hl hr⟩

/-- Matrix TEXT clause (`ConnBuffer::read`): for a text whose first non-blank line is the header `nl nr` and whose
further non-blank lines all parse to in-range triples `t`, `read_conn` succeeds with sizes `nl x nr` and a matrix in
which every cell holds the cost of the last line naming it, or 0 (line loop = `write_elem` in file order onto the
zero matrix).  With `dict_roundtrip_matrix` this carries the matrix text through the file to `cost(l, r)`. -/
theorem conn_text_roundtrip (text h : Str) (rest : List Str) (nl nr : Nat) (t : List (Int × Int × Int))
    (hbody : (readLines text).dropWhile isEmptyLine = h :: rest)
    (hhdr : (splitnWhite 2 (trim h)).map parseI16 = [some (nl : Int), some (nr : Int)])
    (hlines : lineTriples rest = some t) (hok : LinesOk nl nr t) :
    ∃ m, readConn text = .ok { matrix := m, numLeft := nl, numRight := nr } ∧
      writeAll nl t (List.replicate (nl * nr * 2) 0) = .ok m ∧ m.length = nl * nr * 2 ∧
      ∀ l r, l < nl → r < nr → connCost m nl nr l r = .ok (declared t l r 0) := by
  obtain ⟨m, hm, hlen, hcost⟩ : ∃ m, writeAll nl t (List.replicate (nl * nr * 2) 0) = .ok m ∧ m.length = nl * nr * 2 ∧
      ∀ l r, l < nl → r < nr → connCost m nl nr l r = .ok (declared t l r 0) := by
    obtain ⟨m, hm, hh⟩ := writeAll_holds nl nr t hok _ _ (holds_zero nl nr)
    refine ⟨m, hm, hh.1, ?_⟩
    intro l r hl hr
    unfold connCost
    have : ¬ (l ≥ nl ∨ r ≥ nr) := by omega
    simp only [this, if_false, hh.2 l r hl hr]
  refine ⟨m, ?_, hm, hlen, hcost⟩
  unfold readConn
  simp only [hbody, hhdr]
  have hneg : ¬ ((nl : Int) < 0 ∨ (nr : Int) < 0) := by omega
  simp only [hneg, if_false, Int.toNat_natCast]
  rw [parseConnLines_eq nl rest t _ hlines, hm]

/-- Whole file + dictionary forms: `get_word_info(i)` on the loaded file resolves the STORED dictionary-form id `d`
inside the same lexicon and reports the headword of entry `d`.  For a system dictionary `d` is the declared id
(`storeDf_sys`), so this is the clause "dictionary forms resolved to the intended entries"; for a user dictionary
see `user_dicform_repaired` (variant `fix`) and `user_dicform_counterexample` (variant `cur`). -/
theorem dict_roundtrip_dicform (c : CompileInput) (hok : FileOk c)
    (i : Nat) (e : Entry) (hi : c.entries[i]? = some e) (target : Option Entry)
    (hdf : ((storeDf c.dfFix e).dicForm = INVALID_WID ∧ target = none) ∨ ((storeDf c.dfFix e).dicForm = i ∧ target = none) ∨
           ((storeDf c.dfFix e).dicForm < 2147483648 ∧ (storeDf c.dfFix e).dicForm ≠ i ∧
              ∃ t, c.entries[(storeDf c.dfFix e).dicForm]? = some t ∧ target = some t)) :
    ∃ ld wi, readAny (fileBytes c) 0 = .ok ld ∧ ld.lexicon.getWordInfo i = .ok wi ∧ wi.surface = e.headwordS ∧
      wi.dictionaryFormA = (match target with
        | none => e.headwordS
        | some t => if t.headwordS = [] then e.headwordS else t.headwordS) := by
  obtain ⟨ld, g, hread, h⟩ := readAny_file c hok
  have hs := storedEntries_get c i e hi
  have hdf' : ((storeDf c.dfFix e).dicForm = INVALID_WID ∧ target.map (storeDf c.dfFix) = none) ∨
      ((storeDf c.dfFix e).dicForm = i ∧ target.map (storeDf c.dfFix) = none) ∨
      ((storeDf c.dfFix e).dicForm < 2147483648 ∧ (storeDf c.dfFix e).dicForm ≠ i ∧
        ∃ t, (storedEntries c)[(storeDf c.dfFix e).dicForm]? = some t ∧ target.map (storeDf c.dfFix) = some t) := by
    rcases hdf with ⟨h1, h2⟩ | ⟨h1, h2⟩ | ⟨h1, h2, t, ht, h3⟩
    · exact Or.inl ⟨h1, by rw [h2]; rfl⟩
    · exact Or.inr (Or.inl ⟨h1, by rw [h2]; rfl⟩)
    · exact Or.inr (Or.inr ⟨h1, h2, _, storedEntries_get c _ t ht, by rw [h3]; rfl⟩)
  obtain ⟨wi, hwi, h1, h2⟩ := getWordInfo_lexAt (preBytes c) (storedEntries c)
    (fun e he => (storedEntries_ok c hok.entries e he).1) hok.size i _ hs _ hdf'
  refine ⟨ld, wi, hread, by rw [getWordInfo_loaded c ld g h i]; exact hwi, by rw [h1, (storeDf_fields _ e).1], ?_⟩
  cases target with
  | none => rw [h2]; exact (storeDf_fields _ e).1
  | some t => rw [h2]; simp only [Option.map_some, (storeDf_fields _ e).1, (storeDf_fields _ t).1]

/-- D8 first half REPAIRED (variant `fix` = `fix_D8.patch`): in a user dictionary compiled by the repaired writer,
a row that names the own entry `k` as `Uk` is loaded with the headword of entry `k` as its dictionary form
(for the code as it stands the same row panics: `user_dicform_counterexample`).  A plain `N` in a user dictionary
keeps meaning "whatever own entry N is" to the reader and "system word N" to the validator (second half of D8,
`user_dicform_wrong_counterexample`, unchanged: what the column should mean there is the maintainers' call). -/
theorem user_dicform_repaired (c : CompileInput) (hok : FileOk c) (hfix : c.dfFix = true)
    (i k : Nat) (e t : Entry) (hi : c.entries[i]? = some e) (hk : k < 268435456) (hne : k ≠ i)
    (hdf : e.dicForm = widNew 1 k) (ht : c.entries[k]? = some t) (hnonempty : t.headwordS ≠ []) :
    ∃ ld wi, readAny (fileBytes c) 0 = .ok ld ∧ ld.lexicon.getWordInfo i = .ok wi ∧ wi.surface = e.headwordS ∧
      wi.dictionaryFormA = t.headwordS := by
  have hd : (storeDf c.dfFix e).dicForm = k := by rw [hfix]; exact storeDf_user e k hk hdf
  obtain ⟨ld, wi, h1, h2, h3, h4⟩ := dict_roundtrip_dicform c hok i e hi (some t)
    (Or.inr (Or.inr ⟨by rw [hd]; omega, by rw [hd]; exact hne, t, by rw [hd]; exact ht, rfl⟩))
  exact ⟨ld, wi, h1, h2, h3, by rw [h4]; simp [hnonempty]⟩

/-- Clause "dictionary forms resolved to the intended entries", SYSTEM dictionaries: `get_word_info(i)`
reports as dictionary form the headword of the entry the row names (`*` or a self reference: its own
headword; an empty headword of the target cannot be told from "none").  For USER dictionaries this is
false: `user_dicform_counterexample`. -/
theorem dicform_roundtrip (pre : Bytes) (es : List Entry) (hwf : ∀ e ∈ es, e.WF)
    (hsize : (pre ++ lexiconBytes es (es.map encWordInfo) pre.length).length < 4294967296)
    (i : Nat) (e : Entry) (hi : es[i]? = some e) (target : Option Entry)
    (hdf : (e.dicForm = INVALID_WID ∧ target = none) ∨ (e.dicForm = i ∧ target = none) ∨
           (e.dicForm < 2147483648 ∧ e.dicForm ≠ i ∧ ∃ t, es[e.dicForm]? = some t ∧ target = some t)) :
    ∃ wi, (lexAt pre es).getWordInfo i = .ok wi ∧ wi.surface = e.headwordS ∧
      wi.dictionaryFormA = (match target with
        | none => e.headwordS
        | some t => if t.headwordS = [] then e.headwordS else t.headwordS) :=
  getWordInfo_lexAt pre es hwf hsize i e hi target hdf

/-- Clause "compiling the same inputs with the same timestamp twice yields byte-identical output",
as far as a model can say it: the model compiler is a function of (entries in order, POS table in
insertion order, matrix, timestamp, description, trie blob) and nothing else.  That the Rust keeps
to insertion-ordered containers is what the byte-exact correspondence run checks. -/
theorem compile_deterministic (a b : CompileInput) (h : a = b) : compile a = compile b := by
  rw [h]

/-- The same for the whole pipeline `read_conn` + `read_lexicon` + `resolve` + `compile`: the bytes are a function
of (creation time, description, matrix text, CSV records in order, trie blob) and of the code variant `v`; the
creation time is a parameter (`set_compile_time`), never read from a clock. -/
theorem build_deterministic (v : Bool) (t1 t2 : Nat) (d1 d2 : Bytes) (m1 m2 : Str) (r1 r2 : List (Array Str)) (tr1 tr2 : Bytes)
    (h : t1 = t2 ∧ d1 = d2 ∧ m1 = m2 ∧ r1 = r2 ∧ tr1 = tr2) :
    buildSystem v t1 d1 m1 r1 tr1 = buildSystem v t2 d2 m2 r2 tr2 := by
  obtain ⟨rfl, rfl, rfl, rfl, rfl⟩ := h; rfl

/-- Clause "the result does not depend on the memory alignment of the loaded bytes": the loader reads
the bytes of the dictionary only, wherever they start in the enclosing buffer. -/
theorem load_alignment_free (pad bytes : Bytes) :
    readAny (pad ++ bytes) pad.length = readAny bytes 0 ∧
    readSystem (pad ++ bytes) pad.length = readSystem bytes 0 ∧
    readUser (pad ++ bytes) pad.length = readUser bytes 0 := by
  have h : readAny (pad ++ bytes) pad.length = readAny bytes 0 := by
    unfold readAny
    simp only [List.drop_left, List.drop_zero]
  refine ⟨h, ?_, ?_⟩
  · unfold readSystem; rw [h]
  · unfold readUser; rw [h]

/-! ## the CSV side: `LexiconReader::read_bytes` -/

/-- Record-level contract of the lexicon reader, RFC 4180 direction (full).  `csvRecords` is the reader
`LexiconReader::read_bytes` configures (csv-core's automaton for delimiter `,`, quote `"` with `""`, NO comment
character, no trimming, terminators `\r` / `\n` / `\r\n`, records of any length), executed by the driver on the CSV
TEXT of every case.  For EVERY list of non-empty records, whatever the fields contain (`#` at the start of a line,
quotes, commas, line breaks, U+FEFF, spaces), written as RFC 4180 writes them (every field in quotes, `"` doubled,
any of the three terminators after each record), the reader returns exactly these records, in order: every written
line is one record, nothing is a comment, nothing is trimmed, no record is merged or dropped. -/
theorem csv_records_roundtrip (rs : List (List Str × CsvTerm)) (hne : ∀ r ∈ rs, r.1 ≠ []) :
    csvRecords (csvRender rs) = rs.map (·.1) := by
  unfold csvRecords
  rw [csvStripBom_render rs hne]
  obtain ⟨s', hs', h⟩ := csv_all_records rs hne .startRecord (Or.inl rfl) []
  have h' : (csvRender rs).foldl csvStep {} = { st := s', cur := [], fields := [], recs := (rs.map (·.1)).reverse ++ [] } := h
  rw [h']
  rcases hs' with rfl | rfl <;> simp [csvFinal]

set_option maxRecDepth 100000 in
/-- The same contract on the shapes an RFC 4180 writer does NOT produce but the reader accepts (kernel-evaluated on
the model; each shape is generated by the harness and compared with the real reader on every run): a line that starts
with `#` is a record (no comment lines - seeded change C05d); a `"` inside an unquoted field is text; text after a
closing quote is appended; a trailing comma adds an empty field; a byte order mark is dropped at the very start only;
blank lines (`\n`, `\r\n`, bare `\r`) are no records; the last record needs no terminator; an unterminated quote runs
to the end of the input; spaces are kept. -/
theorem csv_special_shapes :
    csvRecords (lit "#a,b\n#\n") = [[lit "#a", lit "b"], [lit "#"]] ∧
    csvRecords (lit "a\"b,\"c\"d\n") = [[lit "a\"b", lit "cd"]] ∧
    csvRecords (lit "a,b,\n") = [[lit "a", lit "b", []]] ∧
    csvRecords (0xFEFF :: lit "a\n") = [[lit "a"]] ∧ csvRecords (lit "a," ++ 0xFEFF :: lit "b\n") = [[lit "a", 0xFEFF :: lit "b"]] ∧
    csvRecords (lit "\n\r\n\ra\r\r\nb\n\n") = [[lit "a"], [lit "b"]] ∧
    csvRecords (lit "a,b") = [[lit "a", lit "b"]] ∧ csvRecords (lit "a,") = [[lit "a", []]] ∧
    csvRecords (lit "\"a\nb") = [[lit "a\nb"]] ∧
    csvRecords (lit " a , b \n") = [[lit " a ", lit " b "]] ∧
    csvRecords (lit "\"\"\n") = [[[]]] ∧ csvRecords [] = [] := by
  decide

/-- Determinism from the source TEXT: the bytes are a function of (code variant, creation time, description, matrix
text, CSV text, trie blob) - `read_bytes` has no other input (no clock, no environment, no hash order). -/
theorem build_text_deterministic (v : Bool) (t1 t2 : Nat) (d1 d2 : Bytes) (m1 m2 c1 c2 : Str) (tr1 tr2 : Bytes)
    (h : t1 = t2 ∧ d1 = d2 ∧ m1 = m2 ∧ c1 = c2 ∧ tr1 = tr2) :
    buildSystemText v t1 d1 m1 c1 tr1 = buildSystemText v t2 d2 m2 c2 tr2 := by
  obtain ⟨rfl, rfl, rfl, rfl, rfl⟩ := h; rfl

/-- D8 second half under the candidate repair `fix_D8b.patch` (validator variant `dfOwn`, together with the landed
repair of the first half, writer variant `dfFix`).  In a USER dictionary that passes `validate_entries`, EVERY row that
declares a dictionary form - `N` or `UN` - is loaded without panic, and `get_word_info` reports the headword of the
dictionary's OWN entry `N` (which exists): validator, writer and reader agree on what the column names.  For the code
as it stands (`dfOwn = false`) the validator checks `N` against the SYSTEM dictionary while the reader resolves it in
the user dictionary: `user_dicform_wrong_counterexample`. -/
theorem user_dicform_own_repaired (c : CompileInput) (hok : FileOk c) (hfix : c.dfFix = true) (hown : c.dfOwn = true)
    (n : Nat) (huser : c.numSystem = some n)
    (hval : validateEntries c.dfOwn c.maxLeft c.maxRight c.numSystem c.entries = true)
    (i : Nat) (e : Entry) (hi : c.entries[i]? = some e) (hdf : e.dicForm ≠ INVALID_WID) :
    ∃ ld wi t, readAny (fileBytes c) 0 = .ok ld ∧ ld.lexicon.getWordInfo i = .ok wi ∧ wi.surface = e.headwordS ∧
      c.entries[widWord e.dicForm]? = some t ∧
      wi.dictionaryFormA = (if t.headwordS = [] then e.headwordS else t.headwordS) := by
  have hk28 : widWord e.dicForm < 268435456 := by
    unfold widWord WORD_MASK
    have : e.dicForm &&& 0x0fffffff ≤ 0x0fffffff := Nat.and_le_right
    omega
  -- the validator saw the own entry
  have hlen : widWord e.dicForm < c.entries.length := by
    have hmem := List.mem_of_getElem? hi
    rw [hown, huser] at hval
    simp only [validateEntries, List.all_eq_true] at hval
    have he := hval e hmem
    simp only [validateEntry, Bool.and_eq_true, Bool.or_eq_true, decide_eq_true_eq] at he
    obtain ⟨⟨⟨⟨_, hd⟩, _⟩, _⟩, _⟩ := he
    rcases hd with hd | hd
    · exact absurd hd hdf
    · obtain ⟨_, h2, h3⟩ := widNew_user (widWord e.dicForm) hk28
      simp only [dfCheckId, Option.isSome, Bool.and_self, if_true, validateWid, h2, h3] at hd
      simpa using hd
  -- the writer stored the index
  have hst : (storeDf c.dfFix e).dicForm = widWord e.dicForm := by
    rw [hfix]
    by_cases hz : widDic e.dicForm = 0
    · rw [storeDf_sys true e (Or.inr hz)]; exact (widWord_of_dic_zero _ hz).symm
    · unfold storeDf; simp [hdf, hz]
  obtain ⟨t, ht⟩ : ∃ t, c.entries[widWord e.dicForm]? = some t := ⟨c.entries[widWord e.dicForm], by simp [hlen]⟩
  by_cases hself : widWord e.dicForm = i
  · obtain ⟨ld, wi, h1, h2, h3, h4⟩ := dict_roundtrip_dicform c hok i e hi none (Or.inr (Or.inl ⟨by rw [hst]; exact hself, rfl⟩))
    have hte : t = e := by rw [hself, hi] at ht; exact (Option.some.inj ht).symm
    exact ⟨ld, wi, t, h1, h2, h3, ht, by rw [h4, hte]; simp⟩
  · obtain ⟨ld, wi, h1, h2, h3, h4⟩ := dict_roundtrip_dicform c hok i e hi (some t)
      (Or.inr (Or.inr ⟨by rw [hst]; omega, by rw [hst]; exact hself, t, by rw [hst]; exact ht, rfl⟩))
    exact ⟨ld, wi, t, h1, h2, h3, ht, h4⟩

/-! non-vacuity of the hypotheses -/

example : (127 : Nat) ≤ 32767 ∧ stringLength (encLen 127 ++ [9]) = some (127, [9]) ∧ encLen 126 = [126] ∧ encLen 127 = [128, 127] ∧ encLen 128 = [128, 128] := by decide
example : IsScalar 0x20BB7 ∧ encodeUtf16 0x20BB7 = [0xD842, 0xDFB7] ∧ decodeUtf16 [0xD842, 0xDFB7] = some [0x20BB7] := by
  refine ⟨Or.inr (by decide), by decide, by decide⟩
example : LinesOk 2 3 [(1, 2, -5), (0, 0, 7), (1, 2, 9)] ∧ declared [(1, 2, -5), (0, 0, 7), (1, 2, 9)] 1 2 0 = 9 := by
  refine ⟨?_, by decide⟩
  intro x hx; simp at hx; rcases hx with rfl | rfl | rfl <;> decide
set_option maxRecDepth 100000 in
example : (lexAt [7, 7, 7] [emptyReadingEntry]).parseWordInfo 0 = .ok
    { surface := [12354], headWordLength := 3, dicFormWordId := -1 } ∧
    ([7, 7, 7] ++ lexiconBytes [emptyReadingEntry] ([emptyReadingEntry].map encWordInfo) 3).length < 4294967296 := by decide
example : emptyReadingEntry.WF :=
  { hw := ⟨fun c hc => by simp [emptyReadingEntry, Entry.headwordS] at hc; subst hc; exact Or.inl (by decide), by decide⟩,
    nf := ⟨fun c hc => by simp [emptyReadingEntry, Entry.normS, Entry.headwordS] at hc; subst hc; exact Or.inl (by decide), by decide⟩,
    rd := ⟨fun c hc => by simp [emptyReadingEntry, Entry.readingS] at hc, by decide⟩,
    key := by decide, pos := by decide, df := by decide,
    a := ⟨by decide, fun x hx => by simp [emptyReadingEntry] at hx⟩, b := ⟨by decide, fun x hx => by simp [emptyReadingEntry] at hx⟩,
    ws := ⟨by decide, fun x hx => by simp [emptyReadingEntry] at hx⟩, syn := ⟨by decide, fun x hx => by simp [emptyReadingEntry] at hx⟩ }

/-- a small builder state within the limits: two entries (the second names the first as its dictionary form), one
POS row with an empty and an astral string, a 2 x 1 matrix holding 5 and -5 -/
def sampleInput : CompileInput :=
  { user := false, time := 1600000000, desc := [118], pos := [[[97], [98], [], [42], [42], [0x20BB7]]], startPos := 0,
    conn := { matrix := [5, 0, 251, 255], numLeft := 2, numRight := 1 },
    entries := [plainEntry [12354] INVALID_WID, plainEntry [12354, 12356] 0],
    maxLeft := 2, maxRight := 1, numSystem := none, trie := [1, 2, 3, 4] }

set_option maxRecDepth 100000 in
example : FileOk sampleInput ∧
    validateEntries sampleInput.dfOwn sampleInput.maxLeft sampleInput.maxRight sampleInput.numSystem sampleInput.entries = true := by decide
set_option maxRecDepth 100000 in
example : FileOk { sampleInput with user := true, numSystem := some 1, startPos := 1, conn := {}, entries := [plainEntry [12354] 0] } := by decide
set_option maxRecDepth 100000 in
example : LinesOk 2 1 [(0, 0, 5), (1, 0, -5)] ∧
    writeAll sampleInput.conn.numLeft.toNat [(0, 0, 5), (1, 0, -5)]
      (List.replicate (sampleInput.conn.numLeft.toNat * sampleInput.conn.numRight.toNat * 2) 0) = .ok sampleInput.conn.matrix := by
  refine ⟨?_, by decide⟩
  intro x hx; simp at hx; rcases hx with rfl | rfl <;> decide
example : ∃ t, sampleInput.entries[1]? = some (plainEntry [12354, 12356] 0) ∧ (plainEntry [12354, 12356] 0).dicForm < 2147483648 ∧
    (plainEntry [12354, 12356] 0).dicForm ≠ 1 ∧ sampleInput.entries[(plainEntry [12354, 12356] 0).dicForm]? = some t :=
  ⟨_, rfl, by decide, by decide, rfl⟩
/-- a user dictionary compiled by the repaired writer: row 0 (`あ`) names row 1 (`い`) as `U1` -/
def repairedUserInput : CompileInput :=
  { user := true, dfFix := true, time := 1600000000, desc := [117], pos := [[[97], [98], [], [42], [42], [0x20BB7]]], startPos := 1,
    conn := { matrix := [], numLeft := 0, numRight := 0 },
    entries := [plainEntry [12354] (widNew 1 1), plainEntry [12356] INVALID_WID],
    maxLeft := 2, maxRight := 1, numSystem := some 5, trie := [1, 2, 3, 4] }
set_option maxRecDepth 100000 in
example : FileOk repairedUserInput ∧ repairedUserInput.dfFix = true ∧
    validateEntries repairedUserInput.dfOwn repairedUserInput.maxLeft repairedUserInput.maxRight repairedUserInput.numSystem repairedUserInput.entries = true ∧
    repairedUserInput.entries[0]? = some (plainEntry [12354] (widNew 1 1)) ∧ (plainEntry [12354] (widNew 1 1)).dicForm = widNew 1 1 ∧
    repairedUserInput.entries[1]? = some (plainEntry [12356] INVALID_WID) ∧ (plainEntry [12356] INVALID_WID).headwordS ≠ [] := by decide
set_option maxRecDepth 100000 in
/-- the same two rows, stored by the writer as it stands and by the repaired one -/
example : (lexOf ([plainEntry [12354] (widNew 1 1), plainEntry [12356] INVALID_WID].map (storeDf false))).getWordInfo 0
      = .panic "slice:word_id_to_offset" ∧
    ((lexOf ([plainEntry [12354] (widNew 1 1), plainEntry [12356] INVALID_WID].map (storeDf true))).getWordInfo 0).bind
      (fun wi => .ok wi.dictionaryFormA) = .ok [12356] := by decide
example : IsVersion SYSTEM_DICT_VERSION_2 ∧ IsVersion USER_DICT_VERSION_3 ∧ versionOf false = SYSTEM_DICT_VERSION_2 :=
  ⟨Or.inr (Or.inl rfl), Or.inr (Or.inr (Or.inr (Or.inr rfl))), rfl⟩
example : PosOk ([[[97], [98], [], [42], [42], [0x20BB7]]] : List (List Str)) := by decide
set_option maxRecDepth 100000 in
/-- the matrix text `2 1\n0 0 5\n\n1 0 -5\n` -/
example : (readLines (lit "2 1\n0 0 5\n\n1 0 -5\n")).dropWhile isEmptyLine = lit "2 1\n" :: [lit "0 0 5\n", lit "\n", lit "1 0 -5\n"] ∧
    (splitnWhite 2 (trim (lit "2 1\n"))).map parseI16 = [some ((2 : Nat) : Int), some ((1 : Nat) : Int)] ∧
    lineTriples [lit "0 0 5\n", lit "\n", lit "1 0 -5\n"] = some [(0, 0, 5), (1, 0, -5)] := by decide
example : Holds (List.replicate (2 * 3 * 2) 0) 2 3 (fun _ _ => 0) := holds_zero 2 3
set_option maxRecDepth 100000 in
/-- two records with every CSV-special character, written with three different terminators -/
example : (∀ r ∈ [([lit "#x", lit "a\"b,c\nd"], CsvTerm.crlf), ([[], 0xFEFF :: lit "y"], CsvTerm.cr), ([lit " z "], CsvTerm.lf)], r.1 ≠ []) ∧
    csvRecords (csvRender [([lit "#x", lit "a\"b,c\nd"], CsvTerm.crlf), ([[], 0xFEFF :: lit "y"], CsvTerm.cr), ([lit " z "], CsvTerm.lf)])
      = [[lit "#x", lit "a\"b,c\nd"], [[], 0xFEFF :: lit "y"], [lit " z "]] := by decide
/-- a user dictionary under both repairs: row 0 (`あ`) names own entry 1 (`い`) by the plain id `1`, row 1 names row 0 as `U0` -/
def ownUserInput : CompileInput :=
  { user := true, dfFix := true, dfOwn := true, time := 1600000000, desc := [117], pos := [[[97], [98], [], [42], [42], [0x20BB7]]], startPos := 1,
    conn := { matrix := [], numLeft := 0, numRight := 0 },
    entries := [plainEntry [12354] 1, plainEntry [12356] (widNew 1 0)],
    maxLeft := 2, maxRight := 1, numSystem := some 1, trie := [1, 2, 3, 4] }
set_option maxRecDepth 100000 in
example : FileOk ownUserInput ∧ ownUserInput.dfFix = true ∧ ownUserInput.dfOwn = true ∧ ownUserInput.numSystem = some 1 ∧
    validateEntries ownUserInput.dfOwn ownUserInput.maxLeft ownUserInput.maxRight ownUserInput.numSystem ownUserInput.entries = true ∧
    ownUserInput.entries[0]? = some (plainEntry [12354] 1) ∧ (plainEntry [12354] 1).dicForm ≠ INVALID_WID ∧
    -- the code as it stands refuses this dictionary (system word 1 does not exist) ...
    validateEntries false ownUserInput.maxLeft ownUserInput.maxRight ownUserInput.numSystem ownUserInput.entries = false ∧
    -- ... and accepts `5` with six system words, which the reader cannot resolve; the repaired validator refuses it
    validateEntries false 2 1 (some 6) [plainEntry [12354] 5] = true ∧ validateEntries true 2 1 (some 6) [plainEntry [12354] 5] = false := by decide

end C05
