import Sudachi.Model.Codec
import Sudachi.Model.CodecBuild
import Sudachi.Proofs.Codec
import Sudachi.Proofs.CodecLayout
import Sudachi.Proofs.CodecFile
import Sudachi.Proofs.CodecCsv
import Sudachi.Proofs.CodecFields
import Sudachi.Proofs.CodecSubset
import Sudachi.Props.C11
/-!
# C05 — compile-then-load round trip preserves every dictionary field, deterministically

Model: `Codec` (`Model/Codec.lean`: writers of `dic/build/primitives.rs`, `lexicon.rs write_word_info`,
`conn.rs write_elem`, readers of `dic/read/*`, `lexicon/word_infos.rs`, `connect.rs`, `grammar.rs`,
`header.rs`; `Model/CodecBuild.lean`: CSV field parsers, resolver, layout of `DictBuilder::compile`).
Quantifiers: every string of Unicode scalar values, every length `0..32767`, every array of up to 127
`u32`s, every well-formed entry, every matrix shape and every list of in-range matrix lines.
-/
namespace C05
open Codec

/-- Clause "length prefix: 1 byte below 127, else 2 bytes with the high bit; the reader accepts both".
For every length the writer accepts (`0..=i16::MAX`) the reader returns it and leaves the rest
untouched — 126/127/128 are not special cases. -/
theorem len_roundtrip (n : Nat) (hn : n ≤ 32767) (rest : Bytes) :
    writeLen n = .ok (encLen n) ∧ stringLength (encLen n ++ rest) = some (n, rest) ∧
      (encLen n).length = (if n < 127 then 1 else 2) := by
  refine ⟨?_, stringLength_encLen n hn rest, encLen_length n⟩
  unfold writeLen
  simp only [show ¬ n > 32767 by omega, if_false]

/-- the writer rejects every longer length (no silent truncation of the 15-bit prefix) -/
theorem len_too_long (n : Nat) (hn : n > 32767) : writeLen n = .err "InvalidSize" := by
  unfold writeLen; simp only [hn, if_true]

/-- Clause "UTF-16 strings incl. surrogate pairs": one scalar value, BMP or astral, followed by
anything, decodes to itself. -/
theorem utf16_roundtrip (c : Nat) (hc : IsScalar c) (us : List Nat) :
    decodeUtf16 (encodeUtf16 c ++ us) = (decodeUtf16 us).map (c :: ·) :=
  decodeUtf16_encode c hc us

/-- Whole strings: `utf16_string_parser (Utf16Writer::write s ++ rest) = (s, rest)` for every string of
scalar values with at most 32767 UTF-16 code units. -/
theorem string_roundtrip (s : Str) (hs : Scalars s) (hl : (units s).length ≤ 32767) (rest : Bytes) :
    utf16StringParser (encStr s ++ rest) = some (s, rest) :=
  utf16StringParser_encStr s hs hl rest

/-- Clause "up to 127 array items": `u32_array_parser (write_u32_array xs ++ rest) = (xs, rest)`
(split units, word structure and synonym groups all use this codec; `WordId::from_raw` is the identity). -/
theorem u32array_roundtrip (xs : List Nat) (hl : xs.length ≤ 127) (h : ∀ x ∈ xs, x < 4294967296) (rest : Bytes) :
    writeU32Array xs = .ok (encU32s xs) ∧ u32ArrayParser (encU32s xs ++ rest) = some (xs, rest) := by
  refine ⟨?_, u32ArrayParser_encU32s xs h rest⟩
  unfold writeU32Array
  simp only [show ¬ xs.length > 127 by omega, if_false]

/-- Clause "field order and encodings of the writer mirror the reader" + "forms equal to the headword
are stored empty and restored on access".  For every well-formed entry, parsing the record written by
`write_word_info` (followed by any bytes) and reading it through the `WordInfo` accessors yields the
declared headword, key length, POS id, dictionary-form id, split units, word structure and synonym
groups; the normalised form and the reading come back as declared **unless declared empty**, in which
case the accessor answers the headword (see `empty_form_counterexample`). -/
theorem wordinfo_roundtrip (e : Entry) (wf : e.WF) (rest : Bytes) :
    ∃ wi, parseWordInfo (encWordInfo e ++ rest) = some wi ∧
      wi.surface = e.headwordS ∧
      wi.headWordLength = utf8LenStr e.surface ∧
      wi.posId = e.pos ∧
      wi.normalizedFormA = (if e.normS = [] then e.headwordS else e.normS) ∧
      wi.readingFormA = (if e.readingS = [] then e.headwordS else e.readingS) ∧
      wi.dicFormWordId = u32ToI e.dicForm ∧
      wi.aUnitSplit = e.splitsA ∧ wi.bUnitSplit = e.splitsB ∧
      wi.wordStructure = e.wordStructure ∧ wi.synonymGroupIds = e.synonyms := by
  refine ⟨_, parseWordInfo_enc e wf rest, rfl, rfl, rfl, ?_, ?_, rfl, rfl, rfl, rfl, rfl⟩
  · simp only [WordInfoData.normalizedFormA, stored]
    by_cases h1 : e.normS = e.headwordS
    · by_cases h2 : e.normS = []
      · simp [h1]
      · simp [h1]
    · by_cases h2 : e.normS = []
      · simp [h2]
      · simp [h1, h2]
  · simp only [WordInfoData.readingFormA, stored]
    by_cases h1 : e.readingS = e.headwordS
    · by_cases h2 : e.readingS = []
      · simp [h1]
      · simp [h1]
    · by_cases h2 : e.readingS = []
      · simp [h2]
      · simp [h1, h2]

/-- the checked writer accepts every well-formed entry and emits exactly `encWordInfo`: the byte-size guard of
`Utf16Writer::write` (256 KiB of UTF-8) cannot fire for a string of at most 32767 UTF-16 units (`utf8LenStr_le`:
at most three bytes per unit), so well-formedness alone suffices -/
theorem wordinfo_written (e : Entry) (wf : e.WF) : writeWordInfo e = .ok (encWordInfo e) := by
  apply writeWordInfo_ok e wf
  have a := utf8LenStr_le e.headwordS
  have b := utf8LenStr_le e.normS
  have c := utf8LenStr_le e.readingS
  have := wf.hw.2; have := wf.nf.2; have := wf.rd.2
  omega

/-- a concrete entry (`あ`, reading declared empty) -/
def emptyReadingEntry : Entry :=
  { left := 0, right := 0, cost := 0, surface := [12354], headword := none, dicForm := INVALID_WID, normForm := none,
    pos := 0, splitsA := [], splitsB := [], reading := some [], wordStructure := [], synonyms := [] }

/-- The property's "exactly the declared data" is FALSE for an empty declared reading (same for the
normalised form): the binary format uses the empty string for "equal to the headword", so a row that
declares the empty reading is loaded with the headword as its reading.  Kernel-checked witness, also
reproduced on the implementation (finding `c05:empty-form`). -/
theorem empty_form_counterexample :
    emptyReadingEntry.readingS = [] ∧
    (parseWordInfo (encWordInfo emptyReadingEntry)).map (·.readingFormA) = some [12354] := by
  decide

/-- F-EMPTY is a property of the FORMAT, not of one line of the writer: for EVERY entry, declaring the reading
(resp. the normalised form) empty and not declaring it at all (= equal to the headword) produce byte-identical
records, so no reader can tell them apart; a repair needs a format change (a flag or a sentinel), or the builder
must refuse an empty declared form. -/
theorem empty_form_indistinguishable (e : Entry) :
    encWordInfo { e with reading := some [] } = encWordInfo { e with reading := none } ∧
    encWordInfo { e with normForm := some [] } = encWordInfo { e with normForm := none } := by
  have a : ∀ hw : Str, stored [] hw = stored hw hw := by
    intro hw; unfold stored; split <;> simp
  constructor
  · apply encWordInfo_congr <;> first | rfl | exact a e.headwordS
  · apply encWordInfo_congr <;> first | rfl | exact a e.headwordS

/-- a minimal entry with headword `s` and dictionary-form id `df` -/
def plainEntry (s : Str) (df : Nat) : Entry :=
  { left := 0, right := 0, cost := 0, surface := s, headword := none, dicForm := df, normForm := none,
    pos := 0, splitsA := [], splitsB := [], reading := none, wordStructure := [], synonyms := [] }

/-- the lexicon section holding `es` (as `LexiconWriter::write` lays it out at offset 0) -/
def lexOf (es : List Entry) : Lexicon :=
  { bytes := lexiconBytes es (es.map encWordInfo) 0, trieOff := 0, trieSize := 0, widTableOff := 0, widTableSize := 0,
    paramsOff := 4, size := es.length, infosOff := 4 + 6 * es.length, hasSynonyms := true }

set_option maxRecDepth 100000 in
/-- D8, first half (kernel-checked witness on the model; reproduced on the implementation, finding
`c05:user-dicform:panic`).  A USER dictionary row `あ` declaring the dictionary form `U0` passes
`validate_entries` (user word 0 exists), is written with the raw id `0x10000000`, and
`WordInfos::get_word_info` then indexes the offsets table of the same lexicon with that raw id: panic. -/
theorem user_dicform_counterexample :
    validateEntries false 1 1 (some 5) [plainEntry [12354] (widNew 1 0)] = true ∧
    (lexOf [plainEntry [12354] (widNew 1 0)]).getWordInfo 0 = .panic "slice:word_id_to_offset" := by
  decide

set_option maxRecDepth 100000 in
/-- D8, second half (finding `c05:user-dicform:wrong`).  A user row `あ` declaring the dictionary form
`1` (= SYSTEM word 1 for the validator: 5 system words exist) gets the headword of USER word 1 (`い`)
as its dictionary form, whatever system word 1 is. -/
theorem user_dicform_wrong_counterexample :
    validateEntries false 1 1 (some 5) [plainEntry [12354] 1, plainEntry [12356] INVALID_WID] = true ∧
    ((lexOf [plainEntry [12354] 1, plainEntry [12356] INVALID_WID]).getWordInfo 0).bind (fun wi => .ok wi.dictionaryFormA)
      = .ok [12356] := by
  decide

/-- Clause "the connection cost of every id pair equals the matrix text" (`write_elem` at
`right*num_left+left`, read with the same formula).  For every shape and every list of in-range lines
written in file order onto the zero matrix, the cost read for `(l, r)` is the cost of the last line
naming that pair, or 0. -/
theorem matrix_roundtrip (nl nr : Nat) (lines : List (Int × Int × Int)) (hok : LinesOk nl nr lines)
    (l r : Nat) (hl : l < nl) (hr : r < nr) :
    ∃ m, writeAll nl lines (List.replicate (nl * nr * 2) 0) = .ok m ∧ m.length = nl * nr * 2 ∧
      connCost m nl nr l r = .ok (declared lines l r 0) := by
  obtain ⟨m, hm, hh⟩ := writeAll_holds nl nr lines hok _ _ (holds_zero nl nr)
  refine ⟨m, hm, hh.1, ?_⟩
  unfold connCost
  have : ¬ (l ≥ nl ∨ r ≥ nr) := by omega
  simp only [this, if_false, hh.2 l r hl hr]

/-- Lexicon section alone, for ANY bytes `pre` in front of it (this was `dict_roundtrip_partial`; the whole file is
`dict_roundtrip` below): any list of well-formed entries and a file below 4 GiB, the offsets table written by
`LexiconWriter::write` (`offset_base = offset + 10·n + 4`) leads `WordInfos::parse_word_info(i)` to exactly the
fields of entry `i`. -/
theorem lexicon_records_roundtrip (pre : Bytes) (es : List Entry) (hwf : ∀ e ∈ es, e.WF)
    (hsize : (pre ++ lexiconBytes es (es.map encWordInfo) pre.length).length < 4294967296)
    (i : Nat) (e : Entry) (hi : es[i]? = some e) :
    (lexAt pre es).parseWordInfo i = .ok
      { surface := e.headwordS, headWordLength := utf8LenStr e.surface, posId := e.pos,
        normalizedForm := stored e.normS e.headwordS, dicFormWordId := u32ToI e.dicForm,
        readingForm := stored e.readingS e.headwordS, aUnitSplit := e.splitsA, bUnitSplit := e.splitsB,
        wordStructure := e.wordStructure, synonymGroupIds := e.synonyms } :=
  parseWordInfo_lexAt pre es hwf hsize i e hi

/-- Header clause: `Header::parse (Header::write_to h ++ rest)` returns the version and the creation time as
written and the description **up to its first NUL byte** (`nul_terminated_str_from_slice`); for a NUL-free
description of at most 256 bytes that is the description itself (256 bytes exactly: no terminator is stored and
none is needed). -/
theorem header_roundtrip (v t : Nat) (desc rest : Bytes) (hv : IsVersion v) (ht : t < 18446744073709551616)
    (hd : desc.length ≤ 256) :
    writeHeader v t desc = .ok (hdrBytes v t desc) ∧ (hdrBytes v t desc).length = 272 ∧
    parseHeader (hdrBytes v t desc ++ rest) = .ok { version := v, createTime := t, description := desc.takeWhile (· ≠ 0) } ∧
    ((∀ b ∈ desc, b ≠ 0) → desc.takeWhile (· ≠ 0) = desc) := by
  have hv64 : v < 18446744073709551616 := by
    rcases hv with h | h | h | h | h <;> subst h <;> decide
  exact ⟨writeHeader_ok v t desc hd, hdrBytes_length v t desc hd, parseHeader_hdrBytes v t desc rest hv hv64 ht hd,
    takeWhile_no_zero desc⟩

/-- the writer refuses a longer description (no silent truncation) -/
theorem header_too_long (v t : Nat) (desc : Bytes) (hd : desc.length > 256) : writeHeader v t desc = .err "InvalidDataFormat" := by
  unfold writeHeader; simp only [DESCRIPTION_SIZE, hd, if_true]

set_option maxRecDepth 100000 in
/-- a description with an embedded NUL is written in full and loaded truncated (outside the property's list of
declared data; reported as an observation) -/
theorem header_nul_counterexample :
    (writeHeader SYSTEM_DICT_VERSION_2 0 [120, 0, 121]).bind parseHeader
      = .ok { version := SYSTEM_DICT_VERSION_2, createTime := 0, description := [120] } := by
  decide

/-- Grammar clause, POS table: `pos_list_parser (write_pos_table rows ++ rest) = (rows, rest)` for every list of
fewer than 65536 rows of six strings of at most 32767 UTF-16 units each (1-byte and 2-byte length prefixes alike). -/
theorem pos_table_roundtrip (pos : List (List Str)) (startPos : Nat) (h : PosOk (pos.drop startPos)) (rest : Bytes) :
    writePosTable pos startPos = .ok (posTableBytes (pos.drop startPos)) ∧
    posListParser (posTableBytes (pos.drop startPos) ++ rest) = some (pos.drop startPos, rest) :=
  ⟨writePosTable_ok pos startPos h, posListParser_enc _ h rest⟩

/-- **Whole-file clause** (`dict_roundtrip`, full).  For every builder state within the limits of the format
(`FileOk`, a decidable predicate: description ≤ 256 bytes, `u64` time, `u16` number of POS rows with six strings
each, strings of scalar values with ≤ 32767 UTF-16 units, keys ≤ 32767 bytes, `i16` matrix sizes with one cell per
pair, `i16` parameters, `u16` POS ids, `u32` ids, ≤ 127 items per array, ≤ 127 indexed entries per key, trie a
multiple of four bytes, file < 4 GiB) whose references are valid (`validateEntries`, the compiler's own check),
system or user dictionary alike:

* `DictBuilder::compile` succeeds and writes `fileBytes c` = header ++ POS table ++ matrix ++ index ++ lexicon;
* `read_any_dictionary` (and `read_system_dictionary` resp. `read_user_dictionary`) loads these bytes;
* the header carries the version of the dictionary kind, the creation time and the description (up to a NUL);
* the grammar carries exactly the POS rows the dictionary adds, the matrix sizes, and EVERY cell of the matrix
  (`conn_matrix().cost(l, r)` for any contents `v` the matrix bytes hold);
* the trie region and the word-id table region of the loaded lexicon are the trie blob and the table the builder
  wrote (`Lexicon::parse` offsets);
* for EVERY entry `i`: `get_params(i)` is its (left, right, cost) and `parse_word_info(i)` returns its headword,
  key length, POS id, stored normalised form and reading, dictionary-form id, split units, word structure and
  synonym groups (`wordinfo_roundtrip` turns the stored forms into the declared ones).

The dictionary-form id is the id as `write_word_info` stores it (`storeDf`, code variant `c.dfFix`): the declared id
itself for the code as it stands (`storeDf_cur`) and, in both variants, for `*` and every reference of a system
dictionary (`storeDf_sys`); the repaired writer stores `UN` as `N` (`storeDf_user`). -/
theorem dict_roundtrip (c : CompileInput) (hok : FileOk c)
    (hval : validateEntries c.dfOwn c.maxLeft c.maxRight c.numSystem c.entries = true) :
    ∃ ld g,
      compile c = .ok (fileBytes c) ∧
      readAny (fileBytes c) 0 = .ok ld ∧
      (if c.user then readUser (fileBytes c) 0 else readSystem (fileBytes c) 0) = .ok ld ∧
      -- header
      ld.header.version = versionOf c.user ∧ ld.header.createTime = c.time ∧
      ld.header.description = c.desc.takeWhile (· ≠ 0) ∧
      ((∀ b ∈ c.desc, b ≠ 0) → ld.header.description = c.desc) ∧
      -- grammar section
      ld.grammar = some g ∧ g.posList = c.pos.drop c.startPos ∧
      g.numLeft = c.conn.numLeft.toNat ∧ g.numRight = c.conn.numRight.toNat ∧
      (∀ v, Holds c.conn.matrix c.conn.numLeft.toNat c.conn.numRight.toNat v →
        ∀ l r, l < c.conn.numLeft.toNat → r < c.conn.numRight.toNat → g.cost l r = .ok (v l r)) ∧
      -- index
      (ld.lexicon.bytes.drop ld.lexicon.trieOff).take (4 * ld.lexicon.trieSize) = c.trie ∧
      (ld.lexicon.bytes.drop ld.lexicon.widTableOff).take ld.lexicon.widTableSize = widTableBytes c.entries ∧
      -- lexicon section
      ld.lexicon.size = c.entries.length ∧
      ∀ i e, c.entries[i]? = some e →
        ld.lexicon.getParams i = .ok (e.left, e.right, e.cost) ∧
        ld.lexicon.parseWordInfo i = .ok
          { surface := e.headwordS, headWordLength := utf8LenStr e.surface, posId := e.pos,
            normalizedForm := stored e.normS e.headwordS, dicFormWordId := u32ToI (storeDf c.dfFix e).dicForm,
            readingForm := stored e.readingS e.headwordS, aUnitSplit := e.splitsA, bUnitSplit := e.splitsB,
            wordStructure := e.wordStructure, synonymGroupIds := e.synonyms } := by
  obtain ⟨ld, g, hread, h⟩ := readAny_file c hok
  refine ⟨ld, g, compile_ok c hok hval, hread, readKind_file c ld g _ hread h, ?_, ?_, ?_, ?_, h.grammar, h.posList,
    h.numLeft, h.numRight, ?_, h.trie, h.widTable, by rw [h.size, storedEntries_length], ?_⟩
  · rw [h.header]
  · rw [h.header]
  · rw [h.header]
  · intro hz; rw [h.header]; exact takeWhile_no_zero c.desc hz
  · intro v hv l r hl hr; exact cost_loaded c ld g h v hv l r hl hr
  · intro i e hi
    have hs := storedEntries_get c i e hi
    obtain ⟨p1, p2, p3⟩ := storeDf_params c.dfFix e
    obtain ⟨f1, f2, f3, f4, f5, f6, f7, f8, f9⟩ := storeDf_fields c.dfFix e
    have hp := params_loaded c ld g h i _ hs (storedEntries_ok c hok.entries _ (List.mem_of_getElem? hs)).2
    have hw := wordinfo_loaded c ld g h hok i _ hs
    rw [p1, p2, p3] at hp
    rw [f1, f2, f3, f4, f5, f6, f7, f8, f9] at hw
    exact ⟨hp, hw⟩

/-- Whole file + matrix TEXT: when the matrix bytes of the builder state are what the lines of the matrix text
write onto the zero matrix (`write_elem` in file order), every cost the loaded grammar answers is the cost of the
last line naming the pair, or 0. -/
theorem dict_roundtrip_matrix (c : CompileInput) (hok : FileOk c)
    (lines : List (Int × Int × Int)) (hlines : LinesOk c.conn.numLeft.toNat c.conn.numRight.toNat lines)
    (hm : writeAll c.conn.numLeft.toNat lines (List.replicate (c.conn.numLeft.toNat * c.conn.numRight.toNat * 2) 0) = .ok c.conn.matrix) :
    ∃ ld g, readAny (fileBytes c) 0 = .ok ld ∧ ld.grammar = some g ∧
      ∀ l r, l < c.conn.numLeft.toNat → r < c.conn.numRight.toNat → g.cost l r = .ok (declared lines l r 0) := by
  obtain ⟨ld, g, hread, h⟩ := readAny_file c hok
  obtain ⟨m, hm', hh⟩ := writeAll_holds _ _ lines hlines _ _ (holds_zero _ _)
  rw [hm] at hm'
  cases hm'
  exact ⟨ld, g, hread, h.grammar, fun l r hl hr => cost_loaded c ld g h _ hh l r hl hr⟩

/-- Matrix TEXT clause (`ConnBuffer::read`): for a text whose first non-blank line is the header `nl nr` and whose
further non-blank lines all parse to in-range triples `t`, `read_conn` succeeds with sizes `nl x nr` and a matrix in
which every cell holds the cost of the last line naming it, or 0 (line loop = `write_elem` in file order onto the
zero matrix).  With `dict_roundtrip_matrix` this carries the matrix text through the file to `cost(l, r)`. -/
theorem conn_text_roundtrip (text h : Str) (rest : List Str) (nl nr : Nat) (t : List (Int × Int × Int))
    (hbody : (readLines text).dropWhile isEmptyLine = h :: rest)
    (hhdr : (splitnWhite 2 (trim h)).map parseI16 = [some (nl : Int), some (nr : Int)])
    (hlines : lineTriples rest = some t) (hok : LinesOk nl nr t) :
    ∃ m, readConn text = .ok { matrix := m, numLeft := nl, numRight := nr } ∧
      writeAll nl t (List.replicate (nl * nr * 2) 0) = .ok m ∧ m.length = nl * nr * 2 ∧
      ∀ l r, l < nl → r < nr → connCost m nl nr l r = .ok (declared t l r 0) := by
  obtain ⟨m, hm, hlen, hcost⟩ : ∃ m, writeAll nl t (List.replicate (nl * nr * 2) 0) = .ok m ∧ m.length = nl * nr * 2 ∧
      ∀ l r, l < nl → r < nr → connCost m nl nr l r = .ok (declared t l r 0) := by
    obtain ⟨m, hm, hh⟩ := writeAll_holds nl nr t hok _ _ (holds_zero nl nr)
    refine ⟨m, hm, hh.1, ?_⟩
    intro l r hl hr
    unfold connCost
    have : ¬ (l ≥ nl ∨ r ≥ nr) := by omega
    simp only [this, if_false, hh.2 l r hl hr]
  refine ⟨m, ?_, hm, hlen, hcost⟩
  unfold readConn
  simp only [hbody, hhdr]
  have hneg : ¬ ((nl : Int) < 0 ∨ (nr : Int) < 0) := by omega
  simp only [hneg, if_false, Int.toNat_natCast]
  rw [parseConnLines_eq nl rest t _ hlines, hm]

/-- Whole file + dictionary forms: `get_word_info(i)` on the loaded file resolves the STORED dictionary-form id `d`
inside the same lexicon and reports the headword of entry `d`.  For a system dictionary `d` is the declared id
(`storeDf_sys`), so this is the clause "dictionary forms resolved to the intended entries"; for a user dictionary
see `user_dicform_repaired` (variant `fix`) and `user_dicform_counterexample` (variant `cur`). -/
theorem dict_roundtrip_dicform (c : CompileInput) (hok : FileOk c)
    (i : Nat) (e : Entry) (hi : c.entries[i]? = some e) (target : Option Entry)
    (hdf : ((storeDf c.dfFix e).dicForm = INVALID_WID ∧ target = none) ∨ ((storeDf c.dfFix e).dicForm = i ∧ target = none) ∨
           ((storeDf c.dfFix e).dicForm < 2147483648 ∧ (storeDf c.dfFix e).dicForm ≠ i ∧
              ∃ t, c.entries[(storeDf c.dfFix e).dicForm]? = some t ∧ target = some t)) :
    ∃ ld wi, readAny (fileBytes c) 0 = .ok ld ∧ ld.lexicon.getWordInfo i = .ok wi ∧ wi.surface = e.headwordS ∧
      wi.dictionaryFormA = (match target with
        | none => e.headwordS
        | some t => if t.headwordS = [] then e.headwordS else t.headwordS) := by
  obtain ⟨ld, g, hread, h⟩ := readAny_file c hok
  have hs := storedEntries_get c i e hi
  have hdf' : ((storeDf c.dfFix e).dicForm = INVALID_WID ∧ target.map (storeDf c.dfFix) = none) ∨
      ((storeDf c.dfFix e).dicForm = i ∧ target.map (storeDf c.dfFix) = none) ∨
      ((storeDf c.dfFix e).dicForm < 2147483648 ∧ (storeDf c.dfFix e).dicForm ≠ i ∧
        ∃ t, (storedEntries c)[(storeDf c.dfFix e).dicForm]? = some t ∧ target.map (storeDf c.dfFix) = some t) := by
    rcases hdf with ⟨h1, h2⟩ | ⟨h1, h2⟩ | ⟨h1, h2, t, ht, h3⟩
    · exact Or.inl ⟨h1, by rw [h2]; rfl⟩
    · exact Or.inr (Or.inl ⟨h1, by rw [h2]; rfl⟩)
    · exact Or.inr (Or.inr ⟨h1, h2, _, storedEntries_get c _ t ht, by rw [h3]; rfl⟩)
  obtain ⟨wi, hwi, h1, h2⟩ := getWordInfo_lexAt (preBytes c) (storedEntries c)
    (fun e he => (storedEntries_ok c hok.entries e he).1) hok.size i _ hs _ hdf'
  refine ⟨ld, wi, hread, by rw [getWordInfo_loaded c ld g h i]; exact hwi, by rw [h1, (storeDf_fields _ e).1], ?_⟩
  cases target with
  | none => rw [h2]; exact (storeDf_fields _ e).1
  | some t => rw [h2]; simp only [Option.map_some, (storeDf_fields _ e).1, (storeDf_fields _ t).1]

/-- D8 first half REPAIRED (variant `fix` = `fix_D8.patch`): in a user dictionary compiled by the repaired writer,
a row that names the own entry `k` as `Uk` is loaded with the headword of entry `k` as its dictionary form
(for the code as it stands the same row panics: `user_dicform_counterexample`).  A plain `N` in a user dictionary
keeps meaning "whatever own entry N is" to the reader and "system word N" to the validator (second half of D8,
`user_dicform_wrong_counterexample`, unchanged: what the column should mean there is the maintainers' call). -/
theorem user_dicform_repaired (c : CompileInput) (hok : FileOk c) (hfix : c.dfFix = true)
    (i k : Nat) (e t : Entry) (hi : c.entries[i]? = some e) (hk : k < 268435456) (hne : k ≠ i)
    (hdf : e.dicForm = widNew 1 k) (ht : c.entries[k]? = some t) (hnonempty : t.headwordS ≠ []) :
    ∃ ld wi, readAny (fileBytes c) 0 = .ok ld ∧ ld.lexicon.getWordInfo i = .ok wi ∧ wi.surface = e.headwordS ∧
      wi.dictionaryFormA = t.headwordS := by
  have hd : (storeDf c.dfFix e).dicForm = k := by rw [hfix]; exact storeDf_user e k hk hdf
  obtain ⟨ld, wi, h1, h2, h3, h4⟩ := dict_roundtrip_dicform c hok i e hi (some t)
    (Or.inr (Or.inr ⟨by rw [hd]; omega, by rw [hd]; exact hne, t, by rw [hd]; exact ht, rfl⟩))
  exact ⟨ld, wi, h1, h2, h3, by rw [h4]; simp [hnonempty]⟩

/-- Clause "dictionary forms resolved to the intended entries", SYSTEM dictionaries: `get_word_info(i)`
reports as dictionary form the headword of the entry the row names (`*` or a self reference: its own
headword; an empty headword of the target cannot be told from "none").  For USER dictionaries this is
false: `user_dicform_counterexample`. -/
theorem dicform_roundtrip (pre : Bytes) (es : List Entry) (hwf : ∀ e ∈ es, e.WF)
    (hsize : (pre ++ lexiconBytes es (es.map encWordInfo) pre.length).length < 4294967296)
    (i : Nat) (e : Entry) (hi : es[i]? = some e) (target : Option Entry)
    (hdf : (e.dicForm = INVALID_WID ∧ target = none) ∨ (e.dicForm = i ∧ target = none) ∨
           (e.dicForm < 2147483648 ∧ e.dicForm ≠ i ∧ ∃ t, es[e.dicForm]? = some t ∧ target = some t)) :
    ∃ wi, (lexAt pre es).getWordInfo i = .ok wi ∧ wi.surface = e.headwordS ∧
      wi.dictionaryFormA = (match target with
        | none => e.headwordS
        | some t => if t.headwordS = [] then e.headwordS else t.headwordS) :=
  getWordInfo_lexAt pre es hwf hsize i e hi target hdf

/-- Clause "compiling the same inputs with the same timestamp twice yields byte-identical output",
as far as a model can say it: the model compiler is a function of (entries in order, POS table in
insertion order, matrix, timestamp, description, trie blob) and nothing else.  That the Rust keeps
to insertion-ordered containers is what the byte-exact correspondence run checks. -/
theorem compile_deterministic (a b : CompileInput) (h : a = b) : compile a = compile b := by
  rw [h]

/-- The same for the whole pipeline `read_conn` + `read_lexicon` + `resolve` + `compile`: the bytes are a function
of (creation time, description, matrix text, CSV records in order, trie blob) and of the code variant `v`; the
creation time is a parameter (`set_compile_time`), never read from a clock. -/
theorem build_deterministic (v : Bool) (t1 t2 : Nat) (d1 d2 : Bytes) (m1 m2 : Str) (r1 r2 : List (Array Str)) (tr1 tr2 : Bytes)
    (h : t1 = t2 ∧ d1 = d2 ∧ m1 = m2 ∧ r1 = r2 ∧ tr1 = tr2) :
    buildSystem v t1 d1 m1 r1 tr1 = buildSystem v t2 d2 m2 r2 tr2 := by
  obtain ⟨rfl, rfl, rfl, rfl, rfl⟩ := h; rfl

/-- Clause "the result does not depend on the memory alignment of the loaded bytes": the loader reads
the bytes of the dictionary only, wherever they start in the enclosing buffer. -/
theorem load_alignment_free (pad bytes : Bytes) :
    readAny (pad ++ bytes) pad.length = readAny bytes 0 ∧
    readSystem (pad ++ bytes) pad.length = readSystem bytes 0 ∧
    readUser (pad ++ bytes) pad.length = readUser bytes 0 := by
  have h : readAny (pad ++ bytes) pad.length = readAny bytes 0 := by
    unfold readAny
    simp only [List.drop_left, List.drop_zero]
  refine ⟨h, ?_, ?_⟩
  · unfold readSystem; rw [h]
  · unfold readUser; rw [h]

/-! ## the CSV side: `LexiconReader::read_bytes` -/

/-- Record-level contract of the lexicon reader, RFC 4180 direction (full).  `csvRecords` is the reader
`LexiconReader::read_bytes` configures (csv-core's automaton for delimiter `,`, quote `"` with `""`, NO comment
character, no trimming, terminators `\r` / `\n` / `\r\n`, records of any length), executed by the driver on the CSV
TEXT of every case.  For EVERY list of non-empty records, whatever the fields contain (`#` at the start of a line,
quotes, commas, line breaks, U+FEFF, spaces), written as RFC 4180 writes them (every field in quotes, `"` doubled,
any of the three terminators after each record), the reader returns exactly these records, in order: every written
line is one record, nothing is a comment, nothing is trimmed, no record is merged or dropped. -/
theorem csv_records_roundtrip (rs : List (List Str × CsvTerm)) (hne : ∀ r ∈ rs, r.1 ≠ []) :
    csvRecords (csvRender rs) = rs.map (·.1) := by
  unfold csvRecords
  rw [csvStripBom_render rs hne]
  obtain ⟨s', hs', h⟩ := csv_all_records rs hne .startRecord (Or.inl rfl) []
  have h' : (csvRender rs).foldl csvStep {} = { st := s', cur := [], fields := [], recs := (rs.map (·.1)).reverse ++ [] } := h
  rw [h']
  rcases hs' with rfl | rfl <;> simp [csvFinal]

set_option maxRecDepth 100000 in
/-- The same contract on the shapes an RFC 4180 writer does NOT produce but the reader accepts (kernel-evaluated on
the model; each shape is generated by the harness and compared with the real reader on every run): a line that starts
with `#` is a record (no comment lines - seeded change C05d); a `"` inside an unquoted field is text; text after a
closing quote is appended; a trailing comma adds an empty field; a byte order mark is dropped at the very start only;
blank lines (`\n`, `\r\n`, bare `\r`) are no records; the last record needs no terminator; an unterminated quote runs
to the end of the input; spaces are kept. -/
theorem csv_special_shapes :
    csvRecords (lit "#a,b\n#\n") = [[lit "#a", lit "b"], [lit "#"]] ∧
    csvRecords (lit "a\"b,\"c\"d\n") = [[lit "a\"b", lit "cd"]] ∧
    csvRecords (lit "a,b,\n") = [[lit "a", lit "b", []]] ∧
    csvRecords (0xFEFF :: lit "a\n") = [[lit "a"]] ∧ csvRecords (lit "a," ++ 0xFEFF :: lit "b\n") = [[lit "a", 0xFEFF :: lit "b"]] ∧
    csvRecords (lit "\n\r\n\ra\r\r\nb\n\n") = [[lit "a"], [lit "b"]] ∧
    csvRecords (lit "a,b") = [[lit "a", lit "b"]] ∧ csvRecords (lit "a,") = [[lit "a", []]] ∧
    csvRecords (lit "\"a\nb") = [[lit "a\nb"]] ∧
    csvRecords (lit " a , b \n") = [[lit " a ", lit " b "]] ∧
    csvRecords (lit "\"\"\n") = [[[]]] ∧ csvRecords [] = [] := by
  decide

/-- Determinism from the source TEXT: the bytes are a function of (code variant, creation time, description, matrix
text, CSV text, trie blob) - `read_bytes` has no other input (no clock, no environment, no hash order). -/
theorem build_text_deterministic (v : Bool) (t1 t2 : Nat) (d1 d2 : Bytes) (m1 m2 c1 c2 : Str) (tr1 tr2 : Bytes)
    (h : t1 = t2 ∧ d1 = d2 ∧ m1 = m2 ∧ c1 = c2 ∧ tr1 = tr2) :
    buildSystemText v t1 d1 m1 c1 tr1 = buildSystemText v t2 d2 m2 c2 tr2 := by
  obtain ⟨rfl, rfl, rfl, rfl, rfl⟩ := h; rfl

/-- D8 second half under the candidate repair `fix_D8b.patch` (validator variant `dfOwn`, together with the landed
repair of the first half, writer variant `dfFix`).  In a USER dictionary that passes `validate_entries`, EVERY row that
declares a dictionary form - `N` or `UN` - is loaded without panic, and `get_word_info` reports the headword of the
dictionary's OWN entry `N` (which exists): validator, writer and reader agree on what the column names.  For the code
as it stands (`dfOwn = false`) the validator checks `N` against the SYSTEM dictionary while the reader resolves it in
the user dictionary: `user_dicform_wrong_counterexample`. -/
theorem user_dicform_own_repaired (c : CompileInput) (hok : FileOk c) (hfix : c.dfFix = true) (hown : c.dfOwn = true)
    (n : Nat) (huser : c.numSystem = some n)
    (hval : validateEntries c.dfOwn c.maxLeft c.maxRight c.numSystem c.entries = true)
    (i : Nat) (e : Entry) (hi : c.entries[i]? = some e) (hdf : e.dicForm ≠ INVALID_WID) :
    ∃ ld wi t, readAny (fileBytes c) 0 = .ok ld ∧ ld.lexicon.getWordInfo i = .ok wi ∧ wi.surface = e.headwordS ∧
      c.entries[widWord e.dicForm]? = some t ∧
      wi.dictionaryFormA = (if t.headwordS = [] then e.headwordS else t.headwordS) := by
  have hk28 : widWord e.dicForm < 268435456 := by
    unfold widWord WORD_MASK
    have : e.dicForm &&& 0x0fffffff ≤ 0x0fffffff := Nat.and_le_right
    omega
  -- the validator saw the own entry
  have hlen : widWord e.dicForm < c.entries.length := by
    have hmem := List.mem_of_getElem? hi
    rw [hown, huser] at hval
    simp only [validateEntries, List.all_eq_true] at hval
    have he := hval e hmem
    simp only [validateEntry, Bool.and_eq_true, Bool.or_eq_true, decide_eq_true_eq] at he
    obtain ⟨⟨⟨⟨_, hd⟩, _⟩, _⟩, _⟩ := he
    rcases hd with hd | hd
    · exact absurd hd hdf
    · obtain ⟨_, h2, h3⟩ := widNew_user (widWord e.dicForm) hk28
      simp only [dfCheckId, Option.isSome, Bool.and_self, if_true, validateWid, h2, h3] at hd
      simpa using hd
  -- the writer stored the index
  have hst : (storeDf c.dfFix e).dicForm = widWord e.dicForm := by
    rw [hfix]
    by_cases hz : widDic e.dicForm = 0
    · rw [storeDf_sys true e (Or.inr hz)]; exact (widWord_of_dic_zero _ hz).symm
    · unfold storeDf; simp [hdf, hz]
  obtain ⟨t, ht⟩ : ∃ t, c.entries[widWord e.dicForm]? = some t := ⟨c.entries[widWord e.dicForm], by simp [hlen]⟩
  by_cases hself : widWord e.dicForm = i
  · obtain ⟨ld, wi, h1, h2, h3, h4⟩ := dict_roundtrip_dicform c hok i e hi none (Or.inr (Or.inl ⟨by rw [hst]; exact hself, rfl⟩))
    have hte : t = e := by rw [hself, hi] at ht; exact (Option.some.inj ht).symm
    exact ⟨ld, wi, t, h1, h2, h3, ht, by rw [h4, hte]; simp⟩
  · obtain ⟨ld, wi, h1, h2, h3, h4⟩ := dict_roundtrip_dicform c hok i e hi (some t)
      (Or.inr (Or.inr ⟨by rw [hst]; omega, by rw [hst]; exact hself, t, by rw [hst]; exact ht, rfl⟩))
    exact ⟨ld, wi, t, h1, h2, h3, ht, h4⟩


/-! ## the CSV FIELD layer: `parse.rs`, `lexicon.rs parse_record / parse_split / pos_of`, `resolve.rs` -/

set_option maxRecDepth 100000 in
/-- Clause "`\u` escapes" (`parse.rs unescape / unescape_cow / unescape_slow`), full.

* `check_str_len`: a field of more than 32767 UTF-8 bytes is refused, before anything else;
* a field without a backslash is returned as it is;
* GENERAL FORM: for every text cut into units `ts` - a character written as itself, `\uXXXX` (exactly four hex digits,
  either case), `\u{H}` (one to six hex digits) - in which no backslash written as itself begins a literal (`noAccident`;
  every text has exactly one such cutting: the leftmost-first matches of `UNICODE_LITERAL`), the result is the list of
  the units' values, and it is the error `InvalidCharLiteral` iff some literal names no scalar value (a surrogate, or
  above U+10FFFF);
* the three step equations the general form is made of (`\uXXXX` whatever follows - a fifth hex digit is text;
  `\u{H}`; a backslash that begins no literal - MALFORMED forms such as `\u12`, `\u{}`, `\u{1234567}`, `\u{12`,
  `\U0041`, `\\` - is copied and the scan goes on with the NEXT character, so `\\u0041` is a backslash and `A`);
* kernel-evaluated witnesses of each case, the ones of the unit tests in `parse.rs` included. -/
theorem unescape_spec :
    (∀ s : Str, utf8LenStr s > 32767 → unescape s = none) ∧
    (∀ s : Str, 92 ∉ s → utf8LenStr s ≤ 32767 → unescape s = some s) ∧
    (∀ ts : List Tok, (∀ t ∈ ts, t.shapeOk = true) → noAccident ts = true → utf8LenStr (toksText ts) ≤ 32767 →
      unescape (toksText ts) = if ts.all Tok.valOk then some (ts.map Tok.val) else none) ∧
    (∀ (f : Nat) (h rest : Str), h.all isHex = true → h.length = 4 →
      unescapeGo (f + 1) (92 :: 117 :: (h ++ rest)) =
        if isScalar (hexNum h) then (unescapeGo f rest).map (hexNum h :: ·) else none) ∧
    (∀ (f : Nat) (h rest : Str), h.all isHex = true → 1 ≤ h.length → h.length ≤ 6 →
      unescapeGo (f + 1) (92 :: 117 :: 123 :: (h ++ 125 :: rest)) =
        if isScalar (hexNum h) then (unescapeGo f rest).map (hexNum h :: ·) else none) ∧
    (∀ (f : Nat) (rest : Str), startsEsc rest = false →
      unescapeGo (f + 1) (92 :: rest) = (unescapeGo f rest).map (92 :: ·)) ∧
    (unescape (lit "\\u0020") = some [32] ∧ unescape (lit "\\u{20}f") = some [32, 102] ∧
     unescape (lit "\\u{1f49e}") = some [0x1f49e] ∧ unescape (lit "\\u100056") = some (0x1000 :: lit "56") ∧
     unescape (lit "a\\u002Cc") = some (lit "a,c") ∧ unescape (lit "\\u{10FFFF}") = some [0x10FFFF] ∧
     unescape (lit "\\u{110000}") = none ∧ unescape (lit "\\u{FFFFFF}") = none ∧ unescape (lit "\\ud800") = none ∧
     unescape (lit "\\udfff") = none ∧ unescape (lit "\\ue000") = some [0xE000] ∧
     unescape (lit "\\u12") = some (lit "\\u12") ∧ unescape (lit "\\u{}") = some (lit "\\u{}") ∧
     unescape (lit "\\u{1234567}") = some (lit "\\u{1234567}") ∧ unescape (lit "\\u{12") = some (lit "\\u{12") ∧
     unescape (lit "\\U0041") = some (lit "\\U0041") ∧ unescape (lit "\\\\u0041") = some (lit "\\A") ∧
     unescape (lit "\\u{0041}\\u0041") = some (lit "AA") ∧ unescape (lit "\\u004g\\") = some (lit "\\u004g\\") ∧
     unescape [] = some []) := by
  refine ⟨?_, ?_, ?_, unescapeGo_u4, unescapeGo_brace, unescapeGo_backslash, by decide⟩
  · intro s h; unfold unescape; simp only [h, if_true]
  · intro s hs hl
    unfold unescape
    simp only [show ¬ utf8LenStr s > 32767 by omega, if_false]
    exact unescapeGo_no_backslash s _ hs (by omega)
  · intro ts hs hn hl
    unfold unescape
    simp only [show ¬ utf8LenStr (toksText ts) > 32767 by omega, if_false]
    exact unescapeGo_toks ts _ hs hn (by omega)

/-- `unescape` undoes the REFERENCE ESCAPER the generator uses (`esc_text` in `harness/src/c05.rs`): every character of
the declared string is written, by an arbitrary per-character choice, as itself, as `\uXXXX` (BMP only; four digits,
upper or lower case) or as `\u{H}` (any width from the minimal one to six, zero padded, upper or lower case).  For
EVERY string of scalar values and EVERY such choice whose text is a legal field (`EStr.ok`, decidable: the choices are
in range, no backslash written as itself begins a literal - the generator's `has_escape` test -, at most 32767 bytes)
the builder reads back exactly the declared string.  Second part: writing every backslash as a literal is always
safe (no side condition on the text other than its length). -/
theorem unescape_escape_roundtrip :
    (∀ e : EStr, e.ok = true → unescape e.text = some e.val) ∧
    (∀ e : EStr, (∀ x ∈ e, isScalar x.1 = true ∧ choiceOk x.1 x.2 = true ∧ (x.1 = 92 → x.2 ≠ Choice.raw)) →
      utf8LenStr e.text ≤ 32767 → unescape e.text = some e.val) := by
  refine ⟨unescape_estr, ?_⟩
  intro e h hl
  apply unescape_estr
  simp only [EStr.ok, Bool.and_eq_true, List.all_eq_true, decide_eq_true_eq]
  refine ⟨⟨fun x hx => ⟨(h x hx).1, (h x hx).2.1⟩, ?_⟩, hl⟩
  clear hl
  induction e with
  | nil => rfl
  | cons x r ih =>
    have hx := h x (List.mem_cons_self ..)
    have ih' := ih (fun y hy => h y (List.mem_cons_of_mem _ hy))
    obtain ⟨c, ch⟩ := x
    cases ch with
    | raw =>
      simp only [EStr.toks, List.map_cons, escChar, noAccident, Bool.and_eq_true, Bool.or_eq_true, bne_iff_ne, ne_eq]
      exact ⟨Or.inl (fun e => hx.2.2 e rfl), ih'⟩
    | u4 up => exact ih'
    | br w up => exact ih'

/-- Clause "split units and word structure resolved to the intended entries" (`resolve.rs`, `lexicon.rs resolve_splits`).

* a numeric reference (`N`, `UN`) is taken by number: the resolver never looks at it;
* an inline reference `surface,pos…,reading` is answered by the FIRST row (in entry order) of the dictionary's OWN
  entries whose key (column 0), POS id and reading (`None` when equal to the key) agree, and only when NO own row
  agrees by the first such row of the SYSTEM dictionary (`ChainedResolver`);
* own row `i` is entry `i` of this dictionary under the word id `(dic, i)`, `dic` = 1 for a user dictionary;
* a reference no row answers makes `resolve` fail (`InvalidSplitWordReference`): no entry list is produced;
* when `resolve` succeeds every unit of every entry is the id its reference resolves to, everything else untouched. -/
theorem split_resolution_spec (own sys : List ResolverRow) :
    (∀ w, resolveUnit own sys (.ref w) = some w) ∧
    (∀ s p r w, resolveUnit own sys (.inline s p r) = some w ↔
      (∃ i row, own[i]? = some row ∧ rowMatches s p r row = true ∧ row.2.2.2 = w ∧
        ∀ (j : Nat) (row' : ResolverRow), j < i → own[j]? = some row' → rowMatches s p r row' = false) ∨
      ((∀ row ∈ own, rowMatches s p r row = false) ∧
        ∃ i row, sys[i]? = some row ∧ rowMatches s p r row = true ∧ row.2.2.2 = w ∧
          ∀ (j : Nat) (row' : ResolverRow), j < i → sys[j]? = some row' → rowMatches s p r row' = false)) ∧
    (∀ s p r, resolveUnit own sys (.inline s p r) = none ↔
      (∀ row ∈ own, rowMatches s p r row = false) ∧ (∀ row ∈ sys, rowMatches s p r row = false)) ∧
    (∀ (es : List RawEntry) (user : Bool) (i : Nat) (e : RawEntry), es[i]? = some e →
      (rawResolverRows es user)[i]? = some (e.surface, e.pos, (if e.surface = e.readingS then none else some e.readingS),
        widNew (if user then 1 else 0) i)) ∧
    (∀ (es : List RawEntry) (e : RawEntry) (u : SplitUnit), e ∈ es → u ∈ e.splitsA ++ e.splitsB →
      resolveUnit own sys u = none → resolveSplits own sys es = none) ∧
    (∀ (es : List RawEntry) (out : List Entry), resolveSplits own sys es = some out →
      ∃ ids : RawEntry → List Nat × List Nat, out = es.map (fun e => toEntry e (ids e).1 (ids e).2) ∧
        ∀ e ∈ es, e.splitsA.map (resolveUnit own sys) = (ids e).1.map some ∧
          e.splitsB.map (resolveUnit own sys) = (ids e).2.map some) := by
  refine ⟨fun _ => rfl, ?_, ?_, ?_, ?_, ?_⟩
  · intro s p r w
    simp only [resolveUnit]
    cases h : resolveInline own s p r with
    | some w' =>
      simp only [Option.orElse_some, Option.some.injEq]
      constructor
      · rintro rfl; exact Or.inl ((resolveInline_eq_some_iff own s p r w').1 h)
      · rintro (h1 | ⟨h1, _⟩)
        · have := (resolveInline_eq_some_iff own s p r w).2 h1
          rw [h] at this; exact Option.some.inj this
        · rw [(resolveInline_eq_none_iff own s p r).2 h1] at h; cases h
    | none =>
      simp only [Option.orElse_none]
      have hn := (resolveInline_eq_none_iff own s p r).1 h
      rw [resolveInline_eq_some_iff]
      constructor
      · intro h2; exact Or.inr ⟨hn, h2⟩
      · rintro (⟨i, row, hi, hm, _⟩ | ⟨_, h2⟩)
        · rw [hn row (List.mem_of_getElem? hi)] at hm; cases hm
        · exact h2
  · intro s p r
    simp only [resolveUnit]
    cases h : resolveInline own s p r with
    | some w' =>
      simp only [Option.orElse_some, reduceCtorEq, false_iff, not_and]
      intro h1
      rw [(resolveInline_eq_none_iff own s p r).2 h1] at h; cases h
    | none =>
      simp only [Option.orElse_none, resolveInline_eq_none_iff]
      exact ⟨fun h2 => ⟨(resolveInline_eq_none_iff own s p r).1 h, h2⟩, fun h2 => h2.2⟩
  · intro es user i e hi
    rw [rawResolverRows_getElem?, hi]; rfl
  · intro es e u he hu hnone
    unfold resolveSplits
    rw [allSome_eq_none_iff, List.mem_map]
    refine ⟨e, he, ?_⟩
    rcases List.mem_append.1 hu with h | h
    · have : Wire.allSome (e.splitsA.map (resolveUnit own sys)) = none := by
        rw [allSome_eq_none_iff, List.mem_map]; exact ⟨u, h, hnone⟩
      rw [this]
    · have : Wire.allSome (e.splitsB.map (resolveUnit own sys)) = none := by
        rw [allSome_eq_none_iff, List.mem_map]; exact ⟨u, h, hnone⟩
      rw [this]
      cases Wire.allSome (e.splitsA.map (resolveUnit own sys)) <;> rfl
  · intro es out h
    exact ⟨resolvedIds own sys, resolveSplits_some own sys es out h⟩

/-- POS interning (`lexicon.rs pos_of`, `preload_pos`, `write_pos_table`), full.  For every reader state whose table has
no duplicate row (true of the empty table and of a loaded grammar's list; preserved):

* the six strings get the id = INDEX OF THEIR FIRST OCCURRENCE in the table after the call, no earlier row is equal;
* a row already present (own or preloaded SYSTEM row) is reused and nothing changes; a new row is appended, so ids are
  handed out in first-seen order and every id handed out before stays valid (the old table is a prefix of the new one);
* a USER dictionary starts from the system's rows (`startPos` = their number): a new row gets an id `≥ startPos`, and
  it sits at position `id - startPos` of the rows `write_pos_table` writes (`pos.drop startPos`) - the loader appends
  these after the system's, which is the "offset by the system count" (with `pos_table_roundtrip`);
* the call fails (`PosLimitExceeded`) exactly when the row is new and the table already holds more than 32767 rows;
* nothing else of the reader changes. -/
theorem pos_interning_spec (rd : Reader) (p : List Str) (hnd : rd.pos.toList.Nodup) :
    (∀ i rd', posOf rd p = some (i, rd') →
      rd'.pos.toList[i]? = some p ∧ (∀ j, j < i → rd'.pos.toList[j]? ≠ some p) ∧
      rd.pos.toList <+: rd'.pos.toList ∧ rd'.pos.toList.Nodup ∧
      (p ∈ rd.pos.toList → rd' = rd) ∧
      (p ∉ rd.pos.toList → i = rd.pos.size ∧ rd'.pos.toList = rd.pos.toList ++ [p] ∧
        (rd.startPos ≤ rd.pos.size → rd.startPos ≤ i ∧ (rd'.pos.toList.drop rd.startPos)[i - rd.startPos]? = some p ∧
          rd'.pos.toList.drop rd.startPos = rd.pos.toList.drop rd.startPos ++ [p])) ∧
      rd'.startPos = rd.startPos ∧ rd'.entries = rd.entries ∧ rd'.unresolved = rd.unresolved ∧
      rd'.maxLeft = rd.maxLeft ∧ rd'.maxRight = rd.maxRight ∧ rd'.numSystem = rd.numSystem) ∧
    (posOf rd p = none ↔ p ∉ rd.pos.toList ∧ rd.pos.size > 32767) := by
  obtain ⟨h1, h2, h3⟩ := posOf_spec rd p
  by_cases hmem : p ∈ rd.pos.toList
  · obtain ⟨i0, e0, hget, hfirst⟩ := h1 hmem
    refine ⟨?_, ?_⟩
    · intro i rd' h
      rw [e0] at h
      cases h
      exact ⟨hget, hfirst, List.prefix_refl _, hnd, fun _ => rfl, fun hn => absurd hmem hn, rfl, rfl, rfl, rfl, rfl, rfl⟩
    · rw [e0]; simp [hmem]
  · by_cases hsz : rd.pos.size ≤ 32767
    · have e0 := h2 hmem hsz
      refine ⟨?_, ?_⟩
      · intro i rd' h
        rw [e0] at h
        cases h
        have hlen : rd.pos.toList.length = rd.pos.size := by simp
        have hget : (rd.pos.toList ++ [p])[rd.pos.size]? = some p := by
          rw [List.getElem?_append_right (by omega)]; simp
        refine ⟨by simp, ?_, by simp, ?_, fun hm => absurd hm hmem, ?_, rfl, rfl, rfl, rfl, rfl, rfl⟩
        · intro j hj hc
          simp only [Array.toList_push] at hc
          rw [List.getElem?_append_left (by omega)] at hc
          exact hmem (List.mem_of_getElem? hc)
        · simp only [Array.toList_push]
          rw [List.nodup_append]
          refine ⟨hnd, by simp, ?_⟩
          intro a ha b hb
          simp only [List.mem_singleton] at hb
          subst hb
          intro e; exact hmem (e ▸ ha)
        · intro _
          refine ⟨rfl, by simp, ?_⟩
          intro hsp
          have hd : (rd.pos.toList ++ [p]).drop rd.startPos = rd.pos.toList.drop rd.startPos ++ [p] := by
            rw [List.drop_append_of_le_length (by omega)]
          refine ⟨hsp, ?_, by simpa using hd⟩
          simp only [Array.toList_push]
          rw [hd, List.getElem?_append_right (by simp), List.length_drop]
          simp [hlen]
      · rw [e0]; simp; omega
    · have e0 := h3 hmem (by omega)
      refine ⟨?_, ?_⟩
      · intro i rd' h; rw [e0] at h; cases h
      · rw [e0]; simp [hmem]; omega

/-- **Row text → declared entry** (`lexicon.rs parse_record` + `parse.rs`), for every declared row within the limits of
the row format (`DeclRow.ok`, decidable: every string a legal escaped field of scalar values, `i16` ids and cost,
references below 2^28, at most 127 items per list, `u32` synonym groups, a mode column `parse_mode` accepts, no splits
on an `A` row, key non-empty and free of U+0000).  The 19 fields the REFERENCE RENDERER writes (`csv_of` of the
generator: strings through the reference escaper with any per-character choice, numbers by `to_string`, the
dictionary form `*` / `N` / `UN`, lists joined by `/`, `*` for an empty list) are parsed by `parse_record` to exactly the
declared entry: key, ids, cost, headword / normalised form / reading through `none_if_equal`, dictionary-form id,
split units and word structure by number (`N` → system/own id, `UN` → `(1, N)`), synonym groups, and the POS id is the
id `pos_of` interns the six DECLARED strings under (`pos_interning_spec`); the reader's other state is untouched and the
call fails exactly when `pos_of` does.

PARTIAL in one respect - the full statement has `splitsA splitsB : List (numeric reference | inline reference
surface,pos1..6,reading written through the escaper with `,` and `/` forced)`: inline units in the two split columns
are not in `DeclRow` (the proof needs `splitn(8, ",")` over the joined unit and the interleaving of `pos_of` calls for
the units' POS rows before the row's own); they are executed by the model from the raw text and tied by correspondence
+ the inline-reference oracle on every run; their resolution is `split_resolution_spec`. -/
theorem fields_roundtrip_partial (rd : Reader) (d : DeclRow) (h : d.ok = true) :
    parseRecord rd d.fields = (posOf rd d.posKey).map (fun x =>
      { x.2 with unresolved := x.2.unresolved + 0 + 0, entries := x.2.entries.push (d.raw x.1) }) ∧
    (d.raw 0).headwordS = d.headword.val ∧ (d.raw 0).readingS = d.reading.val ∧
    (toEntry (d.raw 0) [] []).normS = d.norm.val := by
  have key : ∀ a b : Str, (if a = b then (none : Option Str) else some b).getD a = b := by
    intro a b; split <;> simp_all
  refine ⟨parseRecord_fields rd d h, ?_, ?_, ?_⟩
  · simp only [RawEntry.headwordS, DeclRow.raw, noneIfEqual, key]
  · simp only [RawEntry.readingS, RawEntry.headwordS, DeclRow.raw, noneIfEqual, key]
  · simp only [Entry.normS, Entry.headwordS, toEntry, DeclRow.raw, noneIfEqual, key]

/-- **CSV TEXT → records → entries = the declared data**, ONE theorem whose only hypothesis is the decidable limits
predicate of the rows: for every list of declared rows (each with the terminator written after it), the text the
reference renderer produces (RFC 4180 quoting of the 19 rendered fields, `csv_records_roundtrip`) is split by the
modelled csv reader into exactly these records, and `read_record` over them (`fields_roundtrip_partial`, POS interning
threaded through the rows in order) leaves in the reader exactly the declared entries, in order, each under the POS id
of its six declared strings - or fails at the first row whose new POS row exceeds the table limit, and never otherwise.
No hypothesis about the text: it is computed from the declared data.

`csv_text_to_loaded_fields` (the whole first sentence of the property as one theorem) is this theorem followed by
`split_resolution_spec` (numeric references pass through the resolver unchanged: `resolve_refs`), `dict_roundtrip`
(entries → file bytes → loader → `get_params` / `parse_word_info` of every entry, every matrix cell, POS rows, header)
and `wordinfo_roundtrip` (stored forms → accessors; F-EMPTY and D8's second half excluded by name there).  The
composition itself is NOT stated as a single theorem yet (`_partial`): what is missing is (i) the glue
`buildSystemText = stage chain` with `FileOk (the compile input the declared rows denote)` as the limits predicate,
(ii) inline units (see `fields_roundtrip_partial`), (iii) the matrix text by a renderer instead of the hypotheses of
`conn_text_roundtrip`. -/
theorem csv_text_to_entries_partial (rows : List (DeclRow × CsvTerm)) (rd : Reader) (h : ∀ r ∈ rows, r.1.ok = true) :
    readRecords rd ((csvRecords (csvRender (rows.map (fun r => (r.1.fields.toList, r.2))))).map List.toArray)
      = declRead rd (rows.map (·.1)) := by
  rw [csv_records_roundtrip _ (by
    intro r hr; simp only [List.mem_map] at hr; obtain ⟨x, _, rfl⟩ := hr; simp [DeclRow.fields])]
  simp only [List.map_map]
  have : (List.toArray ∘ (fun x : List Str × CsvTerm => x.1) ∘ fun r : DeclRow × CsvTerm => (r.1.fields.toList, r.2))
      = DeclRow.fields ∘ (·.1) := by
    funext r; simp
  rw [this, ← List.map_map]
  exact readRecords_fields _ rd (by
    intro d hd; simp only [List.mem_map] at hd; obtain ⟨r, hr, rfl⟩ := hd; exact h r hr)

/-! non-vacuity of the hypotheses -/

example : (127 : Nat) ≤ 32767 ∧ stringLength (encLen 127 ++ [9]) = some (127, [9]) ∧ encLen 126 = [126] ∧ encLen 127 = [128, 127] ∧ encLen 128 = [128, 128] := by decide
example : IsScalar 0x20BB7 ∧ encodeUtf16 0x20BB7 = [0xD842, 0xDFB7] ∧ decodeUtf16 [0xD842, 0xDFB7] = some [0x20BB7] := by
  refine ⟨Or.inr (by decide), by decide, by decide⟩
example : LinesOk 2 3 [(1, 2, -5), (0, 0, 7), (1, 2, 9)] ∧ declared [(1, 2, -5), (0, 0, 7), (1, 2, 9)] 1 2 0 = 9 := by
  refine ⟨?_, by decide⟩
  intro x hx; simp at hx; rcases hx with rfl | rfl | rfl <;> decide
set_option maxRecDepth 100000 in
example : (lexAt [7, 7, 7] [emptyReadingEntry]).parseWordInfo 0 = .ok
    { surface := [12354], headWordLength := 3, dicFormWordId := -1 } ∧
    ([7, 7, 7] ++ lexiconBytes [emptyReadingEntry] ([emptyReadingEntry].map encWordInfo) 3).length < 4294967296 := by decide
example : emptyReadingEntry.WF :=
  { hw := ⟨fun c hc => by simp [emptyReadingEntry, Entry.headwordS] at hc; subst hc; exact Or.inl (by decide), by decide⟩,
    nf := ⟨fun c hc => by simp [emptyReadingEntry, Entry.normS, Entry.headwordS] at hc; subst hc; exact Or.inl (by decide), by decide⟩,
    rd := ⟨fun c hc => by simp [emptyReadingEntry, Entry.readingS] at hc, by decide⟩,
    key := by decide, pos := by decide, df := by decide,
    a := ⟨by decide, fun x hx => by simp [emptyReadingEntry] at hx⟩, b := ⟨by decide, fun x hx => by simp [emptyReadingEntry] at hx⟩,
    ws := ⟨by decide, fun x hx => by simp [emptyReadingEntry] at hx⟩, syn := ⟨by decide, fun x hx => by simp [emptyReadingEntry] at hx⟩ }

/-- a small builder state within the limits: two entries (the second names the first as its dictionary form), one
POS row with an empty and an astral string, a 2 x 1 matrix holding 5 and -5 -/
def sampleInput : CompileInput :=
  { user := false, time := 1600000000, desc := [118], pos := [[[97], [98], [], [42], [42], [0x20BB7]]], startPos := 0,
    conn := { matrix := [5, 0, 251, 255], numLeft := 2, numRight := 1 },
    entries := [plainEntry [12354] INVALID_WID, plainEntry [12354, 12356] 0],
    maxLeft := 2, maxRight := 1, numSystem := none, trie := [1, 2, 3, 4] }

set_option maxRecDepth 100000 in
example : FileOk sampleInput ∧
    validateEntries sampleInput.dfOwn sampleInput.maxLeft sampleInput.maxRight sampleInput.numSystem sampleInput.entries = true := by decide
set_option maxRecDepth 100000 in
example : FileOk { sampleInput with user := true, numSystem := some 1, startPos := 1, conn := {}, entries := [plainEntry [12354] 0] } := by decide
set_option maxRecDepth 100000 in
example : LinesOk 2 1 [(0, 0, 5), (1, 0, -5)] ∧
    writeAll sampleInput.conn.numLeft.toNat [(0, 0, 5), (1, 0, -5)]
      (List.replicate (sampleInput.conn.numLeft.toNat * sampleInput.conn.numRight.toNat * 2) 0) = .ok sampleInput.conn.matrix := by
  refine ⟨?_, by decide⟩
  intro x hx; simp at hx; rcases hx with rfl | rfl <;> decide
example : ∃ t, sampleInput.entries[1]? = some (plainEntry [12354, 12356] 0) ∧ (plainEntry [12354, 12356] 0).dicForm < 2147483648 ∧
    (plainEntry [12354, 12356] 0).dicForm ≠ 1 ∧ sampleInput.entries[(plainEntry [12354, 12356] 0).dicForm]? = some t :=
  ⟨_, rfl, by decide, by decide, rfl⟩
/-- a user dictionary compiled by the repaired writer: row 0 (`あ`) names row 1 (`い`) as `U1` -/
def repairedUserInput : CompileInput :=
  { user := true, dfFix := true, time := 1600000000, desc := [117], pos := [[[97], [98], [], [42], [42], [0x20BB7]]], startPos := 1,
    conn := { matrix := [], numLeft := 0, numRight := 0 },
    entries := [plainEntry [12354] (widNew 1 1), plainEntry [12356] INVALID_WID],
    maxLeft := 2, maxRight := 1, numSystem := some 5, trie := [1, 2, 3, 4] }
set_option maxRecDepth 100000 in
example : FileOk repairedUserInput ∧ repairedUserInput.dfFix = true ∧
    validateEntries repairedUserInput.dfOwn repairedUserInput.maxLeft repairedUserInput.maxRight repairedUserInput.numSystem repairedUserInput.entries = true ∧
    repairedUserInput.entries[0]? = some (plainEntry [12354] (widNew 1 1)) ∧ (plainEntry [12354] (widNew 1 1)).dicForm = widNew 1 1 ∧
    repairedUserInput.entries[1]? = some (plainEntry [12356] INVALID_WID) ∧ (plainEntry [12356] INVALID_WID).headwordS ≠ [] := by decide
set_option maxRecDepth 100000 in
/-- the same two rows, stored by the writer as it stands and by the repaired one -/
example : (lexOf ([plainEntry [12354] (widNew 1 1), plainEntry [12356] INVALID_WID].map (storeDf false))).getWordInfo 0
      = .panic "slice:word_id_to_offset" ∧
    ((lexOf ([plainEntry [12354] (widNew 1 1), plainEntry [12356] INVALID_WID].map (storeDf true))).getWordInfo 0).bind
      (fun wi => .ok wi.dictionaryFormA) = .ok [12356] := by decide
example : IsVersion SYSTEM_DICT_VERSION_2 ∧ IsVersion USER_DICT_VERSION_3 ∧ versionOf false = SYSTEM_DICT_VERSION_2 :=
  ⟨Or.inr (Or.inl rfl), Or.inr (Or.inr (Or.inr (Or.inr rfl))), rfl⟩
example : PosOk ([[[97], [98], [], [42], [42], [0x20BB7]]] : List (List Str)) := by decide
set_option maxRecDepth 100000 in
/-- the matrix text `2 1\n0 0 5\n\n1 0 -5\n` -/
example : (readLines (lit "2 1\n0 0 5\n\n1 0 -5\n")).dropWhile isEmptyLine = lit "2 1\n" :: [lit "0 0 5\n", lit "\n", lit "1 0 -5\n"] ∧
    (splitnWhite 2 (trim (lit "2 1\n"))).map parseI16 = [some ((2 : Nat) : Int), some ((1 : Nat) : Int)] ∧
    lineTriples [lit "0 0 5\n", lit "\n", lit "1 0 -5\n"] = some [(0, 0, 5), (1, 0, -5)] := by decide
example : Holds (List.replicate (2 * 3 * 2) 0) 2 3 (fun _ _ => 0) := holds_zero 2 3
set_option maxRecDepth 100000 in
/-- two records with every CSV-special character, written with three different terminators -/
example : (∀ r ∈ [([lit "#x", lit "a\"b,c\nd"], CsvTerm.crlf), ([[], 0xFEFF :: lit "y"], CsvTerm.cr), ([lit " z "], CsvTerm.lf)], r.1 ≠ []) ∧
    csvRecords (csvRender [([lit "#x", lit "a\"b,c\nd"], CsvTerm.crlf), ([[], 0xFEFF :: lit "y"], CsvTerm.cr), ([lit " z "], CsvTerm.lf)])
      = [[lit "#x", lit "a\"b,c\nd"], [[], 0xFEFF :: lit "y"], [lit " z "]] := by decide
/-- a user dictionary under both repairs: row 0 (`あ`) names own entry 1 (`い`) by the plain id `1`, row 1 names row 0 as `U0` -/
def ownUserInput : CompileInput :=
  { user := true, dfFix := true, dfOwn := true, time := 1600000000, desc := [117], pos := [[[97], [98], [], [42], [42], [0x20BB7]]], startPos := 1,
    conn := { matrix := [], numLeft := 0, numRight := 0 },
    entries := [plainEntry [12354] 1, plainEntry [12356] (widNew 1 0)],
    maxLeft := 2, maxRight := 1, numSystem := some 1, trie := [1, 2, 3, 4] }
set_option maxRecDepth 100000 in
example : FileOk ownUserInput ∧ ownUserInput.dfFix = true ∧ ownUserInput.dfOwn = true ∧ ownUserInput.numSystem = some 1 ∧
    validateEntries ownUserInput.dfOwn ownUserInput.maxLeft ownUserInput.maxRight ownUserInput.numSystem ownUserInput.entries = true ∧
    ownUserInput.entries[0]? = some (plainEntry [12354] 1) ∧ (plainEntry [12354] 1).dicForm ≠ INVALID_WID ∧
    -- the code as it stands refuses this dictionary (system word 1 does not exist) ...
    validateEntries false ownUserInput.maxLeft ownUserInput.maxRight ownUserInput.numSystem ownUserInput.entries = false ∧
    -- ... and accepts `5` with six system words, which the reader cannot resolve; the repaired validator refuses it
    validateEntries false 2 1 (some 6) [plainEntry [12354] 5] = true ∧ validateEntries true 2 1 (some 6) [plainEntry [12354] 5] = false := by decide

set_option maxRecDepth 100000 in
/-- `a` raw, `,` as `,`, U+20BB7 as `\u{020bb7}`, a backslash written as itself in front of `u1` (no literal) -/
example : EStr.ok [(97, .raw), (44, .u4 true), (0x20BB7, .br 6 false), (92, .raw), (117, .raw), (49, .raw)] = true ∧
    EStr.text [(97, .raw), (44, .u4 true), (0x20BB7, .br 6 false), (92, .raw), (117, .raw), (49, .raw)] = lit "a\\u002C\\u{020bb7}\\u1" ∧
    -- a raw backslash that WOULD begin a literal is outside the escaper's range (the generator's `has_escape`)
    EStr.ok [(92, .raw), (117, .raw), (48, .raw), (48, .raw), (52, .raw), (49, .raw)] = false := by decide
/-- a declared row: key `東`, headword `東京` with `京` escaped, reading = headword, dictionary form `U3`, splits `1/U2`, synonyms 7/8 -/
def sampleRow : DeclRow :=
  { surface := EStr.plain [26481], left := 1, right := -1, cost := -32768, headword := [(26481, .raw), (20140, .u4 false)],
    p1 := EStr.plain [97], p2 := [], p3 := EStr.plain [42], p4 := EStr.plain [42], p5 := EStr.plain [42], p6 := [(44, .br 2 true)],
    reading := EStr.plain [26481, 20140], norm := [], dicForm := some (true, 3), mode := lit " BC ",
    splitsA := [(false, 1), (true, 2)], splitsB := [], ws := [(false, 0)], syn := [7, 8] }
set_option maxRecDepth 100000 in
example : sampleRow.ok = true ∧ sampleRow.fields[4]? = some (lit "東\\u4eac") ∧
    (sampleRow.raw 0).reading = none ∧ (sampleRow.raw 0).normForm = some [] := by decide
example : (({} : Reader).pos.toList).Nodup := by simp
example (own sys : List ResolverRow) : resolveUnit own sys (.ref 5) = some 5 := rfl
/-- own row before system row, first own row wins, unresolved = none -/
example : resolveUnit [([1], 0, none, 7), ([1], 0, none, 8)] [([1], 0, none, 9)] (.inline [1] 0 none) = some 7 ∧
    resolveUnit [([2], 0, none, 7)] [([1], 0, none, 9)] (.inline [1] 0 none) = some 9 ∧
    resolveUnit [([2], 0, none, 7)] [([1], 0, none, 9)] (.inline [1] 1 none) = none := by decide

/-! ## the round trip through PARTIAL field subsets (composition with the C11 reader model)

`wordinfo_roundtrip` reads the written record with all fields.  The loaded dictionary hands fields out through partial
requests as well (`WordInfoParser::subset`: the lattice asks for POS_ID, the user-dictionary resolver for
SURFACE|READING_FORM|POS_ID, ...); there the reader SKIPS what was not asked for (`skip_u16_string`, `skip_wid_array`,
`skip_u32_array` - transcribed byte for byte in `Model/Subset.lean`: `skipU16String` goes through `string_length_parser`
and so honours the two-byte prefix, `skipArray` takes a one-byte count and panics on a short slice).  The bridge
`CodecSubset.encodeBytes_toSub` shows that the bytes `write_word_info` writes (`Codec.encWordInfo`, this property's
writer model) are exactly the record `C11.subset_fields_eq` is stated about. -/

/-- **Clause "loading yields for every entry exactly the declared data", for EVERY request.**  For every well-formed
declared entry `e`, every request `T` (any of the 1024 masks, junk bits included) and any bytes after the record: the
subset parser succeeds on what `write_word_info` wrote, and every field IN the request is the declared one - headword,
key length, POS id, dictionary-form id, split units, word structure, synonym groups as stored values; the normalised
form and the reading through the accessors `normalized_form()` / `reading_form()` whenever the request also holds the
headword they fall back to (declared value **unless declared empty**, as in `wordinfo_roundtrip`: F-EMPTY).  Strings
of 127..32767 UTF-16 units (two-byte length prefix) are not special cases: `Entry.WF` allows every length `0..32767`
for each of the three strings, whether the string is asked for (parsed) or not (skipped). -/
theorem subset_roundtrip (e : Entry) (wf : e.WF) (T : Nat) (rest : Bytes) :
    ∃ wi, Subset.parse T (encWordInfo e ++ rest) = .ok wi ∧
      (T.testBit Subset.SURFACE = true → wi.surface = e.headwordS) ∧
      (T.testBit Subset.HEAD_WORD_LENGTH = true → wi.headWordLength = utf8LenStr e.surface) ∧
      (T.testBit Subset.POS_ID = true → wi.posId = e.pos) ∧
      (T.testBit Subset.NORMALIZED_FORM = true → T.testBit Subset.SURFACE = true →
        Subset.accNormalizedForm wi = (if e.normS = [] then e.headwordS else e.normS)) ∧
      (T.testBit Subset.DIC_FORM_WORD_ID = true → wi.dictionaryFormWordId = u32ToI e.dicForm) ∧
      (T.testBit Subset.READING_FORM = true → T.testBit Subset.SURFACE = true →
        Subset.accReadingForm wi = (if e.readingS = [] then e.headwordS else e.readingS)) ∧
      (T.testBit Subset.SPLIT_A = true → wi.aUnitSplit = e.splitsA) ∧
      (T.testBit Subset.SPLIT_B = true → wi.bUnitSplit = e.splitsB) ∧
      (T.testBit Subset.WORD_STRUCTURE = true → wi.wordStructure = e.wordStructure) ∧
      (T.testBit Subset.SYNONYM_GROUP_ID = true → wi.synonymGroupIds = e.synonyms) := by
  obtain ⟨i1, _, e1, _, _, hf⟩ := C11.subset_fields_eq (CodecSubset.toSub e) (CodecSubset.toSub_wf e wf) T rest
  rw [CodecSubset.encodeBytes_toSub e wf] at e1
  refine ⟨i1, e1, hf.surface, hf.headWordLength, hf.posId, ?_, hf.dictionaryFormWordId, ?_, hf.aUnitSplit, hf.bUnitSplit,
    hf.wordStructure, hf.synonymGroupIds⟩
  · intro h3 h0
    simp only [Subset.accNormalizedForm, hf.normalizedForm h3, hf.surface h0, CodecSubset.toSub, stored, List.isEmpty_iff]
    by_cases h1 : e.normS = e.headwordS
    · by_cases h2 : e.normS = []
      · simp [h1]
      · simp [h1]
    · by_cases h2 : e.normS = []
      · simp [h2]
      · simp [h1, h2]
  · intro h5 h0
    simp only [Subset.accReadingForm, hf.readingForm h5, hf.surface h0, CodecSubset.toSub, stored, List.isEmpty_iff]
    by_cases h1 : e.readingS = e.headwordS
    · by_cases h2 : e.readingS = []
      · simp [h1]
      · simp [h1]
    · by_cases h2 : e.readingS = []
      · simp [h2]
      · simp [h1, h2]

/-- **The same at the level the analyser uses it** (`set_subset` / `InfoSubset::normalize`, both code variants of
`normalize`): what is loaded for a request `S` is `normalize S`; every field `f ∈ S` - the two forms through their
accessors, with the fall-back to the headword that `normalize` makes available - equals the declared value. -/
theorem subset_roundtrip_normalized (v : Subset.NzVariant) (e : Entry) (wf : e.WF) (S : Nat) (rest : Bytes) :
    ∃ wi, Subset.parse (Subset.normalize v S) (encWordInfo e ++ rest) = .ok wi ∧
      (S.testBit Subset.SURFACE = true → wi.surface = e.headwordS) ∧
      (S.testBit Subset.HEAD_WORD_LENGTH = true → wi.headWordLength = utf8LenStr e.surface) ∧
      (S.testBit Subset.POS_ID = true → wi.posId = e.pos) ∧
      (S.testBit Subset.NORMALIZED_FORM = true →
        Subset.accNormalizedForm wi = (if e.normS = [] then e.headwordS else e.normS)) ∧
      (S.testBit Subset.DIC_FORM_WORD_ID = true → wi.dictionaryFormWordId = u32ToI e.dicForm) ∧
      (S.testBit Subset.READING_FORM = true →
        Subset.accReadingForm wi = (if e.readingS = [] then e.headwordS else e.readingS)) ∧
      (S.testBit Subset.SPLIT_A = true → wi.aUnitSplit = e.splitsA) ∧
      (S.testBit Subset.SPLIT_B = true → wi.bUnitSplit = e.splitsB) ∧
      (S.testBit Subset.WORD_STRUCTURE = true → wi.wordStructure = e.wordStructure) ∧
      (S.testBit Subset.SYNONYM_GROUP_ID = true → wi.synonymGroupIds = e.synonyms) := by
  obtain ⟨wi, h, f0, f1, f2, f3, f4, f5, f6, f7, f8, f9⟩ := subset_roundtrip e wf (Subset.normalize v S) rest
  have up := fun b hb => Subset.testBit_normalize_of v S b hb
  exact ⟨wi, h, fun hb => f0 (up _ hb), fun hb => f1 (up _ hb), fun hb => f2 (up _ hb),
    fun hb => f3 (up _ hb) (Subset.normalize_surface_of_forms v S (Or.inr hb)), fun hb => f4 (up _ hb),
    fun hb => f5 (up _ hb) (Subset.normalize_surface_of_forms v S (Or.inl hb)), fun hb => f6 (up _ hb),
    fun hb => f7 (up _ hb), fun hb => f8 (up _ hb), fun hb => f9 (up _ hb)⟩

/-- **The 127/128 boundary, spelled out.**  When the headword has 127 or more UTF-16 units the record BEGINS with a
two-byte length prefix (first byte `0x80 | hi`, second byte `lo`), and a request that does not hold the headword - so
that the reader must skip exactly `2 + 2 * units` bytes - still returns every later field it asks for; stated for the
POS id (the lattice's request) and the synonym groups (the last field: everything before it is skipped). -/
theorem subset_skips_two_byte_prefix (e : Entry) (wf : e.WF) (hlong : 127 ≤ (units e.headwordS).length)
    (T : Nat) (_hT : T.testBit Subset.SURFACE = false) (rest : Bytes) :
    (∃ b0 b1 tl, encWordInfo e = b0 :: b1 :: tl ∧ 128 ≤ b0 ∧ (b0 - 128) * 256 + b1 = (units e.headwordS).length) ∧
    ∃ wi, Subset.parse T (encWordInfo e ++ rest) = .ok wi ∧
      (T.testBit Subset.POS_ID = true → wi.posId = e.pos) ∧
      (T.testBit Subset.SYNONYM_GROUP_ID = true → wi.synonymGroupIds = e.synonyms) := by
  refine ⟨?_, ?_⟩
  · have hn := wf.hw.2
    have hq : (units e.headwordS).length / 256 < 128 := by omega
    have e0 := (lor128 ((units e.headwordS).length / 256) hq).1
    have e1 : ((units e.headwordS).length >>> 8) % 256 = (units e.headwordS).length / 256 := by
      rw [Nat.shiftRight_eq_div_pow]
      omega
    have e2 : (units e.headwordS).length % 256 &&& 0xff = (units e.headwordS).length % 256 := by
      have := Nat.and_two_pow_sub_one_eq_mod ((units e.headwordS).length % 256) 8
      simp at this
      omega
    refine ⟨(units e.headwordS).length / 256 + 128, (units e.headwordS).length % 256, (encWordInfo e).drop 2, ?_, by omega, by omega⟩
    simp only [encWordInfo, encStr, encLen, show ¬ (units e.headwordS).length < 127 by omega, if_false, e1, e2, e0,
      List.cons_append, List.nil_append, List.append_assoc, List.drop_succ_cons, List.drop_zero]
  · obtain ⟨wi, h, _, _, f2, _, _, _, _, _, _, f9⟩ := subset_roundtrip e wf T rest
    exact ⟨wi, h, f2, f9⟩

/-- an entry whose three strings sit on both sides of the boundary: headword 128 units, normalised form 127 units,
reading 126 units (key `a`), with a split unit, a word-structure unit and two synonym groups -/
def boundaryEntry : Entry :=
  { left := 0, right := 0, cost := 0, surface := [97], headword := some (List.replicate 128 97), dicForm := INVALID_WID,
    normForm := some (List.replicate 127 98), pos := 5, splitsA := [3], splitsB := [], reading := some (List.replicate 126 12354),
    wordStructure := [2], synonyms := [7, 8] }

set_option maxRecDepth 100000 in
/-- non-vacuity of `Entry.WF` at the boundary -/
theorem boundaryEntry_wf : boundaryEntry.WF :=
  { hw := ⟨fun c hc => by simp [boundaryEntry, Entry.headwordS] at hc; subst hc; exact Or.inl (by decide), by decide⟩,
    nf := ⟨fun c hc => by simp [boundaryEntry, Entry.normS] at hc; subst hc; exact Or.inl (by decide), by decide⟩,
    rd := ⟨fun c hc => by simp [boundaryEntry, Entry.readingS] at hc; subst hc; exact Or.inl (by decide), by decide⟩,
    key := by decide, pos := by decide, df := by decide,
    a := ⟨by decide, fun x hx => by simp [boundaryEntry] at hx; subst hx; decide⟩, b := ⟨by decide, fun x hx => by simp [boundaryEntry] at hx⟩,
    ws := ⟨by decide, fun x hx => by simp [boundaryEntry] at hx; subst hx; decide⟩,
    syn := ⟨by decide, fun x hx => by simp [boundaryEntry] at hx; rcases hx with rfl | rfl <;> decide⟩ }

/-- the lattice's request on the boundary entry: POS id 5 comes back although a 128-unit headword (prefix `[128, 128]`)
is skipped -/
example (rest : Bytes) : ∃ wi, Subset.parse (2 ^ Subset.POS_ID) (encWordInfo boundaryEntry ++ rest) = .ok wi ∧ wi.posId = 5 := by
  obtain ⟨wi, h, _, _, f2, _⟩ := subset_roundtrip boundaryEntry boundaryEntry_wf (2 ^ Subset.POS_ID) rest
  exact ⟨wi, h, f2 (by decide)⟩
set_option maxRecDepth 100000 in
/-- the resolver's request: headword (128 units, parsed), POS id, reading (126 units, parsed), the 127-unit normalised
form in between skipped -/
example (rest : Bytes) : ∃ wi, Subset.parse (2 ^ Subset.SURFACE ||| 2 ^ Subset.READING_FORM ||| 2 ^ Subset.POS_ID)
      (encWordInfo boundaryEntry ++ rest) = .ok wi ∧
    wi.surface = List.replicate 128 97 ∧ Subset.accReadingForm wi = List.replicate 126 12354 ∧ wi.posId = 5 := by
  obtain ⟨wi, h, f0, _, f2, _, _, f5, _⟩ :=
    subset_roundtrip boundaryEntry boundaryEntry_wf (2 ^ Subset.SURFACE ||| 2 ^ Subset.READING_FORM ||| 2 ^ Subset.POS_ID) rest
  refine ⟨wi, h, f0 (by decide), ?_, f2 (by decide)⟩
  rw [f5 (by decide) (by decide)]
  decide
set_option maxRecDepth 100000 in
/-- hypotheses of `subset_skips_two_byte_prefix` are satisfiable, and its first claim is about real bytes -/
example : 127 ≤ (units boundaryEntry.headwordS).length ∧ (2 ^ Subset.POS_ID).testBit Subset.SURFACE = false ∧
    (encWordInfo boundaryEntry).take 2 = [128, 128] := by decide
set_option maxRecDepth 100000 in
/-- `normalize` in front: asking for the normalised form alone loads the headword too -/
example (rest : Bytes) : ∃ wi, Subset.parse (Subset.normalize .fix (2 ^ Subset.NORMALIZED_FORM)) (encWordInfo boundaryEntry ++ rest) = .ok wi ∧
    Subset.accNormalizedForm wi = List.replicate 127 98 := by
  obtain ⟨wi, h, _, _, _, f3, _⟩ := subset_roundtrip_normalized .fix boundaryEntry boundaryEntry_wf (2 ^ Subset.NORMALIZED_FORM) rest
  refine ⟨wi, h, ?_⟩
  rw [f3 (by decide)]
  decide

/-- the dictionary form a row of a SYSTEM dictionary declares: the headword of the entry column 13 names, the own
headword for `*` (stored -1) and for a row naming itself (an empty headword of the named entry cannot be told from "none") -/
def declDicForm (es : List Entry) (k : Nat) (e : Entry) : Str :=
  if u32ToI e.dicForm ≥ 0 ∧ u32ToI e.dicForm ≠ (k : Int) then
    match es[(u32ToI e.dicForm).toNat]? with
    | some t => if t.headwordS = [] then e.headwordS else t.headwordS
    | none => e.headwordS
  else e.headwordS

/-- **Dictionary form through a partial request, at `WordInfos::get_word_info`** (composition with
`Subset.getWordInfo_spec_full`, the spec behind `C11.get_word_info_fields_eq`).  In a lexicon whose records are what
`write_word_info` wrote for well-formed declared entries `es` with dictionary-form references inside the lexicon (a
system dictionary that passed `validate_entries`), for every entry `k` and EVERY request `T` that holds the
dictionary-form id and the headword (what `normalize` makes of a request for the dictionary form): the call succeeds,
the id is the declared one and `dictionary_form()` is the headword of the entry the row names - whatever else `T`
asks for or skips, whatever the lengths of the strings in between. -/
theorem subset_dicform_roundtrip (es : List Entry) (hwf : ∀ e ∈ es, e.WF)
    (hdf : ∀ e ∈ es, u32ToI e.dicForm < 0 ∨ (u32ToI e.dicForm).toNat < es.length)
    (k : Nat) (hk : k < es.length) (T : Nat)
    (h4 : T.testBit Subset.DIC_FORM_WORD_ID = true) (h0 : T.testBit Subset.SURFACE = true) :
    ∃ wi, Subset.getWordInfo ⟨es.map encWordInfo, true⟩ k T = .ok wi ∧
      wi.dictionaryFormWordId = u32ToI es[k].dicForm ∧
      Subset.accDictionaryForm wi = declDicForm es k es[k] := by
  have hrecs : (es.map CodecSubset.toSub).map Subset.encodeBytes = es.map encWordInfo := by
    rw [List.map_map]
    exact List.map_congr_left (fun e he => CodecSubset.encodeBytes_toSub e (hwf e he))
  have hwf' : ∀ w ∈ es.map CodecSubset.toSub, Subset.WF w := by
    intro w hw
    obtain ⟨e, he, rfl⟩ := List.mem_map.mp hw
    exact CodecSubset.toSub_wf e (hwf e he)
  have hdf' : Subset.DfOk (es.map CodecSubset.toSub) := by
    intro w hw
    obtain ⟨e, he, rfl⟩ := List.mem_map.mp hw
    simpa [CodecSubset.toSub] using hdf e he
  have hk' : k < (es.map CodecSubset.toSub).length := by simpa using hk
  obtain ⟨wi, e1, l1, _, d1, _⟩ := Subset.getWordInfo_spec_full (es.map CodecSubset.toSub) hwf' hdf' true k hk' T
  have eff : Subset.effSubset true T = T := by simp [Subset.effSubset]
  rw [eff] at l1 d1
  have L4 : Subset.Loaded T 4 := ⟨by omega, Or.inl h4⟩
  have L0 : Subset.Loaded T 0 := ⟨by omega, Or.inl h0⟩
  have s0 := l1 0 L0
  have s4 := l1 4 L4
  have dd := d1 L4
  simp only [Subset.proj] at s0 s4
  simp [CodecSubset.toSub] at s0 s4
  refine ⟨wi, ?_, s4, ?_⟩
  · rw [← hrecs]; exact e1
  · simp only [Subset.accDictionaryForm, dd, s0, Subset.dicFormOf, declDicForm, List.getElem_map, CodecSubset.toSub,
      List.getElem?_map, List.isEmpty_iff]
    split
    · cases es[(u32ToI es[k].dicForm).toNat]? with
      | none => simp
      | some t =>
        simp only [Option.map_some, Option.getD_some]
        have hs : (CodecSubset.toSub t).surface = t.headwordS := rfl
        by_cases ht : t.headwordS = []
        · simp [ht, hs]
        · simp [ht, hs]
    · simp

set_option maxRecDepth 100000 in
/-- non-vacuity: two entries, the second (headword of 128 units) names the first as its dictionary form -/
example : (Subset.getWordInfo ⟨[plainEntry [12354] INVALID_WID, { boundaryEntry with dicForm := 0 }].map encWordInfo, true⟩ 1
      (2 ^ Subset.DIC_FORM_WORD_ID ||| 2 ^ Subset.SURFACE ||| 2 ^ Subset.SYNONYM_GROUP_ID)).bind
      (fun wi => .ok (Subset.accDictionaryForm wi, wi.dictionaryFormWordId, wi.synonymGroupIds, wi.posId)) =
    .ok ([12354], 0, [7, 8], 5) := by decide

/-- the hypotheses of `subset_dicform_roundtrip` are satisfiable (a one-entry lexicon, dictionary form `*`) and the
theorem then answers the own 128-unit headword -/
example : ∃ wi, Subset.getWordInfo ⟨[boundaryEntry].map encWordInfo, true⟩ 0 (2 ^ Subset.DIC_FORM_WORD_ID ||| 2 ^ Subset.SURFACE) = .ok wi ∧
    Subset.accDictionaryForm wi = List.replicate 128 97 := by
  obtain ⟨wi, h, _, hd⟩ := subset_dicform_roundtrip [boundaryEntry]
    (fun e he => by simp at he; subst he; exact boundaryEntry_wf) (fun e he => by simp at he; subst he; exact Or.inl (by decide))
    0 (by simp) (2 ^ Subset.DIC_FORM_WORD_ID ||| 2 ^ Subset.SURFACE) (by decide) (by decide)
  refine ⟨wi, h, ?_⟩
  rw [hd]
  decide

/-- for contrast, the skip of seeded change C05e (`skip_prefixed`: ONE-byte count times the item size, `OutOfBounds`
instead of the slice panic) - right for the arrays, not for strings -/
def skipOneByteCount (itemSize : Nat) (input : Bytes) : Subset.Res Bytes :=
  match Subset.leU8 input with
  | .ok (length, rest) => if rest.length < length * itemSize then .err else .ok (rest.drop (length * itemSize))
  | .err => .err
  | .panic => .panic

set_option maxRecDepth 100000 in
/-- **Why the skip must read the prefix the way the writer wrote it.**  Kernel-checked witness: on a 126-unit string
the one-byte-count skip and `skip_u16_string` agree; on the 127-unit string (written `[128, 127]`) `skip_u16_string`
lands behind the string, while the one-byte-count skip takes the first prefix byte `128` for the length and consumes
256 bytes - the second prefix byte, the 254 bytes of the string and ONE BYTE OF THE NEXT FIELD - so that the key length
and the POS id read next are garbage (with longer strings it stops inside the string instead).  The arrays are
unaffected (one-byte count on both sides). -/
theorem skip_one_byte_count_counterexample :
    skipOneByteCount 2 (encStr (List.replicate 126 97) ++ [5, 0, 9]) = .ok [5, 0, 9] ∧
    Subset.skipU16String (encStr (List.replicate 127 97) ++ [5, 0, 9]) = .ok [5, 0, 9] ∧
    skipOneByteCount 2 (encStr (List.replicate 127 97) ++ [5, 0, 9]) = .ok [0, 9] ∧
    skipOneByteCount 4 (encU32s (List.replicate 127 7) ++ [5, 0]) = Subset.skipArray (encU32s (List.replicate 127 7) ++ [5, 0]) := by
  decide

end C05
