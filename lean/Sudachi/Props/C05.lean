import Sudachi.Model.Codec
import Sudachi.Model.CodecBuild
import Sudachi.Proofs.Codec
import Sudachi.Proofs.CodecLayout
/-!
# C05 — compile-then-load round trip preserves every dictionary field, deterministically

Model: `Codec` (`Model/Codec.lean`: writers of `dic/build/primitives.rs`, `lexicon.rs write_word_info`,
`conn.rs write_elem`, readers of `dic/read/*`, `lexicon/word_infos.rs`, `connect.rs`, `grammar.rs`,
`header.rs`; `Model/CodecBuild.lean`: CSV field parsers, resolver, layout of `DictBuilder::compile`).
Quantifiers: every string of Unicode scalar values, every length `0..32767`, every array of up to 127
`u32`s, every well-formed entry, every matrix shape and every list of in-range matrix lines.
-/
namespace C05
open Codec

/-- Clause "length prefix: 1 byte below 127, else 2 bytes with the high bit; the reader accepts both".
For every length the writer accepts (`0..=i16::MAX`) the reader returns it and leaves the rest
untouched — 126/127/128 are not special cases. -/
theorem len_roundtrip (n : Nat) (hn : n ≤ 32767) (rest : Bytes) :
    writeLen n = .ok (encLen n) ∧ stringLength (encLen n ++ rest) = some (n, rest) ∧
      (encLen n).length = (if n < 127 then 1 else 2) := by
  refine ⟨?_, stringLength_encLen n hn rest, encLen_length n⟩
  unfold writeLen
  simp only [show ¬ n > 32767 by omega, if_false]

/-- the writer rejects every longer length (no silent truncation of the 15-bit prefix) -/
theorem len_too_long (n : Nat) (hn : n > 32767) : writeLen n = .err "InvalidSize" := by
  unfold writeLen; simp only [hn, if_true]

/-- Clause "UTF-16 strings incl. surrogate pairs": one scalar value, BMP or astral, followed by
anything, decodes to itself. -/
theorem utf16_roundtrip (c : Nat) (hc : IsScalar c) (us : List Nat) :
    decodeUtf16 (encodeUtf16 c ++ us) = (decodeUtf16 us).map (c :: ·) :=
  decodeUtf16_encode c hc us

/-- Whole strings: `utf16_string_parser (Utf16Writer::write s ++ rest) = (s, rest)` for every string of
scalar values with at most 32767 UTF-16 code units. -/
theorem string_roundtrip (s : Str) (hs : Scalars s) (hl : (units s).length ≤ 32767) (rest : Bytes) :
    utf16StringParser (encStr s ++ rest) = some (s, rest) :=
  utf16StringParser_encStr s hs hl rest

/-- Clause "up to 127 array items": `u32_array_parser (write_u32_array xs ++ rest) = (xs, rest)`
(split units, word structure and synonym groups all use this codec; `WordId::from_raw` is the identity). -/
theorem u32array_roundtrip (xs : List Nat) (hl : xs.length ≤ 127) (h : ∀ x ∈ xs, x < 4294967296) (rest : Bytes) :
    writeU32Array xs = .ok (encU32s xs) ∧ u32ArrayParser (encU32s xs ++ rest) = some (xs, rest) := by
  refine ⟨?_, u32ArrayParser_encU32s xs h rest⟩
  unfold writeU32Array
  simp only [show ¬ xs.length > 127 by omega, if_false]

/-- Clause "field order and encodings of the writer mirror the reader" + "forms equal to the headword
are stored empty and restored on access".  For every well-formed entry, parsing the record written by
`write_word_info` (followed by any bytes) and reading it through the `WordInfo` accessors yields the
declared headword, key length, POS id, dictionary-form id, split units, word structure and synonym
groups; the normalised form and the reading come back as declared **unless declared empty**, in which
case the accessor answers the headword (see `empty_form_counterexample`). -/
theorem wordinfo_roundtrip (e : Entry) (wf : e.WF) (rest : Bytes) :
    ∃ wi, parseWordInfo (encWordInfo e ++ rest) = some wi ∧
      wi.surface = e.headwordS ∧
      wi.headWordLength = utf8LenStr e.surface ∧
      wi.posId = e.pos ∧
      wi.normalizedFormA = (if e.normS = [] then e.headwordS else e.normS) ∧
      wi.readingFormA = (if e.readingS = [] then e.headwordS else e.readingS) ∧
      wi.dicFormWordId = u32ToI e.dicForm ∧
      wi.aUnitSplit = e.splitsA ∧ wi.bUnitSplit = e.splitsB ∧
      wi.wordStructure = e.wordStructure ∧ wi.synonymGroupIds = e.synonyms := by
  refine ⟨_, parseWordInfo_enc e wf rest, rfl, rfl, rfl, ?_, ?_, rfl, rfl, rfl, rfl, rfl⟩
  · simp only [WordInfoData.normalizedFormA, stored]
    by_cases h1 : e.normS = e.headwordS
    · by_cases h2 : e.normS = []
      · simp [h1]
      · simp [h1]
    · by_cases h2 : e.normS = []
      · simp [h2]
      · simp [h1, h2]
  · simp only [WordInfoData.readingFormA, stored]
    by_cases h1 : e.readingS = e.headwordS
    · by_cases h2 : e.readingS = []
      · simp [h1]
      · simp [h1]
    · by_cases h2 : e.readingS = []
      · simp [h2]
      · simp [h1, h2]

/-- the checked writer accepts every well-formed entry and emits exactly `encWordInfo` -/
theorem wordinfo_written (e : Entry) (wf : e.WF)
    (hb : utf8LenStr e.headwordS ≤ 262144 ∧ utf8LenStr e.normS ≤ 262144 ∧ utf8LenStr e.readingS ≤ 262144) :
    writeWordInfo e = .ok (encWordInfo e) :=
  writeWordInfo_ok e wf hb

/-- a concrete entry (`あ`, reading declared empty) -/
def emptyReadingEntry : Entry :=
  { left := 0, right := 0, cost := 0, surface := [12354], headword := none, dicForm := INVALID_WID, normForm := none,
    pos := 0, splitsA := [], splitsB := [], reading := some [], wordStructure := [], synonyms := [] }

/-- The property's "exactly the declared data" is FALSE for an empty declared reading (same for the
normalised form): the binary format uses the empty string for "equal to the headword", so a row that
declares the empty reading is loaded with the headword as its reading.  Kernel-checked witness, also
reproduced on the implementation (finding `c05:empty-form`). -/
theorem empty_form_counterexample :
    emptyReadingEntry.readingS = [] ∧
    (parseWordInfo (encWordInfo emptyReadingEntry)).map (·.readingFormA) = some [12354] := by
  decide

/-- a minimal entry with headword `s` and dictionary-form id `df` -/
def plainEntry (s : Str) (df : Nat) : Entry :=
  { left := 0, right := 0, cost := 0, surface := s, headword := none, dicForm := df, normForm := none,
    pos := 0, splitsA := [], splitsB := [], reading := none, wordStructure := [], synonyms := [] }

/-- the lexicon section holding `es` (as `LexiconWriter::write` lays it out at offset 0) -/
def lexOf (es : List Entry) : Lexicon :=
  { bytes := lexiconBytes es (es.map encWordInfo) 0, trieOff := 0, trieSize := 0, widTableOff := 0, widTableSize := 0,
    paramsOff := 4, size := es.length, infosOff := 4 + 6 * es.length, hasSynonyms := true }

set_option maxRecDepth 100000 in
/-- D8, first half (kernel-checked witness on the model; reproduced on the implementation, finding
`c05:user-dicform:panic`).  A USER dictionary row `あ` declaring the dictionary form `U0` passes
`validate_entries` (user word 0 exists), is written with the raw id `0x10000000`, and
`WordInfos::get_word_info` then indexes the offsets table of the same lexicon with that raw id: panic. -/
theorem user_dicform_counterexample :
    validateEntries 1 1 (some 5) [plainEntry [12354] (widNew 1 0)] = true ∧
    (lexOf [plainEntry [12354] (widNew 1 0)]).getWordInfo 0 = .panic "slice:word_id_to_offset" := by
  decide

set_option maxRecDepth 100000 in
/-- D8, second half (finding `c05:user-dicform:wrong`).  A user row `あ` declaring the dictionary form
`1` (= SYSTEM word 1 for the validator: 5 system words exist) gets the headword of USER word 1 (`い`)
as its dictionary form, whatever system word 1 is. -/
theorem user_dicform_wrong_counterexample :
    validateEntries 1 1 (some 5) [plainEntry [12354] 1, plainEntry [12356] INVALID_WID] = true ∧
    ((lexOf [plainEntry [12354] 1, plainEntry [12356] INVALID_WID]).getWordInfo 0).bind (fun wi => .ok wi.dictionaryFormA)
      = .ok [12356] := by
  decide

/-- Clause "the connection cost of every id pair equals the matrix text" (`write_elem` at
`right*num_left+left`, read with the same formula).  For every shape and every list of in-range lines
written in file order onto the zero matrix, the cost read for `(l, r)` is the cost of the last line
naming that pair, or 0. -/
theorem matrix_roundtrip (nl nr : Nat) (lines : List (Int × Int × Int)) (hok : LinesOk nl nr lines)
    (l r : Nat) (hl : l < nl) (hr : r < nr) :
    ∃ m, writeAll nl lines (List.replicate (nl * nr * 2) 0) = .ok m ∧ m.length = nl * nr * 2 ∧
      connCost m nl nr l r = .ok (declared lines l r 0) := by
  obtain ⟨m, hm, hh⟩ := writeAll_holds nl nr lines hok _ _ (holds_zero nl nr)
  refine ⟨m, hm, hh.1, ?_⟩
  unfold connCost
  have : ¬ (l ≥ nl ∨ r ≥ nr) := by omega
  simp only [this, if_false, hh.2 l r hl hr]

/-- Whole-layout clause, PARTIAL.  Full statement (DESIGN `dict_roundtrip`): `load (compile src) ≃ src` for the
whole file - header, POS table, matrix, index, word parameters, offsets table, records.  Proved here: the
lexicon section.  For ANY bytes `pre` in front of it (header + grammar + index, trie blob abstract), any list of
well-formed entries and a file below 4 GiB, the offsets table written by `LexiconWriter::write`
(`offset_base = offset + 10·n + 4`) leads `WordInfos::parse_word_info(i)` to exactly the fields of entry `i`.
Missing: header/POS-table/word-parameter sections and that `Lexicon::parse` computes `lexAt`'s offsets
(covered by the byte-exact correspondence and the oracle on every run). -/
theorem dict_roundtrip_partial (pre : Bytes) (es : List Entry) (hwf : ∀ e ∈ es, e.WF)
    (hsize : (pre ++ lexiconBytes es (es.map encWordInfo) pre.length).length < 4294967296)
    (i : Nat) (e : Entry) (hi : es[i]? = some e) :
    (lexAt pre es).parseWordInfo i = .ok
      { surface := e.headwordS, headWordLength := utf8LenStr e.surface, posId := e.pos,
        normalizedForm := stored e.normS e.headwordS, dicFormWordId := u32ToI e.dicForm,
        readingForm := stored e.readingS e.headwordS, aUnitSplit := e.splitsA, bUnitSplit := e.splitsB,
        wordStructure := e.wordStructure, synonymGroupIds := e.synonyms } :=
  parseWordInfo_lexAt pre es hwf hsize i e hi

/-- Clause "dictionary forms resolved to the intended entries", SYSTEM dictionaries: `get_word_info(i)`
reports as dictionary form the headword of the entry the row names (`*` or a self reference: its own
headword; an empty headword of the target cannot be told from "none").  For USER dictionaries this is
false: `user_dicform_counterexample`. -/
theorem dicform_roundtrip (pre : Bytes) (es : List Entry) (hwf : ∀ e ∈ es, e.WF)
    (hsize : (pre ++ lexiconBytes es (es.map encWordInfo) pre.length).length < 4294967296)
    (i : Nat) (e : Entry) (hi : es[i]? = some e) (target : Option Entry)
    (hdf : (e.dicForm = INVALID_WID ∧ target = none) ∨ (e.dicForm = i ∧ target = none) ∨
           (e.dicForm < 2147483648 ∧ e.dicForm ≠ i ∧ ∃ t, es[e.dicForm]? = some t ∧ target = some t)) :
    ∃ wi, (lexAt pre es).getWordInfo i = .ok wi ∧ wi.surface = e.headwordS ∧
      wi.dictionaryFormA = (match target with
        | none => e.headwordS
        | some t => if t.headwordS = [] then e.headwordS else t.headwordS) :=
  getWordInfo_lexAt pre es hwf hsize i e hi target hdf

/-- Clause "compiling the same inputs with the same timestamp twice yields byte-identical output",
as far as a model can say it: the model compiler is a function of (entries in order, POS table in
insertion order, matrix, timestamp, description, trie blob) and nothing else.  That the Rust keeps
to insertion-ordered containers is what the byte-exact correspondence run checks. -/
theorem compile_deterministic (a b : CompileInput) (h : a = b) : compile a = compile b := by
  rw [h]

/-- Clause "the result does not depend on the memory alignment of the loaded bytes": the loader reads
the bytes of the dictionary only, wherever they start in the enclosing buffer. -/
theorem load_alignment_free (pad bytes : Bytes) :
    readAny (pad ++ bytes) pad.length = readAny bytes 0 ∧
    readSystem (pad ++ bytes) pad.length = readSystem bytes 0 ∧
    readUser (pad ++ bytes) pad.length = readUser bytes 0 := by
  have h : readAny (pad ++ bytes) pad.length = readAny bytes 0 := by
    unfold readAny
    simp only [List.drop_left, List.drop_zero]
  refine ⟨h, ?_, ?_⟩
  · unfold readSystem; rw [h]
  · unfold readUser; rw [h]

/-! non-vacuity of the hypotheses -/

example : (127 : Nat) ≤ 32767 ∧ stringLength (encLen 127 ++ [9]) = some (127, [9]) ∧ encLen 126 = [126] ∧ encLen 127 = [128, 127] ∧ encLen 128 = [128, 128] := by decide
example : IsScalar 0x20BB7 ∧ encodeUtf16 0x20BB7 = [0xD842, 0xDFB7] ∧ decodeUtf16 [0xD842, 0xDFB7] = some [0x20BB7] := by
  refine ⟨Or.inr (by decide), by decide, by decide⟩
example : LinesOk 2 3 [(1, 2, -5), (0, 0, 7), (1, 2, 9)] ∧ declared [(1, 2, -5), (0, 0, 7), (1, 2, 9)] 1 2 0 = 9 := by
  refine ⟨?_, by decide⟩
  intro x hx; simp at hx; rcases hx with rfl | rfl | rfl <;> decide
set_option maxRecDepth 100000 in
example : (lexAt [7, 7, 7] [emptyReadingEntry]).parseWordInfo 0 = .ok
    { surface := [12354], headWordLength := 3, dicFormWordId := -1 } ∧
    ([7, 7, 7] ++ lexiconBytes [emptyReadingEntry] ([emptyReadingEntry].map encWordInfo) 3).length < 4294967296 := by decide
example : emptyReadingEntry.WF :=
  { hw := ⟨fun c hc => by simp [emptyReadingEntry, Entry.headwordS] at hc; subst hc; exact Or.inl (by decide), by decide⟩,
    nf := ⟨fun c hc => by simp [emptyReadingEntry, Entry.normS, Entry.headwordS] at hc; subst hc; exact Or.inl (by decide), by decide⟩,
    rd := ⟨fun c hc => by simp [emptyReadingEntry, Entry.readingS] at hc, by decide⟩,
    key := by decide, pos := by decide, df := by decide,
    a := ⟨by decide, fun x hx => by simp [emptyReadingEntry] at hx⟩, b := ⟨by decide, fun x hx => by simp [emptyReadingEntry] at hx⟩,
    ws := ⟨by decide, fun x hx => by simp [emptyReadingEntry] at hx⟩, syn := ⟨by decide, fun x hx => by simp [emptyReadingEntry] at hx⟩ }

end C05
