import Sudachi.Proofs.Params
import Sudachi.Proofs.ParamsCfg
import Sudachi.Proofs.ParamsPos
import Sudachi.Proofs.ParamsGrammar
/-!
# C20 — Out-of-range plugin parameters are rejected when the dictionary is loaded

Model: `Model/Params.lean` (check_params.rs, user_pos.rs, grammar.rs, connect.rs, the three OOV
providers' `set_up`, inhibit_connection.rs, `from_cfg_storage`, the matrix reads of lattice.rs).
The code variants are selected by `Params.Variant`; `Params.cur` is the unchanged tree,
`jsonGe` / `unkGe` / `inhChecked` are the repairs of D15a / D15b / D16.  The matrix dimensions are
at most 32767 in every dictionary (the header stores them as `i16`); the theorems only need
`≤ 65535`.
-/
namespace C20
open Params Params.Outcome

/-! ## clause 1: every accepted connection id indexes the matrix -/

/-- Full statement (`accepted_in_range`), true for the repaired comparison `>=`: a JSON `leftId` /
`rightId` is accepted only if it indexes the dimension it is checked against, and the stored `u16`
is the given value. -/
theorem accepted_in_range (v : Variant) (hv : v.jsonGe = true) (m : Matrix)
    (hnl : m.nl ≤ 65535) (hnr : m.nr ≤ 65535) (x : Int) (w : Nat) :
    (checkLeftId v m x = ok w → (w : Int) = x ∧ 0 ≤ x ∧ x < m.nl) ∧
    (checkRightId v m x = ok w → (w : Int) = x ∧ 0 ≤ x ∧ x < m.nr) := by
  constructor
  · intro h
    have a := checkId_IdOk h hnl
    have b := checkId_ok h
    simp only [hv, IdOk, if_true] at a b
    omega
  · intro h
    have a := checkId_IdOk h hnr
    have b := checkId_ok h
    simp only [hv, IdOk, if_true] at a b
    omega

/-- What holds for the code as it stands (any variant): the accepted value is stored unchanged and
is at most the dimension — `x = n` is not excluded (D15a). -/
theorem accepted_in_range_partial (v : Variant) (m : Matrix)
    (hnl : m.nl ≤ 65535) (hnr : m.nr ≤ 65535) (x : Int) (w : Nat) :
    (checkLeftId v m x = ok w → (w : Int) = x ∧ 0 ≤ x ∧ x ≤ m.nl) ∧
    (checkRightId v m x = ok w → (w : Int) = x ∧ 0 ≤ x ∧ x ≤ m.nr) := by
  constructor
  · intro h
    have a := checkId_IdOk h hnl
    have b := checkId_ok h
    unfold IdOk at a
    cases hj : v.jsonGe <;> simp only [hj, if_true, Bool.false_eq_true, if_false] at a b <;> omega
  · intro h
    have a := checkId_IdOk h hnr
    have b := checkId_ok h
    unfold IdOk at a
    cases hj : v.jsonGe <;> simp only [hj, if_true, Bool.false_eq_true, if_false] at a b <;> omega

/-- D15a: on the unchanged comparison (`>`), for EVERY square matrix the first invalid value — the
dimension itself — is accepted as left id and as right id, although it indexes no row or column. -/
theorem accepted_in_range_counterexample (v : Variant) (hv : v.jsonGe = false) (n : Nat) (hn : n ≤ 65535)
    (cells : List Int) :
    checkLeftId v ⟨n, n, cells⟩ n = ok n ∧ checkRightId v ⟨n, n, cells⟩ n = ok n ∧ ¬ (n < n) := by
  have e : asU16 (n : Int) = n := by rw [asU16_toNat (by omega) (by omega)]; simp
  have h := checkId_of (ge := false) (n := n) (x := (n : Int)) (by omega) (by simp)
  rw [e] at h
  simp [checkLeftId, checkRightId, hv, h]

/-- `unk.def` ids, full statement, true after the `>=` repair of D15b: every record the MeCab
provider stores has `0 ≤ left < num_left`, `0 ≤ right < num_right` (and an `i16` cost). -/
theorem unk_accepted_in_range (v : Variant) (hv : v.unkGe = true) (cats : List (Nat × Oov.CatInfo))
    (conn : Matrix) (hnl : conn.nl ≤ 65535) (hnr : conn.nr ≤ 65535) (mode : Mode)
    (lines : List (List Char)) (pl pl' : List Pos) (acc : List (Nat × List RawOov))
    (h : readOov v cats conn mode lines pl [] = ok (pl', acc)) :
    ∀ kv ∈ acc, ∀ d ∈ kv.2, 0 ≤ d.l ∧ d.l < conn.nl ∧ 0 ≤ d.r ∧ d.r < conn.nr ∧ -32768 ≤ d.c ∧ d.c ≤ 32767 := by
  intro kv hkv d hd
  have := readOov_ok (by omega) (by omega) lines h (by intro kv hkv; cases hkv) kv hkv d hd
  simp only [RawOk, IdOk, hv, if_true] at this
  omega

/-- `unk.def` ids on any variant: `≤` instead of `<` (D15b on the unchanged tree). -/
theorem unk_accepted_in_range_partial (v : Variant) (cats : List (Nat × Oov.CatInfo))
    (conn : Matrix) (hnl : conn.nl ≤ 65535) (hnr : conn.nr ≤ 65535) (mode : Mode)
    (lines : List (List Char)) (pl pl' : List Pos) (acc : List (Nat × List RawOov))
    (h : readOov v cats conn mode lines pl [] = ok (pl', acc)) :
    ∀ kv ∈ acc, ∀ d ∈ kv.2, 0 ≤ d.l ∧ d.l ≤ conn.nl ∧ 0 ≤ d.r ∧ d.r ≤ conn.nr ∧ -32768 ≤ d.c ∧ d.c ≤ 32767 := by
  intro kv hkv d hd
  have := readOov_ok (by omega) (by omega) lines h (by intro kv hkv; cases hkv) kv hkv d hd
  simp only [RawOk, IdOk] at this
  cases hj : v.unkGe <;> simp only [hj, if_true, Bool.false_eq_true, if_false] at this <;> omega

/-- D15b: the range test of the unchanged reader lets the dimension itself through, for every
dimension. -/
theorem unk_accepted_in_range_counterexample (n : Nat) (hn : n < 9223372036854775808) :
    unkIdBad false n (n : Int) = false ∧ unkIdBad true n (n : Int) = true := by
  have e : asUsize (n : Int) = n := by rw [asUsize_nonneg (by omega) (by omega)]; simp
  simp [unkIdBad, e]

/-! ## clause 2: every cost fits the dictionary's cost type -/

/-- `cost_fits`: a JSON cost is accepted only inside `i16`, and is stored unchanged. -/
theorem cost_fits (x c : Int) (h : checkCost x = ok c) : c = x ∧ -32768 ≤ x ∧ x ≤ 32767 :=
  checkCost_ok h

/-- and conversely every `i16` value is accepted (the check rejects nothing it should not) -/
theorem cost_fits_complete (x : Int) (h1 : -32768 ≤ x) (h2 : x ≤ 32767) : checkCost x = ok x := by
  have a : ¬ x < -32768 := by omega
  have b : ¬ x > 32767 := by omega
  simp [checkCost, a, b, asI16_of_fits h1 h2]

/-! ## clause 3: every POS exists or user-defined POS are allowed -/

/-- `pos_handled`, existing POS: the id of the first equal entry is returned and the list is unchanged. -/
theorem pos_handled_exists (pl : List Pos) (p : Pos) (mode : Mode) (id : Nat)
    (hsz : pl.length ≤ 65536) (hwf : ∀ q ∈ pl, q.length = 6) (h : getPosId pl p = some id) :
    handleUserPos pl p mode = ok (pl, id) ∧ ∃ (hlt : id < pl.length), pl[id] = p := by
  obtain ⟨hlen, hlt, hm, _⟩ := getPosId_some h hsz
  refine ⟨by simp [handleUserPos, h], hlt, ?_⟩
  have := (posMatch_iff_eq p pl[id] (by rw [hlen, hwf _ (List.getElem_mem hlt)])).mp hm
  exact this.symm

/-- `pos_handled`, absent POS with `userPOS: allow`: appended at the end, its id is the old length. -/
theorem pos_handled_allow (pl : List Pos) (p : Pos) (hlen : p.length = 6) (hsz : pl.length ≤ 65535)
    (h : getPosId pl p = none) :
    handleUserPos pl p .allow = ok (pl ++ [p], pl.length) := by
  have a : ¬ pl.length > 65535 := by omega
  have b : pl.length % 65536 = pl.length := by omega
  simp [handleUserPos, registerPos, h, hlen, a, b]

/-- `pos_handled`, absent POS with `userPOS: forbid` (or no `userPOS`): an error value. -/
theorem pos_handled_forbid (pl : List Pos) (p : Pos) (h : getPosId pl p = none) :
    handleUserPos pl p .forbid = err .pos := by
  simp [handleUserPos, h]

/-- "absent" means what it says: no entry of the list equals the POS (for 6-component lists) -/
theorem pos_absent_iff (pl : List Pos) (p : Pos) (hlen : p.length = 6) (hwf : ∀ q ∈ pl, q.length = 6)
    (hsz : pl.length ≤ 65536) : getPosId pl p = none ↔ p ∉ pl := by
  constructor
  · intro h hmem
    have := getPosId_none h hlen p hmem
    rw [(posMatch_iff_eq p p rfl).mpr rfl] at this
    cases this
  · intro h
    cases hg : getPosId pl p with
    | none => rfl
    | some id =>
      obtain ⟨_, hlt, hm, _⟩ := getPosId_some hg hsz
      have := (posMatch_iff_eq p pl[id] (by rw [hlen, hwf _ (List.getElem_mem hlt)])).mp hm
      exact absurd (this ▸ List.getElem_mem hlt) h

/-! ## clause 4: inhibited pairs -/

/-- `inhibit_checked`, full statement, true for the repaired `set_up` (D16): a load that succeeds
has every pair inside the matrix, and the matrix afterwards differs from the dictionary's exactly in
the cells `(l, r)` of the pairs, which hold `i16::MAX`; dimensions are unchanged. -/
theorem inhibit_checked (v : Variant) (hv : v.inhChecked = true) (cdef : List (List Char)) (g : Grammar)
    (cfg : Cfg) (ld : Loaded) (hnl : g.conn.nl ≤ 65535) (hnr : g.conn.nr ≤ 65535) (hwf : g.conn.WF)
    (h : load v cdef g cfg = ok ld) :
    (∀ ps ∈ cfg.inh, ∀ p ∈ ps, 0 ≤ p.1 ∧ p.1 < g.conn.nl ∧ 0 ≤ p.2 ∧ p.2 < g.conn.nr) ∧
    ld.g.conn.nl = g.conn.nl ∧ ld.g.conn.nr = g.conn.nr ∧
    ∀ l r, l < g.conn.nl → r < g.conn.nr →
      ld.g.conn.cell l r = if ((l : Int), (r : Int)) ∈ cfg.inh.flatten then some INHIBITED else g.conn.cell l r := by
  have f := load_facts hnl hnr h
  obtain ⟨hp, hc⟩ := f.checked hv hwf
  refine ⟨hp, f.nl_eq, f.nr_eq, ?_⟩
  intro l r hl hr
  unfold Matrix.cell
  rw [hc, f.nl_eq]
  apply inhSpec_cell (nr := g.conn.nr) _ _ hwf _ hl hr
  intro p hpm
  obtain ⟨ps, hps, hpp⟩ := List.mem_flatten.mp hpm
  exact hp ps hps p hpp

/-- D16 on the unchanged tree: `set_up` accepts every pair of `i16`s … -/
theorem inhibit_checked_counterexample_accepts (v : Variant) (hv : v.inhChecked = false) (g : Grammar)
    (pairs : List (Int × Int)) (hfit : ∀ p ∈ pairs, fitsI16 p.1 = true ∧ fitsI16 p.2 = true) :
    inhSetUp v g pairs = ok pairs := by
  have : pairs.all (fun p => fitsI16 p.1 && fitsI16 p.2) = true := by
    rw [List.all_eq_true]; intro p hp; simp [hfit p hp]
  simp [inhSetUp, this, hv]

/-- … and for every `n × n` matrix the pair `[n, 0]` then panics while the dictionary is loaded in a
debug build, and in a release build silently overwrites cell `(0, 1)` instead (`n ≥ 2`). -/
theorem inhibit_checked_counterexample (n : Nat) (hn : 2 ≤ n) (hn2 : n ≤ 65535) (cells : List Int)
    (hlen : cells.length = n * n) :
    inhEdit true ⟨n, n, cells⟩ [((n : Int), 0)] = crash ∧
    inhEdit false ⟨n, n, cells⟩ [((n : Int), 0)] = ok ⟨n, n, cells.set (1 * n + 0) INHIBITED⟩ := by
  have e : asU16 (n : Int) = n := by rw [asU16_toNat (by omega) (by omega)]; simp
  have e0 : asU16 0 = 0 := by decide
  have hlt : n < cells.length := by
    have : n * 2 ≤ n * n := Nat.mul_le_mul_left n hn
    omega
  constructor
  · simp [inhEdit, setConnectCost, Matrix.update, Matrix.index, e]
  · simp [inhEdit, setConnectCost, Matrix.update, Matrix.index, e, e0, hlt]

/-! ## "otherwise loading returns an error value - it neither panics nor silently edits" -/

/-- Full statement, true with the repaired `set_up` of the inhibit plugin (D16): for every
configuration and every dictionary the load returns a dictionary or an error value — never a panic,
never undefined behaviour. -/
theorem load_never_panics (v : Variant) (hv : v.inhChecked = true) (cdef : List (List Char)) (g : Grammar)
    (cfg : Cfg) (hnl : g.conn.nl ≤ 65535) (hnr : g.conn.nr ≤ 65535) (hwf : g.conn.WF) :
    (∃ ld, load v cdef g cfg = ok ld) ∨ (∃ k, load v cdef g cfg = err k) := by
  have := load_safe hv cdef g cfg hnl hnr hwf
  cases hl : load v cdef g cfg with
  | ok ld => exact Or.inl ⟨ld, rfl⟩
  | err k => exact Or.inr ⟨k, rfl⟩
  | crash => rw [hl] at this; cases this
  | ub => rw [hl] at this; cases this

/-- D16 at the level of the whole load, unchanged tree, debug build: a 2 × 2 dictionary, a valid
Simple provider and `inhibitPair: [[2, 0]]` — `from_cfg_storage` panics. -/
theorem load_never_panics_counterexample :
    load (cur true) [] ⟨[[['a'], ['b'], ['c'], ['d'], ['e'], ['f']]], ⟨2, 2, [1, 2, 3, 4]⟩⟩
      ⟨[[(2, 0)]], [.simple [['a'], ['b'], ['c'], ['d'], ['e'], ['f']] 1 1 0 .forbid], []⟩ = crash := by
  rfl

/-- All requirements on connection ids and costs at once, for a whole configuration (square
matrix, all three repairs): a successful load implies that every id a provider can attach to a node
indexes the matrix, every such cost fits `i16`, and every inhibited pair lies inside the matrix. -/
theorem load_succeeds_only_if (v : Variant) (hv1 : v.jsonGe = true) (hv2 : v.unkGe = true)
    (hv3 : v.inhChecked = true) (cdef : List (List Char)) (g : Grammar) (cfg : Cfg) (ld : Loaded) (n : Nat)
    (hnl : g.conn.nl = n) (hnr : g.conn.nr = n) (hn2 : n ≤ 65535) (hwf : g.conn.WF)
    (h : load v cdef g cfg = ok ld) :
    ld.provs ≠ [] ∧
    (∀ p ∈ ld.provs, ∀ e ∈ provNodes p, e.l < n ∧ e.r < n ∧ -32768 ≤ e.c ∧ e.c ≤ 32767) ∧
    (∀ ps ∈ cfg.inh, ∀ p ∈ ps, 0 ≤ p.1 ∧ p.1 < n ∧ 0 ≤ p.2 ∧ p.2 < n) := by
  have f := load_facts (by omega) (by omega) h
  refine ⟨f.provs_ne, ?_, ?_⟩
  · intro p hp e he
    have := provNodes_ok (m := g.conn) (by omega) (by omega) (f.provs_ok p hp) e he
    cases p <;> simp only [hv1, hv2, IdOk, if_true] at this <;> omega
  · intro ps hps p hp
    have := (f.checked hv3 hwf).1 ps hps p hp
    unfold PairOk at this
    omega

/-! ## consequence: analysis never indexes outside the matrix -/

/-- `no_oob_in_analysis`, full statement for square matrices, true with the repairs of D15a and
D15b: after a successful load, building the lattice over ANY candidates whose connection ids come
from validated lexicon entries (`< n`, C06) or from the loaded providers never trips a bounds
assertion and never reads outside the matrix (`ok`, not `crash`/`ub`), in debug and release builds. -/
theorem no_oob_in_analysis (v : Variant) (hv1 : v.jsonGe = true) (hv2 : v.unkGe = true)
    (cdef : List (List Char)) (g : Grammar) (cfg : Cfg) (ld : Loaded) (n : Nat)
    (hnl : g.conn.nl = n) (hnr : g.conn.nr = n) (hn : 0 < n) (hn2 : n ≤ 65535) (hwf : g.conn.WF)
    (h : load v cdef g cfg = ok ld) (len : Nat) (nodes : List LNode)
    (hnodes : ∀ nd ∈ nodes, nd.b ≤ len ∧ nd.e ≤ len ∧
      ((nd.left < n ∧ nd.right < n) ∨ ∃ p ∈ ld.provs, ∃ e ∈ provNodes p, nd.left = e.l ∧ nd.right = e.r))
    (dbg : Bool) :
    ∃ c, buildLattice dbg ld.g.conn len nodes (bosEnds len) = ok c := by
  have f := load_facts (by omega) (by omega) h
  have hwf' : ld.g.conn.WF := by unfold Matrix.WF at hwf ⊢; rw [f.len_eq, f.nl_eq, f.nr_eq, hwf]
  have hb := bosEnds_ok (m := ld.g.conn) (by rw [f.nl_eq]; omega) len
  apply buildLattice_ok dbg hwf' (by rw [f.nr_eq]; omega) len nodes _ hb.1 hb.2
  intro nd hnd
  obtain ⟨h1, h2, h3⟩ := hnodes nd hnd
  have key : nd.left < n ∧ nd.right < n := by
    rcases h3 with h3 | ⟨p, hp, e, he, hl, hr⟩
    · exact h3
    · have := provNodes_ok (m := g.conn) (by omega) (by omega) (f.provs_ok p hp) e he
      cases p <;> simp only [hv1, hv2, IdOk, if_true] at this <;> omega
  refine ⟨?_, ?_, h1, h2⟩
  · rw [f.nr_eq]; omega
  · rw [f.nl_eq]; omega

/-- The same for the code as it stands, with the extra hypothesis the property text makes
("plugin ids strictly below the dimension"): no provider id equals the dimension. -/
theorem no_oob_in_analysis_partial (v : Variant)
    (cdef : List (List Char)) (g : Grammar) (cfg : Cfg) (ld : Loaded) (n : Nat)
    (hnl : g.conn.nl = n) (hnr : g.conn.nr = n) (hn : 0 < n) (hn2 : n ≤ 65535) (hwf : g.conn.WF)
    (h : load v cdef g cfg = ok ld)
    (hne : ∀ p ∈ ld.provs, ∀ e ∈ provNodes p, e.l ≠ n ∧ e.r ≠ n)
    (len : Nat) (nodes : List LNode)
    (hnodes : ∀ nd ∈ nodes, nd.b ≤ len ∧ nd.e ≤ len ∧
      ((nd.left < n ∧ nd.right < n) ∨ ∃ p ∈ ld.provs, ∃ e ∈ provNodes p, nd.left = e.l ∧ nd.right = e.r))
    (dbg : Bool) :
    ∃ c, buildLattice dbg ld.g.conn len nodes (bosEnds len) = ok c := by
  have f := load_facts (by omega) (by omega) h
  have hwf' : ld.g.conn.WF := by unfold Matrix.WF at hwf ⊢; rw [f.len_eq, f.nl_eq, f.nr_eq, hwf]
  have hb := bosEnds_ok (m := ld.g.conn) (by rw [f.nl_eq]; omega) len
  apply buildLattice_ok dbg hwf' (by rw [f.nr_eq]; omega) len nodes _ hb.1 hb.2
  intro nd hnd
  obtain ⟨h1, h2, h3⟩ := hnodes nd hnd
  have key : nd.left < n ∧ nd.right < n := by
    rcases h3 with h3 | ⟨p, hp, e, he, hl, hr⟩
    · exact h3
    · have := provNodes_ok (m := g.conn) (by omega) (by omega) (f.provs_ok p hp) e he
      have hx := hne p hp e he
      cases p <;> simp only [IdOk] at this <;>
        (obtain ⟨t1, t2, _⟩ := this; split at t1 <;> split at t2 <;> omega)
  refine ⟨?_, ?_, h1, h2⟩
  · rw [f.nr_eq]; omega
  · rw [f.nl_eq]; omega

/-- D15a consequence: on the unchanged tree a Simple provider with `leftId = 3` on a 3 × 3 matrix is
accepted, and the first node it contributes makes the lattice trip the bounds assertion (debug) /
read outside the matrix (release). -/
theorem no_oob_in_analysis_counterexample :
    checkLeftId (cur true) ⟨3, 3, List.replicate 9 0⟩ 3 = ok 3 ∧
    buildLattice true ⟨3, 3, List.replicate 9 0⟩ 1 [⟨0, 1, 3, 0⟩] (bosEnds 1) = crash ∧
    buildLattice false ⟨3, 3, List.replicate 9 0⟩ 1 [⟨0, 1, 3, 0⟩] (bosEnds 1) = ub := by
  refine ⟨by decide, by decide, by decide⟩

/-- D17: on a non-square matrix even the repaired checks validate a left id against the wrong
dimension: `leftId = 3` passes on a 4 × 2 matrix (`3 < num_left = 4`) but a node's left id is the
`right` argument of `ConnectionMatrix::cost`, bounded by `num_right = 2`. -/
theorem nonsquare_counterexample :
    checkLeftId (repaired true) ⟨4, 2, List.replicate 8 0⟩ 3 = ok 3 ∧
    buildLattice true ⟨4, 2, List.replicate 8 0⟩ 1 [⟨0, 1, 3, 0⟩] (bosEnds 1) = crash := by
  refine ⟨by decide, by decide⟩


/-! # Depth round: signedness, non-square matrices, every other parameter, user dictionaries -/

/-! ## signedness (ids are `i64` in JSON, `i16` in unk.def / inhibit pairs / lexicon, `u16`/`usize` at the matrix) -/

/-- A negative id is rejected by every check, for every variant and every matrix: the JSON check tests
`x < 0` first, the unk.def test casts the `i16` through `as usize` (a negative value becomes ≥ 2^64 − 32768,
far above any dimension), the inhibit test has an explicit `< 0`. -/
theorem negative_ids_rejected (ge : Bool) (n : Nat) (hn : n < 9223372036854775808) (x : Int) (hx : x < 0) :
    checkId ge n x = err .dataFormat ∧
    (-32768 ≤ x → unkIdBad ge n x = true) ∧
    (∀ (m : Matrix) (y : Int), pairInRange m (x, y) = false ∧ pairInRange m (y, x) = false) := by
  refine ⟨by simp [checkId, hx], ?_, ?_⟩
  · intro h
    have := asUsize_neg hx h
    cases ge <;> simp [unkIdBad] <;> omega
  · intro m y
    simp [pairInRange, hx]

/-- The signed comparison of seeded change C20b (`oov.left_id >= num_left as i16`) accepts EVERY negative
id for every dimension up to `i16::MAX`, and the node then carries `x as u16 ≥ 32768`; the comparison in
the tree rejects it. -/
theorem unk_signed_compare_counterexample (n : Nat) (hn : n ≤ 32767) (x : Int) (hx : x < 0) (hx' : -32768 ≤ x) :
    unkIdBadSigned n x = false ∧ 32768 ≤ asU16 x ∧ unkIdBad true n x = true := by
  have e : asI16 (n : Int) = n := asI16_of_fits (by omega) (by omega)
  refine ⟨?_, ?_, ?_⟩
  · simp [unkIdBadSigned, e]; omega
  · unfold asU16; omega
  · exact (negative_ids_rejected true n (by omega) x hx).2.1 hx'

/-- Per provider, any matrix shape, repaired comparisons: every id a loaded provider attaches to a
node is `<` the dimension it was CHECKED against (left id: `num_left`, right id: `num_right`), and the
cost fits `i16`. -/
theorem provider_ids_in_range (v : Variant) (hv1 : v.jsonGe = true) (hv2 : v.unkGe = true)
    (cdef : List (List Char)) (g : Grammar) (cfg : Cfg) (ld : Loaded)
    (hnl : g.conn.nl ≤ 65535) (hnr : g.conn.nr ≤ 65535) (h : load v cdef g cfg = ok ld) :
    ∀ p ∈ ld.provs, ∀ e ∈ provNodes p, e.l < g.conn.nl ∧ e.r < g.conn.nr ∧ -32768 ≤ e.c ∧ e.c ≤ 32767 := by
  have f := load_facts hnl hnr h
  intro p hp e he
  have := provNodes_ok (m := g.conn) hnl hnr (f.provs_ok p hp) e he
  cases p <;> simp only [hv1, hv2, IdOk, if_true] at this <;> exact this

/-! ## non-square matrices (D17): which dimension bounds which id -/

/-- `ConnectionMatrix::cost(left, right)`: in a debug build the call returns iff `left < num_left` and
`right < num_right`; in a release build the read is inside the buffer iff `right * num_left + left <
num_left * num_right` (so a wrong `left` can silently alias another cell). -/
theorem matrix_cost_bounds (m : Matrix) (hwf : m.WF) (a b : Nat) :
    ((∃ c, m.cost true a b = ok c) ↔ a < m.nl ∧ b < m.nr) ∧
    (m.cost false a b = ub ↔ ¬ (b * m.nl + a < m.nl * m.nr)) := by
  unfold Matrix.WF at hwf
  constructor
  · constructor
    · intro ⟨c, h⟩
      unfold Matrix.cost Matrix.index at h
      by_cases h1 : a < m.nl <;> by_cases h2 : b < m.nr <;> simp [h1, h2] at h ⊢
    · intro ⟨h1, h2⟩
      exact Matrix.cost_ok true hwf h1 h2
  · unfold Matrix.cost Matrix.index
    simp only [Bool.false_and, Bool.false_eq_true, if_false]
    by_cases h : b * m.nl + a < m.cells.length
    · rw [List.getElem?_eq_getElem h]; simp; omega
    · rw [List.getElem?_eq_none (by omega)]; simp; omega

/-- The lattice calls `cost(l_node.right_id, r_node.left_id)`: a node's LEFT id is bounded by
`num_right` and its RIGHT id by `num_left`.  For ANY matrix shape, candidates that satisfy these
bounds never trip an assertion and never read outside the matrix. -/
theorem no_oob_in_analysis_nonsquare (m : Matrix) (hwf : m.WF) (hnl : 0 < m.nl) (hnr : 0 < m.nr)
    (len : Nat) (nodes : List LNode)
    (hnodes : ∀ nd ∈ nodes, nd.b ≤ len ∧ nd.e ≤ len ∧ nd.left < m.nr ∧ nd.right < m.nl) (dbg : Bool) :
    ∃ c, buildLattice dbg m len nodes (bosEnds len) = ok c := by
  have hb := bosEnds_ok (m := m) hnl len
  apply buildLattice_ok dbg hwf hnr len nodes _ hb.1 hb.2
  intro nd hnd
  obtain ⟨h1, h2, h3, h4⟩ := hnodes nd hnd
  exact ⟨h3, h4, h1, h2⟩

/-- D17 for every shape with fewer columns than rows: `leftId = num_right` passes even the repaired
check (it is compared with `num_left`), and the first node that carries it trips the assertion. -/
theorem nonsquare_counterexample_general (nl nr : Nat) (h : nr < nl) (hnl : nl ≤ 65535) (hnr : 0 < nr) (cells : List Int)
    (hlen : cells.length = nl * nr) :
    checkLeftId (repaired true) ⟨nl, nr, cells⟩ nr = ok nr ∧
    buildLattice true ⟨nl, nr, cells⟩ 1 [⟨0, 1, nr, 0⟩] (bosEnds 1) = crash := by
  have e : asU16 (nr : Int) = nr := by rw [asU16_toNat (by omega) (by omega)]; simp
  constructor
  · have hc := checkId_of (ge := true) (n := nl) (x := (nr : Int)) (by omega) (by simp; omega)
    rw [e] at hc
    simpa [checkLeftId, repaired] using hc
  · have hnl0 : 0 < nl := by omega
    simp [buildLattice, bosEnds, connectNode, Matrix.cost, Matrix.index, hnl0]

/-- The repair that was examined: compare `leftId` with `num_right` and `rightId` with `num_left`
(the dimensions the ids are USED on).  In the model it makes the consequence clause true for every
shape — but the same swap would be needed in `read_oov`, in the builder's `validate_entries` and in
the matrix header semantics, so it is not a small safe change and D17 stays a finding. -/
theorem swapped_checks_sound (m : Matrix) (hnl : m.nl ≤ 65535) (hnr : m.nr ≤ 65535) (l r : Int) (l' r' : Nat)
    (hl : checkId true m.nr l = ok l') (hr : checkId true m.nl r = ok r') (b e len : Nat) (hb : b ≤ len) (he : e ≤ len) :
    NodeOk m len ⟨b, e, l', r'⟩ := by
  have a := (checkId_IdOk hl hnr).1
  have c := (checkId_IdOk hr hnl).1
  simp only [IdOk, if_true] at a c
  exact ⟨a, c, hb, he⟩

/-! ## the settings as `serde_json` delivers them: ill-typed or out-of-range values are load errors -/

/-- Every successful load of a raw configuration went through a successful load of the TYPED
configuration obtained by deserialising every provider's settings (so all theorems above apply to
it), every input-text plugin was accepted, and — in particular — no provider had an ill-typed
field: `leftId`/`rightId`/`cost` are JSON integers inside `i64`, `oovPOS` a list of strings,
`userPOS` ∈ {allow, forbid} or absent, `maxLength` an integer in `0 … 2^64−1` or absent,
`boundaries` ∈ {strict, relaxed} or absent; and every `inhibitPair` is an array of two-element arrays of
integers in `i16` (`deInhAll`; shape: `inhibit_pairs_well_typed`). -/
theorem raw_load_is_typed_load (v : Variant) (v2 : Variant2) (cdef : List (List Char)) (np : Pos)
    (g : Grammar) (cfg : RCfg) (ld : LoadedR) (h : loadR v v2 cdef np g cfg = ok ld) :
    (∀ r ∈ cfg.oov, ∃ c, deserOov r = some c) ∧
    ∃ ti cx, deInhAll cfg.inh = some ti ∧ deserAll cfg.oov = some cx ∧
      load v cdef g ⟨ti, cx.map (·.1), cfg.users.map (·.pos)⟩ = ok ⟨ld.g, ld.provs.map (·.1)⟩ := by
  obtain ⟨ti, cx, h0, h1, _, h3, _⟩ := loadR_typed h
  exact ⟨deserAll_mem h1, ti, cx, h0, h1, h3⟩

/-- Ill-typed values of the numeric parameters are rejected: a provider whose `leftId` (or any other
integer field) is a float, a string, `null`, a boolean, an array, missing, or an integer outside `i64`
never loads. -/
theorem ill_typed_rejected (pos l r c mode : JF) (hl : ∀ x : Int, l = .int x → ¬ (I64MIN ≤ x ∧ x ≤ I64MAX)) :
    deserOov (.simple pos l r c mode) = none ∧ deserOov (.simple pos r l c mode) = none ∧
    deserOov (.simple pos r c l mode) = none ∧
    ∀ ml b rx d ok, deserOov (.regex pos l r c mode ml b rx d ok) = none := by
  have e : deI64 l = none := by
    cases l <;> simp [deI64]
    rename_i x
    exact fun h1 => Int.not_le.mp (fun h2 => hl x rfl ⟨h1, h2⟩)
  refine ⟨?_, ?_, ?_, ?_⟩
  · simp only [deserOov, e]; split <;> simp_all
  · simp only [deserOov, e]; split <;> simp_all
  · simp only [deserOov, e]; split <;> simp_all
  · intro ml b rx d ok; simp only [deserOov, e]; split <;> (try rfl) <;> split <;> simp_all

/-- With the repaired inhibit `set_up` the raw load — all four plugin kinds and the user
dictionaries — returns a dictionary or an error value for EVERY configuration, whatever the shapes
of its values: never a panic, never undefined behaviour. -/
theorem raw_load_never_panics (v : Variant) (hv : v.inhChecked = true) (v2 : Variant2)
    (cdef : List (List Char)) (np : Pos) (g : Grammar) (cfg : RCfg)
    (hnl : g.conn.nl ≤ 65535) (hnr : g.conn.nr ≤ 65535) (hwf : g.conn.WF) :
    (∃ ld, loadR v v2 cdef np g cfg = ok ld) ∨ (∃ k, loadR v v2 cdef np g cfg = err k) := by
  have := loadR_safe hv v2 cdef np g cfg hnl hnr hwf
  cases hl : loadR v v2 cdef np g cfg with
  | ok ld => exact Or.inl ⟨ld, rfl⟩
  | err k => exact Or.inr ⟨k, rfl⟩
  | crash => rw [hl] at this; cases this
  | ub => rw [hl] at this; cases this

/-- `inhibitPair` as `serde_json` delivers it: if a raw configuration loads, every connection-cost plugin's
`inhibitPair` is present, is an array, and every member of it is an array of EXACTLY two integers inside `i16` — a
missing key, `null`, a number, a member with one or three elements, a float, a string or an integer outside `i16`
is `SerdeError` (before any range check, and before the plugins that follow are looked at). -/
theorem inhibit_pairs_well_typed (v : Variant) (v2 : Variant2) (cdef : List (List Char)) (np : Pos)
    (g : Grammar) (cfg : RCfg) (ld : LoadedR) (h : loadR v v2 cdef np g cfg = ok ld) :
    ∀ r ∈ cfg.inh, ∃ ms, r = .pairs ms ∧
      ∀ m ∈ ms, ∃ x y : Int, m = [.int x, .int y] ∧ -32768 ≤ x ∧ x ≤ 32767 ∧ -32768 ≤ y ∧ y ≤ 32767 := by
  obtain ⟨ti, _, h0, _⟩ := loadR_typed h
  intro r hr
  have := deInhAll_mem h0 r hr
  obtain ⟨ps, hps⟩ := this
  cases r with
  | absent => cases hps
  | other => cases hps
  | pairs ms => exact ⟨ms, rfl, dePairs_shape hps⟩

/-- The `regex` and `debug` settings of RegexOovProvider: if a raw configuration loads, every regex provider's
`regex` is a string whose pattern the regex crate compiled (`rxOk`, the crate's verdict, is a parameter of the
model that the harness obtains from the crate), and `debug` is a boolean or absent.  An invalid pattern is
`ConfigError` — reported LAST in `set_up`, after the ids, the cost and the POS were accepted (and a new POS was
registered in the grammar that the failed load then drops). -/
theorem regex_setting_checked (v : Variant) (v2 : Variant2) (cdef : List (List Char)) (np : Pos)
    (g : Grammar) (cfg : RCfg) (ld : LoadedR) (h : loadR v v2 cdef np g cfg = ok ld) :
    (∀ px ∈ ld.provs, px.2.rxOk = true) ∧
    (∀ pos l r c mode ml b rx d ok, ROov.regex pos l r c mode ml b rx d ok ∈ cfg.oov →
      (∃ s, rx = .str s) ∧ (d = .absent ∨ d = .bool)) := by
  obtain ⟨_, cx, _, hcx, _, _, _, _, _, _, hrx⟩ := loadR_typed h
  refine ⟨hrx, fun pos l r c mode ml b rx d ok hm => ?_⟩
  obtain ⟨c', hc'⟩ := deserAll_mem hcx _ hm
  simp only [deserOov] at hc'
  split at hc'
  · rename_i hg
    simp only [Bool.and_eq_true] at hg
    constructor
    · cases rx <;> simp [deStr] at hg
      exact ⟨_, rfl⟩
    · cases d <;> simp [deBoolD] at hg <;> simp
  · cases hc'

/-! ## `maxLength` of the regex provider: accepted, then added to an offset -/

/-- Full statement, true for the repair `offset.saturating_add(self.max_length)`: for EVERY accepted
`maxLength` (any `usize`), every text and every offset inside it, `provide_oov` computes a slice
`offset..e` with `offset ≤ e ≤ len` — no overflow, no inverted slice, debug and release. -/
theorem regex_max_length_no_panic (dbg : Bool) (ml : JF) (n : Nat) (h : deUsizeD 32 ml = some n)
    (offset len : Nat) (ho : offset ≤ len) (hl : len < TWO64) :
    ∃ e, regexEnd true dbg n offset len = ok e ∧ offset ≤ e ∧ e ≤ len := by
  have _ := deUsizeD_lt (by decide) h
  obtain ⟨e, h1, h2, h3, _⟩ := regexEnd_sat dbg (maxLen := n) ho hl
  exact ⟨e, h1, h2, h3⟩

/-- What holds for the addition as it stands: no panic as long as `offset + maxLength` fits `usize`. -/
theorem regex_max_length_no_panic_partial (sat dbg : Bool) (n offset len : Nat) (ho : offset ≤ len)
    (hs : offset + n < TWO64) : ∃ e, regexEnd sat dbg n offset len = ok e ∧ offset ≤ e ∧ e ≤ len := by
  obtain ⟨e, h1, h2, h3, _⟩ := regexEnd_small sat dbg (maxLen := n) ho hs
  exact ⟨e, h1, h2, h3⟩

/-- F-MAXLEN: `maxLength = 2^64 − 1` is a well-typed `usize` and is accepted, and then `provide_oov`
panics at EVERY offset ≥ 1 of every text — in a debug build at the addition, in a release build at the
slice `offset..offset−1`. -/
theorem regex_max_length_counterexample (offset len : Nat) (h1 : 1 ≤ offset) (ho : offset ≤ len) (hl : len < TWO64) :
    deUsizeD 32 (.int 18446744073709551615) = some 18446744073709551615 ∧
    regexEnd false true 18446744073709551615 offset len = crash ∧
    regexEnd false false 18446744073709551615 offset len = crash := by
  refine ⟨by decide, ?_, ?_⟩
  · exact regexEnd_overflow true (by decide) ho hl (by unfold TWO64; omega)
  · exact regexEnd_overflow false (by decide) ho hl (by unfold TWO64; omega)

/-! ## `maxYomiganaLength`, brackets, prolonged sound marks, `minLength`, `oovPOS` of path-rewrite plugins -/

/-- IgnoreYomigana: accepted ⇒ both bracket lists are non-empty lists of single characters and
`1 ≤ maxYomiganaLength ≤ ym`, where `ym` is the size limit of the regex compiler for THIS pattern (a
parameter of the model, measured by the harness on the `regex` crate itself — see `RInput`; the
statement holds for every value of it); `0`, negative, fractional, string values and empty bracket
lists are errors (`{1,0}` / an unclosed class are rejected by the regex crate). -/
theorem yomigana_params_checked (ym : Nat) (lb rb ml : JF) (h : setUpInput (.yomigana lb rb ml ym) = ok ()) :
    ∃ (l r : List (List Char)) (n : Nat), lb = .strs l ∧ rb = .strs r ∧ ml = .int n ∧
      l ≠ [] ∧ r ≠ [] ∧ (∀ s ∈ l, charCount s = 1) ∧ (∀ s ∈ r, charCount s = 1) ∧ 1 ≤ n ∧ n ≤ ym :=
  yomigana_ok h

/-- ProlongedSoundMark: accepted ⇒ a non-empty list of single characters and an absent / null / string
replacement. -/
theorem prolonged_params_checked (marks repl : JF) (h : setUpInput (.prolonged marks repl) = ok ()) :
    ∃ ms : List (List Char), marks = .strs ms ∧ ms ≠ [] ∧ (∀ s ∈ ms, charCount s = 1) ∧ deOptStr repl = true :=
  prolonged_ok h

/-- JoinKatakanaOov: accepted ⇒ `oovPOS` is a list of strings naming an EXISTING part of speech (it is
looked up, never registered: `userPOS` does not apply), the id is the first equal entry, and
`minLength` is a non-negative integer that fits `usize` (it is only compared, never added). -/
theorem katakana_params_checked (np : Pos) (pl : List Pos) (pos ml : JF) (id n : Nat)
    (h : setUpPath np pl (.katakana pos ml) = ok (id, n)) :
    ∃ p : Pos, pos = .strs p ∧ getPosId pl p = some id ∧ n < TWO64 ∧ ∃ x : Int, ml = .int x ∧ 0 ≤ x ∧ n = x.toNat :=
  katakana_ok h

/-- a POS list of the wrong arity is an error for every plugin that takes one (never a panic) -/
theorem wrong_arity_rejected (pl : List Pos) (p : Pos) (hp : p.length ≠ 6) (mode : Mode) (np : Pos) (ml : JF) (n : Nat)
    (hn : deUsize ml = some n) :
    handleUserPos pl p mode = err .pos ∧ setUpPath np pl (.katakana (.strs p) ml) = err .pos := by
  have e : getPosId pl p = none := by simp [getPosId, hp]
  refine ⟨?_, ?_⟩
  · cases mode <;> simp [handleUserPos, e, registerPos, hp]
  · simp [setUpPath, deStrs, hn, e]

/-! ## user dictionaries: are the ids of their words checked when the dictionary is LOADED? -/

/-- Full statement, true for the repaired `merge_user_dictionary` (variant `udic`): after a successful
load every indexed word of every user dictionary has `left_id < num_left` and `right_id < num_right` of
the SYSTEM matrix it is loaded with (whatever dictionary it was compiled against). -/
theorem user_dict_ids_checked (v : Variant) (v2 : Variant2) (hu : v2.udic = true) (cdef : List (List Char))
    (np : Pos) (g : Grammar) (cfg : RCfg) (ld : LoadedR) (h : loadR v v2 cdef np g cfg = ok ld)
    (hi16 : ∀ u ∈ cfg.users, ∀ w ∈ u.words, -32768 ≤ w.1 ∧ w.1 ≤ 32767 ∧ -32768 ≤ w.2 ∧ w.2 ≤ 32767) :
    ∀ lr ∈ userNodes cfg.users, lr.1 < ld.g.conn.nl ∧ lr.2 < ld.g.conn.nr := by
  obtain ⟨_, _, _, _, _, _, _, hud, _⟩ := loadR_typed h
  intro lr hlr
  simp only [userNodes, List.mem_map, List.mem_filter, List.mem_flatten] at hlr
  obtain ⟨w, ⟨⟨ws, ⟨u, hu', hws⟩, hw⟩, hw0⟩, hlr⟩ := hlr
  subst hws hlr
  obtain ⟨a, b, c, d⟩ := hi16 u hu' w hw
  exact udicBad_false (hud hu u hu' w hw) a b c d (by simpa using hw0)

/-- F-UDIC on the tree as it stands: a user dictionary whose word has ids `(5, 5)` — valid for the 6 × 6
dictionary it was compiled against — loads next to a 3 × 3 system dictionary, and the node of that word
makes the lattice trip the bounds assertion (debug) / read outside the matrix (release); the repaired
load rejects it. -/
theorem user_dict_ids_counterexample :
    let pos : Pos := [['a'], ['b'], ['c'], ['d'], ['e'], ['f']]
    let g : Grammar := ⟨[pos], ⟨3, 3, List.replicate 9 0⟩⟩
    let cfg : RCfg := ⟨[], [], [.simple (.strs pos) (.int 0) (.int 0) (.int 0) .absent], [], [⟨[], [(5, 5)]⟩]⟩
    (∃ ld, loadR (repaired true) ⟨true, false⟩ [] pos g cfg = ok ld) ∧
    loadR (repaired true) ⟨true, true⟩ [] pos g cfg = err .dataFormat ∧
    userNodes cfg.users = [(5, 5)] ∧
    buildLattice true g.conn 1 [⟨0, 1, 5, 5⟩] (bosEnds 1) = crash ∧
    buildLattice false g.conn 1 [⟨0, 1, 5, 5⟩] (bosEnds 1) = ub := by
  refine ⟨⟨_, rfl⟩, rfl, by decide, by decide, by decide⟩

/-- The consequence clause with user dictionaries in it (all repairs, square matrix): after a
successful raw load, the lattice over ANY candidates that come from validated system-lexicon entries,
from the loaded providers or from the indexed words of the loaded user dictionaries never indexes
outside the matrix. -/
theorem no_oob_in_analysis_with_user_words (v : Variant) (hv1 : v.jsonGe = true) (hv2 : v.unkGe = true)
    (v2 : Variant2) (hu : v2.udic = true) (cdef : List (List Char)) (np : Pos) (g : Grammar)
    (cfg : RCfg) (ld : LoadedR) (n : Nat) (hnl : g.conn.nl = n) (hnr : g.conn.nr = n) (hn : 0 < n) (hn2 : n ≤ 65535)
    (hwf : g.conn.WF) (h : loadR v v2 cdef np g cfg = ok ld)
    (hi16 : ∀ u ∈ cfg.users, ∀ w ∈ u.words, -32768 ≤ w.1 ∧ w.1 ≤ 32767 ∧ -32768 ≤ w.2 ∧ w.2 ≤ 32767)
    (len : Nat) (nodes : List LNode)
    (hnodes : ∀ nd ∈ nodes, nd.b ≤ len ∧ nd.e ≤ len ∧
      ((nd.left < n ∧ nd.right < n) ∨ (∃ p ∈ ld.provs, ∃ e ∈ provNodes p.1, nd.left = e.l ∧ nd.right = e.r) ∨
       (nd.left, nd.right) ∈ userNodes cfg.users))
    (dbg : Bool) :
    ∃ c, buildLattice dbg ld.g.conn len nodes (bosEnds len) = ok c := by
  obtain ⟨ti, cx, _, _, _, hload, _⟩ := loadR_typed h
  have f := load_facts (by omega) (by omega) hload
  have hnl' : ld.g.conn.nl = n := by have := f.nl_eq; simp only at this; omega
  have hnr' : ld.g.conn.nr = n := by have := f.nr_eq; simp only at this; omega
  have hwf' : ld.g.conn.WF := by
    have := f.len_eq; simp only at this
    unfold Matrix.WF at hwf ⊢; rw [this, hnl', hnr', hwf, hnl, hnr]
  have hb := bosEnds_ok (m := ld.g.conn) (by omega) len
  apply buildLattice_ok dbg hwf' (by omega) len nodes _ hb.1 hb.2
  intro nd hnd
  obtain ⟨h1, h2, h3⟩ := hnodes nd hnd
  have key : nd.left < n ∧ nd.right < n := by
    rcases h3 with h3 | ⟨⟨p1, x1⟩, hp, e, he, hl, hr⟩ | h3
    · exact h3
    · have hp' : p1 ∈ ld.provs.map (·.1) := List.mem_map.mpr ⟨(p1, x1), hp, rfl⟩
      simp only at he
      have := provNodes_ok (m := g.conn) (by omega) (by omega) (f.provs_ok p1 hp') e he
      cases p1 <;> simp only [hv1, hv2, IdOk, if_true] at this <;> omega
    · have := user_dict_ids_checked v v2 hu cdef np g cfg ld h hi16 _ h3
      simp only at this
      omega
  exact ⟨by omega, by omega, h1, h2⟩

/-! # Third round: the POS list through the whole load, the arity guard, the reader of the matrix -/

/-! ## clause 3 once more: which POS are rejected (per call, exactly) -/

/-- `unknown_pos_rejected`: a configured POS that is not a six-component entry of the grammar is an
error under `userPOS: forbid` (the default) — for the OOV providers and for JoinKatakanaOov, which
never registers —, and a POS that does not have six components is an error under `allow` as well. -/
theorem unknown_pos_rejected (pl : List Pos) (p : Pos) (hwf : PosWF pl) (hsz : pl.length ≤ 65536) :
    (¬ (p.length = 6 ∧ p ∈ pl) → handleUserPos pl p .forbid = err .pos) ∧
    (p.length ≠ 6 → handleUserPos pl p .allow = err .pos) ∧
    (¬ (p.length = 6 ∧ p ∈ pl) → ∀ (np : Pos) (ml : JF) (n : Nat), deUsize ml = some n →
      setUpPath np pl (.katakana (.strs p) ml) = err .pos) := by
  have key : ¬ (p.length = 6 ∧ p ∈ pl) → getPosId pl p = none := by
    intro h
    cases hlen : decide (p.length = 6) with
    | false => exact getPosId_none_of_len (of_decide_eq_false hlen)
    | true =>
      have hl : p.length = 6 := of_decide_eq_true hlen
      exact (pos_absent_iff pl p hl hwf hsz).mpr (fun hm => h ⟨hl, hm⟩)
  refine ⟨fun h => pos_handled_forbid pl p (key h), fun h => ?_, fun h np ml n hn => ?_⟩
  · exact (wrong_arity_rejected pl p h .allow [] (.int 0) 0 (by decide)).1
  · simp [setUpPath, deStrs, hn, key h]

/-- … and nothing else is rejected: `handle_user_pos` succeeds under `forbid` exactly for the
six-component entries of the list, under `allow` exactly for six-component lists (as long as a `u16`
id is left for a new one). -/
theorem pos_accepted_iff (pl : List Pos) (p : Pos) (hwf : PosWF pl) (hsz : pl.length ≤ 65536) :
    ((∃ r, handleUserPos pl p .forbid = ok r) ↔ (p.length = 6 ∧ p ∈ pl)) ∧
    ((∃ r, handleUserPos pl p .allow = ok r) ↔ (p.length = 6 ∧ (p ∈ pl ∨ pl.length ≤ 65535))) := by
  constructor
  · constructor
    · intro ⟨⟨pl', id⟩, h⟩
      obtain ⟨hlen, hc⟩ := handleUserPos_cases h
      rcases hc with ⟨_, hg⟩ | ⟨hm, _⟩
      · refine ⟨hlen, ?_⟩
        obtain ⟨hlt, he⟩ := (pos_handled_exists pl p .forbid id hsz hwf hg).2
        exact he ▸ List.getElem_mem hlt
      · cases hm
    · intro ⟨hlen, hmem⟩
      obtain ⟨id, hg⟩ := getPosId_of_mem hlen hmem
      exact ⟨(pl, id), by simp [handleUserPos, hg]⟩
  · constructor
    · intro ⟨⟨pl', id⟩, h⟩
      obtain ⟨hlen, hc⟩ := handleUserPos_cases h
      rcases hc with ⟨_, hg⟩ | ⟨_, _, _, hs, _⟩
      · refine ⟨hlen, Or.inl ?_⟩
        obtain ⟨hlt, he⟩ := (pos_handled_exists pl p .allow id hsz hwf hg).2
        exact he ▸ List.getElem_mem hlt
      · exact ⟨hlen, Or.inr hs⟩
    · intro ⟨hlen, hc⟩
      cases hg : getPosId pl p with
      | some id => exact ⟨(pl, id), by simp [handleUserPos, hg]⟩
      | none =>
        rcases hc with hc | hc
        · obtain ⟨id, hg'⟩ := getPosId_of_mem hlen hc
          rw [hg] at hg'; cases hg'
        · exact ⟨_, pos_handled_allow pl p hlen hc hg⟩

/-- The lookup WITHOUT the arity guard (seeded change C20c: `position(.. zip .. all ..)`) accepts, under
`forbid`, every proper prefix of every entry of the grammar — the empty list matches entry 0 —, while the
lookup of the tree rejects each of them: the guard is not redundant with `register_pos`' own test. -/
theorem unguarded_lookup_counterexample (pl : List Pos) (q p : Pos) (hq : q ∈ pl) (hp : p <+: q) (hne : p.length ≠ 6) :
    (∃ id, getPosIdU pl p = some id) ∧ getPosId pl p = none ∧ handleUserPos pl p .forbid = err .pos :=
  ⟨getPosIdU_of_prefix hq hp, getPosId_none_of_len hne, by simp [handleUserPos, getPosId_none_of_len hne]⟩

/-! ## the POS list after the whole load: the dictionary's own ids never shift -/

/-- `dict_pos_ids_stable` (open point of the first two rounds: "by correspondence and oracle only").
After a successful load the POS list is the dictionary's own list, FOLLOWED BY what the providers
registered, FOLLOWED BY the POS of the user dictionaries in order: `handle_user_pos`/`register_pos` only
push at the end, `read_oov` and `Plugins::load` thread the list, `Grammar::merge` extends it.  So every id
of the dictionary denotes the same POS before and after (the lexicon's `pos_id`s stay valid), the
registered part consists of six-component POS, and the plugin part still fits `u16`. -/
theorem dict_pos_ids_stable (v : Variant) (cdef : List (List Char)) (g : Grammar) (cfg : Cfg) (ld : Loaded)
    (h : load v cdef g cfg = ok ld) :
    ∃ reg, ld.g.pos = g.pos ++ reg ++ cfg.userPos.flatten ∧
      (∀ i (hi : i < g.pos.length), ld.g.pos[i]? = some g.pos[i]) ∧
      (∀ q ∈ reg, q.length = 6) ∧
      (g.pos.length ≤ 65536 → (g.pos ++ reg).length ≤ 65536) := by
  obtain ⟨reg, e, hw, s, _, _⟩ := load_pos h
  refine ⟨reg, e, fun i hi => ?_, hw, s.sz⟩
  rw [e, List.append_assoc, List.getElem?_append_left hi, List.getElem?_eq_getElem hi]

/-- the same for the raw load (all four plugin kinds, user dictionaries with their words) -/
theorem raw_dict_pos_ids_stable (v : Variant) (v2 : Variant2) (cdef : List (List Char)) (np : Pos)
    (g : Grammar) (cfg : RCfg) (ld : LoadedR) (h : loadR v v2 cdef np g cfg = ok ld) :
    ∃ reg, ld.g.pos = g.pos ++ reg ++ (cfg.users.map (·.pos)).flatten ∧
      (∀ i (hi : i < g.pos.length), ld.g.pos[i]? = some g.pos[i]) ∧ (∀ q ∈ reg, q.length = 6) := by
  obtain ⟨ti, cx, _, _, _, hload, _⟩ := loadR_typed h
  obtain ⟨reg, e, hs, hw, _⟩ := dict_pos_ids_stable v cdef g _ _ hload
  exact ⟨reg, e, hs, hw⟩

/-- The ids the providers keep stay right: after a successful load (dictionary POS list well formed,
as `Grammar::parse` delivers it — `matrix_dims_bounded`), every POS id a loaded provider attaches to
its nodes indexes the FINAL list, and for Simple/Regex providers the entry there is exactly the
configured POS — also when later providers registered further POS and user dictionaries were merged
behind them.  (`cfg.oov.zip ld.provs` pairs every configured provider with the loaded one: the lists
have the same length.) -/
theorem provider_pos_resolved (v : Variant) (cdef : List (List Char)) (g : Grammar) (cfg : Cfg) (ld : Loaded)
    (hwf : PosWF g.pos) (hsz : g.pos.length ≤ 65536) (h : load v cdef g cfg = ok ld) :
    ld.provs.length = cfg.oov.length ∧ ∀ cp ∈ cfg.oov.zip ld.provs, ProvPos ld.g.pos cp.1 cp.2 := by
  obtain ⟨reg, e, _, _, l, r⟩ := load_pos h
  refine ⟨l, fun cp hcp => ?_⟩
  rw [e]
  exact (r hwf hsz cp hcp).mono (List.prefix_append _ _)

/-- Clause 3 for the whole load: if the load succeeds, every POS configured for a Simple/Regex provider
has six components and is an entry of the loaded grammar; and when no provider says `userPOS: allow`
nothing was registered — the list is the dictionary's followed by the user dictionaries', and every
configured POS is one of the DICTIONARY's. -/
theorem load_pos_requirement (v : Variant) (cdef : List (List Char)) (g : Grammar) (cfg : Cfg) (ld : Loaded)
    (hwf : PosWF g.pos) (hsz : g.pos.length ≤ 65536) (h : load v cdef g cfg = ok ld) :
    (∀ c ∈ cfg.oov, ∀ pos, (∃ l r k m, c = .simple pos l r k m ∨ c = .regex pos l r k m) →
      pos.length = 6 ∧ pos ∈ ld.g.pos) ∧
    (cfg.oov.any ProvCfg.allows = false →
      ld.g.pos = g.pos ++ cfg.userPos.flatten ∧
      ∀ c ∈ cfg.oov, ∀ pos, (∃ l r k m, c = .simple pos l r k m ∨ c = .regex pos l r k m) → pos ∈ g.pos) := by
  obtain ⟨reg, e, hw, s, l, r⟩ := load_pos h
  have hfin : PosWF (g.pos ++ reg) := s.wf hwf
  have mem : ∀ c ∈ cfg.oov, ∀ pos, (∃ l r k m, c = .simple pos l r k m ∨ c = .regex pos l r k m) →
      pos ∈ g.pos ++ reg := by
    intro c hc pos hp
    obtain ⟨i, hi, hci⟩ := List.getElem_of_mem hc
    have hi' : i < ld.provs.length := by omega
    have hz : (c, ld.provs[i]) ∈ cfg.oov.zip ld.provs := by
      rw [← hci]
      have : (cfg.oov.zip ld.provs)[i]'(by simp; omega) = (cfg.oov[i], ld.provs[i]) := by simp
      exact this ▸ List.getElem_mem _
    have pp := (r hwf hsz _ hz).2
    obtain ⟨l', r', k, m, hp⟩ := hp
    rcases hp with hp | hp <;> subst hp <;> cases hpi : ld.provs[i] <;> simp only [hpi] at pp
    all_goals first | exact List.mem_of_getElem? pp | exact pp.elim
  refine ⟨fun c hc pos hp => ?_, fun hf => ?_⟩
  · have hm := mem c hc pos hp
    refine ⟨hfin pos hm, ?_⟩
    rw [e]; exact List.mem_append_left _ hm
  · have hreg : g.pos ++ reg = g.pos := s.forbid hf
    refine ⟨by rw [e, hreg], fun c hc pos hp => ?_⟩
    have := mem c hc pos hp
    rwa [hreg] at this

/-- With `userPOS: forbid` (or no `userPOS`) everywhere the load registers nothing. -/
theorem forbid_registers_nothing (v : Variant) (cdef : List (List Char)) (g : Grammar) (cfg : Cfg) (ld : Loaded)
    (hf : cfg.oov.any ProvCfg.allows = false) (h : load v cdef g cfg = ok ld) :
    ld.g.pos = g.pos ++ cfg.userPos.flatten := by
  obtain ⟨reg, e, _, s, _, _⟩ := load_pos h
  have hreg : g.pos ++ reg = g.pos := s.forbid hf
  rw [e, hreg]

/-! ## configuration shape: the number of user dictionaries -/

/-- `LexiconSet::append` refuses a 15th user dictionary (`MAX_DICTIONARIES = 15` with the system
dictionary): a load with more than 14 user dictionaries is an error value, and a load that succeeds
with user dictionaries kept the merged POS list within `u16` ids (65 536 entries). -/
theorem too_many_user_dictionaries_rejected (v : Variant) (v2 : Variant2) (cdef : List (List Char)) (np : Pos)
    (g : Grammar) (cfg : RCfg) (ld : LoadedR) (h : loadR v v2 cdef np g cfg = ok ld) :
    cfg.users.length ≤ 14 ∧ (cfg.users ≠ [] → ld.g.pos.length ≤ 65536) := by
  obtain ⟨_, _, _, _, _, _, _, _, hc, hl, _⟩ := loadR_typed h
  unfold MAX_DICTIONARIES at hc
  exact ⟨by omega, hl⟩

/-! ## "matrix dimensions ≤ 65535" was a hypothesis: where the dimensions come from -/

/-- `matrix_dims_bounded`: the matrix every range check compares against is the one `Grammar::parse` +
`ConnectionMatrix::from_offset_size` + `CowArray::from_bytes` build from the dictionary bytes.  If that
reader succeeds on a header whose two `i16` numbers are not negative — the builder never writes a
negative one (`ConnBuffer::read` / `write_to` refuse it), and a DEBUG build enforces it by itself as soon
as the first number is not 0, because `2 * left_id_size as usize * right_id_size as usize` overflows —
then `num_left = ` the first number `≤ 32767`, `num_right = ` the second `≤ 32767`, the matrix has
exactly `num_left * num_right` cells (`Matrix.WF`), the POS list has at most 65 535 entries of six
components each.  These are the hypotheses `hnl`, `hnr`, `hwf`, `PosWF`, `hsz` of every theorem above.
With the repair `fix_grammar_header.patch` (`hdr = true`: a negative number is refused) the statement
holds WITHOUT any hypothesis on the header, in both builds. -/
theorem matrix_dims_bounded (hdr dbg : Bool) (buf : Codec.Bytes) (offset : Nat) (g : GParsed)
    (hb : ∀ b ∈ buf, b < 256) (h : grammarParse hdr dbg buf offset = ok g)
    (hd : hdr = true ∨ (dbg = true ∧ 0 < g.rawL) ∨ (g.rawL < 32768 ∧ g.rawR < 32768)) :
    g.grammar.conn.nl = g.rawL ∧ g.grammar.conn.nr = g.rawR ∧
    g.grammar.conn.nl ≤ 32767 ∧ g.grammar.conn.nr ≤ 32767 ∧ g.grammar.conn.WF ∧
    PosWF g.grammar.pos ∧ g.grammar.pos.length ≤ 65535 := by
  have f := grammarParse_facts hb h hd
  refine ⟨f.nl_eq, f.nr_eq, f.nl_le, f.nr_le, f.cells_len, ?_, ?_⟩
  · intro q hq
    simp only [GParsed.grammar, List.mem_map] at hq
    obtain ⟨q0, hq0, e⟩ := hq
    subst e
    simp only [posOfCodec, List.length_map]
    exact f.pos_wf q0 hq0
  · simp only [GParsed.grammar, List.length_map]; exact f.pos_len

/-- The writer's half of "the header is not negative": a connection-matrix text that the builder's
`ConnBuffer::read` accepts (C06's model of it, `Build.readConn`, any of its code variants) declares both
sizes in `0 … 32767` — `parse_i16` and the two `< 0` tests —, and `write_to` writes exactly these two `i16`s.
So every dictionary the builder produced satisfies the hypothesis of `matrix_dims_bounded`. -/
theorem builder_header_in_range (v : Build.Variant) (buf buf' : Build.ConnBuf) (lines : List (Option Build.Str))
    (h : Build.readConn v buf lines = (buf', .ok ())) :
    0 ≤ buf'.conn.nl ∧ buf'.conn.nl ≤ 32767 ∧ 0 ≤ buf'.conn.nr ∧ buf'.conn.nr ≤ 32767 :=
  BuildSide.readConn_sizes h

/-- Without the hypothesis on the header the bound is FALSE — the reader casts the `i16` header numbers
with `as usize` and never tests their sign: the six bytes "no POS, header (0, −1)" are accepted by BOTH
builds as a matrix with `num_right = 2^64 − 1` and no cell, and "header (−1, 0)" is accepted by a
release build (`num_left = 2^64 − 1`) while a debug build panics on the overflowing product instead of
returning an error.  (Files the builder cannot write; not a configuration parameter — recorded as an
observation about `Grammar::parse`, see the report.) -/
theorem matrix_dims_negative_header_counterexample :
    (∀ dbg, ∃ g, grammarParse false dbg [0, 0, 0, 0, 255, 255] 0 = ok g ∧ g.nl = 0 ∧ g.nr = 18446744073709551615 ∧ g.cells = []) ∧
    (∃ g, grammarParse false false [0, 0, 255, 255, 0, 0] 0 = ok g ∧ g.nl = 18446744073709551615 ∧ g.nr = 0) ∧
    grammarParse false true [0, 0, 255, 255, 0, 0] 0 = crash ∧
    -- a matrix cut short between `size` and `2 * size` bytes passes `end > data.len()` (elements
    -- against bytes) and panics in the slice of `CowArray::from_bytes`, in both builds
    (∀ dbg, grammarParse false dbg [0, 0, 2, 0, 2, 0, 1, 0, 2, 0] 0 = crash) ∧
    -- the repaired reader returns an error value for all three
    (∀ dbg, grammarParse true dbg [0, 0, 0, 0, 255, 255] 0 = err .grammar ∧
      grammarParse true dbg [0, 0, 255, 255, 0, 0] 0 = err .grammar ∧
      grammarParse true dbg [0, 0, 2, 0, 2, 0, 1, 0, 2, 0] 0 = err .grammar) := by
  refine ⟨fun dbg => ?_, ⟨_, rfl, rfl, rfl⟩, by decide, fun dbg => ?_, fun dbg => ?_⟩
  · cases dbg
    · exact ⟨_, rfl, rfl, rfl, rfl⟩
    · exact ⟨_, rfl, rfl, rfl, rfl⟩
  · cases dbg <;> decide
  · cases dbg <;> exact ⟨by decide, by decide, by decide⟩

/-- `grammar_parse_never_panics`, full statement, true for the repaired reader (`fix_grammar_header.patch`):
for every buffer and every offset `Grammar::parse` returns a grammar or an error value — no overflowing
product, no slice outside the buffer, no `CowArray` over fewer bytes than it claims —, in both builds; and
a grammar it returns has dimensions `≤ 32767`, exactly `num_left * num_right` cells and a well-formed POS
list.  (For the tree as it stands see the counterexample above: refuted.) -/
theorem grammar_parse_never_panics (dbg : Bool) (buf : Codec.Bytes) (offset : Nat)
    (hb : ∀ b ∈ buf, b < 256) (hlen : buf.length < 4611686018427387904) :
    (∃ g, grammarParse true dbg buf offset = ok g ∧ g.grammar.conn.nl ≤ 32767 ∧ g.grammar.conn.nr ≤ 32767 ∧
      g.grammar.conn.WF ∧ PosWF g.grammar.pos ∧ g.grammar.pos.length ≤ 65535) ∨
    (∃ k, grammarParse true dbg buf offset = err k) := by
  have hs := grammarParse_repaired_safe dbg buf offset hlen
  cases hp : grammarParse true dbg buf offset with
  | ok g =>
    obtain ⟨_, _, a, b, c, d, e⟩ := matrix_dims_bounded true dbg buf offset g hb hp (Or.inl rfl)
    exact Or.inl ⟨g, rfl, a, b, c, d, e⟩
  | err k => exact Or.inr ⟨k, rfl⟩
  | crash => rw [hp] at hs; cases hs
  | ub => rw [hp] at hs; cases hs

/-- The consequence clause with the reader in front (all repairs, square matrix): the dictionary bytes
are parsed, the configuration is loaded against the parsed grammar, and the lattice over candidates
from validated lexicon entries and loaded providers never indexes outside the matrix — no hypothesis
on the size or the well-formedness of the matrix is left, only that the header is not negative (nothing
at all for the repaired reader). -/
theorem no_oob_in_analysis_loaded (v : Variant) (hv1 : v.jsonGe = true) (hv2 : v.unkGe = true)
    (hdr dbg0 : Bool) (buf : Codec.Bytes) (offset : Nat) (gp : GParsed) (hb : ∀ b ∈ buf, b < 256)
    (hparse : grammarParse hdr dbg0 buf offset = ok gp) (hneg : hdr = true ∨ (gp.rawL < 32768 ∧ gp.rawR < 32768))
    (hsq : gp.rawL = gp.rawR) (hpos : 0 < gp.rawL)
    (cdef : List (List Char)) (cfg : Cfg) (ld : Loaded) (h : load v cdef gp.grammar cfg = ok ld)
    (len : Nat) (nodes : List LNode)
    (hnodes : ∀ nd ∈ nodes, nd.b ≤ len ∧ nd.e ≤ len ∧
      ((nd.left < gp.rawL ∧ nd.right < gp.rawL) ∨ ∃ p ∈ ld.provs, ∃ e ∈ provNodes p, nd.left = e.l ∧ nd.right = e.r))
    (dbg : Bool) :
    ∃ c, buildLattice dbg ld.g.conn len nodes (bosEnds len) = ok c := by
  obtain ⟨e1, e2, b1, _, hwf, _, _⟩ := matrix_dims_bounded hdr dbg0 buf offset gp hb hparse
    (hneg.elim Or.inl (fun h => Or.inr (Or.inr h)))
  exact no_oob_in_analysis v hv1 hv2 cdef gp.grammar cfg ld gp.rawL e1 (by rw [e2, hsq]) hpos (by omega) hwf h len
    nodes hnodes dbg

/-! ## non-vacuity of the hypotheses -/

/-- a 2 × 2 dictionary, one Simple provider and one inhibited pair: the load succeeds for the
repaired variant (so `inhibit_checked` / `no_oob_in_analysis` are not vacuous), the pair `(1, 0)`
is written to cell `(1, 0)` only. -/
example :
    let g : Grammar := ⟨[[['a'], ['b'], ['c'], ['d'], ['e'], ['f']]], ⟨2, 2, [1, 2, 3, 4]⟩⟩
    let cfg : Cfg := ⟨[[(1, 0)]], [.simple [['a'], ['b'], ['c'], ['d'], ['e'], ['f']] 1 1 (-7) .forbid], []⟩
    g.conn.WF ∧
    (∃ ld, load (repaired true) [] g cfg = ok ld ∧ ld.g.conn.cells = [1, 32767, 3, 4] ∧
      ld.provs.map provNodes = [[⟨1, 1, -7, 0⟩]]) := by
  refine ⟨by simp [Matrix.WF], _, rfl, by decide, by decide⟩

/-- the hypotheses of the POS theorems are satisfiable: absent under `allow` is appended -/
example : getPosId [[['a'], ['b'], ['c'], ['d'], ['e'], ['f']]] [['x'], ['b'], ['c'], ['d'], ['e'], ['f']] = none ∧
    getPosId [[['a'], ['b'], ['c'], ['d'], ['e'], ['f']]] [['a'], ['b'], ['c'], ['d'], ['e'], ['f']] = some 0 := by
  refine ⟨by decide, by decide⟩

/-- `accepted_in_range` is not vacuous: `2` is accepted on a 3 × 3 matrix by both comparisons -/
example : checkLeftId (repaired true) ⟨3, 3, []⟩ 2 = ok 2 ∧ checkLeftId (cur true) ⟨3, 3, []⟩ 2 = ok 2 ∧
    checkLeftId (repaired true) ⟨3, 3, []⟩ 3 = err .dataFormat := by
  refine ⟨by decide, by decide, by decide⟩


/-- the raw layer is not vacuous: a configuration with every bundled plugin kind and a fitting user
dictionary loads in the fully repaired variant; `maxLength = 2^64 − 1` is accepted, harmless at offset 0
and fatal at offset 1 only for the unrepaired addition -/
example :
    let pos : Pos := [['a'], ['b'], ['c'], ['d'], ['e'], ['f']]
    let g : Grammar := ⟨[pos], ⟨2, 2, [1, 2, 3, 4]⟩⟩
    let cfg : RCfg := ⟨[.pairs [[.int 1, .int 0]]], [.prolonged (.strs [['-']]) .absent, .yomigana (.strs [['(']]) (.strs [[')']]) (.int 4) 27864],
      [.regex (.strs pos) (.int 1) (.int 1) (.int (-7)) (.str "forbid".toList) (.int 18446744073709551615) (.str "relaxed".toList)
        (.str ['.']) .absent true],
      [.katakana (.strs pos) (.int 2), .numeric .null], [⟨[], [(1, 1), (-1, -1)]⟩]⟩
    (∃ ld, loadR (repaired true) ⟨true, true⟩ [] pos g cfg = ok ld ∧ ld.g.conn.cells = [1, 32767, 3, 4] ∧
      ld.provs.map (·.2) = [⟨18446744073709551615, true, true⟩]) ∧
    regexAsk false true ⟨18446744073709551615, true, true⟩ 0 6 = ok (some 1) ∧
    regexAsk false true ⟨18446744073709551615, true, true⟩ 1 6 = crash ∧
    regexAsk true true ⟨18446744073709551615, true, true⟩ 1 6 = ok (some 2) := by
  refine ⟨⟨_, rfl, by decide, by decide⟩, by decide, by decide, by decide⟩

/-- the hypotheses of the parameter theorems are satisfiable -/
example : setUpInput (.yomigana (.strs [['(']]) (.strs [[')']]) (.int 4) 27864) = ok () ∧
    setUpInput (.yomigana (.strs [['(']]) (.strs [[')']]) (.int 0) 27864) = err .plugin ∧
    setUpInput (.yomigana (.strs []) (.strs [[')']]) (.int 4) 27864) = err .plugin ∧
    setUpInput (.yomigana (.strs [['(']]) (.strs [[')']]) (.int (-1)) 27864) = err .serde ∧
    setUpInput (.yomigana (.strs [['(']]) (.strs [[')']]) (.int 27864) 27864) = ok () ∧
    setUpInput (.yomigana (.strs [['(']]) (.strs [[')']]) (.int 27865) 27864) = err .plugin ∧
    setUpInput (.prolonged (.strs [['-']]) .null) = ok () ∧
    setUpInput (.prolonged (.strs [['a', 'b']]) .null) = err .serde ∧
    deUsizeD 32 .absent = some 32 ∧ deUsize .float = none ∧
    deInh (.pairs [[.int 1, .int 0], [.int (-32768), .int 32767]]) = some [(1, 0), (-32768, 32767)] ∧
    deInh (.pairs [[.int 1]]) = none ∧ deInh (.pairs [[.int 1, .int 2, .int 3]]) = none ∧ deInh (.pairs [[.int 1, .float]]) = none ∧
    deInh (.pairs [[.int 32768, .int 0]]) = none ∧ deInh .absent = none ∧ deInh (.pairs []) = some [] := by
  refine ⟨by decide, by decide, by decide, by decide, by decide, by decide, by decide, by decide, by decide, by decide,
    by decide, by decide, by decide, by decide, by decide, by decide, by decide⟩

/-- `swapped_checks_sound` / `no_oob_in_analysis_nonsquare` are not vacuous: on a 4 × 2 matrix the swapped
check accepts left id 1 and rejects left id 3 -/
example : checkId true 2 1 = ok 1 ∧ checkId true 2 3 = err .dataFormat ∧ checkId true 4 3 = ok 3 := by
  refine ⟨by decide, by decide, by decide⟩

/-- the third round's hypotheses are satisfiable: a 2 × 2 dictionary parsed from its bytes (one POS of six
one-letter components, header (2, 2), four cells) satisfies the hypothesis of `matrix_dims_bounded` in
both forms; a provider with a NEW POS under `allow` loads and registers it behind the dictionary's
(`dict_pos_ids_stable`, `provider_pos_resolved` are not vacuous); under `forbid` it is rejected -/
example :
    let buf : Codec.Bytes := [1, 0, 1, 97, 0, 1, 98, 0, 1, 99, 0, 1, 100, 0, 1, 101, 0, 1, 102, 0, 2, 0, 2, 0, 1, 0, 2, 0, 3, 0, 255, 255]
    let newp : Pos := [['x'], ['b'], ['c'], ['d'], ['e'], ['f']]
    (∃ g, grammarParse false true buf 0 = ok g ∧ grammarParse true false buf 0 = ok g ∧ 0 < g.rawL ∧ g.rawL < 32768 ∧ g.rawR < 32768 ∧
      g.grammar.pos = [[['a'], ['b'], ['c'], ['d'], ['e'], ['f']]] ∧ g.grammar.conn = ⟨2, 2, [1, 2, 3, -1]⟩ ∧
      (∃ ld, load (repaired true) [] g.grammar ⟨[], [.simple newp 1 1 0 .allow], [[newp]]⟩ = ok ld ∧
        ld.g.pos = g.grammar.pos ++ [newp] ++ [newp] ∧ ld.provs.map provNodes = [[⟨1, 1, 0, 1⟩]]) ∧
      load (repaired true) [] g.grammar ⟨[], [.simple newp 1 1 0 .forbid], []⟩ = err .pos) ∧
    ProvCfg.allows (.simple newp 1 1 0 .forbid) = false ∧ PosWF [newp] := by
  refine ⟨⟨_, rfl, rfl, by decide, by decide, by decide, by decide, by decide, ⟨_, rfl, by decide, by decide⟩, rfl⟩,
    rfl, fun q hq => ?_⟩
  simp only [List.mem_singleton] at hq
  subst hq; rfl

/-- `unguarded_lookup_counterexample` and `too_many_user_dictionaries_rejected` are not vacuous: a truncated
POS is a prefix of an entry; 14 user dictionaries load, the 15th is `LexiconSetError` -/
example :
    let pos : Pos := [['a'], ['b'], ['c'], ['d'], ['e'], ['f']]
    let g : Grammar := ⟨[pos], ⟨2, 2, [1, 2, 3, 4]⟩⟩
    let oov : List ROov := [.simple (.strs pos) (.int 0) (.int 0) (.int 0) .absent]
    ([['a'], ['b']] : Pos) <+: pos ∧ getPosIdU [pos] [['a'], ['b']] = some 0 ∧ getPosIdU [pos] [] = some 0 ∧
    (∃ ld, loadR (repaired true) ⟨true, true⟩ [] pos g ⟨[], [], oov, [], List.replicate 14 ⟨[], []⟩⟩ = ok ld) ∧
    loadR (repaired true) ⟨true, true⟩ [] pos g ⟨[], [], oov, [], List.replicate 15 ⟨[], []⟩⟩ = err .lexSet := by
  refine ⟨⟨[['c'], ['d'], ['e'], ['f']], rfl⟩, by decide, by decide, ⟨_, rfl⟩, rfl⟩

/-- `builder_header_in_range` is not vacuous: the builder reads the header `2 2`; `-1 2` is refused -/
example : (Build.readConn Build.Variant.landed Build.ConnBuf.new [some ['2', ' ', '2', '\n']]).2 = .ok () ∧
    (Build.readConn Build.Variant.landed Build.ConnBuf.new [some ['2', ' ', '2', '\n']]).1.conn.nl = 2 ∧
    (Build.readConn Build.Variant.landed Build.ConnBuf.new [some ['-', '1', ' ', '2', '\n']]).2 = .err .InvalidConnSize 0 := by
  refine ⟨rfl, by decide, rfl⟩

/-- `regex_setting_checked` is not vacuous: a pattern the crate refuses is `ConfigError` (after the POS was accepted),
a `regex` that is not a string or a `debug` that is not a boolean is `SerdeError`, a forbidden POS comes first -/
example :
    let pos : Pos := [['a'], ['b'], ['c'], ['d'], ['e'], ['f']]
    let newp : Pos := [['x'], ['b'], ['c'], ['d'], ['e'], ['f']]
    let g : Grammar := ⟨[pos], ⟨2, 2, [1, 2, 3, 4]⟩⟩
    let rx (p : Pos) (m rx d : JF) (ok : Bool) : ROov := .regex (.strs p) (.int 1) (.int 1) (.int 0) m .absent .absent rx d ok
    (∃ r, setUpROov (repaired true) [] g (rx pos .absent (.str ['.']) .absent true) = ok r) ∧
    setUpROov (repaired true) [] g (rx pos .absent (.str ['(']) .absent false) = err .config ∧
    setUpROov (repaired true) [] g (rx newp (.str "allow".toList) (.str ['(']) .bool false) = err .config ∧
    setUpROov (repaired true) [] g (rx newp .absent (.str ['(']) .absent false) = err .pos ∧
    setUpROov (repaired true) [] g (rx pos .absent (.int 5) .absent true) = err .serde ∧
    setUpROov (repaired true) [] g (rx pos .absent .absent .absent true) = err .serde ∧
    setUpROov (repaired true) [] g (rx pos .absent (.str ['.']) .null true) = err .serde := by
  refine ⟨⟨_, rfl⟩, rfl, rfl, rfl, rfl, rfl, rfl⟩

end C20
