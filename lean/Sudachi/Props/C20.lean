import Sudachi.Proofs.Params
import Sudachi.Proofs.ParamsCfg
/-!
# C20 — Out-of-range plugin parameters are rejected when the dictionary is loaded

Model: `Model/Params.lean` (check_params.rs, user_pos.rs, grammar.rs, connect.rs, the three OOV
providers' `set_up`, inhibit_connection.rs, `from_cfg_storage`, the matrix reads of lattice.rs).
The code variants are selected by `Params.Variant`; `Params.cur` is the unchanged tree,
`jsonGe` / `unkGe` / `inhChecked` are the repairs of D15a / D15b / D16.  The matrix dimensions are
at most 32767 in every dictionary (the header stores them as `i16`); the theorems only need
`≤ 65535`.
-/
namespace C20
open Params Params.Outcome

/-! ## clause 1: every accepted connection id indexes the matrix -/

/-- Full statement (`accepted_in_range`), true for the repaired comparison `>=`: a JSON `leftId` /
`rightId` is accepted only if it indexes the dimension it is checked against, and the stored `u16`
is the given value. -/
theorem accepted_in_range (v : Variant) (hv : v.jsonGe = true) (m : Matrix)
    (hnl : m.nl ≤ 65535) (hnr : m.nr ≤ 65535) (x : Int) (w : Nat) :
    (checkLeftId v m x = ok w → (w : Int) = x ∧ 0 ≤ x ∧ x < m.nl) ∧
    (checkRightId v m x = ok w → (w : Int) = x ∧ 0 ≤ x ∧ x < m.nr) := by
  constructor
  · intro h
    have a := checkId_IdOk h hnl
    have b := checkId_ok h
    simp only [hv, IdOk, if_true] at a b
    omega
  · intro h
    have a := checkId_IdOk h hnr
    have b := checkId_ok h
    simp only [hv, IdOk, if_true] at a b
    omega

/-- What holds for the code as it stands (any variant): the accepted value is stored unchanged and
is at most the dimension — `x = n` is not excluded (D15a). -/
theorem accepted_in_range_partial (v : Variant) (m : Matrix)
    (hnl : m.nl ≤ 65535) (hnr : m.nr ≤ 65535) (x : Int) (w : Nat) :
    (checkLeftId v m x = ok w → (w : Int) = x ∧ 0 ≤ x ∧ x ≤ m.nl) ∧
    (checkRightId v m x = ok w → (w : Int) = x ∧ 0 ≤ x ∧ x ≤ m.nr) := by
  constructor
  · intro h
    have a := checkId_IdOk h hnl
    have b := checkId_ok h
    unfold IdOk at a
    cases hj : v.jsonGe <;> simp only [hj, if_true, Bool.false_eq_true, if_false] at a b <;> omega
  · intro h
    have a := checkId_IdOk h hnr
    have b := checkId_ok h
    unfold IdOk at a
    cases hj : v.jsonGe <;> simp only [hj, if_true, Bool.false_eq_true, if_false] at a b <;> omega

/-- D15a: on the unchanged comparison (`>`), for EVERY square matrix the first invalid value — the
dimension itself — is accepted as left id and as right id, although it indexes no row or column. -/
theorem accepted_in_range_counterexample (v : Variant) (hv : v.jsonGe = false) (n : Nat) (hn : n ≤ 65535)
    (cells : List Int) :
    checkLeftId v ⟨n, n, cells⟩ n = ok n ∧ checkRightId v ⟨n, n, cells⟩ n = ok n ∧ ¬ (n < n) := by
  have e : asU16 (n : Int) = n := by rw [asU16_toNat (by omega) (by omega)]; simp
  have h := checkId_of (ge := false) (n := n) (x := (n : Int)) (by omega) (by simp)
  rw [e] at h
  simp [checkLeftId, checkRightId, hv, h]

/-- `unk.def` ids, full statement, true after the `>=` repair of D15b: every record the MeCab
provider stores has `0 ≤ left < num_left`, `0 ≤ right < num_right` (and an `i16` cost). -/
theorem unk_accepted_in_range (v : Variant) (hv : v.unkGe = true) (cats : List (Nat × Oov.CatInfo))
    (conn : Matrix) (hnl : conn.nl ≤ 65535) (hnr : conn.nr ≤ 65535) (mode : Mode)
    (lines : List (List Char)) (pl pl' : List Pos) (acc : List (Nat × List RawOov))
    (h : readOov v cats conn mode lines pl [] = ok (pl', acc)) :
    ∀ kv ∈ acc, ∀ d ∈ kv.2, 0 ≤ d.l ∧ d.l < conn.nl ∧ 0 ≤ d.r ∧ d.r < conn.nr ∧ -32768 ≤ d.c ∧ d.c ≤ 32767 := by
  intro kv hkv d hd
  have := readOov_ok (by omega) (by omega) lines h (by intro kv hkv; cases hkv) kv hkv d hd
  simp only [RawOk, IdOk, hv, if_true] at this
  omega

/-- `unk.def` ids on any variant: `≤` instead of `<` (D15b on the unchanged tree). -/
theorem unk_accepted_in_range_partial (v : Variant) (cats : List (Nat × Oov.CatInfo))
    (conn : Matrix) (hnl : conn.nl ≤ 65535) (hnr : conn.nr ≤ 65535) (mode : Mode)
    (lines : List (List Char)) (pl pl' : List Pos) (acc : List (Nat × List RawOov))
    (h : readOov v cats conn mode lines pl [] = ok (pl', acc)) :
    ∀ kv ∈ acc, ∀ d ∈ kv.2, 0 ≤ d.l ∧ d.l ≤ conn.nl ∧ 0 ≤ d.r ∧ d.r ≤ conn.nr ∧ -32768 ≤ d.c ∧ d.c ≤ 32767 := by
  intro kv hkv d hd
  have := readOov_ok (by omega) (by omega) lines h (by intro kv hkv; cases hkv) kv hkv d hd
  simp only [RawOk, IdOk] at this
  cases hj : v.unkGe <;> simp only [hj, if_true, Bool.false_eq_true, if_false] at this <;> omega

/-- D15b: the range test of the unchanged reader lets the dimension itself through, for every
dimension. -/
theorem unk_accepted_in_range_counterexample (n : Nat) (hn : n < 9223372036854775808) :
    unkIdBad false n (n : Int) = false ∧ unkIdBad true n (n : Int) = true := by
  have e : asUsize (n : Int) = n := by rw [asUsize_nonneg (by omega) (by omega)]; simp
  simp [unkIdBad, e]

/-! ## clause 2: every cost fits the dictionary's cost type -/

/-- `cost_fits`: a JSON cost is accepted only inside `i16`, and is stored unchanged. -/
theorem cost_fits (x c : Int) (h : checkCost x = ok c) : c = x ∧ -32768 ≤ x ∧ x ≤ 32767 :=
  checkCost_ok h

/-- and conversely every `i16` value is accepted (the check rejects nothing it should not) -/
theorem cost_fits_complete (x : Int) (h1 : -32768 ≤ x) (h2 : x ≤ 32767) : checkCost x = ok x := by
  have a : ¬ x < -32768 := by omega
  have b : ¬ x > 32767 := by omega
  simp [checkCost, a, b, asI16_of_fits h1 h2]

/-! ## clause 3: every POS exists or user-defined POS are allowed -/

/-- `pos_handled`, existing POS: the id of the first equal entry is returned and the list is unchanged. -/
theorem pos_handled_exists (pl : List Pos) (p : Pos) (mode : Mode) (id : Nat)
    (hsz : pl.length ≤ 65536) (hwf : ∀ q ∈ pl, q.length = 6) (h : getPosId pl p = some id) :
    handleUserPos pl p mode = ok (pl, id) ∧ ∃ (hlt : id < pl.length), pl[id] = p := by
  obtain ⟨hlen, hlt, hm, _⟩ := getPosId_some h hsz
  refine ⟨by simp [handleUserPos, h], hlt, ?_⟩
  have := (posMatch_iff_eq p pl[id] (by rw [hlen, hwf _ (List.getElem_mem hlt)])).mp hm
  exact this.symm

/-- `pos_handled`, absent POS with `userPOS: allow`: appended at the end, its id is the old length. -/
theorem pos_handled_allow (pl : List Pos) (p : Pos) (hlen : p.length = 6) (hsz : pl.length ≤ 65535)
    (h : getPosId pl p = none) :
    handleUserPos pl p .allow = ok (pl ++ [p], pl.length) := by
  have a : ¬ pl.length > 65535 := by omega
  have b : pl.length % 65536 = pl.length := by omega
  simp [handleUserPos, registerPos, h, hlen, a, b]

/-- `pos_handled`, absent POS with `userPOS: forbid` (or no `userPOS`): an error value. -/
theorem pos_handled_forbid (pl : List Pos) (p : Pos) (h : getPosId pl p = none) :
    handleUserPos pl p .forbid = err .pos := by
  simp [handleUserPos, h]

/-- "absent" means what it says: no entry of the list equals the POS (for 6-component lists) -/
theorem pos_absent_iff (pl : List Pos) (p : Pos) (hlen : p.length = 6) (hwf : ∀ q ∈ pl, q.length = 6)
    (hsz : pl.length ≤ 65536) : getPosId pl p = none ↔ p ∉ pl := by
  constructor
  · intro h hmem
    have := getPosId_none h hlen p hmem
    rw [(posMatch_iff_eq p p rfl).mpr rfl] at this
    cases this
  · intro h
    cases hg : getPosId pl p with
    | none => rfl
    | some id =>
      obtain ⟨_, hlt, hm, _⟩ := getPosId_some hg hsz
      have := (posMatch_iff_eq p pl[id] (by rw [hlen, hwf _ (List.getElem_mem hlt)])).mp hm
      exact absurd (this ▸ List.getElem_mem hlt) h

/-! ## clause 4: inhibited pairs -/

/-- `inhibit_checked`, full statement, true for the repaired `set_up` (D16): a load that succeeds
has every pair inside the matrix, and the matrix afterwards differs from the dictionary's exactly in
the cells `(l, r)` of the pairs, which hold `i16::MAX`; dimensions are unchanged. -/
theorem inhibit_checked (v : Variant) (hv : v.inhChecked = true) (cdef : List (List Char)) (g : Grammar)
    (cfg : Cfg) (ld : Loaded) (hnl : g.conn.nl ≤ 65535) (hnr : g.conn.nr ≤ 65535) (hwf : g.conn.WF)
    (h : load v cdef g cfg = ok ld) :
    (∀ ps ∈ cfg.inh, ∀ p ∈ ps, 0 ≤ p.1 ∧ p.1 < g.conn.nl ∧ 0 ≤ p.2 ∧ p.2 < g.conn.nr) ∧
    ld.g.conn.nl = g.conn.nl ∧ ld.g.conn.nr = g.conn.nr ∧
    ∀ l r, l < g.conn.nl → r < g.conn.nr →
      ld.g.conn.cell l r = if ((l : Int), (r : Int)) ∈ cfg.inh.flatten then some INHIBITED else g.conn.cell l r := by
  have f := load_facts hnl hnr h
  obtain ⟨hp, hc⟩ := f.checked hv hwf
  refine ⟨hp, f.nl_eq, f.nr_eq, ?_⟩
  intro l r hl hr
  unfold Matrix.cell
  rw [hc, f.nl_eq]
  apply inhSpec_cell (nr := g.conn.nr) _ _ hwf _ hl hr
  intro p hpm
  obtain ⟨ps, hps, hpp⟩ := List.mem_flatten.mp hpm
  exact hp ps hps p hpp

/-- D16 on the unchanged tree: `set_up` accepts every pair of `i16`s … -/
theorem inhibit_checked_counterexample_accepts (v : Variant) (hv : v.inhChecked = false) (g : Grammar)
    (pairs : List (Int × Int)) (hfit : ∀ p ∈ pairs, fitsI16 p.1 = true ∧ fitsI16 p.2 = true) :
    inhSetUp v g pairs = ok pairs := by
  have : pairs.all (fun p => fitsI16 p.1 && fitsI16 p.2) = true := by
    rw [List.all_eq_true]; intro p hp; simp [hfit p hp]
  simp [inhSetUp, this, hv]

/-- … and for every `n × n` matrix the pair `[n, 0]` then panics while the dictionary is loaded in a
debug build, and in a release build silently overwrites cell `(0, 1)` instead (`n ≥ 2`). -/
theorem inhibit_checked_counterexample (n : Nat) (hn : 2 ≤ n) (hn2 : n ≤ 65535) (cells : List Int)
    (hlen : cells.length = n * n) :
    inhEdit true ⟨n, n, cells⟩ [((n : Int), 0)] = crash ∧
    inhEdit false ⟨n, n, cells⟩ [((n : Int), 0)] = ok ⟨n, n, cells.set (1 * n + 0) INHIBITED⟩ := by
  have e : asU16 (n : Int) = n := by rw [asU16_toNat (by omega) (by omega)]; simp
  have e0 : asU16 0 = 0 := by decide
  have hlt : n < cells.length := by
    have : n * 2 ≤ n * n := Nat.mul_le_mul_left n hn
    omega
  constructor
  · simp [inhEdit, setConnectCost, Matrix.update, Matrix.index, e]
  · simp [inhEdit, setConnectCost, Matrix.update, Matrix.index, e, e0, hlt]

/-! ## "otherwise loading returns an error value - it neither panics nor silently edits" -/

/-- Full statement, true with the repaired `set_up` of the inhibit plugin (D16): for every
configuration and every dictionary the load returns a dictionary or an error value — never a panic,
never undefined behaviour. -/
theorem load_never_panics (v : Variant) (hv : v.inhChecked = true) (cdef : List (List Char)) (g : Grammar)
    (cfg : Cfg) (hnl : g.conn.nl ≤ 65535) (hnr : g.conn.nr ≤ 65535) (hwf : g.conn.WF) :
    (∃ ld, load v cdef g cfg = ok ld) ∨ (∃ k, load v cdef g cfg = err k) := by
  have := load_safe hv cdef g cfg hnl hnr hwf
  cases hl : load v cdef g cfg with
  | ok ld => exact Or.inl ⟨ld, rfl⟩
  | err k => exact Or.inr ⟨k, rfl⟩
  | crash => rw [hl] at this; cases this
  | ub => rw [hl] at this; cases this

/-- D16 at the level of the whole load, unchanged tree, debug build: a 2 × 2 dictionary, a valid
Simple provider and `inhibitPair: [[2, 0]]` — `from_cfg_storage` panics. -/
theorem load_never_panics_counterexample :
    load (cur true) [] ⟨[[['a'], ['b'], ['c'], ['d'], ['e'], ['f']]], ⟨2, 2, [1, 2, 3, 4]⟩⟩
      ⟨[[(2, 0)]], [.simple [['a'], ['b'], ['c'], ['d'], ['e'], ['f']] 1 1 0 .forbid], []⟩ = crash := by
  rfl

/-- All requirements on connection ids and costs at once, for a whole configuration (square
matrix, all three repairs): a successful load implies that every id a provider can attach to a node
indexes the matrix, every such cost fits `i16`, and every inhibited pair lies inside the matrix. -/
theorem load_succeeds_only_if (v : Variant) (hv1 : v.jsonGe = true) (hv2 : v.unkGe = true)
    (hv3 : v.inhChecked = true) (cdef : List (List Char)) (g : Grammar) (cfg : Cfg) (ld : Loaded) (n : Nat)
    (hnl : g.conn.nl = n) (hnr : g.conn.nr = n) (hn2 : n ≤ 65535) (hwf : g.conn.WF)
    (h : load v cdef g cfg = ok ld) :
    ld.provs ≠ [] ∧
    (∀ p ∈ ld.provs, ∀ e ∈ provNodes p, e.l < n ∧ e.r < n ∧ -32768 ≤ e.c ∧ e.c ≤ 32767) ∧
    (∀ ps ∈ cfg.inh, ∀ p ∈ ps, 0 ≤ p.1 ∧ p.1 < n ∧ 0 ≤ p.2 ∧ p.2 < n) := by
  have f := load_facts (by omega) (by omega) h
  refine ⟨f.provs_ne, ?_, ?_⟩
  · intro p hp e he
    have := provNodes_ok (m := g.conn) (by omega) (by omega) (f.provs_ok p hp) e he
    cases p <;> simp only [hv1, hv2, IdOk, if_true] at this <;> omega
  · intro ps hps p hp
    have := (f.checked hv3 hwf).1 ps hps p hp
    unfold PairOk at this
    omega

/-! ## consequence: analysis never indexes outside the matrix -/

/-- `no_oob_in_analysis`, full statement for square matrices, true with the repairs of D15a and
D15b: after a successful load, building the lattice over ANY candidates whose connection ids come
from validated lexicon entries (`< n`, C06) or from the loaded providers never trips a bounds
assertion and never reads outside the matrix (`ok`, not `crash`/`ub`), in debug and release builds. -/
theorem no_oob_in_analysis (v : Variant) (hv1 : v.jsonGe = true) (hv2 : v.unkGe = true)
    (cdef : List (List Char)) (g : Grammar) (cfg : Cfg) (ld : Loaded) (n : Nat)
    (hnl : g.conn.nl = n) (hnr : g.conn.nr = n) (hn : 0 < n) (hn2 : n ≤ 65535) (hwf : g.conn.WF)
    (h : load v cdef g cfg = ok ld) (len : Nat) (nodes : List LNode)
    (hnodes : ∀ nd ∈ nodes, nd.b ≤ len ∧ nd.e ≤ len ∧
      ((nd.left < n ∧ nd.right < n) ∨ ∃ p ∈ ld.provs, ∃ e ∈ provNodes p, nd.left = e.l ∧ nd.right = e.r))
    (dbg : Bool) :
    ∃ c, buildLattice dbg ld.g.conn len nodes (bosEnds len) = ok c := by
  have f := load_facts (by omega) (by omega) h
  have hwf' : ld.g.conn.WF := by unfold Matrix.WF at hwf ⊢; rw [f.len_eq, f.nl_eq, f.nr_eq, hwf]
  have hb := bosEnds_ok (m := ld.g.conn) (by rw [f.nl_eq]; omega) len
  apply buildLattice_ok dbg hwf' (by rw [f.nr_eq]; omega) len nodes _ hb.1 hb.2
  intro nd hnd
  obtain ⟨h1, h2, h3⟩ := hnodes nd hnd
  have key : nd.left < n ∧ nd.right < n := by
    rcases h3 with h3 | ⟨p, hp, e, he, hl, hr⟩
    · exact h3
    · have := provNodes_ok (m := g.conn) (by omega) (by omega) (f.provs_ok p hp) e he
      cases p <;> simp only [hv1, hv2, IdOk, if_true] at this <;> omega
  refine ⟨?_, ?_, h1, h2⟩
  · rw [f.nr_eq]; omega
  · rw [f.nl_eq]; omega

/-- The same for the code as it stands, with the extra hypothesis the property text makes
("plugin ids strictly below the dimension"): no provider id equals the dimension. -/
theorem no_oob_in_analysis_partial (v : Variant)
    (cdef : List (List Char)) (g : Grammar) (cfg : Cfg) (ld : Loaded) (n : Nat)
    (hnl : g.conn.nl = n) (hnr : g.conn.nr = n) (hn : 0 < n) (hn2 : n ≤ 65535) (hwf : g.conn.WF)
    (h : load v cdef g cfg = ok ld)
    (hne : ∀ p ∈ ld.provs, ∀ e ∈ provNodes p, e.l ≠ n ∧ e.r ≠ n)
    (len : Nat) (nodes : List LNode)
    (hnodes : ∀ nd ∈ nodes, nd.b ≤ len ∧ nd.e ≤ len ∧
      ((nd.left < n ∧ nd.right < n) ∨ ∃ p ∈ ld.provs, ∃ e ∈ provNodes p, nd.left = e.l ∧ nd.right = e.r))
    (dbg : Bool) :
    ∃ c, buildLattice dbg ld.g.conn len nodes (bosEnds len) = ok c := by
  have f := load_facts (by omega) (by omega) h
  have hwf' : ld.g.conn.WF := by unfold Matrix.WF at hwf ⊢; rw [f.len_eq, f.nl_eq, f.nr_eq, hwf]
  have hb := bosEnds_ok (m := ld.g.conn) (by rw [f.nl_eq]; omega) len
  apply buildLattice_ok dbg hwf' (by rw [f.nr_eq]; omega) len nodes _ hb.1 hb.2
  intro nd hnd
  obtain ⟨h1, h2, h3⟩ := hnodes nd hnd
  have key : nd.left < n ∧ nd.right < n := by
    rcases h3 with h3 | ⟨p, hp, e, he, hl, hr⟩
    · exact h3
    · have := provNodes_ok (m := g.conn) (by omega) (by omega) (f.provs_ok p hp) e he
      have hx := hne p hp e he
      cases p <;> simp only [IdOk] at this <;>
        (obtain ⟨t1, t2, _⟩ := this; split at t1 <;> split at t2 <;> omega)
  refine ⟨?_, ?_, h1, h2⟩
  · rw [f.nr_eq]; omega
  · rw [f.nl_eq]; omega

/-- D15a consequence: on the unchanged tree a Simple provider with `leftId = 3` on a 3 × 3 matrix is
accepted, and the first node it contributes makes the lattice trip the bounds assertion (debug) /
read outside the matrix (release). -/
theorem no_oob_in_analysis_counterexample :
    checkLeftId (cur true) ⟨3, 3, List.replicate 9 0⟩ 3 = ok 3 ∧
    buildLattice true ⟨3, 3, List.replicate 9 0⟩ 1 [⟨0, 1, 3, 0⟩] (bosEnds 1) = crash ∧
    buildLattice false ⟨3, 3, List.replicate 9 0⟩ 1 [⟨0, 1, 3, 0⟩] (bosEnds 1) = ub := by
  refine ⟨by decide, by decide, by decide⟩

/-- D17: on a non-square matrix even the repaired checks validate a left id against the wrong
dimension: `leftId = 3` passes on a 4 × 2 matrix (`3 < num_left = 4`) but a node's left id is the
`right` argument of `ConnectionMatrix::cost`, bounded by `num_right = 2`. -/
theorem nonsquare_counterexample :
    checkLeftId (repaired true) ⟨4, 2, List.replicate 8 0⟩ 3 = ok 3 ∧
    buildLattice true ⟨4, 2, List.replicate 8 0⟩ 1 [⟨0, 1, 3, 0⟩] (bosEnds 1) = crash := by
  refine ⟨by decide, by decide⟩


/-! # Depth round: signedness, non-square matrices, every other parameter, user dictionaries -/

/-! ## signedness (ids are `i64` in JSON, `i16` in unk.def / inhibit pairs / lexicon, `u16`/`usize` at the matrix) -/

/-- A negative id is rejected by every check, for every variant and every matrix: the JSON check tests
`x < 0` first, the unk.def test casts the `i16` through `as usize` (a negative value becomes ≥ 2^64 − 32768,
far above any dimension), the inhibit test has an explicit `< 0`. -/
theorem negative_ids_rejected (ge : Bool) (n : Nat) (hn : n < 9223372036854775808) (x : Int) (hx : x < 0) :
    checkId ge n x = err .dataFormat ∧
    (-32768 ≤ x → unkIdBad ge n x = true) ∧
    (∀ (m : Matrix) (y : Int), pairInRange m (x, y) = false ∧ pairInRange m (y, x) = false) := by
  refine ⟨by simp [checkId, hx], ?_, ?_⟩
  · intro h
    have := asUsize_neg hx h
    cases ge <;> simp [unkIdBad] <;> omega
  · intro m y
    simp [pairInRange, hx]

/-- The signed comparison of seeded change C20b (`oov.left_id >= num_left as i16`) accepts EVERY negative
id for every dimension up to `i16::MAX`, and the node then carries `x as u16 ≥ 32768`; the comparison in
the tree rejects it. -/
theorem unk_signed_compare_counterexample (n : Nat) (hn : n ≤ 32767) (x : Int) (hx : x < 0) (hx' : -32768 ≤ x) :
    unkIdBadSigned n x = false ∧ 32768 ≤ asU16 x ∧ unkIdBad true n x = true := by
  have e : asI16 (n : Int) = n := asI16_of_fits (by omega) (by omega)
  refine ⟨?_, ?_, ?_⟩
  · simp [unkIdBadSigned, e]; omega
  · unfold asU16; omega
  · exact (negative_ids_rejected true n (by omega) x hx).2.1 hx'

/-- Per provider, any matrix shape, repaired comparisons: every id a loaded provider attaches to a
node is `<` the dimension it was CHECKED against (left id: `num_left`, right id: `num_right`), and the
cost fits `i16`. -/
theorem provider_ids_in_range (v : Variant) (hv1 : v.jsonGe = true) (hv2 : v.unkGe = true)
    (cdef : List (List Char)) (g : Grammar) (cfg : Cfg) (ld : Loaded)
    (hnl : g.conn.nl ≤ 65535) (hnr : g.conn.nr ≤ 65535) (h : load v cdef g cfg = ok ld) :
    ∀ p ∈ ld.provs, ∀ e ∈ provNodes p, e.l < g.conn.nl ∧ e.r < g.conn.nr ∧ -32768 ≤ e.c ∧ e.c ≤ 32767 := by
  have f := load_facts hnl hnr h
  intro p hp e he
  have := provNodes_ok (m := g.conn) hnl hnr (f.provs_ok p hp) e he
  cases p <;> simp only [hv1, hv2, IdOk, if_true] at this <;> exact this

/-! ## non-square matrices (D17): which dimension bounds which id -/

/-- `ConnectionMatrix::cost(left, right)`: in a debug build the call returns iff `left < num_left` and
`right < num_right`; in a release build the read is inside the buffer iff `right * num_left + left <
num_left * num_right` (so a wrong `left` can silently alias another cell). -/
theorem matrix_cost_bounds (m : Matrix) (hwf : m.WF) (a b : Nat) :
    ((∃ c, m.cost true a b = ok c) ↔ a < m.nl ∧ b < m.nr) ∧
    (m.cost false a b = ub ↔ ¬ (b * m.nl + a < m.nl * m.nr)) := by
  unfold Matrix.WF at hwf
  constructor
  · constructor
    · intro ⟨c, h⟩
      unfold Matrix.cost Matrix.index at h
      by_cases h1 : a < m.nl <;> by_cases h2 : b < m.nr <;> simp [h1, h2] at h ⊢
    · intro ⟨h1, h2⟩
      exact Matrix.cost_ok true hwf h1 h2
  · unfold Matrix.cost Matrix.index
    simp only [Bool.false_and, Bool.false_eq_true, if_false]
    by_cases h : b * m.nl + a < m.cells.length
    · rw [List.getElem?_eq_getElem h]; simp; omega
    · rw [List.getElem?_eq_none (by omega)]; simp; omega

/-- The lattice calls `cost(l_node.right_id, r_node.left_id)`: a node's LEFT id is bounded by
`num_right` and its RIGHT id by `num_left`.  For ANY matrix shape, candidates that satisfy these
bounds never trip an assertion and never read outside the matrix. -/
theorem no_oob_in_analysis_nonsquare (m : Matrix) (hwf : m.WF) (hnl : 0 < m.nl) (hnr : 0 < m.nr)
    (len : Nat) (nodes : List LNode)
    (hnodes : ∀ nd ∈ nodes, nd.b ≤ len ∧ nd.e ≤ len ∧ nd.left < m.nr ∧ nd.right < m.nl) (dbg : Bool) :
    ∃ c, buildLattice dbg m len nodes (bosEnds len) = ok c := by
  have hb := bosEnds_ok (m := m) hnl len
  apply buildLattice_ok dbg hwf hnr len nodes _ hb.1 hb.2
  intro nd hnd
  obtain ⟨h1, h2, h3, h4⟩ := hnodes nd hnd
  exact ⟨h3, h4, h1, h2⟩

/-- D17 for every shape with fewer columns than rows: `leftId = num_right` passes even the repaired
check (it is compared with `num_left`), and the first node that carries it trips the assertion. -/
theorem nonsquare_counterexample_general (nl nr : Nat) (h : nr < nl) (hnl : nl ≤ 65535) (hnr : 0 < nr) (cells : List Int)
    (hlen : cells.length = nl * nr) :
    checkLeftId (repaired true) ⟨nl, nr, cells⟩ nr = ok nr ∧
    buildLattice true ⟨nl, nr, cells⟩ 1 [⟨0, 1, nr, 0⟩] (bosEnds 1) = crash := by
  have e : asU16 (nr : Int) = nr := by rw [asU16_toNat (by omega) (by omega)]; simp
  constructor
  · have hc := checkId_of (ge := true) (n := nl) (x := (nr : Int)) (by omega) (by simp; omega)
    rw [e] at hc
    simpa [checkLeftId, repaired] using hc
  · have hnl0 : 0 < nl := by omega
    simp [buildLattice, bosEnds, connectNode, Matrix.cost, Matrix.index, hnl0]

/-- The repair that was examined: compare `leftId` with `num_right` and `rightId` with `num_left`
(the dimensions the ids are USED on).  In the model it makes the consequence clause true for every
shape — but the same swap would be needed in `read_oov`, in the builder's `validate_entries` and in
the matrix header semantics, so it is not a small safe change and D17 stays a finding. -/
theorem swapped_checks_sound (m : Matrix) (hnl : m.nl ≤ 65535) (hnr : m.nr ≤ 65535) (l r : Int) (l' r' : Nat)
    (hl : checkId true m.nr l = ok l') (hr : checkId true m.nl r = ok r') (b e len : Nat) (hb : b ≤ len) (he : e ≤ len) :
    NodeOk m len ⟨b, e, l', r'⟩ := by
  have a := (checkId_IdOk hl hnr).1
  have c := (checkId_IdOk hr hnl).1
  simp only [IdOk, if_true] at a c
  exact ⟨a, c, hb, he⟩

/-! ## the settings as `serde_json` delivers them: ill-typed or out-of-range values are load errors -/

/-- Every successful load of a raw configuration went through a successful load of the TYPED
configuration obtained by deserialising every provider's settings (so all theorems above apply to
it), every input-text plugin was accepted, and — in particular — no provider had an ill-typed
field: `leftId`/`rightId`/`cost` are JSON integers inside `i64`, `oovPOS` a list of strings,
`userPOS` ∈ {allow, forbid} or absent, `maxLength` an integer in `0 … 2^64−1` or absent,
`boundaries` ∈ {strict, relaxed} or absent. -/
theorem raw_load_is_typed_load (v : Variant) (v2 : Variant2) (ym : Nat) (cdef : List (List Char)) (np : Pos)
    (g : Grammar) (cfg : RCfg) (ld : LoadedR) (h : loadR v v2 ym cdef np g cfg = ok ld) :
    (∀ r ∈ cfg.oov, ∃ c, deserOov r = some c) ∧
    ∃ cx, deserAll cfg.oov = some cx ∧
      load v cdef g ⟨cfg.inh, cx.map (·.1), cfg.users.map (·.pos)⟩ = ok ⟨ld.g, ld.provs.map (·.1)⟩ := by
  obtain ⟨cx, h1, _, h3, _, _⟩ := loadR_typed h
  exact ⟨deserAll_mem h1, cx, h1, h3⟩

/-- Ill-typed values of the numeric parameters are rejected: a provider whose `leftId` (or any other
integer field) is a float, a string, `null`, a boolean, an array, missing, or an integer outside `i64`
never loads. -/
theorem ill_typed_rejected (pos l r c mode : JF) (hl : ∀ x : Int, l = .int x → ¬ (I64MIN ≤ x ∧ x ≤ I64MAX)) :
    deserOov (.simple pos l r c mode) = none ∧ deserOov (.simple pos r l c mode) = none ∧
    deserOov (.simple pos r c l mode) = none ∧
    ∀ ml b, deserOov (.regex pos l r c mode ml b) = none := by
  have e : deI64 l = none := by
    cases l <;> simp [deI64]
    rename_i x
    exact fun h1 => Int.not_le.mp (fun h2 => hl x rfl ⟨h1, h2⟩)
  refine ⟨?_, ?_, ?_, ?_⟩
  · simp only [deserOov, e]; split <;> simp_all
  · simp only [deserOov, e]; split <;> simp_all
  · simp only [deserOov, e]; split <;> simp_all
  · intro ml b; simp only [deserOov, e]; split <;> simp_all

/-- With the repaired inhibit `set_up` the raw load — all four plugin kinds and the user
dictionaries — returns a dictionary or an error value for EVERY configuration, whatever the shapes
of its values: never a panic, never undefined behaviour. -/
theorem raw_load_never_panics (v : Variant) (hv : v.inhChecked = true) (v2 : Variant2) (ym : Nat)
    (cdef : List (List Char)) (np : Pos) (g : Grammar) (cfg : RCfg)
    (hnl : g.conn.nl ≤ 65535) (hnr : g.conn.nr ≤ 65535) (hwf : g.conn.WF) :
    (∃ ld, loadR v v2 ym cdef np g cfg = ok ld) ∨ (∃ k, loadR v v2 ym cdef np g cfg = err k) := by
  have := loadR_safe hv v2 ym cdef np g cfg hnl hnr hwf
  cases hl : loadR v v2 ym cdef np g cfg with
  | ok ld => exact Or.inl ⟨ld, rfl⟩
  | err k => exact Or.inr ⟨k, rfl⟩
  | crash => rw [hl] at this; cases this
  | ub => rw [hl] at this; cases this

/-! ## `maxLength` of the regex provider: accepted, then added to an offset -/

/-- Full statement, true for the repair `offset.saturating_add(self.max_length)`: for EVERY accepted
`maxLength` (any `usize`), every text and every offset inside it, `provide_oov` computes a slice
`offset..e` with `offset ≤ e ≤ len` — no overflow, no inverted slice, debug and release. -/
theorem regex_max_length_no_panic (dbg : Bool) (ml : JF) (n : Nat) (h : deUsizeD 32 ml = some n)
    (offset len : Nat) (ho : offset ≤ len) (hl : len < TWO64) :
    ∃ e, regexEnd true dbg n offset len = ok e ∧ offset ≤ e ∧ e ≤ len := by
  have _ := deUsizeD_lt (by decide) h
  obtain ⟨e, h1, h2, h3, _⟩ := regexEnd_sat dbg (maxLen := n) ho hl
  exact ⟨e, h1, h2, h3⟩

/-- What holds for the addition as it stands: no panic as long as `offset + maxLength` fits `usize`. -/
theorem regex_max_length_no_panic_partial (sat dbg : Bool) (n offset len : Nat) (ho : offset ≤ len)
    (hs : offset + n < TWO64) : ∃ e, regexEnd sat dbg n offset len = ok e ∧ offset ≤ e ∧ e ≤ len := by
  obtain ⟨e, h1, h2, h3, _⟩ := regexEnd_small sat dbg (maxLen := n) ho hs
  exact ⟨e, h1, h2, h3⟩

/-- F-MAXLEN: `maxLength = 2^64 − 1` is a well-typed `usize` and is accepted, and then `provide_oov`
panics at EVERY offset ≥ 1 of every text — in a debug build at the addition, in a release build at the
slice `offset..offset−1`. -/
theorem regex_max_length_counterexample (offset len : Nat) (h1 : 1 ≤ offset) (ho : offset ≤ len) (hl : len < TWO64) :
    deUsizeD 32 (.int 18446744073709551615) = some 18446744073709551615 ∧
    regexEnd false true 18446744073709551615 offset len = crash ∧
    regexEnd false false 18446744073709551615 offset len = crash := by
  refine ⟨by decide, ?_, ?_⟩
  · exact regexEnd_overflow true (by decide) ho hl (by unfold TWO64; omega)
  · exact regexEnd_overflow false (by decide) ho hl (by unfold TWO64; omega)

/-! ## `maxYomiganaLength`, brackets, prolonged sound marks, `minLength`, `oovPOS` of path-rewrite plugins -/

/-- IgnoreYomigana: accepted ⇒ both bracket lists are non-empty lists of single characters and
`1 ≤ maxYomiganaLength ≤` the bound of the regex compiler; `0`, negative, fractional, string values and
empty bracket lists are errors (`{1,0}` / an unclosed class are rejected by the regex crate). -/
theorem yomigana_params_checked (ym : Nat) (lb rb ml : JF) (h : setUpInput ym (.yomigana lb rb ml) = ok ()) :
    ∃ (l r : List (List Char)) (n : Nat), lb = .strs l ∧ rb = .strs r ∧ ml = .int n ∧
      l ≠ [] ∧ r ≠ [] ∧ (∀ s ∈ l, charCount s = 1) ∧ (∀ s ∈ r, charCount s = 1) ∧ 1 ≤ n ∧ n ≤ ym :=
  yomigana_ok h

/-- ProlongedSoundMark: accepted ⇒ a non-empty list of single characters and an absent / null / string
replacement. -/
theorem prolonged_params_checked (ym : Nat) (marks repl : JF) (h : setUpInput ym (.prolonged marks repl) = ok ()) :
    ∃ ms : List (List Char), marks = .strs ms ∧ ms ≠ [] ∧ (∀ s ∈ ms, charCount s = 1) ∧ deOptStr repl = true :=
  prolonged_ok h

/-- JoinKatakanaOov: accepted ⇒ `oovPOS` is a list of strings naming an EXISTING part of speech (it is
looked up, never registered: `userPOS` does not apply), the id is the first equal entry, and
`minLength` is a non-negative integer that fits `usize` (it is only compared, never added). -/
theorem katakana_params_checked (np : Pos) (pl : List Pos) (pos ml : JF) (id n : Nat)
    (h : setUpPath np pl (.katakana pos ml) = ok (id, n)) :
    ∃ p : Pos, pos = .strs p ∧ getPosId pl p = some id ∧ n < TWO64 ∧ ∃ x : Int, ml = .int x ∧ 0 ≤ x ∧ n = x.toNat :=
  katakana_ok h

/-- a POS list of the wrong arity is an error for every plugin that takes one (never a panic) -/
theorem wrong_arity_rejected (pl : List Pos) (p : Pos) (hp : p.length ≠ 6) (mode : Mode) (np : Pos) (ml : JF) (n : Nat)
    (hn : deUsize ml = some n) :
    handleUserPos pl p mode = err .pos ∧ setUpPath np pl (.katakana (.strs p) ml) = err .pos := by
  have e : getPosId pl p = none := by simp [getPosId, hp]
  refine ⟨?_, ?_⟩
  · cases mode <;> simp [handleUserPos, e, registerPos, hp]
  · simp [setUpPath, deStrs, hn, e]

/-! ## user dictionaries: are the ids of their words checked when the dictionary is LOADED? -/

/-- Full statement, true for the repaired `merge_user_dictionary` (variant `udic`): after a successful
load every indexed word of every user dictionary has `left_id < num_left` and `right_id < num_right` of
the SYSTEM matrix it is loaded with (whatever dictionary it was compiled against). -/
theorem user_dict_ids_checked (v : Variant) (v2 : Variant2) (hu : v2.udic = true) (ym : Nat) (cdef : List (List Char))
    (np : Pos) (g : Grammar) (cfg : RCfg) (ld : LoadedR) (h : loadR v v2 ym cdef np g cfg = ok ld)
    (hi16 : ∀ u ∈ cfg.users, ∀ w ∈ u.words, -32768 ≤ w.1 ∧ w.1 ≤ 32767 ∧ -32768 ≤ w.2 ∧ w.2 ≤ 32767) :
    ∀ lr ∈ userNodes cfg.users, lr.1 < ld.g.conn.nl ∧ lr.2 < ld.g.conn.nr := by
  obtain ⟨_, _, _, _, _, hud⟩ := loadR_typed h
  intro lr hlr
  simp only [userNodes, List.mem_map, List.mem_filter, List.mem_flatten] at hlr
  obtain ⟨w, ⟨⟨ws, ⟨u, hu', hws⟩, hw⟩, hw0⟩, hlr⟩ := hlr
  subst hws hlr
  obtain ⟨a, b, c, d⟩ := hi16 u hu' w hw
  exact udicBad_false (hud hu u hu' w hw) a b c d (by simpa using hw0)

/-- F-UDIC on the tree as it stands: a user dictionary whose word has ids `(5, 5)` — valid for the 6 × 6
dictionary it was compiled against — loads next to a 3 × 3 system dictionary, and the node of that word
makes the lattice trip the bounds assertion (debug) / read outside the matrix (release); the repaired
load rejects it. -/
theorem user_dict_ids_counterexample :
    let pos : Pos := [['a'], ['b'], ['c'], ['d'], ['e'], ['f']]
    let g : Grammar := ⟨[pos], ⟨3, 3, List.replicate 9 0⟩⟩
    let cfg : RCfg := ⟨[], [], [.simple (.strs pos) (.int 0) (.int 0) (.int 0) .absent], [], [⟨[], [(5, 5)]⟩]⟩
    (∃ ld, loadR (repaired true) ⟨true, false⟩ 25000 [] pos g cfg = ok ld) ∧
    loadR (repaired true) ⟨true, true⟩ 25000 [] pos g cfg = err .dataFormat ∧
    userNodes cfg.users = [(5, 5)] ∧
    buildLattice true g.conn 1 [⟨0, 1, 5, 5⟩] (bosEnds 1) = crash ∧
    buildLattice false g.conn 1 [⟨0, 1, 5, 5⟩] (bosEnds 1) = ub := by
  refine ⟨⟨_, rfl⟩, rfl, by decide, by decide, by decide⟩

/-- The consequence clause with user dictionaries in it (all repairs, square matrix): after a
successful raw load, the lattice over ANY candidates that come from validated system-lexicon entries,
from the loaded providers or from the indexed words of the loaded user dictionaries never indexes
outside the matrix. -/
theorem no_oob_in_analysis_with_user_words (v : Variant) (hv1 : v.jsonGe = true) (hv2 : v.unkGe = true)
    (v2 : Variant2) (hu : v2.udic = true) (ym : Nat) (cdef : List (List Char)) (np : Pos) (g : Grammar)
    (cfg : RCfg) (ld : LoadedR) (n : Nat) (hnl : g.conn.nl = n) (hnr : g.conn.nr = n) (hn : 0 < n) (hn2 : n ≤ 65535)
    (hwf : g.conn.WF) (h : loadR v v2 ym cdef np g cfg = ok ld)
    (hi16 : ∀ u ∈ cfg.users, ∀ w ∈ u.words, -32768 ≤ w.1 ∧ w.1 ≤ 32767 ∧ -32768 ≤ w.2 ∧ w.2 ≤ 32767)
    (len : Nat) (nodes : List LNode)
    (hnodes : ∀ nd ∈ nodes, nd.b ≤ len ∧ nd.e ≤ len ∧
      ((nd.left < n ∧ nd.right < n) ∨ (∃ p ∈ ld.provs, ∃ e ∈ provNodes p.1, nd.left = e.l ∧ nd.right = e.r) ∨
       (nd.left, nd.right) ∈ userNodes cfg.users))
    (dbg : Bool) :
    ∃ c, buildLattice dbg ld.g.conn len nodes (bosEnds len) = ok c := by
  obtain ⟨cx, _, _, hload, _, _⟩ := loadR_typed h
  have f := load_facts (by omega) (by omega) hload
  have hnl' : ld.g.conn.nl = n := by have := f.nl_eq; simp only at this; omega
  have hnr' : ld.g.conn.nr = n := by have := f.nr_eq; simp only at this; omega
  have hwf' : ld.g.conn.WF := by
    have := f.len_eq; simp only at this
    unfold Matrix.WF at hwf ⊢; rw [this, hnl', hnr', hwf, hnl, hnr]
  have hb := bosEnds_ok (m := ld.g.conn) (by omega) len
  apply buildLattice_ok dbg hwf' (by omega) len nodes _ hb.1 hb.2
  intro nd hnd
  obtain ⟨h1, h2, h3⟩ := hnodes nd hnd
  have key : nd.left < n ∧ nd.right < n := by
    rcases h3 with h3 | ⟨⟨p1, x1⟩, hp, e, he, hl, hr⟩ | h3
    · exact h3
    · have hp' : p1 ∈ ld.provs.map (·.1) := List.mem_map.mpr ⟨(p1, x1), hp, rfl⟩
      simp only at he
      have := provNodes_ok (m := g.conn) (by omega) (by omega) (f.provs_ok p1 hp') e he
      cases p1 <;> simp only [hv1, hv2, IdOk, if_true] at this <;> omega
    · have := user_dict_ids_checked v v2 hu ym cdef np g cfg ld h hi16 _ h3
      simp only at this
      omega
  exact ⟨by omega, by omega, h1, h2⟩

/-! ## non-vacuity of the hypotheses -/

/-- a 2 × 2 dictionary, one Simple provider and one inhibited pair: the load succeeds for the
repaired variant (so `inhibit_checked` / `no_oob_in_analysis` are not vacuous), the pair `(1, 0)`
is written to cell `(1, 0)` only. -/
example :
    let g : Grammar := ⟨[[['a'], ['b'], ['c'], ['d'], ['e'], ['f']]], ⟨2, 2, [1, 2, 3, 4]⟩⟩
    let cfg : Cfg := ⟨[[(1, 0)]], [.simple [['a'], ['b'], ['c'], ['d'], ['e'], ['f']] 1 1 (-7) .forbid], []⟩
    g.conn.WF ∧
    (∃ ld, load (repaired true) [] g cfg = ok ld ∧ ld.g.conn.cells = [1, 32767, 3, 4] ∧
      ld.provs.map provNodes = [[⟨1, 1, -7, 0⟩]]) := by
  refine ⟨by simp [Matrix.WF], _, rfl, by decide, by decide⟩

/-- the hypotheses of the POS theorems are satisfiable: absent under `allow` is appended -/
example : getPosId [[['a'], ['b'], ['c'], ['d'], ['e'], ['f']]] [['x'], ['b'], ['c'], ['d'], ['e'], ['f']] = none ∧
    getPosId [[['a'], ['b'], ['c'], ['d'], ['e'], ['f']]] [['a'], ['b'], ['c'], ['d'], ['e'], ['f']] = some 0 := by
  refine ⟨by decide, by decide⟩

/-- `accepted_in_range` is not vacuous: `2` is accepted on a 3 × 3 matrix by both comparisons -/
example : checkLeftId (repaired true) ⟨3, 3, []⟩ 2 = ok 2 ∧ checkLeftId (cur true) ⟨3, 3, []⟩ 2 = ok 2 ∧
    checkLeftId (repaired true) ⟨3, 3, []⟩ 3 = err .dataFormat := by
  refine ⟨by decide, by decide, by decide⟩


/-- the raw layer is not vacuous: a configuration with every bundled plugin kind and a fitting user
dictionary loads in the fully repaired variant; `maxLength = 2^64 − 1` is accepted, harmless at offset 0
and fatal at offset 1 only for the unrepaired addition -/
example :
    let pos : Pos := [['a'], ['b'], ['c'], ['d'], ['e'], ['f']]
    let g : Grammar := ⟨[pos], ⟨2, 2, [1, 2, 3, 4]⟩⟩
    let cfg : RCfg := ⟨[[(1, 0)]], [.prolonged (.strs [['-']]) .absent, .yomigana (.strs [['(']]) (.strs [[')']]) (.int 4)],
      [.regex (.strs pos) (.int 1) (.int 1) (.int (-7)) (.str "forbid".toList) (.int 18446744073709551615) (.str "relaxed".toList)],
      [.katakana (.strs pos) (.int 2), .numeric .null], [⟨[], [(1, 1), (-1, -1)]⟩]⟩
    (∃ ld, loadR (repaired true) ⟨true, true⟩ 25000 [] pos g cfg = ok ld ∧ ld.g.conn.cells = [1, 32767, 3, 4] ∧
      ld.provs.map (·.2) = [⟨18446744073709551615, true⟩]) ∧
    regexAsk false true ⟨18446744073709551615, true⟩ 0 6 = ok (some 1) ∧
    regexAsk false true ⟨18446744073709551615, true⟩ 1 6 = crash ∧
    regexAsk true true ⟨18446744073709551615, true⟩ 1 6 = ok (some 2) := by
  refine ⟨⟨_, rfl, by decide, by decide⟩, by decide, by decide, by decide⟩

/-- the hypotheses of the parameter theorems are satisfiable -/
example : setUpInput 25000 (.yomigana (.strs [['(']]) (.strs [[')']]) (.int 4)) = ok () ∧
    setUpInput 25000 (.yomigana (.strs [['(']]) (.strs [[')']]) (.int 0)) = err .plugin ∧
    setUpInput 25000 (.yomigana (.strs []) (.strs [[')']]) (.int 4)) = err .plugin ∧
    setUpInput 25000 (.yomigana (.strs [['(']]) (.strs [[')']]) (.int (-1))) = err .serde ∧
    setUpInput 25000 (.prolonged (.strs [['-']]) .null) = ok () ∧
    setUpInput 25000 (.prolonged (.strs [['a', 'b']]) .null) = err .serde ∧
    deUsizeD 32 .absent = some 32 ∧ deUsize .float = none := by
  refine ⟨by decide, by decide, by decide, by decide, by decide, by decide, by decide, by decide⟩

/-- `swapped_checks_sound` / `no_oob_in_analysis_nonsquare` are not vacuous: on a 4 × 2 matrix the swapped
check accepts left id 1 and rejects left id 3 -/
example : checkId true 2 1 = ok 1 ∧ checkId true 2 3 = err .dataFormat ∧ checkId true 4 3 = ok 3 := by
  refine ⟨by decide, by decide, by decide⟩

end C20
