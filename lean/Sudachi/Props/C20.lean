import Sudachi.Proofs.Params
/-!
# C20 — Out-of-range plugin parameters are rejected when the dictionary is loaded

Model: `Model/Params.lean` (check_params.rs, user_pos.rs, grammar.rs, connect.rs, the three OOV
providers' `set_up`, inhibit_connection.rs, `from_cfg_storage`, the matrix reads of lattice.rs).
The code variants are selected by `Params.Variant`; `Params.cur` is the unchanged tree,
`jsonGe` / `unkGe` / `inhChecked` are the repairs of D15a / D15b / D16.  The matrix dimensions are
at most 32767 in every dictionary (the header stores them as `i16`); the theorems only need
`≤ 65535`.
-/
namespace C20
open Params Params.Outcome

/-! ## clause 1: every accepted connection id indexes the matrix -/

/-- Full statement (`accepted_in_range`), true for the repaired comparison `>=`: a JSON `leftId` /
`rightId` is accepted only if it indexes the dimension it is checked against, and the stored `u16`
is the given value. -/
theorem accepted_in_range (v : Variant) (hv : v.jsonGe = true) (m : Matrix)
    (hnl : m.nl ≤ 65535) (hnr : m.nr ≤ 65535) (x : Int) (w : Nat) :
    (checkLeftId v m x = ok w → (w : Int) = x ∧ 0 ≤ x ∧ x < m.nl) ∧
    (checkRightId v m x = ok w → (w : Int) = x ∧ 0 ≤ x ∧ x < m.nr) := by
  constructor
  · intro h
    have a := checkId_IdOk h hnl
    have b := checkId_ok h
    simp only [hv, IdOk, if_true] at a b
    omega
  · intro h
    have a := checkId_IdOk h hnr
    have b := checkId_ok h
    simp only [hv, IdOk, if_true] at a b
    omega

/-- What holds for the code as it stands (any variant): the accepted value is stored unchanged and
is at most the dimension — `x = n` is not excluded (D15a). -/
theorem accepted_in_range_partial (v : Variant) (m : Matrix)
    (hnl : m.nl ≤ 65535) (hnr : m.nr ≤ 65535) (x : Int) (w : Nat) :
    (checkLeftId v m x = ok w → (w : Int) = x ∧ 0 ≤ x ∧ x ≤ m.nl) ∧
    (checkRightId v m x = ok w → (w : Int) = x ∧ 0 ≤ x ∧ x ≤ m.nr) := by
  constructor
  · intro h
    have a := checkId_IdOk h hnl
    have b := checkId_ok h
    unfold IdOk at a
    cases hj : v.jsonGe <;> simp only [hj, if_true, Bool.false_eq_true, if_false] at a b <;> omega
  · intro h
    have a := checkId_IdOk h hnr
    have b := checkId_ok h
    unfold IdOk at a
    cases hj : v.jsonGe <;> simp only [hj, if_true, Bool.false_eq_true, if_false] at a b <;> omega

/-- D15a: on the unchanged comparison (`>`), for EVERY square matrix the first invalid value — the
dimension itself — is accepted as left id and as right id, although it indexes no row or column. -/
theorem accepted_in_range_counterexample (v : Variant) (hv : v.jsonGe = false) (n : Nat) (hn : n ≤ 65535)
    (cells : List Int) :
    checkLeftId v ⟨n, n, cells⟩ n = ok n ∧ checkRightId v ⟨n, n, cells⟩ n = ok n ∧ ¬ (n < n) := by
  have e : asU16 (n : Int) = n := by rw [asU16_toNat (by omega) (by omega)]; simp
  have h := checkId_of (ge := false) (n := n) (x := (n : Int)) (by omega) (by simp)
  rw [e] at h
  simp [checkLeftId, checkRightId, hv, h]

/-- `unk.def` ids, full statement, true after the `>=` repair of D15b: every record the MeCab
provider stores has `0 ≤ left < num_left`, `0 ≤ right < num_right` (and an `i16` cost). -/
theorem unk_accepted_in_range (v : Variant) (hv : v.unkGe = true) (cats : List (Nat × Oov.CatInfo))
    (conn : Matrix) (hnl : conn.nl ≤ 65535) (hnr : conn.nr ≤ 65535) (mode : Mode)
    (lines : List (List Char)) (pl pl' : List Pos) (acc : List (Nat × List RawOov))
    (h : readOov v cats conn mode lines pl [] = ok (pl', acc)) :
    ∀ kv ∈ acc, ∀ d ∈ kv.2, 0 ≤ d.l ∧ d.l < conn.nl ∧ 0 ≤ d.r ∧ d.r < conn.nr ∧ -32768 ≤ d.c ∧ d.c ≤ 32767 := by
  intro kv hkv d hd
  have := readOov_ok (by omega) (by omega) lines h (by intro kv hkv; cases hkv) kv hkv d hd
  simp only [RawOk, IdOk, hv, if_true] at this
  omega

/-- `unk.def` ids on any variant: `≤` instead of `<` (D15b on the unchanged tree). -/
theorem unk_accepted_in_range_partial (v : Variant) (cats : List (Nat × Oov.CatInfo))
    (conn : Matrix) (hnl : conn.nl ≤ 65535) (hnr : conn.nr ≤ 65535) (mode : Mode)
    (lines : List (List Char)) (pl pl' : List Pos) (acc : List (Nat × List RawOov))
    (h : readOov v cats conn mode lines pl [] = ok (pl', acc)) :
    ∀ kv ∈ acc, ∀ d ∈ kv.2, 0 ≤ d.l ∧ d.l ≤ conn.nl ∧ 0 ≤ d.r ∧ d.r ≤ conn.nr ∧ -32768 ≤ d.c ∧ d.c ≤ 32767 := by
  intro kv hkv d hd
  have := readOov_ok (by omega) (by omega) lines h (by intro kv hkv; cases hkv) kv hkv d hd
  simp only [RawOk, IdOk] at this
  cases hj : v.unkGe <;> simp only [hj, if_true, Bool.false_eq_true, if_false] at this <;> omega

/-- D15b: the range test of the unchanged reader lets the dimension itself through, for every
dimension. -/
theorem unk_accepted_in_range_counterexample (n : Nat) (hn : n < 9223372036854775808) :
    unkIdBad false n (n : Int) = false ∧ unkIdBad true n (n : Int) = true := by
  have e : asUsize (n : Int) = n := by rw [asUsize_nonneg (by omega) (by omega)]; simp
  simp [unkIdBad, e]

/-! ## clause 2: every cost fits the dictionary's cost type -/

/-- `cost_fits`: a JSON cost is accepted only inside `i16`, and is stored unchanged. -/
theorem cost_fits (x c : Int) (h : checkCost x = ok c) : c = x ∧ -32768 ≤ x ∧ x ≤ 32767 :=
  checkCost_ok h

/-- and conversely every `i16` value is accepted (the check rejects nothing it should not) -/
theorem cost_fits_complete (x : Int) (h1 : -32768 ≤ x) (h2 : x ≤ 32767) : checkCost x = ok x := by
  have a : ¬ x < -32768 := by omega
  have b : ¬ x > 32767 := by omega
  simp [checkCost, a, b, asI16_of_fits h1 h2]

/-! ## clause 3: every POS exists or user-defined POS are allowed -/

/-- `pos_handled`, existing POS: the id of the first equal entry is returned and the list is unchanged. -/
theorem pos_handled_exists (pl : List Pos) (p : Pos) (mode : Mode) (id : Nat)
    (hsz : pl.length ≤ 65536) (hwf : ∀ q ∈ pl, q.length = 6) (h : getPosId pl p = some id) :
    handleUserPos pl p mode = ok (pl, id) ∧ ∃ (hlt : id < pl.length), pl[id] = p := by
  obtain ⟨hlen, hlt, hm, _⟩ := getPosId_some h hsz
  refine ⟨by simp [handleUserPos, h], hlt, ?_⟩
  have := (posMatch_iff_eq p pl[id] (by rw [hlen, hwf _ (List.getElem_mem hlt)])).mp hm
  exact this.symm

/-- `pos_handled`, absent POS with `userPOS: allow`: appended at the end, its id is the old length. -/
theorem pos_handled_allow (pl : List Pos) (p : Pos) (hlen : p.length = 6) (hsz : pl.length ≤ 65535)
    (h : getPosId pl p = none) :
    handleUserPos pl p .allow = ok (pl ++ [p], pl.length) := by
  have a : ¬ pl.length > 65535 := by omega
  have b : pl.length % 65536 = pl.length := by omega
  simp [handleUserPos, registerPos, h, hlen, a, b]

/-- `pos_handled`, absent POS with `userPOS: forbid` (or no `userPOS`): an error value. -/
theorem pos_handled_forbid (pl : List Pos) (p : Pos) (h : getPosId pl p = none) :
    handleUserPos pl p .forbid = err .pos := by
  simp [handleUserPos, h]

/-- "absent" means what it says: no entry of the list equals the POS (for 6-component lists) -/
theorem pos_absent_iff (pl : List Pos) (p : Pos) (hlen : p.length = 6) (hwf : ∀ q ∈ pl, q.length = 6)
    (hsz : pl.length ≤ 65536) : getPosId pl p = none ↔ p ∉ pl := by
  constructor
  · intro h hmem
    have := getPosId_none h hlen p hmem
    rw [(posMatch_iff_eq p p rfl).mpr rfl] at this
    cases this
  · intro h
    cases hg : getPosId pl p with
    | none => rfl
    | some id =>
      obtain ⟨_, hlt, hm, _⟩ := getPosId_some hg hsz
      have := (posMatch_iff_eq p pl[id] (by rw [hlen, hwf _ (List.getElem_mem hlt)])).mp hm
      exact absurd (this ▸ List.getElem_mem hlt) h

/-! ## clause 4: inhibited pairs -/

/-- `inhibit_checked`, full statement, true for the repaired `set_up` (D16): a load that succeeds
has every pair inside the matrix, and the matrix afterwards differs from the dictionary's exactly in
the cells `(l, r)` of the pairs, which hold `i16::MAX`; dimensions are unchanged. -/
theorem inhibit_checked (v : Variant) (hv : v.inhChecked = true) (cdef : List (List Char)) (g : Grammar)
    (cfg : Cfg) (ld : Loaded) (hnl : g.conn.nl ≤ 65535) (hnr : g.conn.nr ≤ 65535) (hwf : g.conn.WF)
    (h : load v cdef g cfg = ok ld) :
    (∀ ps ∈ cfg.inh, ∀ p ∈ ps, 0 ≤ p.1 ∧ p.1 < g.conn.nl ∧ 0 ≤ p.2 ∧ p.2 < g.conn.nr) ∧
    ld.g.conn.nl = g.conn.nl ∧ ld.g.conn.nr = g.conn.nr ∧
    ∀ l r, l < g.conn.nl → r < g.conn.nr →
      ld.g.conn.cell l r = if ((l : Int), (r : Int)) ∈ cfg.inh.flatten then some INHIBITED else g.conn.cell l r := by
  have f := load_facts hnl hnr h
  obtain ⟨hp, hc⟩ := f.checked hv hwf
  refine ⟨hp, f.nl_eq, f.nr_eq, ?_⟩
  intro l r hl hr
  unfold Matrix.cell
  rw [hc, f.nl_eq]
  apply inhSpec_cell (nr := g.conn.nr) _ _ hwf _ hl hr
  intro p hpm
  obtain ⟨ps, hps, hpp⟩ := List.mem_flatten.mp hpm
  exact hp ps hps p hpp

/-- D16 on the unchanged tree: `set_up` accepts every pair of `i16`s … -/
theorem inhibit_checked_counterexample_accepts (v : Variant) (hv : v.inhChecked = false) (g : Grammar)
    (pairs : List (Int × Int)) (hfit : ∀ p ∈ pairs, fitsI16 p.1 = true ∧ fitsI16 p.2 = true) :
    inhSetUp v g pairs = ok pairs := by
  have : pairs.all (fun p => fitsI16 p.1 && fitsI16 p.2) = true := by
    rw [List.all_eq_true]; intro p hp; simp [hfit p hp]
  simp [inhSetUp, this, hv]

/-- … and for every `n × n` matrix the pair `[n, 0]` then panics while the dictionary is loaded in a
debug build, and in a release build silently overwrites cell `(0, 1)` instead (`n ≥ 2`). -/
theorem inhibit_checked_counterexample (n : Nat) (hn : 2 ≤ n) (hn2 : n ≤ 65535) (cells : List Int)
    (hlen : cells.length = n * n) :
    inhEdit true ⟨n, n, cells⟩ [((n : Int), 0)] = crash ∧
    inhEdit false ⟨n, n, cells⟩ [((n : Int), 0)] = ok ⟨n, n, cells.set (1 * n + 0) INHIBITED⟩ := by
  have e : asU16 (n : Int) = n := by rw [asU16_toNat (by omega) (by omega)]; simp
  have e0 : asU16 0 = 0 := by decide
  have hlt : n < cells.length := by
    have : n * 2 ≤ n * n := Nat.mul_le_mul_left n hn
    omega
  constructor
  · simp [inhEdit, setConnectCost, Matrix.update, Matrix.index, e]
  · simp [inhEdit, setConnectCost, Matrix.update, Matrix.index, e, e0, hlt]

/-! ## "otherwise loading returns an error value - it neither panics nor silently edits" -/

/-- Full statement, true with the repaired `set_up` of the inhibit plugin (D16): for every
configuration and every dictionary the load returns a dictionary or an error value — never a panic,
never undefined behaviour. -/
theorem load_never_panics (v : Variant) (hv : v.inhChecked = true) (cdef : List (List Char)) (g : Grammar)
    (cfg : Cfg) (hnl : g.conn.nl ≤ 65535) (hnr : g.conn.nr ≤ 65535) (hwf : g.conn.WF) :
    (∃ ld, load v cdef g cfg = ok ld) ∨ (∃ k, load v cdef g cfg = err k) := by
  have := load_safe hv cdef g cfg hnl hnr hwf
  cases hl : load v cdef g cfg with
  | ok ld => exact Or.inl ⟨ld, rfl⟩
  | err k => exact Or.inr ⟨k, rfl⟩
  | crash => rw [hl] at this; cases this
  | ub => rw [hl] at this; cases this

/-- D16 at the level of the whole load, unchanged tree, debug build: a 2 × 2 dictionary, a valid
Simple provider and `inhibitPair: [[2, 0]]` — `from_cfg_storage` panics. -/
theorem load_never_panics_counterexample :
    load (cur true) [] ⟨[[['a'], ['b'], ['c'], ['d'], ['e'], ['f']]], ⟨2, 2, [1, 2, 3, 4]⟩⟩
      ⟨[[(2, 0)]], [.simple [['a'], ['b'], ['c'], ['d'], ['e'], ['f']] 1 1 0 .forbid], []⟩ = crash := by
  rfl

/-- All requirements on connection ids and costs at once, for a whole configuration (square
matrix, all three repairs): a successful load implies that every id a provider can attach to a node
indexes the matrix, every such cost fits `i16`, and every inhibited pair lies inside the matrix. -/
theorem load_succeeds_only_if (v : Variant) (hv1 : v.jsonGe = true) (hv2 : v.unkGe = true)
    (hv3 : v.inhChecked = true) (cdef : List (List Char)) (g : Grammar) (cfg : Cfg) (ld : Loaded) (n : Nat)
    (hnl : g.conn.nl = n) (hnr : g.conn.nr = n) (hn2 : n ≤ 65535) (hwf : g.conn.WF)
    (h : load v cdef g cfg = ok ld) :
    ld.provs ≠ [] ∧
    (∀ p ∈ ld.provs, ∀ e ∈ provNodes p, e.l < n ∧ e.r < n ∧ -32768 ≤ e.c ∧ e.c ≤ 32767) ∧
    (∀ ps ∈ cfg.inh, ∀ p ∈ ps, 0 ≤ p.1 ∧ p.1 < n ∧ 0 ≤ p.2 ∧ p.2 < n) := by
  have f := load_facts (by omega) (by omega) h
  refine ⟨f.provs_ne, ?_, ?_⟩
  · intro p hp e he
    have := provNodes_ok (m := g.conn) (by omega) (by omega) (f.provs_ok p hp) e he
    cases p <;> simp only [hv1, hv2, IdOk, if_true] at this <;> omega
  · intro ps hps p hp
    have := (f.checked hv3 hwf).1 ps hps p hp
    unfold PairOk at this
    omega

/-! ## consequence: analysis never indexes outside the matrix -/

/-- `no_oob_in_analysis`, full statement for square matrices, true with the repairs of D15a and
D15b: after a successful load, building the lattice over ANY candidates whose connection ids come
from validated lexicon entries (`< n`, C06) or from the loaded providers never trips a bounds
assertion and never reads outside the matrix (`ok`, not `crash`/`ub`), in debug and release builds. -/
theorem no_oob_in_analysis (v : Variant) (hv1 : v.jsonGe = true) (hv2 : v.unkGe = true)
    (cdef : List (List Char)) (g : Grammar) (cfg : Cfg) (ld : Loaded) (n : Nat)
    (hnl : g.conn.nl = n) (hnr : g.conn.nr = n) (hn : 0 < n) (hn2 : n ≤ 65535) (hwf : g.conn.WF)
    (h : load v cdef g cfg = ok ld) (len : Nat) (nodes : List LNode)
    (hnodes : ∀ nd ∈ nodes, nd.b ≤ len ∧ nd.e ≤ len ∧
      ((nd.left < n ∧ nd.right < n) ∨ ∃ p ∈ ld.provs, ∃ e ∈ provNodes p, nd.left = e.l ∧ nd.right = e.r))
    (dbg : Bool) :
    ∃ c, buildLattice dbg ld.g.conn len nodes (bosEnds len) = ok c := by
  have f := load_facts (by omega) (by omega) h
  have hwf' : ld.g.conn.WF := by unfold Matrix.WF at hwf ⊢; rw [f.len_eq, f.nl_eq, f.nr_eq, hwf]
  have hb := bosEnds_ok (m := ld.g.conn) (by rw [f.nl_eq]; omega) len
  apply buildLattice_ok dbg hwf' (by rw [f.nr_eq]; omega) len nodes _ hb.1 hb.2
  intro nd hnd
  obtain ⟨h1, h2, h3⟩ := hnodes nd hnd
  have key : nd.left < n ∧ nd.right < n := by
    rcases h3 with h3 | ⟨p, hp, e, he, hl, hr⟩
    · exact h3
    · have := provNodes_ok (m := g.conn) (by omega) (by omega) (f.provs_ok p hp) e he
      cases p <;> simp only [hv1, hv2, IdOk, if_true] at this <;> omega
  refine ⟨?_, ?_, h1, h2⟩
  · rw [f.nr_eq]; omega
  · rw [f.nl_eq]; omega

/-- The same for the code as it stands, with the extra hypothesis the property text makes
("plugin ids strictly below the dimension"): no provider id equals the dimension. -/
theorem no_oob_in_analysis_partial (v : Variant)
    (cdef : List (List Char)) (g : Grammar) (cfg : Cfg) (ld : Loaded) (n : Nat)
    (hnl : g.conn.nl = n) (hnr : g.conn.nr = n) (hn : 0 < n) (hn2 : n ≤ 65535) (hwf : g.conn.WF)
    (h : load v cdef g cfg = ok ld)
    (hne : ∀ p ∈ ld.provs, ∀ e ∈ provNodes p, e.l ≠ n ∧ e.r ≠ n)
    (len : Nat) (nodes : List LNode)
    (hnodes : ∀ nd ∈ nodes, nd.b ≤ len ∧ nd.e ≤ len ∧
      ((nd.left < n ∧ nd.right < n) ∨ ∃ p ∈ ld.provs, ∃ e ∈ provNodes p, nd.left = e.l ∧ nd.right = e.r))
    (dbg : Bool) :
    ∃ c, buildLattice dbg ld.g.conn len nodes (bosEnds len) = ok c := by
  have f := load_facts (by omega) (by omega) h
  have hwf' : ld.g.conn.WF := by unfold Matrix.WF at hwf ⊢; rw [f.len_eq, f.nl_eq, f.nr_eq, hwf]
  have hb := bosEnds_ok (m := ld.g.conn) (by rw [f.nl_eq]; omega) len
  apply buildLattice_ok dbg hwf' (by rw [f.nr_eq]; omega) len nodes _ hb.1 hb.2
  intro nd hnd
  obtain ⟨h1, h2, h3⟩ := hnodes nd hnd
  have key : nd.left < n ∧ nd.right < n := by
    rcases h3 with h3 | ⟨p, hp, e, he, hl, hr⟩
    · exact h3
    · have := provNodes_ok (m := g.conn) (by omega) (by omega) (f.provs_ok p hp) e he
      have hx := hne p hp e he
      cases p <;> simp only [IdOk] at this <;>
        (obtain ⟨t1, t2, _⟩ := this; split at t1 <;> split at t2 <;> omega)
  refine ⟨?_, ?_, h1, h2⟩
  · rw [f.nr_eq]; omega
  · rw [f.nl_eq]; omega

/-- D15a consequence: on the unchanged tree a Simple provider with `leftId = 3` on a 3 × 3 matrix is
accepted, and the first node it contributes makes the lattice trip the bounds assertion (debug) /
read outside the matrix (release). -/
theorem no_oob_in_analysis_counterexample :
    checkLeftId (cur true) ⟨3, 3, List.replicate 9 0⟩ 3 = ok 3 ∧
    buildLattice true ⟨3, 3, List.replicate 9 0⟩ 1 [⟨0, 1, 3, 0⟩] (bosEnds 1) = crash ∧
    buildLattice false ⟨3, 3, List.replicate 9 0⟩ 1 [⟨0, 1, 3, 0⟩] (bosEnds 1) = ub := by
  refine ⟨by decide, by decide, by decide⟩

/-- D17: on a non-square matrix even the repaired checks validate a left id against the wrong
dimension: `leftId = 3` passes on a 4 × 2 matrix (`3 < num_left = 4`) but a node's left id is the
`right` argument of `ConnectionMatrix::cost`, bounded by `num_right = 2`. -/
theorem nonsquare_counterexample :
    checkLeftId (repaired true) ⟨4, 2, List.replicate 8 0⟩ 3 = ok 3 ∧
    buildLattice true ⟨4, 2, List.replicate 8 0⟩ 1 [⟨0, 1, 3, 0⟩] (bosEnds 1) = crash := by
  refine ⟨by decide, by decide⟩

/-! ## non-vacuity of the hypotheses -/

/-- a 2 × 2 dictionary, one Simple provider and one inhibited pair: the load succeeds for the
repaired variant (so `inhibit_checked` / `no_oob_in_analysis` are not vacuous), the pair `(1, 0)`
is written to cell `(1, 0)` only. -/
example :
    let g : Grammar := ⟨[[['a'], ['b'], ['c'], ['d'], ['e'], ['f']]], ⟨2, 2, [1, 2, 3, 4]⟩⟩
    let cfg : Cfg := ⟨[[(1, 0)]], [.simple [['a'], ['b'], ['c'], ['d'], ['e'], ['f']] 1 1 (-7) .forbid], []⟩
    g.conn.WF ∧
    (∃ ld, load (repaired true) [] g cfg = ok ld ∧ ld.g.conn.cells = [1, 32767, 3, 4] ∧
      ld.provs.map provNodes = [[⟨1, 1, -7, 0⟩]]) := by
  refine ⟨by simp [Matrix.WF], _, rfl, by decide, by decide⟩

/-- the hypotheses of the POS theorems are satisfiable: absent under `allow` is appended -/
example : getPosId [[['a'], ['b'], ['c'], ['d'], ['e'], ['f']]] [['x'], ['b'], ['c'], ['d'], ['e'], ['f']] = none ∧
    getPosId [[['a'], ['b'], ['c'], ['d'], ['e'], ['f']]] [['a'], ['b'], ['c'], ['d'], ['e'], ['f']] = some 0 := by
  refine ⟨by decide, by decide⟩

/-- `accepted_in_range` is not vacuous: `2` is accepted on a 3 × 3 matrix by both comparisons -/
example : checkLeftId (repaired true) ⟨3, 3, []⟩ 2 = ok 2 ∧ checkLeftId (cur true) ⟨3, 3, []⟩ 2 = ok 2 ∧
    checkLeftId (repaired true) ⟨3, 3, []⟩ 3 = err .dataFormat := by
  refine ⟨by decide, by decide, by decide⟩

end C20
