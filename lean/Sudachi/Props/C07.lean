import Sudachi.Proofs.Normalize
import Sudachi.Proofs.NormalizeBuf
import Sudachi.Proofs.NormalizeRegex
import Sudachi.Proofs.NormalizeParse
/-!
# C07 — Text normalisation is the specified context-free function of the input

Model: `Normalize` (`Model/Normalize.lean`): `defaultEdits` = `DefaultInputTextPlugin::rewrite_impl`
(`replaceFast` / `replaceSlow`, path chosen by `useSlow`), `psmEdits` = `ProlongedSoundMarkPlugin`,
`yomiEdits` = `IgnoreYomiganaPlugin`, `applyEdits` = `resolve_edits` on code points.
Specification: `normSpec` (`Proofs/Normalize.lean`).

Parameters: the Unicode facts `U : Uni` (arbitrary, constrained only by the explicit predicate
`UniOk`), the rewrite table `T`, and `earliest : Bool` — `true` is the code as it stands
(`.anchored(Yes).earliest(true)`), `false` the candidate repair (DESIGN §2.7 D9).
Quantifiers: all texts, all tables, all mark/bracket sets.
-/
namespace C07
open Normalize

/-! ### concrete witnesses used by the counterexamples and the non-vacuity examples -/

/-- facts for `Ｚ` (U+FF3A: upper case, lower case `ｚ` U+FF5A, NFKC `Z`/`z`); everything else inert -/
def Uz : Uni where
  isUpper c := c == 0xFF3A
  lower c := if c = 0xFF3A then [0xFF5A] else [c]
  nfkc s := s.map (fun c => if c = 0xFF5A then 0x7A else if c = 0xFF3A then 0x5A else c)
  qc c := if c = 0xFF3A ∨ c = 0xFF5A then QC.no else QC.yes
  ccc _ := 0

/-- the table of DESIGN §2.7 D9: `a → x`, `ab → y` -/
def Tab : Table := ⟨[], [([97], [120]), ([97, 98], [121])]⟩

/-- facts for `ǅ` (U+01C5, title case: `is_uppercase` false, lower case `ǆ` U+01C6,
NFKC `D` `ž`; NFKC of `ǆ` = `d` `ž`) -/
def Udz : Uni where
  isUpper _ := false
  lower c := if c = 0x1C5 then [0x1C6] else [c]
  nfkc s := if s = [0x1C5] then [0x44, 0x17E] else if s = [0x1C6] then [0x64, 0x17E] else s
  qc c := if c = 0x1C5 ∨ c = 0x1C6 then QC.no else QC.yes
  ccc _ := 0

theorem uz_ok : UniOk Uz where
  lower_id c h := by
    have : c ≠ 0xFF3A := by simpa [Uz] using h
    simp [Uz, this]
  nfkc_id c h := by
    simp only [isNfkcQuick, quickGo, Uz] at h
    by_cases ha : c ≤ 0x7f
    · have h1 : c ≠ 0xFF5A := by omega
      have h2 : c ≠ 0xFF3A := by omega
      simp [Uz, h1, h2]
    · rw [if_neg ha] at h
      by_cases hc : c = 0xFF3A ∨ c = 0xFF5A
      · simp [hc] at h
      · have h1 : c ≠ 0xFF5A := fun e => hc (Or.inr e)
        have h2 : c ≠ 0xFF3A := fun e => hc (Or.inl e)
        simp [Uz, h1, h2]
  lower_nfkc c h hq := by
    have : c = 0xFF3A := by simpa [Uz] using h
    subst this
    simp [isNfkcQuick, quickGo, Uz] at hq
  lower_ne c := by simp only [Uz]; split <;> simp
  nfkc_ne s h := by simpa [Uz] using h
  lower_head c ds h := by
    simp only [Uz] at h
    split at h
    · rename_i hc; subst hc; simp at h
    · simpa using h.symm
  nfkc_head c ds h := by
    simp only [Uz, List.map_cons, List.map_nil] at h
    exact (List.cons.inj h).2.symm
  nfkcl_head c ds h := by
    simp only [Uz] at h
    split at h <;> simp only [List.map_cons, List.map_nil] at h <;> exact (List.cons.inj h).2.symm

/-! ### clause 1: the longest table key starting at a position -/

/-- What the (repaired) code looks up at a position is a table entry whose key is a non-empty
prefix of the remaining text and no shorter than any other such key; it finds nothing only when
no key starts there. -/
theorem longest_key (ps : List Pair) (s : List Nat) :
    (∀ p, longestAt ps s = some p →
      p ∈ ps ∧ p.1 ≠ [] ∧ p.1 <+: s ∧ ∀ q ∈ ps, q.1 ≠ [] → q.1 <+: s → q.1.length ≤ p.1.length) ∧
    (longestAt ps s = none → ∀ q ∈ ps, q.1 ≠ [] → ¬ q.1 <+: s) :=
  ⟨fun _ h => longestAt_some h, longestAt_none⟩

/-! ### clause 2: the rewrite is `normSpec` -/

/-- General code path, repaired instance (`earliest = false`): for every table, every text and all
Unicode facts satisfying `UniOk`, applying the edits of `replace_slow` yields exactly the
specification — scanning left to right, longest key → value, any other character lower-cased and
(unless exempt) NFKC-normalised, nothing else changed. -/
theorem slow_eq_spec (U : Uni) (hU : CharOk U) (T : Table) (s : List Nat) :
    applyEdits (replaceSlow U T false s) s = some (normSpec U T s) := by
  have := slowGo_spec U hU T s 0 0 (Nat.zero_le _)
  simpa [applyEdits, replaceSlow] using this

/-- Full statement wanted for the code as it stands:
`∀ U T s, UniOk U → applyEdits (replaceSlow U T true s) s = some (normSpec U T s)`.
That is FALSE (`slow_earliest_counterexample`).  Proved: it holds for every table in which no key
is a prefix of another key (`PrefixFree`), which includes the shipped `rewrite.def`. -/
theorem slow_eq_spec_partial (U : Uni) (hU : CharOk U) (T : Table) (hpf : PrefixFree T.pairs)
    (s : List Nat) : applyEdits (replaceSlow U T true s) s = some (normSpec U T s) := by
  unfold replaceSlow
  rw [slowGo_earliest_irrelevant U T hpf]
  exact slow_eq_spec U hU T s

/-- D9: with keys `a → x`, `ab → y` the text `abcＺ` (slow path because of `Ｚ`) is rewritten to
`xbcz` by the code as it stands, while the specification (longest key) gives `ycz`. -/
theorem slow_earliest_counterexample :
    applyEdits (replaceSlow Uz Tab true [97, 98, 99, 0xFF3A]) [97, 98, 99, 0xFF3A] = some [120, 98, 99, 122] ∧
    normSpec Uz Tab [97, 98, 99, 0xFF3A] = [121, 99, 122] ∧
    applyEdits (replaceSlow Uz Tab true [97, 98, 99, 0xFF3A]) [97, 98, 99, 0xFF3A] ≠
      some (normSpec Uz Tab [97, 98, 99, 0xFF3A]) := by
  have h1 : applyEdits (replaceSlow Uz Tab true [97, 98, 99, 0xFF3A]) [97, 98, 99, 0xFF3A] =
      some [120, 98, 99, 122] := by decide
  have h2 : normSpec Uz Tab [97, 98, 99, 0xFF3A] = [121, 99, 122] := by
    rw [normSpec_some Uz Tab 97 _ ([97, 98], [121]) (by decide)]
    simp only [List.length_cons, List.length_nil, List.drop_succ_cons, List.drop_zero]
    rw [normSpec_none Uz Tab 99 _ (by decide), normSpec_none Uz Tab 0xFF3A _ (by decide), normSpec_nil]
    decide
  exact ⟨h1, h2, by rw [h1, h2]; decide⟩

/-- The hypothesis `UniOk.lower_id` cannot be dropped and real Unicode data violates it: for the
title-case letter `ǅ` (`is_uppercase` false, `to_lowercase` = `ǆ`) the code writes NFKC(`ǅ`) =
`Dž`, the specification NFKC(lower(`ǅ`)) = `dž`.  (Both instances of `earliest`; the table is empty.) -/
theorem lower_skipped_counterexample (e : Bool) :
    applyEdits (replaceSlow Udz ⟨[], []⟩ e [0x1C5]) [0x1C5] = some [0x44, 0x17E] ∧
    normSpec Udz ⟨[], []⟩ [0x1C5] = [0x64, 0x17E] := by
  constructor
  · cases e <;> decide
  · rw [normSpec_none Udz ⟨[], []⟩ 0x1C5 [] (by decide), normSpec_nil]
    decide

/-- Optimised code path: on a text for which `rewrite_impl` chooses it (whole-text quick check
passes, no upper-case character) the edits of `replace_fast` yield the specification. -/
theorem fast_eq_spec (U : Uni) (hU : CharOk U) (T : Table) (s : List Nat) (hfast : useSlow U s = false) :
    applyEdits (replaceFast T s) s = some (normSpec U T s) :=
  fastGo_spec U T 0 s (plain_of_fast U hU T.ignore s hfast)

/-- The whole-text quick check implies every character's own quick check (the path is chosen by
the former, characters are treated according to the latter). -/
theorem quick_all_implies_each (U : Uni) (s : List Nat) (h : isNfkcQuick U s = QC.yes) :
    ∀ c ∈ s, isNfkcQuick U [c] = QC.yes :=
  (quickGo_yes U s 0 QC.yes h).2

/-- The plugin as a whole (repaired instance): the text used for lookup is `normSpec` of the input
— a pure function of the input and the table. -/
theorem rewrite_eq_spec (U : Uni) (hU : CharOk U) (T : Table) (s : List Nat) :
    applyEdits (defaultEdits U T false s) s = some (normSpec U T s) :=
  defaultEdits_spec U hU T s

/-- The same for the code as it stands, for tables without prefix-related keys.  Full statement
(all tables) is false by `slow_earliest_counterexample`. -/
theorem rewrite_eq_spec_partial (U : Uni) (hU : CharOk U) (T : Table) (hpf : PrefixFree T.pairs)
    (s : List Nat) : applyEdits (defaultEdits U T true s) s = some (normSpec U T s) := by
  have h := defaultEdits_spec U hU T s
  unfold defaultEdits replaceSlow at *
  rw [slowGo_earliest_irrelevant U T hpf]
  exact h

/-! ### what is assumed of the Unicode tables (`unicode-normalization`, std case mapping) -/

/-- The eight facts of `UniOk` (not `is_uppercase`-like ⇒ own lower case; quick-check Yes ⇒ own NFKC; lower
case of a clean upper-case character is NFKC; lower case and NFKC never empty; "first output = input ⇒
whole output = input" for the three iterators) imply the per-character assumption `CharOk` under which
all theorems of this file are stated. -/
theorem uni_ok_suffices (U : Uni) (hU : UniOk U) : CharOk U := hU.charOk

/-- `CharOk` is EXACTLY what the code needs of the tables: the default plugin meets the specification
for every table and every text if and only if, for every character and either exemption status, the
character's own treatment (`need_lowercase`/`need_nfkc` match, `to_lowercase`, `nfkc`, "first output equals
input ⇒ no edit") gives lower-casing followed — unless exempt — by NFKC.  The harness evaluates `CharOk`
and every clause of `UniOk` on the real tables for every character it ships (`unihyp:*`; a violated
clause is a failure of the run); the thorough tier does so for all 1 112 064 scalar values. -/
theorem uni_assumption_exact (U : Uni) :
    CharOk U ↔ ∀ (T : Table) (s : List Nat), applyEdits (defaultEdits U T false s) s = some (normSpec U T s) := by
  constructor
  · intro hC T s; exact defaultEdits_spec U hC T s
  · intro h ignore c
    have h1 := h ⟨ignore, []⟩ [c]
    rw [normSpec_none U ⟨ignore, []⟩ c [] (by rfl), normSpec_nil, List.append_nil] at h1
    rw [← Option.some.inj (h1.symm.trans (defaultEdits_single U ignore c))]

/-! ### clause "a pure function of the input": long-lived (recycled) analysers -/

/-- **History freedom of the input part of an analysis.**  `RBuf` transcribes `InputBuffer` (`reset`,
`start_build`, `refresh_chars`, `commit` with its length guard and the scratch-pair swap, `build`).  For EVERY
state `b` of a buffer — whatever it analysed before, also after analyses that were rejected at `start_build`
or in the middle of `rewrite_input` —, every list of plugins (each reading `original()`, `current()`, the offset
map and `current_chars()`) and every text: `reset` + `push_str(t)` + `start_build` + the plugins + `build` give
the same text and offset map after every plugin, the same outcome and the same final buffer (the scratch
pair `modified_2`/`m2o_2` aside, which nothing reads before clearing it) as a new buffer.  Why: `reset` clears
`original`, `modified`, `m2o` and `mod_chars`, and these are all the fields a later step reads before writing. -/
theorem rewrite_recycled_eq_new (ps : List Plug) (b : RBuf) (t : List Nat) :
    (b.analyse .cur ps t).1.view = (RBuf.new.analyse .cur ps t).1.view ∧
    (b.analyse .cur ps t).2 = (RBuf.new.analyse .cur ps t).2 :=
  RBuf.analyse_eq_new ps b t

/-- ... lifted to the way analysers are used: ONE tokenizer and ONE result list, `collect_results` swapping
their buffers after every successful analysis (so a text meets the buffer of the call before last), any
earlier state, any history of accepted and rejected texts: the stages and the outcome of the next text are
those of a new buffer. -/
theorem analyser_history_free (ps : List Plug) (a : Analyser) (hist : List (List Nat)) (t : List Nat) :
    ((Analyser.run .cur ps a hist).tok.analyse .cur ps t).2 = (RBuf.new.analyse .cur ps t).2 :=
  (RBuf.analyse_eq_new ps _ t).2

/-- `refresh_chars` recomputes `mod_chars` only when it is empty.  That is sound: after `start_build` on a
reset buffer the cache is empty-or-current (`Coherent`) and every plugin's `rewrite` keeps it so; hence the
default plugin, which chooses its path from `current_chars()` but edits `current()`, chooses from the
current text: its edits on the buffer are `defaultEdits` of the current text. -/
theorem chars_cache_coherent (p : Plug) (b : RBuf) (hb : b.Coherent) (U : Uni) (T : Table) (e : Bool) :
    (b.rewrite p).1.Coherent ∧
    b.rewrite (defaultPlug U T e) = b.refreshChars.commit (defaultEdits U T e b.modified) :=
  ⟨RBuf.rewrite_coherent p hb, RBuf.rewrite_default hb U T e⟩

/-- **End to end on a recycled buffer**: for every previous state of the buffer, every table, all tables
of Unicode facts satisfying `CharOk`, every text within the input limit whose rewrite is within the
rewrite limit, the text the real pipeline (default plugin) leaves for lookup is `normSpec` of the input. -/
theorem recycled_rewrite_eq_spec (U : Uni) (hC : CharOk U) (T : Table) (b : RBuf) (t : List Nat)
    (h1 : bytes t ≤ 49149) (h2 : newLen t (defaultEdits U T false t) ≤ 65535) :
    ∃ m, (b.analyse .cur [defaultPlug U T false] t).2 = ([(normSpec U T t, m)], none) ∧
         (b.analyse .cur [defaultPlug U T false] t).1.modified = normSpec U T t :=
  RBuf.default_on_recycled_eq_spec U hC T b t h1 h2

/-- The seeded change C07b (the index tables, `mod_chars` among them, cleared at the start of `build()`
instead of in `reset()`; `ResetV.lateClear`) is refuted in the kernel: after the already-normalised text `a`
the same buffer leaves `Ｚ` as it is (the path is chosen from the stale characters of `a`), a new buffer
gives `z`. -/
theorem late_clear_counterexample :
    ((RBuf.new.analyse .lateClear [defaultPlug Uz ⟨[], []⟩ false] [97]).1.analyse .lateClear
        [defaultPlug Uz ⟨[], []⟩ false] [0xFF3A]).2.1.map (·.1) = [[0xFF3A]] ∧
    (RBuf.new.analyse .lateClear [defaultPlug Uz ⟨[], []⟩ false] [0xFF3A]).2.1.map (·.1) = [[0x7A]] := by
  constructor
  · simp [RBuf.analyse, RBuf.reset, RBuf.fill, RBuf.startBuild, RBuf.new, RBuf.rewriteAll, RBuf.rewrite,
      RBuf.refreshChars, RBuf.commit, RBuf.build, defaultPlug, defaultEditsOn, replaceFast, fastGo_nil_table,
      useSlow, isNfkcQuick, quickGo, Uz, bytes, utf8w]
  · decide

/-! ### clause 3: context freedom; the two code paths agree -/

/-- The optimised and the general code path agree wherever the optimised one is chosen. -/
theorem paths_agree (U : Uni) (hU : CharOk U) (T : Table) (s : List Nat) (hfast : useSlow U s = false) :
    applyEdits (replaceFast T s) s = applyEdits (replaceSlow U T false s) s := by
  rw [fast_eq_spec U hU T s hfast, slow_eq_spec U hU T s]

/-- ... but not in the code as it stands: on `abc` the fast path gives `yc`, the slow path `xbc`. -/
theorem paths_agree_counterexample :
    applyEdits (replaceFast Tab [97, 98, 99]) [97, 98, 99] = some [121, 99] ∧
    applyEdits (replaceSlow Uz Tab true [97, 98, 99]) [97, 98, 99] = some [120, 98, 99] := by
  constructor
  · rw [fast_eq_spec Uz uz_ok.charOk Tab _ (by decide), normSpec_some Uz Tab 97 _ ([97, 98], [121]) (by decide)]
    simp only [List.length_cons, List.length_nil, List.drop_succ_cons, List.drop_zero]
    rw [normSpec_none Uz Tab 99 _ (by decide), normSpec_nil]
    decide
  · decide

/-- How a span is rewritten never depends on unrelated characters elsewhere: if no key occurrence
starting in `u` reaches into `v`, the rewrite of `u ++ v` is the rewrite of `u` followed by the
rewrite of `v` — in particular whether `v` (or `u`) forces the slow path is irrelevant. -/
theorem context_free (U : Uni) (hU : CharOk U) (T : Table) (u v : List Nat) (hns : NoSpan T u v) :
    ∃ a b, applyEdits (defaultEdits U T false u) u = some a ∧
           applyEdits (defaultEdits U T false v) v = some b ∧
           applyEdits (defaultEdits U T false (u ++ v)) (u ++ v) = some (a ++ b) :=
  ⟨normSpec U T u, normSpec U T v, rewrite_eq_spec U hU T u, rewrite_eq_spec U hU T v, by
    rw [rewrite_eq_spec U hU T (u ++ v), normSpec_append U T u v hns]⟩

/-- The code as it stands is not context free: `abc` alone ↦ `yc`, but `abc` followed by the
unrelated `Ｚ` ↦ `xbc` + `z`. -/
theorem context_free_counterexample :
    applyEdits (defaultEdits Uz Tab true [97, 98, 99]) [97, 98, 99] = some [121, 99] ∧
    applyEdits (defaultEdits Uz Tab true [0xFF3A]) [0xFF3A] = some [122] ∧
    applyEdits (defaultEdits Uz Tab true [97, 98, 99, 0xFF3A]) [97, 98, 99, 0xFF3A] = some [120, 98, 99, 122] := by
  refine ⟨?_, by decide, by decide⟩
  have hf : useSlow Uz [97, 98, 99] = false := by decide
  unfold defaultEdits
  rw [hf]
  exact paths_agree_counterexample.1

/-! ### clause 4: the other two plugins rewrite exactly the spans their definitions describe -/

/-- Prolonged-sound-mark collapsing: the edits apply without panic and the result is related to the
input by `PsmRel` — non-marks and isolated marks are copied, every maximal run of two or more
marks becomes one replacement symbol, nothing else changes. -/
theorem psm_spec (marks rep : List Nat) (s : List Nat) :
    ∃ out, applyEdits (psmEdits marks rep s) s = some out ∧ PsmRel marks rep s out :=
  psmGo_rel marks rep 0 s

/-- Yomigana removal, full strength: the edits apply without panic and the result is related to the
input by `YomiSpec` — scanning left to right, a character is copied only where no described span
(`kanji · left bracket · 1..n readings · right bracket`) starts; where one starts, the one with the
longest admissible reading is taken, only its bracketed group is deleted, and scanning resumes
after the right bracket. -/
theorem yomigana_spec (Y : Yomi) (s : List Nat) :
    ∃ out, applyEdits (yomiEdits Y s) s = some out ∧ YomiSpec Y s out :=
  yomiGo_spec Y 0 s

/-- the matcher reports a span iff a described span starts at the position, and then the one with
the longest reading -/
theorem yomigana_match_complete (Y : Yomi) (s : List Nat) :
    (yomiAt Y s = none → ∀ n, ¬ YomiMatch Y s n) ∧
    (∀ n, yomiAt Y s = some n → YomiMatch Y s n ∧ ∀ n', YomiMatch Y s n' → n' ≤ n) :=
  ⟨yomiAt_none, fun _ h => ⟨yomiAt_sound h, yomiAt_longest h⟩⟩

/-- each reported yomigana match is a described span -/
theorem yomigana_match_sound (Y : Yomi) (s : List Nat) (n : Nat) (h : yomiAt Y s = some n) :
    YomiMatch Y s n :=
  yomiAt_sound h

/-! ### the two regular expressions, against a declarative specification of the pattern -/

/-- `[marks]{2,}` with `find_iter`: the run the model computes at a position (`takeWhile`) is the longest
prefix in the LANGUAGE of the pattern (`RE.lang (rePsm marks)`) when it has two or more marks, otherwise no
prefix is in the language; and the plugin's edits are exactly the `find_iter` matches (leftmost, then
continue behind the match), each replaced by the replacement symbol. -/
theorem psm_regex_spec (marks rep : List Nat) (s : List Nat) :
    ((2 ≤ (s.takeWhile marks.contains).length →
        LongestPrefix (rePsm marks).lang s (s.takeWhile marks.contains).length) ∧
     (¬ 2 ≤ (s.takeWhile marks.contains).length → ∀ n, ¬ LongestPrefix (rePsm marks).lang s n)) ∧
    FindIter (LongestPrefix (rePsm marks).lang) 0 s ((psmEdits marks rep s).map (fun e => (e.s, e.e))) ∧
    (∀ e ∈ psmEdits marks rep s, e.rep = rep) :=
  ⟨psm_run_spec marks s, psmGo_find_iter marks rep 0 s⟩

/-- `K(L R{1,n} B)` with `captures_iter`, group 1 deleted: `YomiMatch` (the span predicate of
`yomigana_spec`) is membership of the prefix of `n + 3` characters in the language of the pattern; the
matcher reports `n` iff that prefix is the LONGEST one in the language (nothing iff none is); the plugin's
edits are the `captures_iter` matches, of each the part after the one-character kanji replaced by nothing. -/
theorem yomigana_regex_spec (Y : Yomi) (s : List Nat) :
    (∀ n, YomiMatch Y s n ↔ n + 3 ≤ s.length ∧ (reYomi Y).lang (s.take (n + 3))) ∧
    (∀ n, yomiAt Y s = some n → LongestPrefix (reYomi Y).lang s (n + 3)) ∧
    (yomiAt Y s = none → ∀ m, ¬ LongestPrefix (reYomi Y).lang s m) ∧
    FindIter (LongestPrefix (reYomi Y).lang) 0 s ((yomiEdits Y s).map (fun e => (e.s - 1, e.e))) ∧
    (∀ e ∈ yomiEdits Y s, e.rep = [] ∧ 1 ≤ e.s) :=
  ⟨yomiMatch_iff_lang Y s, (yomiAt_regex_spec Y s).1, (yomiAt_regex_spec Y s).2, yomiGo_captures_iter Y 0 s⟩

/-! ### `rewrite.def`: the reader, line by line -/

/-- `read_rewrite_lists` as a function of the file: with `classify` = the kind of a line after `trim` and
`split_whitespace` (blank or `#…` = skipped; one column of one scalar = exempt character; two columns =
key/value; one column of several scalars, three or more columns = malformed): the read SUCCEEDS iff no line
is malformed and no key is defined twice, and then the key/value list is exactly the two-column lines in
file order and the exempt set exactly the one-column characters — the table every theorem above is about
(`Table.pairs`, `Table.ignore`).  The reader is total: it returns a table or `InvalidDataFormat`. -/
theorem read_rewrite_def_spec (text : List Nat) :
    (∀ T, parseDef text = some T →
      (∀ l ∈ splitLines text, classify l ≠ .bad) ∧ T.pairs = (splitLines text).filterMap pairOf ∧
      T.ignore = ((splitLines text).filterMap exemptOf).reverse ∧ (T.pairs.map (·.1)).Nodup) ∧
    ((∀ l ∈ splitLines text, classify l ≠ .bad) → (((splitLines text).filterMap pairOf).map (·.1)).Nodup →
      ∃ T, parseDef text = some T) := by
  constructor
  · intro T h
    obtain ⟨h1, h2, h3, h4⟩ := parseLines_sound (splitLines text) ⟨[], []⟩ T h
    exact ⟨h1, by simpa using h2, by simpa using h3, h4 (by simp)⟩
  · intro h1 h2
    exact parseLines_complete (splitLines text) ⟨[], []⟩ h1 (by simpa using h2)

/-- columns: every column `split_whitespace` yields is non-empty and free of Unicode white space (U+3000,
TAB, CR, NBSP … included), and the columns concatenated are the line without its white space -/
theorem columns_spec (line : List Nat) :
    (∀ w ∈ wordsOf line, w ≠ [] ∧ ∀ c ∈ w, isWhite c = false) ∧
    (wordsOf line).flatten = line.filter (fun c => !isWhite c) :=
  ⟨wordsOf_ok line, wordsOf_flatten line⟩

/-! ### the edit lists handed to `resolve_edits` (used by C01/C08) -/

/-- default plugin, both instances, any Unicode facts: edits sorted, non-overlapping, in range
(code-point indices, hence on character boundaries) -/
theorem default_edits_ok (U : Uni) (T : Table) (e : Bool) (s : List Nat) :
    EditsOk s.length 0 (defaultEdits U T e s) :=
  defaultEdits_ok U T e s

theorem psm_edits_ok (marks rep : List Nat) (s : List Nat) : EditsOk s.length 0 (psmEdits marks rep s) := by
  have := psmGo_edits_ok marks rep 0 s
  simpa [psmEdits] using this

theorem yomigana_edits_ok (Y : Yomi) (s : List Nat) : EditsOk s.length 0 (yomiEdits Y s) := by
  have := yomiGo_edits_ok Y 0 s
  simpa [yomiEdits] using this

/-- transport to byte offsets for an arbitrary width function: an `EditsOk` list of code-point
ranges is an `EditsOk` list of byte ranges whose ends are prefix sums of widths, i.e. character
boundaries (`Normalize.off`) -/
theorem edits_ok_bytes (w : Nat → Nat) (s : List Nat) (es : List Edit) (h : EditsOk s.length 0 es) :
    EditsOk (off w s s.length) 0 (es.map (Edit.toBytes w s)) := by
  have := EditsOk.bytes w s es 0 h
  simpa [off] using this

/-- `resolve_edits` does not panic on an `EditsOk` list -/
theorem edits_ok_apply_total (es : List Edit) (s : List Nat) (h : EditsOk s.length 0 es) :
    (applyEdits es s).isSome :=
  applyGo_isSome s.length es 0 s (by simp) h

/-! ### non-vacuity of the hypotheses -/

/-- `UniOk` is satisfiable by facts under which the slow path does real work -/
example : UniOk Uz ∧ applyEdits (replaceSlow Uz Tab false [97, 98, 99, 0xFF3A]) [97, 98, 99, 0xFF3A] = some [121, 99, 122] :=
  ⟨uz_ok, by decide⟩

/-- `PrefixFree` holds for a table with keys `a`, `b`; it fails for D9's table -/
example : PrefixFree [([97], [120]), ([98], [121])] ∧ ¬ PrefixFree Tab.pairs := by
  constructor
  · unfold PrefixFree; simp
  · unfold PrefixFree Tab; simp

/-- `useSlow = false` (fast path) is reachable with a key present -/
example : useSlow Uz [97, 98, 99] = false := by decide

/-- `NoSpan`: the key `ab` inside `u = abc` does not reach into `v = Ｚ` -/
example : NoSpan Tab [97, 98, 99] [0xFF3A] := by
  intro i hi p hp hne hpre
  simp only [Tab, List.mem_cons, List.not_mem_nil, or_false] at hp
  simp only [List.length_cons, List.length_nil] at hi ⊢
  have hi3 : i = 0 ∨ i = 1 ∨ i = 2 := by omega
  rcases hi3 with rfl | rfl | rfl <;> rcases hp with rfl | rfl <;>
    simp_all [List.prefix_iff_eq_take]

/-- a described yomigana span exists: `漢(か)` with brackets `(`/`)`, maximum 2 -/
example : yomiAt ⟨fun c => c == 0x6F22, fun c => c == 0x304B, [40], [41], 2⟩ [0x6F22, 40, 0x304B, 41] = some 1 := by
  decide

/-- the PSM and yomigana statements on concrete inputs -/
example : applyEdits (psmEdits [0x30FC, 45] [0x30FC] [97, 0x30FC, 45, 45, 98, 45]) [97, 0x30FC, 45, 45, 98, 45] =
    some [97, 0x30FC, 98, 45] := by
  simp [applyEdits, psmEdits, psmGo, applyGo, lenLt]

/-- `CharOk` is satisfiable (facts of `Ｚ`) -/
example : CharOk Uz := uz_ok.charOk

/-- a new buffer, and a buffer after `start_build`, are `Coherent`; the limits of `recycled_rewrite_eq_spec` hold
for a small text -/
example : RBuf.new.Coherent ∧ bytes [97, 98, 99, 0xFF3A] ≤ 49149 :=
  ⟨Or.inl rfl, by decide⟩

example : newLen [97, 98] [⟨0, 1, [120, 121]⟩] ≤ 65535 := by decide

/-- the hypotheses of `read_rewrite_def_spec` on a concrete file: `a x⏎ab y⏎` parses to the D9 table -/
example : (parseDef [97, 32, 120, 10, 97, 98, 0x3000, 121, 10]).map (·.pairs) = some Tab.pairs := by decide

/-- a duplicate key is rejected -/
example : (parseDef [97, 32, 120, 10, 97, 32, 121]).isNone = true := by decide

/-- the languages are inhabited: `ーー` is in `[ー-]{2,}`, `漢(か)` in the yomigana pattern -/
example : (rePsm [0x30FC, 45]).lang [0x30FC, 0x30FC] := (psm_lang _ _).mpr ⟨by simp, by simp⟩

example : (reYomi ⟨fun c => c == 0x6F22, fun c => c == 0x304B, [40], [41], 2⟩).lang [0x6F22, 40, 0x304B, 41] :=
  (yomi_lang _ _).mpr ⟨0x6F22, 40, [0x304B], 41, rfl, by simp, by simp, by simp, by simp, by simp, by simp⟩

end C07
