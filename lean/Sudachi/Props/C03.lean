import Sudachi.Proofs.TotalSucceeds
import Sudachi.Proofs.TotalBundled
import Sudachi.Model.TotalIO
import Sudachi.Props.C01
/-!
# C03 — Tokenization is total: never panics, succeeds within the documented limits

Model: `Model/Total.lean` (the fixed-width lattice `connect_node`/`insert`/`connect_eos`/`fill_top_path`,
`resolve_best_path`, `NodeSplitIterator::next`, the `Morpheme` accessors, and `tokenize` = the stages of
`do_tokenize` in their order) on top of `Model/Edit.lean` (`start_build`, `commit`), `Model/Oov.lean`
(`build_lattice`) and `Model/Lattice.lean` (candidate nodes).  `addI32` is the checked `i32` addition
(`none` = `attempt to add with overflow` in a debug build), `asU16` the `as u16` cast.
-/
namespace C03
open Total EditM
open Oov hiding NodeOk

/-! ## clause "never … overflows": the `i32` accumulator of `connect_node` -/

/-- Full statement wanted: *for every loadable dictionary and every text within the documented limits
(≤ 65535 characters) no `i32` addition of `connect_node`/`connect_eos` overflows.*  That is FALSE
(`cost_overflow_counterexample`, D7).  Proved: it holds whenever the normalised text has at most
**32767 characters** (`len * 65536 + 32768 ≤ 2^31`), all word and connection costs being `i16`
(`I16Conn`, `NodeOk`) — by the invariant "every stored total of a node ending at `e` is the sentinel or
within `± 65536·e`" (`RowsInv`), by induction over the insertion order.  Then every `insert` succeeds
and `connect_eos` returns a cost or `EosBosDisconnect`, never a panic.  The constant is exact for this
invariant: with all costs `-32768` a text of 32768 characters overflows at `connect_eos` (directed
correspondence case), with all costs `32767` one of 32769 characters does (D7). -/
theorem cost_no_overflow_partial (conn : Nat → Nat → Int) (hconn : I16Conn conn) (len : Nat)
    (hlen : len ≤ 32767) (nodes : List Vit.Node) (hnodes : ∀ n ∈ nodes, NodeOk len n) :
    ∃ rows ents, buildAll addI32 I32_MAX conn nodes (reset len) [] = .ok (rows, ents) ∧
      RowsInv len rows ∧
      ((∃ r, connectEos addI32 I32_MAX conn rows len = .ok r) ∨
        connectEos addI32 I32_MAX conn rows len = .err "Disconnect") := by
  obtain ⟨rows, ents, h1, h2⟩ := buildAll_ok conn hconn len hlen nodes (reset len) [] (reset_inv len) hnodes
  exact ⟨rows, ents, h1, h2, connectEos_ok conn hconn len hlen rows h2⟩

/-- non-vacuity: an `i16` matrix, two candidates over a two-character text -/
example : I16Conn (fun _ _ => 32767) ∧ (∀ n ∈ [(⟨0, 1, 0, 0, 32767⟩ : Vit.Node), ⟨1, 2, 0, 0, -32768⟩], NodeOk 2 n) := by
  refine ⟨fun _ _ => by constructor <;> simp, ?_⟩
  intro n hn
  simp only [List.mem_cons, List.not_mem_nil, or_false] at hn
  rcases hn with rfl | rfl <;> simp [NodeOk]

/-- one connection step alone: within the bounds the two additions of `connect_node` succeed -/
theorem connect_node_no_overflow (conn : Nat → Nat → Int) (hconn : I16Conn conn) (n : Vit.Node)
    (hc : -32768 ≤ n.c ∧ n.c ≤ 32767) (row : List Entry) (b : Nat) (hb : b ≤ 32766)
    (hrow : RowBound ((b : Int) * 65536) row) :
    ∃ r, connectNode addI32 I32_MAX conn row n = some r :=
  let ⟨r, h, _⟩ := connectNode_ok conn hconn n ((b : Int) * 65536) 32768 ⟨by omega, by omega⟩ (by omega) row hrow
  ⟨r, h⟩

/-- **D7 on a small-width instance of the same model** (accumulator range `[-128, 127]`, all word and
connection costs 7): a chain of ten one-character words overflows — the tenth `insert` is the
`attempt to add with overflow`.  The full-size instance (`i32`, costs 32767, 32769 characters) is
replayed on the real code by the harness (directed cases `d7-chain-*`) and by the `cost` correspondence. -/
theorem cost_overflow_counterexample :
    buildAll (addW 127) 127 (fun _ _ => 7)
      ((List.range 10).map (fun i => (⟨i, i + 1, 0, 0, 7⟩ : Vit.Node))) (reset 10) [] = .panic "overflow" ∧
    latticeOutcome (addW 127) 127 (fun _ _ => 7)
      ((List.range 8).map (fun i => (⟨i, i + 1, 0, 0, 7⟩ : Vit.Node))) 8 = .ok (119, 8, 0) := by
  constructor <;> decide

/-- **the sentinel coincidence** (same small width): a path whose cost is exactly the maximum is taken
for "not connected to BOS", so `connect_eos` reports `EosBosDisconnect` although every position has a
candidate and no addition overflowed (full size: directed case `d7-sentinel`, text `2` + 32769 × `1`). -/
theorem cost_sentinel_counterexample :
    latticeOutcome (addW 127) 127 (fun _ _ => 7)
      ((List.range 10).map (fun i => (⟨i, i + 1, 0, 0, if i = 0 then -6 else 7⟩ : Vit.Node))) 10
      = .err "Disconnect" := by
  decide

/-! ## clause "`as u16` casts": identity under the length limit -/

/-- Every character offset and every byte offset of a text of at most 65535 bytes survives `as u16`
(`Node::new(ch_off as u16, end_c as u16, …)`, `byte_begin as u16`, the EOS position `(len-1) as u16`), and so
does the back-pointer `NodeIdx::new(begin as u16, i as u16)` **provided the row has fewer than 65536 entries**
(hypothesis `hrow`: nothing in the code enforces it; it holds when fewer than 65536 candidates end at one
boundary). -/
theorem u16_casts_identity (nchars nbytes : Nat) (hb : nbytes ≤ 65535) (hc : nchars ≤ nbytes) :
    (∀ p, p ≤ nchars → asU16 p = p) ∧ (∀ b, b ≤ nbytes → asU16 b = b) ∧
    eosNode nchars = ⟨nchars, nchars, 0, 0, 0⟩ ∧
    (∀ begin i rowLen, begin ≤ nchars → i < rowLen → rowLen ≤ 65536 → (asU16 begin, asU16 i) = (begin, i)) := by
  refine ⟨fun p hp => asU16_id p (by omega), fun b hb' => asU16_id b (by omega), ?_, ?_⟩
  · simp [eosNode, asU16_id nchars (by omega)]
  · intro begin i rowLen h1 h2 h3
    rw [asU16_id begin (by omega), asU16_id i (by omega)]

/-- beyond the hypothesis the cast is not the identity: the 65537th entry of a row gets back-pointer
index 0 (a wrong predecessor, not a panic) -/
theorem u16_cast_wraps_counterexample : asU16 65536 = 0 ∧ asU16 65535 = 65535 := by decide

example : (49149 : Nat) ≤ 65535 ∧ (16383 : Nat) ≤ 49149 := by omega

/-! ## clause "reports an input-too-long error beyond the limits" -/

/-- `start_build` rejects exactly the inputs of more than 49149 bytes, before any other work -/
theorem start_build_limit (orig : List Nat) :
    (startBuild orig = none ↔ orig.length > 49149) := by
  unfold startBuild MAX_LENGTH
  split <;> simp_all

/-- Full statement for the first limit: an input of more than 49149 bytes gives the input-too-long error,
whatever the configuration -/
theorem tokenize_too_long (v : SplitV) (lv : LenV) (cfg : Cfg) (orig : List Nat) (h : orig.length > 49149) :
    tokenize v lv cfg orig = .err "TooLong" := by
  unfold tokenize
  rw [(start_build_limit orig).2 h]

/-- second limit: when the plugins themselves return their edits, the only error `rewrite_input` can
report is input-too-long (both length guards).  In the pinned tree (`lv = running`) it is reported exactly when
the running length of a commit exceeds 65535 (`C08.commit_too_long`) — the *running* length, checked after
every edit of the batch, not the length of the normalised text (finding `commit-transient-length`,
`commit_transient_counterexample`); in the repaired tree (`lv = final`) exactly when the rewritten text of a
commit exceeds 65535 bytes (`commit_final_too_long_iff`). -/
theorem rewrite_input_only_too_long (lv : LenV) (ps : List (List Nat → Outcome (List (Edit Nat)))) (l : List (P Nat))
    (hp : ∀ p ∈ ps, ∀ t, ∃ es, p t = .ok es) (k : String) (h : rewriteInput lv ps l = .err k) : k = "TooLong" :=
  rewriteInput_err lv ps l hp k h

/-- **the pinned guard (variant `running`)**: the running-length check rejects a batch whose result would be
within the limit: 65535 bytes, insert one byte, delete one byte (a one-edit-at-a-time instance of the finding);
the repaired guard (variant `final`) accepts the same batch -/
theorem commit_transient_counterexample :
    lenOk 65535 65535 [(⟨0, 0, [1]⟩ : Edit Nat), ⟨1, 2, []⟩] = false ∧
    ((65535 : Int) + 1 - 1 ≤ 65535) ∧
    lenGuard .running 65535 65535 [(⟨0, 0, [1]⟩ : Edit Nat), ⟨1, 2, []⟩] = false ∧
    lenGuard .final 65535 65535 [(⟨0, 0, [1]⟩ : Edit Nat), ⟨1, 2, []⟩] = true := by
  refine ⟨by decide, by omega, by decide, by decide⟩

/-- **The repaired guard (variant `final`): `commit` fails iff the FINAL length exceeds the limit.**  For a
buffer of the shape every reachable state has (`Shape`: one map entry per byte plus the sentinel) and a non-empty
batch of sorted, non-overlapping, in-range edits (`EditsOk`, what the plugins emit: C07 `*_edits_ok`), the batch is
rejected with input-too-long exactly when the rewritten text — `resolve_edits` run to its end — would be longer
than 65535 bytes; otherwise it is committed and the result is that rewritten text.  This is the clause of the
property ("succeeds … whose normalised form is at most 65535 bytes") that `commit_transient_counterexample`
refutes for the pinned guard. -/
theorem commit_final_too_long_iff (N : Nat) (l : List (P Nat)) (hs : Shape N l) (es : List (Edit Nat)) (hne : es ≠ [])
    (hok : EditsOk (l.length - 1) 0 es) :
    (commitV .final l es = none ↔ 65535 < (textOf (resolve l es)).length) ∧
    (∀ l', commitV .final l es = some l' ↔ l' = resolve l es ∧ (textOf (resolve l es)).length ≤ 65535) :=
  ⟨commitV_final_none_iff N l hs es hne hok, fun l' => commitV_final_some_iff N l hs es hne hok l'⟩

/-- the length the repaired `resolve_edits` computes before copying anything (`finalLen`) IS the length of the
rewritten text: current length plus, per edit, replacement length minus replaced length -/
theorem final_length_is_text_length (N : Nat) (l : List (P Nat)) (hs : Shape N l) (es : List (Edit Nat))
    (hok : EditsOk (l.length - 1) 0 es) :
    (((textOf (resolve l es)).length : Nat) : Int) = finalLen (((textOf l).length : Nat) : Int) es :=
  resolve_text_length N l hs es hok

/-- the repair removes no functionality: every batch the pinned `commit` accepts is accepted by the repaired one
with the same result (no hypothesis on the edits) -/
theorem commit_final_extends_running (l : List (P Nat)) (es : List (Edit Nat)) (l' : List (P Nat))
    (h : commitV .running l es = some l') : commitV .final l es = some l' :=
  commit_imp_commitV_final l es l' h

/-- non-vacuity of `Shape`/`EditsOk`/`es ≠ []`, and the finding's shape at small scale: text `ab`, first byte
replaced by three bytes, second byte deleted — both guards commit, result `[1,2,3]` with map `[0,1,1,2]` -/
example : Shape 2 (identFrom 0 [97, 98]) ∧
    EditsOk ((identFrom 0 [97, 98]).length - 1) 0 [(⟨0, 1, [1, 2, 3]⟩ : Edit Nat), ⟨1, 2, []⟩] ∧
    (commitV .final (identFrom 0 [97, 98]) [(⟨0, 1, [1, 2, 3]⟩ : Edit Nat), ⟨1, 2, []⟩]).map (fun l => (textOf l, snds l))
      = some ([1, 2, 3], [0, 1, 1, 2]) ∧
    commitV .running (identFrom 0 [97, 98]) [(⟨0, 1, [1, 2, 3]⟩ : Edit Nat), ⟨1, 2, []⟩]
      = commitV .final (identFrom 0 [97, 98]) [(⟨0, 1, [1, 2, 3]⟩ : Edit Nat), ⟨1, 2, []⟩] := by
  refine ⟨ident_shape [97, 98], by simp [EditsOk, identFrom], by decide, by decide⟩

/-! ## clause "every accessor of every returned morpheme is safe to call" (offsets) -/

/-- Under the C08 invariant of the offset map (`EditM.Inv`, established by `C08.m2o_inv` for admissible
batches) `Morpheme::begin()`/`end()` (`morphRangeC`: `mod_c2b` then `m2o`) are defined for every node whose
character range lies inside the normalised text, and the offsets are inside the original text. -/
theorem morph_range_defined {st : Nat → Bool} {Bo : Nat → Prop} {N : Nat} (l : List (P Nat))
    (hinv : Inv st Bo N l) (n : EditM.NodeRange) (hb : n.bc ≤ nchars (textOf l)) (he : n.ec ≤ nchars (textOf l)) :
    ∃ b e, morphRangeC l n = some (b, e) ∧ b ≤ N ∧ e ≤ N := by
  obtain ⟨b, hb1, hb2⟩ := toOrigByteIdx_some l hinv n.bc hb
  obtain ⟨e, he1, he2⟩ := toOrigByteIdx_some l hinv n.ec he
  exact ⟨b, e, by simp [morphRangeC, hb1, he1], hb2, he2⟩

/-- the byte route of `surface()` (`m2o[begin_bytes]..m2o[end_bytes]`) is defined for byte offsets inside
the normalised text -/
theorem morph_range_bytes_defined {st : Nat → Bool} {Bo : Nat → Prop} {N : Nat} (l : List (P Nat))
    (hinv : Inv st Bo N l) (n : EditM.NodeRange) (hb : n.bb ≤ (textOf l).length) (he : n.eb ≤ (textOf l).length) :
    ∃ b e, morphRangeB l n = some (b, e) := by
  have hlen := shape_length hinv.shape
  refine ⟨valAt l n.bb, valAt l n.eb, ?_⟩
  unfold morphRangeB
  rw [snds_getElem? l n.bb (by omega), snds_getElem? l n.eb (by omega)]

/-! ## clause "never panics": `NodeSplitIterator::next` (D6 and its repair) -/

/-- D6 on the model of the code **before** the repair (variant `cur`): a split unit longer than its parent
(`東` = 3 bytes, first unit `東京都` = 9 bytes) makes `NodeSplitIterator::next` index `mod_b2c` out of range;
a well-formed split does not.  (The tree now carries the repair `fix: keep split units inside their parent
token`; the harness selects the variant by probing `analysis/node.rs`, so this stays the witness of what the
old code did and of what a regression would do.) -/
theorem split_longer_than_parent_counterexample :
    isPanic (split .cur (b2c [0xE6, 0x9D, 0xB1]) (c2b [0xE6, 0x9D, 0xB1]) ⟨0, 1, 0, 3⟩ [9, 3]) = true ∧
    isPanic (split .cur (b2c [0xE6, 0x9D, 0xB1, 0xE4, 0xBA, 0xAC]) (c2b [0xE6, 0x9D, 0xB1, 0xE4, 0xBA, 0xAC])
      ⟨0, 2, 0, 6⟩ [3, 3]) = false := by decide

/-- variant `cur`: well-formed units (every proper prefix sum of the unit lengths is a byte offset inside
the text) never index out of range: one step of the iterator -/
theorem split_step_in_range (b2c c2b : List Nat) (ce be h u : Nat) (rest : List Nat) (cs bs : Nat)
    (hin : bs + h < b2c.length) :
    ∃ c, b2c[bs + h]? = some c ∧
      isPanic (splitGo .cur b2c c2b ce be (h :: u :: rest) cs bs) =
        isPanic (splitGo .cur b2c c2b ce be (u :: rest) (asU16 c) (asU16 (bs + h))) := by
  refine ⟨b2c[bs + h], List.getElem?_eq_getElem hin, ?_⟩
  simp only [splitGo, unitEnd, List.getElem?_eq_getElem hin]
  cases splitGo .cur b2c c2b ce be (u :: rest) (asU16 b2c[bs + h]) (asU16 (bs + h)) <;> rfl

/-- **The repaired iterator (variant `d6fix`, the code that exists now) never indexes `mod_b2c` / `mod_c2b`
out of range — for ANY unit key lengths** (no well-formedness of the split declaration is assumed) and any
parent node whose byte end is inside the buffer.  The only facts used are the range facts of a built buffer
(`TablesRange`): `mod_b2c[i]` exists for every `i ≤ nb` and is an index of `mod_c2b`.  They hold for the
tables of every text with at least one character (`tables_of_text`; the model's `b2c`/`c2b` are the tables the
`access` correspondence recomputes from the dumped text). -/
theorem split_d6fix_never_out_of_range (tb2c tc2b : List Nat) (nb : Nat) (hr : TablesRange tb2c tc2b nb)
    (n : EditM.NodeRange) (hn : n.eb ≤ nb) (units : List Nat) :
    ∃ us, split .d6fix tb2c tc2b n units = .ok us :=
  splitGo_d6fix_ok tb2c tc2b nb hr n.ec n.eb hn units n.bc n.bb

/-- the range facts are those of the tables of a text: instance of the previous theorem for `mod_b2c`/`mod_c2b`
as `InputBuffer::build` fills them (any text that begins with a character start, any units, any node ending
inside the text) -/
theorem split_d6fix_never_out_of_range_text (t : List Nat) (h1 : 1 ≤ nchars t)
    (n : EditM.NodeRange) (hn : n.eb ≤ t.length) (units : List Nat) :
    ∃ us, split .d6fix (b2c t) (c2b t) n units = .ok us :=
  split_d6fix_never_out_of_range _ _ t.length (tables_of_text t h1) n hn units

/-- **Every unit of the repaired iterator stays inside its parent** — again for any unit key lengths.  Under the
table invariants of a built buffer of `nb ≤ 65535` bytes and `nc ≤ 65535` characters (`TablesOk`: `mod_b2c` and
`mod_c2b` non-decreasing and in range, `mod_c2b[mod_b2c[i]] ≤ i`, `mod_b2c[mod_c2b[k]] = k`; cf. C09 `B2cOk`/`C2bOk`,
C08 `c2b_spec`) and for a parent that begins and ends on character starts inside the buffer (`At`), the split
succeeds and its units (a) lie in the parent's byte range and character range, (b) run forward (`begin ≤ end`, so
`surface()` never slices backwards — the third D6 symptom), (c) begin and end on character starts (so no
`off char boundary` assertion), (d) tile the parent: the first begins where the parent begins, each next one where
the previous ended, the last ends where the parent ends. -/
theorem split_d6fix_units_inside_parent (tb2c tc2b : List Nat) (nb nc : Nat) (ht : TablesOk tb2c tc2b nb nc)
    (hnb : nb ≤ 65535) (hnc : nc ≤ 65535) (n : EditM.NodeRange) (hle : n.bb ≤ n.eb) (hn : n.eb ≤ nb)
    (hb : At tb2c tc2b n.bc n.bb) (he : At tb2c tc2b n.ec n.eb) (units : List Nat) (hu : units ≠ []) :
    ∃ us, split .d6fix tb2c tc2b n units = .ok us ∧ (∀ u ∈ us, UnitOk tb2c tc2b n u) ∧
      Tiles us n.bc n.bb n.ec n.eb := by
  obtain ⟨us, h1, h2, h3⟩ := splitGo_d6fix_spec tb2c tc2b nb nc ht hnb hnc n hn he units n.bc n.bb hu hb
    (Nat.le_refl _) hle (Nat.le_refl _)
  exact ⟨us, h1, h3, h2⟩

/-- non-vacuity, and the D6 witness under the repair: `東` (3 bytes, 1 character) satisfies the table invariants
(`tablesOk_of_text`), the parent `0..1 / 0..3` is on character starts, and the ill-formed units `[9, 3]` now give
`東` + an empty unit at the parent's end (what the repaired code returns: directed cases `d6-split-*`) -/
example : TablesOk (b2c [0xE6, 0x9D, 0xB1]) (c2b [0xE6, 0x9D, 0xB1]) 3 1 ∧
    At (b2c [0xE6, 0x9D, 0xB1]) (c2b [0xE6, 0x9D, 0xB1]) 0 0 ∧ At (b2c [0xE6, 0x9D, 0xB1]) (c2b [0xE6, 0x9D, 0xB1]) 1 3 ∧
    split .d6fix (b2c [0xE6, 0x9D, 0xB1]) (c2b [0xE6, 0x9D, 0xB1]) ⟨0, 1, 0, 3⟩ [9, 3] = .ok [⟨0, 1, 0, 3⟩, ⟨1, 1, 3, 3⟩] :=
  ⟨tablesOk_of_text [0xE6, 0x9D, 0xB1] 0xE6 [0x9D, 0xB1] rfl (by decide), by unfold At; decide, by unfold At; decide, rfl⟩

/-! ## clause "never … indexes out of bounds": back-pointers of `fill_top_path`, `mod_c2b` in `resolve_best_path` -/

/-- **`lattice_index_in_range`.**  After `build_lattice` (all `insert`s, then a `connect_eos` that succeeded) the walk of
`fill_top_path` along the back-pointers never indexes `ends`/`indices` out of range, terminates within `len + 1` steps
at a node that begins at 0, visits only nodes inside the text (`begin < end ≤ len`), and `resolve_best_path`'s
`mod_c2b` lookups for those nodes are in range — for ANY addition (`add` arbitrary: checked, wrapping, overflowing or
not), any costs and any connection matrix.  Hypotheses: the candidates are non-empty and inside the text (`hnodes`), the
text has between 1 and 65535 characters, and **fewer than 65536 candidates end at any one boundary** (`hrow`: the row
index of the back-pointer is a `u16`; nothing in the code enforces this, see `u16_cast_wraps_counterexample`), `t` is a
text with at least `len` character starts (`utf8Decode_length_le`).
Invariant (`PathInv`, by induction over the insertion order): every stored entry lies in the row of its end, begins
before it, and is either unconnected (sentinel) or points to `(begin, index of a connected entry of row begin)`. -/
theorem lattice_index_in_range (add : Int → Int → Option Int) (conn : Nat → Nat → Int) (len : Nat)
    (hlen : 1 ≤ len ∧ len ≤ 65535) (nodes : List Vit.Node) (hnodes : ∀ n ∈ nodes, n.b < n.e ∧ n.e ≤ len)
    (hrow : ∀ e, nodes.countP (fun n => n.e == e) ≤ 4294967295)
    (rows : Rows) (ents : List Entry) (c : Int) (pe pi : Nat)
    (hb : buildAll add I32_MAX conn nodes (reset len) [] = .ok (rows, ents))
    (he : connectEos add I32_MAX conn rows len = .ok (c, pe, pi)) (t : List Nat) (ht : len ≤ nchars t) :
    ∃ path, topPath rows (len + 1) (pe, pi) [] = .ok path ∧
      (∀ x ∈ path, x.node.b < x.node.e ∧ x.node.e ≤ len) ∧
      ∃ rs, mapM (resultNode (c2b t)) path = .ok rs := by
  have hinv := buildAll_pathInv add conn len hlen.2 nodes (reset len) [] rows ents (reset_pathInv len nodes hrow) hnodes hb
  obtain ⟨hpe, row, p, h1, h2, h3⟩ := connectEos_ptr add conn len hlen.2 rows hinv c pe pi he
  subst hpe
  obtain ⟨path, g1, g2⟩ := topPath_ok pe rows hinv pe (pe + 1) pi p [] row hlen.1 (by omega) h1 h2 h3
  have g3 : ∀ x ∈ path, x.node.b < x.node.e ∧ x.node.e ≤ pe := by
    intro x hx
    rcases g2 x hx with g | g
    · cases g
    · exact g
  refine ⟨path, g1, g3, mapM_ok _ path ?_⟩
  intro x hx
  obtain ⟨a1, a2⟩ := g3 x hx
  have hl := c2b_length t
  obtain ⟨bb, hbb⟩ : ∃ v, (c2b t)[x.node.b]? = some v := ⟨_, List.getElem?_eq_getElem (by omega)⟩
  obtain ⟨eb, heb⟩ : ∃ v, (c2b t)[x.node.e]? = some v := ⟨_, List.getElem?_eq_getElem (by omega)⟩
  exact ⟨⟨x.node.b, x.node.e, asU16 bb, asU16 eb⟩, by simp only [resultNode, hbb, heb]⟩

/-- non-vacuity: two one-character words over `ab`; the walk returns both, in text order -/
example : ∃ rows ents c pe pi,
    buildAll addI32 I32_MAX (fun _ _ => 1) [⟨0, 1, 0, 0, 5⟩, ⟨1, 2, 0, 0, 5⟩] (reset 2) [] = .ok (rows, ents) ∧
    connectEos addI32 I32_MAX (fun _ _ => 1) rows 2 = .ok (c, pe, pi) ∧
    (match topPath rows 3 (pe, pi) [] with | .ok p => p.map (fun x => (x.node.b, x.node.e)) | _ => []) = [(0, 1), (1, 2)] :=
  ⟨_, _, _, _, _, rfl, rfl, rfl⟩

/-! ## clause "never … indexes out of bounds": the candidates of `build_lattice` lie inside the text -/

/-- **Every candidate `build_lattice` inserts is non-empty and ends inside the text** (`begin < end ≤ n`): dictionary
words (entered by the C04 look-up specification), MeCab candidates (grouped and per length), the Simple provider's
node and the regex provider's match — so `Lattice::insert` indexes `ends[begin]`/`ends[end]` in range.  Hypothesis
`BufOk`: the buffer has one class word and one word-start flag per character and every run of
`mod_cat_continuity` ends inside the text (`offset + cont[offset] ≤ n`).  (This is the `e ≤ n` lemma for MeCab
candidates that `tokenize_total_partial` used to assume.) -/
theorem candidates_inside_text (ps : List Provider) (lex : List Word) (buf : Buf) (hb : BufOk buf)
    (nodes : List Oov.Node) (h : buildLattice ps lex buf = .ok nodes) :
    ∀ x ∈ nodes, x.b < x.e ∧ x.e ≤ buf.chars.length :=
  buildLattice_cand ps lex buf hb nodes h

/-- the hypothesis `BufOk` is discharged for the buffer of `Model/Oov.lean` with the left-to-right run table
(`mkBufV .forward`, what the C13 correspondence ties to `InputBuffer::build` of the tree after
`fix: compute character-class runs left to right`; either word-start variant): all candidates lie inside the text -/
theorem candidates_inside_text_built (bowFix : Bool) (tab : List (Nat × Nat)) (chars : List Nat) (buf : Buf)
    (hbuf : mkBufV .forward bowFix tab chars = some buf) (ps : List Provider) (lex : List Word)
    (nodes : List Oov.Node) (h : buildLattice ps lex buf = .ok nodes) :
    ∀ x ∈ nodes, x.b < x.e ∧ x.e ≤ chars.length := by
  obtain ⟨hb, hc⟩ := mkBufV_forward_ok bowFix tab chars buf hbuf
  intro x hx
  have := candidates_inside_text ps lex buf hb nodes h x hx
  rw [hc] at this
  exact this

/-! ## clause "never panics (also with debug assertions on)": the regex provider and the empty match -/

/-- **the pinned provider (`skipEmpty = false`)**: the configuration `[a]{0,}` (relaxed boundaries) loads; on the
text `b` the pattern matches the empty string at offset 0 and `provide_oov` reaches `CreatedWords::single(0)`
(`debug_assert!(raw > 0)`): a panic in a debug build (directed case `regex-empty-match`; a release build inserts a
node of length 0).  The repaired provider returns no node for the same call. -/
theorem regex_empty_match_counterexample :
    regexProvide ⟨0, 0, 100, 0, [⟨[97], 0, none⟩], 8, false, false⟩ ⟨[98], [1], [1], [true]⟩ 0 0 []
      = .panic "CreatedWords::single(0)" ∧
    regexProvide ⟨0, 0, 100, 0, [⟨[97], 0, none⟩], 8, false, true⟩ ⟨[98], [1], [1], [true]⟩ 0 0 [] = .ok [] := by
  constructor <;> decide

/-- **The repaired provider (`skipEmpty = true`) never yields an empty node and never panics.**  For every
pattern (every list of alternatives, also ones that can match the empty string), every buffer, offset, created
mask and node buffer: (1) a node it returns begins at the offset, is non-empty and ends inside the text — in every
build profile, because the empty match is dropped before `CreatedWords` is consulted; (2) it never reaches
`CreatedWords::single(0)`; (3) at an offset inside a buffer that has one run length per character it does not
panic at all (the `cat_continuous_len` reads and the slice are in range). -/
theorem regex_fix_never_empty_node (cfg : RegexCfg) (hfix : cfg.skipEmpty = true) (buf : Buf) (o created : Nat)
    (existing : List Oov.Node) :
    (∀ nodes, regexProvide cfg buf o created existing = .ok nodes →
      ∀ x ∈ nodes, x.b = o ∧ x.b < x.e ∧ x.e ≤ buf.chars.length) ∧
    regexProvide cfg buf o created existing ≠ .panic "CreatedWords::single(0)" ∧
    (buf.cont.length = buf.chars.length → o < buf.chars.length →
      NoPanic (regexProvide cfg buf o created existing)) := by
  refine ⟨?_, ?_, fun hc ho => regexProvide_fix_noPanic cfg hfix buf hc o ho created existing⟩
  · intro nodes h x hx
    obtain ⟨h1, h2, h3⟩ := regexProvide_cand cfg buf o created existing nodes h x hx
    exact ⟨h1, by omega, h3⟩
  · intro h
    unfold regexProvide at h
    split at h
    · exact absurd (Outcome.panic.inj h) (by decide)
    · cases h
    · unfold regexCore at h
      simp only [hfix, ↓reduceIte] at h
      split at h
      · exact absurd (Outcome.panic.inj h) (by decide)
      · split at h
        · cases h
        · split at h
          · cases h
          · split at h
            · cases h
            · cases h
            · split at h <;> cases h

/-- non-vacuity: the repaired provider with the pattern `[a]{0,}` on `ba`: nothing at `b`, the node `1..2` at `a` -/
example : regexProvide ⟨0, 0, 100, 0, [⟨[97], 0, none⟩], 8, false, true⟩ ⟨[98, 97], [1, 1], [1, 1], [true, true]⟩ 0 0 [] = .ok [] ∧
    regexProvide ⟨0, 0, 100, 0, [⟨[97], 0, none⟩], 8, false, true⟩ ⟨[98, 97], [1, 1], [1, 1], [true, true]⟩ 1 0 []
      = .ok [⟨1, 2, 0, 0, 100, true, 0⟩] := by
  constructor <;> decide

/-! ## the composition: `do_tokenize` never panics -/

/-- Full statement wanted (`tokenize_total`): *for every text and every configuration that loaded
successfully the outcome of `tokenize` is `ok` or `err`, never `panic`; with a fallback provider last it is
`ok` whenever `|orig| ≤ 49149 ∧ |normalised| ≤ 65535`, and `err TooLong` beyond.*  It is FALSE for the code
(D7 overflow / sentinel; for the pinned guards also the running-length check — variant `lv = running`,
`commit_transient_counterexample` — and the regex provider's empty match — `skipEmpty = false`,
`regex_empty_match_counterexample`; the numeral loop of C14; before the commit
`fix: keep split units inside their parent token` also D6, ill-formed splits).

Proved (partial): the stages compose without a panic when
* `hplug`  the input-text plugins return edits or an error (bundled plugins: C07 `*_edits_ok`, `edits_ok_apply_total`);
* `hutf`   the rewritten text is valid UTF-8 (C08 `m2o_inv`: replacements are whole strings);
* `hlat`   the lattice builder does not panic (C13 proves "never Disconnect with a fallback last"; index safety of
           the providers under well-formed run tables is the missing component lemma; for the repaired regex
           provider (`skipEmpty`) `regex_fix_never_empty_node` shows it neither yields an empty node nor panics, whatever
           the pattern, so "no regex matches the empty string" is no longer part of this hypothesis);
* `hbuf`   the buffer `InputBuffer::build` produces has the shape `BufOk` (one class word / word-start flag per character,
           runs end inside the text); with it "every candidate is non-empty and inside the text" is PROVED
           (`candidates_inside_text`) — the former hypothesis `hnodes` is reduced to
* `hcost`  the candidates' word costs are `i16` values (they are read from `i16` fields of the dictionary / the plugin settings);
* `hconn`  the matrix is `i16`;
* `hbound` **the normalised text has at most 32767 characters** — the D7 hypothesis, not implied by the limits;
* `hrowsz` fewer than 65536 candidates end at any one boundary (the back-pointer's row index is a `u16`); with it the
           back-pointer walk and the `mod_c2b` lookups are PROVED in range (`lattice_index_in_range`, `utf8Decode_length_le`) —
           the former hypotheses `hpath`/`hres` are gone;
* `hrew`   word-info lookup and the path-rewrite plugins do not panic (C14 `join_katakana_total`; the numeral loop
           can diverge: C14 finding);
* `hsplit` ONLY for the variant `cur` (the code before the repair of D6): split units are well formed
           (`split_step_in_range`; D6 otherwise).  For the variant `d6fix` (the code that exists now) this hypothesis is
           GONE: `split_d6fix_never_out_of_range` + `tables_of_text` + `nchars_pos_of_utf8` show that `split_path` cannot
           panic on the tables of the rewritten text whatever the units are; what remains is
* `hkeep`  (variant `d6fix`) the word-info lookup / path-rewrite plugins keep the byte end of every node inside the text
           when the nodes they are given are (`concat_nodes` takes the end of the last node: C14 `join_*_coarsens`); that the
           nodes of `resolve_best_path` are inside the text is proved here (`resultNode_eb_le`).
Under the same hypotheses an input of more than 49149 bytes gives `err TooLong` (`tokenize_too_long`, unconditional).

CAVEAT (why `tokenize_total_at_partial` is the usable form): `hlat`, `hbuf`, `hcost` and `hrowsz` quantify over ALL
character sequences `chars`, not only over the rewritten text of `orig`.  For `hrowsz` this is not satisfiable by any
realistic configuration: `toVit` casts the candidate ends `as u16`, so over a text of 65536² characters the boundaries
`e₀ + 65536·k` (k < 65536) all count as `e₀`, and as soon as every position has a candidate (any configuration with a
fallback provider; `exampleCfg` below) 65536 of them "end at" `e₀`.  The theorem is true but vacuous for such
configurations.  `tokenize_total_at_partial` asks the same hypotheses only of the text that is reached (`Reaches`), where
`hbound` caps the length; `tokenize_total` and `tokenize_succeeds` are proved from it. -/
theorem tokenize_total_partial (v : SplitV) (lv : LenV) (cfg : Cfg) (orig : List Nat)
    (hplug : ∀ p ∈ cfg.inputPlugins, ∀ t, NoPanic (p t))
    (hutf : ∀ l0 l, startBuild orig = some l0 → rewriteInput lv cfg.inputPlugins l0 = .ok l →
      Wire.utf8Decode (textOf l) ≠ none)
    (hlat : ∀ chars, NoPanic (buildLattice cfg.providers cfg.lex (cfg.mkBuf chars)))
    (hbuf : ∀ chars, BufOk (cfg.mkBuf chars) ∧ (cfg.mkBuf chars).chars.length = chars.length)
    (hcost : ∀ chars nodes, buildLattice cfg.providers cfg.lex (cfg.mkBuf chars) = .ok nodes →
      ∀ x ∈ nodes, -32768 ≤ x.c ∧ x.c ≤ 32767)
    (hconn : I16Conn cfg.conn)
    (hbound : ∀ l0 l chars, startBuild orig = some l0 → rewriteInput lv cfg.inputPlugins l0 = .ok l →
      Wire.utf8Decode (textOf l) = some chars → chars.length ≤ 32767)
    (hrowsz : ∀ chars nodes, buildLattice cfg.providers cfg.lex (cfg.mkBuf chars) = .ok nodes →
      ∀ e, (nodes.map toVit).countP (fun n => n.e == e) ≤ 4294967295)
    (hrew : ∀ path, NoPanic (cfg.rewrite path))
    (hsplit : v = .cur → ∀ text path path', cfg.rewrite path = .ok path' →
      NoPanic (splitPath .cur (b2c text) (c2b text) path'))
    (hkeep : v = .d6fix → ∀ (nb : Nat) path path', (∀ q ∈ path, q.eb ≤ nb) → cfg.rewrite path = .ok path' →
      ∀ p ∈ path', p.1.eb ≤ nb) :
    NoPanic (tokenize v lv cfg orig) := by
  intro w h
  unfold tokenize at h
  cases h0 : startBuild orig with
  | none => rw [h0] at h; simp at h
  | some l0 =>
    rw [h0] at h; simp only [] at h
    cases h1 : rewriteInput lv cfg.inputPlugins l0 with
    | err k => rw [h1] at h; simp at h
    | panic w' => exact rewriteInput_noPanic lv _ _ hplug w' h1
    | ok l =>
      rw [h1] at h; simp only [] at h
      cases h2 : Wire.utf8Decode (textOf l) with
      | none => exact hutf l0 l h0 h1 h2
      | some chars =>
        rw [h2] at h; simp only [] at h
        split at h
        · simp at h
        · rename_i hne0
          have hne : chars.isEmpty = false := by
            cases hc : chars.isEmpty with
            | true => exact absurd hc hne0
            | false => rfl
          have hpos : 1 ≤ chars.length := by
            cases chars with
            | nil => simp at hne
            | cons _ _ => simp
          cases h3 : buildLattice cfg.providers cfg.lex (cfg.mkBuf chars) with
          | err k => rw [h3] at h; simp at h
          | panic w' => exact hlat chars w' h3
          | ok nodes =>
            rw [h3] at h; simp only [] at h
            have hlen := hbound l0 l chars h0 h1 h2
            have hnodes : ∀ n ∈ nodes.map toVit, NodeOk chars.length n := by
              intro n hn
              obtain ⟨x, hx, rfl⟩ := List.mem_map.mp hn
              obtain ⟨a1, a2⟩ := C03.candidates_inside_text cfg.providers cfg.lex (cfg.mkBuf chars) (hbuf chars).1 nodes h3 x hx
              rw [(hbuf chars).2] at a2
              obtain ⟨c1, c2⟩ := hcost chars nodes h3 x hx
              simp only [NodeOk, toVit]
              rw [asU16_id x.b (by omega), asU16_id x.e (by omega)]
              exact ⟨a1, a2, c1, c2⟩
            obtain ⟨rows, ents, hb1, hinv, _⟩ :=
              C03.cost_no_overflow_partial cfg.conn hconn chars.length hlen (nodes.map toVit) hnodes
            rw [hb1] at h; simp only [] at h
            cases h4 : connectEos addI32 I32_MAX cfg.conn rows chars.length with
            | err k => rw [h4] at h; simp at h
            | panic w' =>
              rcases connectEos_ok cfg.conn hconn chars.length hlen rows hinv with ⟨r, hr⟩ | hr
              · rw [hr] at h4; cases h4
              · rw [hr] at h4; cases h4
            | ok r =>
              obtain ⟨c, pe, pi⟩ := r
              rw [h4] at h; simp only [] at h
              obtain ⟨es, h5, _, path, h6⟩ := C03.lattice_index_in_range addI32 cfg.conn chars.length ⟨hpos, by omega⟩
                (nodes.map toVit) (fun n hn => ⟨(hnodes n hn).1, (hnodes n hn).2.1⟩)
                (hrowsz chars nodes h3) rows ents c pe pi hb1 h4 (textOf l)
                (utf8Decode_length_le _ (textOf l) chars (Nat.le_refl _) h2)
              rw [h5] at h; simp only [] at h
              rw [h6] at h; simp only [] at h
              cases h7 : cfg.rewrite path with
              | err k => rw [h7] at h; simp at h
              | panic w' => exact hrew path w' h7
              | ok path' =>
                rw [h7] at h; simp only [] at h
                cases h8 : splitPath v (b2c (textOf l)) (c2b (textOf l)) path' with
                | err k => rw [h8] at h; simp at h
                | ok ms => rw [h8] at h; simp at h
                | panic w' =>
                  cases v with
                  | cur => exact hsplit rfl (textOf l) path path' h7 w' h8
                  | d6fix =>
                    have hin : ∀ q ∈ path, q.eb ≤ (textOf l).length := by
                      intro q hq
                      obtain ⟨ent, _, hf⟩ := mapM_mem _ es path h6 q hq
                      exact (resultNode_eb_le (textOf l) ent q hf).2
                    obtain ⟨ms, hms⟩ := splitPath_d6fix_ok (b2c (textOf l)) (c2b (textOf l)) (textOf l).length
                      (tables_of_text (textOf l) (nchars_pos_of_utf8 (textOf l) chars h2 hne)) path'
                      (hkeep rfl (textOf l).length path path' hin h7)
                    rw [hms] at h8; cases h8

/-- **The composition, relative to the text that is reached** (generalises `tokenize_total_partial`, same proof).  In
`tokenize_total_partial` the hypotheses `hlat`, `hbuf`, `hcost`, `hrowsz` quantify over ALL character sequences, not only
over the rewritten text of `orig`.  For `hrowsz` that is not satisfiable by any realistic configuration: over a text of
65536² characters `toVit` casts the boundaries `e₀ + 65536·k` to the same `u16`, so 65536 candidates "end at" `e₀` as soon
as every position has one.  Here every component hypothesis is asked only of a text `chars` that `Reaches lv cfg orig`
(accepted by `start_build`, rewritten by the input-text plugins, decoded), which together with `hbound` makes them
satisfiable (non-vacuity: `totalCfg` below).  The remaining hypotheses are those of `tokenize_total_partial`. -/
theorem tokenize_total_at_partial (v : SplitV) (lv : LenV) (cfg : Cfg) (orig : List Nat)
    (hplug : ∀ p ∈ cfg.inputPlugins, ∀ t, NoPanic (p t))
    (hutf : ∀ l0 l, startBuild orig = some l0 → rewriteInput lv cfg.inputPlugins l0 = .ok l →
      Wire.utf8Decode (textOf l) ≠ none)
    (hlat : ∀ chars, Reaches lv cfg orig chars → NoPanic (buildLattice cfg.providers cfg.lex (cfg.mkBuf chars)))
    (hbuf : ∀ chars, Reaches lv cfg orig chars → BufOk (cfg.mkBuf chars) ∧ (cfg.mkBuf chars).chars.length = chars.length)
    (hcost : ∀ chars nodes, Reaches lv cfg orig chars → buildLattice cfg.providers cfg.lex (cfg.mkBuf chars) = .ok nodes →
      ∀ x ∈ nodes, -32768 ≤ x.c ∧ x.c ≤ 32767)
    (hconn : I16Conn cfg.conn)
    (hbound : ∀ chars, Reaches lv cfg orig chars → chars.length ≤ 32767)
    (hrowsz : ∀ chars nodes, Reaches lv cfg orig chars → buildLattice cfg.providers cfg.lex (cfg.mkBuf chars) = .ok nodes →
      ∀ e, (nodes.map toVit).countP (fun n => n.e == e) ≤ 4294967295)
    (hrew : ∀ path, NoPanic (cfg.rewrite path))
    (hsplit : v = .cur → ∀ text path path', cfg.rewrite path = .ok path' →
      NoPanic (splitPath .cur (b2c text) (c2b text) path'))
    (hkeep : v = .d6fix → ∀ (nb : Nat) path path', (∀ q ∈ path, q.eb ≤ nb) → cfg.rewrite path = .ok path' →
      ∀ p ∈ path', p.1.eb ≤ nb) :
    NoPanic (tokenize v lv cfg orig) := by
  intro w h
  unfold tokenize at h
  cases h0 : startBuild orig with
  | none => rw [h0] at h; simp at h
  | some l0 =>
    rw [h0] at h; simp only [] at h
    cases h1 : rewriteInput lv cfg.inputPlugins l0 with
    | err k => rw [h1] at h; simp at h
    | panic w' => exact rewriteInput_noPanic lv _ _ hplug w' h1
    | ok l =>
      rw [h1] at h; simp only [] at h
      cases h2 : Wire.utf8Decode (textOf l) with
      | none => exact hutf l0 l h0 h1 h2
      | some chars =>
        rw [h2] at h; simp only [] at h
        split at h
        · simp at h
        · rename_i hne0
          have hne : chars.isEmpty = false := by
            cases hc : chars.isEmpty with
            | true => exact absurd hc hne0
            | false => rfl
          have hpos : 1 ≤ chars.length := by
            cases chars with
            | nil => simp at hne
            | cons _ _ => simp
          cases h3 : buildLattice cfg.providers cfg.lex (cfg.mkBuf chars) with
          | err k => rw [h3] at h; simp at h
          | panic w' => exact hlat chars ⟨l0, l, h0, h1, h2⟩ w' h3
          | ok nodes =>
            rw [h3] at h; simp only [] at h
            have hr : Reaches lv cfg orig chars := ⟨l0, l, h0, h1, h2⟩
            have hlen := hbound chars hr
            have hnodes : ∀ n ∈ nodes.map toVit, NodeOk chars.length n := by
              intro n hn
              obtain ⟨x, hx, rfl⟩ := List.mem_map.mp hn
              obtain ⟨a1, a2⟩ := C03.candidates_inside_text cfg.providers cfg.lex (cfg.mkBuf chars) (hbuf chars hr).1 nodes h3 x hx
              rw [(hbuf chars hr).2] at a2
              obtain ⟨c1, c2⟩ := hcost chars nodes hr h3 x hx
              simp only [NodeOk, toVit]
              rw [asU16_id x.b (by omega), asU16_id x.e (by omega)]
              exact ⟨a1, a2, c1, c2⟩
            obtain ⟨rows, ents, hb1, hinv, _⟩ :=
              C03.cost_no_overflow_partial cfg.conn hconn chars.length hlen (nodes.map toVit) hnodes
            rw [hb1] at h; simp only [] at h
            cases h4 : connectEos addI32 I32_MAX cfg.conn rows chars.length with
            | err k => rw [h4] at h; simp at h
            | panic w' =>
              rcases connectEos_ok cfg.conn hconn chars.length hlen rows hinv with ⟨r, hr⟩ | hr
              · rw [hr] at h4; cases h4
              · rw [hr] at h4; cases h4
            | ok r =>
              obtain ⟨c, pe, pi⟩ := r
              rw [h4] at h; simp only [] at h
              obtain ⟨es, h5, _, path, h6⟩ := C03.lattice_index_in_range addI32 cfg.conn chars.length ⟨hpos, by omega⟩
                (nodes.map toVit) (fun n hn => ⟨(hnodes n hn).1, (hnodes n hn).2.1⟩)
                (hrowsz chars nodes hr h3) rows ents c pe pi hb1 h4 (textOf l)
                (utf8Decode_length_le _ (textOf l) chars (Nat.le_refl _) h2)
              rw [h5] at h; simp only [] at h
              rw [h6] at h; simp only [] at h
              cases h7 : cfg.rewrite path with
              | err k => rw [h7] at h; simp at h
              | panic w' => exact hrew path w' h7
              | ok path' =>
                rw [h7] at h; simp only [] at h
                cases h8 : splitPath v (b2c (textOf l)) (c2b (textOf l)) path' with
                | err k => rw [h8] at h; simp at h
                | ok ms => rw [h8] at h; simp at h
                | panic w' =>
                  cases v with
                  | cur => exact hsplit rfl (textOf l) path path' h7 w' h8
                  | d6fix =>
                    have hin : ∀ q ∈ path, q.eb ≤ (textOf l).length := by
                      intro q hq
                      obtain ⟨ent, _, hf⟩ := mapM_mem _ es path h6 q hq
                      exact (resultNode_eb_le (textOf l) ent q hf).2
                    obtain ⟨ms, hms⟩ := splitPath_d6fix_ok (b2c (textOf l)) (c2b (textOf l)) (textOf l).length
                      (tables_of_text (textOf l) (nchars_pos_of_utf8 (textOf l) chars h2 hne)) path'
                      (hkeep rfl (textOf l).length path path' hin h7)
                    rw [hms] at h8; cases h8

/-! ## the composition with the component hypotheses discharged -/

/-- **The lattice builder never panics** (the component lemma `tokenize_total_partial` assumed as `hlat`).  For a buffer
with the shape `InputBuffer::build` guarantees (`Oov.Buf.WF`: one class word, one run length and one word-start flag per
character, every run at least 1 and ending inside the text — C13 `built_buffer_well_formed`), at least one OOV provider
(`hprov`: `oov_providers.last().unwrap()` — the loader refuses a configuration without one) and every regex provider the
repaired one (`hregex`; false for the pinned provider: `regex_empty_match_counterexample`), `build_lattice` does not
panic, whatever the dictionary words, the provider settings and the text are. -/
theorem lattice_builder_never_panics (ps : List Provider) (hprov : ps ≠ [])
    (hregex : ∀ p ∈ ps, ∀ c, p = .regex c → c.skipEmpty = true) (lex : List Word) (buf : Buf) (hwf : buf.WF) :
    NoPanic (buildLattice ps lex buf) :=
  buildLattice_noPanic ps hprov hregex lex buf hwf

/-- `hprov` is needed: with an empty provider list a position without dictionary word reaches `last().unwrap()` -/
theorem lattice_builder_no_provider_counterexample :
    buildLattice [] [] ⟨[98], [1], [1], [true]⟩ = .panic "unwrap" := by decide

/-- **Clause "succeeds" for the lattice builder.**  With the fallback (Simple) provider configured last, the regex
providers repaired and a buffer as `InputBuffer::build` produces it, `build_lattice` RETURNS a lattice for every text:
no panic (`lattice_builder_never_panics`) and no `EosBosDisconnect` (C13 `lattice_never_disconnects`); every candidate
lies inside the text (`candidates_inside_text`).  What is still missing for the full "succeeds" clause of `tokenize`
(outcome `ok`, or `err TooLong` from the two length guards only): that `connect_eos` does not report `EosBosDisconnect`
under `hbound` — it needs "every stored total is a real cost, not the sentinel" (every candidate begins where an earlier
one ends: C13 `every_reachable_position_has_candidate`), i.e. `RowsInv` strengthened by connectedness; beyond `hbound`
it is false (`cost_sentinel_counterexample`, D7b). -/
theorem lattice_builder_succeeds (ps : List Provider) (cfg : SimpleCfg) (hlast : ps.getLast? = some (.simple cfg))
    (hregex : ∀ p ∈ ps, ∀ c, p = .regex c → c.skipEmpty = true) (lex : List Word) (buf : Buf) (hwf : buf.WF) :
    ∃ nodes, buildLattice ps lex buf = .ok nodes ∧ ∀ x ∈ nodes, x.b < x.e ∧ x.e ≤ buf.chars.length := by
  obtain ⟨nodes, h⟩ := buildLattice_ok ps cfg hlast hregex lex buf hwf
  exact ⟨nodes, h, buildLattice_cand ps lex buf (wf_bufOk buf hwf) nodes h⟩

/-- **Every candidate's word cost is a configured cost** (the former hypothesis `hcost`): when every lexicon word cost
and every provider cost (Simple / Regex `cost`, every MeCab `unk.def` line) is an `i16` value — they are parsed into
`i16` fields — so is the cost of every node `build_lattice` inserts. -/
theorem candidate_costs_i16 (ps : List Provider) (lex : List Word) (buf : Buf)
    (hlexcost : ∀ w ∈ lex, I16 w.c) (hprovcost : ∀ p ∈ ps, ProviderCostOk p) (nodes : List Oov.Node)
    (h : buildLattice ps lex buf = .ok nodes) : ∀ x ∈ nodes, -32768 ≤ x.c ∧ x.c ≤ 32767 :=
  buildLattice_cost ps lex buf hlexcost hprovcost nodes h

/-- **`InputBuffer::build` gives a well-formed buffer and is total** (the former hypothesis `hbuf`): whatever the
run-table variant and word-start variant, a built buffer is `Buf.WF`, hence `BufOk`, and holds the characters it was
built from; and over a strictly increasing class table — every compiled character definition is one
(`CharCat.sinc_compile`, C17) — the build is defined for every text (`builtBuf` is that buffer written out). -/
theorem built_buffer_ok (rv : Variant) (bowFix : Bool) (tab : List (Nat × Nat)) (chars : List Nat) :
    (∀ buf, mkBufV rv bowFix tab chars = some buf → buf.WF ∧ BufOk buf ∧ buf.chars = chars) ∧
    (CharCat.SInc (CharCat.fsts tab) → mkBufV rv bowFix tab chars = some (builtBuf rv bowFix tab chars)) :=
  ⟨fun buf h => mkBufV_ok rv bowFix tab chars buf h, fun hs => mkBufV_total rv bowFix tab hs chars⟩

/-- **`tokenize_total`: `do_tokenize` of the tree as it is now (D6 repaired: `v = d6fix`; either length guard `lv`)
never panics**, under the hypotheses that genuinely remain.  Proved from `tokenize_total_at_partial` (the composition
lemma `tokenize_total_partial` with its component hypotheses asked only of the text that is reached — `Reaches`); the
hypotheses `hlat`, `hbuf`, `hcost`, `hsplit` are discharged (`lattice_builder_never_panics`, `built_buffer_ok`,
`candidate_costs_i16`; `hsplit` concerns the variant `cur` only).

Configuration hypotheses (what a successfully loaded dictionary/configuration satisfies):
* `hmk`       the buffer is the modelled `InputBuffer::build` over a class table `tab` (any run-table variant `rv`, either
              word-start variant `bowFix`).  For a compiled character definition the build is total
              (`built_buffer_ok`, C17 `lookup_compile_eq_union`): see `tokenize_total_compiled`, where `hmk` is gone.
* `hprov`     at least one OOV provider is configured (the loader refuses a configuration without one; without it
              `lattice_builder_no_provider_counterexample`).
* `hregex`    every regex provider is the repaired one (`skipEmpty`) — for the pinned provider the statement is false
              (`regex_empty_match_counterexample`); the harness probes the tree for the variant.
* `hlexcost`, `hprovcost`  word costs of the lexicon and of the provider settings are `i16` values (their field type).
* `hconn`     the connection matrix holds `i16` values (its element type).
Remaining component hypotheses:
* `hplug`     the input-text plugins return edits or an error.  Bundled plugins: C07 `default_edits_ok`, `psm_edits_ok`,
              `yomigana_edits_ok` + `edits_ok_apply_total` show their edit lists are sorted, non-overlapping and in range and
              apply without a panic — on CODE POINTS; the glue to this model's byte-offset plugins (`edits_ok_bytes` +
              UTF-8 encoding of the replacements) is not formalised.  Gone without plugins (`tokenize_total_no_plugins`).
* `hutf`      the rewritten text is valid UTF-8: C08 `m2o_inv` (edits on character boundaries, whole-string replacements);
              what is missing is the lemma "`resolve` of boundary-aligned edits with UTF-8 replacements on a UTF-8 text decodes".
              Without plugins it is the `&str` guarantee of the input (`tokenize_total_no_plugins`).
* `hbound`    **the rewritten text (`Reaches`) has at most 32767 characters** — D7, a FINDING of the Rust code: beyond it the `i32`
              path cost can overflow (`cost_overflow_counterexample`; C02 `i32_lattice_eq_model` is stated for the same bound),
              so the theorem is stated for ≤ 32767 characters; the documented limits (49149 / 65535 bytes) do not imply it.
* `hrowsz`    fewer than 65536 candidates end at any one boundary of the rewritten text: nothing in the Rust code enforces
              it; beyond it the `u16` row index of the back-pointer wraps (`u16_cast_wraps_counterexample`) and the walk may
              read a wrong slot.  It follows from two bounds of the configuration — at most `K` candidates per position, each
              at most `L` characters, `K·L ≤ 65535` (`rows_from_configuration_bounds`).
* `hrew`      word-info lookup and the path-rewrite plugins do not panic: C14 proves termination (`rewrite_stack_total`,
              repaired numeral loop) and the coarsening, not index safety of the plugin loops (see `rewriteOfStack_noPanic`
              in `Proofs/TotalCompose.lean`: for a rewrite built from the C14 model this is exactly "`rewriteAll ≠ panic`").
              Gone without path-rewrite plugin (`tokenize_total_no_plugins`).
* `hkeep`     they keep every node's byte end inside the text when their input's are: follows from C14
              `boundaries_subset` (every output end is an input end: `keep_of_ends`, `rewriteOfStack_keep`); kept as a
              hypothesis because `Cfg.rewrite` is an arbitrary function here. -/
theorem tokenize_total (lv : LenV) (cfg : Cfg) (orig : List Nat)
    (rv : Variant) (bowFix : Bool) (tab : List (Nat × Nat))
    (hmk : ∀ chars, mkBufV rv bowFix tab chars = some (cfg.mkBuf chars))
    (hprov : cfg.providers ≠ [])
    (hregex : ∀ p ∈ cfg.providers, ∀ c, p = .regex c → c.skipEmpty = true)
    (hlexcost : ∀ w ∈ cfg.lex, I16 w.c)
    (hprovcost : ∀ p ∈ cfg.providers, ProviderCostOk p)
    (hconn : I16Conn cfg.conn)
    (hplug : ∀ p ∈ cfg.inputPlugins, ∀ t, NoPanic (p t))
    (hutf : ∀ l0 l, startBuild orig = some l0 → rewriteInput lv cfg.inputPlugins l0 = .ok l →
      Wire.utf8Decode (textOf l) ≠ none)
    (hbound : ∀ chars, Reaches lv cfg orig chars → chars.length ≤ 32767)
    (hrowsz : ∀ chars nodes, Reaches lv cfg orig chars → buildLattice cfg.providers cfg.lex (cfg.mkBuf chars) = .ok nodes →
      ∀ e, (nodes.map toVit).countP (fun n => n.e == e) ≤ 4294967295)
    (hrew : ∀ path, NoPanic (cfg.rewrite path))
    (hkeep : ∀ (nb : Nat) path path', (∀ q ∈ path, q.eb ≤ nb) → cfg.rewrite path = .ok path' →
      ∀ p ∈ path', p.1.eb ≤ nb) :
    NoPanic (tokenize .d6fix lv cfg orig) := by
  have hb := fun chars => mkBufV_ok rv bowFix tab chars (cfg.mkBuf chars) (hmk chars)
  refine tokenize_total_at_partial .d6fix lv cfg orig hplug hutf
    (fun chars _ => buildLattice_noPanic cfg.providers hprov hregex cfg.lex _ (hb chars).1)
    (fun chars _ => ⟨(hb chars).2.1, by rw [(hb chars).2.2]⟩)
    (fun chars nodes _ h => buildLattice_cost cfg.providers cfg.lex _ hlexcost hprovcost nodes h)
    hconn hbound hrowsz hrew (fun h => by cases h) (fun _ => hkeep)

/-- **`hrowsz` from two bounds of the configuration.**  If at every position `build_lattice` inserts at most `K`
candidates (`stepAt`), each beginning there and at most `L` characters long, then at most `K·L` candidates end at any
one boundary; with `K·L ≤ 65535` and a text of at most 65535 characters (so that the `as u16` casts of the node ends are
the identity) this is the hypothesis `hrowsz` of `tokenize_total`.  (For configurations without MeCab provider
`K = |lexicon entries| + |providers| + 1` and `L` = the longest surface / regex `maxLength`: `rows_small` in
`Proofs/TotalCompose.lean`, used for `totalCfg` below.) -/
theorem rows_from_configuration_bounds (ps : List Provider) (lex : List Word) (buf : Buf) (K L : Nat)
    (hK : ∀ p new, stepAt ps lex buf p = .ok new → new.length ≤ K ∧ ∀ x ∈ new, x.b = p ∧ x.b < x.e ∧ x.e ≤ x.b + L)
    (hKL : K * L ≤ 65535) (hb : BufOk buf) (hn : buf.chars.length ≤ 65535)
    (nodes : List Oov.Node) (h : buildLattice ps lex buf = .ok nodes) (e : Nat) :
    (nodes.map toVit).countP (fun n => n.e == e) ≤ 65535 := by
  have hin := buildLattice_cand ps lex buf hb nodes h
  refine Nat.le_trans (countP_toVit nodes (fun x hx => by have := (hin x hx).2; omega) e) ?_
  exact Nat.le_trans (buildLattice_rows ps lex buf K L hK nodes h e) hKL

/-! ### non-vacuity of `tokenize_total`: one configuration that satisfies all its hypotheses at once -/

/-- all hypotheses of `tokenize_total` (`hmk`, `hprov`, `hregex`, `hlexcost`, `hprovcost`, `hconn`, `hplug`, `hutf`,
`hbound`, `hrowsz`, `hrew`, `hkeep`) hold together for `totalCfg` on the text `ab` with either length guard; `Reaches`,
`I16`, `ProviderCostOk`, `SmallProvider` are inhabited on the way -/
example (lv : LenV) :
    (∀ chars, mkBufV .forward true [] chars = some (totalCfg.mkBuf chars)) ∧
    totalCfg.providers ≠ [] ∧
    (∀ p ∈ totalCfg.providers, ∀ c, p = .regex c → c.skipEmpty = true) ∧
    (∀ w ∈ totalCfg.lex, I16 w.c) ∧
    (∀ p ∈ totalCfg.providers, ProviderCostOk p) ∧
    I16Conn totalCfg.conn ∧
    (∀ p ∈ totalCfg.inputPlugins, ∀ t, NoPanic (p t)) ∧
    (∀ l0 l, startBuild [97, 98] = some l0 → rewriteInput lv totalCfg.inputPlugins l0 = .ok l →
      Wire.utf8Decode (textOf l) ≠ none) ∧
    Reaches lv totalCfg [97, 98] [97, 98] ∧
    (∀ chars, Reaches lv totalCfg [97, 98] chars → chars.length ≤ 32767) ∧
    (∀ chars nodes, Reaches lv totalCfg [97, 98] chars →
      buildLattice totalCfg.providers totalCfg.lex (totalCfg.mkBuf chars) = .ok nodes →
      ∀ e, (nodes.map toVit).countP (fun n => n.e == e) ≤ 65535) ∧
    (∀ path, NoPanic (totalCfg.rewrite path)) ∧
    (∀ (nb : Nat) path path', (∀ q ∈ path, q.eb ≤ nb) → totalCfg.rewrite path = .ok path' →
      ∀ p ∈ path', p.1.eb ≤ nb) := by
  have hmk : ∀ chars, mkBufV .forward true [] chars = some (totalCfg.mkBuf chars) :=
    fun chars => mkBufV_total .forward true [] (by simp [CharCat.fsts, CharCat.SInc]) chars
  have hdec : ∀ chars, Reaches lv totalCfg [97, 98] chars → chars = [97, 98] := by
    intro chars hr
    have h := totalCfg_reaches lv _ _ hr
    rw [utf8_ab] at h; cases h; rfl
  refine ⟨hmk, by simp [totalCfg], ?_, ?_, ?_, ?_, ?_, ?_, ?_, ?_, ?_, ?_, ?_⟩
  · intro p hp c hc
    simp only [totalCfg, List.mem_cons, List.not_mem_nil, or_false] at hp
    rcases hp with rfl | rfl
    · cases hc; rfl
    · cases hc
  · intro w hw
    simp only [totalCfg, List.mem_singleton] at hw
    subst hw; simp [I16]
  · intro p hp
    simp only [totalCfg, List.mem_cons, List.not_mem_nil, or_false] at hp
    rcases hp with rfl | rfl <;> simp [ProviderCostOk, I16]
  · intro a b; constructor <;> simp [totalCfg]
  · intro p hp t w h
    simp only [totalCfg, List.mem_singleton] at hp
    subst hp; cases h
  · intro l0 l h0 h1
    have hr : ∀ chars, Wire.utf8Decode (textOf l) = some chars → chars = [97, 98] :=
      fun chars h2 => hdec chars ⟨l0, l, h0, h1, h2⟩
    intro hn
    cases h2 : Wire.utf8Decode (textOf l) with
    | some cs => rw [h2] at hn; cases hn
    | none =>
      have : l = l0 := by
        simp only [totalCfg, rewriteInput, commitV, List.isEmpty_nil, if_true] at h1
        cases h1; rfl
      subst this
      rw [startBuild_text _ l h0] at h2
      rw [utf8_ab] at h2; cases h2
  · refine ⟨identFrom 0 [97, 98], identFrom 0 [97, 98], by decide, ?_, ?_⟩
    · simp [totalCfg, rewriteInput, commitV]
    · rw [textOf_identFrom]; exact utf8_ab
  · intro chars hr; rw [hdec chars hr]; decide
  · intro chars nodes hr h e
    have hb := mkBufV_ok .forward true [] chars _ (hmk chars)
    refine rows_small 8 _ _ _ hb.1 (by rw [hb.2.2, hdec chars hr]; decide) ?_ ?_ (by decide) nodes h e
    · intro p hp
      simp only [totalCfg, List.mem_cons, List.not_mem_nil, or_false] at hp
      rcases hp with rfl | rfl
      · show (8 : Nat) ≤ 8; omega
      · exact ⟨builtBuf_nil_bow .forward true chars, by omega⟩
    · intro w hw
      simp only [totalCfg, List.mem_singleton] at hw
      subst hw; simp
  · intro path w h; cases h
  · intro nb path path' hin h p hp
    simp only [totalCfg] at h
    cases h
    obtain ⟨q, hq, rfl⟩ := List.mem_map.mp hp
    exact hin q hq

/-- … and the analysis of `ab` with that configuration runs through every stage: two morphemes (`a` from the lexicon,
`b` from the Simple provider; the regex provider's empty match at `b` is skipped) -/
example : morphCount (tokenize .d6fix .final totalCfg [97, 98]) = some 2 := by
  simp [tokenize, startBuild, MAX_LENGTH, identFrom, totalCfg, rewriteInput, commitV, textOf, Wire.utf8Decode, builtBuf,
    CharCat.denF, CharCat.DEFAULT, Oov.fillCatContinuity, Oov.fillCatContinuityForward, Oov.scan, Oov.countdown]
  decide

/-- non-vacuity of `lattice_builder_succeeds` / `lattice_builder_never_panics`: `totalCfg`'s providers end with the Simple
provider, its regex provider is the repaired one, and its buffer over `ab` is well formed -/
example : totalCfg.providers.getLast? = some (.simple ⟨0, 0, 100, 0⟩) ∧ (totalCfg.mkBuf [97, 98]).WF :=
  ⟨rfl, (mkBufV_ok .forward true [] [97, 98] _
    (mkBufV_total .forward true [] (by simp [CharCat.fsts, CharCat.SInc]) [97, 98])).1⟩

/-- `tokenize_total` for a configuration whose buffer is built over a COMPILED character definition
(`CharCat.compile rs`, any definition lines `rs`): the hypothesis `hmk` is replaced by the definitional equation
`hbuild`; that the class look-up never leaves the table is C17 (`CharCat.lookup_eq_denF`, `sinc_compile`). -/
theorem tokenize_total_compiled (lv : LenV) (cfg : Cfg) (orig : List Nat)
    (rv : Variant) (bowFix : Bool) (rs : List CharCat.CatRange)
    (hbuild : cfg.mkBuf = builtBuf rv bowFix (CharCat.compile rs))
    (hprov : cfg.providers ≠ [])
    (hregex : ∀ p ∈ cfg.providers, ∀ c, p = .regex c → c.skipEmpty = true)
    (hlexcost : ∀ w ∈ cfg.lex, I16 w.c)
    (hprovcost : ∀ p ∈ cfg.providers, ProviderCostOk p)
    (hconn : I16Conn cfg.conn)
    (hplug : ∀ p ∈ cfg.inputPlugins, ∀ t, NoPanic (p t))
    (hutf : ∀ l0 l, startBuild orig = some l0 → rewriteInput lv cfg.inputPlugins l0 = .ok l →
      Wire.utf8Decode (textOf l) ≠ none)
    (hbound : ∀ chars, Reaches lv cfg orig chars → chars.length ≤ 32767)
    (hrowsz : ∀ chars nodes, Reaches lv cfg orig chars → buildLattice cfg.providers cfg.lex (cfg.mkBuf chars) = .ok nodes →
      ∀ e, (nodes.map toVit).countP (fun n => n.e == e) ≤ 4294967295)
    (hrew : ∀ path, NoPanic (cfg.rewrite path))
    (hkeep : ∀ (nb : Nat) path path', (∀ q ∈ path, q.eb ≤ nb) → cfg.rewrite path = .ok path' →
      ∀ p ∈ path', p.1.eb ≤ nb) :
    NoPanic (tokenize .d6fix lv cfg orig) :=
  tokenize_total lv cfg orig rv bowFix (CharCat.compile rs)
    (fun chars => by rw [hbuild]; exact mkBufV_compile_total rv bowFix rs chars)
    hprov hregex hlexcost hprovcost hconn hplug hutf hbound hrowsz hrew hkeep

/-- **No input-text plugin, no path-rewrite plugin** (`hnoplug`, `hnorew`: the word-info look-up yields any per-node unit
table `units`): `hplug`, `hutf`, `hrew`, `hkeep` are gone.  What remains besides the configuration hypotheses: the input is
valid UTF-8 (`hstr`: the `&str` type of the argument guarantees it), D7 (`hbound`, now on the input itself) and `hrowsz`. -/
theorem tokenize_total_no_plugins (lv : LenV) (cfg : Cfg) (orig : List Nat)
    (rv : Variant) (bowFix : Bool) (tab : List (Nat × Nat)) (units : EditM.NodeRange → List Nat)
    (hnoplug : cfg.inputPlugins = [])
    (hnorew : cfg.rewrite = fun p => .ok (p.map (fun n => (n, units n))))
    (hmk : ∀ chars, mkBufV rv bowFix tab chars = some (cfg.mkBuf chars))
    (hprov : cfg.providers ≠ [])
    (hregex : ∀ p ∈ cfg.providers, ∀ c, p = .regex c → c.skipEmpty = true)
    (hlexcost : ∀ w ∈ cfg.lex, I16 w.c)
    (hprovcost : ∀ p ∈ cfg.providers, ProviderCostOk p)
    (hconn : I16Conn cfg.conn)
    (hstr : Wire.utf8Decode orig ≠ none)
    (hbound : ∀ chars, Wire.utf8Decode orig = some chars → chars.length ≤ 32767)
    (hrowsz : ∀ chars nodes, Wire.utf8Decode orig = some chars →
      buildLattice cfg.providers cfg.lex (cfg.mkBuf chars) = .ok nodes →
      ∀ e, (nodes.map toVit).countP (fun n => n.e == e) ≤ 4294967295) :
    NoPanic (tokenize .d6fix lv cfg orig) := by
  have htext : ∀ l0 l, startBuild orig = some l0 → rewriteInput lv cfg.inputPlugins l0 = .ok l → textOf l = orig := by
    intro l0 l h0 h1
    rw [hnoplug, rewriteInput_nil] at h1
    cases h1
    exact startBuild_text orig l0 h0
  refine tokenize_total lv cfg orig rv bowFix tab hmk hprov hregex hlexcost hprovcost hconn ?_ ?_ ?_ ?_ ?_ ?_
  · intro p hp; rw [hnoplug] at hp; cases hp
  · intro l0 l h0 h1; rw [htext l0 l h0 h1]; exact hstr
  · intro chars hr; exact hbound chars (reaches_nil lv cfg hnoplug orig chars hr)
  · intro chars nodes hr; exact hrowsz chars nodes (reaches_nil lv cfg hnoplug orig chars hr)
  · intro path w h; rw [hnorew] at h; cases h
  · intro nb path path' hin h p hp
    rw [hnorew] at h
    cases h
    obtain ⟨q, hq, rfl⟩ := List.mem_map.mp hp
    exact hin q hq

/-! ## clause "succeeds within the limits" -/

/-- **`tokenize_succeeds`: within the cost bound `do_tokenize` returns morphemes or input-too-long, nothing else.**
With the fallback (Simple) provider LAST (`hlast`), the hypotheses of `tokenize_total` (tree with D6 repaired; either length
guard `lv`), and the plugins / the rewrite stage returning no error of their own (`hplugok`, `hrewok`, which replace `hplug`,
`hrew`), the outcome of `tokenize` is `ok r` or `err TooLong` — never a panic (`tokenize_total`), never
`EosBosDisconnect`:
* `build_lattice` cannot report it (C13 `lattice_never_disconnects`; `lattice_builder_succeeds`);
* `connect_eos` cannot report it under `hbound`: every candidate begins at 0 or where an earlier candidate ends (the
  `reachable` test of the position loop: `buildLattice_chain`), the candidates are inserted in that order, so by induction
  every stored total is a REAL cost within `± 65536·e` (`ConnRows` = `RowsInv` strengthened by connectedness:
  `buildAll_conn`); `connect_node` over a non-empty row of real costs returns a cost `≤ 65536·len + 32768 < i32::MAX`
  (`connGo_conn`), so it cannot coincide with the "not connected" sentinel, and some candidate ends at the end of the text
  (`lattice_connects`).  Beyond `hbound` this is false: `cost_sentinel_counterexample` (D7b);
* `fill_top_path`, `resolve_best_path`, `split_path` have no error exit (`topPath_ne_err`, `mapM_ne_err`, `splitPath_ne_err`).
Moreover the input-too-long error comes from exactly two places (second conjunct): `start_build`, i.e. the input has more
than 49149 bytes (`start_build_limit`; conversely `tokenize_too_long`), or a `commit` of `rewrite_input`.  For the repaired
guard (`lv = final`) a commit of a non-empty `EditsOk` batch on a `Shape` buffer fails exactly when the rewritten text is
longer than 65535 bytes (`commit_final_too_long_iff`), so for `lv = final`: **`err TooLong` iff the input exceeds 49149 bytes
or a plugin's rewritten text exceeds 65535 bytes, `ok` otherwise** (within `hbound`).  For `lv = running` the commit may
also fail on a transient length (`commit_transient_counterexample`: finding).  Without input-text plugin:
`tokenize_succeeds_within_limits`. -/
theorem tokenize_succeeds (lv : LenV) (cfg : Cfg) (orig : List Nat)
    (rv : Variant) (bowFix : Bool) (tab : List (Nat × Nat)) (sc : SimpleCfg)
    (hlast : cfg.providers.getLast? = some (.simple sc))
    (hmk : ∀ chars, mkBufV rv bowFix tab chars = some (cfg.mkBuf chars))
    (hregex : ∀ p ∈ cfg.providers, ∀ c, p = .regex c → c.skipEmpty = true)
    (hlexcost : ∀ w ∈ cfg.lex, I16 w.c)
    (hprovcost : ∀ p ∈ cfg.providers, ProviderCostOk p)
    (hconn : I16Conn cfg.conn)
    (hplugok : ∀ p ∈ cfg.inputPlugins, ∀ t, ∃ es, p t = .ok es)
    (hutf : ∀ l0 l, startBuild orig = some l0 → rewriteInput lv cfg.inputPlugins l0 = .ok l →
      Wire.utf8Decode (textOf l) ≠ none)
    (hbound : ∀ chars, Reaches lv cfg orig chars → chars.length ≤ 32767)
    (hrowsz : ∀ chars nodes, Reaches lv cfg orig chars → buildLattice cfg.providers cfg.lex (cfg.mkBuf chars) = .ok nodes →
      ∀ e, (nodes.map toVit).countP (fun n => n.e == e) ≤ 4294967295)
    (hrewok : ∀ path, ∃ path', cfg.rewrite path = .ok path')
    (hkeep : ∀ (nb : Nat) path path', (∀ q ∈ path, q.eb ≤ nb) → cfg.rewrite path = .ok path' →
      ∀ p ∈ path', p.1.eb ≤ nb) :
    (∃ r, tokenize .d6fix lv cfg orig = .ok r) ∨
    (tokenize .d6fix lv cfg orig = .err "TooLong" ∧
      (orig.length > 49149 ∨ ∃ l0, startBuild orig = some l0 ∧ rewriteInput lv cfg.inputPlugins l0 = .err "TooLong")) := by
  have hprov : cfg.providers ≠ [] := by intro h; rw [h] at hlast; cases hlast
  have hnp := tokenize_total lv cfg orig rv bowFix tab hmk hprov hregex hlexcost hprovcost hconn
    (fun p hp t w h => by obtain ⟨es, he⟩ := hplugok p hp t; rw [he] at h; cases h) hutf hbound hrowsz
    (fun path w h => by obtain ⟨p', he⟩ := hrewok path; rw [he] at h; cases h) hkeep
  have hb := fun chars => mkBufV_ok rv bowFix tab chars (cfg.mkBuf chars) (hmk chars)
  cases h : tokenize .d6fix lv cfg orig with
  | ok r => exact Or.inl ⟨r, rfl⟩
  | panic w => exact absurd h (hnp w)
  | err k =>
    right
    obtain ⟨hk, hsrc⟩ := tokenize_err_tooLong .d6fix lv cfg orig k hplugok hrewok
      (fun chars k' _ => buildLattice_ne_err cfg.providers sc cfg.lex _ (hb chars).1 hlast k')
      (by
        intro chars nodes rows ents k' hr hne h3 h4 h5
        have hl : (cfg.mkBuf chars).chars.length = chars.length := by rw [(hb chars).2.2]
        obtain ⟨rows', ents', r, g1, g2⟩ := lattice_connects cfg.providers cfg.lex (cfg.mkBuf chars) (hb chars).1 cfg.conn
          hconn (by rw [hl]; exact hbound chars hr) (by rw [hl]; intro e; exact hne (List.length_eq_zero_iff.mp e))
          nodes h3 (buildLattice_cost cfg.providers cfg.lex _ hlexcost hprovcost nodes h3)
        rw [hl] at g1 g2
        rw [h4] at g1
        cases g1
        rw [g2] at h5
        cases h5) h
    subst hk
    refine ⟨rfl, ?_⟩
    rcases hsrc with h0 | h0
    · exact Or.inl ((start_build_limit orig).1 h0)
    · exact Or.inr h0

/-- **Within the limits the analysis succeeds** (no input-text plugin, so the only length limit is the first one): an input
of at most 49149 bytes — valid UTF-8 (`hstr`), at most 32767 characters (`hbound`, D7) — is analysed into morphemes:
`tokenize` returns `ok`.  (Beyond 49149 bytes: `tokenize_too_long`.) -/
theorem tokenize_succeeds_within_limits (lv : LenV) (cfg : Cfg) (orig : List Nat)
    (rv : Variant) (bowFix : Bool) (tab : List (Nat × Nat)) (sc : SimpleCfg)
    (hlast : cfg.providers.getLast? = some (.simple sc))
    (hnoplug : cfg.inputPlugins = [])
    (hmk : ∀ chars, mkBufV rv bowFix tab chars = some (cfg.mkBuf chars))
    (hregex : ∀ p ∈ cfg.providers, ∀ c, p = .regex c → c.skipEmpty = true)
    (hlexcost : ∀ w ∈ cfg.lex, I16 w.c)
    (hprovcost : ∀ p ∈ cfg.providers, ProviderCostOk p)
    (hconn : I16Conn cfg.conn)
    (hlimit : orig.length ≤ 49149)
    (hstr : Wire.utf8Decode orig ≠ none)
    (hbound : ∀ chars, Wire.utf8Decode orig = some chars → chars.length ≤ 32767)
    (hrowsz : ∀ chars nodes, Wire.utf8Decode orig = some chars →
      buildLattice cfg.providers cfg.lex (cfg.mkBuf chars) = .ok nodes →
      ∀ e, (nodes.map toVit).countP (fun n => n.e == e) ≤ 4294967295)
    (hrewok : ∀ path, ∃ path', cfg.rewrite path = .ok path')
    (hkeep : ∀ (nb : Nat) path path', (∀ q ∈ path, q.eb ≤ nb) → cfg.rewrite path = .ok path' →
      ∀ p ∈ path', p.1.eb ≤ nb) :
    ∃ r, tokenize .d6fix lv cfg orig = .ok r := by
  have htext : ∀ l0 l, startBuild orig = some l0 → rewriteInput lv cfg.inputPlugins l0 = .ok l → textOf l = orig := by
    intro l0 l h0 h1
    rw [hnoplug, rewriteInput_nil] at h1
    cases h1
    exact startBuild_text orig l0 h0
  rcases tokenize_succeeds lv cfg orig rv bowFix tab sc hlast hmk hregex hlexcost hprovcost hconn
    (fun p hp => by rw [hnoplug] at hp; cases hp)
    (fun l0 l h0 h1 => by rw [htext l0 l h0 h1]; exact hstr)
    (fun chars hr => hbound chars (reaches_nil lv cfg hnoplug orig chars hr))
    (fun chars nodes hr => hrowsz chars nodes (reaches_nil lv cfg hnoplug orig chars hr))
    hrewok hkeep with h | ⟨_, h | ⟨l0, _, h1⟩⟩
  · exact h
  · omega
  · rw [hnoplug, rewriteInput_nil] at h1; cases h1

/-- non-vacuity of the new hypotheses of `tokenize_succeeds` / `tokenize_succeeds_within_limits`: `totalCfg` has the
Simple provider last (`hlast`), its plugin and its rewrite stage return no error (`hplugok`, `hrewok`); `exampleCfg`'s
relative without plugin (`hnoplug`) — the other hypotheses are those of `tokenize_total`, satisfied by `totalCfg` on `ab`
(example above), where the analysis indeed returns `ok` (two morphemes, example above) -/
example : totalCfg.providers.getLast? = some (.simple ⟨0, 0, 100, 0⟩) ∧
    (∀ p ∈ totalCfg.inputPlugins, ∀ t, ∃ es, p t = .ok es) ∧
    (∀ path, ∃ path', totalCfg.rewrite path = .ok path') ∧
    ({ totalCfg with inputPlugins := [] } : Cfg).inputPlugins = [] ∧ ([97, 98] : List Nat).length ≤ 49149 := by
  refine ⟨rfl, ?_, fun path => ⟨_, rfl⟩, rfl, by decide⟩
  intro p hp t
  simp only [totalCfg, List.mem_singleton] at hp
  subst hp
  exact ⟨[], rfl⟩

/-! ## clause "every accessor of every returned morpheme is safe to call": the morphemes of a result -/

/-- The full statement — *for every morpheme `m` of an `ok` result, `access orig r.tables m` (`begin`, `end`, `begin_c`,
`end_c`, `surface`) does not panic* — is now PROVED: `morpheme_access_total` below (depth round 2, from
`C01.tokens_partition_original`).  This older, weaker theorem is kept because it needs fewer hypotheses (no `horig`, no
`PluginOk`, any rewrite stage that keeps offsets inside the text).  Proved here (partial): **`begin()`/`end()` (`morphRangeC`:
`mod_c2b` then `m2o`) and the byte route of `surface()` (`morphRangeB`: `m2o[begin_bytes]..m2o[end_bytes]`) are defined for
every morpheme of the result**, and `begin`/`end` lie inside the original text — because all four offsets of every morpheme
lie inside the rewritten text (`InText`): the nodes of `resolve_best_path` do (`lattice_index_in_range`,
`resultNode_inText`), the rewrite stage keeps that (`hkeepall`: every offset of an output node is an offset of an input node,
C14 `boundaries_subset`), and the repaired split iterator only produces offsets read from `mod_b2c`/`mod_c2b` or taken from
the parent (`splitPath_d6fix_inText`, for ANY unit lengths).  `hinv` is the C08 invariant of the result's offset map
(`C08.m2o_inv`; without plugin `EditM.ident_inv`).  Missing for the full statement: `begin_c`/`end_c` (`to_orig_char_idx`:
the `m2o` image of a character start is a character start of the original — C08 `Inv` has it, the glue is not done) and the
slice `&original[a..b]` (`a ≤ b` on character boundaries: needs the units to begin/end on character starts,
`split_d6fix_units_inside_parent`, and the rewrite stage to keep `begin ≤ end`); those stay tied by the `access`
correspondence. -/
theorem morpheme_offsets_defined_partial (lv : LenV) (cfg : Cfg) (orig : List Nat)
    (rv : Variant) (bowFix : Bool) (tab : List (Nat × Nat))
    (hmk : ∀ chars, mkBufV rv bowFix tab chars = some (cfg.mkBuf chars))
    (hbound : ∀ chars, Reaches lv cfg orig chars → chars.length ≤ 32767)
    (hrowsz : ∀ chars nodes, Reaches lv cfg orig chars → buildLattice cfg.providers cfg.lex (cfg.mkBuf chars) = .ok nodes →
      ∀ e, (nodes.map toVit).countP (fun n => n.e == e) ≤ 4294967295)
    (hkeepall : ∀ (t : List Nat) path path', (∀ q ∈ path, InText t q) → cfg.rewrite path = .ok path' →
      ∀ p ∈ path', InText t p.1)
    (r : Result) (h : tokenize .d6fix lv cfg orig = .ok r)
    {st : Nat → Bool} {Bo : Nat → Prop} {N : Nat} (hinv : Inv st Bo N r.tables) :
    ∀ m ∈ r.morphs, InText (textOf r.tables) m ∧
      (∃ b e, morphRangeC r.tables m = some (b, e) ∧ b ≤ N ∧ e ≤ N) ∧ (∃ b e, morphRangeB r.tables m = some (b, e)) := by
  have key : ∀ m ∈ r.morphs, InText (textOf r.tables) m := by
    unfold tokenize at h
    cases h0 : startBuild orig with
    | none => rw [h0] at h; simp at h
    | some l0 =>
      rw [h0] at h; simp only [] at h
      cases h1 : rewriteInput lv cfg.inputPlugins l0 with
      | err k => rw [h1] at h; simp at h
      | panic w' => rw [h1] at h; simp at h
      | ok l =>
        rw [h1] at h; simp only [] at h
        cases h2 : Wire.utf8Decode (textOf l) with
        | none => rw [h2] at h; simp at h
        | some chars =>
          rw [h2] at h; simp only [] at h
          split at h
          · cases h; intro m hm; cases hm
          · rename_i hne0
            have hne : chars.isEmpty = false := by
              cases hc : chars.isEmpty with
              | true => exact absurd hc hne0
              | false => rfl
            have hpos : 1 ≤ chars.length := by
              cases chars with
              | nil => simp at hne
              | cons _ _ => simp
            have hr : Reaches lv cfg orig chars := ⟨l0, l, h0, h1, h2⟩
            have hb := mkBufV_ok rv bowFix tab chars (cfg.mkBuf chars) (hmk chars)
            have hlen := hbound chars hr
            have hnc := utf8Decode_length_le _ (textOf l) chars (Nat.le_refl _) h2
            have hn1 := nchars_pos_of_utf8 (textOf l) chars h2 hne
            cases h3 : buildLattice cfg.providers cfg.lex (cfg.mkBuf chars) with
            | err k => rw [h3] at h; simp at h
            | panic w' => rw [h3] at h; simp at h
            | ok nodes =>
              rw [h3] at h; simp only [] at h
              have hnodes : ∀ n ∈ nodes.map toVit, n.b < n.e ∧ n.e ≤ chars.length := by
                intro n hn
                obtain ⟨x, hx, rfl⟩ := List.mem_map.mp hn
                obtain ⟨a1, a2⟩ := buildLattice_cand cfg.providers cfg.lex (cfg.mkBuf chars) hb.2.1 nodes h3 x hx
                rw [hb.2.2] at a2
                simp only [toVit]
                rw [asU16_id x.b (by omega), asU16_id x.e (by omega)]
                exact ⟨a1, a2⟩
              cases h4 : buildAll addI32 I32_MAX cfg.conn (nodes.map toVit) (reset chars.length) [] with
              | err k => rw [h4] at h; simp at h
              | panic w' => rw [h4] at h; simp at h
              | ok r4 =>
                obtain ⟨rows, ents⟩ := r4
                rw [h4] at h; simp only [] at h
                cases h5 : connectEos addI32 I32_MAX cfg.conn rows chars.length with
                | err k => rw [h5] at h; simp at h
                | panic w' => rw [h5] at h; simp at h
                | ok r5 =>
                  obtain ⟨c, pe, pi⟩ := r5
                  rw [h5] at h; simp only [] at h
                  obtain ⟨es, h6, hes, path, h7⟩ := C03.lattice_index_in_range addI32 cfg.conn chars.length ⟨hpos, by omega⟩
                    (nodes.map toVit) hnodes (hrowsz chars nodes hr h3) rows ents c pe pi h4 h5 (textOf l) hnc
                  rw [h6] at h; simp only [] at h
                  rw [h7] at h; simp only [] at h
                  have hpath : ∀ q ∈ path, InText (textOf l) q := by
                    intro q hq
                    obtain ⟨ent, hent, hf⟩ := mapM_mem _ es path h7 q hq
                    obtain ⟨a1, a2⟩ := hes ent hent
                    exact resultNode_inText (textOf l) ent q hf (by omega) (by omega)
                  cases h8 : cfg.rewrite path with
                  | err k => rw [h8] at h; simp at h
                  | panic w' => rw [h8] at h; simp at h
                  | ok path' =>
                    rw [h8] at h; simp only [] at h
                    cases h9 : splitPath .d6fix (b2c (textOf l)) (c2b (textOf l)) path' with
                    | err k => rw [h9] at h; simp at h
                    | panic w' => rw [h9] at h; simp at h
                    | ok ms =>
                      rw [h9] at h; simp only [] at h
                      cases h
                      exact splitPath_d6fix_inText (textOf l) hn1 path' ms h9 (hkeepall (textOf l) path path' hpath h8)
  intro m hm
  obtain ⟨k1, k2, k3, k4⟩ := key m hm
  exact ⟨⟨k1, k2, k3, k4⟩, C03.morph_range_defined r.tables hinv m k1 k2, C03.morph_range_bytes_defined r.tables hinv m k3 k4⟩

/-- non-vacuity of `hkeepall` and `hinv`: `totalCfg`'s rewrite stage keeps every offset, and the offset map of its
result on `ab` (no edit) is the identity map, which satisfies the C08 invariant (`EditM.ident_inv`) -/
example : (∀ (t : List Nat) path path', (∀ q ∈ path, InText t q) → totalCfg.rewrite path = .ok path' →
      ∀ p ∈ path', InText t p.1) ∧
    Inv isStart (BoOf [97, 98]) 2 (identFrom 0 [97, 98]) := by
  refine ⟨?_, ident_inv [97, 98] (by simp)⟩
  intro t path path' hin h p hp
  simp only [totalCfg] at h
  cases h
  obtain ⟨q, hq, rfl⟩ := List.mem_map.mp hp
  exact hin q hq

/-! ### the configuration the driver EXECUTES (op `pipe`) is in the scope of `tokenize_total` -/

/-- the bundled input-text plugins as the driver instantiates them (`TotalIO.plugin`: C07's `defaultEdits` / `psmEdits` /
`yomiEdits` turned into byte edits) return edits or an error, never a panic — `hplug` for the executed configuration -/
theorem pipe_plugins_never_panic (a : Array Normalize.Fact) (S : Normalize.Setup) (p : Char) (t : List Nat) :
    NoPanic (TotalIO.plugin a S p t) := by
  intro w h
  unfold TotalIO.plugin at h
  split at h
  · cases h
  · split at h <;> cases h

/-- **`tokenize_total` for the configuration of a `C03 pipe` case line** (`TotalIO.mkCfg`: what `Model/TotalIO.lean` builds
from the line and hands to `Total.tokenize`, so the theorem and the correspondence run are about the SAME instance of the
SAME function).  Discharged for this instance: `hmk` (the buffer is `mkBufV` over the compiled `char.def`:
`mkBufV_compile_total`), `hrew`, `hkeep` (word-info look-up without path-rewrite plugin) and, with
`pipe_plugins_never_panic`, `hplug`.  What remains are the facts about the shipped dictionary/configuration (`hprov`,
`hregex`, `hlexcost`, `hprovcost`, `hconn` — all decidable on a case line), `hutf`, and the two genuine bounds `hbound` (D7)
and `hrowsz`. -/
theorem pipe_configuration_total (lv : LenV) (orig : List Nat)
    (plugins : List (List Nat → Outcome (List (Edit Nat)))) (rv : Variant) (bowFix : Bool)
    (rs : List CharCat.CatRange) (ps : List Provider) (lex : List Word) (conn : Nat → Nat → Int)
    (units : EditM.NodeRange → List Nat)
    (hprov : ps ≠ [])
    (hregex : ∀ p ∈ ps, ∀ c, p = .regex c → c.skipEmpty = true)
    (hlexcost : ∀ w ∈ lex, I16 w.c)
    (hprovcost : ∀ p ∈ ps, ProviderCostOk p)
    (hconn : I16Conn conn)
    (hplug : ∀ p ∈ plugins, ∀ t, NoPanic (p t))
    (hutf : ∀ l0 l, startBuild orig = some l0 → rewriteInput lv plugins l0 = .ok l → Wire.utf8Decode (textOf l) ≠ none)
    (hbound : ∀ chars, Reaches lv (TotalIO.mkCfg plugins rv bowFix rs ps lex conn units) orig chars → chars.length ≤ 32767)
    (hrowsz : ∀ chars nodes, Reaches lv (TotalIO.mkCfg plugins rv bowFix rs ps lex conn units) orig chars →
      buildLattice ps lex (TotalIO.mkBufOf rv bowFix (CharCat.compile rs) chars) = .ok nodes →
      ∀ e, (nodes.map toVit).countP (fun n => n.e == e) ≤ 4294967295) :
    NoPanic (tokenize .d6fix lv (TotalIO.mkCfg plugins rv bowFix rs ps lex conn units) orig) := by
  have hbuild : (TotalIO.mkCfg plugins rv bowFix rs ps lex conn units).mkBuf = builtBuf rv bowFix (CharCat.compile rs) := by
    funext chars
    show TotalIO.mkBufOf rv bowFix (CharCat.compile rs) chars = _
    unfold TotalIO.mkBufOf
    rw [mkBufV_compile_total rv bowFix rs chars]
  refine tokenize_total_compiled lv _ orig rv bowFix rs hbuild hprov hregex hlexcost hprovcost hconn hplug hutf hbound
    hrowsz ?_ ?_
  · intro path w h
    simp only [TotalIO.mkCfg, TotalIO.rewriteOf] at h
    cases h
  · intro nb path path' hin h p hp
    simp only [TotalIO.mkCfg, TotalIO.rewriteOf] at h
    cases h
    obtain ⟨q, hq, rfl⟩ := List.mem_map.mp hp
    exact hin q hq

/-- non-vacuity: a `pipe` configuration (no plugin, compiled empty `char.def`, Simple provider, one word) analyses `ab`
into two morphemes through `TotalIO.mkCfg` -/
example : morphCount (tokenize .d6fix .final
    (TotalIO.mkCfg [] .forward true [] [.simple ⟨0, 0, 100, 0⟩] [⟨[97], 0, 0, 5⟩] (fun _ _ => 10) (fun _ => [])) [97, 98]) = some 2 := by
  simp [tokenize, startBuild, MAX_LENGTH, identFrom, TotalIO.mkCfg, TotalIO.mkBufOf, TotalIO.rewriteOf, mkBufV_compile_total,
    rewriteInput, textOf, Wire.utf8Decode, builtBuf, Oov.fillCatContinuity,
    Oov.fillCatContinuityForward, Oov.scan, Oov.countdown]
  decide

/-! ### clause "never … overflows", "every accessor … is safe": `MorphemeList::get_internal_cost` -/

/-- **NEW-3 on the model (variant `max` = the pinned code).**  `get_internal_cost` = `last.total_cost() - first.total_cost()`
in `i32`, and a node made by `NodeSplitIterator` reports `i32::MAX`: for the path `東` (total −290) + `京都` (total −230,
A-split into two units) in mode A the subtraction `i32::MAX − (−290)` overflows (`none` = `attempt to subtract with
overflow`; directed case `internal-cost-split` replays it on the real list); in mode C (no unit table) and for the repaired
tree (variant `parent`: units report the total of the word they come from) the same path gives −230 − (−290) = 60. -/
theorem internal_cost_overflow_counterexample :
    TotalIO.internalCostV true false [((0, 1), []), ((1, 3), [3, 3])] ⟨⟨0, 1, 0, 0, -300⟩, -290, 0, 0⟩ ⟨⟨1, 3, 0, 0, 50⟩, -230, 0, 0⟩ = none ∧
    TotalIO.internalCostV true false [((0, 1), []), ((1, 3), [])] ⟨⟨0, 1, 0, 0, -300⟩, -290, 0, 0⟩ ⟨⟨1, 3, 0, 0, 50⟩, -230, 0, 0⟩ = some 60 ∧
    TotalIO.internalCostV true true [((0, 1), []), ((1, 3), [3, 3])] ⟨⟨0, 1, 0, 0, -300⟩, -290, 0, 0⟩ ⟨⟨1, 3, 0, 0, 50⟩, -230, 0, 0⟩ = some 60 := by
  refine ⟨by decide, by decide, by decide⟩

/-- **The repaired accessor (variant `parent`) does not overflow inside the cost bound.**  When split units report the
total of their parent, `get_internal_cost` subtracts two lattice totals.  The first path node is connected to BOS by one
step, so its total is one connection cost plus one word cost (`hf`: within ±65536, both `i16`); the last one ends at
`len ≤ 32766` characters and is within ±65536·len by `RowsInv` (`hl`, cf. `cost_no_overflow_partial`).  Then the checked
subtraction succeeds, whatever the unit table is.  (For `len = 32767` the bound `65536·32767 + 65536 = 2^31` is one too
large: the hypothesis is `len ≤ 32766`.) -/
theorem internal_cost_inherit_in_range (tab : List ((Nat × Nat) × List Nat)) (f l : Entry) (len : Nat) (hlen : len ≤ 32766)
    (hf : -65536 ≤ f.total ∧ f.total ≤ 65536)
    (hl : -(65536 * (len : Int)) ≤ l.total ∧ l.total ≤ 65536 * (len : Int)) :
    ∃ v, TotalIO.internalCostV true true tab f l = some v ∧ v = l.total - f.total := by
  refine ⟨l.total - f.total, ?_, rfl⟩
  have h1 : (len : Int) ≤ 32766 := by omega
  have e1 : TotalIO.unitTotal true tab l = l.total := by simp [TotalIO.unitTotal]
  have e2 : TotalIO.unitTotal true tab f = f.total := by simp [TotalIO.unitTotal]
  unfold TotalIO.internalCostV
  rw [e1, e2]
  unfold addP addW I32_MAX
  rw [if_pos rfl, if_pos (by constructor <;> omega)]
  rfl

/-- non-vacuity of `hf`/`hl`: the totals of the directed path (−290 after one step, −230 at the end of three characters) -/
example : (-65536 ≤ (-290 : Int) ∧ (-290 : Int) ≤ 65536) ∧ (-(65536 * ((3 : Nat) : Int)) ≤ (-230 : Int) ∧ (-230 : Int) ≤ 65536 * ((3 : Nat) : Int)) := by
  omega

/-- non-vacuity of the composition: a configuration without plugins, a one-word lexicon and the Simple
provider last, on the text `a` (one morpheme) and on the empty text (no morpheme) -/
def exampleCfg : Cfg :=
  { inputPlugins := [], mkBuf := fun cs => ⟨cs, cs.map (fun _ => 1), cs.map (fun _ => 1), cs.map (fun _ => true)⟩,
    providers := [.simple ⟨0, 0, 100, 0⟩], lex := [⟨[97], 0, 0, 5⟩], conn := fun _ _ => 10,
    rewrite := fun p => .ok (p.map (fun n => (n, []))) }

/-- non-vacuity of `ProviderCostOk` for a MeCab provider (one class, one `unk.def` line of cost 300), of the equation
`hbuild` of `tokenize_total_compiled` (a configuration over the compiled empty definition) and of `hnoplug`/`hnorew`/`hstr`
of `tokenize_total_no_plugins` (`exampleCfg` has no plugin; `ab` decodes) -/
example : ProviderCostOk (.mecab ⟨[(1, ⟨1, true, false, 2⟩)], [(1, [⟨0, 0, 300, 0⟩])], false⟩) ∧
    ({ totalCfg with mkBuf := builtBuf .forward true (CharCat.compile []) } : Cfg).mkBuf
      = builtBuf .forward true (CharCat.compile []) ∧
    exampleCfg.inputPlugins = [] ∧
    exampleCfg.rewrite = (fun p => .ok (p.map (fun n => (n, (fun _ => ([] : List Nat)) n)))) ∧
    Wire.utf8Decode [97, 98] ≠ none := by
  refine ⟨?_, rfl, rfl, rfl, by rw [utf8_ab]; simp⟩
  intro kv hkv d hd
  simp only [List.mem_singleton] at hkv
  subst hkv
  simp only [List.mem_singleton] at hd
  subst hd
  simp [I16]

/-- non-vacuity of `hbuf`: the example configuration's buffer has the shape `BufOk` -/
example : ∀ chars, BufOk (exampleCfg.mkBuf chars) ∧ (exampleCfg.mkBuf chars).chars.length = chars.length := by
  intro chars
  refine ⟨⟨by simp [exampleCfg], by simp [exampleCfg], ?_⟩, by simp [exampleCfg]⟩
  intro o c h
  simp only [exampleCfg, List.getElem?_map] at h
  cases hc : chars[o]? with
  | none => rw [hc] at h; cases h
  | some v =>
    rw [hc] at h; simp only [Option.map_some, Option.some.injEq] at h
    have := (List.getElem?_eq_some_iff.mp hc).1
    simp only [exampleCfg]; omega

/-- non-vacuity of `hrowsz` / `hcost` on the example: the candidates over `a` -/
example : (match buildLattice exampleCfg.providers exampleCfg.lex (exampleCfg.mkBuf [97]) with
    | .ok nodes => decide ((nodes.map toVit).countP (fun n => n.e == 1) ≤ 65535) && nodes.all (fun x => decide (-32768 ≤ x.c ∧ x.c ≤ 32767)) && !nodes.isEmpty
    | _ => false) = true := by decide

/-- non-vacuity of `hkeep`: the example configuration's path rewrite keeps byte ends inside the text -/
example : ∀ (nb : Nat) path path', (∀ q ∈ path, q.eb ≤ nb) → exampleCfg.rewrite path = .ok path' →
    ∀ p ∈ path', p.1.eb ≤ nb := by
  intro nb path path' hin h p hp
  simp only [exampleCfg] at h
  cases h
  obtain ⟨q, hq, rfl⟩ := List.mem_map.mp hp
  exact hin q hq

example : morphCount (tokenize .d6fix .final exampleCfg [97]) = some 1 ∧ morphCount (tokenize .d6fix .running exampleCfg []) = some 0 ∧
    morphCount (tokenize .cur .running exampleCfg [97]) = some 1 := by
  refine ⟨?_, ?_, ?_⟩
  · simp [tokenize, startBuild, MAX_LENGTH, identFrom, exampleCfg, rewriteInput, textOf, Wire.utf8Decode]
    decide
  · simp [tokenize, startBuild, MAX_LENGTH, identFrom, exampleCfg, rewriteInput, textOf, Wire.utf8Decode, morphCount]
  · simp [tokenize, startBuild, MAX_LENGTH, identFrom, exampleCfg, rewriteInput, textOf, Wire.utf8Decode]
    decide

/-! # depth round 2: bundled providers, one rewrite hypothesis of C14's shape, the accessor clause closed -/

/-! ## (a) the provider side: what the bundled OOV providers put into the lattice -/

/-- **Contract of the bundled OOV providers** (`MeCabOovPlugin`, `SimpleOovPlugin`, `RegexOovProvider` with the
empty-match guard of the tree — `hrx`; for the pinned regex provider see `regex_empty_match_counterexample`).  Asked at a
position `o` inside a buffer as `InputBuffer::build` produces it (`Buf.WF`), with ANY `created` mask and ANY node buffer,
`provide_oov` neither panics nor returns an error, and every node it returns
* begins at the asked position, is non-empty and ends inside the text (positions are character indices, so the end is a
  character boundary by construction),
* is an OOV node,
* carries one of the (left id, right id, cost, POS id) quadruples the provider was configured with (`providerDefs`: the
  `unk.def` lines / the `leftId, rightId, cost, oovPOS` settings) — hence everything the loader validated about those
  quadruples (`V`: ids against the matrix, cost an `i16`, POS id inside the POS table) holds for the node. -/
theorem bundled_provider_contract (p : Provider) (hrx : ∀ c, p = .regex c → c.skipEmpty = true) (buf : Buf) (hwf : buf.WF)
    (o : Nat) (ho : o < buf.chars.length) (created : Nat) (existing : List Oov.Node)
    (V : OovDef → Prop) (hV : ∀ d ∈ providerDefs p, V d) :
    NoPanic (provide p buf o created existing) ∧ (∀ k, provide p buf o created existing ≠ .err k) ∧
    ∀ nodes, provide p buf o created existing = .ok nodes →
      ∀ x ∈ nodes, x.b = o ∧ x.b < x.e ∧ x.e ≤ buf.chars.length ∧ x.oov = true ∧ defOf x ∈ providerDefs p ∧ V (defOf x) := by
  refine ⟨provide_noPanic p hrx buf hwf o ho created existing, fun k => provide_ne_err p buf o created existing k, ?_⟩
  intro nodes h x hx
  obtain ⟨a1, a2, a3⟩ := provide_ok p buf o created existing nodes hwf ho h x hx
  obtain ⟨b1, b2⟩ := provide_fields p buf o created existing nodes h x hx
  exact ⟨a1, by omega, a3, b1, b2, hV _ b2⟩

/-- non-vacuity: a MeCab provider (class 1 grouped, one `unk.def` line) at position 0 of `ab` (one run of two characters)
returns the grouped node and the one-character node, both with the configured quadruple `(3, 4, 300, 7)`; the buffer is
well formed; the validated fact `V` = "ids below 10, `i16` cost, POS below 8" -/
example : (provide (.mecab ⟨[(1, ⟨1, true, true, 1⟩)], [(1, [⟨3, 4, 300, 7⟩])], true⟩) ⟨[97, 98], [1, 1], [2, 1], [true, true]⟩ 0 0 []
      = .ok [⟨0, 2, 3, 4, 300, true, 7⟩, ⟨0, 1, 3, 4, 300, true, 7⟩]) ∧
    (⟨[97, 98], [1, 1], [2, 1], [true, true]⟩ : Buf).WF ∧
    (∀ d ∈ providerDefs (.mecab ⟨[(1, ⟨1, true, true, 1⟩)], [(1, [⟨3, 4, 300, 7⟩])], true⟩), d.l < 10 ∧ d.r < 10 ∧ I16 d.c ∧ d.pos < 8) := by
  refine ⟨by decide, ⟨rfl, rfl, rfl, ?_⟩, ?_⟩
  · intro i c h
    match i, h with
    | 0, h => simp at h; subst h; simp
    | 1, h => simp at h; subst h; simp
    | i + 2, h => simp at h
  · intro d hd
    simp only [providerDefs, List.flatMap_cons, List.flatMap_nil, List.append_nil, List.mem_singleton] at hd
    subst hd; simp [I16]

/-- **Every node of the lattice is sourced**: a node `build_lattice` inserts is either a dictionary word with the ids and
the cost of a lexicon row, or an OOV node carrying a configured quadruple of a configured provider — so connection ids
validated at load (`L` for lexicon rows: C06; `V` for provider settings: C20) are the only ids `connect_node` ever feeds
to the connection matrix, and the POS id an OOV morpheme reports (`part_of_speech_id`, the index `part_of_speech()` uses
into the POS table) is a configured one. -/
theorem lattice_nodes_validated (ps : List Provider) (lex : List Word) (buf : Buf) (nodes : List Oov.Node)
    (h : buildLattice ps lex buf = .ok nodes)
    (L : Nat → Nat → Int → Prop) (hL : ∀ w ∈ lex, L w.l w.r w.c)
    (V : OovDef → Prop) (hV : ∀ p ∈ ps, ∀ d ∈ providerDefs p, V d) :
    ∀ x ∈ nodes, (x.oov = false ∧ L x.l x.r x.c) ∨ (x.oov = true ∧ V (defOf x)) := by
  intro x hx
  rcases buildLattice_sourced ps lex buf nodes h x hx with ⟨a, w, hw, e1, e2, e3⟩ | ⟨a, p, hp, hd⟩
  · exact Or.inl ⟨a, by rw [e1, e2, e3]; exact hL w hw⟩
  · exact Or.inr ⟨a, hV p hp _ hd⟩

/-! ## (c) the composition with ONE rewrite hypothesis, asked only of the path that is reached -/

open Partition in
/-- **`tokenize_total_path`: `do_tokenize` never panics — the rewrite stage enters through ONE hypothesis asked only of
token lists that can reach it.**  In `tokenize_total` the rewrite stage had two hypotheses over ALL node lists (`hrew`: no
panic, `hkeep`: byte ends stay inside the text).  Here `hrew` is asked only of a path that satisfies `Partition.PathOk`
(tokens laid end to end from `(0,0)` to `(#characters, #bytes)` of the rewritten text, each running forward and beginning
and ending on character starts — proved of the path `resolve_best_path` hands over: `topPath_chain`, `resultNodes_tiles`),
and it says: the stage does not panic on it and returns a `PathOk` list (for every stack of bundled path-rewrite plugins the
second half is a theorem: `C01.rewrite_stack_tiles`; see `tokenize_total_bundled`).  `hkeep` is gone: a `PathOk` list ends
inside the text.  Input side: `horig`/`hplug` as in `C01.tokens_partition_original` (`PluginOk`: sorted in-range edits on
character starts) + `hplugnp` (no panic), `hutf` in the form "the rewritten text decodes to as many characters as it has
character starts".  Remaining bounds: `hbound` (D7), `hrowsz` (see `rows_from_row_cap`). -/
theorem tokenize_total_path (lv : LenV) (cfg : Cfg) (orig : List Nat) (horig : BoOf orig 0)
    (hplug : ∀ p ∈ cfg.inputPlugins, PluginOk orig p)
    (hplugnp : ∀ p ∈ cfg.inputPlugins, ∀ t, NoPanic (p t))
    (hutf : ∀ l0 l, startBuild orig = some l0 → rewriteInput lv cfg.inputPlugins l0 = .ok l →
      ∃ chars, Wire.utf8Decode (textOf l) = some chars ∧ chars.length = nchars (textOf l))
    (rv : Variant) (bowFix : Bool) (tab : List (Nat × Nat))
    (hmk : ∀ chars, mkBufV rv bowFix tab chars = some (cfg.mkBuf chars))
    (hprov : cfg.providers ≠ [])
    (hregex : ∀ p ∈ cfg.providers, ∀ c, p = .regex c → c.skipEmpty = true)
    (hlexcost : ∀ w ∈ cfg.lex, I16 w.c)
    (hprovcost : ∀ p ∈ cfg.providers, ProviderCostOk p)
    (hconn : I16Conn cfg.conn)
    (hbound : ∀ chars, Reaches lv cfg orig chars → chars.length ≤ 32767)
    (hrowsz : ∀ chars nodes, Reaches lv cfg orig chars → buildLattice cfg.providers cfg.lex (cfg.mkBuf chars) = .ok nodes →
      ∀ e, (nodes.map toVit).countP (fun n => n.e == e) ≤ 4294967295)
    (hrew : ∀ (tb2c tc2b : List Nat) (nc nb : Nat) path, PathOk tb2c tc2b nc nb path →
      NoPanic (cfg.rewrite path) ∧
      ∀ path', cfg.rewrite path = .ok path' → PathOk tb2c tc2b nc nb (path'.map (·.1))) :
    NoPanic (tokenize .d6fix lv cfg orig) := by
  intro w h
  unfold tokenize at h
  cases h0 : startBuild orig with
  | none => rw [h0] at h; simp at h
  | some l0 =>
    rw [h0] at h; simp only [] at h
    cases h1 : rewriteInput lv cfg.inputPlugins l0 with
    | err k => rw [h1] at h; simp at h
    | panic w' => exact rewriteInput_noPanic lv _ _ hplugnp w' h1
    | ok l =>
      rw [h1] at h; simp only [] at h
      obtain ⟨hbuf, hlenb⟩ := rewriteInput_inv lv orig horig cfg.inputPlugins l0 l hplug (startBuild_bufInv orig l0 h0) h1
      obtain ⟨chars, h2, hnc⟩ := hutf l0 l h0 h1
      rw [h2] at h; simp only [] at h
      split at h
      · simp at h
      · rename_i hne0
        have hne : chars.isEmpty = false := by
          cases hc : chars.isEmpty with
          | true => exact absurd hc hne0
          | false => rfl
        have hpos : 1 ≤ chars.length := by
          cases chars with
          | nil => simp at hne
          | cons _ _ => simp
        have hr : Reaches lv cfg orig chars := ⟨l0, l, h0, h1, h2⟩
        have hb := mkBufV_ok rv bowFix tab chars (cfg.mkBuf chars) (hmk chars)
        have hlen := hbound chars hr
        have htne : textOf l ≠ [] := by
          intro hn; rw [hn] at hnc
          have : nchars ([] : List Nat) = 0 := rfl
          omega
        obtain ⟨b0, rest, htb⟩ : ∃ b0 rest, textOf l = b0 :: rest := by
          cases ht : textOf l with
          | nil => exact absurd ht htne
          | cons b0 rest => exact ⟨b0, rest, rfl⟩
        have hs0 : isStart b0 = true := isStart_head_of_utf8 b0 rest chars (by rw [← htb]; exact h2)
        have htab := tablesOk_of_text (textOf l) b0 rest htb hs0
        have hbo0 : BoOf (textOf l) 0 := Or.inr ⟨by rw [htb]; simp, by simp [htb, hs0]⟩
        have hnb : (textOf l).length ≤ 65535 := hlenb
        cases h3 : buildLattice cfg.providers cfg.lex (cfg.mkBuf chars) with
        | err k => rw [h3] at h; simp at h
        | panic w' => exact buildLattice_noPanic cfg.providers hprov hregex cfg.lex _ hb.1 w' h3
        | ok nodes =>
          rw [h3] at h; simp only [] at h
          have hnodes : ∀ n ∈ nodes.map toVit, NodeOk chars.length n := by
            intro n hn
            obtain ⟨x, hx, rfl⟩ := List.mem_map.mp hn
            obtain ⟨a1, a2⟩ := buildLattice_cand cfg.providers cfg.lex (cfg.mkBuf chars) hb.2.1 nodes h3 x hx
            rw [hb.2.2] at a2
            obtain ⟨c1, c2⟩ := buildLattice_cost cfg.providers cfg.lex _ hlexcost hprovcost nodes h3 x hx
            simp only [NodeOk, toVit]
            rw [asU16_id x.b (by omega), asU16_id x.e (by omega)]
            exact ⟨a1, a2, c1, c2⟩
          obtain ⟨rows, ents, hb1, hinv, _⟩ :=
            C03.cost_no_overflow_partial cfg.conn hconn chars.length hlen (nodes.map toVit) hnodes
          rw [hb1] at h; simp only [] at h
          cases h4 : connectEos addI32 I32_MAX cfg.conn rows chars.length with
          | err k => rw [h4] at h; simp at h
          | panic w' =>
            rcases connectEos_ok cfg.conn hconn chars.length hlen rows hinv with ⟨r, hr'⟩ | hr'
            · rw [hr'] at h4; cases h4
            · rw [hr'] at h4; cases h4
          | ok r =>
            obtain ⟨c, pe, pi⟩ := r
            rw [h4] at h; simp only [] at h
            have hpinv := buildAll_pathInv addI32 cfg.conn chars.length (by omega) (nodes.map toVit) (reset chars.length) []
              rows ents (reset_pathInv chars.length _ (hrowsz chars nodes hr h3))
              (fun n hn => ⟨(hnodes n hn).1, (hnodes n hn).2.1⟩) hb1
            obtain ⟨hpe, row, p, q1, q2, q3⟩ := connectEos_ptr addI32 cfg.conn chars.length (by omega) rows hpinv c pe pi h4
            rw [hpe] at h
            obtain ⟨es, g1, g2, _⟩ := topPath_chain chars.length rows hpinv chars.length (chars.length + 1) pi p [] row
              hpos (by omega) q1 q2 q3
            rw [List.append_nil] at g1
            rw [g1] at h; simp only [] at h
            have hes : ∀ x ∈ es, ∃ r, resultNode (c2b (textOf l)) x = .ok r := by
              intro x hx
              have hxe := (EChain.ends_le es 0 chars.length g2).2 x hx
              have hl := c2b_length (textOf l)
              have hbe : x.node.b ≤ x.node.e := Nat.le_of_lt (echain_mem_lt es 0 chars.length g2 x hx)
              obtain ⟨bb, hbb⟩ : ∃ v, (c2b (textOf l))[x.node.b]? = some v := ⟨_, List.getElem?_eq_getElem (by omega)⟩
              obtain ⟨eb, heb⟩ : ∃ v, (c2b (textOf l))[x.node.e]? = some v := ⟨_, List.getElem?_eq_getElem (by omega)⟩
              exact ⟨⟨x.node.b, x.node.e, asU16 bb, asU16 eb⟩, by simp only [resultNode, hbb, heb]⟩
            obtain ⟨path, h7⟩ := mapM_ok _ es hes
            rw [h7] at h; simp only [] at h
            rw [hnc] at g2
            obtain ⟨t1, t2⟩ := resultNodes_tiles (b2c (textOf l)) (c2b (textOf l)) _ _ htab hnb (c2b_last (textOf l))
              es 0 0 path g2 (c2b_head (textOf l) hbo0) h7
            obtain ⟨hnp, hpres⟩ := hrew _ _ _ _ path ⟨t1, t2⟩
            cases h8 : cfg.rewrite path with
            | err k => rw [h8] at h; simp at h
            | panic w' => exact hnp w' h8
            | ok path' =>
              rw [h8] at h; simp only [] at h
              obtain ⟨_, u2⟩ := hpres path' h8
              cases h9 : splitPath .d6fix (b2c (textOf l)) (c2b (textOf l)) path' with
              | err k => rw [h9] at h; simp at h
              | ok ms => rw [h9] at h; simp at h
              | panic w' =>
                have hle : ∀ p ∈ path', p.1.eb ≤ (textOf l).length := by
                  intro p hp
                  have hg := u2 p.1 (List.mem_map.mpr ⟨p, hp, rfl⟩)
                  have hm : p.1.eb ∈ c2b (textOf l) := List.mem_of_getElem? hg.2.2.2.2
                  rcases (c2b_spec (textOf l)).2 p.1.eb hm with e1 | ⟨e1, _⟩ <;> omega
                obtain ⟨ms, hms⟩ := splitPath_d6fix_ok (b2c (textOf l)) (c2b (textOf l)) (textOf l).length
                  (tables_of_text (textOf l) (nchars_pos_of_utf8 (textOf l) chars h2 hne)) path' hle
                rw [hms] at h9; cases h9

/-- non-vacuity of the new hypothesis shape: the rewrite stage without plugin (every node keeps its range, any unit table)
satisfies `hrew` of `tokenize_total_path`; `Partition.partCfg`/`Partition.bang_ok` inhabit `PluginOk` (C01) -/
example (units : EditM.NodeRange → List Nat) :
    ∀ (tb2c tc2b : List Nat) (nc nb : Nat) path, Partition.PathOk tb2c tc2b nc nb path →
      NoPanic (TotalIO.rewriteOf units path) ∧
      ∀ path', TotalIO.rewriteOf units path = .ok path' → Partition.PathOk tb2c tc2b nc nb (path'.map (·.1)) := by
  intro tb2c tc2b nc nb path hp
  refine ⟨fun w h => (by cases h), ?_⟩
  intro path' h
  simp only [TotalIO.rewriteOf] at h
  cases h
  rw [List.map_map]
  have : ((fun x : EditM.NodeRange × List Nat => x.1) ∘ fun n => (n, units n)) = id := rfl
  rw [this, List.map_id]
  exact hp

/-- the `Total.Cfg` of a configuration made of BUNDLED components: any input-text plugin functions, the buffer over a
compiled `char.def`, a non-empty list of bundled OOV providers (`b :: bs`: the loader refuses an empty list —
`NoOOVPluginProvided`), a lexicon, a matrix, and the word-info + path-rewrite stage built from the C14 model
(`Total.rewriteOfStack` with the repaired numeral loop, any stack `pls` of `JoinNumericPlugin`/`JoinKatakanaOovPlugin`) -/
def bundledCfg (plugins : List (List Nat → Outcome (List (Edit Nat)))) (rv : Variant) (bowFix : Bool)
    (rs : List CharCat.CatRange) (b : Bundled) (bs : List Bundled) (lex : List Word) (conn : Nat → Nat → Int)
    (cat : List Nat) (P : List Char → Rewrite.POut) (pls : List Rewrite.Plugin)
    (info : EditM.NodeRange → Rewrite.Node) (units : Rewrite.Node → List Nat) : Cfg :=
  ⟨plugins, TotalIO.mkBufOf rv bowFix (CharCat.compile rs), (b :: bs).map Bundled.prov, lex, conn,
    rewriteOfStack .fix cat P pls info units⟩

open Partition in
/-- **`tokenize_total_bundled`: `do_tokenize` with bundled components never panics.**  For a configuration made of bundled
OOV providers (`Bundled`, at least one), a compiled `char.def` and a stack of bundled path-rewrite plugins:
* `hprov`, `hregex`, `hmk`, `hkeep` of `tokenize_total` are DISCHARGED (non-empty by construction; the regex provider is the
  one with the empty-match guard; `mkBufV_compile_total`; `PathOk` lists end inside the text);
* `hprovcost` is replaced by the loader's fact about the configured quadruples (`hdefs`: costs are `i16`);
* the rewrite stage enters through ONE hypothesis of the shape C14 provides — `hidx`: **for every token list satisfying
  `PathOk`, `Rewrite.rewriteAll` of the configured stack on its word-info nodes is not `panic`** (index safety of the plugin
  loops; termination is C14 `rewrite_stack_total`, `PathOk`-preservation is `C01.rewrite_stack_tiles`, both used here);
  `hinfo`: the word-info look-up leaves the four offsets of a node alone.
Remaining: the input side (`horig`, `hplug`, `hplugnp`, `hutf`), `hlexcost`/`hconn` (field types), `hbound` (D7), `hrowsz`. -/
theorem tokenize_total_bundled (lv : LenV) (orig : List Nat) (horig : BoOf orig 0)
    (plugins : List (List Nat → Outcome (List (Edit Nat)))) (rv : Variant) (bowFix : Bool)
    (rs : List CharCat.CatRange) (b : Bundled) (bs : List Bundled) (lex : List Word) (conn : Nat → Nat → Int)
    (cat : List Nat) (P : List Char → Rewrite.POut) (pls : List Rewrite.Plugin)
    (info : EditM.NodeRange → Rewrite.Node) (units : Rewrite.Node → List Nat)
    (hinfo : ∀ n, rng (info n) = n)
    (hplug : ∀ p ∈ plugins, PluginOk orig p)
    (hplugnp : ∀ p ∈ plugins, ∀ t, NoPanic (p t))
    (hutf : ∀ l0 l, startBuild orig = some l0 → rewriteInput lv plugins l0 = .ok l →
      ∃ chars, Wire.utf8Decode (textOf l) = some chars ∧ chars.length = nchars (textOf l))
    (hlexcost : ∀ w ∈ lex, I16 w.c)
    (hdefs : ∀ q ∈ b :: bs, ∀ d ∈ providerDefs q.prov, I16 d.c)
    (hconn : I16Conn conn)
    (hbound : ∀ chars, Reaches lv (bundledCfg plugins rv bowFix rs b bs lex conn cat P pls info units) orig chars →
      chars.length ≤ 32767)
    (hrowsz : ∀ chars nodes, Reaches lv (bundledCfg plugins rv bowFix rs b bs lex conn cat P pls info units) orig chars →
      buildLattice ((b :: bs).map Bundled.prov) lex (TotalIO.mkBufOf rv bowFix (CharCat.compile rs) chars) = .ok nodes →
      ∀ e, (nodes.map toVit).countP (fun n => n.e == e) ≤ 4294967295)
    (hidx : ∀ (tb2c tc2b : List Nat) (nc nb : Nat) path, PathOk tb2c tc2b nc nb path →
      Rewrite.rewriteAll .fix cat P pls (path.map info) ≠ .panic) :
    NoPanic (tokenize .d6fix lv (bundledCfg plugins rv bowFix rs b bs lex conn cat P pls info units) orig) := by
  refine tokenize_total_path lv _ orig horig hplug hplugnp hutf rv bowFix (CharCat.compile rs) ?_ ?_ ?_ hlexcost ?_ hconn
    hbound hrowsz ?_
  · intro chars
    show _ = some (TotalIO.mkBufOf rv bowFix (CharCat.compile rs) chars)
    unfold TotalIO.mkBufOf
    rw [mkBufV_compile_total rv bowFix rs chars]
  · simp [bundledCfg]
  · exact bundled_regexRepaired (b :: bs)
  · intro p hp
    obtain ⟨q, hq, rfl⟩ := List.mem_map.mp hp
    exact providerCostOk_of_defs _ (hdefs q hq)
  · intro tb2c tc2b nc nb path hp
    refine ⟨rewriteOfStack_noPanic cat P pls info units path (hidx tb2c tc2b nc nb path hp), ?_⟩
    intro path' h
    exact rewriteOfStack_pathOk .fix cat P pls info units hinfo tb2c tc2b nc nb path path' hp h

/-- non-vacuity of `hidx`/`hinfo`/`hdefs`: with an EMPTY stack of path-rewrite plugins `rewriteAll` returns its input
(never `panic`), the word-info look-up `fun n => ⟨n.bc, n.ec, n.bb, n.eb, …⟩` keeps the offsets, and the bundled
providers Regex `[a]{0,}` + Simple have `i16` costs -/
example (mk : EditM.NodeRange → Rewrite.Node) (hmk : ∀ n, Partition.rng (mk n) = n) (cat : List Nat) (P : List Char → Rewrite.POut) :
    (∀ (path : List EditM.NodeRange), Rewrite.rewriteAll .fix cat P [] (path.map mk) ≠ .panic) ∧
    (∀ q ∈ [Bundled.regex ⟨0, 0, 200, 0, [⟨[97], 0, none⟩], 8, false, false⟩, Bundled.simple ⟨0, 0, 100, 0⟩],
      ∀ d ∈ providerDefs q.prov, I16 d.c) := by
  refine ⟨fun path h => ?_, ?_⟩
  · simp [Rewrite.rewriteAll] at h
  · intro q hq d hd
    simp only [List.mem_cons, List.not_mem_nil, or_false] at hq
    rcases hq with rfl | rfl <;>
      (simp only [Bundled.prov, providerDefs, List.mem_singleton] at hd; subst hd; simp [I16])

/-! ## (d) clause "every accessor of every returned morpheme is safe to call" -/

open Partition in
/-- **`morpheme_access_total`: every accessor of every morpheme of an `ok` result is defined.**  For every result `r` that
`Total.tokenize` returns (tree with D6 repaired, either length guard) and EVERY morpheme `m` of it, `Total.access` — the
model of `Morpheme::begin()`, `end()`, `begin_c()`, `end_c()`, `surface()` with every index into `mod_c2b`/`m2o`/the
original-text tables, the two `is_char_boundary` debug assertions, the `usize::MAX` marker assertion of
`to_orig_char_idx` and the slice check of `&original[a..b]` — returns a value: no panic, no error; the offsets run
forward inside the original text, `surface()` is `original[begin..end]`, and `begin_c`/`end_c` count the code points before.
This is the sentence "every accessor of every returned morpheme is safe to call" with named hypotheses only — they are
those of `C01.tokens_partition_original`, from which it is derived (not re-proved): `horig`, `hplug` (`PluginOk`),
`hutf`, `hmk`, `hrowsz`, `hrew` (the rewrite stage keeps `PathOk`; a theorem for every bundled stack:
`C01.rewrite_stack_tiles`).  The table-indexing accessors of an OOV morpheme (`part_of_speech_id` / `part_of_speech()`:
index into the POS table; connection ids) are covered by `lattice_nodes_validated`; those of a dictionary morpheme read
the word-info record (C05/C11). -/
theorem morpheme_access_total (lv : LenV) (cfg : Cfg) (orig : List Nat) (horig : BoOf orig 0)
    (hplug : ∀ p ∈ cfg.inputPlugins, PluginOk orig p)
    (hutf : ∀ l0 l chars, startBuild orig = some l0 → rewriteInput lv cfg.inputPlugins l0 = .ok l →
      Wire.utf8Decode (textOf l) = some chars → chars.length = nchars (textOf l))
    (rv : Variant) (bowFix : Bool) (tab : List (Nat × Nat))
    (hmk : ∀ chars, mkBufV rv bowFix tab chars = some (cfg.mkBuf chars))
    (hrowsz : ∀ chars nodes, Reaches lv cfg orig chars → buildLattice cfg.providers cfg.lex (cfg.mkBuf chars) = .ok nodes →
      ∀ e, (nodes.map toVit).countP (fun n => n.e == e) ≤ 4294967295)
    (hrew : ∀ (tb2c tc2b : List Nat) (nc nb : Nat) path path', PathOk tb2c tc2b nc nb path → cfg.rewrite path = .ok path' →
      PathOk tb2c tc2b nc nb (path'.map (·.1)))
    (r : Result) (h : tokenize .d6fix lv cfg orig = .ok r) :
    ∀ m ∈ r.morphs, ∃ a, access orig r.tables m = .ok a ∧
      a.b ≤ a.e ∧ a.e ≤ orig.length ∧ a.sb = a.b ∧ a.se = a.e ∧
      a.bc = nchars (orig.take a.b) ∧ a.ec = nchars (orig.take a.e) := by
  intro m hm
  rcases C01.tokens_partition_original lv cfg orig horig hplug hutf rv bowFix tab hmk hrowsz hrew r h with
    ⟨_, hnil⟩ | ⟨_, _, acs, hacc, hpart, hall⟩
  · rw [hnil] at hm; cases hm
  · obtain ⟨a, ha, hf⟩ := mapM_ok_mem (access orig r.tables) r.morphs acs hacc m hm
    obtain ⟨e1, e2, e3, e4⟩ := hall a ha
    have hmem : (a.b, a.e) ∈ acs.map (fun a => (a.b, a.e)) := List.mem_map.mpr ⟨a, ha, rfl⟩
    have hfw := hpart.fwd _ hmem
    have hbd := (hpart.bnd _ hmem).2
    refine ⟨a, hf, hfw, ?_, e1, e2, e3, e4⟩
    rcases hbd with hb | ⟨hb, _⟩
    · exact Nat.le_of_eq hb
    · exact Nat.le_of_lt hb

/-- **the same for the configuration a `pipe` case line is executed with** (`TotalIO.mkCfg`, what the driver runs against the
real tokenizer, whose harness side calls every accessor of every morpheme under `catch_unwind`): `hmk` and `hrew` are
discharged (`C01.pipe_tokens_partition`) -/
theorem pipe_morpheme_access_total (lv : LenV) (orig : List Nat) (horig : BoOf orig 0)
    (plugins : List (List Nat → Outcome (List (Edit Nat)))) (rv : Variant) (bowFix : Bool)
    (rs : List CharCat.CatRange) (ps : List Provider) (lex : List Word) (conn : Nat → Nat → Int)
    (units : EditM.NodeRange → List Nat)
    (hplug : ∀ p ∈ plugins, Partition.PluginOk orig p)
    (hutf : ∀ l0 l chars, startBuild orig = some l0 → rewriteInput lv plugins l0 = .ok l →
      Wire.utf8Decode (textOf l) = some chars → textOf l = TotalIO.encode chars)
    (hrowsz : ∀ chars nodes, Reaches lv (TotalIO.mkCfg plugins rv bowFix rs ps lex conn units) orig chars →
      buildLattice ps lex (TotalIO.mkBufOf rv bowFix (CharCat.compile rs) chars) = .ok nodes →
      ∀ e, (nodes.map toVit).countP (fun n => n.e == e) ≤ 4294967295)
    (r : Result) (h : tokenize .d6fix lv (TotalIO.mkCfg plugins rv bowFix rs ps lex conn units) orig = .ok r) :
    ∀ m ∈ r.morphs, ∃ a, access orig r.tables m = .ok a ∧
      a.b ≤ a.e ∧ a.e ≤ orig.length ∧ a.sb = a.b ∧ a.se = a.e ∧
      a.bc = nchars (orig.take a.b) ∧ a.ec = nchars (orig.take a.e) := by
  refine morpheme_access_total lv _ orig horig hplug ?_ rv bowFix (CharCat.compile rs) ?_ hrowsz ?_ r h
  · intro l0 l chars a1 a2 a3
    rw [hutf l0 l chars a1 a2 a3, Partition.nchars_encode]
  · intro chars
    show _ = some (TotalIO.mkBufOf rv bowFix (CharCat.compile rs) chars)
    unfold TotalIO.mkBufOf
    rw [mkBufV_compile_total rv bowFix rs chars]
  · intro tb2c tc2b nc nb path path' hp hh
    simp only [TotalIO.mkCfg, TotalIO.rewriteOf] at hh
    cases hh
    rw [List.map_map]
    have : ((fun x : EditM.NodeRange × List Nat => x.1) ∘ fun n => (n, units n)) = id := rfl
    rw [this, List.map_id]
    exact hp

/-- non-vacuity: the analysis of `ab` by the `pipe` configuration (no plugin, Simple provider, one word) returns two
morphemes whose accessors evaluate to `0..1` and `1..2` (bytes = code points = surface range) -/
example : (match tokenize .d6fix .final
      (TotalIO.mkCfg [] .forward true [] [.simple ⟨0, 0, 100, 0⟩] [⟨[97], 0, 0, 5⟩] (fun _ _ => 10) (fun _ => [])) [97, 98] with
    | .ok r => r.morphs.map (fun m => match access [97, 98] r.tables m with | .ok a => [a.b, a.e, a.bc, a.ec, a.sb, a.se] | _ => [])
    | _ => []) = [[0, 1, 0, 1, 0, 1], [1, 2, 1, 2, 1, 2]] := by
  simp [tokenize, startBuild, MAX_LENGTH, identFrom, TotalIO.mkCfg, TotalIO.mkBufOf, TotalIO.rewriteOf, mkBufV_compile_total,
    rewriteInput, textOf, Wire.utf8Decode, builtBuf, Oov.fillCatContinuity,
    Oov.fillCatContinuityForward, Oov.scan, Oov.countdown]
  decide

/-! ## (b) `hrowsz` from the configuration -/

/-- **`hrowsz` from an explicit bound of the configuration.**  `rowCap ps lex` = number of lexicon rows + twice the sum over
the configured providers of what one `provide_oov` call can return (Simple, Regex: 1; MeCab: 19 classes × the largest number
of `unk.def` lines of a class × (1 + the largest `length` of a class)) bounds the candidates `build_lattice` inserts at ONE
position (`stepAt_cap`); every candidate lies inside the text, so at most `rowCap · |text|` candidates end at one boundary.
Hence `rowCap ps lex · |text| ≤ 65535` implies `hrowsz`.  The factor `|text|` cannot be removed — see
`row_size_grows_with_run_counterexample`. -/
theorem rows_from_row_cap (ps : List Provider) (lex : List Word) (buf : Buf) (hwf : buf.WF)
    (hcap : rowCap ps lex * buf.chars.length ≤ 65535) (nodes : List Oov.Node)
    (h : buildLattice ps lex buf = .ok nodes) (e : Nat) :
    (nodes.map toVit).countP (fun n => n.e == e) ≤ 65535 :=
  rows_of_cap ps lex buf hwf hcap nodes h e

/-- **when `hrowsz` fails in the real code.**  A class with `group = 1` contributes, from EVERY reachable position of a run
of that class, one grouped candidate per `unk.def` line that ends at the END OF THE RUN; so a run of `n` characters with `D`
lines puts at least `D·n` candidates into one row, whatever `rowCap` is: here `D = 3`, `n = 4` gives 12 grouped candidates
ending at boundary 4, and `n = 8` gives 24 — while `rowCap` = 228 does not depend on the text.  At full size the `u16` row index of the
back-pointer wraps as soon as `D·n ≥ 65536` — e.g. 4 lines and a run of 16384 letters (16 KiB of ASCII, inside every
documented limit and inside `hbound`); the harness runs that point on the real tokenizer in the thorough tier (directed case
`row-wrap`): no panic, every accessor defined, but the path is not the cheapest one (C02's clause, not C03's). -/
theorem row_size_grows_with_run_counterexample :
    (match buildLattice [.mecab ⟨[(1, ⟨1, true, true, 1⟩)], [(1, [⟨0, 0, 1, 0⟩, ⟨0, 0, 2, 0⟩, ⟨0, 0, 3, 0⟩])], true⟩] []
        ⟨[97, 97, 97, 97], [1, 1, 1, 1], [4, 3, 2, 1], [true, true, true, true]⟩ with
      | .ok nodes => (nodes.map toVit).countP (fun n => n.e == 4)
      | _ => 0) = 12 ∧
    (match buildLattice [.mecab ⟨[(1, ⟨1, true, true, 1⟩)], [(1, [⟨0, 0, 1, 0⟩, ⟨0, 0, 2, 0⟩, ⟨0, 0, 3, 0⟩])], true⟩] []
        ⟨List.replicate 8 97, List.replicate 8 1, [8, 7, 6, 5, 4, 3, 2, 1], List.replicate 8 true⟩ with
      | .ok nodes => (nodes.map toVit).countP (fun n => n.e == 8)
      | _ => 0) = 24 ∧
    rowCap [.mecab ⟨[(1, ⟨1, true, true, 1⟩)], [(1, [⟨0, 0, 1, 0⟩, ⟨0, 0, 2, 0⟩, ⟨0, 0, 3, 0⟩])], true⟩] [] = 228 := by
  refine ⟨by decide, by decide, by decide⟩

/-- **`tokenize_total` for the `pipe` configuration with `hrowsz` DISCHARGED from the configuration**: the hypothesis is now
the arithmetic fact `rowCap ps lex · (characters of the rewritten text) ≤ 65535` about the case line (decidable; the `pipe`
worlds have texts of at most 48 characters, so it holds whenever `rowCap ≤ 1365`) -/
theorem pipe_configuration_total_capped (lv : LenV) (orig : List Nat)
    (plugins : List (List Nat → Outcome (List (Edit Nat)))) (rv : Variant) (bowFix : Bool)
    (rs : List CharCat.CatRange) (ps : List Provider) (lex : List Word) (conn : Nat → Nat → Int)
    (units : EditM.NodeRange → List Nat)
    (hprov : ps ≠ [])
    (hregex : ∀ p ∈ ps, ∀ c, p = .regex c → c.skipEmpty = true)
    (hlexcost : ∀ w ∈ lex, I16 w.c)
    (hprovcost : ∀ p ∈ ps, ProviderCostOk p)
    (hconn : I16Conn conn)
    (hplug : ∀ p ∈ plugins, ∀ t, NoPanic (p t))
    (hutf : ∀ l0 l, startBuild orig = some l0 → rewriteInput lv plugins l0 = .ok l → Wire.utf8Decode (textOf l) ≠ none)
    (hbound : ∀ chars, Reaches lv (TotalIO.mkCfg plugins rv bowFix rs ps lex conn units) orig chars → chars.length ≤ 32767)
    (hcap : ∀ chars, Reaches lv (TotalIO.mkCfg plugins rv bowFix rs ps lex conn units) orig chars →
      rowCap ps lex * chars.length ≤ 65535) :
    NoPanic (tokenize .d6fix lv (TotalIO.mkCfg plugins rv bowFix rs ps lex conn units) orig) := by
  refine pipe_configuration_total lv orig plugins rv bowFix rs ps lex conn units hprov hregex hlexcost hprovcost hconn hplug
    hutf hbound ?_
  intro chars nodes hr h e
  have hb : TotalIO.mkBufOf rv bowFix (CharCat.compile rs) chars = builtBuf rv bowFix (CharCat.compile rs) chars := by
    unfold TotalIO.mkBufOf; rw [mkBufV_compile_total rv bowFix rs chars]
  obtain ⟨hwf, _, hch⟩ := mkBufV_ok rv bowFix (CharCat.compile rs) chars _ (mkBufV_compile_total rv bowFix rs chars)
  rw [hb] at h
  exact Nat.le_trans (rows_from_row_cap ps lex _ hwf (by rw [hch]; exact hcap chars hr) nodes h e) (by decide)

/-- **`hrowsz` for the `u32` row index (the tree since the repair 9fb3dd8), from the configuration alone.**  The back-pointer
of a lattice node stores the index of the best previous node inside its row; `NodeIdx.index` was a `u16` in the pinned tree
(`i as u16` wrapped in a row of more than 65536 candidates: `row_index_u16_wraps_counterexample`) and is a `u32` now
(`Total.asU32` in `Total.connGo`).  A text the length guards admit has at most 65535 characters, so `rowCap ≤ 65537` keeps
every row at or below 2^32 - 1 entries for EVERY text: the factor `|text|` of `rows_from_row_cap` is gone. -/
theorem rows_from_row_cap_u32 (ps : List Provider) (lex : List Word) (buf : Buf) (hwf : buf.WF)
    (hn : buf.chars.length ≤ 65535) (hcap : rowCap ps lex ≤ 65537) (nodes : List Oov.Node)
    (h : buildLattice ps lex buf = .ok nodes) (e : Nat) :
    (nodes.map toVit).countP (fun n => n.e == e) ≤ 4294967295 :=
  rows_of_cap_u32 ps lex buf hwf hn hcap nodes h e

/-- **the `u16` row index of the pinned tree wraps (kernel-checked on a small-width instance).**  `connGoW W` is
`Total.connGo` with the index stored as `i % W`; `connGoW 4294967296` IS the model of the tree (`connGoW_u32`).  With width
`W = 4` (standing for 65536) and a row of five connected entries of which the LAST is the cheapest, the loop stores the right
minimum (10) with the index `4 % 4 = 0`: the back-pointer names entry 0 (total 50), a chain that is 40 dearer than the cost
that was stored — `fill_top_path` follows it.  At full size (4 `unk.def` lines × a run of 16400 letters = 65600 grouped
candidates in one row) the harness ran this on the real tokenizer: 16 tokens of cost -160 instead of 16400 tokens of cost
-164000 on the pinned tree, the cheapest path on the repaired one (directed case `row-wrap`, C02/C03). -/
def connGoW (W : Nat) (add : Int → Int → Option Int) (M : Int) (conn : Nat → Nat → Int) (n : Vit.Node) :
    List Entry → Nat → Int × Nat × Nat → Option (Int × Nat × Nat)
  | [], _, st => some st
  | l :: rest, i, st =>
    if l.total = M then connGoW W add M conn n rest (i + 1) st
    else match add l.total (conn l.node.r n.l) with
      | none => none
      | some x => match add x n.c with
        | none => none
        | some nc =>
          if nc < st.1 then connGoW W add M conn n rest (i + 1) (nc, asU16 n.b, i % W)
          else connGoW W add M conn n rest (i + 1) st

theorem connGoW_u32 (add : Int → Int → Option Int) (M : Int) (conn : Nat → Nat → Int) (n : Vit.Node) :
    ∀ (row : List Entry) (i : Nat) (st : Int × Nat × Nat),
      connGoW 4294967296 add M conn n row i st = connGo add M conn n row i st := by
  intro row
  induction row with
  | nil => intro i st; rfl
  | cons l rest ih =>
    intro i st
    simp only [connGoW, connGo, ih, asU32]
    split
    · rfl
    · cases add l.total (conn l.node.r n.l) with
      | none => rfl
      | some x =>
        cases add x n.c with
        | none => rfl
        | some nc => rfl

theorem row_index_u16_wraps_counterexample :
    let row : List Entry := [⟨⟨0, 1, 0, 0, 0⟩, 50, 0, 0⟩, ⟨⟨0, 1, 0, 0, 0⟩, 40, 0, 0⟩, ⟨⟨0, 1, 0, 0, 0⟩, 30, 0, 0⟩,
      ⟨⟨0, 1, 0, 0, 0⟩, 20, 0, 0⟩, ⟨⟨0, 1, 0, 0, 0⟩, 10, 0, 0⟩]
    let n : Vit.Node := ⟨1, 2, 0, 0, 0⟩
    -- width 4 ("u16"): minimum 10 stored with index 0 - the entry of total 50
    connGoW 4 addI32 I32_MAX (fun _ _ => 0) n row 0 (I32_MAX, 65535, 3) = some (10, 1, 0) ∧
    (row[0]?.map Entry.total) = some 50 ∧
    -- the model of the tree (u32): index 4 - the entry whose total is the stored minimum
    connGo addI32 I32_MAX (fun _ _ => 0) n row 0 (I32_MAX, 65535, idxNone) = some (10, 1, 4) ∧
    (row[4]?.map Entry.total) = some 10 := by
  decide

open Partition in
/-- **`tokenize_total_bundled` with `hrowsz` DISCHARGED for the `u32` row index**: the only thing left of it is the
text-independent, decidable fact `rowCap ≤ 65537` about the loaded configuration (number of lexicon rows + twice what the
configured providers can return at one position); `hbound` (D7) already keeps the text at or below 32767 characters. -/
theorem tokenize_total_bundled_u32 (lv : LenV) (orig : List Nat) (horig : BoOf orig 0)
    (plugins : List (List Nat → Outcome (List (Edit Nat)))) (rv : Variant) (bowFix : Bool)
    (rs : List CharCat.CatRange) (b : Bundled) (bs : List Bundled) (lex : List Word) (conn : Nat → Nat → Int)
    (cat : List Nat) (P : List Char → Rewrite.POut) (pls : List Rewrite.Plugin)
    (info : EditM.NodeRange → Rewrite.Node) (units : Rewrite.Node → List Nat)
    (hinfo : ∀ n, rng (info n) = n)
    (hplug : ∀ p ∈ plugins, PluginOk orig p)
    (hplugnp : ∀ p ∈ plugins, ∀ t, NoPanic (p t))
    (hutf : ∀ l0 l, startBuild orig = some l0 → rewriteInput lv plugins l0 = .ok l →
      ∃ chars, Wire.utf8Decode (textOf l) = some chars ∧ chars.length = nchars (textOf l))
    (hlexcost : ∀ w ∈ lex, I16 w.c)
    (hdefs : ∀ q ∈ b :: bs, ∀ d ∈ providerDefs q.prov, I16 d.c)
    (hconn : I16Conn conn)
    (hbound : ∀ chars, Reaches lv (bundledCfg plugins rv bowFix rs b bs lex conn cat P pls info units) orig chars →
      chars.length ≤ 32767)
    (hcap : rowCap ((b :: bs).map Bundled.prov) lex ≤ 65537)
    (hidx : ∀ (tb2c tc2b : List Nat) (nc nb : Nat) path, PathOk tb2c tc2b nc nb path →
      Rewrite.rewriteAll .fix cat P pls (path.map info) ≠ .panic) :
    NoPanic (tokenize .d6fix lv (bundledCfg plugins rv bowFix rs b bs lex conn cat P pls info units) orig) := by
  refine tokenize_total_bundled lv orig horig plugins rv bowFix rs b bs lex conn cat P pls info units hinfo hplug hplugnp
    hutf hlexcost hdefs hconn hbound ?_ hidx
  intro chars nodes hr h e
  have hb : TotalIO.mkBufOf rv bowFix (CharCat.compile rs) chars = builtBuf rv bowFix (CharCat.compile rs) chars := by
    unfold TotalIO.mkBufOf; rw [mkBufV_compile_total rv bowFix rs chars]
  obtain ⟨hwf, _, hch⟩ := mkBufV_ok rv bowFix (CharCat.compile rs) chars _ (mkBufV_compile_total rv bowFix rs chars)
  rw [hb] at h
  exact rows_from_row_cap_u32 _ lex _ hwf (by rw [hch]; have := hbound chars hr; omega) hcap nodes h e

/-- non-vacuity of `hcap` of `tokenize_total_bundled_u32`: Regex + Simple over a one-word lexicon have `rowCap` 5 -/
example : rowCap ([Bundled.regex ⟨0, 0, 200, 0, [⟨[97], 0, none⟩], 8, false, false⟩, Bundled.simple ⟨0, 0, 100, 0⟩].map Bundled.prov)
    [⟨[97], 0, 0, 5⟩] ≤ 65537 := by decide

/-- non-vacuity of `hcap`: the `pipe` example configuration (Simple provider, one word) has `rowCap = 3`; on `ab` 3·2 ≤ 65535 -/
example : rowCap [.simple ⟨0, 0, 100, 0⟩] [⟨[97], 0, 0, 5⟩] * ([97, 98] : List Nat).length ≤ 65535 := by decide

/-! ## (e) the exact threshold of the `i32` accumulator -/

/-- **The exact threshold of D7.**  `cost_no_overflow_partial`: no text of at most 32767 characters can overflow the `i32`
accumulator, whatever the (`i16`) costs are.  Here, at FULL width (`addI32`, `I32_MAX`, not the small-width instance of
`cost_overflow_counterexample`), by the closed form of the chain lattice (`chain_closed`: the totals are `i·(k+c)`):
* **32768 characters CAN overflow** — one-character words of cost −32768 over a matrix of −32768: every `insert` succeeds
  (the last total is exactly `i32::MIN`), `connect_eos` is `attempt to add with overflow`.  This is the smallest length
  (32767 is safe), reached only with the most negative costs;
* with the most POSITIVE costs (32767/32767) 32768 characters are still fine (EOS cost 2 147 450 879) and 32769 overflow at
  `connect_eos` (D7 as first reported).
Both witnesses are replayed on the real `Lattice` (`cost` lines `gen=chain:32768:-32768:-32768`, `chain:32768/32769:32767`) and
on the real tokenizer (directed cases `d7-chain-32769`, `d7-neg-chain-32768`). -/
theorem cost_overflow_threshold :
    latticeOutcome addI32 I32_MAX (fun _ _ => -32768) (chainNodes 32768 (-32768)) 32768 = .panic "overflow" ∧
    latticeOutcome addI32 I32_MAX (fun _ _ => 32767) (chainNodes 32768 32767) 32768
      = .ok (((32768 : Nat) : Int) * (32767 + 32767) + 32767, 32768, 0) ∧
    (((32768 : Nat) : Int) * (32767 + 32767) + 32767 = 2147450879) ∧
    latticeOutcome addI32 I32_MAX (fun _ _ => 32767) (chainNodes 32769 32767) 32769 = .panic "overflow" := by
  have eneg : ((-32768 : Int) + -32768) = -65536 := rfl
  have epos : ((32767 : Int) + 32767) = 65534 := rfl
  refine ⟨?_, ?_, by omega, ?_⟩
  · refine chain_outcome_overflow (-32768) (-32768) 32768 (by omega) ?_ (by rw [eneg]; omega) (by rw [eneg]; omega)
    intro i hi; unfold StepOk; rw [eneg]; refine ⟨by omega, by omega, by omega, by omega, by omega⟩
  · refine chain_outcome_ok 32767 32767 32768 (by omega) ?_ (by rw [epos]; omega) (by rw [epos]; omega)
    intro i hi; unfold StepOk; rw [epos]; refine ⟨by omega, by omega, by omega, by omega, by omega⟩
  · refine chain_outcome_overflow 32767 32767 32769 (by omega) ?_ (by rw [epos]; omega) (by rw [epos]; omega)
    intro i hi; unfold StepOk; rw [epos]; refine ⟨by omega, by omega, by omega, by omega, by omega⟩

/-- non-vacuity of `StepOk` / `ChainInv`: the first step of the negative chain, and the initial rows -/
example : StepOk (-32768) (-32768) 0 ∧ ChainInv 2 (-65536) 0 (reset 2) :=
  ⟨by unfold StepOk; refine ⟨by omega, by omega, by omega, by omega, by omega⟩, chain_reset 2 (-65536)⟩

/-! ## the newly executed part of the `pipe` model: the candidate behind a path entry -/

/-- **what the `oov=` part of a `pipe` answer prints is a configured POS id.**  `TotalIO.candAt nodes e i` — the model of
`ends_full[e][i]`, the node `Lattice::node(pid)` hands to `resolve_best_path` — is one of the candidates `build_lattice`
inserted; when it is an OOV node it carries a configured quadruple of a configured provider (so a fact `V` the loader
validated, e.g. "POS id inside the POS table", holds of it: `part_of_speech()` indexes the table in range), and the POS id
its morpheme reports (`WordId::oov(pos)`, then `word() as u16`: `TotalIO.oovPosId`) is that configured id whenever it
fits the `u16` field it is stored in. -/
theorem pipe_oov_pos_configured (ps : List Provider) (lex : List Word) (buf : Buf) (nodes : List Oov.Node)
    (h : buildLattice ps lex buf = .ok nodes) (e i : Nat) (x : Oov.Node) (hx : TotalIO.candAt nodes e i = some x)
    (hoov : x.oov = true) (V : OovDef → Prop) (hV : ∀ p ∈ ps, ∀ d ∈ providerDefs p, V d) :
    x ∈ nodes ∧ V (defOf x) ∧ (x.pos < 65536 → TotalIO.oovPosId x = x.pos) := by
  have hmem : x ∈ nodes := by
    unfold TotalIO.candAt at hx
    exact (List.mem_filter.mp (List.mem_of_getElem? hx)).1
  refine ⟨hmem, ?_, ?_⟩
  · rcases lattice_nodes_validated ps lex buf nodes h (fun _ _ _ => True) (fun _ _ => trivial) V hV x hmem with ⟨a, _⟩ | ⟨_, b⟩
    · rw [hoov] at a; cases a
    · exact b
  · intro hp
    unfold TotalIO.oovPosId Oov.widWord Oov.wordIdOov
    omega

/-- non-vacuity: over `ab` with one word `a` and the Simple provider (POS id 7) the second path entry is the OOV node
`1..2`, found at row 2, index 0; the driver prints `1:2:7` -/
example : TotalIO.candAt [⟨0, 1, 0, 0, 5, false, 0⟩, ⟨1, 2, 0, 0, 100, true, 7⟩] 2 0 = some ⟨1, 2, 0, 0, 100, true, 7⟩ ∧
    TotalIO.oovItems [⟨0, 1, 0, 0, 5, false, 0⟩, ⟨1, 2, 0, 0, 100, true, 7⟩]
      [⟨⟨0, 1, 0, 0, 5⟩, 15, 0, 0⟩, ⟨⟨1, 2, 0, 0, 100⟩, 125, 1, 0⟩] (2, 0) = ["1:2:7"] ∧
    TotalIO.maxRow [⟨0, 1, 0, 0, 5, false, 0⟩, ⟨1, 2, 0, 0, 100, true, 7⟩] 2 = 1 := by
  refine ⟨by decide, by decide, by decide⟩

open Partition Utf8Inv in
/-- **`tokenize_total_bundled_plugins` — `tokenize_total` (`do_tokenize` never panics) with `hplug` and `hutf` discharged** for
every configuration whose input-text plugins are bundled ones: `hplug` by `C03.pipe_plugins_never_panic`, `hutf` by the
UTF-8 invariant (`bundled_stack_utf8`).  The remaining hypotheses are those of `C03.tokenize_total`, unchanged (see there:
configuration facts, `hbound` = D7, `hrowsz`, `hrew`/`hkeep` of the path-rewrite stage). -/
theorem tokenize_total_bundled_plugins (lv : LenV) (cfg : Cfg) (orig : List Nat)
    (horig : ∃ cs, orig = TotalIO.encode cs)
    (hbundled : ∀ p ∈ cfg.inputPlugins, Bundled p)
    (rv : Variant) (bowFix : Bool) (tab : List (Nat × Nat))
    (hmk : ∀ chars, mkBufV rv bowFix tab chars = some (cfg.mkBuf chars))
    (hprov : cfg.providers ≠ [])
    (hregex : ∀ p ∈ cfg.providers, ∀ c, p = .regex c → c.skipEmpty = true)
    (hlexcost : ∀ w ∈ cfg.lex, I16 w.c)
    (hprovcost : ∀ p ∈ cfg.providers, ProviderCostOk p)
    (hconn : I16Conn cfg.conn)
    (hbound : ∀ chars, Reaches lv cfg orig chars → chars.length ≤ 32767)
    (hrowsz : ∀ chars nodes, Reaches lv cfg orig chars → buildLattice cfg.providers cfg.lex (cfg.mkBuf chars) = .ok nodes →
      ∀ e, (nodes.map toVit).countP (fun n => n.e == e) ≤ 4294967295)
    (hrew : ∀ path, NoPanic (cfg.rewrite path))
    (hkeep : ∀ (nb : Nat) path path', (∀ q ∈ path, q.eb ≤ nb) → cfg.rewrite path = .ok path' →
      ∀ p ∈ path', p.1.eb ≤ nb) :
    NoPanic (tokenize .d6fix lv cfg orig) := by
  refine tokenize_total lv cfg orig rv bowFix tab hmk hprov hregex hlexcost hprovcost hconn ?_ ?_ hbound hrowsz hrew hkeep
  · intro p hp t
    obtain ⟨a, S, c, rfl⟩ := hbundled p hp
    exact pipe_plugins_never_panic a S c t
  · intro l0 l a1 a2
    obtain ⟨_, r2, _⟩ := bundled_reach lv orig horig cfg.inputPlugins hbundled l0 l a1 a2
    exact enc_decodes l r2

end C03
