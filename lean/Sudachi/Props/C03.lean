import Sudachi.Proofs.Total
/-!
# C03 — Tokenization is total: never panics, succeeds within the documented limits

Model: `Model/Total.lean` (the fixed-width lattice `connect_node`/`insert`/`connect_eos`/`fill_top_path`,
`resolve_best_path`, `NodeSplitIterator::next`, the `Morpheme` accessors, and `tokenize` = the stages of
`do_tokenize` in their order) on top of `Model/Edit.lean` (`start_build`, `commit`), `Model/Oov.lean`
(`build_lattice`) and `Model/Lattice.lean` (candidate nodes).  `addI32` is the checked `i32` addition
(`none` = `attempt to add with overflow` in a debug build), `asU16` the `as u16` cast.
-/
namespace C03
open Total Oov EditM

/-! ## clause "never … overflows": the `i32` accumulator of `connect_node` -/

/-- Full statement wanted: *for every loadable dictionary and every text within the documented limits
(≤ 65535 characters) no `i32` addition of `connect_node`/`connect_eos` overflows.*  That is FALSE
(`cost_overflow_counterexample`, D7).  Proved: it holds whenever the normalised text has at most
**32767 characters** (`len * 65536 + 32768 ≤ 2^31`), all word and connection costs being `i16`
(`I16Conn`, `NodeOk`) — by the invariant "every stored total of a node ending at `e` is the sentinel or
within `± 65536·e`" (`RowsInv`), by induction over the insertion order.  Then every `insert` succeeds
and `connect_eos` returns a cost or `EosBosDisconnect`, never a panic.  The constant is exact for this
invariant: with all costs `-32768` a text of 32768 characters overflows at `connect_eos` (directed
correspondence case), with all costs `32767` one of 32769 characters does (D7). -/
theorem cost_no_overflow_partial (conn : Nat → Nat → Int) (hconn : I16Conn conn) (len : Nat)
    (hlen : len ≤ 32767) (nodes : List Vit.Node) (hnodes : ∀ n ∈ nodes, NodeOk len n) :
    ∃ rows ents, buildAll addI32 I32_MAX conn nodes (reset len) [] = .ok (rows, ents) ∧
      RowsInv len rows ∧
      ((∃ r, connectEos addI32 I32_MAX conn rows len = .ok r) ∨
        connectEos addI32 I32_MAX conn rows len = .err "Disconnect") := by
  obtain ⟨rows, ents, h1, h2⟩ := buildAll_ok conn hconn len hlen nodes (reset len) [] (reset_inv len) hnodes
  exact ⟨rows, ents, h1, h2, connectEos_ok conn hconn len hlen rows h2⟩

/-- non-vacuity: an `i16` matrix, two candidates over a two-character text -/
example : I16Conn (fun _ _ => 32767) ∧ (∀ n ∈ [(⟨0, 1, 0, 0, 32767⟩ : Vit.Node), ⟨1, 2, 0, 0, -32768⟩], NodeOk 2 n) := by
  refine ⟨fun _ _ => by constructor <;> simp, ?_⟩
  intro n hn
  simp only [List.mem_cons, List.not_mem_nil, or_false] at hn
  rcases hn with rfl | rfl <;> simp [NodeOk]

/-- one connection step alone: within the bounds the two additions of `connect_node` succeed -/
theorem connect_node_no_overflow (conn : Nat → Nat → Int) (hconn : I16Conn conn) (n : Vit.Node)
    (hc : -32768 ≤ n.c ∧ n.c ≤ 32767) (row : List Entry) (b : Nat) (hb : b ≤ 32766)
    (hrow : RowBound ((b : Int) * 65536) row) :
    ∃ r, connectNode addI32 I32_MAX conn row n = some r :=
  let ⟨r, h, _⟩ := connectNode_ok conn hconn n ((b : Int) * 65536) 32768 ⟨by omega, by omega⟩ (by omega) row hrow
  ⟨r, h⟩

/-- **D7 on a small-width instance of the same model** (accumulator range `[-128, 127]`, all word and
connection costs 7): a chain of ten one-character words overflows — the tenth `insert` is the
`attempt to add with overflow`.  The full-size instance (`i32`, costs 32767, 32769 characters) is
replayed on the real code by the harness (directed cases `d7-chain-*`) and by the `cost` correspondence. -/
theorem cost_overflow_counterexample :
    buildAll (addW 127) 127 (fun _ _ => 7)
      ((List.range 10).map (fun i => (⟨i, i + 1, 0, 0, 7⟩ : Vit.Node))) (reset 10) [] = .panic "overflow" ∧
    latticeOutcome (addW 127) 127 (fun _ _ => 7)
      ((List.range 8).map (fun i => (⟨i, i + 1, 0, 0, 7⟩ : Vit.Node))) 8 = .ok (119, 8, 0) := by
  constructor <;> decide

/-- **the sentinel coincidence** (same small width): a path whose cost is exactly the maximum is taken
for "not connected to BOS", so `connect_eos` reports `EosBosDisconnect` although every position has a
candidate and no addition overflowed (full size: directed case `d7-sentinel`, text `2` + 32769 × `1`). -/
theorem cost_sentinel_counterexample :
    latticeOutcome (addW 127) 127 (fun _ _ => 7)
      ((List.range 10).map (fun i => (⟨i, i + 1, 0, 0, if i = 0 then -6 else 7⟩ : Vit.Node))) 10
      = .err "Disconnect" := by
  decide

/-! ## clause "`as u16` casts": identity under the length limit -/

/-- Every character offset and every byte offset of a text of at most 65535 bytes survives `as u16`
(`Node::new(ch_off as u16, end_c as u16, …)`, `byte_begin as u16`, the EOS position `(len-1) as u16`), and so
does the back-pointer `NodeIdx::new(begin as u16, i as u16)` **provided the row has fewer than 65536 entries**
(hypothesis `hrow`: nothing in the code enforces it; it holds when fewer than 65536 candidates end at one
boundary). -/
theorem u16_casts_identity (nchars nbytes : Nat) (hb : nbytes ≤ 65535) (hc : nchars ≤ nbytes) :
    (∀ p, p ≤ nchars → asU16 p = p) ∧ (∀ b, b ≤ nbytes → asU16 b = b) ∧
    eosNode nchars = ⟨nchars, nchars, 0, 0, 0⟩ ∧
    (∀ begin i rowLen, begin ≤ nchars → i < rowLen → rowLen ≤ 65536 → (asU16 begin, asU16 i) = (begin, i)) := by
  refine ⟨fun p hp => asU16_id p (by omega), fun b hb' => asU16_id b (by omega), ?_, ?_⟩
  · simp [eosNode, asU16_id nchars (by omega)]
  · intro begin i rowLen h1 h2 h3
    rw [asU16_id begin (by omega), asU16_id i (by omega)]

/-- beyond the hypothesis the cast is not the identity: the 65537th entry of a row gets back-pointer
index 0 (a wrong predecessor, not a panic) -/
theorem u16_cast_wraps_counterexample : asU16 65536 = 0 ∧ asU16 65535 = 65535 := by decide

example : (49149 : Nat) ≤ 65535 ∧ (16383 : Nat) ≤ 49149 := by omega

/-! ## clause "reports an input-too-long error beyond the limits" -/

/-- `start_build` rejects exactly the inputs of more than 49149 bytes, before any other work -/
theorem start_build_limit (orig : List Nat) :
    (startBuild orig = none ↔ orig.length > 49149) := by
  unfold startBuild MAX_LENGTH
  split <;> simp_all

/-- Full statement for the first limit: an input of more than 49149 bytes gives the input-too-long error,
whatever the configuration -/
theorem tokenize_too_long (cfg : Cfg) (orig : List Nat) (h : orig.length > 49149) :
    tokenize cfg orig = .err "TooLong" := by
  unfold tokenize
  rw [(start_build_limit orig).2 h]

/-- second limit: when the plugins themselves return their edits, the only error `rewrite_input` can
report is input-too-long, and it is reported exactly when the running length of a commit exceeds 65535
(`C08.commit_too_long`) — note: the *running* length, checked after every edit of the batch, not the
length of the normalised text (finding `commit-transient-length`). -/
theorem rewrite_input_only_too_long (ps : List (List Nat → Outcome (List (Edit Nat)))) (l : List (P Nat))
    (hp : ∀ p ∈ ps, ∀ t, ∃ es, p t = .ok es) (k : String) (h : rewriteInput ps l = .err k) : k = "TooLong" :=
  rewriteInput_err ps l hp k h

/-- the running-length check rejects a batch whose result would be within the limit: 65535 bytes,
insert one byte, delete one byte (a one-edit-at-a-time instance of the finding) -/
theorem commit_transient_counterexample :
    lenOk 65535 65535 [(⟨0, 0, [1]⟩ : Edit Nat), ⟨1, 2, []⟩] = false ∧
    ((65535 : Int) + 1 - 1 ≤ 65535) := by
  constructor
  · decide
  · omega

/-! ## clause "every accessor of every returned morpheme is safe to call" (offsets) -/

/-- Under the C08 invariant of the offset map (`EditM.Inv`, established by `C08.m2o_inv` for admissible
batches) `Morpheme::begin()`/`end()` (`morphRangeC`: `mod_c2b` then `m2o`) are defined for every node whose
character range lies inside the normalised text, and the offsets are inside the original text. -/
theorem morph_range_defined {st : Nat → Bool} {Bo : Nat → Prop} {N : Nat} (l : List (P Nat))
    (hinv : Inv st Bo N l) (n : EditM.NodeRange) (hb : n.bc ≤ nchars (textOf l)) (he : n.ec ≤ nchars (textOf l)) :
    ∃ b e, morphRangeC l n = some (b, e) ∧ b ≤ N ∧ e ≤ N := by
  obtain ⟨b, hb1, hb2⟩ := toOrigByteIdx_some l hinv n.bc hb
  obtain ⟨e, he1, he2⟩ := toOrigByteIdx_some l hinv n.ec he
  exact ⟨b, e, by simp [morphRangeC, hb1, he1], hb2, he2⟩

/-- the byte route of `surface()` (`m2o[begin_bytes]..m2o[end_bytes]`) is defined for byte offsets inside
the normalised text -/
theorem morph_range_bytes_defined {st : Nat → Bool} {Bo : Nat → Prop} {N : Nat} (l : List (P Nat))
    (hinv : Inv st Bo N l) (n : EditM.NodeRange) (hb : n.bb ≤ (textOf l).length) (he : n.eb ≤ (textOf l).length) :
    ∃ b e, morphRangeB l n = some (b, e) := by
  have hlen := shape_length hinv.shape
  refine ⟨valAt l n.bb, valAt l n.eb, ?_⟩
  unfold morphRangeB
  rw [snds_getElem? l n.bb (by omega), snds_getElem? l n.eb (by omega)]

/-- D6 on the model: a split unit longer than its parent (`東` = 3 bytes, first unit `東京都` = 9 bytes)
makes `NodeSplitIterator::next` index `mod_b2c` out of range -/
theorem split_longer_than_parent_counterexample :
    isPanic (split (b2c [0xE6, 0x9D, 0xB1]) ⟨0, 1, 0, 3⟩ [9, 3]) = true ∧
    isPanic (split (b2c [0xE6, 0x9D, 0xB1, 0xE4, 0xBA, 0xAC]) ⟨0, 2, 0, 6⟩ [3, 3]) = false := by decide

/-- well-formed units (every proper prefix sum of the unit lengths is a byte offset inside the text) never
index out of range: one step of the iterator -/
theorem split_step_in_range (b2c : List Nat) (ce be h u : Nat) (rest : List Nat) (cs bs : Nat)
    (hin : bs + h < b2c.length) :
    ∃ c, b2c[bs + h]? = some c ∧
      isPanic (splitGo b2c ce be (h :: u :: rest) cs bs) =
        isPanic (splitGo b2c ce be (u :: rest) (asU16 c) (asU16 (bs + h))) := by
  refine ⟨b2c[bs + h], List.getElem?_eq_getElem hin, ?_⟩
  simp only [splitGo, List.getElem?_eq_getElem hin]
  cases splitGo b2c ce be (u :: rest) (asU16 b2c[bs + h]) (asU16 (bs + h)) <;> rfl

/-! ## the composition: `do_tokenize` never panics -/

/-- Full statement wanted (`tokenize_total`): *for every text and every configuration that loaded
successfully the outcome of `tokenize` is `ok` or `err`, never `panic`; with a fallback provider last it is
`ok` whenever `|orig| ≤ 49149 ∧ |normalised| ≤ 65535`, and `err TooLong` beyond.*  It is FALSE for the code
(D7 overflow / sentinel, D6 ill-formed splits, the running-length check, the numeral loop of C14).

Proved (partial): the stages compose without a panic when
* `hplug`  the input-text plugins return edits or an error (bundled plugins: C07 `*_edits_ok`, `edits_ok_apply_total`);
* `hutf`   the rewritten text is valid UTF-8 (C08 `m2o_inv`: replacements are whole strings);
* `hlat`   the lattice builder does not panic (C13 proves "never Disconnect with a fallback last"; index safety of
           the providers under well-formed run tables and the exclusion of regexes matching the empty string are
           the missing component lemma);
* `hnodes` every candidate is non-empty, inside the text and has an `i16` cost (C13 `mecab_candidates_spec`,
           `simple_iff_empty`; missing: `e ≤ n` for MeCab candidates);
* `hconn`  the matrix is `i16`;
* `hbound` **the normalised text has at most 32767 characters** — the D7 hypothesis, not implied by the limits;
* `hpath`, `hres` back-pointers and `mod_c2b` indices are in range (missing lemma `lattice_index_in_range`;
           tied by the `cost` correspondence: back-pointers are compared entry by entry);
* `hrew`   word-info lookup and the path-rewrite plugins do not panic (C14 `join_katakana_total`; the numeral loop
           can diverge: C14 finding);
* `hsplit` split units are well formed (`split_step_in_range`; D6 otherwise).
Under the same hypotheses an input of more than 49149 bytes gives `err TooLong` (`tokenize_too_long`, unconditional). -/
theorem tokenize_total_partial (cfg : Cfg) (orig : List Nat)
    (hplug : ∀ p ∈ cfg.inputPlugins, ∀ t, NoPanic (p t))
    (hutf : ∀ l0 l, startBuild orig = some l0 → rewriteInput cfg.inputPlugins l0 = .ok l →
      Wire.utf8Decode (textOf l) ≠ none)
    (hlat : ∀ chars, NoPanic (buildLattice cfg.providers cfg.lex (cfg.mkBuf chars)))
    (hnodes : ∀ chars nodes, buildLattice cfg.providers cfg.lex (cfg.mkBuf chars) = .ok nodes →
      ∀ n ∈ nodes.map toVit, NodeOk chars.length n)
    (hconn : I16Conn cfg.conn)
    (hbound : ∀ l0 l chars, startBuild orig = some l0 → rewriteInput cfg.inputPlugins l0 = .ok l →
      Wire.utf8Decode (textOf l) = some chars → chars.length ≤ 32767)
    (hpath : ∀ (len : Nat) (rows : Rows) (c : Int) (pe pi : Nat), RowsInv len rows →
      connectEos addI32 I32_MAX cfg.conn rows len = .ok (c, pe, pi) → NoPanic (topPath rows (len + 1) (pe, pi) []))
    (hres : ∀ (len : Nat) (rows : Rows) (pe pi : Nat) (ents : List Entry) (text : List Nat), RowsInv len rows →
      topPath rows (len + 1) (pe, pi) [] = .ok ents → NoPanic (mapM (resultNode (c2b text)) ents))
    (hrew : ∀ path, NoPanic (cfg.rewrite path))
    (hsplit : ∀ text path path', cfg.rewrite path = .ok path' → NoPanic (splitPath (b2c text) path')) :
    NoPanic (tokenize cfg orig) := by
  intro w h
  unfold tokenize at h
  cases h0 : startBuild orig with
  | none => rw [h0] at h; simp at h
  | some l0 =>
    rw [h0] at h; simp only [] at h
    cases h1 : rewriteInput cfg.inputPlugins l0 with
    | err k => rw [h1] at h; simp at h
    | panic w' => exact rewriteInput_noPanic _ _ hplug w' h1
    | ok l =>
      rw [h1] at h; simp only [] at h
      cases h2 : Wire.utf8Decode (textOf l) with
      | none => exact hutf l0 l h0 h1 h2
      | some chars =>
        rw [h2] at h; simp only [] at h
        split at h
        · simp at h
        · cases h3 : buildLattice cfg.providers cfg.lex (cfg.mkBuf chars) with
          | err k => rw [h3] at h; simp at h
          | panic w' => exact hlat chars w' h3
          | ok nodes =>
            rw [h3] at h; simp only [] at h
            have hlen := hbound l0 l chars h0 h1 h2
            obtain ⟨rows, ents, hb1, hinv, _⟩ :=
              C03.cost_no_overflow_partial cfg.conn hconn chars.length hlen (nodes.map toVit) (hnodes chars nodes h3)
            rw [hb1] at h; simp only [] at h
            cases h4 : connectEos addI32 I32_MAX cfg.conn rows chars.length with
            | err k => rw [h4] at h; simp at h
            | panic w' =>
              rcases connectEos_ok cfg.conn hconn chars.length hlen rows hinv with ⟨r, hr⟩ | hr
              · rw [hr] at h4; cases h4
              · rw [hr] at h4; cases h4
            | ok r =>
              obtain ⟨c, pe, pi⟩ := r
              rw [h4] at h; simp only [] at h
              cases h5 : topPath rows (chars.length + 1) (pe, pi) [] with
              | err k => rw [h5] at h; simp at h
              | panic w' => exact hpath chars.length rows c pe pi hinv h4 w' h5
              | ok es =>
                rw [h5] at h; simp only [] at h
                cases h6 : mapM (resultNode (c2b (textOf l))) es with
                | err k => rw [h6] at h; simp at h
                | panic w' => exact hres chars.length rows pe pi es (textOf l) hinv h5 w' h6
                | ok path =>
                  rw [h6] at h; simp only [] at h
                  cases h7 : cfg.rewrite path with
                  | err k => rw [h7] at h; simp at h
                  | panic w' => exact hrew path w' h7
                  | ok path' =>
                    rw [h7] at h; simp only [] at h
                    cases h8 : splitPath (b2c (textOf l)) path' with
                    | err k => rw [h8] at h; simp at h
                    | panic w' => exact hsplit (textOf l) path path' h7 w' h8
                    | ok ms => rw [h8] at h; simp at h

/-- non-vacuity of the composition: a configuration without plugins, a one-word lexicon and the Simple
provider last, on the text `a` (one morpheme) and on the empty text (no morpheme) -/
def exampleCfg : Cfg :=
  { inputPlugins := [], mkBuf := fun cs => ⟨cs, cs.map (fun _ => 1), cs.map (fun _ => 1), cs.map (fun _ => true)⟩,
    providers := [.simple ⟨0, 0, 100, 0⟩], lex := [⟨[97], 0, 0, 5⟩], conn := fun _ _ => 10,
    rewrite := fun p => .ok (p.map (fun n => (n, []))) }

example : morphCount (tokenize exampleCfg [97]) = some 1 ∧ morphCount (tokenize exampleCfg []) = some 0 := by
  constructor
  · simp [tokenize, startBuild, MAX_LENGTH, identFrom, exampleCfg, rewriteInput, textOf, Wire.utf8Decode]
    decide
  · simp [tokenize, startBuild, MAX_LENGTH, identFrom, exampleCfg, rewriteInput, textOf, Wire.utf8Decode, morphCount]

end C03
