import Sudachi.Proofs.Total
/-!
# C03 — Tokenization is total: never panics, succeeds within the documented limits

Model: `Model/Total.lean` (the fixed-width lattice `connect_node`/`insert`/`connect_eos`/`fill_top_path`,
`resolve_best_path`, `NodeSplitIterator::next`, the `Morpheme` accessors, and `tokenize` = the stages of
`do_tokenize` in their order) on top of `Model/Edit.lean` (`start_build`, `commit`), `Model/Oov.lean`
(`build_lattice`) and `Model/Lattice.lean` (candidate nodes).  `addI32` is the checked `i32` addition
(`none` = `attempt to add with overflow` in a debug build), `asU16` the `as u16` cast.
-/
namespace C03
open Total Oov EditM

/-! ## clause "never … overflows": the `i32` accumulator of `connect_node` -/

/-- Full statement wanted: *for every loadable dictionary and every text within the documented limits
(≤ 65535 characters) no `i32` addition of `connect_node`/`connect_eos` overflows.*  That is FALSE
(`cost_overflow_counterexample`, D7).  Proved: it holds whenever the normalised text has at most
**32767 characters** (`len * 65536 + 32768 ≤ 2^31`), all word and connection costs being `i16`
(`I16Conn`, `NodeOk`) — by the invariant "every stored total of a node ending at `e` is the sentinel or
within `± 65536·e`" (`RowsInv`), by induction over the insertion order.  Then every `insert` succeeds
and `connect_eos` returns a cost or `EosBosDisconnect`, never a panic.  The constant is exact for this
invariant: with all costs `-32768` a text of 32768 characters overflows at `connect_eos` (directed
correspondence case), with all costs `32767` one of 32769 characters does (D7). -/
theorem cost_no_overflow_partial (conn : Nat → Nat → Int) (hconn : I16Conn conn) (len : Nat)
    (hlen : len ≤ 32767) (nodes : List Vit.Node) (hnodes : ∀ n ∈ nodes, NodeOk len n) :
    ∃ rows ents, buildAll addI32 I32_MAX conn nodes (reset len) [] = .ok (rows, ents) ∧
      RowsInv len rows ∧
      ((∃ r, connectEos addI32 I32_MAX conn rows len = .ok r) ∨
        connectEos addI32 I32_MAX conn rows len = .err "Disconnect") := by
  obtain ⟨rows, ents, h1, h2⟩ := buildAll_ok conn hconn len hlen nodes (reset len) [] (reset_inv len) hnodes
  exact ⟨rows, ents, h1, h2, connectEos_ok conn hconn len hlen rows h2⟩

/-- non-vacuity: an `i16` matrix, two candidates over a two-character text -/
example : I16Conn (fun _ _ => 32767) ∧ (∀ n ∈ [(⟨0, 1, 0, 0, 32767⟩ : Vit.Node), ⟨1, 2, 0, 0, -32768⟩], NodeOk 2 n) := by
  refine ⟨fun _ _ => by constructor <;> simp, ?_⟩
  intro n hn
  simp only [List.mem_cons, List.not_mem_nil, or_false] at hn
  rcases hn with rfl | rfl <;> simp [NodeOk]

/-- one connection step alone: within the bounds the two additions of `connect_node` succeed -/
theorem connect_node_no_overflow (conn : Nat → Nat → Int) (hconn : I16Conn conn) (n : Vit.Node)
    (hc : -32768 ≤ n.c ∧ n.c ≤ 32767) (row : List Entry) (b : Nat) (hb : b ≤ 32766)
    (hrow : RowBound ((b : Int) * 65536) row) :
    ∃ r, connectNode addI32 I32_MAX conn row n = some r :=
  let ⟨r, h, _⟩ := connectNode_ok conn hconn n ((b : Int) * 65536) 32768 ⟨by omega, by omega⟩ (by omega) row hrow
  ⟨r, h⟩

/-- **D7 on a small-width instance of the same model** (accumulator range `[-128, 127]`, all word and
connection costs 7): a chain of ten one-character words overflows — the tenth `insert` is the
`attempt to add with overflow`.  The full-size instance (`i32`, costs 32767, 32769 characters) is
replayed on the real code by the harness (directed cases `d7-chain-*`) and by the `cost` correspondence. -/
theorem cost_overflow_counterexample :
    buildAll (addW 127) 127 (fun _ _ => 7)
      ((List.range 10).map (fun i => (⟨i, i + 1, 0, 0, 7⟩ : Vit.Node))) (reset 10) [] = .panic "overflow" ∧
    latticeOutcome (addW 127) 127 (fun _ _ => 7)
      ((List.range 8).map (fun i => (⟨i, i + 1, 0, 0, 7⟩ : Vit.Node))) 8 = .ok (119, 8, 0) := by
  constructor <;> decide

/-- **the sentinel coincidence** (same small width): a path whose cost is exactly the maximum is taken
for "not connected to BOS", so `connect_eos` reports `EosBosDisconnect` although every position has a
candidate and no addition overflowed (full size: directed case `d7-sentinel`, text `2` + 32769 × `1`). -/
theorem cost_sentinel_counterexample :
    latticeOutcome (addW 127) 127 (fun _ _ => 7)
      ((List.range 10).map (fun i => (⟨i, i + 1, 0, 0, if i = 0 then -6 else 7⟩ : Vit.Node))) 10
      = .err "Disconnect" := by
  decide

/-! ## clause "`as u16` casts": identity under the length limit -/

/-- Every character offset and every byte offset of a text of at most 65535 bytes survives `as u16`
(`Node::new(ch_off as u16, end_c as u16, …)`, `byte_begin as u16`, the EOS position `(len-1) as u16`), and so
does the back-pointer `NodeIdx::new(begin as u16, i as u16)` **provided the row has fewer than 65536 entries**
(hypothesis `hrow`: nothing in the code enforces it; it holds when fewer than 65536 candidates end at one
boundary). -/
theorem u16_casts_identity (nchars nbytes : Nat) (hb : nbytes ≤ 65535) (hc : nchars ≤ nbytes) :
    (∀ p, p ≤ nchars → asU16 p = p) ∧ (∀ b, b ≤ nbytes → asU16 b = b) ∧
    eosNode nchars = ⟨nchars, nchars, 0, 0, 0⟩ ∧
    (∀ begin i rowLen, begin ≤ nchars → i < rowLen → rowLen ≤ 65536 → (asU16 begin, asU16 i) = (begin, i)) := by
  refine ⟨fun p hp => asU16_id p (by omega), fun b hb' => asU16_id b (by omega), ?_, ?_⟩
  · simp [eosNode, asU16_id nchars (by omega)]
  · intro begin i rowLen h1 h2 h3
    rw [asU16_id begin (by omega), asU16_id i (by omega)]

/-- beyond the hypothesis the cast is not the identity: the 65537th entry of a row gets back-pointer
index 0 (a wrong predecessor, not a panic) -/
theorem u16_cast_wraps_counterexample : asU16 65536 = 0 ∧ asU16 65535 = 65535 := by decide

example : (49149 : Nat) ≤ 65535 ∧ (16383 : Nat) ≤ 49149 := by omega

/-! ## clause "reports an input-too-long error beyond the limits" -/

/-- `start_build` rejects exactly the inputs of more than 49149 bytes, before any other work -/
theorem start_build_limit (orig : List Nat) :
    (startBuild orig = none ↔ orig.length > 49149) := by
  unfold startBuild MAX_LENGTH
  split <;> simp_all

/-- Full statement for the first limit: an input of more than 49149 bytes gives the input-too-long error,
whatever the configuration -/
theorem tokenize_too_long (v : SplitV) (lv : LenV) (cfg : Cfg) (orig : List Nat) (h : orig.length > 49149) :
    tokenize v lv cfg orig = .err "TooLong" := by
  unfold tokenize
  rw [(start_build_limit orig).2 h]

/-- second limit: when the plugins themselves return their edits, the only error `rewrite_input` can
report is input-too-long (both length guards).  In the pinned tree (`lv = running`) it is reported exactly when
the running length of a commit exceeds 65535 (`C08.commit_too_long`) — the *running* length, checked after
every edit of the batch, not the length of the normalised text (finding `commit-transient-length`,
`commit_transient_counterexample`); in the repaired tree (`lv = final`) exactly when the rewritten text of a
commit exceeds 65535 bytes (`commit_final_too_long_iff`). -/
theorem rewrite_input_only_too_long (lv : LenV) (ps : List (List Nat → Outcome (List (Edit Nat)))) (l : List (P Nat))
    (hp : ∀ p ∈ ps, ∀ t, ∃ es, p t = .ok es) (k : String) (h : rewriteInput lv ps l = .err k) : k = "TooLong" :=
  rewriteInput_err lv ps l hp k h

/-- **the pinned guard (variant `running`)**: the running-length check rejects a batch whose result would be
within the limit: 65535 bytes, insert one byte, delete one byte (a one-edit-at-a-time instance of the finding);
the repaired guard (variant `final`) accepts the same batch -/
theorem commit_transient_counterexample :
    lenOk 65535 65535 [(⟨0, 0, [1]⟩ : Edit Nat), ⟨1, 2, []⟩] = false ∧
    ((65535 : Int) + 1 - 1 ≤ 65535) ∧
    lenGuard .running 65535 65535 [(⟨0, 0, [1]⟩ : Edit Nat), ⟨1, 2, []⟩] = false ∧
    lenGuard .final 65535 65535 [(⟨0, 0, [1]⟩ : Edit Nat), ⟨1, 2, []⟩] = true := by
  refine ⟨by decide, by omega, by decide, by decide⟩

/-- **The repaired guard (variant `final`): `commit` fails iff the FINAL length exceeds the limit.**  For a
buffer of the shape every reachable state has (`Shape`: one map entry per byte plus the sentinel) and a non-empty
batch of sorted, non-overlapping, in-range edits (`EditsOk`, what the plugins emit: C07 `*_edits_ok`), the batch is
rejected with input-too-long exactly when the rewritten text — `resolve_edits` run to its end — would be longer
than 65535 bytes; otherwise it is committed and the result is that rewritten text.  This is the clause of the
property ("succeeds … whose normalised form is at most 65535 bytes") that `commit_transient_counterexample`
refutes for the pinned guard. -/
theorem commit_final_too_long_iff (N : Nat) (l : List (P Nat)) (hs : Shape N l) (es : List (Edit Nat)) (hne : es ≠ [])
    (hok : EditsOk (l.length - 1) 0 es) :
    (commitV .final l es = none ↔ 65535 < (textOf (resolve l es)).length) ∧
    (∀ l', commitV .final l es = some l' ↔ l' = resolve l es ∧ (textOf (resolve l es)).length ≤ 65535) :=
  ⟨commitV_final_none_iff N l hs es hne hok, fun l' => commitV_final_some_iff N l hs es hne hok l'⟩

/-- the length the repaired `resolve_edits` computes before copying anything (`finalLen`) IS the length of the
rewritten text: current length plus, per edit, replacement length minus replaced length -/
theorem final_length_is_text_length (N : Nat) (l : List (P Nat)) (hs : Shape N l) (es : List (Edit Nat))
    (hok : EditsOk (l.length - 1) 0 es) :
    (((textOf (resolve l es)).length : Nat) : Int) = finalLen (((textOf l).length : Nat) : Int) es :=
  resolve_text_length N l hs es hok

/-- the repair removes no functionality: every batch the pinned `commit` accepts is accepted by the repaired one
with the same result (no hypothesis on the edits) -/
theorem commit_final_extends_running (l : List (P Nat)) (es : List (Edit Nat)) (l' : List (P Nat))
    (h : commitV .running l es = some l') : commitV .final l es = some l' :=
  commit_imp_commitV_final l es l' h

/-- non-vacuity of `Shape`/`EditsOk`/`es ≠ []`, and the finding's shape at small scale: text `ab`, first byte
replaced by three bytes, second byte deleted — both guards commit, result `[1,2,3]` with map `[0,1,1,2]` -/
example : Shape 2 (identFrom 0 [97, 98]) ∧
    EditsOk ((identFrom 0 [97, 98]).length - 1) 0 [(⟨0, 1, [1, 2, 3]⟩ : Edit Nat), ⟨1, 2, []⟩] ∧
    (commitV .final (identFrom 0 [97, 98]) [(⟨0, 1, [1, 2, 3]⟩ : Edit Nat), ⟨1, 2, []⟩]).map (fun l => (textOf l, snds l))
      = some ([1, 2, 3], [0, 1, 1, 2]) ∧
    commitV .running (identFrom 0 [97, 98]) [(⟨0, 1, [1, 2, 3]⟩ : Edit Nat), ⟨1, 2, []⟩]
      = commitV .final (identFrom 0 [97, 98]) [(⟨0, 1, [1, 2, 3]⟩ : Edit Nat), ⟨1, 2, []⟩] := by
  refine ⟨ident_shape [97, 98], by simp [EditsOk, identFrom], by decide, by decide⟩

/-! ## clause "every accessor of every returned morpheme is safe to call" (offsets) -/

/-- Under the C08 invariant of the offset map (`EditM.Inv`, established by `C08.m2o_inv` for admissible
batches) `Morpheme::begin()`/`end()` (`morphRangeC`: `mod_c2b` then `m2o`) are defined for every node whose
character range lies inside the normalised text, and the offsets are inside the original text. -/
theorem morph_range_defined {st : Nat → Bool} {Bo : Nat → Prop} {N : Nat} (l : List (P Nat))
    (hinv : Inv st Bo N l) (n : EditM.NodeRange) (hb : n.bc ≤ nchars (textOf l)) (he : n.ec ≤ nchars (textOf l)) :
    ∃ b e, morphRangeC l n = some (b, e) ∧ b ≤ N ∧ e ≤ N := by
  obtain ⟨b, hb1, hb2⟩ := toOrigByteIdx_some l hinv n.bc hb
  obtain ⟨e, he1, he2⟩ := toOrigByteIdx_some l hinv n.ec he
  exact ⟨b, e, by simp [morphRangeC, hb1, he1], hb2, he2⟩

/-- the byte route of `surface()` (`m2o[begin_bytes]..m2o[end_bytes]`) is defined for byte offsets inside
the normalised text -/
theorem morph_range_bytes_defined {st : Nat → Bool} {Bo : Nat → Prop} {N : Nat} (l : List (P Nat))
    (hinv : Inv st Bo N l) (n : EditM.NodeRange) (hb : n.bb ≤ (textOf l).length) (he : n.eb ≤ (textOf l).length) :
    ∃ b e, morphRangeB l n = some (b, e) := by
  have hlen := shape_length hinv.shape
  refine ⟨valAt l n.bb, valAt l n.eb, ?_⟩
  unfold morphRangeB
  rw [snds_getElem? l n.bb (by omega), snds_getElem? l n.eb (by omega)]

/-! ## clause "never panics": `NodeSplitIterator::next` (D6 and its repair) -/

/-- D6 on the model of the code **before** the repair (variant `cur`): a split unit longer than its parent
(`東` = 3 bytes, first unit `東京都` = 9 bytes) makes `NodeSplitIterator::next` index `mod_b2c` out of range;
a well-formed split does not.  (The tree now carries the repair `fix: keep split units inside their parent
token`; the harness selects the variant by probing `analysis/node.rs`, so this stays the witness of what the
old code did and of what a regression would do.) -/
theorem split_longer_than_parent_counterexample :
    isPanic (split .cur (b2c [0xE6, 0x9D, 0xB1]) (c2b [0xE6, 0x9D, 0xB1]) ⟨0, 1, 0, 3⟩ [9, 3]) = true ∧
    isPanic (split .cur (b2c [0xE6, 0x9D, 0xB1, 0xE4, 0xBA, 0xAC]) (c2b [0xE6, 0x9D, 0xB1, 0xE4, 0xBA, 0xAC])
      ⟨0, 2, 0, 6⟩ [3, 3]) = false := by decide

/-- variant `cur`: well-formed units (every proper prefix sum of the unit lengths is a byte offset inside
the text) never index out of range: one step of the iterator -/
theorem split_step_in_range (b2c c2b : List Nat) (ce be h u : Nat) (rest : List Nat) (cs bs : Nat)
    (hin : bs + h < b2c.length) :
    ∃ c, b2c[bs + h]? = some c ∧
      isPanic (splitGo .cur b2c c2b ce be (h :: u :: rest) cs bs) =
        isPanic (splitGo .cur b2c c2b ce be (u :: rest) (asU16 c) (asU16 (bs + h))) := by
  refine ⟨b2c[bs + h], List.getElem?_eq_getElem hin, ?_⟩
  simp only [splitGo, unitEnd, List.getElem?_eq_getElem hin]
  cases splitGo .cur b2c c2b ce be (u :: rest) (asU16 b2c[bs + h]) (asU16 (bs + h)) <;> rfl

/-- **The repaired iterator (variant `d6fix`, the code that exists now) never indexes `mod_b2c` / `mod_c2b`
out of range — for ANY unit key lengths** (no well-formedness of the split declaration is assumed) and any
parent node whose byte end is inside the buffer.  The only facts used are the range facts of a built buffer
(`TablesRange`): `mod_b2c[i]` exists for every `i ≤ nb` and is an index of `mod_c2b`.  They hold for the
tables of every text with at least one character (`tables_of_text`; the model's `b2c`/`c2b` are the tables the
`access` correspondence recomputes from the dumped text). -/
theorem split_d6fix_never_out_of_range (tb2c tc2b : List Nat) (nb : Nat) (hr : TablesRange tb2c tc2b nb)
    (n : EditM.NodeRange) (hn : n.eb ≤ nb) (units : List Nat) :
    ∃ us, split .d6fix tb2c tc2b n units = .ok us :=
  splitGo_d6fix_ok tb2c tc2b nb hr n.ec n.eb hn units n.bc n.bb

/-- the range facts are those of the tables of a text: instance of the previous theorem for `mod_b2c`/`mod_c2b`
as `InputBuffer::build` fills them (any text that begins with a character start, any units, any node ending
inside the text) -/
theorem split_d6fix_never_out_of_range_text (t : List Nat) (h1 : 1 ≤ nchars t)
    (n : EditM.NodeRange) (hn : n.eb ≤ t.length) (units : List Nat) :
    ∃ us, split .d6fix (b2c t) (c2b t) n units = .ok us :=
  split_d6fix_never_out_of_range _ _ t.length (tables_of_text t h1) n hn units

/-- **Every unit of the repaired iterator stays inside its parent** — again for any unit key lengths.  Under the
table invariants of a built buffer of `nb ≤ 65535` bytes and `nc ≤ 65535` characters (`TablesOk`: `mod_b2c` and
`mod_c2b` non-decreasing and in range, `mod_c2b[mod_b2c[i]] ≤ i`, `mod_b2c[mod_c2b[k]] = k`; cf. C09 `B2cOk`/`C2bOk`,
C08 `c2b_spec`) and for a parent that begins and ends on character starts inside the buffer (`At`), the split
succeeds and its units (a) lie in the parent's byte range and character range, (b) run forward (`begin ≤ end`, so
`surface()` never slices backwards — the third D6 symptom), (c) begin and end on character starts (so no
`off char boundary` assertion), (d) tile the parent: the first begins where the parent begins, each next one where
the previous ended, the last ends where the parent ends. -/
theorem split_d6fix_units_inside_parent (tb2c tc2b : List Nat) (nb nc : Nat) (ht : TablesOk tb2c tc2b nb nc)
    (hnb : nb ≤ 65535) (hnc : nc ≤ 65535) (n : EditM.NodeRange) (hle : n.bb ≤ n.eb) (hn : n.eb ≤ nb)
    (hb : At tb2c tc2b n.bc n.bb) (he : At tb2c tc2b n.ec n.eb) (units : List Nat) (hu : units ≠ []) :
    ∃ us, split .d6fix tb2c tc2b n units = .ok us ∧ (∀ u ∈ us, UnitOk tb2c tc2b n u) ∧
      Tiles us n.bc n.bb n.ec n.eb := by
  obtain ⟨us, h1, h2, h3⟩ := splitGo_d6fix_spec tb2c tc2b nb nc ht hnb hnc n hn he units n.bc n.bb hu hb
    (Nat.le_refl _) hle (Nat.le_refl _)
  exact ⟨us, h1, h3, h2⟩

/-- non-vacuity, and the D6 witness under the repair: `東` (3 bytes, 1 character) satisfies the table invariants
(`tablesOk_of_text`), the parent `0..1 / 0..3` is on character starts, and the ill-formed units `[9, 3]` now give
`東` + an empty unit at the parent's end (what the repaired code returns: directed cases `d6-split-*`) -/
example : TablesOk (b2c [0xE6, 0x9D, 0xB1]) (c2b [0xE6, 0x9D, 0xB1]) 3 1 ∧
    At (b2c [0xE6, 0x9D, 0xB1]) (c2b [0xE6, 0x9D, 0xB1]) 0 0 ∧ At (b2c [0xE6, 0x9D, 0xB1]) (c2b [0xE6, 0x9D, 0xB1]) 1 3 ∧
    split .d6fix (b2c [0xE6, 0x9D, 0xB1]) (c2b [0xE6, 0x9D, 0xB1]) ⟨0, 1, 0, 3⟩ [9, 3] = .ok [⟨0, 1, 0, 3⟩, ⟨1, 1, 3, 3⟩] :=
  ⟨tablesOk_of_text [0xE6, 0x9D, 0xB1] 0xE6 [0x9D, 0xB1] rfl (by decide), by unfold At; decide, by unfold At; decide, rfl⟩

/-! ## clause "never … indexes out of bounds": back-pointers of `fill_top_path`, `mod_c2b` in `resolve_best_path` -/

/-- **`lattice_index_in_range`.**  After `build_lattice` (all `insert`s, then a `connect_eos` that succeeded) the walk of
`fill_top_path` along the back-pointers never indexes `ends`/`indices` out of range, terminates within `len + 1` steps
at a node that begins at 0, visits only nodes inside the text (`begin < end ≤ len`), and `resolve_best_path`'s
`mod_c2b` lookups for those nodes are in range — for ANY addition (`add` arbitrary: checked, wrapping, overflowing or
not), any costs and any connection matrix.  Hypotheses: the candidates are non-empty and inside the text (`hnodes`), the
text has between 1 and 65535 characters, and **fewer than 65536 candidates end at any one boundary** (`hrow`: the row
index of the back-pointer is a `u16`; nothing in the code enforces this, see `u16_cast_wraps_counterexample`), `t` is a
text with at least `len` character starts (`utf8Decode_length_le`).
Invariant (`PathInv`, by induction over the insertion order): every stored entry lies in the row of its end, begins
before it, and is either unconnected (sentinel) or points to `(begin, index of a connected entry of row begin)`. -/
theorem lattice_index_in_range (add : Int → Int → Option Int) (conn : Nat → Nat → Int) (len : Nat)
    (hlen : 1 ≤ len ∧ len ≤ 65535) (nodes : List Vit.Node) (hnodes : ∀ n ∈ nodes, n.b < n.e ∧ n.e ≤ len)
    (hrow : ∀ e, nodes.countP (fun n => n.e == e) ≤ 65535)
    (rows : Rows) (ents : List Entry) (c : Int) (pe pi : Nat)
    (hb : buildAll add I32_MAX conn nodes (reset len) [] = .ok (rows, ents))
    (he : connectEos add I32_MAX conn rows len = .ok (c, pe, pi)) (t : List Nat) (ht : len ≤ nchars t) :
    ∃ path, topPath rows (len + 1) (pe, pi) [] = .ok path ∧
      (∀ x ∈ path, x.node.b < x.node.e ∧ x.node.e ≤ len) ∧
      ∃ rs, mapM (resultNode (c2b t)) path = .ok rs := by
  have hinv := buildAll_pathInv add conn len hlen.2 nodes (reset len) [] rows ents (reset_pathInv len nodes hrow) hnodes hb
  obtain ⟨hpe, row, p, h1, h2, h3⟩ := connectEos_ptr add conn len hlen.2 rows hinv c pe pi he
  subst hpe
  obtain ⟨path, g1, g2⟩ := topPath_ok pe rows hinv pe (pe + 1) pi p [] row hlen.1 (by omega) h1 h2 h3
  have g3 : ∀ x ∈ path, x.node.b < x.node.e ∧ x.node.e ≤ pe := by
    intro x hx
    rcases g2 x hx with g | g
    · cases g
    · exact g
  refine ⟨path, g1, g3, mapM_ok _ path ?_⟩
  intro x hx
  obtain ⟨a1, a2⟩ := g3 x hx
  have hl := c2b_length t
  obtain ⟨bb, hbb⟩ : ∃ v, (c2b t)[x.node.b]? = some v := ⟨_, List.getElem?_eq_getElem (by omega)⟩
  obtain ⟨eb, heb⟩ : ∃ v, (c2b t)[x.node.e]? = some v := ⟨_, List.getElem?_eq_getElem (by omega)⟩
  exact ⟨⟨x.node.b, x.node.e, asU16 bb, asU16 eb⟩, by simp only [resultNode, hbb, heb]⟩

/-- non-vacuity: two one-character words over `ab`; the walk returns both, in text order -/
example : ∃ rows ents c pe pi,
    buildAll addI32 I32_MAX (fun _ _ => 1) [⟨0, 1, 0, 0, 5⟩, ⟨1, 2, 0, 0, 5⟩] (reset 2) [] = .ok (rows, ents) ∧
    connectEos addI32 I32_MAX (fun _ _ => 1) rows 2 = .ok (c, pe, pi) ∧
    (match topPath rows 3 (pe, pi) [] with | .ok p => p.map (fun x => (x.node.b, x.node.e)) | _ => []) = [(0, 1), (1, 2)] :=
  ⟨_, _, _, _, _, rfl, rfl, rfl⟩

/-! ## clause "never … indexes out of bounds": the candidates of `build_lattice` lie inside the text -/

/-- **Every candidate `build_lattice` inserts is non-empty and ends inside the text** (`begin < end ≤ n`): dictionary
words (entered by the C04 look-up specification), MeCab candidates (grouped and per length), the Simple provider's
node and the regex provider's match — so `Lattice::insert` indexes `ends[begin]`/`ends[end]` in range.  Hypothesis
`BufOk`: the buffer has one class word and one word-start flag per character and every run of
`mod_cat_continuity` ends inside the text (`offset + cont[offset] ≤ n`).  (This is the `e ≤ n` lemma for MeCab
candidates that `tokenize_total_partial` used to assume.) -/
theorem candidates_inside_text (ps : List Provider) (lex : List Word) (buf : Buf) (hb : BufOk buf)
    (nodes : List Oov.Node) (h : buildLattice ps lex buf = .ok nodes) :
    ∀ x ∈ nodes, x.b < x.e ∧ x.e ≤ buf.chars.length :=
  buildLattice_cand ps lex buf hb nodes h

/-- the hypothesis `BufOk` is discharged for the buffer of `Model/Oov.lean` with the left-to-right run table
(`mkBufV .forward`, what the C13 correspondence ties to `InputBuffer::build` of the tree after
`fix: compute character-class runs left to right`; either word-start variant): all candidates lie inside the text -/
theorem candidates_inside_text_built (bowFix : Bool) (tab : List (Nat × Nat)) (chars : List Nat) (buf : Buf)
    (hbuf : mkBufV .forward bowFix tab chars = some buf) (ps : List Provider) (lex : List Word)
    (nodes : List Oov.Node) (h : buildLattice ps lex buf = .ok nodes) :
    ∀ x ∈ nodes, x.b < x.e ∧ x.e ≤ chars.length := by
  obtain ⟨hb, hc⟩ := mkBufV_forward_ok bowFix tab chars buf hbuf
  intro x hx
  have := candidates_inside_text ps lex buf hb nodes h x hx
  rw [hc] at this
  exact this

/-! ## clause "never panics (also with debug assertions on)": the regex provider and the empty match -/

/-- **the pinned provider (`skipEmpty = false`)**: the configuration `[a]{0,}` (relaxed boundaries) loads; on the
text `b` the pattern matches the empty string at offset 0 and `provide_oov` reaches `CreatedWords::single(0)`
(`debug_assert!(raw > 0)`): a panic in a debug build (directed case `regex-empty-match`; a release build inserts a
node of length 0).  The repaired provider returns no node for the same call. -/
theorem regex_empty_match_counterexample :
    regexProvide ⟨0, 0, 100, 0, [⟨[97], 0, none⟩], 8, false, false⟩ ⟨[98], [1], [1], [true]⟩ 0 0 []
      = .panic "CreatedWords::single(0)" ∧
    regexProvide ⟨0, 0, 100, 0, [⟨[97], 0, none⟩], 8, false, true⟩ ⟨[98], [1], [1], [true]⟩ 0 0 [] = .ok [] := by
  constructor <;> decide

/-- **The repaired provider (`skipEmpty = true`) never yields an empty node and never panics.**  For every
pattern (every list of alternatives, also ones that can match the empty string), every buffer, offset, created
mask and node buffer: (1) a node it returns begins at the offset, is non-empty and ends inside the text — in every
build profile, because the empty match is dropped before `CreatedWords` is consulted; (2) it never reaches
`CreatedWords::single(0)`; (3) at an offset inside a buffer that has one run length per character it does not
panic at all (the `cat_continuous_len` reads and the slice are in range). -/
theorem regex_fix_never_empty_node (cfg : RegexCfg) (hfix : cfg.skipEmpty = true) (buf : Buf) (o created : Nat)
    (existing : List Oov.Node) :
    (∀ nodes, regexProvide cfg buf o created existing = .ok nodes →
      ∀ x ∈ nodes, x.b = o ∧ x.b < x.e ∧ x.e ≤ buf.chars.length) ∧
    regexProvide cfg buf o created existing ≠ .panic "CreatedWords::single(0)" ∧
    (buf.cont.length = buf.chars.length → o < buf.chars.length →
      NoPanic (regexProvide cfg buf o created existing)) := by
  refine ⟨?_, ?_, fun hc ho => regexProvide_fix_noPanic cfg hfix buf hc o ho created existing⟩
  · intro nodes h x hx
    obtain ⟨h1, h2, h3⟩ := regexProvide_cand cfg buf o created existing nodes h x hx
    exact ⟨h1, by omega, h3⟩
  · intro h
    unfold regexProvide at h
    split at h
    · exact absurd (Outcome.panic.inj h) (by decide)
    · cases h
    · unfold regexCore at h
      simp only [hfix, ↓reduceIte] at h
      split at h
      · exact absurd (Outcome.panic.inj h) (by decide)
      · split at h
        · cases h
        · split at h
          · cases h
          · split at h
            · cases h
            · cases h
            · split at h <;> cases h

/-- non-vacuity: the repaired provider with the pattern `[a]{0,}` on `ba`: nothing at `b`, the node `1..2` at `a` -/
example : regexProvide ⟨0, 0, 100, 0, [⟨[97], 0, none⟩], 8, false, true⟩ ⟨[98, 97], [1, 1], [1, 1], [true, true]⟩ 0 0 [] = .ok [] ∧
    regexProvide ⟨0, 0, 100, 0, [⟨[97], 0, none⟩], 8, false, true⟩ ⟨[98, 97], [1, 1], [1, 1], [true, true]⟩ 1 0 []
      = .ok [⟨1, 2, 0, 0, 100, true, 0⟩] := by
  constructor <;> decide

/-! ## the composition: `do_tokenize` never panics -/

/-- Full statement wanted (`tokenize_total`): *for every text and every configuration that loaded
successfully the outcome of `tokenize` is `ok` or `err`, never `panic`; with a fallback provider last it is
`ok` whenever `|orig| ≤ 49149 ∧ |normalised| ≤ 65535`, and `err TooLong` beyond.*  It is FALSE for the code
(D7 overflow / sentinel; for the pinned guards also the running-length check — variant `lv = running`,
`commit_transient_counterexample` — and the regex provider's empty match — `skipEmpty = false`,
`regex_empty_match_counterexample`; the numeral loop of C14; before the commit
`fix: keep split units inside their parent token` also D6, ill-formed splits).

Proved (partial): the stages compose without a panic when
* `hplug`  the input-text plugins return edits or an error (bundled plugins: C07 `*_edits_ok`, `edits_ok_apply_total`);
* `hutf`   the rewritten text is valid UTF-8 (C08 `m2o_inv`: replacements are whole strings);
* `hlat`   the lattice builder does not panic (C13 proves "never Disconnect with a fallback last"; index safety of
           the providers under well-formed run tables is the missing component lemma; for the repaired regex
           provider (`skipEmpty`) `regex_fix_never_empty_node` shows it neither yields an empty node nor panics, whatever
           the pattern, so "no regex matches the empty string" is no longer part of this hypothesis);
* `hbuf`   the buffer `InputBuffer::build` produces has the shape `BufOk` (one class word / word-start flag per character,
           runs end inside the text); with it "every candidate is non-empty and inside the text" is PROVED
           (`candidates_inside_text`) — the former hypothesis `hnodes` is reduced to
* `hcost`  the candidates' word costs are `i16` values (they are read from `i16` fields of the dictionary / the plugin settings);
* `hconn`  the matrix is `i16`;
* `hbound` **the normalised text has at most 32767 characters** — the D7 hypothesis, not implied by the limits;
* `hrowsz` fewer than 65536 candidates end at any one boundary (the back-pointer's row index is a `u16`); with it the
           back-pointer walk and the `mod_c2b` lookups are PROVED in range (`lattice_index_in_range`, `utf8Decode_length_le`) —
           the former hypotheses `hpath`/`hres` are gone;
* `hrew`   word-info lookup and the path-rewrite plugins do not panic (C14 `join_katakana_total`; the numeral loop
           can diverge: C14 finding);
* `hsplit` ONLY for the variant `cur` (the code before the repair of D6): split units are well formed
           (`split_step_in_range`; D6 otherwise).  For the variant `d6fix` (the code that exists now) this hypothesis is
           GONE: `split_d6fix_never_out_of_range` + `tables_of_text` + `nchars_pos_of_utf8` show that `split_path` cannot
           panic on the tables of the rewritten text whatever the units are; what remains is
* `hkeep`  (variant `d6fix`) the word-info lookup / path-rewrite plugins keep the byte end of every node inside the text
           when the nodes they are given are (`concat_nodes` takes the end of the last node: C14 `join_*_coarsens`); that the
           nodes of `resolve_best_path` are inside the text is proved here (`resultNode_eb_le`).
Under the same hypotheses an input of more than 49149 bytes gives `err TooLong` (`tokenize_too_long`, unconditional). -/
theorem tokenize_total_partial (v : SplitV) (lv : LenV) (cfg : Cfg) (orig : List Nat)
    (hplug : ∀ p ∈ cfg.inputPlugins, ∀ t, NoPanic (p t))
    (hutf : ∀ l0 l, startBuild orig = some l0 → rewriteInput lv cfg.inputPlugins l0 = .ok l →
      Wire.utf8Decode (textOf l) ≠ none)
    (hlat : ∀ chars, NoPanic (buildLattice cfg.providers cfg.lex (cfg.mkBuf chars)))
    (hbuf : ∀ chars, BufOk (cfg.mkBuf chars) ∧ (cfg.mkBuf chars).chars.length = chars.length)
    (hcost : ∀ chars nodes, buildLattice cfg.providers cfg.lex (cfg.mkBuf chars) = .ok nodes →
      ∀ x ∈ nodes, -32768 ≤ x.c ∧ x.c ≤ 32767)
    (hconn : I16Conn cfg.conn)
    (hbound : ∀ l0 l chars, startBuild orig = some l0 → rewriteInput lv cfg.inputPlugins l0 = .ok l →
      Wire.utf8Decode (textOf l) = some chars → chars.length ≤ 32767)
    (hrowsz : ∀ chars nodes, buildLattice cfg.providers cfg.lex (cfg.mkBuf chars) = .ok nodes →
      ∀ e, (nodes.map toVit).countP (fun n => n.e == e) ≤ 65535)
    (hrew : ∀ path, NoPanic (cfg.rewrite path))
    (hsplit : v = .cur → ∀ text path path', cfg.rewrite path = .ok path' →
      NoPanic (splitPath .cur (b2c text) (c2b text) path'))
    (hkeep : v = .d6fix → ∀ (nb : Nat) path path', (∀ q ∈ path, q.eb ≤ nb) → cfg.rewrite path = .ok path' →
      ∀ p ∈ path', p.1.eb ≤ nb) :
    NoPanic (tokenize v lv cfg orig) := by
  intro w h
  unfold tokenize at h
  cases h0 : startBuild orig with
  | none => rw [h0] at h; simp at h
  | some l0 =>
    rw [h0] at h; simp only [] at h
    cases h1 : rewriteInput lv cfg.inputPlugins l0 with
    | err k => rw [h1] at h; simp at h
    | panic w' => exact rewriteInput_noPanic lv _ _ hplug w' h1
    | ok l =>
      rw [h1] at h; simp only [] at h
      cases h2 : Wire.utf8Decode (textOf l) with
      | none => exact hutf l0 l h0 h1 h2
      | some chars =>
        rw [h2] at h; simp only [] at h
        split at h
        · simp at h
        · rename_i hne0
          have hne : chars.isEmpty = false := by
            cases hc : chars.isEmpty with
            | true => exact absurd hc hne0
            | false => rfl
          have hpos : 1 ≤ chars.length := by
            cases chars with
            | nil => simp at hne
            | cons _ _ => simp
          cases h3 : buildLattice cfg.providers cfg.lex (cfg.mkBuf chars) with
          | err k => rw [h3] at h; simp at h
          | panic w' => exact hlat chars w' h3
          | ok nodes =>
            rw [h3] at h; simp only [] at h
            have hlen := hbound l0 l chars h0 h1 h2
            have hnodes : ∀ n ∈ nodes.map toVit, NodeOk chars.length n := by
              intro n hn
              obtain ⟨x, hx, rfl⟩ := List.mem_map.mp hn
              obtain ⟨a1, a2⟩ := C03.candidates_inside_text cfg.providers cfg.lex (cfg.mkBuf chars) (hbuf chars).1 nodes h3 x hx
              rw [(hbuf chars).2] at a2
              obtain ⟨c1, c2⟩ := hcost chars nodes h3 x hx
              simp only [NodeOk, toVit]
              rw [asU16_id x.b (by omega), asU16_id x.e (by omega)]
              exact ⟨a1, a2, c1, c2⟩
            obtain ⟨rows, ents, hb1, hinv, _⟩ :=
              C03.cost_no_overflow_partial cfg.conn hconn chars.length hlen (nodes.map toVit) hnodes
            rw [hb1] at h; simp only [] at h
            cases h4 : connectEos addI32 I32_MAX cfg.conn rows chars.length with
            | err k => rw [h4] at h; simp at h
            | panic w' =>
              rcases connectEos_ok cfg.conn hconn chars.length hlen rows hinv with ⟨r, hr⟩ | hr
              · rw [hr] at h4; cases h4
              · rw [hr] at h4; cases h4
            | ok r =>
              obtain ⟨c, pe, pi⟩ := r
              rw [h4] at h; simp only [] at h
              obtain ⟨es, h5, _, path, h6⟩ := C03.lattice_index_in_range addI32 cfg.conn chars.length ⟨hpos, by omega⟩
                (nodes.map toVit) (fun n hn => ⟨(hnodes n hn).1, (hnodes n hn).2.1⟩)
                (hrowsz chars nodes h3) rows ents c pe pi hb1 h4 (textOf l)
                (utf8Decode_length_le _ (textOf l) chars (Nat.le_refl _) h2)
              rw [h5] at h; simp only [] at h
              rw [h6] at h; simp only [] at h
              cases h7 : cfg.rewrite path with
              | err k => rw [h7] at h; simp at h
              | panic w' => exact hrew path w' h7
              | ok path' =>
                rw [h7] at h; simp only [] at h
                cases h8 : splitPath v (b2c (textOf l)) (c2b (textOf l)) path' with
                | err k => rw [h8] at h; simp at h
                | ok ms => rw [h8] at h; simp at h
                | panic w' =>
                  cases v with
                  | cur => exact hsplit rfl (textOf l) path path' h7 w' h8
                  | d6fix =>
                    have hin : ∀ q ∈ path, q.eb ≤ (textOf l).length := by
                      intro q hq
                      obtain ⟨ent, _, hf⟩ := mapM_mem _ es path h6 q hq
                      exact (resultNode_eb_le (textOf l) ent q hf).2
                    obtain ⟨ms, hms⟩ := splitPath_d6fix_ok (b2c (textOf l)) (c2b (textOf l)) (textOf l).length
                      (tables_of_text (textOf l) (nchars_pos_of_utf8 (textOf l) chars h2 hne)) path'
                      (hkeep rfl (textOf l).length path path' hin h7)
                    rw [hms] at h8; cases h8

/-- non-vacuity of the composition: a configuration without plugins, a one-word lexicon and the Simple
provider last, on the text `a` (one morpheme) and on the empty text (no morpheme) -/
def exampleCfg : Cfg :=
  { inputPlugins := [], mkBuf := fun cs => ⟨cs, cs.map (fun _ => 1), cs.map (fun _ => 1), cs.map (fun _ => true)⟩,
    providers := [.simple ⟨0, 0, 100, 0⟩], lex := [⟨[97], 0, 0, 5⟩], conn := fun _ _ => 10,
    rewrite := fun p => .ok (p.map (fun n => (n, []))) }

/-- non-vacuity of `hbuf`: the example configuration's buffer has the shape `BufOk` -/
example : ∀ chars, BufOk (exampleCfg.mkBuf chars) ∧ (exampleCfg.mkBuf chars).chars.length = chars.length := by
  intro chars
  refine ⟨⟨by simp [exampleCfg], by simp [exampleCfg], ?_⟩, by simp [exampleCfg]⟩
  intro o c h
  simp only [exampleCfg, List.getElem?_map] at h
  cases hc : chars[o]? with
  | none => rw [hc] at h; cases h
  | some v =>
    rw [hc] at h; simp only [Option.map_some, Option.some.injEq] at h
    have := (List.getElem?_eq_some_iff.mp hc).1
    simp only [exampleCfg]; omega

/-- non-vacuity of `hrowsz` / `hcost` on the example: the candidates over `a` -/
example : (match buildLattice exampleCfg.providers exampleCfg.lex (exampleCfg.mkBuf [97]) with
    | .ok nodes => decide ((nodes.map toVit).countP (fun n => n.e == 1) ≤ 65535) && nodes.all (fun x => decide (-32768 ≤ x.c ∧ x.c ≤ 32767)) && !nodes.isEmpty
    | _ => false) = true := by decide

/-- non-vacuity of `hkeep`: the example configuration's path rewrite keeps byte ends inside the text -/
example : ∀ (nb : Nat) path path', (∀ q ∈ path, q.eb ≤ nb) → exampleCfg.rewrite path = .ok path' →
    ∀ p ∈ path', p.1.eb ≤ nb := by
  intro nb path path' hin h p hp
  simp only [exampleCfg] at h
  cases h
  obtain ⟨q, hq, rfl⟩ := List.mem_map.mp hp
  exact hin q hq

example : morphCount (tokenize .d6fix .final exampleCfg [97]) = some 1 ∧ morphCount (tokenize .d6fix .running exampleCfg []) = some 0 ∧
    morphCount (tokenize .cur .running exampleCfg [97]) = some 1 := by
  refine ⟨?_, ?_, ?_⟩
  · simp [tokenize, startBuild, MAX_LENGTH, identFrom, exampleCfg, rewriteInput, textOf, Wire.utf8Decode]
    decide
  · simp [tokenize, startBuild, MAX_LENGTH, identFrom, exampleCfg, rewriteInput, textOf, Wire.utf8Decode, morphCount]
  · simp [tokenize, startBuild, MAX_LENGTH, identFrom, exampleCfg, rewriteInput, textOf, Wire.utf8Decode]
    decide

end C03
