import Sudachi.Proofs.Layers
import Sudachi.Proofs.LayersBuild
import Sudachi.Proofs.LayersLoad
import Sudachi.Proofs.LayersRefs
import Sudachi.Proofs.LayersLimit
import Sudachi.Proofs.LayersReads
/-!
# C12 — Layered user dictionaries keep ids, parts of speech and references straight

Model: `Model/Layers.lean` (`WordId`, `Lexicon::lookup`, `LexiconSet::{new, append, lookup, get_word_info_subset,
update_dict_id}`, `Grammar::{register_pos, merge}`, `handle_user_pos`, `from_cfg_storage` / `merge_user_dictionary`,
the dictionary builder's POS numbering, `validate_entries`, inline resolution) and `Model/LayersLoad.lean` (the order of
the load steps: connection-cost plugins, OOV POS, connection edits, per user dictionary `update_cost` → `append` →
`merge`; `MergeVariant`: `merge_user_dictionary` without / with the test that the merged POS list stays within what a
`u16` id addresses — `load`/`loadFull` are the pinned code, `loadV .limit`/`loadFullV .limit` the repaired one).  `WordId` is
modelled at the bit level, the narrowing `as u16` of the rebased POS id is `asU16` in `rebasePos`.  Quantifiers: every system POS list, every sequence of plugin POS
registrations, every list of user dictionaries (own POS lists of any length, any stored words), every word id.
-/
namespace C12
open Layers

/-! ## a 15th user dictionary is rejected -/

/-- Clause "a 15th user dictionary is rejected with an error": `append` on a set that already holds 15 lexicons
(system + 14 user dictionaries) is `Err(TooManyDictionaries)`; the model is functional, so the set itself is
untouched (the Rust returns before any mutation). -/
theorem fifteenth_rejected (s : LexSet) (lex : Lexicon) (off : Nat) (h : 15 ≤ s.lexicons.length) :
    s.append lex off = .err .tooManyDictionaries := by
  unfold LexSet.append LexSet.isFull MAXD
  simp [h]

/-- ... and below the capacity `append` succeeds, the new lexicon gets its position as id, everything else is kept. -/
theorem append_below_capacity (s : LexSet) (lex : Lexicon) (off : Nat) (hs : IdsOk s) (h : s.lexicons.length < 15) :
    ∃ s', s.append lex off = .ok s' ∧ IdsOk s' ∧
      s'.lexicons = s.lexicons ++ [{ lex with lexId := s.lexicons.length }] ∧
      s'.posOffsets = s.posOffsets ++ [off] ∧ s'.numSystemPos = s.numSystemPos := by
  have h1 := (append_ok_iff s lex off hs).1 h
  obtain ⟨a, b, c, d, _⟩ := append_idsOk s _ lex off hs h1
  exact ⟨_, h1, a, b, c, d⟩

/-- Whole-load form: whenever the plugins load, 15 or more user dictionaries make `from_cfg_storage` fail with
`TooManyDictionaries` ... -/
theorem load_rejects_fifteenth (sys : List Pos) (sysLex : Lexicon) (plugs : List (Bool × Pos))
    (us : List (List Pos × Lexicon)) (g : List Pos) (ids : List Nat)
    (hp : loadPlugins sys plugs = .ok (g, ids)) (h : 15 ≤ us.length) :
    load sys sysLex plugs us = .err .tooManyDictionaries := by
  unfold load
  have hnew : LexSet.new sysLex sys.length = .ok ⟨[{ sysLex with lexId := 0 }], [0], sys.length⟩ := by
    simp [LexSet.new, Lexicon.setDicId, MAXD]
  rw [hnew, hp]
  simp only
  apply mergeAll_err_full
  · exact (new_idsOk sysLex sys.length _ hnew).1
  · simp [MAXD]; omega

/-- ... and 0 to 14 user dictionaries always load. -/
theorem load_accepts_fourteen (sys : List Pos) (sysLex : Lexicon) (plugs : List (Bool × Pos))
    (us : List (List Pos × Lexicon)) (g : List Pos) (ids : List Nat)
    (hp : loadPlugins sys plugs = .ok (g, ids)) (h : us.length ≤ 14) :
    ∃ D, load sys sysLex plugs us = .ok D := by
  unfold load
  have hnew : LexSet.new sysLex sys.length = .ok ⟨[{ sysLex with lexId := 0 }], [0], sys.length⟩ := by
    simp [LexSet.new, Lexicon.setDicId, MAXD]
  rw [hnew, hp]
  simp only
  apply mergeAll_ok_of_room
  · exact (new_idsOk sysLex sys.length _ hnew).1
  · simp [MAXD]; omega

/-! ## dictionary ids -/

/-- Clause "every morpheme reports the number of the dictionary that supplied it".  In every set reachable by
`new`/`append` (`IdsOk`: see `ids_are_positions`) the lookup yields exactly the hits of every lexicon, last-added
lexicon first, each stamped with the *position* of its lexicon: the id unpacks to that position (`dicOf`), to the
word's index (`wordOf`), and `Morpheme::dictionary_id` reports the position. -/
theorem dict_id_correct (s : LexSet) (hs : IdsOk s) (hw : ∀ l ∈ s.lexicons, ∀ h ∈ l.hits, h.1 < P28) :
    s.lookup = .ok (s.lexicons.reverse.flatMap stamped) ∧
    ∀ (i : Nat) (l : Lexicon), s.lexicons[i]? = some l → ∀ h ∈ l.hits,
      (mkRaw i h.1, h.2) ∈ s.lexicons.reverse.flatMap stamped ∧
      dicOf (mkRaw i h.1) = i ∧ wordOf (mkRaw i h.1) = h.1 ∧ dictionaryId (mkRaw i h.1) = Int.ofNat i := by
  refine ⟨lookup_spec s hs hw, ?_⟩
  intro i l hl h hh
  have hid : l.lexId = i := hs.2.2.2 i l hl
  have hmem : l ∈ s.lexicons := List.mem_of_getElem? hl
  have hi : i < 15 := by
    have h1 := hs.2.1
    have h2 : i < s.lexicons.length := by
      by_cases hlt : i < s.lexicons.length
      · exact hlt
      · rw [List.getElem?_eq_none (by omega)] at hl; cases hl
    unfold MAXD at h1; omega
  have hd := dicOf_mkRaw i h.1 (by omega)
  refine ⟨?_, hd, wordOf_mkRaw i h.1 (hw l hmem h hh), ?_⟩
  · rw [List.mem_flatMap]
    refine ⟨l, by simpa using hmem, ?_⟩
    unfold stamped
    rw [List.mem_map]
    exact ⟨h, hh, by rw [hid]⟩
  · unfold dictionaryId isOov
    rw [hd]
    have : (i == 15) = false := by simp; omega
    simp [this]

/-- every entry the set's lookup returns comes from the lexicon at the position its id names -/
theorem lookup_sound (s : LexSet) (hs : IdsOk s) (hw : ∀ l ∈ s.lexicons, ∀ h ∈ l.hits, h.1 < P28)
    (x : Nat × Nat) (hx : x ∈ s.lexicons.reverse.flatMap stamped) :
    ∃ l h, s.lexicons[dicOf x.1]? = some l ∧ h ∈ l.hits ∧ h.1 = wordOf x.1 ∧ h.2 = x.2 := by
  rw [List.mem_flatMap] at hx
  obtain ⟨l, hl, hx⟩ := hx
  have hl' : l ∈ s.lexicons := by simpa using hl
  unfold stamped at hx
  rw [List.mem_map] at hx
  obtain ⟨h, hh, rfl⟩ := hx
  obtain ⟨i, hi, hget⟩ := List.getElem_of_mem hl'
  have hget' : s.lexicons[i]? = some l := by rw [List.getElem?_eq_getElem hi, hget]
  have hid : l.lexId = i := hs.2.2.2 i l hget'
  have h15 : i < 16 := by have := hs.2.1; unfold MAXD at this; omega
  refine ⟨l, h, ?_, hh, ?_, rfl⟩
  · simp only [hid, dicOf_mkRaw i h.1 h15]; exact hget'
  · simp only [wordOf_mkRaw _ h.1 (hw l hl' h hh)]

/-- the invariant holds for the initial set and is preserved by every successful `append` -/
theorem ids_are_positions (sys : Lexicon) (n : Nat) (s : LexSet) (h : LexSet.new sys n = .ok s) :
    IdsOk s ∧ ∀ (s1 s2 : LexSet) (lex : Lexicon) (off : Nat), IdsOk s1 → s1.append lex off = .ok s2 → IdsOk s2 :=
  ⟨(new_idsOk sys n s h).1, fun s1 s2 lex off h1 h2 => (append_idsOk s1 s2 lex off h1 h2).1⟩

/-- Clause "-1 for out-of-vocabulary": the id made by `WordId::oov(pos)` reports dictionary −1 and carries the POS id. -/
theorem oov_reports_minus_one (p raw : Nat) (h : widOov p = .ok raw) (D : Dict) (hp : p < 65536) :
    dictionaryId raw = -1 ∧ isOov raw = true ∧ morphInfo D raw = .ok (-1, p) := by
  unfold widOov widNew at h
  split at h
  · cases h
  · rename_i hw
    simp at h
    subst h
    have hd : dicOf (mkRaw 15 p) = 15 := dicOf_mkRaw 15 p (by omega)
    have hoov : isOov (mkRaw 15 p) = true := by unfold isOov; rw [hd]; rfl
    have hdid : dictionaryId (mkRaw 15 p) = -1 := by unfold dictionaryId; rw [hoov]; rfl
    refine ⟨hdid, hoov, ?_⟩
    unfold morphInfo
    rw [if_pos hoov, hdid, wordOf_mkRaw 15 p (by omega)]
    unfold asU16
    rw [Nat.mod_eq_of_lt hp]

/-! ## the id at the bit level (4 dictionary bits, 28 word bits) -/

/-- `WordId::new(dic, word)` for every `dic < 16`, `word < 2^28` is the 32-bit number with `dic` in the top four bits and
`word` in the low 28 (`(dic << 28) | word`, stated with `<<<`/`|||` — the model's `mkRaw` is the literal
`((dic & 0xf) << 28) | (word & 0x0fffffff)`), and `dic()` (`(raw >> 28) as u8`) / `word()` (`raw & 0x0fffffff`) read the two
parts back. -/
theorem wordid_bits (d w : Nat) (hd : d < 16) (hw : w < P28) :
    widNew d w = .ok ((d <<< 28) ||| w) ∧ (d <<< 28) ||| w < 4294967296 ∧
    dicOf ((d <<< 28) ||| w) = d ∧ wordOf ((d <<< 28) ||| w) = w := by
  obtain ⟨h1, h2⟩ := mkRaw_bits d w hd hw
  rw [← h1]
  exact ⟨widNew_ok d w hd hw, h2, dicOf_mkRaw d w hd, wordOf_mkRaw d w hw⟩

/-- `update_dict_id` at the bit level: for EVERY owner `d < 16` and every stored 32-bit reference `id` whose dictionary
bits are not 0, the re-stamped id is `(d << 28) | (id & 0x0fffffff)`: it has dictionary `d` — the compiled dictionary bits
(1 for `U<n>`/inline references) are masked out, not OR-ed into — and the same word number; system references
(dictionary bits 0) are left alone. -/
theorem restamp_bits (d id : Nat) (hd : d < 16) :
    (dicOf id > 0 →
      updateDictId [id] d = .ok [(d <<< 28) ||| (id &&& 0x0fffffff)] ∧
      dicOf ((d <<< 28) ||| (id &&& 0x0fffffff)) = d ∧
      wordOf ((d <<< 28) ||| (id &&& 0x0fffffff)) = wordOf id ∧ wordOf id < 268435456) ∧
    (dicOf id = 0 → updateDictId [id] d = .ok [id]) := by
  have hw : wordOf id < P28 := wordOf_lt id
  have hmask : id &&& 0x0fffffff = wordOf id := rfl
  obtain ⟨h1, _⟩ := mkRaw_bits d (wordOf id) hd hw
  constructor
  · intro hu
    rw [hmask, ← h1]
    refine ⟨?_, dicOf_mkRaw d _ hd, wordOf_mkRaw d _ hw, hw⟩
    rw [updateDictId_ok [id] d hd]
    simp [restamp, hu]
  · intro hs
    rw [updateDictId_ok [id] d hd]
    simp [restamp, hs]

/-- What `seeded/C12b` gets wrong, as a theorem about the variant (NOT the code): OR-ing the owner's number into the stored id
without masking the compiled `1` gives dictionary `d ||| 1` — right for odd positions, the NEXT dictionary for even ones
(2 ↦ 3, …, 14 ↦ 15 = the OOV marker). -/
theorem restamp_or_without_mask_counterexample :
    (∀ d w, d < 16 → w < P28 → dicOf (restampOr d (mkRaw 1 w)) = d ||| 1) ∧
    dicOf (restampOr 2 (mkRaw 1 7)) = 3 ∧ isOov (restampOr 14 (mkRaw 1 7)) = true ∧
    dicOf (restamp 2 (mkRaw 1 7)) = 2 ∧ dicOf (restamp 14 (mkRaw 1 7)) = 14 :=
  ⟨fun d w hd hw => (restampOr_stored d w hd hw).1, by decide, by decide, by decide, by decide⟩

/-- Capacity and the OOV marker are the same boundary: in every reachable set no lexicon has the id 15, so a dictionary word
never reports −1 and never tests `is_oov`; position 15 — the one a 15th user dictionary would get — is exactly the id
`WordId::oov` uses. -/
theorem dictionary_word_never_oov (s : LexSet) (hs : IdsOk s) (i : Nat) (l : Lexicon) (hl : s.lexicons[i]? = some l)
    (w : Nat) :
    l.lexId = i ∧ i < 15 ∧ isOov (mkRaw i w) = false ∧ dictionaryId (mkRaw i w) = Int.ofNat i ∧
    isOov (mkRaw 15 w) = true ∧ dictionaryId (mkRaw 15 w) = -1 := by
  have hid : l.lexId = i := hs.2.2.2 i l hl
  have hi : i < 15 := by
    have h1 := hs.2.1
    have h2 : i < s.lexicons.length := by
      by_cases hlt : i < s.lexicons.length
      · exact hlt
      · rw [List.getElem?_eq_none (by omega)] at hl; cases hl
    unfold MAXD at h1; omega
  have hd := dicOf_mkRaw i w (by omega)
  have h15 := dicOf_mkRaw 15 w (by omega)
  have hno : isOov (mkRaw i w) = false := by unfold isOov; rw [hd]; simp; omega
  have hyes : isOov (mkRaw 15 w) = true := by unfold isOov; rw [h15]; rfl
  refine ⟨hid, hi, hno, ?_, hyes, ?_⟩
  · unfold dictionaryId; rw [hno, hd]; rfl
  · unfold dictionaryId; rw [hyes]; rfl

/-! ## split references -/

/-- Clause "split references inside a user dictionary resolve to words of that same dictionary or of the system
dictionary".  The reported A/B split and word structure of word `id` are the stored lists with every non-system id
re-stamped with the owner's dictionary id (the word index is kept) and every system id untouched; hence every
reported target lies in dictionary 0 or in the owner's dictionary. -/
theorem split_restamp (s : LexSet) (id : Nat) (wi : Word) (hd : dicOf id < 16) (h : s.getWordInfo id = .ok wi) :
    ∃ lex stored, s.lexicons[dicOf id]? = some lex ∧ lex.words[wordOf id]? = some stored ∧
      wi.a = stored.a.map (restamp (dicOf id)) ∧ wi.b = stored.b.map (restamp (dicOf id)) ∧
      wi.w = stored.w.map (restamp (dicOf id)) ∧
      (∀ t, dicOf t = 0 → restamp (dicOf id) t = t) ∧
      (∀ t, dicOf t > 0 → dicOf (restamp (dicOf id) t) = dicOf id ∧ wordOf (restamp (dicOf id) t) = wordOf t) ∧
      (∀ t ∈ wi.a ++ wi.b ++ wi.w, dicOf t = 0 ∨ dicOf t = dicOf id) := by
  obtain ⟨lex, stored, hl, hw, _, ha, hb, hws⟩ := getWordInfo_inv s id wi hd h
  refine ⟨lex, stored, hl, hw, ha, hb, hws, fun t ht => restamp_sys _ t ht, fun t ht => restamp_user _ t hd ht, ?_⟩
  intro t ht
  rw [ha, hb, hws] at ht
  simp only [List.mem_append, List.mem_map] at ht
  have key : ∀ u, dicOf (restamp (dicOf id) u) = 0 ∨ dicOf (restamp (dicOf id) u) = dicOf id := by
    intro u
    by_cases hu : dicOf u = 0
    · left; rw [restamp_sys _ u hu]; exact hu
    · right; exact (restamp_user _ u hd (by omega)).1
  rcases ht with (⟨u, _, rfl⟩ | ⟨u, _, rfl⟩) | ⟨u, _, rfl⟩ <;> exact key u

/-- a `U<n>` reference compiled into user dictionary `d` (stored as dictionary 1, word n) is reported as word `n`
of dictionary `d`; a numeric reference `<n>` (dictionary 0) is reported unchanged -/
theorem u_reference_restamped (d n : Nat) (hn : n < P28) :
    restamp d (mkRaw 1 n) = mkRaw d n ∧ restamp d (mkRaw 0 n) = mkRaw 0 n := by
  constructor
  · unfold restamp
    rw [dicOf_mkRaw 1 n (by omega), wordOf_mkRaw 1 n hn]
    simp
  · exact restamp_sys d _ (dicOf_mkRaw 0 n (by omega))

/-- `validate_entries` (formerly tied by correspondence only): every reference a successfully compiled user dictionary
STORES — A split, B split, word structure, whether written `U<n>`, `<n>` or inline — is `(0, n)` with `n` below the word
count of the dictionary it was compiled against, or `(1, n)` with `n` below its own row count; one word per row.  Both
versions of `new_user`. -/
theorem stored_references_in_range (v : PreVariant) (base : Base) (rows : List Row) (b : Built)
    (h : buildUser v base rows = .ok b) :
    b.words.length = rows.length ∧
    ∀ wd ∈ b.words, ∀ t ∈ wd.a ++ wd.b ++ wd.w,
      (dicOf t = 0 ∧ wordOf t < base.words.length) ∨ (dicOf t = 1 ∧ wordOf t < rows.length) := by
  unfold buildUser at h
  cases v <;> exact build_refs_in_range _ base.words rows b h

/-- Clause "split references inside a user dictionary resolve to words of that same dictionary or of the system
dictionary", END TO END and with EXISTENCE of the target: a user dictionary compiled (either builder version) against a
base whose word list has the length of the system lexicon, loaded as dictionary `j+1` of any stack: every target the set
reports for its word `i` (A split, B split, word structure) is `(0, n)` naming an existing word of the system lexicon or
`(j+1, n)` naming an existing word of the same user dictionary — never another user dictionary, never a word that is not
there (`lexicons[dic]` / the word-info table are indexed without a check in `get_word_info_subset`). -/
theorem split_targets_exist (sys : List Pos) (sysLex : Lexicon) (plugs : List (Bool × Pos))
    (us : List (List Pos × Lexicon)) (D : Dict) (hload : load sys sysLex plugs us = .ok D)
    (v : PreVariant) (base : Base) (hbase : base.words.length = sysLex.words.length)
    (j : Nat) (rows : List Row) (b : Built) (own : List Pos) (lex : Lexicon)
    (hb : buildUser v base rows = .ok b) (hlex : lex.words = b.words) (hj : us[j]? = some (own, lex))
    (i : Nat) (wi : Word) (hi28 : i < P28) (hwi : D.set.getWordInfo (mkRaw (1 + j) i) = .ok wi) :
    ∀ t ∈ wi.a ++ wi.b ++ wi.w,
      (dicOf t = 0 ∨ dicOf t = 1 + j) ∧
      ∃ l x, D.set.lexicons[dicOf t]? = some l ∧ l.words[wordOf t]? = some x := by
  obtain ⟨_, _, _, hok, _, _, _, hsys0, husers⟩ := load_spec sys sysLex plugs us D hload
  obtain ⟨hlexj, _⟩ := husers j own lex hj
  have hjlt : j < us.length := by
    by_cases hlt : j < us.length
    · exact hlt
    · rw [List.getElem?_eq_none (by omega)] at hj; cases hj
  have h15 : 1 + j < 16 := by have := hok.2.1; unfold MAXD at this; omega
  have hdic : dicOf (mkRaw (1 + j) i) = 1 + j := dicOf_mkRaw _ i h15
  have hword : wordOf (mkRaw (1 + j) i) = i := wordOf_mkRaw _ i hi28
  obtain ⟨lx, stored, hl, hw, _, ha, hb', hws⟩ := getWordInfo_inv D.set _ wi (by rw [hdic]; exact h15) hwi
  rw [hdic] at hl ha hb' hws
  rw [hword] at hw
  rw [hlexj] at hl
  cases hl
  simp only at hw
  obtain ⟨hlen, hrange⟩ := stored_references_in_range v base rows b hb
  have hmem : stored ∈ b.words := by rw [← hlex]; exact List.mem_of_getElem? hw
  have key : ∀ u ∈ stored.a ++ stored.b ++ stored.w,
      (dicOf (restamp (1 + j) u) = 0 ∨ dicOf (restamp (1 + j) u) = 1 + j) ∧
      ∃ l x, D.set.lexicons[dicOf (restamp (1 + j) u)]? = some l ∧ l.words[wordOf (restamp (1 + j) u)]? = some x := by
    intro u hu
    rcases hrange stored hmem u hu with ⟨h0, hlt⟩ | ⟨h1, hlt⟩
    · rw [restamp_sys _ u h0]
      refine ⟨Or.inl h0, _, sysLex.words[wordOf u]'(by omega), by rw [h0]; exact hsys0, ?_⟩
      simp only
      rw [List.getElem?_eq_getElem]
    · obtain ⟨q1, q2⟩ := restamp_user (1 + j) u h15 (by omega)
      rw [q1, q2]
      refine ⟨Or.inr rfl, _, lex.words[wordOf u]'(by rw [hlex, hlen]; exact hlt), hlexj, ?_⟩
      simp only
      rw [List.getElem?_eq_getElem]
  intro t ht
  rw [ha, hb', hws] at ht
  simp only [List.mem_append, List.mem_map] at ht
  rcases ht with (⟨u, hu, rfl⟩ | ⟨u, hu, rfl⟩) | ⟨u, hu, rfl⟩
  · exact key u (by simp [hu])
  · exact key u (by simp [hu])
  · exact key u (by simp [hu])

/-- Inline references (formerly tied by correspondence only): the word an inline unit `surface,POS,reading` of a user
dictionary resolves to (`ChainedResolver`: own entries, then the prebuilt dictionary) is an OWN entry with exactly that
surface, POS id and reading — the first one, stored as `(1, i)` — whenever any own entry matches; otherwise the first
word of the prebuilt dictionary whose headword, POS id and reading match, stored as `(0, i)`; a reading equal to the
surface/headword compares as absent on both sides. -/
theorem inline_reference_resolves_to_matching_entry (es : List Entry) (ws : List SysWord) (s p : Nat)
    (r : Option Nat) (w : Nat) (h : resolveChained (rawIndex es true) (binIndex ws) s p r = some w) :
    (∃ i e, es[i]? = some e ∧ e.surface = s ∧ e.pos = p ∧ noneIfEqual e.surface e.reading = r ∧ w = mkRaw 1 i) ∨
    ((∀ e ∈ es, ¬ (e.surface = s ∧ e.pos = p ∧ noneIfEqual e.surface e.reading = r)) ∧
      ∃ i x, ws[i]? = some x ∧ x.headword = s ∧ x.pos = p ∧ noneIfEqual x.headword x.reading = r ∧ w = mkRaw 0 i) := by
  simpa using resolveChained_sound es ws true s p r w h

/-! ## parts of speech -/

/-- Clause "its part of speech is exactly the part-of-speech strings declared for it ... including parts of speech that
exist only in a user dictionary, also when OOV plugins register further ones".

For any system POS list `sys` (S entries), any plugin registrations (they append some `plug`, Q entries), and user
dictionaries with own POS lists `own_1 … own_k` of any lengths: the loaded POS list is
`sys ++ plug ++ own_1 ++ … ++ own_k`, and a word of the (j+1)-th dictionary stored with build-time POS id `p`
is reported with id `p` when `p < S`, else `S + Q + Σ_{i<j+1} |own_i| + (p − S)`; that entry of the loaded list is
`sys[p]`, respectively `own_{j+1}[p − S]`. -/
theorem pos_rebase_correct (sys : List Pos) (sysLex : Lexicon) (plugs : List (Bool × Pos))
    (us : List (List Pos × Lexicon)) (D : Dict) (hload : load sys sysLex plugs us = .ok D) :
    ∃ plug ids, loadPlugins sys plugs = .ok (sys ++ plug, ids) ∧
      D.posList = sys ++ plug ++ (us.map (·.1)).flatten ∧
      ∀ (j : Nat) (own : List Pos) (lex : Lexicon), us[j]? = some (own, lex) →
      ∀ (w : Nat) (stored : Word), lex.words[w]? = some stored → w < P28 →
        ∃ wi, D.set.getWordInfo (mkRaw (1 + j) w) = .ok wi ∧
          (stored.posId < sys.length → wi.posId = stored.posId ∧ D.posList[wi.posId]? = sys[stored.posId]?) ∧
          (sys.length ≤ stored.posId →
            wi.posId = asU16 (sys.length + plug.length + (ownBefore us j).length + (stored.posId - sys.length)) ∧
            (stored.posId - sys.length < own.length → D.posList.length ≤ 65536 →
              wi.posId = sys.length + plug.length + (ownBefore us j).length + (stored.posId - sys.length) ∧
              D.posList[wi.posId]? = own[stored.posId - sys.length]?)) := by
  obtain ⟨plug, ids, hpl, hok, hpos, hnsp, hlen, _, husers⟩ := load_spec sys sysLex plugs us D hload
  refine ⟨plug, ids, hpl, hpos, ?_⟩
  intro j own lex hj w stored hw hwlt
  obtain ⟨hlexj, hoffj⟩ := husers j own lex hj
  have hjlt : j < us.length := by
    by_cases hlt : j < us.length
    · exact hlt
    · rw [List.getElem?_eq_none (by omega)] at hj; cases hj
  have h15 : 1 + j < 16 := by have := hok.2.1; unfold MAXD at this; omega
  have hdic : dicOf (mkRaw (1 + j) w) = 1 + j := dicOf_mkRaw _ w h15
  have hword : wordOf (mkRaw (1 + j) w) = w := wordOf_mkRaw _ w hwlt
  by_cases hsys : stored.posId < sys.length
  · -- a system POS: not rebased
    have hp : rebasePos D.set (1 + j) stored.posId = .ok stored.posId := by
      unfold rebasePos; rw [hnsp]; rw [if_neg (by omega)]
    have := getWordInfo_ok D.set (mkRaw (1 + j) w) { lex with lexId := 1 + j } stored stored.posId
      (by rw [hdic]; exact h15) (by rw [hdic]; exact hlexj) (by rw [hword]; exact hw) (by rw [hdic]; exact hp)
    refine ⟨_, this, ?_, ?_⟩
    · intro _
      refine ⟨rfl, ?_⟩
      simp only
      rw [hpos, List.append_assoc, List.getElem?_append_left hsys]
    · intro h; omega
  · have hge : sys.length ≤ stored.posId := by omega
    have hp : rebasePos D.set (1 + j) stored.posId =
        .ok (asU16 (stored.posId - sys.length + (sys.length + plug.length + (ownBefore us j).length))) := by
      unfold rebasePos; rw [hnsp, if_pos ⟨by omega, hge⟩, hoffj]
    have := getWordInfo_ok D.set (mkRaw (1 + j) w) { lex with lexId := 1 + j } stored _
      (by rw [hdic]; exact h15) (by rw [hdic]; exact hlexj) (by rw [hword]; exact hw) (by rw [hdic]; exact hp)
    refine ⟨_, this, fun h => by omega, ?_⟩
    intro _
    have hcomm : stored.posId - sys.length + (sys.length + plug.length + (ownBefore us j).length) =
        sys.length + plug.length + (ownBefore us j).length + (stored.posId - sys.length) := by omega
    refine ⟨by simp only [hcomm], ?_⟩
    intro hown hsmall
    -- the loaded list around dictionary j+1: sys ++ plug ++ ownBefore ++ own ++ rest
    have hsplit : (us.map (·.1)).flatten = ownBefore us j ++ (own ++ ((us.drop (j + 1)).map (·.1)).flatten) := by
      unfold ownBefore
      have hdrop : us.drop j = (own, lex) :: us.drop (j + 1) := by
        rw [List.drop_eq_getElem_cons hjlt]
        congr 1
        rw [List.getElem?_eq_getElem hjlt] at hj
        exact Option.some.inj hj
      conv => lhs; rw [← List.take_append_drop j us]
      rw [List.map_append, List.flatten_append, hdrop]
      simp
    have hidx : sys.length + plug.length + (ownBefore us j).length + (stored.posId - sys.length) < D.posList.length := by
      rw [hpos, hsplit]; simp only [List.length_append]; omega
    have hid : asU16 (sys.length + plug.length + (ownBefore us j).length + (stored.posId - sys.length)) =
        sys.length + plug.length + (ownBefore us j).length + (stored.posId - sys.length) := by
      unfold asU16; apply Nat.mod_eq_of_lt; omega
    simp only [hcomm, hid]
    refine ⟨trivial, ?_⟩
    rw [hpos, hsplit]
    have e : sys ++ plug ++ (ownBefore us j ++ (own ++ ((us.drop (j + 1)).map (·.1)).flatten)) =
        (sys ++ plug ++ ownBefore us j) ++ (own ++ ((us.drop (j + 1)).map (·.1)).flatten) := by
      simp [List.append_assoc]
    rw [e, List.getElem?_append_right (by simp only [List.length_append]; omega)]
    simp only [List.length_append]
    have e2 : sys.length + plug.length + (ownBefore us j).length + (stored.posId - sys.length) -
        (sys.length + plug.length + (ownBefore us j).length) = stored.posId - sys.length := by omega
    rw [e2, List.getElem?_append_left hown]

/-- The user builder numbers POS the way the loader expects: compiled with `DictBuilder::new_user` over a dictionary
whose POS list is `g` (duplicate free, as a system dictionary's list is), the written own-POS table `own` reads back,
there is one word per row, and the POS id stored for row `i` names the row's declared POS in `g ++ own` — POS of
the system dictionary keep their ids, new POS follow in the order of the written table (`preload_pos`, `pos_of`,
the order of registrations inside `parse_record`, `write_pos_table`). -/
theorem builder_pos_numbering (g : List Pos) (sw : List SysWord) (rows : List Row) (b : Built)
    (hnd : g.Nodup) (hle : g.length ≤ 32768) (h : build (some (g, sw)) rows = .ok b) :
    ∃ own, readPosTable b = .ok own ∧ b.words.length = rows.length ∧
      ∀ (i : Nat) (row : Row), rows[i]? = some row →
        ∃ wd, b.words[i]? = some wd ∧ (g ++ own)[wd.posId]? = some row.pos :=
  build_pos_numbering g sw rows b hnd hle h

/-- The REPAIRED user builder (`PreVariant.sysOnly`) numbers POS the way the loader expects whatever was registered in
the build base after the system dictionary was read: over a base with POS list `sys ++ extra` (any `extra`) and
`num_system_pos = |sys|`, the written own-POS table `own` reads back, there is one word per row, and the POS id stored
for row `i` names the row's declared POS in `sys ++ own` — exactly the list `LexiconSet` rebases against
(`pos_rebase_correct`); `extra` does not enter.  (The pinned builder numbers against `sys ++ extra ++ own`:
`builder_pos_numbering` with `g = sys ++ extra`.) -/
theorem builder_pos_numbering_repaired (sys extra : List Pos) (sw : List SysWord) (rows : List Row) (b : Built)
    (hnd : sys.Nodup) (hle : sys.length ≤ 32768)
    (h : buildUser .sysOnly ⟨sys ++ extra, sys.length, sw⟩ rows = .ok b) :
    ∃ own, readPosTable b = .ok own ∧ b.words.length = rows.length ∧
      ∀ (i : Nat) (row : Row), rows[i]? = some row →
        ∃ wd, b.words[i]? = some wd ∧ (sys ++ own)[wd.posId]? = some row.pos :=
  build_pos_numbering sys sw rows b hnd hle (by simpa [buildUser, preOf] using h)

/-- The repair of finding P1 changes nothing for a dictionary compiled against the plainly loaded system dictionary
(no plugin-registered POS in the base: `pos_list.len() = num_system_pos`): both versions of `new_user` hand the same
POS list to the reader, so they compile every lexicon to the same result. -/
theorem repair_same_on_plain_base (sys : List Pos) (sw : List SysWord) (rows : List Row) :
    buildUser .sysOnly ⟨sys, sys.length, sw⟩ rows = buildUser .all ⟨sys, sys.length, sw⟩ rows := by
  simp [buildUser, preOf]

/-- End to end (builder + loader), the POS clause for a build base that is a PREFIX extension of the system list:
the user dictionary is compiled by the REPAIRED `new_user` (`PreVariant.sysOnly`) against any dictionary whose POS list
is `sys ++ extra` — `extra` = whatever was registered after the system dictionary was read, any number of entries — and
whose `num_system_pos` is `|sys|`; it is loaded as the (j+1)-th dictionary of any stack over the same system
dictionary, under any plugin registrations (not necessarily those of the build base).  Then the word of row `i` is
word `i` of dictionary `j+1` and its reported POS id names exactly the POS declared in row `i`. -/
theorem declared_pos_reported_prefix_base (sys extra : List Pos) (sw : List SysWord) (sysLex : Lexicon)
    (plugs : List (Bool × Pos)) (us : List (List Pos × Lexicon)) (D : Dict)
    (hload : load sys sysLex plugs us = .ok D)
    (hnd : sys.Nodup) (hle : sys.length ≤ 32768) (hsmall : D.posList.length ≤ 65536)
    (j : Nat) (rows : List Row) (b : Built) (own : List Pos) (lex : Lexicon)
    (hb : buildUser .sysOnly ⟨sys ++ extra, sys.length, sw⟩ rows = .ok b)
    (hown : readPosTable b = .ok own) (hlex : lex.words = b.words)
    (hj : us[j]? = some (own, lex)) (i : Nat) (row : Row) (hi : rows[i]? = some row) (hi28 : i < P28) :
    ∃ wi, D.set.getWordInfo (mkRaw (1 + j) i) = .ok wi ∧ D.posList[wi.posId]? = some row.pos := by
  have hb' : build (some (sys, sw)) rows = .ok b := by
    simpa [buildUser, preOf] using hb
  obtain ⟨own', hown', _, hall⟩ := build_pos_numbering sys sw rows b hnd hle hb'
  rw [hown] at hown'
  have : own = own' := Outcome.ok.inj hown'
  subst this
  obtain ⟨wd, hwd, hpos⟩ := hall i row hi
  obtain ⟨plug, ids, _, _, hrb⟩ := pos_rebase_correct sys sysLex plugs us D hload
  obtain ⟨wi, hwi, hsys, husr⟩ := hrb j own lex hj i wd (by rw [hlex]; exact hwd) hi28
  refine ⟨wi, hwi, ?_⟩
  by_cases hlt : wd.posId < sys.length
  · rw [(hsys hlt).2, ← hpos, List.getElem?_append_left hlt]
  · have hge : sys.length ≤ wd.posId := by omega
    have hbound : wd.posId < (sys ++ own).length := by
      by_cases hb'' : wd.posId < (sys ++ own).length
      · exact hb''
      · rw [List.getElem?_eq_none (by omega)] at hpos; cases hpos
    have hown_lt : wd.posId - sys.length < own.length := by simp at hbound; omega
    rw [((husr hge).2 hown_lt hsmall).2, ← hpos, List.getElem?_append_right hge]

/-- The POS clause for the REPAIRED builder and ANY loader (`load` = the pinned `merge_user_dictionary`), under the side
condition that the merged POS list fits `u16` ids (`hsmall`; the pinned loader does not enforce it — finding P2,
`pos_id_wraps_beyond_u16_counterexample` — the repaired loader does: `declared_pos_reported` below has no such hypothesis):
"its part of speech is exactly the part-of-speech
strings declared for it ... also when OOV plugins register further ones" — with NO restriction on the dictionary the
user dictionary was compiled against.  The build base `B` is the system dictionary loaded by `from_cfg_storage` with ANY
plugin configuration `basePlugs` (registering any number Q ≥ 0 of POS) and even any user dictionaries `baseUsers`;
`new_user(B)` reads `B.grammar().pos_list` and `B.lexicon().num_system_pos()`.  The compiled dictionary is then loaded
as the (j+1)-th dictionary of any stack over the same system dictionary under any plugin configuration `plugs`:
the word of row `i` is word `i` of dictionary `j+1` and its reported POS id names exactly the POS declared in row `i`.
(False for the pinned builder as soon as Q ≥ 1: `plugin_base_counterexample`.) -/
theorem declared_pos_reported_within_u16 (sys : List Pos) (sw : List SysWord) (sysLex : Lexicon) (plugs : List (Bool × Pos))
    (us : List (List Pos × Lexicon)) (D : Dict) (hload : load sys sysLex plugs us = .ok D)
    (hnd : sys.Nodup) (hle : sys.length ≤ 32768) (hsmall : D.posList.length ≤ 65536)
    (baseLex : Lexicon) (basePlugs : List (Bool × Pos)) (baseUsers : List (List Pos × Lexicon)) (B : Dict)
    (hbase : load sys baseLex basePlugs baseUsers = .ok B)
    (j : Nat) (rows : List Row) (b : Built) (own : List Pos) (lex : Lexicon)
    (hb : buildUser .sysOnly ⟨B.posList, B.set.numSystemPos, sw⟩ rows = .ok b)
    (hown : readPosTable b = .ok own) (hlex : lex.words = b.words)
    (hj : us[j]? = some (own, lex)) (i : Nat) (row : Row) (hi : rows[i]? = some row) (hi28 : i < P28) :
    ∃ wi, D.set.getWordInfo (mkRaw (1 + j) i) = .ok wi ∧ D.posList[wi.posId]? = some row.pos := by
  obtain ⟨bplug, _, _, _, hBpos, hBnsp, _⟩ := load_spec sys baseLex basePlugs baseUsers B hbase
  rw [hBpos, hBnsp, List.append_assoc] at hb
  exact declared_pos_reported_prefix_base sys (bplug ++ (baseUsers.map (·.1)).flatten) sw sysLex plugs us D hload
    hnd hle hsmall j rows b own lex hb hown hlex hj i row hi hi28

/-- The POS clause itself, FULL STRENGTH, for the repaired builder (`PreVariant.sysOnly`, P1) and the repaired loader
(`MergeVariant.limit`, P2): "its part of speech is exactly the part-of-speech strings declared for it ... including parts of
speech that exist only in a user dictionary, also when OOV plugins register further ones" — with NO restriction on the
dictionary the user dictionary was compiled against and NO side condition on the size of the merged POS list: whenever
`from_cfg_storage` succeeds, the word of row `i` of the (j+1)-th user dictionary is word `i` of dictionary `j+1` and the POS id
`get_word_info` reports for it — computed as `(pos_id − num_system_pos + pos_offsets[j+1]) as u16` — names exactly the POS
declared in row `i`.  (The hypothesis `hsmall : D.posList.length ≤ 65536` of `declared_pos_reported_within_u16` is discharged
by the load itself: `repaired_load_fits_u16`.  False for the pinned loader: `pos_id_wraps_beyond_u16_counterexample`.) -/
theorem declared_pos_reported (sys : List Pos) (sw : List SysWord) (sysLex : Lexicon) (plugs : List (Bool × Pos))
    (us : List (List Pos × Lexicon)) (D : Dict) (hload : loadV .limit sys sysLex plugs us = .ok D)
    (hnd : sys.Nodup) (hle : sys.length ≤ 32768)
    (baseLex : Lexicon) (basePlugs : List (Bool × Pos)) (baseUsers : List (List Pos × Lexicon)) (B : Dict)
    (hbase : loadV .limit sys baseLex basePlugs baseUsers = .ok B)
    (j : Nat) (rows : List Row) (b : Built) (own : List Pos) (lex : Lexicon)
    (hb : buildUser .sysOnly ⟨B.posList, B.set.numSystemPos, sw⟩ rows = .ok b)
    (hown : readPosTable b = .ok own) (hlex : lex.words = b.words)
    (hj : us[j]? = some (own, lex)) (i : Nat) (row : Row) (hi : rows[i]? = some row) (hi28 : i < P28) :
    ∃ wi, D.set.getWordInfo (mkRaw (1 + j) i) = .ok wi ∧ D.posList[wi.posId]? = some row.pos := by
  obtain ⟨hl, hfit⟩ := loadV_limit_ok sys sysLex plugs us D hload
  obtain ⟨hlB, _⟩ := loadV_limit_ok sys baseLex basePlugs baseUsers B hbase
  exact declared_pos_reported_within_u16 sys sw sysLex plugs us D hl hnd hle (hfit (by unfold U16_IDS; omega))
    baseLex basePlugs baseUsers B hlB j rows b own lex hb hown hlex hj i row hi hi28

/-- The same clause for the PINNED builder (`PreVariant.all`, the code as it stands) holds only under the restriction
"compiled against the plainly loaded system dictionary" (`pos_list.len() = num_system_pos`, no plugin-registered POS
in the build base); stated for both versions of the builder, which coincide there. -/
theorem declared_pos_reported_plain_base (v : PreVariant) (sys : List Pos) (sw : List SysWord) (sysLex : Lexicon)
    (plugs : List (Bool × Pos))
    (us : List (List Pos × Lexicon)) (D : Dict) (hload : load sys sysLex plugs us = .ok D)
    (hnd : sys.Nodup) (hle : sys.length ≤ 32768) (hsmall : D.posList.length ≤ 65536)
    (j : Nat) (rows : List Row) (b : Built) (own : List Pos) (lex : Lexicon)
    (hb : buildUser v ⟨sys, sys.length, sw⟩ rows = .ok b) (hown : readPosTable b = .ok own) (hlex : lex.words = b.words)
    (hj : us[j]? = some (own, lex)) (i : Nat) (row : Row) (hi : rows[i]? = some row) (hi28 : i < P28) :
    ∃ wi, D.set.getWordInfo (mkRaw (1 + j) i) = .ok wi ∧ D.posList[wi.posId]? = some row.pos := by
  have hb' : buildUser .sysOnly ⟨sys ++ [], sys.length, sw⟩ rows = .ok b := by
    rw [List.append_nil]
    cases v with
    | all => rw [repair_same_on_plain_base]; exact hb
    | sysOnly => exact hb
  exact declared_pos_reported_prefix_base sys [] sw sysLex plugs us D hload hnd hle hsmall j rows b own lex hb' hown hlex
    hj i row hi hi28

/-! ## `Grammar::merge` and the positional rebasing -/

/-- `Grammar::merge` appends the whole own-POS table of the user dictionary, entry for entry, ALSO when an entry repeats a
POS the grammar already holds (a plugin-registered POS, a POS of an earlier user dictionary): entry `i` of the table lands
at position `|grammar| + i`, which is what `pos_id − num_system_pos + pos_offsets[d]` computes.  (`pos_rebase_correct`
and `declared_pos_reported` are stated for arbitrary lists — no "no duplicates between the layers" hypothesis.) -/
theorem merge_keeps_repeated_pos (g other : List Pos) :
    (grammarMerge g other).length = g.length + other.length ∧
    (∀ i, i < g.length → (grammarMerge g other)[i]? = g[i]?) ∧
    (∀ i, (grammarMerge g other)[g.length + i]? = other[i]?) := by
  unfold grammarMerge
  refine ⟨by simp, fun i hi => List.getElem?_append_left hi, fun i => ?_⟩
  rw [List.getElem?_append_right (by omega)]
  simp

/-- What `seeded/C12a` gets wrong, as a theorem about the variant (NOT the code): a merge that skips the POS the grammar
already holds breaks the rebasing as soon as a user dictionary repeats a plugin-registered POS.  System POS `[P0]`, plugin
POS `X`, own table `[X, Y]` (stored ids 1 and 2, offset 2): the real merge gives `[P0, X, X, Y]` and the rebased ids 2, 3
name `X`, `Y`; the skipping merge gives `[P0, X, Y]`, where id 2 names `Y` and id 3 is outside the list. -/
theorem merge_skipping_known_counterexample :
    let P0 : Pos := [0, 0, 0, 0, 0, 0]
    let X : Pos := [1, 0, 0, 0, 0, 0]
    let Y : Pos := [2, 0, 0, 0, 0, 0]
    (∃ D, load [P0] ⟨[], 255, []⟩ [(true, X)] [([X, Y], ⟨[⟨1, [], [], []⟩, ⟨2, [], [], []⟩], 255, []⟩)] = .ok D ∧
      D.posList = [P0, X, X, Y] ∧ D.set.posOffsets = [0, 2] ∧
      D.set.getWordInfo (mkRaw 1 0) = .ok ⟨2, [], [], []⟩ ∧ D.posList[2]? = some X ∧
      D.set.getWordInfo (mkRaw 1 1) = .ok ⟨3, [], [], []⟩ ∧ D.posList[3]? = some Y) ∧
    grammarMergeSkip [P0, X] [X, Y] = [P0, X, Y] ∧
    (grammarMergeSkip [P0, X] [X, Y])[2]? = some Y ∧ (grammarMergeSkip [P0, X] [X, Y])[3]? = none := by
  refine ⟨⟨_, rfl, ?_⟩, by decide, by decide, by decide⟩
  decide

/-! ## system words -/

/-- Clause "data reported for system words is unaffected by the presence of user dictionaries": with the same system
dictionary and plugins, every system word id yields the same word info with and without the user dictionaries, and
the POS list without them is a prefix of the list with them (so the same POS id names the same strings). -/
theorem system_unaffected (sys : List Pos) (sysLex : Lexicon) (plugs : List (Bool × Pos))
    (us : List (List Pos × Lexicon)) (D0 D : Dict)
    (h0 : load sys sysLex plugs [] = .ok D0) (h : load sys sysLex plugs us = .ok D) :
    (∀ id, dicOf id = 0 → D.set.getWordInfo id = D0.set.getWordInfo id) ∧
    (∃ ext, D.posList = D0.posList ++ ext) ∧
    (∀ i, i < D0.posList.length → D.posList[i]? = D0.posList[i]?) := by
  obtain ⟨plug0, ids0, hpl0, _, hpos0, _, _, hsys0, _⟩ := load_spec sys sysLex plugs [] D0 h0
  obtain ⟨plug, ids, hpl, _, hpos, _, _, hsys, _⟩ := load_spec sys sysLex plugs us D h
  have hplug : plug0 = plug := by
    rw [hpl0] at hpl
    have := (Prod.mk.inj (Outcome.ok.inj hpl)).1
    exact List.append_cancel_left this
  subst hplug
  have hext : D.posList = D0.posList ++ (us.map (·.1)).flatten := by rw [hpos, hpos0]; simp
  refine ⟨?_, ⟨_, hext⟩, ?_⟩
  · intro id hid
    apply getWordInfo_sys_only _ _ id hid
    rw [hsys, hsys0]
  · intro i hi
    rw [hext, List.getElem?_append_left hi]

/-! ## the order of the load steps: connection edits, cost estimates, merges -/

/-- The full `from_cfg_storage` (`Model/LayersLoad.lean`: connection-cost plugins validated, OOV plugins registering POS,
"no OOV plugin" test, connection edits, then per user dictionary `update_cost` → `append` → `merge`) computes the same
dictionary — POS list, lexicon set — as `Layers.load`, so every theorem above is about the full load too; all connection
edits are in force at the end. -/
theorem load_full_refines_load (est : LoadState → Nat → Outcome (Int × Nat)) (sys : List Pos) (sysLex : Lexicon)
    (sysCosts : List Int) (nl nr : Nat) (conn : List (List (Nat × Nat))) (plugs : List (Bool × Pos)) (nOov : Nat)
    (users : List UserDic) (F : LoadState)
    (h : loadFull est sys sysLex sysCosts nl nr conn plugs nOov users = .ok F) :
    load sys sysLex plugs (users.map UserDic.proj) = .ok F.dict ∧ F.inhibited = conn.flatten ∧
    conn.all (pairsValid nl nr) = true ∧ nOov ≠ 0 := by
  obtain ⟨set, g, ids, h1, h2, h3, h4, h5⟩ := loadFull_inv est sys sysLex sysCosts nl nr conn plugs nOov users F h
  obtain ⟨r1, r2, _⟩ := mergeAllFull_spec est users _ F h5
  refine ⟨?_, r2, h2, h4⟩
  unfold load
  rw [h1, h3]
  exact r1

/-- ORDER of the load steps.  The cost column of the (j+1)-th user dictionary is what `update_cost` computes with the
tokenizer running over the state `S_j` that the SAME load reaches with only the first `j` user dictionaries: system
dictionary, plugin POS, ALL connection edits (`InhibitConnection` runs before any user dictionary is looked at), `1 + j`
lexicons — not the dictionary being merged, not the later ones. -/
theorem cost_estimated_on_prefix (est : LoadState → Nat → Outcome (Int × Nat)) (sys : List Pos) (sysLex : Lexicon)
    (sysCosts : List Int) (nl nr : Nat) (conn : List (List (Nat × Nat))) (plugs : List (Bool × Pos)) (nOov : Nat)
    (users : List UserDic) (F : LoadState)
    (h : loadFull est sys sysLex sysCosts nl nr conn plugs nOov users = .ok F)
    (j : Nat) (u : UserDic) (hj : users[j]? = some u) :
    ∃ Sj cs, loadFull est sys sysLex sysCosts nl nr conn plugs nOov (users.take j) = .ok Sj ∧
      Sj.inhibited = conn.flatten ∧ Sj.dict.set.lexicons.length = 1 + j ∧
      updateCost (est Sj) u.params = .ok cs ∧ F.costs[1 + j]? = some cs := by
  obtain ⟨set, g, ids, h1, h2, h3, h4, h5⟩ := loadFull_inv est sys sysLex sysCosts nl nr conn plugs nOov users F h
  obtain ⟨Sj, cs, a, b, c⟩ := mergeAllFull_prefix est users _ F h5 j u hj
  have hl : loadFull est sys sysLex sysCosts nl nr conn plugs nOov (users.take j) = .ok Sj := by
    rw [loadFull_of est sys sysLex sysCosts nl nr conn plugs nOov (users.take j) set g ids h1 h2 h3 h4]
    exact a
  obtain ⟨q1, q2, _, _⟩ := load_full_refines_load est sys sysLex sysCosts nl nr conn plugs nOov (users.take j) Sj hl
  obtain ⟨_, _, _, _, _, _, hlen, _⟩ := load_spec sys sysLex plugs _ Sj.dict q1
  have hjlt : j < users.length := by
    by_cases hlt : j < users.length
    · exact hlt
    · rw [List.getElem?_eq_none (by omega)] at hj; cases hj
  refine ⟨Sj, cs, hl, q2, ?_, b, ?_⟩
  · rw [hlen]; simp; omega
  · simpa [Nat.add_comm] using c

/-- What `update_cost` writes: a stored cost other than `i16::MIN` is kept; `i16::MIN` is replaced by
`clamp_i16(internal cost + (−20) · morphemes)` of the headword's analysis, a value inside the `i16` range. -/
theorem declared_cost_kept (est : Nat → Outcome (Int × Nat)) (ps : List Param) (cs : List Int)
    (h : updateCost est ps = .ok cs) :
    cs.length = ps.length ∧ ∀ (w : Nat) (p : Param), ps[w]? = some p →
      (p.cost ≠ -32768 → cs[w]? = some p.cost) ∧
      (p.cost = -32768 → ∃ ic n c, est p.surface = .ok (ic, n) ∧ cs[w]? = some c ∧
        c = max (min (ic + -20 * (n : Int)) 32767) (-32768) ∧ -32768 ≤ c ∧ c ≤ 32767) := by
  obtain ⟨hl, hall⟩ := updateCost_spec est ps cs h
  refine ⟨hl, fun w p hp => ⟨(hall w p hp).1, ?_⟩⟩
  intro hm
  obtain ⟨ic, n, he, hc⟩ := (hall w p hp).2 hm
  exact ⟨ic, n, _, he, hc, rfl, clampI16_range _⟩

/-- Clause "data reported for system words is unaffected by the presence of user dictionaries", for the word parameters:
the cost column of the system lexicon after the load is the stored one whatever user dictionaries follow (`update_cost`
is applied to user lexicons only — a system row stored with `i16::MIN` keeps it), and the costs of the first `j+1` user
dictionaries do not depend on the dictionaries loaded after them. -/
theorem costs_unaffected_by_later_dictionaries (est : LoadState → Nat → Outcome (Int × Nat)) (sys : List Pos)
    (sysLex : Lexicon) (sysCosts : List Int) (nl nr : Nat) (conn : List (List (Nat × Nat))) (plugs : List (Bool × Pos))
    (nOov : Nat) (users users' : List UserDic) (F F' : LoadState)
    (h : loadFull est sys sysLex sysCosts nl nr conn plugs nOov users = .ok F)
    (h' : loadFull est sys sysLex sysCosts nl nr conn plugs nOov users' = .ok F') :
    F.costs[0]? = some sysCosts ∧ F'.costs[0]? = some sysCosts ∧
    ∀ j u, users[j]? = some u → users'[j]? = some u → users.take j = users'.take j → F.costs[1 + j]? = F'.costs[1 + j]? := by
  obtain ⟨set, g, ids, h1, h2, h3, h4, h5⟩ := loadFull_inv est sys sysLex sysCosts nl nr conn plugs nOov users F h
  obtain ⟨set', g', ids', h1', h2', h3', h4', h5'⟩ := loadFull_inv est sys sysLex sysCosts nl nr conn plugs nOov users' F' h'
  obtain ⟨_, _, css, _, r4⟩ := mergeAllFull_spec est users _ F h5
  obtain ⟨_, _, css', _, r4'⟩ := mergeAllFull_spec est users' _ F' h5'
  refine ⟨by rw [r4]; rfl, by rw [r4']; rfl, ?_⟩
  intro j u hj hj' htake
  obtain ⟨Sj, cs, a, _, _, b, c⟩ := cost_estimated_on_prefix est sys sysLex sysCosts nl nr conn plugs nOov users F h j u hj
  obtain ⟨Sj', cs', a', _, _, b', c'⟩ := cost_estimated_on_prefix est sys sysLex sysCosts nl nr conn plugs nOov users' F' h' j u hj'
  rw [htake, a'] at a
  cases a
  rw [b'] at b
  cases b
  rw [c, c']

/-! ## the merged POS list and `u16` ids: the repaired `merge_user_dictionary` (finding P2) -/

/-- `MergeVariant.unbounded` is the pinned code: the variant-carrying loads the driver executes are `load` / `loadFull`
verbatim when the harness names the pinned tree (`mv=any`). -/
theorem unbounded_variant_is_pinned_load (est : LoadState → Nat → Outcome (Int × Nat)) (sys : List Pos) (sysLex : Lexicon)
    (sysCosts : List Int) (nl nr : Nat) (conn : List (List (Nat × Nat))) (plugs : List (Bool × Pos)) (nOov : Nat)
    (users : List UserDic) (us : List (List Pos × Lexicon)) :
    loadFullV .unbounded est sys sysLex sysCosts nl nr conn plugs nOov users =
      loadFull est sys sysLex sysCosts nl nr conn plugs nOov users ∧
    loadV .unbounded sys sysLex plugs us = load sys sysLex plugs us :=
  ⟨loadFullV_unbounded est sys sysLex sysCosts nl nr conn plugs nOov users, loadV_unbounded sys sysLex plugs us⟩

/-- EVERY successful load of the repaired tree has at most 65 536 parts of speech — ids `0 ..= 65535`, all a `u16` can
name.  `sys.length ≤ 65536` is no restriction on real inputs: a POS table read from a dictionary file has a `u16` row count
(`system_pos_table_fits_u16`); `register_pos` refuses the 65 537th entry; the repaired `merge_user_dictionary` refuses a
table that would push the list beyond 65 536.  The repaired load is also a successful PINNED load with the same result (so
`load_full_refines_load`, `cost_estimated_on_prefix`, `costs_unaffected_by_later_dictionaries`, `dict_id_correct`,
`split_targets_exist`, `system_unaffected` … all apply to it), and its POS / lexicon part is `loadV .limit`. -/
theorem repaired_load_fits_u16 (est : LoadState → Nat → Outcome (Int × Nat)) (sys : List Pos) (sysLex : Lexicon)
    (sysCosts : List Int) (nl nr : Nat) (conn : List (List (Nat × Nat))) (plugs : List (Bool × Pos)) (nOov : Nat)
    (users : List UserDic) (F : LoadState) (hs : sys.length ≤ 65536)
    (h : loadFullV .limit est sys sysLex sysCosts nl nr conn plugs nOov users = .ok F) :
    F.dict.posList.length ≤ 65536 ∧
    loadFull est sys sysLex sysCosts nl nr conn plugs nOov users = .ok F ∧
    loadV .limit sys sysLex plugs (users.map UserDic.proj) = .ok F.dict := by
  obtain ⟨h1, h2⟩ := loadFullV_limit_ok est sys sysLex sysCosts nl nr conn plugs nOov users F h
  have hfit := h2 hs
  refine ⟨hfit, h1, ?_⟩
  exact loadV_limit_of_fits sys sysLex plugs _ F.dict
    (load_full_refines_load est sys sysLex sysCosts nl nr conn plugs nOov users F h1).1 hfit

/-- the hypothesis `sys.length ≤ 65536` of the theorems of this section holds for every system POS list that was read from a
dictionary the builder wrote (and likewise every own table of a user dictionary has fewer than 65 536 rows): the row
count is written and read as a `u16`. -/
theorem system_pos_table_fits_u16 (pre : Option (List Pos × List SysWord)) (rows : List Row) (b : Built) (tbl : List Pos)
    (hb : build pre rows = .ok b) (h : readPosTable b = .ok tbl) : tbl.length < 65536 :=
  build_posTable_lt pre rows b tbl hb h

/-- The repair removes nothing and refuses exactly the lists no `u16` id can address: on every input the pinned load
accepts (result `F`), the repaired load gives the SAME result when the merged list has at most 65 536 entries and
`Err(InvalidPartOfSpeech)` otherwise — the test sits before `update_cost`, so nothing is analysed for a refused dictionary. -/
theorem repair_refuses_exactly_beyond_u16 (est : LoadState → Nat → Outcome (Int × Nat)) (sys : List Pos) (sysLex : Lexicon)
    (sysCosts : List Int) (nl nr : Nat) (conn : List (List (Nat × Nat))) (plugs : List (Bool × Pos)) (nOov : Nat)
    (users : List UserDic) (F : LoadState) (hs : sys.length ≤ 65536)
    (h : loadFull est sys sysLex sysCosts nl nr conn plugs nOov users = .ok F) :
    (F.dict.posList.length ≤ 65536 → loadFullV .limit est sys sysLex sysCosts nl nr conn plugs nOov users = .ok F) ∧
    (65536 < F.dict.posList.length →
      loadFullV .limit est sys sysLex sysCosts nl nr conn plugs nOov users = .err .invalidPos) :=
  ⟨loadFullV_limit_of_fits est sys sysLex sysCosts nl nr conn plugs nOov users F h,
   loadFullV_limit_refuses est sys sysLex sysCosts nl nr conn plugs nOov users F h hs⟩

/-- `pos_rebase_correct` for the repaired loader, about the code's arithmetic and WITHOUT the side condition "the list fits
`u16`": after any successful load, a word of the (j+1)-th dictionary stored with the build-time id `p ≥ S` of one of its own
POS (`p − S < U_{j+1}`) is reported with the id `(p − S + pos_offsets[j+1]) as u16`, and that number IS
`S + Q + Σ_{i<j+1} U_i + (p − S)` — the narrowing loses nothing, the id is below 65 536 — and that entry of the loaded list is
`own_{j+1}[p − S]`; a system id `p < S` is reported unchanged and names `sys[p]`.  (In `pos_rebase_correct` the last step
needs `D.posList.length ≤ 65536` as a hypothesis; the model's ids were never unbounded — `rebasePos` has applied `asU16`
since the first round — but nothing in the pinned load enforces the bound.) -/
theorem pos_rebase_exact (sys : List Pos) (sysLex : Lexicon) (plugs : List (Bool × Pos))
    (us : List (List Pos × Lexicon)) (D : Dict) (hs : sys.length ≤ 65536)
    (hload : loadV .limit sys sysLex plugs us = .ok D) :
    ∃ plug ids, loadPlugins sys plugs = .ok (sys ++ plug, ids) ∧
      D.posList = sys ++ plug ++ (us.map (·.1)).flatten ∧ D.posList.length ≤ 65536 ∧
      ∀ (j : Nat) (own : List Pos) (lex : Lexicon), us[j]? = some (own, lex) →
      ∀ (w : Nat) (stored : Word), lex.words[w]? = some stored → w < P28 →
        ∃ wi, D.set.getWordInfo (mkRaw (1 + j) w) = .ok wi ∧
          (stored.posId < sys.length → wi.posId = stored.posId ∧ D.posList[wi.posId]? = sys[stored.posId]?) ∧
          (sys.length ≤ stored.posId → stored.posId - sys.length < own.length →
            wi.posId = (stored.posId - sys.length + (sys.length + plug.length + (ownBefore us j).length)) % 65536 ∧
            wi.posId = sys.length + plug.length + (ownBefore us j).length + (stored.posId - sys.length) ∧
            wi.posId < 65536 ∧
            D.posList[wi.posId]? = own[stored.posId - sys.length]?) := by
  obtain ⟨hl, hfit⟩ := loadV_limit_ok sys sysLex plugs us D hload
  have hsmall : D.posList.length ≤ 65536 := hfit hs
  obtain ⟨plug, ids, hpl, hpos, hrb⟩ := pos_rebase_correct sys sysLex plugs us D hl
  refine ⟨plug, ids, hpl, hpos, hsmall, ?_⟩
  intro j own lex hj w stored hw hw28
  obtain ⟨wi, hwi, hsys, husr⟩ := hrb j own lex hj w stored hw hw28
  refine ⟨wi, hwi, hsys, ?_⟩
  intro hge hown
  obtain ⟨h1, h2⟩ := husr hge
  obtain ⟨h3, h4⟩ := h2 hown hsmall
  have hlt : wi.posId < D.posList.length := by
    by_cases hlt : wi.posId < D.posList.length
    · exact hlt
    · rw [List.getElem?_eq_none (by omega), List.getElem?_eq_getElem hown] at h4; cases h4
  refine ⟨?_, h3, by omega, h4⟩
  rw [h1]
  unfold asU16
  congr 1
  omega

/-! ## finding: a user dictionary compiled against a dictionary whose plugins registered POS -/

/-- The POS clause is FALSE for the pinned builder (`PreVariant.all`, the unchanged code) when the user dictionary was
compiled with `DictBuilder::new_user(dic)` over a dictionary loaded with a `userPOS: allow` plugin that registered a POS:
`preload_pos` takes the whole POS list of that dictionary (system + plugin POS, here 2 entries) as "system POS", so
the user's own POS gets build-time id 2, while the loader rebases with the system count taken *before* the plugins
(1).  Witness: system POS `[P0]`, plugin POS `X`, one user row with the new POS `Y`: the word is reported with POS id 3
in a list of 3 entries (`Morpheme::part_of_speech` panics), and a row declared with the plugin's POS `X` is reported
as `Y`. -/
theorem plugin_base_counterexample :
    let P0 : Pos := [0, 0, 0, 0, 0, 0]
    let X : Pos := [1, 0, 0, 0, 0, 0]
    let Y : Pos := [2, 0, 0, 0, 0, 0]
    -- the dictionary the builder is given: system POS + the plugin's POS, `num_system_pos` = 1
    (∃ B, load [P0] ⟨[], 255, []⟩ [(true, X)] [] = .ok B ∧ B.posList = [P0, X] ∧ B.set.numSystemPos = 1) ∧
    -- the compiled user dictionary: own POS table `[Y]`, the rows carry the build-time ids 2 and 1
    buildUser .all ⟨[P0, X], 1, []⟩ [⟨10, 10, 10, 0, Y, [], [], []⟩, ⟨11, 11, 11, 0, X, [], [], []⟩] =
      .ok ⟨1, [Y], [⟨2, [], [], []⟩, ⟨1, [], [], []⟩]⟩ ∧
    ∃ D, load [P0] ⟨[], 255, []⟩ [(true, X)] [([Y], ⟨[⟨2, [], [], []⟩, ⟨1, [], [], []⟩], 255, []⟩)] = .ok D ∧
      D.posList = [P0, X, Y] ∧
      D.set.getWordInfo (mkRaw 1 0) = .ok ⟨3, [], [], []⟩ ∧ D.posList[3]? = none ∧
      D.set.getWordInfo (mkRaw 1 1) = .ok ⟨2, [], [], []⟩ ∧ D.posList[2]? = some Y := by
  refine ⟨⟨_, rfl, by decide, by decide⟩, by decide, _, rfl, ?_⟩
  decide

/-! ## finding P2: more than 65 536 parts of speech after the merges -/

/-- The POS clause is FALSE once the merged POS list outgrows `u16` (finding P2).  `register_pos` refuses the 65 537th entry,
but `Grammar::merge` appends a user dictionary's table without any limit, and `get_word_info_subset` narrows the rebased id
with `as u16`: for EVERY load, a word of dictionary `j+1` whose own POS sits at position
`S + Q + Σ U_{<j+1} + (p − S) ≥ 65 536` of the loaded list is reported with that number modulo 65 536 — an id below 65 536
that names an entry of the system dictionary / an earlier layer.  Second part: such loads exist and succeed (one user
dictionary with 65 537 own POS over an empty system list; on the real code: three user dictionaries with 30 000 own POS
each, or two with 32 767 each over one system POS and two plugin POS, see reports/C12.md).  Third part: the repaired loader
(`MergeVariant.limit`) refuses that very input with `InvalidPartOfSpeech`.  The statement is about the PINNED
`merge_user_dictionary` (`load` = `loadV .unbounded`, `unbounded_variant_is_pinned_load`). -/
theorem pos_id_wraps_beyond_u16_counterexample :
    (∀ (sys : List Pos) (sysLex : Lexicon) (plugs : List (Bool × Pos)) (us : List (List Pos × Lexicon)) (D : Dict),
      load sys sysLex plugs us = .ok D →
      ∃ plug ids, loadPlugins sys plugs = .ok (sys ++ plug, ids) ∧
      ∀ (j : Nat) (own : List Pos) (lex : Lexicon), us[j]? = some (own, lex) →
      ∀ (w : Nat) (stored : Word), lex.words[w]? = some stored → w < P28 → sys.length ≤ stored.posId →
        65536 ≤ sys.length + plug.length + (ownBefore us j).length + (stored.posId - sys.length) →
        ∃ wi, D.set.getWordInfo (mkRaw (1 + j) w) = .ok wi ∧
          wi.posId = (sys.length + plug.length + (ownBefore us j).length + (stored.posId - sys.length)) % 65536 ∧
          wi.posId ≠ sys.length + plug.length + (ownBefore us j).length + (stored.posId - sys.length)) ∧
    (∃ D, load [] ⟨[], 255, []⟩ [] [(List.replicate 65537 [0, 0, 0, 0, 0, 0], ⟨[⟨65536, [], [], []⟩], 255, []⟩)] = .ok D ∧
      D.posList.length = 65537 ∧
      ∃ wi, D.set.getWordInfo (mkRaw 1 0) = .ok wi ∧ wi.posId = 0) ∧
    loadV .limit [] ⟨[], 255, []⟩ [] [(List.replicate 65537 [0, 0, 0, 0, 0, 0], ⟨[⟨65536, [], [], []⟩], 255, []⟩)] =
      .err .invalidPos := by
  constructor
  · intro sys sysLex plugs us D hload
    obtain ⟨plug, ids, hpl, _, hrb⟩ := pos_rebase_correct sys sysLex plugs us D hload
    refine ⟨plug, ids, hpl, ?_⟩
    intro j own lex hj w stored hw hw28 hge hbig
    obtain ⟨wi, hwi, _, husr⟩ := hrb j own lex hj w stored hw hw28
    refine ⟨wi, hwi, ?_, ?_⟩
    · rw [(husr hge).1]; rfl
    · rw [(husr hge).1]; unfold asU16; omega
  · have aux : ∀ own : List Pos, own.length = 65537 →
        ∃ D, load [] ⟨[], 255, []⟩ [] [(own, ⟨[⟨65536, [], [], []⟩], 255, []⟩)] = .ok D ∧
          D.posList.length = 65537 ∧ ∃ wi, D.set.getWordInfo (mkRaw 1 0) = .ok wi ∧ wi.posId = 0 := by
      intro own hown
      obtain ⟨D, hD⟩ := load_accepts_fourteen [] ⟨[], 255, []⟩ []
        [(own, ⟨[⟨65536, [], [], []⟩], 255, []⟩)] [] [] rfl (by simp)
      obtain ⟨plug, ids, hpl, hpos, hrb⟩ := pos_rebase_correct _ _ _ _ D hD
      have hplug : plug = [] := by
        have : loadPlugins [] [] = .ok (([] : List Pos), ([] : List Nat)) := rfl
        rw [this] at hpl
        have := (Prod.mk.inj (Outcome.ok.inj hpl)).1
        simpa using this.symm
      subst hplug
      obtain ⟨wi, hwi, _, husr⟩ := hrb 0 _ _ rfl 0 ⟨65536, [], [], []⟩ rfl (by unfold P28; omega)
      refine ⟨D, hD, by rw [hpos]; simp [hown], wi, hwi, ?_⟩
      have := (husr (by simp)).1
      rw [this]
      simp [ownBefore, asU16]
    obtain ⟨D, hD, hlen, hw⟩ := aux _ (List.length_replicate (n := 65537) (a := ([0, 0, 0, 0, 0, 0] : Pos)))
    refine ⟨⟨D, hD, hlen, hw⟩, ?_⟩
    exact loadV_limit_refuses _ _ _ _ D hD (by simp [U16_IDS]) (by rw [hlen]; simp [U16_IDS])

/-! ## non-vacuity -/

/-- a two-dictionary stack with one plugin POS: hypotheses of `pos_rebase_correct` / `system_unaffected` are
satisfiable, and the concrete numbers are the expected ones (S = 2, Q = 1, U₁ = 1, U₂ = 2). -/
example :
    ∃ D, load [[1], [2]] ⟨[⟨0, [], [], []⟩], 255, []⟩ [(true, [7, 7, 7, 7, 7, 7])]
        [([[3]], ⟨[⟨2, [mkRaw 1 0, mkRaw 0 0], [], []⟩], 255, []⟩), ([[4], [5]], ⟨[⟨3, [], [], []⟩, ⟨1, [], [], []⟩], 255, []⟩)] = .ok D ∧
      D.posList = [[1], [2], [7, 7, 7, 7, 7, 7], [3], [4], [5]] ∧
      D.set.posOffsets = [0, 3, 4] ∧
      D.set.getWordInfo (mkRaw 1 0) = .ok ⟨3, [mkRaw 1 0, mkRaw 0 0], [], []⟩ ∧
      D.set.getWordInfo (mkRaw 2 0) = .ok ⟨5, [], [], []⟩ ∧
      D.set.getWordInfo (mkRaw 2 1) = .ok ⟨1, [], [], []⟩ := by
  refine ⟨_, rfl, ?_⟩
  decide

/-- the repaired load at the limit: one system POS and a user dictionary with 65 535 own POS make exactly 65 536 entries; the
load succeeds (hypotheses of `repaired_load_fits_u16` / `pos_rebase_exact` / `declared_pos_reported` are satisfiable with the
bound attained) and the word stored with the last own id is reported with id 65 535 — the largest `u16`, not a sentinel. -/
example :
    ∃ D, loadV .limit [[9, 9, 9, 9, 9, 9]] ⟨[], 255, []⟩ []
        [(List.replicate 65535 [0, 0, 0, 0, 0, 0], ⟨[⟨65535, [], [], []⟩], 255, []⟩)] = .ok D ∧
      D.posList.length = 65536 ∧ ∃ wi, D.set.getWordInfo (mkRaw 1 0) = .ok wi ∧ wi.posId = 65535 := by
  have aux : ∀ own : List Pos, own.length = 65535 →
      ∃ D, loadV .limit [[9, 9, 9, 9, 9, 9]] ⟨[], 255, []⟩ [] [(own, ⟨[⟨65535, [], [], []⟩], 255, []⟩)] = .ok D ∧
        D.posList.length = 65536 ∧ ∃ wi, D.set.getWordInfo (mkRaw 1 0) = .ok wi ∧ wi.posId = 65535 := by
    intro own hown
    obtain ⟨D, hD⟩ := load_accepts_fourteen [[9, 9, 9, 9, 9, 9]] ⟨[], 255, []⟩ []
      [(own, ⟨[⟨65535, [], [], []⟩], 255, []⟩)] [[9, 9, 9, 9, 9, 9]] [] rfl (by simp)
    obtain ⟨plug, ids, hpl, hpos, _⟩ := pos_rebase_correct _ _ _ _ D hD
    have hplug : plug = [] := by
      have : loadPlugins [[9, 9, 9, 9, 9, 9]] [] = .ok (([[9, 9, 9, 9, 9, 9]] : List Pos), ([] : List Nat)) := rfl
      rw [this] at hpl
      have := (Prod.mk.inj (Outcome.ok.inj hpl)).1
      simpa using this.symm
    subst hplug
    have hlen : D.posList.length = 65536 := by rw [hpos]; simp [hown]
    have hV := loadV_limit_of_fits _ _ _ _ D hD (by rw [hlen]; simp [U16_IDS])
    obtain ⟨plug', ids', hpl', _, _, hrb⟩ := pos_rebase_exact _ _ _ _ D (by simp) hV
    have hplug' : plug' = [] := by
      have : loadPlugins [[9, 9, 9, 9, 9, 9]] [] = .ok (([[9, 9, 9, 9, 9, 9]] : List Pos), ([] : List Nat)) := rfl
      rw [this] at hpl'
      have := (Prod.mk.inj (Outcome.ok.inj hpl')).1
      simpa using this.symm
    subst hplug'
    obtain ⟨wi, hwi, _, husr⟩ := hrb 0 _ _ rfl 0 ⟨65535, [], [], []⟩ rfl (by unfold P28; omega)
    refine ⟨D, hV, hlen, wi, hwi, ?_⟩
    have := (husr (by simp) (by simp [hown])).2.1
    rw [this]
    simp [ownBefore]
  exact aux _ (List.length_replicate ..)

/-- the hypotheses of `declared_pos_reported` are satisfiable with Q = 1 and the repaired builder gets the witness of
`plugin_base_counterexample` right: same base (system POS `[P0]`, plugin POS `X`, `num_system_pos` = 1), same rows; the
reader is preloaded with `[P0]` only, the own table is `[Y, X]`, the stored ids are 1 and 2, and after loading under
the same plugin the two words report ids 2 and 3 of the list `[P0, X, Y, X]`: `Y` and `X`, as declared. -/
example :
    let P0 : Pos := [0, 0, 0, 0, 0, 0]
    let X : Pos := [1, 0, 0, 0, 0, 0]
    let Y : Pos := [2, 0, 0, 0, 0, 0]
    ([P0] : List Pos).Nodup ∧
    (∃ B, load [P0] ⟨[], 255, []⟩ [(true, X)] [] = .ok B ∧
      buildUser .sysOnly ⟨B.posList, B.set.numSystemPos, []⟩ [⟨10, 10, 10, 0, Y, [], [], []⟩, ⟨11, 11, 11, 0, X, [], [], []⟩] =
        .ok ⟨2, [Y, X], [⟨1, [], [], []⟩, ⟨2, [], [], []⟩]⟩) ∧
    ∃ D, load [P0] ⟨[], 255, []⟩ [(true, X)] [([Y, X], ⟨[⟨1, [], [], []⟩, ⟨2, [], [], []⟩], 255, []⟩)] = .ok D ∧
      D.posList = [P0, X, Y, X] ∧
      D.set.getWordInfo (mkRaw 1 0) = .ok ⟨2, [], [], []⟩ ∧ D.posList[2]? = some Y ∧
      D.set.getWordInfo (mkRaw 1 1) = .ok ⟨3, [], [], []⟩ ∧ D.posList[3]? = some X := by
  refine ⟨by decide, ⟨_, rfl, by decide⟩, _, rfl, ?_⟩
  decide

/-- the builder hypotheses are satisfiable and the numbering is the expected one: base POS `[[1],[2]]`; the first row
has an inline unit whose new POS `[4]` is registered *before* the row's own new POS `[3]` (ids 2 and 3, table
`[[4],[3]]`); the inline unit resolves to the dictionary's own second row (`U1`), the numeric unit stays system word 0. -/
example :
    ([[1], [2]] : List Pos).Nodup ∧
    build (some ([[1], [2]], [⟨10, 0, 10⟩]))
      [⟨20, 20, 20, 2, [3], [.inline 21 [4] 21, .ref false 0], [], []⟩, ⟨21, 21, 21, 0, [4], [], [], []⟩] =
      .ok ⟨2, [[4], [3]], [⟨3, [mkRaw 1 1, mkRaw 0 0], [], []⟩, ⟨2, [], [], []⟩]⟩ := by
  refine ⟨by decide, by decide⟩

/-- the hypotheses of the load-order theorems are satisfiable, and the order is visible in the numbers: one
`InhibitConnection` plugin with two pairs, two user dictionaries each with one `i16::MIN` row and one declared cost; the
"tokenizer" answers (100·lexicons + inhibited cells, 2 morphemes), so the estimates show the state they were taken on:
dictionary 1 over 1 lexicon and 2 edits (102 − 40), dictionary 2 over 2 lexicons and 2 edits (202 − 40). -/
example :
    ∃ F, loadFull (fun st _ => .ok (100 * (st.dict.set.lexicons.length : Int) + (st.inhibited.length : Int), 2))
        [[1]] ⟨[⟨0, [], [], []⟩], 255, []⟩ [7] 3 3 [[(0, 1), (2, 2)]] [(true, [7, 7, 7, 7, 7, 7])] 1
        [⟨[], ⟨[⟨0, [], [], []⟩, ⟨0, [], [], []⟩], 255, []⟩, [⟨5, -32768⟩, ⟨6, 11⟩]⟩,
         ⟨[], ⟨[⟨0, [], [], []⟩, ⟨0, [], [], []⟩], 255, []⟩, [⟨5, 12⟩, ⟨6, -32768⟩]⟩] = .ok F ∧
      F.costs = [[7], [62, 11], [12, 162]] ∧ F.inhibited = [(0, 1), (2, 2)] := by
  refine ⟨_, rfl, ?_⟩
  decide

/-- an `inhibitPair` outside the matrix fails the load before any POS is registered; no OOV plugin fails it after -/
example :
    loadFull (fun _ _ => .ok (0, 0)) [[1]] ⟨[], 255, []⟩ [] 3 3 [[(3, 0)]] [(false, [9])] 1 [] = .err .invalidData ∧
    loadFull (fun _ _ => .ok (0, 0)) [[1]] ⟨[], 255, []⟩ [] 3 3 [[(2, 0)]] [] 0 [] = .err .noOovPlugin :=
  ⟨rfl, rfl⟩

/-- the hypotheses of `stored_references_in_range` / `split_targets_exist` / `inline_reference_resolves_to_matching_entry`
are satisfiable together: base with system POS `[[1],[2]]` and one word; a user dictionary whose first row has an inline
unit (resolving to its own second row, stored `(1, 1)`) and a numeric unit (system word 0); loaded as dictionary 2 of a
stack of two, the set reports the targets `(2, 1)` and `(0, 0)`, both existing words. -/
example :
    let rows : List Row := [⟨20, 20, 20, 2, [3], [.inline 21 [4] 21, .ref false 0], [], []⟩, ⟨21, 21, 21, 0, [4], [], [], []⟩]
    let ws : List Word := [⟨3, [mkRaw 1 1, mkRaw 0 0], [], []⟩, ⟨2, [], [], []⟩]
    buildUser .sysOnly ⟨[[1], [2]], 2, [⟨10, 0, 10⟩]⟩ rows = .ok ⟨2, [[4], [3]], ws⟩ ∧
    resolveChained (rawIndex [⟨20, 20, 20, 3, [], [], []⟩, ⟨21, 21, 21, 2, [], [], []⟩] true) (binIndex [⟨10, 0, 10⟩]) 21 2 none
      = some (mkRaw 1 1) ∧
    ∃ D, load [[1], [2]] ⟨[⟨0, [], [], []⟩], 255, []⟩ [] [([], ⟨[], 255, []⟩), ([[4], [3]], ⟨ws, 255, []⟩)] = .ok D ∧
      D.set.getWordInfo (mkRaw 2 0) = .ok ⟨3, [mkRaw 2 1, mkRaw 0 0], [], []⟩ := by
  refine ⟨by decide, by decide, _, rfl, ?_⟩
  decide

/-- `IdsOk` is inhabited by a set with 15 lexicons, so `fifteenth_rejected` is about a reachable state -/
example : ∃ s : LexSet, IdsOk s ∧ s.lexicons.length = 15 :=
  ⟨⟨(List.range 15).map (fun i => ⟨[], i, []⟩), List.replicate 15 0, 0⟩, by
    refine ⟨by decide, by decide, by decide, ?_⟩
    intro i l hl
    have hi : i < 15 := by
      by_cases h : i < 15
      · exact h
      · rw [List.getElem?_eq_none (by simp; omega)] at hl; cases hl
    rw [List.getElem?_map, List.getElem?_range hi] at hl
    simp at hl
    rw [← hl], by simp⟩

/-! ### round e: the POS intern table across several `read_lexicon` calls, failing ones included -/

/-- "its part of speech is exactly the part-of-speech strings declared for it in its source - including parts of speech that
exist only in a user dictionary", build side, for a builder that is USED FURTHER after `read_lexicon` failed: whatever sequence
of succeeding and failing `read_lexicon` calls `srcs` the builder `new_user` (over a dictionary with the duplicate-free POS
list `g`) went through - every line may be well-formed, malformed in a column before the splits, an A-mode row with splits, a
row with an empty surface, ... - if `resolve` + `compile` succeed then the written own-POS table `own` reads back, the compiled
dictionary has exactly one word per KEPT row (`keptSources`: for every call the rows in front of its first rejected line, all
rows of a call that succeeded - `kept_rows_of_a_source`), in that order, and the POS id stored for the i-th kept row names that
row's declared POS in `g ++ own`: ids handed out during a call that was rejected later stay valid, because `pos_of` only
appends to the table and nothing ever removes a row (`Extends.trans`). -/
theorem pos_ids_stable_across_failed_reads (g : List Pos) (sw : List SysWord) (srcs : List (List Line)) (b : Built)
    (hnd : g.Nodup) (hle : g.length ≤ 32768) (h : (buildReads (some (g, sw)) srcs).2 = .ok b) :
    ∃ own, readPosTable b = .ok own ∧ b.words.length = (keptSources (preloadPos g) srcs).length ∧
      ∀ (i : Nat) (row : Row), (keptSources (preloadPos g) srcs)[i]? = some row →
        ∃ wd, b.words[i]? = some wd ∧ (g ++ own)[wd.posId]? = some row.pos := by
  have hext := readSources_extends srcs (preloadPos g) (preloadPos_spec g hnd hle).2.1
  unfold buildReads startReader at h
  cases hrs : readSources (preloadPos g) srcs with
  | mk r fs =>
    rw [hrs] at h hext
    exact finishBuild_pos_numbering g sw r _ b hnd hle hext h

/-- what "kept" means for one `read_lexicon` call in any builder state `r`: a prefix of the lines of the source - all of them
when the call returns `Ok`, the lines in front of the rejected one when it returns `Err` -/
theorem kept_rows_of_a_source (r : Reader) (ls : List Line) :
    ∃ k, keptSource r ls = (ls.take k).map (·.row) ∧
      ((readSourceK r ls).2 = none → k = ls.length) ∧ ((readSourceK r ls).2 ≠ none → k < ls.length) :=
  keptSource_prefix ls r

/-- `pos_ids_stable_across_failed_reads` composed with `pos_rebase_correct` (builder + loader): a user dictionary compiled by
the REPAIRED `new_user` against any dictionary whose POS list is `sys ++ extra` (`num_system_pos = |sys|`) by a builder that
went through ANY sequence of succeeding and failing `read_lexicon` calls, loaded as the (j+1)-th dictionary of any stack over
the same system dictionary under any plugin registrations: the i-th kept row is word `i` of dictionary `j+1` and its reported
POS id names exactly the POS strings of that row's own CSV line. -/
theorem declared_pos_reported_after_failed_reads (sys extra : List Pos) (sw : List SysWord) (sysLex : Lexicon)
    (plugs : List (Bool × Pos)) (us : List (List Pos × Lexicon)) (D : Dict)
    (hload : load sys sysLex plugs us = .ok D)
    (hnd : sys.Nodup) (hle : sys.length ≤ 32768) (hsmall : D.posList.length ≤ 65536)
    (j : Nat) (srcs : List (List Line)) (b : Built) (own : List Pos) (lex : Lexicon)
    (hb : (buildReads (some (preOf .sysOnly ⟨sys ++ extra, sys.length, sw⟩)) srcs).2 = .ok b)
    (hown : readPosTable b = .ok own) (hlex : lex.words = b.words)
    (hj : us[j]? = some (own, lex)) (i : Nat) (row : Row)
    (hi : (keptSources (preloadPos sys) srcs)[i]? = some row) (hi28 : i < P28) :
    ∃ wi, D.set.getWordInfo (mkRaw (1 + j) i) = .ok wi ∧ D.posList[wi.posId]? = some row.pos := by
  have hb' : (buildReads (some (sys, sw)) srcs).2 = .ok b := by
    simpa [preOf] using hb
  obtain ⟨own', hown', _, hall⟩ := pos_ids_stable_across_failed_reads sys sw srcs b hnd hle hb'
  rw [hown] at hown'
  have : own = own' := Outcome.ok.inj hown'
  subst this
  obtain ⟨wd, hwd, hpos⟩ := hall i row hi
  obtain ⟨plug, ids, _, _, hrb⟩ := pos_rebase_correct sys sysLex plugs us D hload
  obtain ⟨wi, hwi, hsys, husr⟩ := hrb j own lex hj i wd (by rw [hlex]; exact hwd) hi28
  refine ⟨wi, hwi, ?_⟩
  by_cases hlt : wd.posId < sys.length
  · rw [(hsys hlt).2, ← hpos, List.getElem?_append_left hlt]
  · have hge : sys.length ≤ wd.posId := by omega
    have hbound : wd.posId < (sys ++ own).length := by
      by_cases hb'' : wd.posId < (sys ++ own).length
      · exact hb''
      · rw [List.getElem?_eq_none (by omega)] at hpos; cases hpos
    have hown_lt : wd.posId - sys.length < own.length := by simp at hbound; omega
    rw [((husr hge).2 hown_lt hsmall).2, ← hpos, List.getElem?_append_right hge]

/-- The "clean-up" of `seeded/C12e` (a failing `read_bytes` truncates the POS table back to its length before the call while
the rows in front of the rejected line stay) is NOT the code and the theorem tells the two apart: system POS `[[1]]`; first
source = a row with the new POS `[2]` and a line with a malformed column, second source = a row with the new POS `[3]`.
The code keeps both rows with ids 1 and 2 over the table `[[2], [3]]`; the truncating reader hands id 1 out twice, writes the
table `[[3]]`, and the first kept row reports `[3]` instead of its declared `[2]`. -/
theorem truncating_reader_counterexample :
    let g : List Pos := [[1]]
    let srcs : List (List Line) := [[⟨⟨10, 10, 10, 0, [2], [], [], []⟩, 0⟩, ⟨⟨11, 11, 11, 0, [4], [], [], []⟩, 1⟩],
                                    [⟨⟨12, 12, 12, 0, [3], [], [], []⟩, 0⟩]]
    (keptSources (preloadPos g) srcs).map (fun r => (r.surface, r.pos)) = [(10, [2]), (12, [3])] ∧
    (buildReads (some (g, [])) srcs).2 = .ok ⟨2, [[2], [3]], [⟨1, [], [], []⟩, ⟨2, [], [], []⟩]⟩ ∧
    finishBuild (some (g, [])) (readSourcesTrunc (preloadPos g) srcs).1 = .ok ⟨1, [[3]], [⟨1, [], [], []⟩, ⟨1, [], [], []⟩]⟩ ∧
    (g ++ [[3]])[1]? ≠ some [2] := by
  decide

/-- the hypotheses of `pos_ids_stable_across_failed_reads` / `declared_pos_reported_after_failed_reads` are satisfiable together
with rejected calls of every modelled kind in between: system POS `[[1]]`; source 1 = a row with the new POS `[2]`, then an
A-mode row with an inline unit of the new POS `[5]` and the own new POS `[6]` (rejected: `InvalidSplit`, both POS stay in the
table); source 2 = a line with an empty surface and the new POS `[7]` (rejected after interning); source 3 = a line with a
malformed column (nothing interned), source 4 = a row with the new POS `[3]`.  Two rows are kept, with ids 1 and 5 over the
written table `[[2], [5], [6], [7], [3]]`; loaded as dictionary 1 under a plugin registering a further POS the second word reports
id 6 = `[3]`. -/
example :
    let srcs : List (List Line) :=
      [[⟨⟨10, 10, 10, 0, [2], [], [], []⟩, 0⟩, ⟨⟨11, 11, 11, 0, [6], [.inline 10 [5] 10], [], []⟩, 0⟩, ⟨⟨13, 13, 13, 0, [2], [], [], []⟩, 0⟩],
       [⟨⟨11, 11, 11, 2, [7], [], [], []⟩, 2⟩], [⟨⟨11, 11, 11, 0, [8], [], [], []⟩, 1⟩], [⟨⟨12, 12, 12, 0, [3], [], [], []⟩, 0⟩]]
    let ws : List Word := [⟨1, [], [], []⟩, ⟨5, [], [], []⟩]
    (readSources (preloadPos [[1]]) srcs).2 = [(1, some (.err .invalidSplit)), (0, some .emptySurface), (0, some .malformed), (1, none)] ∧
    (keptSources (preloadPos [[1]]) srcs).map (fun r => (r.surface, r.pos)) = [(10, [2]), (12, [3])] ∧
    (buildReads (some (preOf .sysOnly ⟨[[1]] ++ [[9]], 1, []⟩)) srcs).2 = .ok ⟨5, [[2], [5], [6], [7], [3]], ws⟩ ∧
    (match load [[1]] ⟨[⟨0, [], [], []⟩], 255, []⟩ [(true, [9, 9, 9, 9, 9, 9])] [([[2], [5], [6], [7], [3]], ⟨ws, 255, []⟩)] with
     | .ok D => decide (D.set.getWordInfo (mkRaw 1 1) = .ok ⟨6, [], [], []⟩) && decide (D.posList[6]? = some [3])
     | _ => false) = true := by
  refine ⟨by decide, by decide, by decide, ?_⟩
  decide

/-- `kept_rows_of_a_source` is about both outcomes of a call: a source that is read to its end and one that is cut -/
example :
    (readSourceK (preloadPos [[1]]) [⟨⟨10, 10, 10, 0, [2], [], [], []⟩, 0⟩]).2 = none ∧
    (readSourceK (preloadPos [[1]]) [⟨⟨10, 10, 10, 0, [2], [], [], []⟩, 0⟩, ⟨⟨11, 11, 11, 0, [2], [], [], []⟩, 1⟩]).2 ≠ none := by
  decide

end C12
