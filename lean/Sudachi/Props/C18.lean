import Sudachi.Proofs.Sched
/-!
# C18 — One loaded dictionary can be shared by concurrent tokenizers   (PARTIAL)

Model: `Sched.run` — N threads, each with a private tokenizer state and a list of operations, over
one dictionary value; a schedule is any sequence of thread numbers.  The theorems hold for every
step function that satisfies the *frame hypothesis* `hframe`: a step leaves the dictionary as it found it
(it may read the dictionary and read/write only the state of its own thread — the latter is built into
the type of `step`).

The second half of the file replaces the frame hypothesis by MONOTONE shared state and instantiates it with the
shared state that really exists in the Rust code, initialise-once cells (`lazy_static!`): `interleaving_independent_mono`,
`interleaving_independent_once`, `cells_schedule_independent`, and shows by kernel-checked witnesses that a
genuinely shared-mutable cell breaks independence (`torn_memo_counterexample`, `two_lock_state_counterexample`).

What the theorems cannot carry: whether the Rust code really satisfies the frame hypothesis — lazily
initialised statics, `CowArray::set`, the lifetime-erased slices, the GIL release in the Python
binding.  That part is exercised by the multi-threaded runs of the check (each thread's trace under
real OS schedules vs the sequential baseline, dictionary fingerprint before = after, compile-time
`Send + Sync`), never proved: a data race inside `unsafe` code that does not change results is invisible.
-/
namespace C18
open Sched

variable {D S Op Out : Type}

/-- **Every interleaving gives each thread what it gets alone.**  For every schedule, every thread
`i`: the outputs `i` has produced, followed by the outputs of its remaining operations performed alone
from its current state, are the outputs of all its operations performed alone. -/
theorem interleaving_independent (step : D → S → Op → D × S × Out) (hframe : ∀ d s op, (step d s op).1 = d)
    (sys : Sys D S Op) (sched : List Nat) (i : Nat) (s : S) (ops : List Op)
    (hs : sys.states[i]? = some s) (hp : sys.pending[i]? = some ops) :
    ∃ s' ops', (run step sys sched).1.states[i]? = some s' ∧ (run step sys sched).1.pending[i]? = some ops' ∧
      outputsOf i (run step sys sched).2 ++ alone step sys.dict s' ops' = alone step sys.dict s ops :=
  let ⟨s', ops', h1, h2, h3, _⟩ := run_invariant step hframe sched sys i s ops hs hp
  ⟨s', ops', h1, h2, h3⟩

/-- in particular, once a thread has performed all its operations its outputs are exactly those of a
single-threaded run -/
theorem complete_thread_eq_alone (step : D → S → Op → D × S × Out) (hframe : ∀ d s op, (step d s op).1 = d)
    (sys : Sys D S Op) (sched : List Nat) (i : Nat) (s : S) (ops : List Op)
    (hs : sys.states[i]? = some s) (hp : sys.pending[i]? = some ops)
    (hdone : (run step sys sched).1.pending[i]? = some []) :
    outputsOf i (run step sys sched).2 = alone step sys.dict s ops := by
  obtain ⟨s', ops', _, h2, h3⟩ := interleaving_independent step hframe sys sched i s ops hs hp
  rw [hdone] at h2
  have : ops' = [] := (Option.some.inj h2).symm
  subst this
  simpa [alone] using h3

/-- **The dictionary is never modified**: under the frame hypothesis it is the same after any schedule -/
theorem dictionary_unchanged (step : D → S → Op → D × S × Out) (hframe : ∀ d s op, (step d s op).1 = d) :
    ∀ (sched : List Nat) (sys : Sys D S Op), (run step sys sched).1.dict = sys.dict := by
  intro sched
  induction sched with
  | nil => intro sys; rfl
  | cons j rest ih =>
    intro sys
    simp only [run]
    have : (stepThread step sys j).1.dict = sys.dict := by
      unfold stepThread
      split <;> simp [hframe]
    rw [ih, this]

/-- non-vacuity: two threads, three operations, an interleaved schedule; a step that reads the
dictionary (adds it) and counts in its private state satisfies the frame hypothesis -/
example :
    let step : Nat → Nat → Nat → Nat × Nat × Nat := fun d s op => (d, s + 1, d + s + op)
    let sys : Sys Nat Nat Nat := { dict := 100, states := [0, 10], pending := [[1, 2], [5]] }
    (∀ d s op, (step d s op).1 = d) ∧
    (run step sys [0, 1, 0]).2 = [(0, 101), (1, 115), (0, 103)] ∧
    outputsOf 0 (run step sys [0, 1, 0]).2 = alone step 100 0 [1, 2] := by
  refine ⟨fun _ _ _ => rfl, by decide, by decide⟩


/-! ## Shared state that exists: initialise-once cells (monotone shared state instead of the frame hypothesis)

`Sched.run` lets a step return a new shared component, so it also describes a program whose threads DO write
shared state.  The first theorem replaces the frame hypothesis by: the shared component stays inside a set
`I`, and inside `I` a step's new private state and output do not depend on it.  The once-cell theorems
instantiate it with `I := Consistent (init d)` (every initialised cell holds what its initialiser gives) —
a fact that is PROVED of `Prog.exec`, not assumed: a step reaches the cells only through `getOrInit`. -/

variable {G V : Type}

/-- **Monotone shared state.**  If the shared component stays inside `I` and, inside `I`, the private state
and the output of a step do not depend on it, then under every schedule every thread gets what it gets alone
(alone from ANY shared component `g0` in `I`), and the shared component is still in `I`. -/
theorem interleaving_independent_mono (step : G → S → Op → G × S × Out) (I : G → Prop)
    (hI : ∀ g s op, I g → I (step g s op).1)
    (hins : ∀ g g' s op, I g → I g' → (step g s op).2 = (step g' s op).2)
    (sys : Sys G S Op) (g0 : G) (hsys : I sys.dict) (hg0 : I g0)
    (sched : List Nat) (i : Nat) (s : S) (ops : List Op)
    (hs : sys.states[i]? = some s) (hp : sys.pending[i]? = some ops) :
    ∃ s' ops', (run step sys sched).1.states[i]? = some s' ∧ (run step sys sched).1.pending[i]? = some ops' ∧
      outputsOf i (run step sys sched).2 ++ aloneG step g0 s' ops' = aloneG step g0 s ops ∧
      I (run step sys sched).1.dict :=
  run_invariant_mono step I hI hins g0 hg0 sched sys i s ops hsys hs hp

/-- the frame hypothesis is the special case `I := (· = d)`: `interleaving_independent` follows from the
monotone theorem (same statement as above, derived a second way) -/
theorem frame_is_special_case_of_mono (step : D → S → Op → D × S × Out) (hframe : ∀ d s op, (step d s op).1 = d)
    (sys : Sys D S Op) (sched : List Nat) (i : Nat) (s : S) (ops : List Op)
    (hs : sys.states[i]? = some s) (hp : sys.pending[i]? = some ops) :
    ∃ s' ops', (run step sys sched).1.states[i]? = some s' ∧ (run step sys sched).1.pending[i]? = some ops' ∧
      outputsOf i (run step sys sched).2 ++ alone step sys.dict s' ops' = alone step sys.dict s ops := by
  obtain ⟨s', ops', h1, h2, h3, _⟩ := interleaving_independent_mono step (fun g => g = sys.dict)
    (fun g s op hg => by rw [hframe]; exact hg)
    (fun g g' s op hg hg' => by rw [hg, hg']) sys sys.dict rfl rfl sched i s ops hs hp
  refine ⟨s', ops', h1, h2, ?_⟩
  rw [aloneG_eq_alone step hframe, aloneG_eq_alone step hframe] at h3
  exact h3

/-- **Every interleaving gives each thread what it gets alone from the all-uninitialised state** — with
once-cells shared.  `init` is the initialiser (a function of the dictionary and the cell number), `stepP` says
which cells an operation asks for; the cells the system starts with may be empty or partly initialised
(`Consistent`), the single-threaded reference run starts with NO cell initialised. -/
theorem interleaving_independent_once (init : D → Nat → V) (stepP : D → S → Op → Prog V (S × Out)) (d : D)
    (sys : Sys (Cells V) S Op) (hc : Consistent (init d) sys.dict)
    (sched : List Nat) (i : Nat) (s : S) (ops : List Op)
    (hs : sys.states[i]? = some s) (hp : sys.pending[i]? = some ops) :
    ∃ s' ops', (run (onceStep init stepP d) sys sched).1.states[i]? = some s' ∧
      (run (onceStep init stepP d) sys sched).1.pending[i]? = some ops' ∧
      outputsOf i (run (onceStep init stepP d) sys sched).2 ++ aloneG (onceStep init stepP d) Cells.empty s' ops'
        = aloneG (onceStep init stepP d) Cells.empty s ops := by
  obtain ⟨s', ops', h1, h2, h3, _⟩ := interleaving_independent_mono (onceStep init stepP d) (Consistent (init d))
    (fun g s op hg => onceStep_preserves init stepP d g s op hg)
    (fun g g' s op hg hg' => onceStep_insensitive init stepP d g g' s op hg hg')
    sys Cells.empty hc (consistent_empty _) sched i s ops hs hp
  exact ⟨s', ops', h1, h2, h3⟩

/-- a thread that has performed all its operations has output exactly what it outputs alone, no cell
initialised at its start -/
theorem complete_thread_eq_alone_once (init : D → Nat → V) (stepP : D → S → Op → Prog V (S × Out)) (d : D)
    (sys : Sys (Cells V) S Op) (hc : Consistent (init d) sys.dict)
    (sched : List Nat) (i : Nat) (s : S) (ops : List Op)
    (hs : sys.states[i]? = some s) (hp : sys.pending[i]? = some ops)
    (hdone : (run (onceStep init stepP d) sys sched).1.pending[i]? = some []) :
    outputsOf i (run (onceStep init stepP d) sys sched).2 = aloneG (onceStep init stepP d) Cells.empty s ops := by
  obtain ⟨s', ops', _, h2, h3⟩ := interleaving_independent_once init stepP d sys hc sched i s ops hs hp
  rw [hdone] at h2
  have : ops' = [] := (Option.some.inj h2).symm
  subst this
  simpa [aloneG] using h3

/-- **What the cells hold when all threads are done**: cell `x` is initialised iff it was at the start or some
thread's operations (performed alone) ask for it, and then it holds `init d x` — nothing in this description
mentions the schedule. -/
theorem final_cells_spec (init : D → Nat → V) (stepP : D → S → Op → Prog V (S × Out)) (d : D)
    (sys : Sys (Cells V) S Op) (hc : Consistent (init d) sys.dict) (sched : List Nat)
    (hdone : ∀ (i : Nat) (ops : List Op), (run (onceStep init stepP d) sys sched).1.pending[i]? = some ops → ops = [])
    (x : Nat) (v : V) :
    (run (onceStep init stepP d) sys sched).1.dict x = some v ↔
      v = init d x ∧ ((sys.dict x).isSome ∨ ∃ (i : Nat) (s : S) (ops : List Op), sys.states[i]? = some s ∧
        sys.pending[i]? = some ops ∧ x ∈ touchedAlone init stepP d s ops) := by
  obtain ⟨hcons, hdue⟩ := run_due init stepP d sched sys hc x
  have hfin : Due init stepP d (run (onceStep init stepP d) sys sched).1 x ↔
      ((run (onceStep init stepP d) sys sched).1.dict x).isSome := by
    unfold Due
    constructor
    · rintro (h | ⟨i, s, ops, _, hp, hx⟩)
      · exact h
      · have := hdone i ops hp
        subst this
        simp [touchedAlone] at hx
    · intro h; exact Or.inl h
  constructor
  · intro hv
    refine ⟨hcons x v hv, ?_⟩
    have : Due init stepP d sys x := hdue.mp (hfin.mpr (by simp [hv]))
    exact this
  · rintro ⟨hv, hd⟩
    have h1 : ((run (onceStep init stepP d) sys sched).1.dict x).isSome := hfin.mp (hdue.mpr hd)
    cases hx : (run (onceStep init stepP d) sys sched).1.dict x with
    | none => simp [hx] at h1
    | some w => rw [hcons x w hx, hv]

/-- **The final cell contents are schedule-independent**: two schedules that both let every thread finish
leave the same cells. -/
theorem cells_schedule_independent (init : D → Nat → V) (stepP : D → S → Op → Prog V (S × Out)) (d : D)
    (sys : Sys (Cells V) S Op) (hc : Consistent (init d) sys.dict) (sched1 sched2 : List Nat)
    (h1 : ∀ (i : Nat) (ops : List Op), (run (onceStep init stepP d) sys sched1).1.pending[i]? = some ops → ops = [])
    (h2 : ∀ (i : Nat) (ops : List Op), (run (onceStep init stepP d) sys sched2).1.pending[i]? = some ops → ops = []) :
    (run (onceStep init stepP d) sys sched1).1.dict = (run (onceStep init stepP d) sys sched2).1.dict := by
  funext x
  have a := final_cells_spec init stepP d sys hc sched1 h1 x
  have b := final_cells_spec init stepP d sys hc sched2 h2 x
  cases hx : (run (onceStep init stepP d) sys sched1).1.dict x with
  | some v => exact ((b v).mpr ((a v).mp hx)).symm
  | none =>
    cases hy : (run (onceStep init stepP d) sys sched2).1.dict x with
    | none => rfl
    | some w => have := (a w).mpr ((b w).mp hy); rw [hx] at this; exact absurd this (by simp)

/-- the shared state only grows: a cell that is initialised keeps its content under every schedule (and the
dictionary cannot change at all: a once-cell step has no way to return one) -/
theorem cells_monotone (init : D → Nat → V) (stepP : D → S → Op → Prog V (S × Out)) (d : D)
    (sys : Sys (Cells V) S Op) (hc : Consistent (init d) sys.dict) (sched : List Nat) (x : Nat) (v : V)
    (hx : sys.dict x = some v) : (run (onceStep init stepP d) sys sched).1.dict x = some v :=
  run_cells_monotone init stepP d sched sys hc x v hx

/-- the old theorems are the case without cells: a step that asks for no cell satisfies the frame hypothesis
(for the cell map as the shared component), so `interleaving_independent`, `complete_thread_eq_alone` and
`dictionary_unchanged` apply to it as they stand -/
theorem no_cells_is_frame (init : D → Nat → V) (f : D → S → Op → S × Out) (d : D) (cs : Cells V) (s : S) (op : Op) :
    (onceStep init (fun d s op => Prog.ret (f d s op)) d cs s op).1 = cs := rfl

/-! ### the hypothesis is necessary: genuinely shared-mutable cells break independence -/

/-- atomic accesses of a one-entry memo made of TWO shared words (key, info), as in `seeded/C18a`:
`lookup c = [probe c, fillInfo c, fillKey c, result c]` -/
inductive MemoOp where
  | probe (c : Nat) | fillInfo (c : Nat) | fillKey (c : Nat) | result (c : Nat)
  deriving DecidableEq

/-- the definition of category `c` (what the hash map holds) -/
def memoTable (c : Nat) : Nat := 10 * c

/-- shared = (key, info); private = "the probe hit"; output 0 = none yet -/
def memoStep (g : Nat × Nat) (hit : Bool) : MemoOp → (Nat × Nat) × Bool × Nat
  | .probe c => (g, g.1 == c, 0)
  | .fillInfo c => if hit then (g, hit, 0) else ((g.1, memoTable c), hit, 0)
  | .fillKey c => if hit then (g, hit, 0) else ((c, g.2), hit, 0)
  | .result c => (g, hit, if hit then g.2 else memoTable c)

def memoLookup (c : Nat) : List MemoOp := [.probe c, .fillInfo c, .fillKey c, .result c]

/-- empty memo; thread 0 looks category 1 up twice, thread 1 looks category 2 up once -/
def memoSys : Sys (Nat × Nat) Bool MemoOp :=
  { dict := (0, 0), states := [false, false], pending := [memoLookup 1 ++ memoLookup 1, memoLookup 2] }

def memoSched : List Nat := [0, 0, 1, 1, 1, 0, 0, 0, 0, 0, 0, 1]

/-- **Torn two-word memo (seeded change C18a).**  Thread 0 looks category 1 up twice, thread 1 looks category 2
up once.  Alone, each lookup returns the category's own definition.  Under the schedule
`0.probe 0.fillInfo 1.probe 1.fillInfo 1.fillKey 0.fillKey …` the memo holds key 1 with the definition of 2,
and thread 0's second lookup returns 20 instead of 10: a step that writes shared state outside the once-cell
discipline breaks `interleaving_independent`, so its hypothesis cannot be dropped. -/
theorem torn_memo_counterexample :
    aloneG memoStep (0, 0) false (memoLookup 1 ++ memoLookup 1) = [0, 0, 0, 10, 0, 0, 0, 10] ∧
    aloneG memoStep (0, 0) false (memoLookup 2) = [0, 0, 0, 20] ∧
    outputsOf 0 (run memoStep memoSys memoSched).2 = [0, 0, 0, 10, 0, 0, 0, 20] ∧
    (run memoStep memoSys memoSched).1.pending = [[], []] ∧
    outputsOf 0 (run memoStep memoSys memoSched).2 ≠ aloneG memoStep (0, 0) false (memoLookup 1 ++ memoLookup 1) := by
  decide

/-- consequently NO invariant of the shared memo makes it harmless: there is no set `I` containing the empty
memo that the steps preserve and inside which private state and output do not depend on the memo -/
theorem torn_memo_admits_no_invariant :
    ¬ ∃ I : Nat × Nat → Prop, I (0, 0) ∧ (∀ g s op, I g → I (memoStep g s op).1) ∧
      (∀ g g' s op, I g → I g' → (memoStep g s op).2 = (memoStep g' s op).2) := by
  rintro ⟨I, h0, hI, hins⟩
  obtain ⟨_, _, _, hdone, hne⟩ := torn_memo_counterexample
  obtain ⟨s', ops', _, h2, h3, _⟩ := interleaving_independent_mono memoStep I hI hins
    memoSys (0, 0) h0 h0 memoSched 0 false (memoLookup 1 ++ memoLookup 1) rfl rfl
  rw [hdone] at h2
  have : ops' = [] := by simpa using h2.symm
  subst this
  simp only [aloneG, List.append_nil] at h3
  exact hne h3

/-- operations on a match state kept in the shared plugin behind a lock that is taken twice per match, as in
`seeded/C18b`: `find t` stores the offsets of the match in `t`, `reading` reads "the current match" -/
inductive MatchOp where
  | find (t : Nat) | reading

def matchStep (g : Nat) (s : Unit) : MatchOp → Nat × Unit × Nat
  | .find t => (t, s, 0)
  | .reading => (g, s, g)

/-- **Two critical sections, one shared match state (seeded change C18b).**  Thread 0 searches its text (match
at 5) and then reads the match; thread 1 searches its own text (match at 7) in between: thread 0 deletes the
range of thread 1's reading.  Each step is atomic (the lock is held), the interleaving of steps is what hurts. -/
theorem two_lock_state_counterexample :
    let sys : Sys Nat Unit MatchOp := { dict := 0, states := [(), ()], pending := [[.find 5, .reading], [.find 7]] }
    aloneG matchStep 0 () [.find 5, .reading] = [0, 5] ∧
    outputsOf 0 (run matchStep sys [0, 1, 0]).2 = [0, 7] ∧
    outputsOf 0 (run matchStep sys [0, 1, 0]).2 ≠ aloneG matchStep 0 () [.find 5, .reading] := by
  decide

/-- non-vacuity of the once-cell hypotheses: two threads race on cell 3 (whoever comes first initialises it
with `init d 3 = d + 3`), both read `103`; thread 1 also asks for cell 4.  `Consistent` holds of the empty
cells and of partly initialised ones; both complete schedules leave cells 3 and 4 initialised, nothing else. -/
example :
    let init : Nat → Nat → Nat := fun d c => d + c
    let stepP : Nat → Nat → Nat → Prog Nat (Nat × Nat) := fun _ s op =>
      .getOrInit 3 (fun v => if op = 0 then .ret (s + 1, v + s) else .getOrInit 4 (fun w => .ret (s + 1, v + w)))
    let sys : Sys (Cells Nat) Nat Nat := { dict := Cells.empty, states := [0, 0], pending := [[0, 0], [1]] }
    Consistent (init 100) sys.dict ∧
    Consistent (init 100) (Cells.empty.set 3 103) ∧
    (run (onceStep init stepP 100) sys [0, 1, 0]).2 = [(0, 103), (1, 207), (0, 104)] ∧
    (run (onceStep init stepP 100) sys [1, 0, 0]).2 = [(1, 207), (0, 103), (0, 104)] ∧
    initLog 8 (onceStep init stepP 100) sys [0, 1, 0] = [(3, 0), (4, 1)] ∧
    initLog 8 (onceStep init stepP 100) sys [1, 0, 0] = [(3, 1), (4, 1)] ∧
    (∀ (i : Nat) (ops : List Nat), (run (onceStep init stepP 100) sys [0, 1, 0]).1.pending[i]? = some ops → ops = []) ∧
    ((List.range 8).map (run (onceStep init stepP 100) sys [0, 1, 0]).1.dict
      = [none, none, none, some 103, some 104, none, none, none]) ∧
    outputsOf 0 (run (onceStep init stepP 100) sys [0, 1, 0]).2 = aloneG (onceStep init stepP 100) Cells.empty 0 [0, 0] := by
  refine ⟨consistent_empty _, consistent_set _ _ 3 (consistent_empty _), by decide, by decide, by decide, by decide, ?_, by decide, by decide⟩
  intro i ops h
  have hp : (run (onceStep (fun d c => d + c) (fun _ s op =>
      Prog.getOrInit 3 (fun v => if op = 0 then Prog.ret (s + 1, v + s) else Prog.getOrInit 4 (fun w => Prog.ret (s + 1, v + w))))
      100) { dict := Cells.empty, states := [0, 0], pending := [[0, 0], [1]] } [0, 1, 0]).1.pending = [[], []] := by decide
  rw [hp] at h
  match i, h with
  | 0, h => simpa using h.symm
  | 1, h => simpa using h.symm
  | (n + 2), h => simp at h

/-- non-vacuity of the monotone hypotheses with a shared component that really changes: a shared counter of
steps that no output looks at (`I := True`) -/
example :
    let step : Nat → Nat → Nat → Nat × Nat × Nat := fun g s op => (g + 1, s + op, s + op)
    (∀ (_g _s _op : Nat), True → True) ∧ (∀ (g g' s op : Nat), True → True → (step g s op).2 = (step g' s op).2) ∧
    (run step { dict := 0, states := [0, 0], pending := [[1, 2], [5]] } [0, 1, 0]).1.dict = 3 := by
  refine ⟨fun _ _ _ h => h, fun _ _ _ _ _ _ => rfl, by decide⟩

end C18
