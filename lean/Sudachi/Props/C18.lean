import Sudachi.Proofs.Sched
/-!
# C18 — One loaded dictionary can be shared by concurrent tokenizers   (PARTIAL)

Model: `Sched.run` — N threads, each with a private tokenizer state and a list of operations, over
one dictionary value; a schedule is any sequence of thread numbers.  The theorems hold for every
step function that satisfies the *frame hypothesis* `hframe`: a step leaves the dictionary as it found it
(it may read the dictionary and read/write only the state of its own thread — the latter is built into
the type of `step`).

What the theorems cannot carry: whether the Rust code really satisfies the frame hypothesis — lazily
initialised statics, `CowArray::set`, the lifetime-erased slices, the GIL release in the Python
binding.  That part is exercised by the multi-threaded runs of the check (each thread's trace under
real OS schedules vs the sequential baseline, dictionary fingerprint before = after, compile-time
`Send + Sync`), never proved: a data race inside `unsafe` code that does not change results is invisible.
-/
namespace C18
open Sched

variable {D S Op Out : Type}

/-- **Every interleaving gives each thread what it gets alone.**  For every schedule, every thread
`i`: the outputs `i` has produced, followed by the outputs of its remaining operations performed alone
from its current state, are the outputs of all its operations performed alone. -/
theorem interleaving_independent (step : D → S → Op → D × S × Out) (hframe : ∀ d s op, (step d s op).1 = d)
    (sys : Sys D S Op) (sched : List Nat) (i : Nat) (s : S) (ops : List Op)
    (hs : sys.states[i]? = some s) (hp : sys.pending[i]? = some ops) :
    ∃ s' ops', (run step sys sched).1.states[i]? = some s' ∧ (run step sys sched).1.pending[i]? = some ops' ∧
      outputsOf i (run step sys sched).2 ++ alone step sys.dict s' ops' = alone step sys.dict s ops :=
  let ⟨s', ops', h1, h2, h3, _⟩ := run_invariant step hframe sched sys i s ops hs hp
  ⟨s', ops', h1, h2, h3⟩

/-- in particular, once a thread has performed all its operations its outputs are exactly those of a
single-threaded run -/
theorem complete_thread_eq_alone (step : D → S → Op → D × S × Out) (hframe : ∀ d s op, (step d s op).1 = d)
    (sys : Sys D S Op) (sched : List Nat) (i : Nat) (s : S) (ops : List Op)
    (hs : sys.states[i]? = some s) (hp : sys.pending[i]? = some ops)
    (hdone : (run step sys sched).1.pending[i]? = some []) :
    outputsOf i (run step sys sched).2 = alone step sys.dict s ops := by
  obtain ⟨s', ops', _, h2, h3⟩ := interleaving_independent step hframe sys sched i s ops hs hp
  rw [hdone] at h2
  have : ops' = [] := (Option.some.inj h2).symm
  subst this
  simpa [alone] using h3

/-- **The dictionary is never modified**: under the frame hypothesis it is the same after any schedule -/
theorem dictionary_unchanged (step : D → S → Op → D × S × Out) (hframe : ∀ d s op, (step d s op).1 = d) :
    ∀ (sched : List Nat) (sys : Sys D S Op), (run step sys sched).1.dict = sys.dict := by
  intro sched
  induction sched with
  | nil => intro sys; rfl
  | cons j rest ih =>
    intro sys
    simp only [run]
    have : (stepThread step sys j).1.dict = sys.dict := by
      unfold stepThread
      split <;> simp [hframe]
    rw [ih, this]

/-- non-vacuity: two threads, three operations, an interleaved schedule; a step that reads the
dictionary (adds it) and counts in its private state satisfies the frame hypothesis -/
example :
    let step : Nat → Nat → Nat → Nat × Nat × Nat := fun d s op => (d, s + 1, d + s + op)
    let sys : Sys Nat Nat Nat := { dict := 100, states := [0, 10], pending := [[1, 2], [5]] }
    (∀ d s op, (step d s op).1 = d) ∧
    (run step sys [0, 1, 0]).2 = [(0, 101), (1, 115), (0, 103)] ∧
    outputsOf 0 (run step sys [0, 1, 0]).2 = alone step 100 0 [1, 2] := by
  refine ⟨fun _ _ _ => rfl, by decide, by decide⟩

end C18
