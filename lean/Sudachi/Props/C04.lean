import Sudachi.Proofs.Trie
/-!
# C04 — Dictionary lookup returns exactly the entries that prefix-match the text

Model: `Sudachi/Model/Trie.lean` (double-array traversal of `trie.rs`, packed word-id table of
`word_id_table.rs`, `Lexicon::parse/lookup`, `LexiconSet::new/append/lookup`, the index builder of
`build/index.rs` + `write_index`, `MorphemeList::lookup`).

The double-array *builder* (`yada`) is external.  Universality over texts and offsets is by proof;
universality over lexicons is obtained by running the proved checker `checkTrie` in the driver on
every array the real builder produced in a run (`Compiled` below is exactly what the driver
evaluates for every lexicon: `tbl=1` and `chk=1` in the answer line).

**The unchanged code violates the property for texts that contain a NUL byte**
(`nul_skipped_counterexample`): byte 0 is the double array's terminator label, an unused unit is
all-zero, so `label(unit) == 0` matches and `offset(unit) == 0` keeps the state — the NUL byte is
skipped.  Every theorem about texts therefore carries the hypothesis `NoNul text` (all bytes in
1..255) and is named `…_partial`; the full statements (all byte strings) are false.
-/
namespace C04
open Trie

/-! ### (1) the proved checker -/

/-- Clause "exactly the entries whose key is a prefix of the text at that offset, with the correct
end offset" at the level of the trie.  Full statement: for every `text` with bytes < 256.  Proved:
for every NUL-free text (bytes 1..255) and EVERY offset (also offsets inside characters and beyond
the end): if the checker accepts the array for the `(key, value)` list, the traversal the Rust
iterator performs yields, in order of increasing length, exactly `(value, off + l)` for every
length `l ≥ 1` such that the first `l` bytes at `off` are a key — and it neither panics nor reads
outside the array. -/
theorem trie_traversal_partial (g : Bool) (a : Arr) (keys : List (List Nat × Nat))
    (h : checkTrie a keys = true) (text : List Nat) (off : Nat) (hn : NoNul text) :
    commonPrefix g a text off = some (specFlat keys off (text.drop off)) :=
  checkTrie_sound g a keys h text off hn

/-- The full statement of the same clause holds for the *repaired* variant of the loop (model
instance `g = true`: `if *k == 0 { return None; }` in front of the array access — the candidate
repair of finding N1, applied only in a scratch worktree): for EVERY byte string and every offset,
provided no key contains a NUL byte (the builder cannot index such keys). -/
theorem trie_traversal_repaired (a : Arr) (keys : List (List Nat × Nat))
    (h : checkTrie a keys = true) (hk : KeysNoNul keys) (text : List Nat) (off : Nat)
    (hn : ∀ b ∈ text, b < 256) :
    commonPrefix true a text off = some (specFlat keys off (text.drop off)) :=
  checkTrie_sound_guard a keys h hk text off hn

/-- `specFlat` is the naive prefix scan: `(v, e)` is reported iff some key (the first row of
`keys` carrying that key) is a non-empty prefix of the text, `v` is its value and `e` its end. -/
theorem trie_spec_is_prefix_scan (keys : List (List Nat × Nat)) (i : Nat) (t : List Nat) (v e : Nat) :
    (v, e) ∈ specFlat keys i t ↔
      ∃ kv, keys.find? (fun x => x.1 == kv.1) = some kv ∧ kv.1 ≠ [] ∧ kv.1 <+: t ∧
        v = kv.2 ∧ e = i + kv.1.length := by
  simp only [specFlat, List.mem_filterMap, List.mem_range, Option.map_eq_some_iff, Prod.mk.injEq]
  constructor
  · rintro ⟨l, hl, kv, hf, rfl, rfl⟩
    have hk : kv.1 = t.take (l+1) := by simpa using List.find?_some hf
    have hlen : kv.1.length = l + 1 := by rw [hk, List.length_take]; omega
    refine ⟨kv, by rw [hk]; exact hf, ?_, ?_, rfl, by omega⟩
    · intro h0; rw [h0] at hlen; simp at hlen
    · rw [hk]; exact List.take_prefix _ _
  · rintro ⟨kv, hf, hne, hp, rfl, rfl⟩
    have hpos : 0 < kv.1.length := List.length_pos_iff.mpr hne
    have hle := hp.length_le
    refine ⟨kv.1.length - 1, by omega, kv, ?_, rfl, by omega⟩
    rw [show kv.1.length - 1 + 1 = kv.1.length by omega, ← List.prefix_iff_eq_take.mp hp]
    exact hf

/-! ### (2) the packed word-id table -/

/-- `widTable_roundtrip`: wherever a record `count, id₀ … idₙ₋₁` (little-endian, unaligned) written
by `write_u32_array` lies in a buffer — any preceding bytes, any following bytes, any table offset
`base`, any list of 32-bit ids — `WordIdTable::entries` at its offset returns exactly the ids. -/
theorem widTable_roundtrip (b : Arr) (pre post ids : List Nat) (base idx : Nat)
    (hb : b.toList = pre ++ record ids ++ post) (hp : pre.length = idx + base)
    (hlt : ∀ x ∈ ids, x < 4294967296) :
    entries b base idx = some ids := by
  apply entries_holds _ hlt
  rw [← hp]
  exact holds_of_toList hb

/-! ### (3) the index builder -/

/-- `IndexBuilder::add` over the rows in order groups, per key, exactly the row numbers of the
indexed rows (`left_id ≥ 0`) with that surface, in row order. -/
theorem index_groups (es : List Entry) (g : Groups) (h : buildIndex es = some g)
    (hs : es.length ≤ 268435456) (key : List Nat) (i : Nat) :
    i ∈ idsOf g key ↔ ∃ en, es[i]? = some en ∧ 0 ≤ en.left ∧ en.key = key := by
  rw [buildIndex_idsOf es g h hs key, mem_idsFrom]
  simp [shouldIndex]

/-- every trie value is the offset of the record of its key: what `build_word_id_table` +
`build_trie` hand to the external builder -/
theorem table_offsets (es : List Entry) (t : List Nat) (ents : List (List Nat × Nat))
    (h : buildTable es = some (t, ents)) (hs : es.length ≤ 268435456) (kv : List Nat × Nat)
    (hf : ents.find? (fun x => x.1 == kv.1) = some kv) :
    ∃ pre post, t = pre ++ record (idsFrom 0 es kv.1) ++ post ∧ kv.2 = pre.length ∧
      (idsFrom 0 es kv.1).length ≤ 127 := by
  unfold buildTable at h
  cases hg : buildIndex es with
  | none => simp [hg] at h
  | some g =>
    simp only [hg] at h
    have := tableFrom_find kv.1 g 0 t ents h
    simp only [hf] at this
    obtain ⟨ids, pre, post, h1, h2, h3, h4⟩ := this
    have hids : ids = idsFrom 0 es kv.1 := by
      rw [← buildIndex_idsOf es g hg hs kv.1]; simp [idsOf, h1]
    subst hids
    exact ⟨pre, post, h2, by omega, h4⟩

/-! ### (4) `lookup_spec`: the layered lexicon set -/

/-- a lexicon as parsed, before `LexiconSet` assigns its dictionary number -/
structure CompiledRaw (es : List Entry) (lx : Lex) : Prop where
  small : es.length ≤ 268435456
  built : ∃ t ents, buildTable es = some (t, ents) ∧ Holds lx.buf lx.tblOff t ∧
    checkTrie lx.trie ents = true

theorem mkSet_spec (ws : List (List Entry × Lex)) (set : List Lex)
    (h : mkSet (ws.map (·.2)) = some set) (hc : ∀ x ∈ ws, CompiledRaw x.1 x.2) :
    ∃ ws' : List (List Entry × Lex), ws'.map (·.2) = set ∧ ws'.map (·.1) = ws.map (·.1) ∧
      ∀ (j : Nat) (hj : j < ws'.length), Compiled ws'[j].1 ws'[j].2 (0 + j) := by
  unfold mkSet at h
  split at h
  · cases h
  · rename_i hlen
    simp only [List.length_map, Nat.not_lt] at hlen
    simp only [Option.some.injEq] at h
    refine ⟨ws.zipIdx.map (fun x => (x.1.1, { x.1.2 with lexId := x.2 })), ?_, ?_, ?_⟩
    · rw [← h]
      apply List.ext_getElem?
      intro j
      simp [List.getElem?_zipIdx, List.getElem?_map]
      cases ws[j]? <;> simp
    · apply List.ext_getElem?
      intro j
      simp [List.getElem?_zipIdx, List.getElem?_map]
      cases ws[j]? <;> simp
    · intro j hj
      have hj' : j < ws.length := by simpa using hj
      have hx := hc ws[j] (List.getElem_mem hj')
      simp only [MAX_DICTIONARIES] at hlen
      simp only [List.getElem_map, List.getElem_zipIdx, Nat.zero_add]
      exact ⟨hx.small, by omega, rfl, hx.built⟩

/-- **lookup_spec.**  Full statement: for every stack of 1..15 source lists compiled into
lexicons, every byte string `text` and every offset.  Proved: the same for every NUL-free text.
`LexiconSet::lookup` (dictionary numbers assigned by `LexiconSet::new/append`) returns exactly
the naive scan of the sources, as a list: layers from the last to the first, within a layer by
increasing key length, within a key in row order; each element is
`(dictionary number · 2²⁸ + row number, off + key length)`.  No panic, no read outside a buffer. -/
theorem lookup_spec_partial (g : Bool) (ws : List (List Entry × Lex)) (set : List Lex)
    (hset : mkSet (ws.map (·.2)) = some set) (hc : ∀ x ∈ ws, CompiledRaw x.1 x.2)
    (text : List Nat) (off : Nat) (hn : NoNul text) :
    setLookup g set text off = some (specSetFrom 0 (ws.map (·.1)) off (text.drop off)) := by
  obtain ⟨ws', h1, h2, h3⟩ := mkSet_spec ws set hset hc
  rw [← h1, ← h2]
  exact setFrom_spec g text off hn ws' 0 h3

/-- **exactly those entries, each exactly once, nothing else** (same hypotheses): the result has
no duplicates, and `(w, e)` is in it iff `w = d · 2²⁸ + i` for a dictionary `d` and a row `i` of
its source that is indexed (`left ≥ 0`), whose (non-empty) surface is a prefix of the text at
`off`, and `e = off + ` the surface's byte length. -/
theorem lookup_exact_entries_partial (g : Bool) (ws : List (List Entry × Lex)) (set : List Lex)
    (hset : mkSet (ws.map (·.2)) = some set) (hc : ∀ x ∈ ws, CompiledRaw x.1 x.2)
    (text : List Nat) (off : Nat) (hn : NoNul text) :
    ∃ r, setLookup g set text off = some r ∧ r.Nodup ∧
      ∀ w e, (w, e) ∈ r ↔
        ∃ d es i en, (ws.map (·.1))[d]? = some es ∧ es[i]? = some en ∧ 0 ≤ en.left ∧
          en.key ≠ [] ∧ en.key <+: text.drop off ∧ e = off + en.key.length ∧
          w = d * 268435456 + i := by
  refine ⟨_, lookup_spec_partial g ws set hset hc text off hn, ?_, ?_⟩
  · apply specSetFrom_nodup
    intro es hes
    obtain ⟨x, hx, rfl⟩ := List.mem_map.mp hes
    exact (hc x hx).small
  · intro w e
    rw [mem_specSetFrom]
    constructor
    · rintro ⟨d, es, h1, h2⟩
      obtain ⟨i, en, h3, h4, h5, h6, h7, h8⟩ := (mem_specLex _ _ _ _ _ _).mp h2
      exact ⟨d, es, i, en, h1, h3, by simpa [shouldIndex] using h4, h5, h6, h7, by simpa using h8⟩
    · rintro ⟨d, es, i, en, h1, h3, h4, h5, h6, h7, h8⟩
      exact ⟨d, es, h1, (mem_specLex _ _ _ _ _ _).mpr
        ⟨i, en, h3, by simpa [shouldIndex] using h4, h5, h6, h7, by simpa using h8⟩⟩

/-- **non-indexed rows are never returned**: a returned id never names a row with negative left id -/
theorem non_indexed_never_returned_partial (g : Bool) (ws : List (List Entry × Lex)) (set : List Lex)
    (hset : mkSet (ws.map (·.2)) = some set) (hc : ∀ x ∈ ws, CompiledRaw x.1 x.2)
    (text : List Nat) (off : Nat) (hn : NoNul text) (r : List (Nat × Nat))
    (hr : setLookup g set text off = some r) (d i e : Nat) (es : List Entry) (en : Entry)
    (hd : (ws.map (·.1))[d]? = some es) (hi : es[i]? = some en) (hneg : en.left < 0) :
    (d * 268435456 + i, e) ∉ r := by
  obtain ⟨r', h1, _, h3⟩ := lookup_exact_entries_partial g ws set hset hc text off hn
  rw [hr] at h1
  cases h1
  intro hmem
  obtain ⟨d', es', i', en', g1, g2, g3, _, _, _, g7⟩ := (h3 _ _).mp hmem
  have hes : es.length ≤ 268435456 := by
    obtain ⟨x, hx, rfl⟩ := List.mem_map.mp (List.mem_of_getElem? hd)
    exact (hc x hx).small
  have hes' : es'.length ≤ 268435456 := by
    obtain ⟨x, hx, rfl⟩ := List.mem_map.mp (List.mem_of_getElem? g1)
    exact (hc x hx).small
  have b1 := (List.getElem?_eq_some_iff.mp hi).1
  have b2 := (List.getElem?_eq_some_iff.mp g2).1
  have hdd : d = d' := by omega
  subst hdd
  have hii : i = i' := by omega
  subst hii
  rw [hd] at g1; cases g1
  rw [hi] at g2; cases g2
  omega

/-- the dictionary number and the row number are recoverable from a reported id
(`WordId::dic`, `WordId::word`) -/
theorem word_id_decodes (d i : Nat) (hi : i < 268435456) :
    (d * 268435456 + i) / 268435456 = d ∧ (d * 268435456 + i) % 268435456 = i := by
  constructor <;> omega

/-- **exact-surface lookup** (`MorphemeList::lookup`).  Full statement: every query.  Proved: every
NUL-free query.  The result has no duplicates and contains `(w, e)` iff `e` is the query's length
and `w` names an indexed row whose surface equals the query. -/
theorem exact_lookup_spec_partial (g : Bool) (ws : List (List Entry × Lex)) (set : List Lex)
    (hset : mkSet (ws.map (·.2)) = some set) (hc : ∀ x ∈ ws, CompiledRaw x.1 x.2)
    (q : List Nat) (hn : NoNul q) :
    ∃ r, exactLookup g set q = some r ∧ r.Nodup ∧
      ∀ w e, (w, e) ∈ r ↔
        e = q.length ∧ q ≠ [] ∧ ∃ d es i en, (ws.map (·.1))[d]? = some es ∧ es[i]? = some en ∧
          0 ≤ en.left ∧ en.key = q ∧ w = d * 268435456 + i := by
  obtain ⟨r, h1, h2, h3⟩ := lookup_exact_entries_partial g ws set hset hc q 0 hn
  refine ⟨r.filter (fun we => we.2 == q.length), by simp [exactLookup, h1], h2.filter _, ?_⟩
  intro w e
  simp only [List.mem_filter, h3, List.drop_zero, beq_iff_eq, Nat.zero_add]
  constructor
  · rintro ⟨⟨d, es, i, en, g1, g2, g3, g4, g5, g6, g7⟩, g8⟩
    have hk : en.key = q := g5.eq_of_length (by omega)
    refine ⟨g8, by rw [← hk]; exact g4, d, es, i, en, g1, g2, g3, hk, g7⟩
  · rintro ⟨g8, g9, d, es, i, en, g1, g2, g3, rfl, g7⟩
    exact ⟨⟨d, es, i, en, g1, g2, g3, g9, List.prefix_refl _, g8, g7⟩, g8⟩

/-! ### (5) the violation: NUL bytes are skipped -/

/-- the double array the real builder (`yada` 0.5 via `DictBuilder`) produced for the single key
`a` with value 0 (harness case 0 of every run, 256 units) -/
def arrA : Arr := #[98304, 3425, 2147483648, 0, 0, 0, 0, 0, 0, 0, 0, 0, 0, 0, 0, 0, 0, 0, 0, 0, 0, 0, 0, 0, 0, 0, 0, 0, 0, 0, 0, 0, 0, 0, 0, 0, 0, 0, 0, 0, 0, 0, 0, 0, 0, 0, 0, 0, 0, 0, 0, 0, 0, 0, 0, 0, 0, 0, 0, 0, 0, 0, 0, 0, 0, 0, 0, 0, 0, 0, 0, 0, 0, 0, 0, 0, 0, 0, 0, 0, 0, 0, 0, 0, 0, 0, 0, 0, 0, 0, 0, 0, 0, 0, 0, 0, 0, 0, 0, 0, 0, 0, 0, 0, 0, 0, 0, 0, 0, 0, 0, 0, 0, 0, 0, 0, 0, 0, 0, 0, 0, 0, 0, 0, 0, 0, 0, 0, 0, 0, 0, 0, 0, 0, 0, 0, 0, 0, 0, 0, 0, 0, 0, 0, 0, 0, 0, 0, 0, 0, 0, 0, 0, 0, 0, 0, 0, 0, 0, 0, 0, 0, 0, 0, 0, 0, 0, 0, 0, 0, 0, 0, 0, 0, 0, 0, 0, 0, 0, 0, 0, 0, 0, 0, 0, 0, 0, 0, 0, 0, 0, 0, 0, 0, 0, 0, 0, 0, 0, 0, 0, 0, 0, 0, 0, 0, 0, 0, 0, 0, 0, 0, 0, 0, 0, 0, 0, 0, 0, 0, 0, 0, 0, 0, 0, 0, 0, 0, 0, 0, 0, 0, 0, 0, 0, 0, 0, 0, 0, 0, 0, 0, 0, 0, 0, 0, 0, 0, 0, 0, 0, 0, 0, 0, 0, 0]

/-- the array is a correct double array for `{a ↦ 0}` on bytes 1..255 (checker accepts) -/
theorem arrA_checked : checkTrie arrA [([97], 0)] = true := by decide +kernel

/-- **Counterexample to the full statement** (finding N1).  On the array the real builder produced
for the key set `{a}`, which the checker accepts, looking up the text `\0a` at offset 0 reports the
entry `a` with end 2 although no key is a prefix of `\0a` (the specification is empty); with the
key `bc` the same happens inside a key (`b\0c`, see the harness's directed world `nul`). -/
theorem nul_skipped_counterexample :
    checkTrie arrA [([97], 0)] = true ∧
    commonPrefix false arrA [0, 97] 0 = some [(0, 2)] ∧
    specFlat [([97], 0)] 0 [0, 97] = [] ∧
    ¬ NoNul [0, 97] := by
  refine ⟨arrA_checked, by decide +kernel, by decide, ?_⟩
  intro h
  have := h 0 (by simp)
  omega

/-- the same array, the same text, the repaired variant: nothing is reported -/
theorem nul_guarded_example :
    KeysNoNul [([97], 0)] ∧ commonPrefix true arrA [0, 97] 0 = some [] ∧
    commonPrefix true arrA [0, 97] 1 = some [(0, 2)] := by
  refine ⟨?_, by decide +kernel, by decide +kernel⟩
  intro kv hkv
  simp at hkv
  subst hkv
  simp

/-! ### non-vacuity -/

/-- a lexicon with the trie of harness case 0 (source: one row `a,0,0,…`) and its word-id table
`01 00 00 00 00` placed at offset 2 of a small buffer -/
def lexA : Lex := { trie := arrA, buf := #[7, 7, 1, 0, 0, 0, 0, 9], tblSize := 5, tblOff := 2, lexId := 255 }

/-- `CompiledRaw` is satisfiable (so are `Compiled`, `checkTrie … = true`, `NoNul`), and the
theorems then give the expected answer on a concrete text. -/
example : CompiledRaw [⟨[97], 0⟩] lexA ∧ NoNul [98, 97, 97] ∧
    mkSet [lexA] = some [{ lexA with lexId := 0 }] ∧
    specSetFrom 0 [[⟨[97], 0⟩]] 1 ([98, 97, 97].drop 1) = [(0, 2)] := by
  refine ⟨⟨by decide, [1, 0, 0, 0, 0], [([97], 0)], by decide, ?_, arrA_checked⟩, ?_, rfl, by decide⟩
  · have this : lexA.buf.toList = [7, 7] ++ [1, 0, 0, 0, 0] ++ [9] := rfl
    exact holds_of_toList this
  · intro b hb
    simp at hb
    omega

example : widTable_roundtrip #[9, 2, 1, 0, 0, 0, 0xff, 0xff, 0xff, 0x0f, 7] [9] [7] [1, 0x0fffffff] 0 1
    (by decide) (by decide) (by decide) = (by decide : entries #[9, 2, 1, 0, 0, 0, 0xff, 0xff, 0xff, 0x0f, 7] 0 1 = some [1, 0x0fffffff]) := rfl

end C04
