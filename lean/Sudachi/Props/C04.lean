import Sudachi.Proofs.TrieIndex
/-!
# C04 — Dictionary lookup returns exactly the entries that prefix-match the text

Model: `Sudachi/Model/Trie.lean` (double-array traversal of `trie.rs`, packed word-id table of
`word_id_table.rs`, `Lexicon::parse/lookup`, `LexiconSet::new/append/lookup`, the index builder of
`build/index.rs` + `write_index`, `MorphemeList::lookup`).

The double-array *builder* (`yada`) is external.  Universality over texts and offsets is by proof;
universality over lexicons is obtained by running the proved checker `checkTrie` in the driver on
every array the real builder produced in a run (`Compiled` below is exactly what the driver
evaluates for every lexicon: `tbl=1` and `chk=1` in the answer line).

History of the NUL clause.  As first pinned the loop of `TrieEntryIter::next` followed a NUL byte
of the text as a transition of the double array (`nul_skipped_counterexample`, finding N1): byte 0
is the array's terminator label, an unused unit is all-zero, so `label(unit) == 0` matches and
`offset(unit) == 0` keeps the state — the NUL byte is skipped.  The repair (`if *k == 0 { return
None; }`, commit 90f9fdf) has landed; the model carries both loops (`g = false` pinned, `g = true`
guarded; the harness probes which one is linked).  Theorems that hold for BOTH loops carry the
hypothesis `NoNul text` and keep the name `…_partial`; next to each stands the FULL statement (every
byte string, every offset) for the guarded loop, under the hypothesis that the rows passed the
reader's surface test (`surfaceOk`: not empty, no U+0000 — `build/lexicon.rs parse_record`, the
other half of the repair), which is part of what the driver evaluates (`compileIndex`).
-/
namespace C04
open Trie

/-! ### (1) the proved checker -/

/-- Clause "exactly the entries whose key is a prefix of the text at that offset, with the correct
end offset" at the level of the trie.  Full statement: for every `text` with bytes < 256.  Proved:
for every NUL-free text (bytes 1..255) and EVERY offset (also offsets inside characters and beyond
the end): if the checker accepts the array for the `(key, value)` list, the traversal the Rust
iterator performs yields, in order of increasing length, exactly `(value, off + l)` for every
length `l ≥ 1` such that the first `l` bytes at `off` are a key — and it neither panics nor reads
outside the array. -/
theorem trie_traversal_partial (g : Bool) (a : Arr) (keys : List (List Nat × Nat))
    (h : checkTrie a keys = true) (text : List Nat) (off : Nat) (hn : NoNul text) :
    commonPrefix g a text off = some (specFlat keys off (text.drop off)) :=
  checkTrie_sound g a keys h text off hn

/-- The full statement of the same clause holds for the *repaired* variant of the loop (model
instance `g = true`: `if *k == 0 { return None; }` in front of the array access — the candidate
repair of finding N1, applied only in a scratch worktree): for EVERY byte string and every offset,
provided no key contains a NUL byte (the builder cannot index such keys). -/
theorem trie_traversal_repaired (a : Arr) (keys : List (List Nat × Nat))
    (h : checkTrie a keys = true) (hk : KeysNoNul keys) (text : List Nat) (off : Nat)
    (hn : ∀ b ∈ text, b < 256) :
    commonPrefix true a text off = some (specFlat keys off (text.drop off)) :=
  checkTrie_sound_guard a keys h hk text off hn

/-- `specFlat` is the naive prefix scan: `(v, e)` is reported iff some key (the first row of
`keys` carrying that key) is a non-empty prefix of the text, `v` is its value and `e` its end. -/
theorem trie_spec_is_prefix_scan (keys : List (List Nat × Nat)) (i : Nat) (t : List Nat) (v e : Nat) :
    (v, e) ∈ specFlat keys i t ↔
      ∃ kv, keys.find? (fun x => x.1 == kv.1) = some kv ∧ kv.1 ≠ [] ∧ kv.1 <+: t ∧
        v = kv.2 ∧ e = i + kv.1.length := by
  simp only [specFlat, List.mem_filterMap, List.mem_range, Option.map_eq_some_iff, Prod.mk.injEq]
  constructor
  · rintro ⟨l, hl, kv, hf, rfl, rfl⟩
    have hk : kv.1 = t.take (l+1) := by simpa using List.find?_some hf
    have hlen : kv.1.length = l + 1 := by rw [hk, List.length_take]; omega
    refine ⟨kv, by rw [hk]; exact hf, ?_, ?_, rfl, by omega⟩
    · intro h0; rw [h0] at hlen; simp at hlen
    · rw [hk]; exact List.take_prefix _ _
  · rintro ⟨kv, hf, hne, hp, rfl, rfl⟩
    have hpos : 0 < kv.1.length := List.length_pos_iff.mpr hne
    have hle := hp.length_le
    refine ⟨kv.1.length - 1, by omega, kv, ?_, rfl, by omega⟩
    rw [show kv.1.length - 1 + 1 = kv.1.length by omega, ← List.prefix_iff_eq_take.mp hp]
    exact hf

/-! ### (2) the packed word-id table -/

/-- `widTable_roundtrip`: wherever a record `count, id₀ … idₙ₋₁` (little-endian, unaligned) written
by `write_u32_array` lies in a buffer — any preceding bytes, any following bytes, any table offset
`base`, any list of 32-bit ids — `WordIdTable::entries` at its offset returns exactly the ids. -/
theorem widTable_roundtrip (b : Arr) (pre post ids : List Nat) (base idx : Nat)
    (hb : b.toList = pre ++ record ids ++ post) (hp : pre.length = idx + base)
    (hlt : ∀ x ∈ ids, x < 4294967296) :
    entries b base idx = some ids := by
  apply entries_holds _ hlt
  rw [← hp]
  exact holds_of_toList hb

/-! ### (3) the index builder -/

/-- `IndexBuilder::add` over the rows in order groups, per key, exactly the row numbers of the
indexed rows (`left_id ≥ 0`) with that surface, in row order. -/
theorem index_groups (es : List Entry) (g : Groups) (h : buildIndex es = some g)
    (hs : es.length ≤ 268435456) (key : List Nat) (i : Nat) :
    i ∈ idsOf g key ↔ ∃ en, es[i]? = some en ∧ 0 ≤ en.left ∧ en.key = key := by
  rw [buildIndex_idsOf es g h hs key, mem_idsFrom]
  simp [shouldIndex]

/-- every trie value is the offset of the record of its key: what `build_word_id_table` +
`build_trie` hand to the external builder -/
theorem table_offsets (es : List Entry) (t : List Nat) (ents : List (List Nat × Nat))
    (h : buildTable es = some (t, ents)) (hs : es.length ≤ 268435456) (kv : List Nat × Nat)
    (hf : ents.find? (fun x => x.1 == kv.1) = some kv) :
    ∃ pre post, t = pre ++ record (idsFrom 0 es kv.1) ++ post ∧ kv.2 = pre.length ∧
      (idsFrom 0 es kv.1).length ≤ 127 := by
  unfold buildTable at h
  cases hg : buildIndex es with
  | none => simp [hg] at h
  | some g =>
    simp only [hg] at h
    have := tableFrom_find kv.1 g 0 t ents h
    simp only [hf] at this
    obtain ⟨ids, pre, post, h1, h2, h3, h4⟩ := this
    have hids : ids = idsFrom 0 es kv.1 := by
      rw [← buildIndex_idsOf es g hg hs kv.1]; simp [idsOf, h1]
    subst hids
    exact ⟨pre, post, h2, by omega, h4⟩

/-! ### (4) `lookup_spec`: the layered lexicon set -/

/-- `LexiconSet::new/append`: lexicon `j` of the stack gets dictionary number `j` (at most 15
lexicons); nothing else of a lexicon changes, so any property `Q` of (rows, double array) is kept. -/
theorem mkSet_spec (Q : List Entry → Arr → Prop) (ws : List (List Entry × Lex)) (set : List Lex)
    (h : mkSet (ws.map (·.2)) = some set) (hc : ∀ x ∈ ws, CompiledRaw x.1 x.2)
    (hq : ∀ x ∈ ws, Q x.1 x.2.trie) :
    ∃ ws' : List (List Entry × Lex), ws'.map (·.2) = set ∧ ws'.map (·.1) = ws.map (·.1) ∧
      (∀ (j : Nat) (hj : j < ws'.length), Compiled ws'[j].1 ws'[j].2 (0 + j)) ∧
      ∀ x ∈ ws', Q x.1 x.2.trie := by
  unfold mkSet at h
  split at h
  · cases h
  · rename_i hlen
    simp only [List.length_map, Nat.not_lt] at hlen
    simp only [Option.some.injEq] at h
    refine ⟨ws.zipIdx.map (fun x => (x.1.1, { x.1.2 with lexId := x.2 })), ?_, ?_, ?_, ?_⟩
    · rw [← h]
      apply List.ext_getElem?
      intro j
      simp [List.getElem?_zipIdx, List.getElem?_map]
      cases ws[j]? <;> simp
    · apply List.ext_getElem?
      intro j
      simp [List.getElem?_zipIdx, List.getElem?_map]
      cases ws[j]? <;> simp
    · intro j hj
      have hj' : j < ws.length := by simpa using hj
      have hx := hc ws[j] (List.getElem_mem hj')
      simp only [MAX_DICTIONARIES] at hlen
      simp only [List.getElem_map, List.getElem_zipIdx, Nat.zero_add]
      exact ⟨hx.small, by omega, rfl, hx.built⟩
    · intro x hx
      obtain ⟨y, hy, rfl⟩ := List.mem_map.mp hx
      exact hq y.1 (List.fst_mem_of_mem_zipIdx hy)

/-- **lookup_spec.**  Full statement: for every stack of 1..15 source lists compiled into
lexicons, every byte string `text` and every offset.  Proved: the same for every NUL-free text.
`LexiconSet::lookup` (dictionary numbers assigned by `LexiconSet::new/append`) returns exactly
the naive scan of the sources, as a list: layers from the last to the first, within a layer by
increasing key length, within a key in row order; each element is
`(dictionary number · 2²⁸ + row number, off + key length)`.  No panic, no read outside a buffer. -/
theorem lookup_spec_partial (g : Bool) (ws : List (List Entry × Lex)) (set : List Lex)
    (hset : mkSet (ws.map (·.2)) = some set) (hc : ∀ x ∈ ws, CompiledRaw x.1 x.2)
    (text : List Nat) (off : Nat) (hn : NoNul text) :
    setLookup g set text off = some (specSetFrom 0 (ws.map (·.1)) off (text.drop off)) := by
  obtain ⟨ws', h1, h2, h3, _⟩ := mkSet_spec (fun _ _ => True) ws set hset hc (fun _ _ => trivial)
  rw [← h1, ← h2]
  exact setFrom_spec g text off hn ws' 0 h3

/-- **lookup_spec, full strength** (the guarded loop, `g = true`: the code as it now stands): for
every stack of 1..15 source lists that passed the reader's surface test and were compiled into
lexicons, EVERY byte string `text` (NUL bytes, invalid UTF-8) and EVERY offset (inside characters,
past the end), `LexiconSet::lookup` returns exactly the naive scan of the sources as a list. -/
theorem lookup_spec (ws : List (List Entry × Lex)) (set : List Lex)
    (hset : mkSet (ws.map (·.2)) = some set) (hc : ∀ x ∈ ws, CompiledRaw x.1 x.2)
    (hs : ∀ x ∈ ws, x.1.all surfaceOk = true)
    (text : List Nat) (off : Nat) (hn : ∀ b ∈ text, b < 256) :
    setLookup true set text off = some (specSetFrom 0 (ws.map (·.1)) off (text.drop off)) := by
  obtain ⟨ws', h1, h2, h3, h4⟩ := mkSet_spec (fun es a => TravOk true es a text off) ws set hset hc
    (fun x hx => TravOk.of_guard x.1 x.2.trie text off (hs x hx) hn)
  rw [← h1, ← h2]
  exact setFrom_spec' true text off ws' 0 h3 h4

/-- **exactly those entries, each exactly once, nothing else** (same hypotheses): the result has
no duplicates, and `(w, e)` is in it iff `w = d · 2²⁸ + i` for a dictionary `d` and a row `i` of
its source that is indexed (`left ≥ 0`), whose (non-empty) surface is a prefix of the text at
`off`, and `e = off + ` the surface's byte length. -/
theorem lookup_exact_entries_partial (g : Bool) (ws : List (List Entry × Lex)) (set : List Lex)
    (hset : mkSet (ws.map (·.2)) = some set) (hc : ∀ x ∈ ws, CompiledRaw x.1 x.2)
    (text : List Nat) (off : Nat) (hn : NoNul text) :
    ∃ r, setLookup g set text off = some r ∧ r.Nodup ∧
      ∀ w e, (w, e) ∈ r ↔
        ∃ d es i en, (ws.map (·.1))[d]? = some es ∧ es[i]? = some en ∧ 0 ≤ en.left ∧
          en.key ≠ [] ∧ en.key <+: text.drop off ∧ e = off + en.key.length ∧
          w = d * 268435456 + i :=
  ⟨_, lookup_spec_partial g ws set hset hc text off hn,
    specSet_entries _ (sources_small ws hc) off (text.drop off)⟩

/-- **exactly those entries, each exactly once, nothing else — full strength** (guarded loop, every
byte string, every offset).  The rows passed the reader's surface test, so "non-empty" is no
longer a side condition: `(w, e)` is reported iff `w = d · 2²⁸ + i` for a row `i` of dictionary `d`
with `left ≥ 0` whose surface is a prefix of the text at `off`, `e = off + ` its byte length. -/
theorem lookup_exact_entries (ws : List (List Entry × Lex)) (set : List Lex)
    (hset : mkSet (ws.map (·.2)) = some set) (hc : ∀ x ∈ ws, CompiledRaw x.1 x.2)
    (hs : ∀ x ∈ ws, x.1.all surfaceOk = true)
    (text : List Nat) (off : Nat) (hn : ∀ b ∈ text, b < 256) :
    ∃ r, setLookup true set text off = some r ∧ r.Nodup ∧
      ∀ w e, (w, e) ∈ r ↔
        ∃ d es i en, (ws.map (·.1))[d]? = some es ∧ es[i]? = some en ∧ 0 ≤ en.left ∧
          en.key <+: text.drop off ∧ e = off + en.key.length ∧ w = d * 268435456 + i := by
  obtain ⟨h1, h2⟩ := specSet_entries _ (sources_small ws hc) off (text.drop off)
  refine ⟨_, lookup_spec ws set hset hc hs text off hn, h1, ?_⟩
  intro w e
  rw [h2]
  constructor
  · rintro ⟨d, es, i, en, g1, g2, g3, _, g5, g6, g7⟩
    exact ⟨d, es, i, en, g1, g2, g3, g5, g6, g7⟩
  · rintro ⟨d, es, i, en, g1, g2, g3, g5, g6, g7⟩
    refine ⟨d, es, i, en, g1, g2, g3, ?_, g5, g6, g7⟩
    obtain ⟨x, hx, hxe⟩ := List.mem_map.mp (List.mem_of_getElem? g1)
    have hall := hs x hx
    rw [hxe] at hall
    exact (surfaceOk_noNul (List.all_eq_true.mp hall en (List.mem_of_getElem? g2))).1

/-- **non-indexed rows are never returned**: a returned id never names a row with negative left id -/
theorem non_indexed_never_returned_partial (g : Bool) (ws : List (List Entry × Lex)) (set : List Lex)
    (hset : mkSet (ws.map (·.2)) = some set) (hc : ∀ x ∈ ws, CompiledRaw x.1 x.2)
    (text : List Nat) (off : Nat) (hn : NoNul text) (r : List (Nat × Nat))
    (hr : setLookup g set text off = some r) (d i e : Nat) (es : List Entry) (en : Entry)
    (hd : (ws.map (·.1))[d]? = some es) (hi : es[i]? = some en) (hneg : en.left < 0) :
    (d * 268435456 + i, e) ∉ r := by
  rw [lookup_spec_partial g ws set hset hc text off hn] at hr
  cases hr
  exact specSet_no_negative _ (sources_small ws hc) off _ d i e es en hd hi hneg

/-- **non-indexed rows are never returned — full strength** (guarded loop, every byte string) -/
theorem non_indexed_never_returned (ws : List (List Entry × Lex)) (set : List Lex)
    (hset : mkSet (ws.map (·.2)) = some set) (hc : ∀ x ∈ ws, CompiledRaw x.1 x.2)
    (hs : ∀ x ∈ ws, x.1.all surfaceOk = true)
    (text : List Nat) (off : Nat) (hn : ∀ b ∈ text, b < 256) (r : List (Nat × Nat))
    (hr : setLookup true set text off = some r) (d i e : Nat) (es : List Entry) (en : Entry)
    (hd : (ws.map (·.1))[d]? = some es) (hi : es[i]? = some en) (hneg : en.left < 0) :
    (d * 268435456 + i, e) ∉ r := by
  rw [lookup_spec ws set hset hc hs text off hn] at hr
  cases hr
  exact specSet_no_negative _ (sources_small ws hc) off _ d i e es en hd hi hneg

/-- the dictionary number and the row number are recoverable from a reported id
(`WordId::dic`, `WordId::word`) -/
theorem word_id_decodes (d i : Nat) (hi : i < 268435456) :
    (d * 268435456 + i) / 268435456 = d ∧ (d * 268435456 + i) % 268435456 = i := by
  constructor <;> omega

/-- **exact-surface lookup** (`MorphemeList::lookup`).  Full statement: every query.  Proved: every
NUL-free query.  The result has no duplicates and contains `(w, e)` iff `e` is the query's length
and `w` names an indexed row whose surface equals the query. -/
theorem exact_lookup_spec_partial (g : Bool) (ws : List (List Entry × Lex)) (set : List Lex)
    (hset : mkSet (ws.map (·.2)) = some set) (hc : ∀ x ∈ ws, CompiledRaw x.1 x.2)
    (q : List Nat) (hn : NoNul q) :
    ∃ r, exactLookup g set q = some r ∧ r.Nodup ∧
      ∀ w e, (w, e) ∈ r ↔
        e = q.length ∧ q ≠ [] ∧ ∃ d es i en, (ws.map (·.1))[d]? = some es ∧ es[i]? = some en ∧
          0 ≤ en.left ∧ en.key = q ∧ w = d * 268435456 + i := by
  have h1 := lookup_spec_partial g ws set hset hc q 0 hn
  exact ⟨_, by simp [exactLookup, h1], specSet_exact _ (sources_small ws hc) q⟩

/-- **exact-surface lookup — full strength** (guarded loop): for EVERY query (any byte string; the
API passes a `&str`) the filter of `MorphemeList::lookup` keeps exactly the indexed rows whose
surface equals the query, each once, with end = the query's length; the empty query finds nothing. -/
theorem exact_lookup_spec (ws : List (List Entry × Lex)) (set : List Lex)
    (hset : mkSet (ws.map (·.2)) = some set) (hc : ∀ x ∈ ws, CompiledRaw x.1 x.2)
    (hs : ∀ x ∈ ws, x.1.all surfaceOk = true) (q : List Nat) (hn : ∀ b ∈ q, b < 256) :
    ∃ r, exactLookup true set q = some r ∧ r.Nodup ∧
      ∀ w e, (w, e) ∈ r ↔
        e = q.length ∧ q ≠ [] ∧ ∃ d es i en, (ws.map (·.1))[d]? = some es ∧ es[i]? = some en ∧
          0 ≤ en.left ∧ en.key = q ∧ w = d * 268435456 + i := by
  have h1 := lookup_spec ws set hset hc hs q 0 hn
  exact ⟨_, by simp [exactLookup, h1], specSet_exact _ (sources_small ws hc) q⟩

/-! ### (4b) the builder side: rows → index bytes → `Lexicon::parse` → look-up -/

/-- **index_roundtrip.**  For EVERY list of rows (surface, left id) that the model of the builder
accepts (`compileIndex`: the reader's surface test on every row, ids grouped by key in row order,
records `count, ids…` with the 1-byte count limited to 127, record offsets as trie values, a
non-empty key set), every double array `units` that satisfies the common-prefix contract for the
`(key, offset)` list handed to the external builder (`checkTrie`: what the proved checker
establishes for the real array of every lexicon of every run), wherever the bytes `write_index`
writes (`indexBytes`: unit count, units, table size, table) lie in a file (`pre`: header and
grammar, `post`: word parameters and word infos): `Lexicon::parse` at that place succeeds, and
`Lexicon::lookup` of the parsed lexicon with dictionary number `d < 15` returns, for EVERY byte
string and EVERY offset, exactly the naive scan of the rows — by key length, rows in order,
`(d · 2²⁸ + row number, offset + key length)`.  The double array stays abstract; the word-id table
bytes, their place in the buffer and their reading are concrete.  Hypotheses `hu`, `hul`: the units
are `u32`s and their number fits the `u32` the builder casts it to (`(trie.len() / 4) as u32`
truncates silently otherwise). -/
theorem index_roundtrip (es : List Entry) (t : List Nat) (ents : List (List Nat × Nat))
    (units pre post : List Nat) (d : Nat)
    (hc : compileIndex es = some (t, ents)) (hs : es.length ≤ 268435456)
    (hchk : checkTrie units.toArray ents = true)
    (hu : ∀ u ∈ units, u < 4294967296) (hul : units.length < 4294967296) (hd : d < 15) :
    ∃ lx, parseLex (pre ++ indexBytes units t ++ post).toArray pre.length = some lx ∧
      ∀ (text : List Nat) (off : Nat), (∀ b ∈ text, b < 256) →
        lexLookup true { lx with lexId := d } text off = some (specLex d es off (text.drop off)) := by
  obtain ⟨hok, hb, _⟩ := compileIndex_some hc
  obtain ⟨hp, hh⟩ := parseLex_indexBytes pre post units t hu hul
  refine ⟨_, hp, ?_⟩
  intro text off hn
  exact lexLookup_spec' true (es := es) (d := d) ⟨hs, hd, rfl, t, ents, hb, hh, hchk⟩ text off
    (TravOk.of_guard es _ text off hok hn)

/-- `index_roundtrip` in the words of the property: the look-up in the model-built index returns
each row at most once, and `(w, e)` iff `w = d · 2²⁸ + i` for a row `i` with `left ≥ 0` whose key
is a prefix of the text at the offset and `e` = offset + key length — non-indexed rows never. -/
theorem index_roundtrip_entries (es : List Entry) (t : List Nat) (ents : List (List Nat × Nat))
    (units pre post : List Nat) (d : Nat)
    (hc : compileIndex es = some (t, ents)) (hs : es.length ≤ 268435456)
    (hchk : checkTrie units.toArray ents = true)
    (hu : ∀ u ∈ units, u < 4294967296) (hul : units.length < 4294967296) (hd : d < 15) :
    ∃ lx, parseLex (pre ++ indexBytes units t ++ post).toArray pre.length = some lx ∧
      ∀ (text : List Nat) (off : Nat), (∀ b ∈ text, b < 256) →
        ∃ r, lexLookup true { lx with lexId := d } text off = some r ∧ r.Nodup ∧
          ∀ w e, (w, e) ∈ r ↔ ∃ i en, es[i]? = some en ∧ 0 ≤ en.left ∧
            en.key <+: text.drop off ∧ e = off + en.key.length ∧ w = d * 268435456 + i := by
  obtain ⟨lx, hp, hl⟩ := index_roundtrip es t ents units pre post d hc hs hchk hu hul hd
  refine ⟨lx, hp, fun text off hn => ⟨_, hl text off hn, specLex_nodup _ _ _ _, ?_⟩⟩
  intro w e
  rw [mem_specLex]
  have hok := (compileIndex_some hc).1
  constructor
  · rintro ⟨i, en, g1, g2, _, g4, g5, g6⟩
    exact ⟨i, en, g1, by simpa [shouldIndex] using g2, g4, g5, g6⟩
  · rintro ⟨i, en, g1, g2, g4, g5, g6⟩
    exact ⟨i, en, g1, by simpa [shouldIndex] using g2,
      (surfaceOk_noNul (List.all_eq_true.mp hok en (List.mem_of_getElem? g1))).1, g4, g5, g6⟩

/-- **the 1-byte count.**  More than 127 indexed rows with one surface: `write_u32_array` returns
`InvalidSize` and the dictionary is not compiled — the count byte never wraps, the group is never
split over several records, nothing is dropped silently. -/
theorem builder_refuses_many_homographs (es : List Entry) (hs : es.length ≤ 268435456)
    (key : List Nat) (h : 127 < (idsFrom 0 es key).length) : compileIndex es = none := by
  unfold compileIndex
  split
  · rw [buildTable_none_of_many es hs key h]
  · rfl

/-- no row with `left ≥ 0`: `build_trie` returns `TrieBuildFailure` (the external builder is never
called with an empty key set) -/
theorem builder_refuses_empty_index (es : List Entry) (h : ∀ e ∈ es, e.left < 0) :
    compileIndex es = none :=
  compileIndex_none_of_no_indexed es (fun e he => by
    have := h e he
    simp only [shouldIndex, decide_eq_false_iff_not, ge_iff_le]
    omega)

/-- a row — indexed or not — with an empty surface, a NUL byte in it (the reader: `EmptySurface`) or
more than 32 767 bytes (`write_word_info`: `InvalidSize`): the dictionary is not compiled -/
theorem builder_refuses_bad_surface (es : List Entry) (e : Entry) (he : e ∈ es)
    (h : e.key = [] ∨ 0 ∈ e.key ∨ 32767 < e.key.length) : compileIndex es = none := by
  unfold compileIndex
  split
  · rename_i hall
    have h1 := surfaceOk_noNul (List.all_eq_true.mp hall e he)
    have h2 := surfaceOk_len (List.all_eq_true.mp hall e he)
    rcases h with h | h | h
    · exact absurd h h1.1
    · exact absurd h h1.2
    · omega
  · rfl

/-- **what the builder does with a row list — completely.**  Below `WordId`'s limit of 2²⁸ rows the
model of the builder refuses a row list iff some surface fails the surface test, or some surface
has more than 127 indexed rows, or no row is indexed; in particular the `u32` test on the record
offsets in `build_trie` (`WordIdTableNotBuilt`) can never fire: 2²⁸ ids in at most 2²⁸ records are
at most 5 · 2²⁸ < 2³² bytes. -/
theorem builder_refuses_iff (es : List Entry) (hs : es.length ≤ 268435456) :
    compileIndex es = none ↔
      (∃ e ∈ es, e.key = [] ∨ 0 ∈ e.key ∨ 32767 < e.key.length) ∨
      (∃ key, 127 < (idsFrom 0 es key).length) ∨ (∀ e ∈ es, e.left < 0) := by
  constructor
  · intro hnone
    refine Classical.byContradiction (fun hcon => ?_)
    simp only [not_or, not_exists, not_and, Nat.not_lt] at hcon
    obtain ⟨c1, c2, c3⟩ := hcon
    have c3' : ∃ e ∈ es, 0 ≤ e.left := by
      refine Classical.byContradiction (fun h => c3 (fun e he => ?_))
      exact Int.lt_of_not_ge (fun h0 => h ⟨e, he, h0⟩)
    obtain ⟨r, hr⟩ := compileIndex_isSome es hs
      (fun x hx => by
        have := c1 x hx
        exact ⟨this.1, this.2.1, this.2.2⟩)
      c2 c3'
    rw [hr] at hnone
    cases hnone
  · rintro (⟨e, he, h⟩ | ⟨key, h⟩ | h)
    · exact builder_refuses_bad_surface es e he h
    · exact builder_refuses_many_homographs es hs key h
    · exact builder_refuses_empty_index es h

/-- conversely, what an accepted row list looks like -/
theorem builder_accepts_only (es : List Entry) (t : List Nat) (ents : List (List Nat × Nat))
    (hc : compileIndex es = some (t, ents)) (hs : es.length ≤ 268435456) :
    (∀ e ∈ es, e.key ≠ [] ∧ 0 ∉ e.key ∧ e.key.length ≤ 32767) ∧
      (∀ key, (idsFrom 0 es key).length ≤ 127) ∧ ∃ e ∈ es, 0 ≤ e.left := by
  refine ⟨?_, ?_, ?_⟩
  · intro e he
    refine ⟨fun h0 => ?_, fun h0 => ?_, Nat.le_of_not_lt (fun h0 => ?_)⟩
    · rw [builder_refuses_bad_surface es e he (Or.inl h0)] at hc; cases hc
    · rw [builder_refuses_bad_surface es e he (Or.inr (Or.inl h0))] at hc; cases hc
    · rw [builder_refuses_bad_surface es e he (Or.inr (Or.inr h0))] at hc; cases hc
  · intro key
    refine Nat.le_of_not_lt (fun h => ?_)
    rw [builder_refuses_many_homographs es hs key h] at hc; cases hc
  · refine Classical.byContradiction (fun h => ?_)
    have : ∀ e ∈ es, e.left < 0 := fun e he => by
      refine Int.lt_of_not_ge (fun h0 => h ⟨e, he, h0⟩)
    rw [builder_refuses_empty_index es this] at hc; cases hc

/-! ### (4c) `MorphemeList::lookup` on a list that is reused -/

/-- **exact-surface lookup through `MorphemeList::lookup`, on any list.**  For every query of at
most `MAX_LENGTH` bytes there is ONE list `new` of nodes — the same whatever the list held before —
such that the call returns `Ok(new.length)` and leaves `old ++ new` in the list (the function as it
stands appends; after `clear()` the list is exactly `new`; with the candidate repair, `rep = true`,
the list is exactly `new` whatever it held): every new node spans the whole query
(characters `0 .. chCount q`, bytes `0 .. |q|`), the word ids are pairwise different and are
exactly the ids `d · 2²⁸ + i` of the indexed rows whose surface equals the query. -/
theorem mlist_lookup_spec (ws : List (List Entry × Lex)) (set : List Lex)
    (hset : mkSet (ws.map (·.2)) = some set) (hc : ∀ x ∈ ws, CompiledRaw x.1 x.2)
    (hs : ∀ x ∈ ws, x.1.all surfaceOk = true) (q : List Nat) (hn : ∀ b ∈ q, b < 256)
    (hl : q.length ≤ MAX_LENGTH) :
    ∃ new : List RNode,
      (∀ old, mlLookup true false set old q = .ok new.length (old ++ new)) ∧
      (∀ old, mlLookup true false set (mlClear old) q = .ok new.length new) ∧
      (∀ old, mlLookup true true set old q = .ok new.length new) ∧
      (∀ n ∈ new, n.beginC = 0 ∧ n.endC = chCount q ∧ n.beginB = 0 ∧ n.endB = q.length) ∧
      (new.map (·.wid)).Nodup ∧
      ∀ w, w ∈ new.map (·.wid) ↔ q ≠ [] ∧ ∃ d es i en, (ws.map (·.1))[d]? = some es ∧
        es[i]? = some en ∧ 0 ≤ en.left ∧ en.key = q ∧ w = d * 268435456 + i := by
  obtain ⟨r, h1, h2, h3⟩ := exact_lookup_spec ws set hset hc hs q hn
  have hlen : ¬ q.length > MAX_LENGTH := by omega
  refine ⟨r.map (fun we => ({ beginC := 0, endC := chCount q, beginB := 0, endB := q.length, wid := we.1 } : RNode)),
    ?_, ?_, ?_, ?_, ?_, ?_⟩
  · intro old
    simp [mlLookup, hlen, h1]
  · intro old
    simp [mlLookup, mlClear, hlen, h1]
  · intro old
    simp [mlLookup, hlen, h1]
  · intro n hn'
    obtain ⟨we, _, rfl⟩ := List.mem_map.mp hn'
    exact ⟨rfl, rfl, rfl, rfl⟩
  · rw [List.map_map, List.Nodup, List.pairwise_map]
    refine h2.imp_of_mem (fun {a b} ha hb hne heq => hne ?_)
    have ea := ((h3 a.1 a.2).mp ha).1
    have eb := ((h3 b.1 b.2).mp hb).1
    exact Prod.ext heq (by rw [ea, eb])
  · intro w
    rw [List.map_map]
    simp only [List.mem_map, Function.comp_apply]
    constructor
    · rintro ⟨we, hwe, rfl⟩
      exact ((h3 we.1 we.2).mp hwe).2
    · rintro ⟨g1, g2⟩
      exact ⟨(w, q.length), (h3 w q.length).mpr ⟨rfl, g1, g2⟩, rfl⟩

/-- a query above `MAX_LENGTH` bytes is rejected by `start_build` (`InputTooLong`) before any
look-up; the nodes of the list are not touched (the case line keeps them for the next query) -/
theorem mlist_lookup_too_long (g rep : Bool) (set : List Lex) (old : List RNode) (q : List Nat)
    (h : MAX_LENGTH < q.length) : mlLookup g rep set old q = .tooLong := by
  simp [mlLookup, h]

/-! ### (5) the violation: NUL bytes are skipped -/

/-- the double array the real builder (`yada` 0.5 via `DictBuilder`) produced for the single key
`a` with value 0 (harness case 0 of every run, 256 units) -/
def arrA : Arr := #[98304, 3425, 2147483648, 0, 0, 0, 0, 0, 0, 0, 0, 0, 0, 0, 0, 0, 0, 0, 0, 0, 0, 0, 0, 0, 0, 0, 0, 0, 0, 0, 0, 0, 0, 0, 0, 0, 0, 0, 0, 0, 0, 0, 0, 0, 0, 0, 0, 0, 0, 0, 0, 0, 0, 0, 0, 0, 0, 0, 0, 0, 0, 0, 0, 0, 0, 0, 0, 0, 0, 0, 0, 0, 0, 0, 0, 0, 0, 0, 0, 0, 0, 0, 0, 0, 0, 0, 0, 0, 0, 0, 0, 0, 0, 0, 0, 0, 0, 0, 0, 0, 0, 0, 0, 0, 0, 0, 0, 0, 0, 0, 0, 0, 0, 0, 0, 0, 0, 0, 0, 0, 0, 0, 0, 0, 0, 0, 0, 0, 0, 0, 0, 0, 0, 0, 0, 0, 0, 0, 0, 0, 0, 0, 0, 0, 0, 0, 0, 0, 0, 0, 0, 0, 0, 0, 0, 0, 0, 0, 0, 0, 0, 0, 0, 0, 0, 0, 0, 0, 0, 0, 0, 0, 0, 0, 0, 0, 0, 0, 0, 0, 0, 0, 0, 0, 0, 0, 0, 0, 0, 0, 0, 0, 0, 0, 0, 0, 0, 0, 0, 0, 0, 0, 0, 0, 0, 0, 0, 0, 0, 0, 0, 0, 0, 0, 0, 0, 0, 0, 0, 0, 0, 0, 0, 0, 0, 0, 0, 0, 0, 0, 0, 0, 0, 0, 0, 0, 0, 0, 0, 0, 0, 0, 0, 0, 0, 0, 0, 0, 0, 0, 0, 0, 0, 0, 0, 0]

/-- the array is a correct double array for `{a ↦ 0}` on bytes 1..255 (checker accepts) -/
theorem arrA_checked : checkTrie arrA [([97], 0)] = true := by decide +kernel

/-- **Counterexample to the full statement** (finding N1).  On the array the real builder produced
for the key set `{a}`, which the checker accepts, looking up the text `\0a` at offset 0 reports the
entry `a` with end 2 although no key is a prefix of `\0a` (the specification is empty); with the
key `bc` the same happens inside a key (`b\0c`, see the harness's directed world `nul`). -/
theorem nul_skipped_counterexample :
    checkTrie arrA [([97], 0)] = true ∧
    commonPrefix false arrA [0, 97] 0 = some [(0, 2)] ∧
    specFlat [([97], 0)] 0 [0, 97] = [] ∧
    ¬ NoNul [0, 97] := by
  refine ⟨arrA_checked, by decide +kernel, by decide, ?_⟩
  intro h
  have := h 0 (by simp)
  omega

/-- the same array, the same text, the repaired variant: nothing is reported -/
theorem nul_guarded_example :
    KeysNoNul [([97], 0)] ∧ commonPrefix true arrA [0, 97] 0 = some [] ∧
    commonPrefix true arrA [0, 97] 1 = some [(0, 2)] := by
  refine ⟨?_, by decide +kernel, by decide +kernel⟩
  intro kv hkv
  simp at hkv
  subst hkv
  simp

/-! ### non-vacuity -/

/-- a lexicon with the trie of harness case 0 (source: one row `a,0,0,…`) and its word-id table
`01 00 00 00 00` placed at offset 2 of a small buffer -/
def lexA : Lex := { trie := arrA, buf := #[7, 7, 1, 0, 0, 0, 0, 9], tblSize := 5, tblOff := 2, lexId := 255 }

/-- `CompiledRaw` is satisfiable (so are `Compiled`, `checkTrie … = true`, `NoNul`), and the
theorems then give the expected answer on a concrete text. -/
example : CompiledRaw [⟨[97], 0⟩] lexA ∧ NoNul [98, 97, 97] ∧
    mkSet [lexA] = some [{ lexA with lexId := 0 }] ∧
    specSetFrom 0 [[⟨[97], 0⟩]] 1 ([98, 97, 97].drop 1) = [(0, 2)] := by
  refine ⟨⟨by decide, [1, 0, 0, 0, 0], [([97], 0)], by decide, ?_, arrA_checked⟩, ?_, rfl, by decide⟩
  · have this : lexA.buf.toList = [7, 7] ++ [1, 0, 0, 0, 0] ++ [9] := rfl
    exact holds_of_toList this
  · intro b hb
    simp at hb
    omega

example : widTable_roundtrip #[9, 2, 1, 0, 0, 0, 0xff, 0xff, 0xff, 0x0f, 7] [9] [7] [1, 0x0fffffff] 0 1
    (by decide) (by decide) (by decide) = (by decide : entries #[9, 2, 1, 0, 0, 0, 0xff, 0xff, 0xff, 0x0f, 7] 0 1 = some [1, 0x0fffffff]) := rfl

/-- the hypotheses of `index_roundtrip` are satisfiable — rows `a` (indexed), `b` (not indexed), `a`
(indexed) compile to the table `02 00000000 02000000` and the key list `[(a, 0)]`; the array of
case 0 satisfies the contract for it — and the theorem then answers a concrete look-up in the file
`ff | index bytes | ee`: both rows `a`, with their LINE numbers 0 and 2 (not their ranks 0 and 1,
`seeded/C04b`), stamped with dictionary number 3 -/
example : compileIndex [⟨[97], 0⟩, ⟨[98], -1⟩, ⟨[97], 5⟩] = some ([2, 0, 0, 0, 0, 2, 0, 0, 0], [([97], 0)]) ∧
    checkTrie arrA.toList.toArray [([97], 0)] = true ∧
    (∀ u ∈ arrA.toList, u < 4294967296) ∧ arrA.toList.length < 4294967296 ∧
    specLex 3 [⟨[97], 0⟩, ⟨[98], -1⟩, ⟨[97], 5⟩] 1 ([0, 97, 98].drop 1) = [(805306368, 2), (805306370, 2)] := by
  refine ⟨by decide, arrA_checked, ?_, by decide +kernel, by decide⟩
  intro u hu
  have h : arrA.toList.all (fun u => decide (u < 4294967296)) = true := by decide +kernel
  exact of_decide_eq_true (List.all_eq_true.mp h u hu)

/-- the refusals are real: 128 homographs, no indexed row, a NUL byte in a surface, an empty surface -/
example : compileIndex (List.replicate 128 ⟨[97], 0⟩) = none ∧ compileIndex [⟨[97], -1⟩] = none ∧
    compileIndex [⟨[97, 0], 0⟩] = none ∧ compileIndex [⟨[97], 0⟩, ⟨[], -1⟩] = none ∧
    127 < (idsFrom 0 (List.replicate 128 ⟨[97], 0⟩) [97]).length := by
  refine ⟨by decide +kernel, by decide, by decide, by decide, by decide +kernel⟩

/-- the hypotheses of the full set theorems (`hs`: surface test; `hn`: bytes; `hl`: length) hold for
the lexicon of case 0 and a text with a NUL byte, and `mlLookup` then appends one node to a list
that already holds one -/
example : (∀ x ∈ [(([⟨[97], 0⟩] : List Entry), lexA)], x.1.all surfaceOk = true) ∧
    (∀ b ∈ [0, 97], b < 256) ∧ [97].length ≤ MAX_LENGTH ∧
    mlLookup true false [{ lexA with lexId := 0 }] [⟨0, 9, 0, 9, 77⟩] [97] =
      .ok 1 [⟨0, 9, 0, 9, 77⟩, ⟨0, 1, 0, 1, 0⟩] ∧
    mlLookup true true [{ lexA with lexId := 0 }] [⟨0, 9, 0, 9, 77⟩] [97] = .ok 1 [⟨0, 1, 0, 1, 0⟩] := by
  refine ⟨by decide, by decide, by decide, by decide +kernel, by decide +kernel⟩

end C04
