import Sudachi.Proofs.Cli
import Sudachi.Proofs.PySession
/-!
# C19 — Python bindings and the CLI report exactly what the core library computes

Model: `Cli.run` (`sudachi-cli`: read-line loop, `strip_eol`, the analysis modes, `Simple`/`Wakachi`
writers) with the library (sentence splitter, tokenizer, morpheme fields) as a parameter, and
`Cli.pyRun` (Python `Tokenizer.tokenize(text, mode=…)`: override + scope-guard restore).
What the library computes is C01–C16; that the real binary/extension prints exactly what the model
says for the library's answers is the correspondence run of this check.  Python SESSIONS (lists sharing
input cells, `out=` reuse, staleness, what reading a stale list gives) are `Model/PySession.lean` on C10's
`Recycle.World`; see the last section.  "No sequence of Python calls crashes the interpreter" is proved over
that model (no observation is `crash`, every list always has a cell); for the REAL interpreter it stays a
runtime claim, exercised by the Python run of the check (every list and kept morpheme is read after every
call) and labelled partial.
-/
namespace C19
open Cli

/-- **Line terminators are removed** (repaired guards `len > 0`): LF and CRLF are stripped, a line
without terminator is untouched; in particular a blank line is analysed as the empty text. -/
theorem strip_eol_spec (l : Bytes) :
    (l.getLast? ≠ some 13 → stripEolFix (l ++ [10]) = l) ∧
    stripEolFix (l ++ [13, 10]) = l ∧
    (l.getLast? ≠ some 10 → stripEolFix l = l) := by
  refine ⟨?_, ?_, ?_⟩
  · intro h
    unfold stripEolFix
    simp only [getLast?_append_single, dropLast_append_single, List.length_append, List.length_singleton]
    simp [h]
  · unfold stripEolFix
    have h1 : l ++ [13, 10] = (l ++ [13]) ++ [10] := by simp
    rw [h1]
    simp only [getLast?_append_single, dropLast_append_single, List.length_append, List.length_singleton]
    simp
  · intro h
    unfold stripEolFix
    simp [h]

/-- **The code as it stands violates the blank-line clause** (D14): a blank line keeps its
terminator, a blank CRLF line keeps the CR, so the line is analysed as a one-character text. -/
theorem strip_eol_counterexample :
    stripEolCur [10] = [10] ∧ stripEolCur [13, 10] = [13] ∧ stripEolFix [10] = [] ∧ stripEolFix [13, 10] = [] := by
  decide

/-- what the code as it stands does guarantee: non-blank lines are stripped correctly -/
theorem strip_eol_cur_partial (l : Bytes) (hne : l ≠ []) :
    (l.getLast? ≠ some 13 → stripEolCur (l ++ [10]) = l) ∧
    stripEolCur (l ++ [13, 10]) = l ∧
    (l.getLast? ≠ some 10 → stripEolCur l = l) := by
  have hlen : 0 < l.length := List.length_pos_iff.mpr hne
  refine ⟨?_, ?_, ?_⟩
  · intro h
    unfold stripEolCur
    simp only [getLast?_append_single, dropLast_append_single, List.length_append, List.length_singleton]
    simp [h]; omega
  · unfold stripEolCur
    have h1 : l ++ [13, 10] = (l ++ [13]) ++ [10] := by simp
    rw [h1]
    simp only [getLast?_append_single, dropLast_append_single, List.length_append, List.length_singleton]
    simp; omega
  · intro h
    unfold stripEolCur
    simp [h]

/-- **Every byte of the input is analysed exactly once, line by line**: the lines read by the loop
concatenate to the file, none is empty, each ends with its only `\n` or (the last one) has none. -/
theorem lines_partition (file : Bytes) :
    (lines file).flatten = file ∧ (∀ l ∈ lines file, l ≠ []) ∧
    (∀ l ∈ lines file, (∃ body, l = body ++ [10] ∧ ∀ b ∈ body, b ≠ 10) ∨ (∀ b ∈ l, b ≠ 10)) := by
  refine ⟨by simpa [lines] using linesGo_flatten file [], linesGo_nonempty file [], ?_⟩
  exact linesGo_shape file [] (by intro b hb; cases hb)

/-- **Output of one line = per sentence, the formatted library result** (all texts accepted): in the default mode a
line whose stripped text splits into sentences `ss` makes the writer receive the formats of the tokenisations of `ss`
in order; with sentence splitting off the format of the whole line; with `only` the sentences themselves, unseparated. -/
theorem line_output (lib : Lib) (f : Flags) (text : Bytes) (h : ∀ s ∈ unitsOf lib f text, Accepts lib s) :
    (analyzeLine lib f text).outs = specLine lib f text ∧ (analyzeLine lib f text).exit = .ok ∧
    (f.split = .none → specLine lib f text = fmtRes f (lib.tokenize subsetAll text)) ∧
    (f.split = .default → specLine lib f text = ((lib.split text).map (fun s => fmtRes f (lib.tokenize subsetAll s))).flatten) ∧
    (f.split = .only → specLine lib f text = (lib.split text).flatten) := by
  rw [analyzeLine_ok lib f text h]
  refine ⟨rfl, rfl, ?_, ?_, ?_⟩ <;> intro hs <;> simp [specLine, unitsOf, hs]

/-- **END TO END: what the tool delivers is exactly the formatted library morphemes, per line, per sentence**
(`cli_output_is_library_output`).  For every library behaviour, every flag combination (format, `-a`, split mode, `-d`,
`-o`), every input (file or stdin: the model does not distinguish them) in which the library accepts every text handed
to it: the process exits 0; with `-o` the file holds exactly `spec` = the concatenation over the lines read, over the
sentences of the stripped line, of `format (tokenize ALL-FIELDS sentence)` and stdout holds only the debug dumps (nothing
without `-d`); without `-o` stdout holds, line by line, the dumps of the line followed by `spec` of the line — so without
`-d` stdout is exactly `spec`.  The analysis runs with `InfoSubset::all()`: `SudachiOutput::subset()` is dead code. -/
theorem cli_output_is_library_output (lib : Lib) (f : Flags) (outOk : Bool) (file : Bytes)
    (hout : f.toFile = true → outOk = true)
    (hacc : ∀ l ∈ lines file, ∀ s ∈ unitsOf lib f (stripEol f.strip l), Accepts lib s) :
    let spec := ((lines file).map (fun l => specLine lib f (stripEol f.strip l))).flatten
    let r := run lib f true outOk file
    r.exit = .ok ∧
    (f.toFile = true → r.file = some spec ∧
      r.stdout = ((lines file).map (fun l => dumpsLine lib f (stripEol f.strip l))).flatten) ∧
    (f.toFile = false → r.file = none ∧
      r.stdout = ((lines file).map (fun l => dumpsLine lib f (stripEol f.strip l) ++ specLine lib f (stripEol f.strip l))).flatten) ∧
    (f.toFile = false → f.debug = false → r.stdout = spec) ∧
    (f.debug = false → ∀ l, dumpsLine lib f l = []) := by
  intro spec r
  have hrun := runLines_ok lib f (lines file) hacc
  have hexit : exitOf (runLines lib f (lines file)) = .ok := by
    apply exitOf_all_ok; rw [hrun]; intro e he; simp only [List.mem_map] at he; obtain ⟨_, _, rfl⟩ := he; rfl
  have hd : f.debug = false → ∀ l, dumpsLine lib f l = [] := by intro h l; simp [dumpsLine, h]
  cases htf : f.toFile with
  | true =>
    have ho := hout htf
    refine ⟨?_, ?_, ?_, ?_, hd⟩
    · simp [r, run, htf, ho, hexit]
    · intro _; simp [r, run, htf, ho, hrun, spec, List.map_map, Function.comp_def]
    · intro h; cases h
    · intro h; cases h
  | false =>
    refine ⟨?_, ?_, ?_, ?_, hd⟩
    · simp [r, run, htf, hexit]
    · intro h; cases h
    · intro _; simp [r, run, htf, hrun, List.map_map, Function.comp_def]
    · intro _ hdb; simp [r, run, htf, hrun, spec, List.map_map, Function.comp_def, hd hdb]

/-- **A text the library rejects stops the tool** (e.g. a line above 49 149 bytes with `--split-sentences=none`, or one
of its sentences otherwise): if the lines `pre` are accepted and the next line `l` has accepted sentences `us1` followed
by a rejected sentence `s`, the process exits with the panic status (101), the writer has received exactly the results
of `pre` and of `us1` (flushed by the `BufWriter`'s drop), and nothing that follows — neither the rest of the line nor
the remaining lines `post` — is analysed: the outcome is the same for every `post`. -/
theorem cli_stops_at_first_error (lib : Lib) (f : Flags) (file : Bytes) (pre post : List Bytes) (l s d : Bytes) (us1 us2 : List Bytes)
    (hlines : lines file = pre ++ l :: post) (hsplit : f.split = .default)
    (hpre : ∀ x ∈ pre, ∀ u ∈ unitsOf lib f (stripEol f.strip x), Accepts lib u)
    (hunits : lib.split (stripEol f.strip l) = us1 ++ s :: us2) (hus1 : ∀ u ∈ us1, Accepts lib u)
    (hs : lib.tokenize subsetAll s = .err d) (htf : f.toFile = false) (hdb : f.debug = false) :
    let r := run lib f true true file
    r.exit = .panic ∧
    r.stdout = (pre.map (fun x => specLine lib f (stripEol f.strip x))).flatten ++
      (us1.map (fun u => fmtRes f (lib.tokenize subsetAll u))).flatten := by
  intro r
  have hse := analyzeSents_err lib f s d us2 hs us1 hus1
  have hline : (analyzeLine lib f (stripEol f.strip l)).exit = .panic ∧
      (analyzeLine lib f (stripEol f.strip l)).outs = (us1.map (fun u => fmtRes f (lib.tokenize subsetAll u))).flatten := by
    simp only [analyzeLine, hsplit, hunits]; exact ⟨hse.2, hse.1⟩
  have hne : (analyzeLine lib f (stripEol f.strip l)).exit ≠ .ok := by rw [hline.1]; decide
  have hrun := runLines_err lib f l post hne pre hpre
  have hdl : ∀ t, (analyzeLine lib f t).dumps = [] := by
    intro t
    have h1 : ∀ u, (analyzeOne lib f u).dumps = [] := by
      intro u; unfold analyzeOne; cases lib.tokenize (cliSubset f) u <;> simp [hdb]
    have h2 : ∀ ss, (analyzeSents lib f ss).dumps = [] := by
      intro ss; induction ss with
      | nil => rfl
      | cons a rest ih => simp only [analyzeSents]; split <;> simp [h1, ih]
    unfold analyzeLine; cases f.split <;> simp [h1, h2]
  have hd0 : ∀ t, dumpsLine lib f t = [] := by intro t; simp [dumpsLine, hdb]
  refine ⟨?_, ?_⟩
  · simp [r, run, htf, hlines, hrun, exitOf_append_single, hline.1]
  · simp [r, run, htf, hlines, hrun, List.map_map, Function.comp_def, hd0, hdl, hline.2]

/-- the same with sentence splitting off: the rejected line itself ends the run -/
theorem cli_stops_at_first_error_nosplit (lib : Lib) (f : Flags) (file : Bytes) (pre post : List Bytes) (l d : Bytes)
    (hlines : lines file = pre ++ l :: post) (hsplit : f.split = .none)
    (hpre : ∀ x ∈ pre, ∀ u ∈ unitsOf lib f (stripEol f.strip x), Accepts lib u)
    (hs : lib.tokenize subsetAll (stripEol f.strip l) = .err d) (htf : f.toFile = false) (hdb : f.debug = false) :
    let r := run lib f true true file
    r.exit = .panic ∧ r.stdout = (pre.map (fun x => specLine lib f (stripEol f.strip x))).flatten := by
  intro r
  have hone := analyzeOne_err lib f _ d hs
  have hline : analyzeLine lib f (stripEol f.strip l) = ⟨[], [], .panic⟩ := by
    simp [analyzeLine, hsplit, hone, hdb]
  have hne : (analyzeLine lib f (stripEol f.strip l)).exit ≠ .ok := by rw [hline]; decide
  have hrun := runLines_err lib f l post hne pre hpre
  have hd0 : ∀ t, dumpsLine lib f t = [] := by intro t; simp [dumpsLine, hdb]
  refine ⟨?_, ?_⟩
  · simp [r, run, htf, hlines, hrun, exitOf_append_single, hline]
  · simp [r, run, htf, hlines, hrun, List.map_map, Function.comp_def, hd0, hline]

/-- **`-o` and `-d` do not change what is delivered**: for EVERY input and library behaviour (errors included) the file
written with `-o` (with or without `-d`) is byte for byte the stdout of the plain run, the exit status is the same, and
with `-o` but without `-d` nothing is printed on stdout. -/
theorem output_file_and_debug_do_not_change_results (lib : Lib) (f : Flags) (d : Bool) (file : Bytes) :
    let plain := run lib { f with debug := false, toFile := false } true true file
    let r := run lib { f with debug := d, toFile := true } true true file
    r.file = some plain.stdout ∧ r.exit = plain.exit ∧ (d = false → r.stdout = []) := by
  intro plain r
  obtain ⟨h1, h2, h3⟩ := runLines_congr lib lib { f with debug := d, toFile := true } { f with debug := false, toFile := false }
    rfl rfl rfl rfl (fun _ => rfl) (fun _ => rfl) (lines file)
  refine ⟨?_, ?_, ?_⟩
  · simp only [r, plain, run]
    simp only [Bool.not_true, Bool.false_eq_true, if_false, Bool.and_false, if_true, Option.some.injEq]
    rw [h1]
    have : ∀ (evs : List Emit), (∀ e ∈ evs, e.dumps = []) → (evs.map (fun e => e.dumps ++ e.outs)) = evs.map (·.outs) := by
      intro evs h; apply List.map_congr_left; intro e he; simp [h e he]
    rw [this]
    exact runLines_nodebug_dumps lib _ rfl (lines file)
  · simp only [r, plain, run]
    simp [h2]
  · intro hd
    subst hd
    simp only [r, run]
    simp only [Bool.not_true, Bool.false_eq_true, if_false, Bool.and_false, if_true]
    exact flatten_map_nil _ _ (runLines_nodebug_dumps lib _ rfl (lines file))

/-- **Only the ALL-FIELDS answers of the library reach the output**: two libraries that agree on sentence splitting and
on the analysis with `InfoSubset::all()` give the same run, whatever they answer for any other subset (in particular for
the subset `SudachiOutput::subset()` declares, which for `--wakati` is empty: `outputSubset`). -/
theorem cli_subset_is_full (lib lib' : Lib) (f : Flags) (i o : Bool) (file : Bytes)
    (ht : ∀ t, lib.tokenize subsetAll t = lib'.tokenize subsetAll t) (hsp : ∀ t, lib.split t = lib'.split t) :
    run lib f i o file = run lib' f i o file ∧ cliSubset f = subsetAll ∧ (f.wakati = true → outputSubset f = 0) := by
  obtain ⟨_, _, h3⟩ := runLines_congr lib lib' f f rfl rfl rfl rfl ht hsp (lines file)
  refine ⟨?_, rfl, ?_⟩
  · simp only [run]; rw [h3 rfl]
  · intro h; simp [outputSubset, h]

/-- **A file that cannot be opened**: the input is opened first, the output second, both before the dictionary is
loaded; either failure is a panic (status 101) with nothing written and — for a missing input — no output file created. -/
theorem open_failure (lib : Lib) (f : Flags) (o : Bool) (file : Bytes) :
    run lib f false o file = ⟨[], none, .panic⟩ ∧ (f.toFile = true → run lib f true false file = ⟨[], none, .panic⟩) := by
  constructor
  · simp [run]
  · intro h; simp [run, h]

/-- an empty analysis prints `EOS` alone in the column format and an empty line with `--wakati` -/
theorem empty_analysis_output (all : Bool) :
    simpleOut all [] = asciiBytes "EOS\n" ∧ wakatiOut [] = [10] := by
  constructor <;> rfl

/-- **A per-call mode override never affects later calls**: after any sequence of `tokenize` calls,
with or without override, succeeding or failing, the tokenizer holds the mode it was created with;
and every call ran in its override if given, else in that mode. -/
theorem mode_restored (t : PyTok) (calls : List (Option Mode × Bool)) :
    (pyRun t calls).1.mode = t.mode ∧
    (pyRun t calls).2 = calls.map (fun c => c.1.getD t.mode) := by
  induction calls generalizing t with
  | nil => exact ⟨rfl, rfl⟩
  | cons c rest ih =>
    obtain ⟨o, f⟩ := c
    cases o with
    | none =>
      have := ih t
      simp only [pyRun, pyTokenize, List.map_cons, Option.getD_none]
      exact ⟨this.1, by rw [this.2]⟩
    | some m =>
      have := ih { mode := t.mode }
      simp only [pyRun, pyTokenize, List.map_cons, Option.getD_some]
      exact ⟨this.1, by rw [this.2]⟩

/-- non-vacuity: a three-line file with a blank line and a CRLF line -/
example : lines [97, 10, 10, 98, 13, 10, 99] = [[97, 10], [10], [98, 13, 10], [99]] ∧
    (lines [97, 10, 10, 98, 13, 10, 99]).map stripEolFix = [[97], [], [98], [99]] ∧
    (lines [97, 10, 10, 98, 13, 10, 99]).map stripEolCur = [[97], [10], [98], [99]] := by
  decide

/-- non-vacuity of `cli_output_is_library_output` / `cli_stops_at_first_error*`: a library that accepts `a`, rejects `b` -/
def exLib : Lib where
  split := fun t => if t = [97, 46, 98] then [[97, 46], [98]] else [t]
  tokenize := fun _ t => if t = [98] then .err [33] else .ok [⟨t, [[80]], t, t, t, 0, [], false⟩] [100, 10]

example : (run exLib ⟨true, false, .default, .fix, false, false⟩ true true [97, 10, 99, 10]).exit = .ok ∧
    (run exLib ⟨true, false, .default, .fix, false, false⟩ true true [97, 10, 99, 10]).stdout = [97, 10, 99, 10] := by decide
example : run exLib ⟨true, false, .default, .fix, false, false⟩ true true [99, 10, 97, 46, 98, 10, 99, 10] =
    ⟨[99, 10, 97, 46, 10], none, .panic⟩ := by decide
example : run exLib ⟨true, false, .none, .fix, false, false⟩ true true [99, 10, 98, 10, 99, 10] = ⟨[99, 10], none, .panic⟩ := by decide
/-- `-d` on stdout: dumps of the line first, then its results; `-d -o`: dumps on stdout, results in the file -/
example : run exLib ⟨true, false, .default, .fix, true, false⟩ true true [97, 10] = ⟨[100, 10, 97, 10], none, .ok⟩ ∧
    run exLib ⟨true, false, .default, .fix, true, true⟩ true true [97, 10] = ⟨[100, 10], some [97, 10], .ok⟩ := by decide

/-! ## Python glue (`Model/PyGlue.lean`) -/
open PyGlue in
/-- **"No crash", over the model of the argument handling**: whatever Python passes — any subscript (negative, out of
range, a slice, a string, an int beyond `isize`), a `Morpheme` whose list was reused for a shorter or another result, byte
offsets that are no character boundary, `out=` the morpheme's own list, a mode that is no mode, an unknown field name,
path totals whose difference leaves `i32` — every modelled entry point answers with a value, a Python exception or
(stale objects) an unspecified value/exception; none of them returns `crash`.  PARTIAL for the real extension: that a Rust
panic is turned into `PanicException` by PyO3 and that the `unsafe` lifetime extension of `PyMorpheme::morph` is sound are
exercised by the session runs (the interpreter must answer every call and exit normally), not proved. -/
theorem py_never_crashes :
    (∀ len a, getitem len a ≠ .crash) ∧ (∀ n i st v, access n i st v ≠ .crash) ∧ (∀ t bb be, offsets t bb be ≠ .crash) ∧
    (∀ a, (split a).1 ≠ .crash) ∧ (∀ mo mb fl, create mo mb fl ≠ .crash) ∧ (∀ ts, internalCost ts ≠ .crash) := by
  refine ⟨?_, ?_, ?_, ?_, ?_, ?_⟩
  · intro len a; cases a <;> simp only [getitem] <;> (repeat' split) <;> simp
  · intro n i st v; simp only [access]; split <;> (try split) <;> simp
  · intro t bb be; simp only [offsets]; split <;> simp
  · intro a; simp only [split]; repeat' split
    all_goals simp
  · intro mo mb fl; simp only [create]; split <;> (try split) <;> simp
  · intro ts; cases ts with
    | nil => simp [internalCost]
    | cons a r => simp only [internalCost]; (repeat' split) <;> simp

open PyGlue in
/-- **`MorphemeList[i]` is Python sequence indexing for ints and an exception for everything else** (slices are not
supported), and iteration yields exactly `len` items. -/
theorem getitem_spec (len : Nat) (i : Int) :
    (0 ≤ i → i < len → getitem len (.int i) = .val (toString i)) ∧
    (i < 0 → 0 ≤ i + len → getitem len (.int i) = .val (toString (i + len))) ∧
    ((len : Int) ≤ i ∨ i + len < 0 → getitem len (.int i) = .exc "IndexError") ∧
    getitem len .other = .exc "TypeError" ∧ getitem len .huge = .exc "OverflowError" ∧ (iterate len).length = len := by
  refine ⟨?_, ?_, ?_, rfl, rfl, by simp [iterate]⟩
  · intro h0 h1
    have : ¬ i < 0 := by omega
    simp only [getitem, this, if_false]
    rw [if_neg (by intro h; rcases h with h | h <;> omega)]
  · intro h0 h1
    simp only [getitem, h0, if_true]
    rw [if_neg (by intro h; rcases h with h | h <;> omega)]
  · intro h
    simp only [getitem]
    by_cases hn : i < 0
    · simp only [hn, if_true]; rw [if_pos (by omega)]
    · simp only [hn, if_false]; rw [if_pos (by omega)]

open PyGlue EditM in
/-- **`Morpheme.begin()/end()` are CODE-POINT offsets: the conversion is the one C08 describes.**  For byte offsets
`bb`, `be` of the Rust API that are character boundaries of the original text `t` (C08 `m2o_inv`: every morpheme offset
is one), Python reports the number of code points of `t` before `bb`, before `be`, and `len(m)` = their difference —
by `C08.origB2C_counts`, the table `begin_c/end_c` consult. -/
theorem py_offsets_are_codepoints (t : List Nat) (hne : 0 < nchars t) (bb be : Nat) (hb : BoOf t bb) (he : BoOf t be) :
    offsets t bb be = .val (toString (nchars (t.take bb)) ++ ":" ++ toString (nchars (t.take be)) ++ ":" ++
      toString (nchars (t.take be) - nchars (t.take bb))) := by
  simp [offsets, EditM.origB2C_counts t hne bb hb, EditM.origB2C_counts t hne be he]

open PyGlue in
/-- **`Morpheme.split(mode, out, add_single)` list handling**: with a valid mode, a live morpheme and `out` not its own
list, the returned list holds the declared units when there are any, else the morpheme itself unless `add_single=False`
(the default is True), else nothing — and a given `out` list is cleared and holds exactly that; `out=` the morpheme's own
list and an invalid mode are Python exceptions that leave `out` untouched. -/
theorem split_list_handling (a : SplitArgs) :
    (a.modeOk = true → a.out ≠ .own → a.indexOk = true → a.stale = false →
      split a = (if a.nsplits ≠ 0 then (.val (toString a.nsplits), .filled a.nsplits)
                 else if a.addSingle = some false then (.val "0", .cleared) else (.val "1", .filled 1))) ∧
    (a.modeOk = true → a.out = .own → split a = (.exc "Exception", .untouched)) ∧
    (a.modeOk = false → split a = (.exc "SudachiError", .untouched)) := by
  refine ⟨?_, ?_, ?_⟩
  · intro h1 h2 h3 h4
    simp only [split, h1, h2, h3, h4]
    by_cases hn : a.nsplits ≠ 0
    · simp [hn]
    · simp only [hn]
      cases hadd : a.addSingle with
      | none => simp [addSingleOf]
      | some b => cases b <;> simp [addSingleOf]
  · intro h1 h2; simp [split, h1, h2]
  · intro h1; simp [split, h1]

open PyGlue in
/-- **`Dictionary.create(fields=…)`**: no `fields` means all fields; every documented name maps to its `InfoSubset` bit
(`pos` and `pos_id` to the same one) and the tokenizer receives their union, closed by `set_subset` (a form pulls in the
surface, a split the head-word length, the mode its own split); an unknown name is a `SudachiError`. -/
theorem fields_subset :
    parseFields none = some 1023 ∧
    (∀ names, (∃ n ∈ names, fieldBit n = none) → ∀ mb, create true mb (some names) = .exc "SudachiError") ∧
    parseFields (some ["pos", "pos_id"]) = some 4 ∧ parseFields (some []) = some 0 ∧
    create true 64 (some ["dictionary_form", "pos"]) = .val "87" ∧ create true 0 none = .val "1023" := by
  refine ⟨rfl, ?_, by decide, by decide, by decide, by decide⟩
  intro names ⟨n, hn, hb⟩ mb
  have : Wire.allSome (names.map fieldBit) = none := by
    induction names with
    | nil => cases hn
    | cons x rest ih =>
      simp only [List.map_cons]
      cases hx : fieldBit x with
      | none => rfl
      | some v =>
        simp only [Wire.allSome]
        have : n ∈ rest := by
          rcases List.mem_cons.mp hn with rfl | h
          · rw [hb] at hx; cases hx
          · exact h
        rw [ih this]; rfl
  simp [create, parseFields, this]

/-- non-vacuity (Python glue): `あい` = 6 bytes; byte offsets 3..6 are characters 1..2; a morpheme without units -/
example : PyGlue.offsets [0xe3, 0x81, 0x82, 0xe3, 0x81, 0x84] 3 6 = .val "1:2:1" := by decide
example : EditM.BoOf [0xe3, 0x81, 0x82, 0xe3, 0x81, 0x84] 3 := Or.inr ⟨by decide, by decide⟩
example : PyGlue.split ⟨true, .other, none, true, 0, false⟩ = (.val "1", .filled 1) ∧
    PyGlue.split ⟨true, .other, some false, true, 0, false⟩ = (.val "0", .cleared) ∧
    PyGlue.split ⟨true, .own, none, true, 2, false⟩ = (.exc "Exception", .untouched) ∧
    PyGlue.split ⟨true, .other, none, false, 2, false⟩ = (.exc "PanicException", .cleared) := by decide
example : PyGlue.getitem 3 (.int (-1)) = .val "2" ∧ PyGlue.getitem 3 (.int 3) = .exc "IndexError" ∧ PyGlue.getitem 0 (.int 0) = .exc "IndexError" := by decide
/-- the split-made total `i32::MAX` against a negative first total: overflow -/
example : PyGlue.internalCost [-246, 2147483647] = .exc "PanicException" ∧ PyGlue.internalCost [5, 9, 20] = .val "15" := by decide

/-! ## Python SESSIONS: result lists sharing input cells (`Model/PySession.lean`, on C10's `Recycle.World`) -/
section Session
open Recycle PySession
variable {E : Type}

/-- the `out=` argument of a call and whether the call rewrites the CONTENT of the cell of `out` -/
def outOf : Call E → Option Nat
  | .tokenize _ out _ => out
  | .split _ _ a => a.out
  | .lookup _ out => out

def rewritesCell : Call E → Bool
  | .split _ _ _ => false
  | _ => true

/-- **(a) The result of `tokenize` does not depend on which list is passed as `out`** (a reused list, a list sharing
its cell with others, a stale list, or none).  For every state of a session (`ListsOk`: an invariant, see
`session_lists_always_have_a_cell`), text, per-call mode and two choices `out`, `out'`: both calls raise the same
exception class, or both return their list and what every accessor reads from it — the nodes and the content of its
cell — is THE SAME, namely the result path and input buffer of the tokenizer's analysis of `text` in the effective mode.
That this analysis depends only on (text, mode, field request) and not on the session's history is
`C10.observable_result_history_free`; the mode is restored by `C10.py_tokenize_restores_mode`. -/
theorem tokenize_result_independent_of_out (v : ResetVariant) (P : Payload E) (w : World E) (hok : ListsOk w)
    (mode : Option Recycle.Mode) (text : List E) (out out' : Option Nat)
    (ho : ∀ j, out = some j → j < w.lists.length) (ho' : ∀ j, out' = some j → j < w.lists.length) :
    let r := tokenize v P w mode out text
    let r' := tokenize v P w mode out' text
    (∃ e, r.2 = .exc e ∧ r'.2 = .exc e) ∨
    (r.2 = .list (outIdx w out) ∧ r'.2 = .list (outIdx w out') ∧
      view r.1 (outIdx w out) = view r'.1 (outIdx w out') ∧ (view r.1 (outIdx w out)).isSome = true) := by
  intro r r'
  obtain ⟨a1, a2, a3⟩ := tokenize_view v P w hok mode out text ho
  obtain ⟨b1, b2, b3⟩ := tokenize_view v P w hok mode out' text ho'
  by_cases hk : ((ovr v P mode w).tok.analyse v P text).2 = .ok
  · cases hp : ((ovr v P mode w).tok.analyse v P text).1.topPath with
    | none => exact Or.inl ⟨_, a2 hk hp, b2 hk hp⟩
    | some path =>
      obtain ⟨x1, x2, -⟩ := a1 hk path hp
      obtain ⟨y1, y2, -⟩ := b1 hk path hp
      exact Or.inr ⟨x1, y1, by rw [x2, y2], by rw [x2]; rfl⟩
  · have ha := a3 hk
    have hb := b3 hk
    cases hh : ((ovr v P mode w).tok.analyse v P text).2 with
    | ok => exact absurd hh hk
    | err e => rw [hh] at ha hb; exact Or.inl ⟨"SudachiError", ha, hb⟩
    | panic => rw [hh] at ha hb; exact Or.inl ⟨"PanicException", ha, hb⟩

/-- **(b) Lists that do not share a cell with `out` are unaffected by a call** — `tokenize`, `split`, `lookup`, with or
without `out=`, succeeding or raising.  Every list `k` other than the one the call writes reads after the call exactly
what it read before (same nodes, same cell, same cell content) unless the call rewrites a cell content (`tokenize`,
`lookup`) and `k` shares the cell of `out`.  In particular `split(out=o)` NEVER changes what any other list reads,
sharing or not: it re-points `o` and touches no cell. -/
theorem unshared_lists_unaffected (v : ResetVariant) (P : Payload E) (w : World E) (hok : ListsOk w) (c : Call E)
    (k : Nat) (hk : k < w.lists.length) (hne : k ≠ outIdx w (outOf c))
    (hns : rewritesCell c = true → ∀ o, outOf c = some o → shares w o k = false) :
    cellOf (step v P w c).1 k = cellOf w k := by
  have hps : ∀ (out : Option Nat), (∀ o, out = some o → shares w o k = false) →
      ∀ L, w.lists[k]? = some L → ¬ (partOf w (outIdx w out) = some L.part ∧ out.isSome = true) := by
    intro out hs L hL ⟨hp, hsome⟩
    cases out with
    | none => cases hsome
    | some o =>
      have := hs o rfl
      simp only [shares, hL] at this
      simp only [partOf, outIdx] at hp
      cases hLo : w.lists[o]? with
      | none => rw [hLo] at hp; cases hp
      | some Lo =>
        rw [hLo] at hp this
        have : Lo.part = L.part := by simpa using hp
        simp_all
  cases c with
  | tokenize mode out text =>
    exact (pyTokenize_touch v P w mode out text).cellOf hok k hne hk (hps out (hns rfl))
  | split i idx a =>
    exact (split_touch P w i idx a).cellOf hok k hne hk (fun _ _ h => h)
  | lookup q out =>
    exact (lookup_touch' P w q out).cellOf hok k hne hk (hps out (hns rfl))

/-- **Staleness, exactly**: after `tokenize(text, out=o)` returned, a list `k` that shares the cell of `o` keeps its
nodes and its cell, and the cell now holds the NEW text — `k` reads the content `o` reads (it is stale when it has
morphemes), and `o` still points to the same cell (the swap exchanges contents, not cells). -/
theorem sharing_lists_read_the_new_text (v : ResetVariant) (P : Payload E) (w : World E) (hok : ListsOk w)
    (mode : Option Recycle.Mode) (text : List E) (o k : Nat) (ho : o < w.lists.length) (hk : k < w.lists.length) (hne : k ≠ o)
    (hsh : shares w o k = true) (hret : (tokenize v P w mode (some o) text).2 = .list o) :
    let r := tokenize v P w mode (some o) text
    r.1.lists[k]? = w.lists[k]? ∧ partOf r.1 o = partOf w o ∧
    (cellOf r.1 k).map (·.2) = (cellOf r.1 o).map (·.2) := by
  intro r
  have ht := pyTokenize_touch v P w mode (some o) text
  have hl : r.1.lists[k]? = w.lists[k]? := ht.2.2.1 k hne hk
  obtain ⟨a1, a2, a3⟩ := tokenize_view v P w hok mode (some o) text (by intro j hj; cases hj; exact ho)
  have hpo : partOf r.1 o = partOf w o := by
    by_cases hq : ((ovr v P mode w).tok.analyse v P text).2 = .ok
    · cases hp : ((ovr v P mode w).tok.analyse v P text).1.topPath with
      | none => have := a2 hq hp; rw [this] at hret; cases hret
      | some path => exact (a1 hq path hp).2.2 o rfl
    · have := a3 hq
      rw [this] at hret
      cases hh : ((ovr v P mode w).tok.analyse v P text).2 with
      | ok => exact absurd hh hq
      | err e => rw [hh] at hret; cases hret
      | panic => rw [hh] at hret; cases hret
  refine ⟨hl, hpo, ?_⟩
  have hsame : partOf r.1 k = partOf r.1 o := by
    rw [hpo]
    show r.1.lists[k]?.map (·.part) = _
    rw [hl]
    simp only [shares] at hsh
    simp only [partOf]
    rw [List.getElem?_eq_getElem ho, List.getElem?_eq_getElem hk] at hsh ⊢
    have : w.lists[o].part = w.lists[k].part := by simpa using hsh
    simp [this]
  apply same_cell_same_text _ _ _ hsame
  show (r.1.lists[k]?.map (·.part)).isSome = true
  rw [hl, List.getElem?_eq_getElem hk]; rfl

/-- **`split(out=o)` re-points `o` to the parent's cell exactly when it writes** (units, or the morpheme itself for
`add_single`, whose default is True): then `o` holds the units and shares the parent's cell; when nothing is written `o`
is only cleared and KEEPS its own cell.  (Valid mode, `o` another existing list, index in range, parent not stale.) -/
theorem split_repoints_only_when_writing (P : Payload E) (w : World E) (i idx o : Nat) (a : SplitArgs)
    (Li Lo : MList E) (p : Part E) (node : E)
    (hm : a.modeOk = true) (hout : a.out = some o) (hoi : o ≠ i) (hu : a.unwinds = false)
    (hLi : w.lists[i]? = some Li) (hLo : w.lists[o]? = some Lo) (hn : Li.nodes[idx]? = some node)
    (hp : w.parts[Li.part]? = some p) :
    let units := P.splitNodes a.mode p.subset p.input.view node
    let r := split P w i idx a
    r.2 = .list o ∧
    (units ≠ [] → r.1.lists[o]? = some ⟨Li.part, units⟩) ∧
    (units = [] → a.addSingle ≠ some false → r.1.lists[o]? = some ⟨Li.part, [node]⟩) ∧
    (units = [] → a.addSingle = some false → r.1.lists[o]? = some ⟨Lo.part, []⟩) := by
  intro units r
  have ho : o < w.lists.length := by
    rcases Nat.lt_or_ge o w.lists.length with h | h
    · exact h
    · rw [List.getElem?_eq_none h] at hLo; cases hLo
  have hio : i ≠ o := fun h => hoi h.symm
  -- the world after `out.clear()`
  have hw1 : ((splitCell P w i a.out).step .fix P (.clear (outIdx w a.out))).1 =
      { w with lists := w.lists.set o { Lo with nodes := [] } } := by
    simp [hout, splitCell, outIdx, World.step, hLo]
  have hr : r = dropNew w a.out (splitCore P { w with lists := w.lists.set o { Lo with nodes := [] } } i idx a o) := by
    show split P w i idx a = _
    unfold split
    have h2 : ¬ (a.out = some i) := by rw [hout]; intro h; exact hoi (Option.some.inj h)
    simp only [hm, Bool.not_true, Bool.false_eq_true, if_false, h2]
    rw [hw1]; simp [hout, outIdx]
  have hsi : ({ w with lists := w.lists.set o { Lo with nodes := [] } } : World E).splitInto P i idx a.mode o =
      (if units.isEmpty then ({ w with lists := w.lists.set o { Lo with nodes := [] } } : World E)
       else { w with lists := (w.lists.set o { Lo with nodes := [] }).set o ⟨Li.part, [] ++ units⟩ }, .ok) := by
    unfold World.splitInto
    simp only [hio, if_false]
    have e1 : (w.lists.set o { Lo with nodes := [] })[i]? = some Li := by rw [List.getElem?_set_ne hoi, hLi]
    have e2 : (w.lists.set o { Lo with nodes := [] })[o]? = some { Lo with nodes := [] } := List.getElem?_set_self ho
    simp only [e1, e2, hn, hp]
    split <;> rfl
  rw [hr]
  unfold splitCore
  rw [hsi]
  simp only [hu, Bool.false_eq_true, if_false]
  by_cases hue : units = []
  · have hemp : units.isEmpty = true := by rw [hue]; rfl
    simp only [hemp, if_true]
    have hnn : hasNodes ({ w with lists := w.lists.set o { Lo with nodes := [] } } : World E) o = false := by
      simp [hasNodes, List.getElem?_set_self ho]
    rw [hnn]
    cases hadd : a.addSingle with
    | some b =>
      cases b with
      | false =>
        simp only [PyGlue.addSingleOf, Bool.false_and, Bool.false_eq_true, if_false, dropNew]
        refine ⟨by first | rfl | trivial, fun h => absurd hue h, fun _ h => absurd rfl h, fun _ _ => ?_⟩
        exact List.getElem?_set_self ho
      | true =>
        have hcs : copySlice ({ w with lists := w.lists.set o { Lo with nodes := [] } } : World E) i idx o =
            ({ w with lists := (w.lists.set o { Lo with nodes := [] }).set o ⟨Li.part, [] ++ [node]⟩ }, .ok) := by
          unfold copySlice
          have e1 : (w.lists.set o { Lo with nodes := [] })[i]? = some Li := by rw [List.getElem?_set_ne hoi, hLi]
          have e2 : (w.lists.set o { Lo with nodes := [] })[o]? = some { Lo with nodes := [] } := List.getElem?_set_self ho
          simp only [e1, e2, hn]
        simp only [PyGlue.addSingleOf, Bool.not_false, Bool.and_self, if_true, hcs, dropNew]
        refine ⟨by first | rfl | trivial, fun h => absurd hue h, fun _ _ => ?_, fun _ h => by cases h⟩
        show ((w.lists.set o _).set o _)[o]? = _
        rw [List.getElem?_set_self (by rw [List.length_set]; exact ho)]; rfl
    | none =>
      have hcs : copySlice ({ w with lists := w.lists.set o { Lo with nodes := [] } } : World E) i idx o =
          ({ w with lists := (w.lists.set o { Lo with nodes := [] }).set o ⟨Li.part, [] ++ [node]⟩ }, .ok) := by
        unfold copySlice
        have e1 : (w.lists.set o { Lo with nodes := [] })[i]? = some Li := by rw [List.getElem?_set_ne hoi, hLi]
        have e2 : (w.lists.set o { Lo with nodes := [] })[o]? = some { Lo with nodes := [] } := List.getElem?_set_self ho
        simp only [e1, e2, hn]
      simp only [PyGlue.addSingleOf, Bool.not_false, Bool.and_self, if_true, hcs, dropNew]
      refine ⟨by first | rfl | trivial, fun h => absurd hue h, fun _ _ => ?_, fun _ h => by cases h⟩
      show ((w.lists.set o _).set o _)[o]? = _
      rw [List.getElem?_set_self (by rw [List.length_set]; exact ho)]; rfl
  · have hemp : units.isEmpty = false := by
      cases hunits : units with
      | nil => exact absurd hunits hue
      | cons x xs => rfl
    simp only [hemp, Bool.false_eq_true, if_false]
    have hnn : hasNodes ({ w with lists := (w.lists.set o { Lo with nodes := [] }).set o ⟨Li.part, [] ++ units⟩ } : World E) o = true := by
      simp only [hasNodes]
      rw [List.getElem?_set_self (by rw [List.length_set]; exact ho)]
      simp [hue]
    rw [hnn]
    simp only [Bool.not_true, Bool.and_false, Bool.false_eq_true, if_false, dropNew]
    refine ⟨by first | rfl | trivial, fun _ => ?_, fun h => absurd h hue, fun h => absurd h hue⟩
    show ((w.lists.set o _).set o _)[o]? = _
    rw [List.getElem?_set_self (by rw [List.length_set]; exact ho)]; rfl

/-- **Every list always has a cell** (the model's counterpart of "the `Rc` a list holds is never dangling"): after ANY
session of `tokenize` / `split` / `lookup` calls — with any `out=` arguments, reused, shared or stale lists, calls that
raise, lists dropped with an exception — started from a new tokenizer, every existing list points to an existing cell, so
reading any list (`cellOf`) always finds nodes and a text to read them against. -/
theorem session_lists_always_have_a_cell (v : ResetVariant) (m : Recycle.Mode) (calls : List (Payload E × Call E)) (k : Nat)
    (hk : k < (run v (World.init m) calls).1.lists.length) :
    ListsOk (run v (World.init m) calls).1 ∧ (cellOf (run v (World.init m) calls).1 k).isSome = true := by
  have h := run_listsOk v calls (World.init m) (ListsOk.init m)
  exact ⟨h, cellOf_isSome _ h k hk⟩

end Session

open PySession PyGlue in
/-- **(c) Reading a stale list never crashes the model: it answers with data of the NEW text or an exception.**  For
ANY index tables `t` (the content the list's cell holds NOW, whatever text that is) and ANY node (offsets made for another
text, out of range, inside a character): `begin()`, `end()` and `raw_surface()` answer a value or `PanicException`, never
`crash`; a surface that is returned is a contiguous slice of the cell's CURRENT `original` text that starts and ends on
character boundaries of it; an offset that is returned is an entry of the current text's `orig_b2c` table (not the
`usize::MAX` filler); and a kept `Morpheme` whose index is beyond the list's current length raises.  PARTIAL for the
real extension as `py_never_crashes`: PyO3's panic-to-exception conversion is exercised (every list and every kept
morpheme is read after every call of every session and compared with this model), not proved. -/
theorem stale_read_never_crashes (t : Tabs) (n : NodeR) (nodes : List Nat) (ix : Nat) :
    (∀ o ∈ readNode t n, o ≠ .crash) ∧ (∀ o ∈ readKept t nodes ix, o ≠ .crash) ∧
    (∀ s, origSlice t n.bb n.eb = some s → ∃ a b, a ≤ b ∧ b ≤ t.orig.length ∧ s = (t.orig.drop a).take (b - a) ∧
      isBoundary t.orig a = true ∧ isBoundary t.orig b = true) ∧
    (∀ c, origCharIdx t n.bc = some c → c ∈ t.ob2c ∧ c ≠ usizeMax ∧ t.state ≠ 0) ∧
    (nodes.length ≤ ix → readKept t nodes ix = [.exc "PanicException", .exc "PanicException", .exc "PanicException"]) := by
  have hobs : ∀ {α : Type} (f : α → String) (x : Option α), obsOf f x ≠ .crash := by
    intro α f x; cases x <;> simp [obsOf]
  have hrn : ∀ n, ∀ o ∈ readNode t n, o ≠ .crash := by
    intro n o ho
    simp only [readNode, List.mem_cons, List.mem_nil_iff, or_false] at ho
    rcases ho with rfl | rfl | rfl <;> exact hobs _ _
  refine ⟨hrn n, ?_, ?_, ?_, ?_⟩
  · intro o ho
    unfold readKept at ho
    split at ho
    · simp only [List.mem_cons, List.mem_nil_iff, or_false] at ho
      rcases ho with rfl | rfl | rfl <;> simp
    · exact hrn _ o ho
  · intro s hs
    unfold origSlice at hs
    split at hs
    · cases hs
    · split at hs
      · cases hs
      · split at hs
        · rename_i a b _ _
          split at hs
          · rename_i hc
            cases hs
            exact ⟨a, b, hc.1, hc.2.1, rfl, hc.2.2.1, hc.2.2.2⟩
          · cases hs
        · cases hs
  · intro c hc
    unfold origCharIdx origByteIdx at hc
    split at hc
    · cases hc
    · rename_i b hb
      split at hc
      · cases hc
      · rename_i r hr
        split at hc
        · cases hc
        · rename_i hne
          cases hc
          refine ⟨List.mem_of_getElem? hr, hne, ?_⟩
          intro h0
          simp [h0] at hb
  · intro hlen
    unfold readKept
    rw [List.getElem?_eq_none hlen]

/-- non-vacuity (sessions): the tables of `あい` (6 bytes, 2 characters).  A node made for it reads `0:1:あ`; a node made for
a longer text (characters 2..3, bytes 6..9) raises on every accessor; a node that ends inside `い` (byte 4) raises on
`raw_surface` only. -/
example :
    let t : PySession.Tabs := ⟨2, [0xe3, 0x81, 0x82, 0xe3, 0x81, 0x84], [0xe3, 0x81, 0x82, 0xe3, 0x81, 0x84],
      [0, 1, 2, 3, 4, 5, 6], [0, 3, 6], [0, PySession.usizeMax, PySession.usizeMax, 1, PySession.usizeMax, PySession.usizeMax, 2]⟩
    PySession.readNode t ⟨0, 1, 0, 3⟩ = [.val "0", .val "1", .val "e38182"] ∧
    PySession.readNode t ⟨2, 3, 6, 9⟩ = [.val "2", .exc "PanicException", .exc "PanicException"] ∧
    PySession.readNode t ⟨0, 1, 0, 4⟩ = [.val "0", .val "1", .exc "PanicException"] := by decide

end C19
