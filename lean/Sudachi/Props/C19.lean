import Sudachi.Proofs.Cli
/-!
# C19 — Python bindings and the CLI report exactly what the core library computes

Model: `Cli.run` (`sudachi-cli`: read-line loop, `strip_eol`, the analysis modes, `Simple`/`Wakachi`
writers) with the library (sentence splitter, tokenizer, morpheme fields) as a parameter, and
`Cli.pyRun` (Python `Tokenizer.tokenize(text, mode=…)`: override + scope-guard restore).
What the library computes is C01–C16; that the real binary/extension prints exactly what the model
says for the library's answers is the correspondence run of this check.  "No sequence of Python calls
crashes the interpreter" is a runtime claim the model cannot express: it is exercised by the Python
run of the check and labelled partial.
-/
namespace C19
open Cli

/-- **Line terminators are removed** (repaired guards `len > 0`): LF and CRLF are stripped, a line
without terminator is untouched; in particular a blank line is analysed as the empty text. -/
theorem strip_eol_spec (l : Bytes) :
    (l.getLast? ≠ some 13 → stripEolFix (l ++ [10]) = l) ∧
    stripEolFix (l ++ [13, 10]) = l ∧
    (l.getLast? ≠ some 10 → stripEolFix l = l) := by
  refine ⟨?_, ?_, ?_⟩
  · intro h
    unfold stripEolFix
    simp only [getLast?_append_single, dropLast_append_single, List.length_append, List.length_singleton]
    simp [h]
  · unfold stripEolFix
    have h1 : l ++ [13, 10] = (l ++ [13]) ++ [10] := by simp
    rw [h1]
    simp only [getLast?_append_single, dropLast_append_single, List.length_append, List.length_singleton]
    simp
  · intro h
    unfold stripEolFix
    simp [h]

/-- **The code as it stands violates the blank-line clause** (D14): a blank line keeps its
terminator, a blank CRLF line keeps the CR, so the line is analysed as a one-character text. -/
theorem strip_eol_counterexample :
    stripEolCur [10] = [10] ∧ stripEolCur [13, 10] = [13] ∧ stripEolFix [10] = [] ∧ stripEolFix [13, 10] = [] := by
  decide

/-- what the code as it stands does guarantee: non-blank lines are stripped correctly -/
theorem strip_eol_cur_partial (l : Bytes) (hne : l ≠ []) :
    (l.getLast? ≠ some 13 → stripEolCur (l ++ [10]) = l) ∧
    stripEolCur (l ++ [13, 10]) = l ∧
    (l.getLast? ≠ some 10 → stripEolCur l = l) := by
  have hlen : 0 < l.length := List.length_pos_iff.mpr hne
  refine ⟨?_, ?_, ?_⟩
  · intro h
    unfold stripEolCur
    simp only [getLast?_append_single, dropLast_append_single, List.length_append, List.length_singleton]
    simp [h]; omega
  · unfold stripEolCur
    have h1 : l ++ [13, 10] = (l ++ [13]) ++ [10] := by simp
    rw [h1]
    simp only [getLast?_append_single, dropLast_append_single, List.length_append, List.length_singleton]
    simp; omega
  · intro h
    unfold stripEolCur
    simp [h]

/-- **Every byte of the input is analysed exactly once, line by line**: the lines read by the loop
concatenate to the file, none is empty, each ends with its only `\n` or (the last one) has none. -/
theorem lines_partition (file : Bytes) :
    (lines file).flatten = file ∧ (∀ l ∈ lines file, l ≠ []) ∧
    (∀ l ∈ lines file, (∃ body, l = body ++ [10] ∧ ∀ b ∈ body, b ≠ 10) ∨ (∀ b ∈ l, b ≠ 10)) := by
  refine ⟨by simpa [lines] using linesGo_flatten file [], linesGo_nonempty file [], ?_⟩
  exact linesGo_shape file [] (by intro b hb; cases hb)

/-- **Output of one line = per sentence, the formatted library result** (all texts accepted): in the default mode a
line whose stripped text splits into sentences `ss` makes the writer receive the formats of the tokenisations of `ss`
in order; with sentence splitting off the format of the whole line; with `only` the sentences themselves, unseparated. -/
theorem line_output (lib : Lib) (f : Flags) (text : Bytes) (h : ∀ s ∈ unitsOf lib f text, Accepts lib s) :
    (analyzeLine lib f text).outs = specLine lib f text ∧ (analyzeLine lib f text).exit = .ok ∧
    (f.split = .none → specLine lib f text = fmtRes f (lib.tokenize subsetAll text)) ∧
    (f.split = .default → specLine lib f text = ((lib.split text).map (fun s => fmtRes f (lib.tokenize subsetAll s))).flatten) ∧
    (f.split = .only → specLine lib f text = (lib.split text).flatten) := by
  rw [analyzeLine_ok lib f text h]
  refine ⟨rfl, rfl, ?_, ?_, ?_⟩ <;> intro hs <;> simp [specLine, unitsOf, hs]

/-- **END TO END: what the tool delivers is exactly the formatted library morphemes, per line, per sentence**
(`cli_output_is_library_output`).  For every library behaviour, every flag combination (format, `-a`, split mode, `-d`,
`-o`), every input (file or stdin: the model does not distinguish them) in which the library accepts every text handed
to it: the process exits 0; with `-o` the file holds exactly `spec` = the concatenation over the lines read, over the
sentences of the stripped line, of `format (tokenize ALL-FIELDS sentence)` and stdout holds only the debug dumps (nothing
without `-d`); without `-o` stdout holds, line by line, the dumps of the line followed by `spec` of the line — so without
`-d` stdout is exactly `spec`.  The analysis runs with `InfoSubset::all()`: `SudachiOutput::subset()` is dead code. -/
theorem cli_output_is_library_output (lib : Lib) (f : Flags) (outOk : Bool) (file : Bytes)
    (hout : f.toFile = true → outOk = true)
    (hacc : ∀ l ∈ lines file, ∀ s ∈ unitsOf lib f (stripEol f.strip l), Accepts lib s) :
    let spec := ((lines file).map (fun l => specLine lib f (stripEol f.strip l))).flatten
    let r := run lib f true outOk file
    r.exit = .ok ∧
    (f.toFile = true → r.file = some spec ∧
      r.stdout = ((lines file).map (fun l => dumpsLine lib f (stripEol f.strip l))).flatten) ∧
    (f.toFile = false → r.file = none ∧
      r.stdout = ((lines file).map (fun l => dumpsLine lib f (stripEol f.strip l) ++ specLine lib f (stripEol f.strip l))).flatten) ∧
    (f.toFile = false → f.debug = false → r.stdout = spec) ∧
    (f.debug = false → ∀ l, dumpsLine lib f l = []) := by
  intro spec r
  have hrun := runLines_ok lib f (lines file) hacc
  have hexit : exitOf (runLines lib f (lines file)) = .ok := by
    apply exitOf_all_ok; rw [hrun]; intro e he; simp only [List.mem_map] at he; obtain ⟨_, _, rfl⟩ := he; rfl
  have hd : f.debug = false → ∀ l, dumpsLine lib f l = [] := by intro h l; simp [dumpsLine, h]
  cases htf : f.toFile with
  | true =>
    have ho := hout htf
    refine ⟨?_, ?_, ?_, ?_, hd⟩
    · simp [r, run, htf, ho, hexit]
    · intro _; simp [r, run, htf, ho, hrun, spec, List.map_map, Function.comp_def]
    · intro h; cases h
    · intro h; cases h
  | false =>
    refine ⟨?_, ?_, ?_, ?_, hd⟩
    · simp [r, run, htf, hexit]
    · intro h; cases h
    · intro _; simp [r, run, htf, hrun, List.map_map, Function.comp_def]
    · intro _ hdb; simp [r, run, htf, hrun, spec, List.map_map, Function.comp_def, hd hdb]

/-- **A text the library rejects stops the tool** (e.g. a line above 49 149 bytes with `--split-sentences=none`, or one
of its sentences otherwise): if the lines `pre` are accepted and the next line `l` has accepted sentences `us1` followed
by a rejected sentence `s`, the process exits with the panic status (101), the writer has received exactly the results
of `pre` and of `us1` (flushed by the `BufWriter`'s drop), and nothing that follows — neither the rest of the line nor
the remaining lines `post` — is analysed: the outcome is the same for every `post`. -/
theorem cli_stops_at_first_error (lib : Lib) (f : Flags) (file : Bytes) (pre post : List Bytes) (l s d : Bytes) (us1 us2 : List Bytes)
    (hlines : lines file = pre ++ l :: post) (hsplit : f.split = .default)
    (hpre : ∀ x ∈ pre, ∀ u ∈ unitsOf lib f (stripEol f.strip x), Accepts lib u)
    (hunits : lib.split (stripEol f.strip l) = us1 ++ s :: us2) (hus1 : ∀ u ∈ us1, Accepts lib u)
    (hs : lib.tokenize subsetAll s = .err d) (htf : f.toFile = false) (hdb : f.debug = false) :
    let r := run lib f true true file
    r.exit = .panic ∧
    r.stdout = (pre.map (fun x => specLine lib f (stripEol f.strip x))).flatten ++
      (us1.map (fun u => fmtRes f (lib.tokenize subsetAll u))).flatten := by
  intro r
  have hse := analyzeSents_err lib f s d us2 hs us1 hus1
  have hline : (analyzeLine lib f (stripEol f.strip l)).exit = .panic ∧
      (analyzeLine lib f (stripEol f.strip l)).outs = (us1.map (fun u => fmtRes f (lib.tokenize subsetAll u))).flatten := by
    simp only [analyzeLine, hsplit, hunits]; exact ⟨hse.2, hse.1⟩
  have hne : (analyzeLine lib f (stripEol f.strip l)).exit ≠ .ok := by rw [hline.1]; decide
  have hrun := runLines_err lib f l post hne pre hpre
  have hdl : ∀ t, (analyzeLine lib f t).dumps = [] := by
    intro t
    have h1 : ∀ u, (analyzeOne lib f u).dumps = [] := by
      intro u; unfold analyzeOne; cases lib.tokenize (cliSubset f) u <;> simp [hdb]
    have h2 : ∀ ss, (analyzeSents lib f ss).dumps = [] := by
      intro ss; induction ss with
      | nil => rfl
      | cons a rest ih => simp only [analyzeSents]; split <;> simp [h1, ih]
    unfold analyzeLine; cases f.split <;> simp [h1, h2]
  have hd0 : ∀ t, dumpsLine lib f t = [] := by intro t; simp [dumpsLine, hdb]
  refine ⟨?_, ?_⟩
  · simp [r, run, htf, hlines, hrun, exitOf_append_single, hline.1]
  · simp [r, run, htf, hlines, hrun, List.map_map, Function.comp_def, hd0, hdl, hline.2]

/-- the same with sentence splitting off: the rejected line itself ends the run -/
theorem cli_stops_at_first_error_nosplit (lib : Lib) (f : Flags) (file : Bytes) (pre post : List Bytes) (l d : Bytes)
    (hlines : lines file = pre ++ l :: post) (hsplit : f.split = .none)
    (hpre : ∀ x ∈ pre, ∀ u ∈ unitsOf lib f (stripEol f.strip x), Accepts lib u)
    (hs : lib.tokenize subsetAll (stripEol f.strip l) = .err d) (htf : f.toFile = false) (hdb : f.debug = false) :
    let r := run lib f true true file
    r.exit = .panic ∧ r.stdout = (pre.map (fun x => specLine lib f (stripEol f.strip x))).flatten := by
  intro r
  have hone := analyzeOne_err lib f _ d hs
  have hline : analyzeLine lib f (stripEol f.strip l) = ⟨[], [], .panic⟩ := by
    simp [analyzeLine, hsplit, hone, hdb]
  have hne : (analyzeLine lib f (stripEol f.strip l)).exit ≠ .ok := by rw [hline]; decide
  have hrun := runLines_err lib f l post hne pre hpre
  have hd0 : ∀ t, dumpsLine lib f t = [] := by intro t; simp [dumpsLine, hdb]
  refine ⟨?_, ?_⟩
  · simp [r, run, htf, hlines, hrun, exitOf_append_single, hline]
  · simp [r, run, htf, hlines, hrun, List.map_map, Function.comp_def, hd0, hline]

/-- **`-o` and `-d` do not change what is delivered**: for EVERY input and library behaviour (errors included) the file
written with `-o` (with or without `-d`) is byte for byte the stdout of the plain run, the exit status is the same, and
with `-o` but without `-d` nothing is printed on stdout. -/
theorem output_file_and_debug_do_not_change_results (lib : Lib) (f : Flags) (d : Bool) (file : Bytes) :
    let plain := run lib { f with debug := false, toFile := false } true true file
    let r := run lib { f with debug := d, toFile := true } true true file
    r.file = some plain.stdout ∧ r.exit = plain.exit ∧ (d = false → r.stdout = []) := by
  intro plain r
  obtain ⟨h1, h2, h3⟩ := runLines_congr lib lib { f with debug := d, toFile := true } { f with debug := false, toFile := false }
    rfl rfl rfl rfl (fun _ => rfl) (fun _ => rfl) (lines file)
  refine ⟨?_, ?_, ?_⟩
  · simp only [r, plain, run]
    simp only [Bool.not_true, Bool.false_eq_true, if_false, Bool.and_false, if_true, Option.some.injEq]
    rw [h1]
    have : ∀ (evs : List Emit), (∀ e ∈ evs, e.dumps = []) → (evs.map (fun e => e.dumps ++ e.outs)) = evs.map (·.outs) := by
      intro evs h; apply List.map_congr_left; intro e he; simp [h e he]
    rw [this]
    exact runLines_nodebug_dumps lib _ rfl (lines file)
  · simp only [r, plain, run]
    simp [h2]
  · intro hd
    subst hd
    simp only [r, run]
    simp only [Bool.not_true, Bool.false_eq_true, if_false, Bool.and_false, if_true]
    exact flatten_map_nil _ _ (runLines_nodebug_dumps lib _ rfl (lines file))

/-- **Only the ALL-FIELDS answers of the library reach the output**: two libraries that agree on sentence splitting and
on the analysis with `InfoSubset::all()` give the same run, whatever they answer for any other subset (in particular for
the subset `SudachiOutput::subset()` declares, which for `--wakati` is empty: `outputSubset`). -/
theorem cli_subset_is_full (lib lib' : Lib) (f : Flags) (i o : Bool) (file : Bytes)
    (ht : ∀ t, lib.tokenize subsetAll t = lib'.tokenize subsetAll t) (hsp : ∀ t, lib.split t = lib'.split t) :
    run lib f i o file = run lib' f i o file ∧ cliSubset f = subsetAll ∧ (f.wakati = true → outputSubset f = 0) := by
  obtain ⟨_, _, h3⟩ := runLines_congr lib lib' f f rfl rfl rfl rfl ht hsp (lines file)
  refine ⟨?_, rfl, ?_⟩
  · simp only [run]; rw [h3 rfl]
  · intro h; simp [outputSubset, h]

/-- **A file that cannot be opened**: the input is opened first, the output second, both before the dictionary is
loaded; either failure is a panic (status 101) with nothing written and — for a missing input — no output file created. -/
theorem open_failure (lib : Lib) (f : Flags) (o : Bool) (file : Bytes) :
    run lib f false o file = ⟨[], none, .panic⟩ ∧ (f.toFile = true → run lib f true false file = ⟨[], none, .panic⟩) := by
  constructor
  · simp [run]
  · intro h; simp [run, h]

/-- an empty analysis prints `EOS` alone in the column format and an empty line with `--wakati` -/
theorem empty_analysis_output (all : Bool) :
    simpleOut all [] = asciiBytes "EOS\n" ∧ wakatiOut [] = [10] := by
  constructor <;> rfl

/-- **A per-call mode override never affects later calls**: after any sequence of `tokenize` calls,
with or without override, succeeding or failing, the tokenizer holds the mode it was created with;
and every call ran in its override if given, else in that mode. -/
theorem mode_restored (t : PyTok) (calls : List (Option Mode × Bool)) :
    (pyRun t calls).1.mode = t.mode ∧
    (pyRun t calls).2 = calls.map (fun c => c.1.getD t.mode) := by
  induction calls generalizing t with
  | nil => exact ⟨rfl, rfl⟩
  | cons c rest ih =>
    obtain ⟨o, f⟩ := c
    cases o with
    | none =>
      have := ih t
      simp only [pyRun, pyTokenize, List.map_cons, Option.getD_none]
      exact ⟨this.1, by rw [this.2]⟩
    | some m =>
      have := ih { mode := t.mode }
      simp only [pyRun, pyTokenize, List.map_cons, Option.getD_some]
      exact ⟨this.1, by rw [this.2]⟩

/-- non-vacuity: a three-line file with a blank line and a CRLF line -/
example : lines [97, 10, 10, 98, 13, 10, 99] = [[97, 10], [10], [98, 13, 10], [99]] ∧
    (lines [97, 10, 10, 98, 13, 10, 99]).map stripEolFix = [[97], [], [98], [99]] ∧
    (lines [97, 10, 10, 98, 13, 10, 99]).map stripEolCur = [[97], [10], [98], [99]] := by
  decide

/-- non-vacuity of `cli_output_is_library_output` / `cli_stops_at_first_error*`: a library that accepts `a`, rejects `b` -/
def exLib : Lib where
  split := fun t => if t = [97, 46, 98] then [[97, 46], [98]] else [t]
  tokenize := fun _ t => if t = [98] then .err [33] else .ok [⟨t, [[80]], t, t, t, 0, [], false⟩] [100, 10]

example : (run exLib ⟨true, false, .default, .fix, false, false⟩ true true [97, 10, 99, 10]).exit = .ok ∧
    (run exLib ⟨true, false, .default, .fix, false, false⟩ true true [97, 10, 99, 10]).stdout = [97, 10, 99, 10] := by decide
example : run exLib ⟨true, false, .default, .fix, false, false⟩ true true [99, 10, 97, 46, 98, 10, 99, 10] =
    ⟨[99, 10, 97, 46, 10], none, .panic⟩ := by decide
example : run exLib ⟨true, false, .none, .fix, false, false⟩ true true [99, 10, 98, 10, 99, 10] = ⟨[99, 10], none, .panic⟩ := by decide
/-- `-d` on stdout: dumps of the line first, then its results; `-d -o`: dumps on stdout, results in the file -/
example : run exLib ⟨true, false, .default, .fix, true, false⟩ true true [97, 10] = ⟨[100, 10, 97, 10], none, .ok⟩ ∧
    run exLib ⟨true, false, .default, .fix, true, true⟩ true true [97, 10] = ⟨[100, 10], some [97, 10], .ok⟩ := by decide

/-! ## Python glue (`Model/PyGlue.lean`) -/
open PyGlue in
/-- **"No crash", over the model of the argument handling**: whatever Python passes — any subscript (negative, out of
range, a slice, a string, an int beyond `isize`), a `Morpheme` whose list was reused for a shorter or another result, byte
offsets that are no character boundary, `out=` the morpheme's own list, a mode that is no mode, an unknown field name,
path totals whose difference leaves `i32` — every modelled entry point answers with a value, a Python exception or
(stale objects) an unspecified value/exception; none of them returns `crash`.  PARTIAL for the real extension: that a Rust
panic is turned into `PanicException` by PyO3 and that the `unsafe` lifetime extension of `PyMorpheme::morph` is sound are
exercised by the session runs (the interpreter must answer every call and exit normally), not proved. -/
theorem py_never_crashes :
    (∀ len a, getitem len a ≠ .crash) ∧ (∀ n i st v, access n i st v ≠ .crash) ∧ (∀ t bb be, offsets t bb be ≠ .crash) ∧
    (∀ a, (split a).1 ≠ .crash) ∧ (∀ mo mb fl, create mo mb fl ≠ .crash) ∧ (∀ ts, internalCost ts ≠ .crash) := by
  refine ⟨?_, ?_, ?_, ?_, ?_, ?_⟩
  · intro len a; cases a <;> simp only [getitem] <;> (repeat' split) <;> simp
  · intro n i st v; simp only [access]; split <;> (try split) <;> simp
  · intro t bb be; simp only [offsets]; split <;> simp
  · intro a; simp only [split]; repeat' split
    all_goals simp
  · intro mo mb fl; simp only [create]; split <;> (try split) <;> simp
  · intro ts; cases ts with
    | nil => simp [internalCost]
    | cons a r => simp only [internalCost]; (repeat' split) <;> simp

open PyGlue in
/-- **`MorphemeList[i]` is Python sequence indexing for ints and an exception for everything else** (slices are not
supported), and iteration yields exactly `len` items. -/
theorem getitem_spec (len : Nat) (i : Int) :
    (0 ≤ i → i < len → getitem len (.int i) = .val (toString i)) ∧
    (i < 0 → 0 ≤ i + len → getitem len (.int i) = .val (toString (i + len))) ∧
    ((len : Int) ≤ i ∨ i + len < 0 → getitem len (.int i) = .exc "IndexError") ∧
    getitem len .other = .exc "TypeError" ∧ getitem len .huge = .exc "OverflowError" ∧ (iterate len).length = len := by
  refine ⟨?_, ?_, ?_, rfl, rfl, by simp [iterate]⟩
  · intro h0 h1
    have : ¬ i < 0 := by omega
    simp only [getitem, this, if_false]
    rw [if_neg (by intro h; rcases h with h | h <;> omega)]
  · intro h0 h1
    simp only [getitem, h0, if_true]
    rw [if_neg (by intro h; rcases h with h | h <;> omega)]
  · intro h
    simp only [getitem]
    by_cases hn : i < 0
    · simp only [hn, if_true]; rw [if_pos (by omega)]
    · simp only [hn, if_false]; rw [if_pos (by omega)]

open PyGlue EditM in
/-- **`Morpheme.begin()/end()` are CODE-POINT offsets: the conversion is the one C08 describes.**  For byte offsets
`bb`, `be` of the Rust API that are character boundaries of the original text `t` (C08 `m2o_inv`: every morpheme offset
is one), Python reports the number of code points of `t` before `bb`, before `be`, and `len(m)` = their difference —
by `C08.origB2C_counts`, the table `begin_c/end_c` consult. -/
theorem py_offsets_are_codepoints (t : List Nat) (hne : 0 < nchars t) (bb be : Nat) (hb : BoOf t bb) (he : BoOf t be) :
    offsets t bb be = .val (toString (nchars (t.take bb)) ++ ":" ++ toString (nchars (t.take be)) ++ ":" ++
      toString (nchars (t.take be) - nchars (t.take bb))) := by
  simp [offsets, EditM.origB2C_counts t hne bb hb, EditM.origB2C_counts t hne be he]

open PyGlue in
/-- **`Morpheme.split(mode, out, add_single)` list handling**: with a valid mode, a live morpheme and `out` not its own
list, the returned list holds the declared units when there are any, else the morpheme itself unless `add_single=False`
(the default is True), else nothing — and a given `out` list is cleared and holds exactly that; `out=` the morpheme's own
list and an invalid mode are Python exceptions that leave `out` untouched. -/
theorem split_list_handling (a : SplitArgs) :
    (a.modeOk = true → a.out ≠ .own → a.indexOk = true → a.stale = false →
      split a = (if a.nsplits ≠ 0 then (.val (toString a.nsplits), .filled a.nsplits)
                 else if a.addSingle = some false then (.val "0", .cleared) else (.val "1", .filled 1))) ∧
    (a.modeOk = true → a.out = .own → split a = (.exc "Exception", .untouched)) ∧
    (a.modeOk = false → split a = (.exc "SudachiError", .untouched)) := by
  refine ⟨?_, ?_, ?_⟩
  · intro h1 h2 h3 h4
    simp only [split, h1, h2, h3, h4]
    by_cases hn : a.nsplits ≠ 0
    · simp [hn]
    · simp only [hn]
      cases hadd : a.addSingle with
      | none => simp [addSingleOf]
      | some b => cases b <;> simp [addSingleOf]
  · intro h1 h2; simp [split, h1, h2]
  · intro h1; simp [split, h1]

open PyGlue in
/-- **`Dictionary.create(fields=…)`**: no `fields` means all fields; every documented name maps to its `InfoSubset` bit
(`pos` and `pos_id` to the same one) and the tokenizer receives their union, closed by `set_subset` (a form pulls in the
surface, a split the head-word length, the mode its own split); an unknown name is a `SudachiError`. -/
theorem fields_subset :
    parseFields none = some 1023 ∧
    (∀ names, (∃ n ∈ names, fieldBit n = none) → ∀ mb, create true mb (some names) = .exc "SudachiError") ∧
    parseFields (some ["pos", "pos_id"]) = some 4 ∧ parseFields (some []) = some 0 ∧
    create true 64 (some ["dictionary_form", "pos"]) = .val "87" ∧ create true 0 none = .val "1023" := by
  refine ⟨rfl, ?_, by decide, by decide, by decide, by decide⟩
  intro names ⟨n, hn, hb⟩ mb
  have : Wire.allSome (names.map fieldBit) = none := by
    induction names with
    | nil => cases hn
    | cons x rest ih =>
      simp only [List.map_cons]
      cases hx : fieldBit x with
      | none => rfl
      | some v =>
        simp only [Wire.allSome]
        have : n ∈ rest := by
          rcases List.mem_cons.mp hn with rfl | h
          · rw [hb] at hx; cases hx
          · exact h
        rw [ih this]; rfl
  simp [create, parseFields, this]

/-- non-vacuity (Python glue): `あい` = 6 bytes; byte offsets 3..6 are characters 1..2; a morpheme without units -/
example : PyGlue.offsets [0xe3, 0x81, 0x82, 0xe3, 0x81, 0x84] 3 6 = .val "1:2:1" := by decide
example : EditM.BoOf [0xe3, 0x81, 0x82, 0xe3, 0x81, 0x84] 3 := Or.inr ⟨by decide, by decide⟩
example : PyGlue.split ⟨true, .other, none, true, 0, false⟩ = (.val "1", .filled 1) ∧
    PyGlue.split ⟨true, .other, some false, true, 0, false⟩ = (.val "0", .cleared) ∧
    PyGlue.split ⟨true, .own, none, true, 2, false⟩ = (.exc "Exception", .untouched) ∧
    PyGlue.split ⟨true, .other, none, false, 2, false⟩ = (.exc "PanicException", .cleared) := by decide
example : PyGlue.getitem 3 (.int (-1)) = .val "2" ∧ PyGlue.getitem 3 (.int 3) = .exc "IndexError" ∧ PyGlue.getitem 0 (.int 0) = .exc "IndexError" := by decide
/-- the split-made total `i32::MAX` against a negative first total: overflow -/
example : PyGlue.internalCost [-246, 2147483647] = .exc "PanicException" ∧ PyGlue.internalCost [5, 9, 20] = .val "15" := by decide

end C19
