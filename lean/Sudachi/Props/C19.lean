import Sudachi.Proofs.Cli
/-!
# C19 — Python bindings and the CLI report exactly what the core library computes

Model: `Cli.run` (`sudachi-cli`: read-line loop, `strip_eol`, the analysis modes, `Simple`/`Wakachi`
writers) with the library (sentence splitter, tokenizer, morpheme fields) as a parameter, and
`Cli.pyRun` (Python `Tokenizer.tokenize(text, mode=…)`: override + scope-guard restore).
What the library computes is C01–C16; that the real binary/extension prints exactly what the model
says for the library's answers is the correspondence run of this check.  "No sequence of Python calls
crashes the interpreter" is a runtime claim the model cannot express: it is exercised by the Python
run of the check and labelled partial.
-/
namespace C19
open Cli

/-- **Line terminators are removed** (repaired guards `len > 0`): LF and CRLF are stripped, a line
without terminator is untouched; in particular a blank line is analysed as the empty text. -/
theorem strip_eol_spec (l : Bytes) :
    (l.getLast? ≠ some 13 → stripEolFix (l ++ [10]) = l) ∧
    stripEolFix (l ++ [13, 10]) = l ∧
    (l.getLast? ≠ some 10 → stripEolFix l = l) := by
  refine ⟨?_, ?_, ?_⟩
  · intro h
    unfold stripEolFix
    simp only [getLast?_append_single, dropLast_append_single, List.length_append, List.length_singleton]
    simp [h]
  · unfold stripEolFix
    have h1 : l ++ [13, 10] = (l ++ [13]) ++ [10] := by simp
    rw [h1]
    simp only [getLast?_append_single, dropLast_append_single, List.length_append, List.length_singleton]
    simp
  · intro h
    unfold stripEolFix
    simp [h]

/-- **The code as it stands violates the blank-line clause** (D14): a blank line keeps its
terminator, a blank CRLF line keeps the CR, so the line is analysed as a one-character text. -/
theorem strip_eol_counterexample :
    stripEolCur [10] = [10] ∧ stripEolCur [13, 10] = [13] ∧ stripEolFix [10] = [] ∧ stripEolFix [13, 10] = [] := by
  decide

/-- what the code as it stands does guarantee: non-blank lines are stripped correctly -/
theorem strip_eol_cur_partial (l : Bytes) (hne : l ≠ []) :
    (l.getLast? ≠ some 13 → stripEolCur (l ++ [10]) = l) ∧
    stripEolCur (l ++ [13, 10]) = l ∧
    (l.getLast? ≠ some 10 → stripEolCur l = l) := by
  have hlen : 0 < l.length := List.length_pos_iff.mpr hne
  refine ⟨?_, ?_, ?_⟩
  · intro h
    unfold stripEolCur
    simp only [getLast?_append_single, dropLast_append_single, List.length_append, List.length_singleton]
    simp [h]; omega
  · unfold stripEolCur
    have h1 : l ++ [13, 10] = (l ++ [13]) ++ [10] := by simp
    rw [h1]
    simp only [getLast?_append_single, dropLast_append_single, List.length_append, List.length_singleton]
    simp; omega
  · intro h
    unfold stripEolCur
    simp [h]

/-- **Every byte of the input is analysed exactly once, line by line**: the lines read by the loop
concatenate to the file, none is empty, each ends with its only `\n` or (the last one) has none. -/
theorem lines_partition (file : Bytes) :
    (lines file).flatten = file ∧ (∀ l ∈ lines file, l ≠ []) ∧
    (∀ l ∈ lines file, (∃ body, l = body ++ [10] ∧ ∀ b ∈ body, b ≠ 10) ∨ (∀ b ∈ l, b ≠ 10)) := by
  refine ⟨by simpa [lines] using linesGo_flatten file [], linesGo_nonempty file [], ?_⟩
  exact linesGo_shape file [] (by intro b hb; cases hb)

/-- **Output = concatenation, per line, per sentence, of the formatted library result**: in the
default mode a line whose stripped text splits into sentences `ss` prints the formats of the
tokenisations of `ss` in order; with sentence splitting off it prints the format of the whole line. -/
theorem line_output (lib : Lib) (f : Flags) (text : Bytes) :
    (f.split = .none → analyzeLine lib f text = (lib.tokenize text).map (format f)) ∧
    (f.split = .default → ∀ ss, lib.split text = some ss →
      analyzeLine lib f text = allSomeB (ss.map (fun s => (lib.tokenize s).map (format f)))) ∧
    (f.split = .only → analyzeLine lib f text = (lib.split text).map List.flatten) := by
  refine ⟨?_, ?_, ?_⟩
  · intro h; simp [analyzeLine, h]
  · intro h ss hs; simp [analyzeLine, h, hs]
  · intro h; simp [analyzeLine, h]

/-- an empty analysis prints `EOS` alone in the column format and an empty line with `--wakati` -/
theorem empty_analysis_output (all : Bool) :
    simpleOut all [] = asciiBytes "EOS\n" ∧ wakatiOut [] = [10] := by
  constructor <;> rfl

/-- **A per-call mode override never affects later calls**: after any sequence of `tokenize` calls,
with or without override, succeeding or failing, the tokenizer holds the mode it was created with;
and every call ran in its override if given, else in that mode. -/
theorem mode_restored (t : PyTok) (calls : List (Option Mode × Bool)) :
    (pyRun t calls).1.mode = t.mode ∧
    (pyRun t calls).2 = calls.map (fun c => c.1.getD t.mode) := by
  induction calls generalizing t with
  | nil => exact ⟨rfl, rfl⟩
  | cons c rest ih =>
    obtain ⟨o, f⟩ := c
    cases o with
    | none =>
      have := ih t
      simp only [pyRun, pyTokenize, List.map_cons, Option.getD_none]
      exact ⟨this.1, by rw [this.2]⟩
    | some m =>
      have := ih { mode := t.mode }
      simp only [pyRun, pyTokenize, List.map_cons, Option.getD_some]
      exact ⟨this.1, by rw [this.2]⟩

/-- non-vacuity: a three-line file with a blank line and a CRLF line -/
example : lines [97, 10, 10, 98, 13, 10, 99] = [[97, 10], [10], [98, 13, 10], [99]] ∧
    (lines [97, 10, 10, 98, 13, 10, 99]).map stripEolFix = [[97], [], [98], [99]] ∧
    (lines [97, 10, 10, 98, 13, 10, 99]).map stripEolCur = [[97], [10], [98], [99]] := by
  decide

end C19
