import Sudachi.Proofs.Rewrite
import Sudachi.Proofs.RewriteDepth
import Sudachi.Proofs.RewriteNumeral
import Sudachi.Proofs.RewriteIdem
import Sudachi.Proofs.RewriteF3
import Sudachi.Proofs.RewriteLocal
import Sudachi.Proofs.RewriteSafe
import Sudachi.Proofs.RewriteCommute
import Sudachi.Proofs.RewriteNoErr
/-!
# C14 — Path-rewrite plugins only merge adjacent tokens and preserve the text

Model (`Sudachi/Model/Rewrite.lean`): `concatNodes`/`concatOovNodes` (`analysis/node.rs`),
`kloop`/`joinKatakana` (`join_katakana_oov::rewrite_gen`), `nloop`/`joinNumeric`
(`join_numeric::rewrite_gen`, `concat`), `rewriteAll` (the plugin loop of
`stateful_tokenizer.rs`).  The numeric parser `P` and the class masks `cat` are universally
quantified parameters: every theorem below holds for *every* parser behaviour, every class table,
every path, every setting, every amount of fuel and every intermediate loop state.

The numeric loop exists in two code variants (`NVariant`): `cur`, the loop of the pinned tree, and
`fix`, the repair of finding F2 (a COMMA/POINT error restarts the run only if the corresponding flag
was still set).  The harness tells the driver which one the tree under test has.  Every theorem about
`nloop`/`joinNumeric`/`rewriteAll` is stated for an arbitrary variant `v`, except the two that
separate them: `numeric_rewrite_diverges_counterexample` (`cur`) and `numeric_rewrite_terminates`
with its corollaries (`fix`).

`Coarsens R p q` (Proofs/Rewrite.lean): `q` arises from `p` by replacing disjoint contiguous
non-empty blocks by one node that `Spans` the block (same begin as the first node, same end as the
last node, in characters and bytes; dictionary-side surface = concatenation) and satisfies the
plugin's relation `R` (`RN`: numeral POS = POS of the first node, no word id; `RK`: configured OOV
POS, normalised/dictionary form = surface; `RS`: POS among those the stack prescribes); all other
nodes are kept identically and in place.

Second round (depth): the node carries the four id lists (A units, B units, word structure, synonym
groups), `merged_fields_*` are field-by-field, `NewWord` (no units, no structure, no synonyms, default
connection ids) is part of `RN`/`RK`/`RS`; `split_path` after the plugins is in the model
(`splitPath`, `analyse`; `NodeSplitIterator` is the parameter `U`) with `split_after_rewrite` and
`split_of_merged`; the katakana joiner's decision is characterised (`katakana_join_decision`,
`katakana_merged_block_classes`, `katakana_min_length_unchanged`); the stack runs in configured
order (`stack_applies_in_order`, `plugin_order_matters_counterexample`); idempotence is false for the
numeral joiner (`numeric_not_idempotent_counterexample`, finding F3) and not proved for the katakana
joiner (oracle + correspondence + instances).

Third round (depth): the katakana joiner is IDEMPOTENT (`katakana_idempotent`, for every path whose nodes
are well-formed and ordered — `KWF`, implied by contiguity — with `katakana_idempotent_needs_order_counterexample`
showing that the hypothesis cannot be dropped in the model), by way of the full characterisation of one loop
iteration on a maximal katakana run (`katakana_step_on_run`, an equation for `kstep` that covers the join and
the no-join outcome); the numeral joiner's gate (`numeral_gate`, `merged_numeral_pos`, `no_numeral_no_join`,
and `any_gate_breaks_merged_pos_counterexample` for the gate of seeded change C14c); the mechanism of F3
(`merged_separator_token_not_numeric`: a joined token that contains a separator is not a candidate any more;
`numeric_run_before_opaque_token_is_joined_partial`: a sufficient condition for "this run of the plugin shortens
the path", with the second run of the F3 witness as an instance: `numeric_second_run_changes_witness`).

Two clauses of the property are **false** for the code as it is; both are proved on concrete
witnesses (`…_counterexample`) and reproduced on the implementation by the harness:
a single numeral token is rebuilt (not "reported unchanged") when `enableNormalize` is on (both
variants), and the numeric loop of the variant `cur` need not terminate (so no token list is
reported at all); the variant `fix` always terminates, within the driver's fuel.
-/
namespace C14
open Rewrite

/-! ### the relation -/

/-- `Coarsens` is reflexive. -/
theorem coarsens_refl (R : List Node → Node → Prop) (p : List Node) : Coarsens R p p :=
  Coarsens.refl p

/-- `Coarsens` is transitive (for a relation `R` that survives refining a block, which `RN`, `RK`
and `RS` do: `rn_rk_rs_compositional`). -/
theorem coarsens_trans (R : List Node → Node → Prop) (hR : Compositional R) (p q r : List Node)
    (h1 : Coarsens R p q) (h2 : Coarsens R q r) : Coarsens R p r :=
  h2.trans hR h1

theorem rn_rk_rs_compositional (n : NCfg) (k : KCfg) (poses : List Nat) :
    Compositional (RN n) ∧ Compositional (RK k) ∧ Compositional (RS poses) :=
  ⟨RN_compositional n, RK_compositional k, RS_compositional poses⟩

/-- `Coarsens` is exactly "a partition of the input into consecutive blocks, one per output token,
each block being the token itself or a block the token spans". -/
theorem coarsens_iff_partition (R : List Node → Node → Prop) (p q : List Node) :
    Coarsens R p q ↔ ∃ bs : List (List Node), bs.flatten = p ∧ Aligned R bs q :=
  ⟨fun h => h.aligned, fun ⟨bs, e, h⟩ => e ▸ coarsens_of_aligned bs q h⟩

/-- `Coarsens` is preserved by `concat_nodes` (called by the numeral plugin only when the first
node of the range carries the numeral POS and, without `enableNormalize`, only for ranges of more
than one node — `nconcat`). -/
theorem coarsens_preserved_by_concat_nodes (cfg : NCfg) (p0 path q : List Node) (b e : Nat)
    (nf : Option (List Char)) (h0 : Coarsens (RN cfg) p0 path)
    (hpos : ∀ f, path[b]? = some f → f.pos = cfg.numPos)
    (hlen : cfg.enableNormalize = false → 1 < e - b)
    (h : concatNodes path b e nf = .ok q) : Coarsens (RN cfg) p0 q :=
  (concatNodes_coarsens cfg h hpos hlen).trans (RN_compositional cfg) h0

/-- `Coarsens` is preserved by `concat_oov_nodes` (called by the katakana plugin only when
`end - begin > 1`). -/
theorem coarsens_preserved_by_concat_oov_nodes (cfg : KCfg) (p0 path q : List Node) (b e : Nat)
    (h0 : Coarsens (RK cfg) p0 path) (hlen : 1 < e - b)
    (h : concatOovNodes path b e cfg.oovPos = .ok q) : Coarsens (RK cfg) p0 q :=
  (concatOovNodes_coarsens cfg h hlen).trans (RK_compositional cfg) h0

/-! ### merged fields (clauses "covers exactly the union of the merged ranges", "surface is the
concatenation", "carries the prescribed part of speech", "other tokens unchanged") -/

/-- `concat_nodes(path, b, e, nf)`, FIELD BY FIELD: the node at `b` is the merged node —
node side: begin (chars, bytes) of the first node, end (chars, bytes) of the last node, total cost of the
last node, no word id, left/right id `u16::MAX`, cost `i16::MAX`;
word-info side: surface / reading form / dictionary form = concatenation of the raw fields,
head_word_length = sum, POS of the first node, normalised form `nf` or the concatenation,
dictionary_form_word_id −1, NO A units, NO B units, no word structure, no synonym groups;
nodes before `b` are untouched, nodes from `e` on are untouched and shifted down.
(Seeded change C14b — copying the head's units — falsifies the `aSplit`/`bSplit` conjuncts.) -/
theorem merged_fields_concat_nodes (path q : List Node) (b e : Nat) (nf : Option (List Char))
    (h : concatNodes path b e nf = .ok q) :
    ∃ f l m, b < e ∧ e ≤ path.length ∧ path[b]? = some f ∧ path[e - 1]? = some l ∧ q[b]? = some m ∧
      (m.b, m.bb, m.e, m.eb) = (f.b, f.bb, l.e, l.eb) ∧
      m.tc = l.tc ∧ m.wid = WID_INVALID ∧ (m.left, m.right, m.cost) = (65535, 65535, 32767) ∧
      m.surface = catSurface (block path b e) ∧ m.hwl = sumHwl (block path b e) ∧ m.pos = f.pos ∧
      (∀ s, nf = some s → m.norm = s) ∧ (nf = none → m.norm = (block path b e).flatMap (·.norm)) ∧
      m.reading = (block path b e).flatMap (·.reading) ∧ m.dform = (block path b e).flatMap (·.dform) ∧
      m.dfw = -1 ∧ m.aSplit = [] ∧ m.bSplit = [] ∧ m.wStruct = [] ∧ m.syn = [] ∧
      (∀ k, k < b → q[k]? = path[k]?) ∧ (∀ k, q[b + 1 + k]? = path[e + k]?) ∧
      q.length + (e - b) = path.length + 1 := by
  obtain ⟨f, l, hbe, he, hf, hl, rfl⟩ := concatNodes_ok h
  refine ⟨f, l, _, hbe, he, hf, hl, replaced_at path b e _ hbe he, rfl, rfl, rfl, rfl, rfl, rfl, rfl,
    fun s hs => by subst hs; rfl, fun hn => by subst hn; rfl, rfl, rfl, rfl, rfl, rfl, rfl, rfl,
    replaced_untouched_before path b e _ hbe he, replaced_untouched_after path b e _ hbe he, ?_⟩
  simp only [List.length_append, List.length_take, List.length_cons, List.length_drop]
  omega

/-- `concat_oov_nodes(path, b, e, pos)`, FIELD BY FIELD: ranges, total cost, connection ids and cost as
above; word id = OOV id if any part is OOV (the largest id), else `(dictionary of the largest id,
MAX_WORD)`; surface = concatenation, normalised and dictionary form = that surface, reading form
empty (reported as the surface), head_word_length = sum, the configured POS,
dictionary_form_word_id −1, no units, no word structure, no synonym groups.
(Seeded change C14a — end derived from the concatenated headwords — falsifies the range conjunct.) -/
theorem merged_fields_concat_oov_nodes (path q : List Node) (b e posId : Nat)
    (h : concatOovNodes path b e posId = .ok q) :
    ∃ f l m, b < e ∧ e ≤ path.length ∧ path[b]? = some f ∧ path[e - 1]? = some l ∧ q[b]? = some m ∧
      (m.b, m.bb, m.e, m.eb) = (f.b, f.bb, l.e, l.eb) ∧
      m.tc = l.tc ∧ (m.left, m.right, m.cost) = (65535, 65535, 32767) ∧
      m.wid = (if widIsOov (maxWid (block path b e)) then maxWid (block path b e)
               else (maxWid (block path b e) / 268435456) * 268435456 + MAX_WORD) ∧
      m.surface = catSurface (block path b e) ∧ m.hwl = sumHwl (block path b e) ∧ m.pos = posId ∧
      m.norm = m.surface ∧ m.dform = m.surface ∧ m.reading = [] ∧
      m.dfw = -1 ∧ m.aSplit = [] ∧ m.bSplit = [] ∧ m.wStruct = [] ∧ m.syn = [] ∧
      (∀ k, k < b → q[k]? = path[k]?) ∧ (∀ k, q[b + 1 + k]? = path[e + k]?) ∧
      q.length + (e - b) = path.length + 1 := by
  obtain ⟨f, l, hbe, he, hf, hl, rfl⟩ := concatOovNodes_ok h
  refine ⟨f, l, _, hbe, he, hf, hl, replaced_at path b e _ hbe he, rfl, rfl, rfl, rfl, rfl, rfl, rfl,
    rfl, rfl, rfl, rfl, rfl, rfl, rfl, rfl,
    replaced_untouched_before path b e _ hbe he, replaced_untouched_after path b e _ hbe he, ?_⟩
  simp only [List.length_append, List.length_take, List.length_cons, List.length_drop]
  omega

/-! ### the loops: every run yields a coarsening -/

/-- Katakana joining, for every amount of fuel, every path and every start index of the scan: a
result is a coarsening of the path the loop was entered with. -/
theorem join_katakana_coarsens (cfg : KCfg) (cat : List Nat) (fuel : Nat) (path : List Node) (i : Nat)
    (q : List Node) (h : kloop cfg cat fuel path i = .ok q) : Coarsens (RK cfg) path q :=
  kloop_coarsens cfg cat fuel path i q h

/-- Numeral joining, for both code variants, every parser behaviour `P`, every amount of fuel and every loop state
(index, run start, both separator flags, accumulated characters — the index logic is irrelevant):
a result is a coarsening of the state's path. -/
theorem join_numeric_coarsens (v : NVariant) (cfg : NCfg) (cat : List Nat) (P : List Char → POut)
    (fuel : Nat) (st : NState) (q : List Node) (h : nloop v cfg cat P fuel st = .ok q) :
    Coarsens (RN cfg) st.path q :=
  nloop_coarsens v cfg cat P fuel st q h

/-- The configured stack, applied in order. -/
theorem rewrite_stack_coarsens (v : NVariant) (cat : List Nat) (P : List Char → POut)
    (pls : List Plugin) (path q : List Node) (h : rewriteAll v cat P pls path = .ok q) :
    Coarsens (RS (prescribed pls)) path q :=
  rewriteAll_coarsens v cat P pls path q h

/-! ### what a coarsening means for the observer -/

/-- Clause "token boundaries with the plugins are a subset of the boundaries without": every
begin (end) of a rewritten token, in characters and bytes, is the begin (end) of an input token. -/
theorem boundaries_subset (v : NVariant) (cat : List Nat) (P : List Char → POut) (pls : List Plugin)
    (path q : List Node) (h : rewriteAll v cat P pls path = .ok q) :
    ∀ m ∈ q, (∃ n ∈ path, n.b = m.b ∧ n.bb = m.bb) ∧ (∃ n ∈ path, n.e = m.e ∧ n.eb = m.eb) :=
  (rewriteAll_coarsens v cat P pls path q h).boundaries

/-- Clause "never moved, split or dropped / preserve the text": the concatenation of the
dictionary-side surfaces is unchanged, the path begins and ends where it did, and a path whose
tokens touch (each begins where the previous one ends) is rewritten to such a path. -/
theorem text_preserved (v : NVariant) (cat : List Nat) (P : List Char → POut) (pls : List Plugin)
    (path q : List Node) (h : rewriteAll v cat P pls path = .ok q) :
    catSurface q = catSurface path ∧ firstB q = firstB path ∧ lastE q = lastE path ∧
      (Contig path → Contig q) := by
  have hc := rewriteAll_coarsens v cat P pls path q h
  obtain ⟨h1, h2, h3⟩ := hc.summary
  exact ⟨h3.symm, h1.symm, h2.symm, hc.contig⟩

/-- Clauses "merged token covers the union / surface is the concatenation / prescribed POS /
other tokens unchanged", for the whole stack: the input path splits into consecutive blocks, one
per output token; a block is either the output token itself (identical in every field) or a block
which the output token spans, and then its POS is one the stack prescribes. -/
theorem tokens_kept_or_merged (v : NVariant) (cat : List Nat) (P : List Char → POut) (pls : List Plugin)
    (path q : List Node) (h : rewriteAll v cat P pls path = .ok q) :
    ∃ bs : List (List Node), bs.flatten = path ∧ Aligned (RS (prescribed pls)) bs q :=
  (rewriteAll_coarsens v cat P pls path q h).aligned

/-- Numeral plugin alone: a merged token carries the numeral POS, which is the POS of the first
token of its block, and has no word id. -/
theorem numeric_merged_pos (v : NVariant) (cfg : NCfg) (cat : List Nat) (P : List Char → POut)
    (path q : List Node) (h : joinNumeric v cfg cat P path = .ok q) :
    ∃ bs : List (List Node), bs.flatten = path ∧ Aligned (RN cfg) bs q :=
  (nloop_coarsens v cfg cat P _ _ q h).aligned

/-- Katakana plugin alone: a merged token carries the configured OOV POS; its normalised and
dictionary forms are its surface. -/
theorem katakana_merged_pos (cfg : KCfg) (cat : List Nat) (path q : List Node)
    (h : joinKatakana cfg cat path = .ok q) :
    ∃ bs : List (List Node), bs.flatten = path ∧ Aligned (RK cfg) bs q :=
  (kloop_coarsens cfg cat _ _ _ q h).aligned

/-! ### termination -/

/-- `rewrite_terminates` for the katakana loop: `path.length - i + 1` iterations always suffice;
in particular the driver's fuel `kFuel path` is never exhausted. -/
theorem katakana_terminates (cfg : KCfg) (cat : List Nat) (fuel : Nat) (path : List Node) (i : Nat)
    (hf : path.length - i < fuel) : kloop cfg cat fuel path i ≠ .fuel :=
  kloop_terminates cfg cat fuel path i hf

theorem join_katakana_total (cfg : KCfg) (cat : List Nat) (path : List Node) :
    joinKatakana cfg cat path ≠ .fuel :=
  kloop_terminates cfg cat _ path 0 (by simp [kFuel])

/-- `rewrite_terminates` for the numeral loop AFTER the repair of F2 (variant `fix`), for every
parser behaviour, class table, setting and every loop state that satisfies the loop invariant
`NInv` (`-1 ≤ i`, `begin_idx ≤ i`; it holds initially and is preserved): `nMeasure N st + 1`
iterations suffice, where `N` bounds the path length and
`nMeasure N st = (len − run start)·3(N+2) + (armed flags)·(N+2) + (len − i)` is quadratic in the
path length.  Each iteration decreases the measure: an accepted numeric node advances `i`; a
COMMA/POINT restart keeps the run start and clears a flag that was set; any other failing `append`
and every non-numeric node (which may re-arm the flags) moves the run start forward.
Not true for `cur`: `numeric_rewrite_diverges_counterexample`. -/
theorem numeric_rewrite_terminates (cfg : NCfg) (cat : List Nat) (P : List Char → POut) (N fuel : Nat)
    (st : NState) (hinv : NInv st) (hN : st.path.length ≤ N) (hf : nMeasure N st < fuel) :
    nloop .fix cfg cat P fuel st ≠ .fuel :=
  nloop_fix_terminates cfg cat P N fuel st hinv hN hf

/-- … in particular from the initial state, with any fuel from `nFuel path = 4(len+1)² + 8` on. -/
theorem numeric_rewrite_terminates_init (cfg : NCfg) (cat : List Nat) (P : List Char → POut)
    (path : List Node) (fuel : Nat) (hf : nFuel path ≤ fuel) :
    nloop .fix cfg cat P fuel (nInit path) ≠ .fuel :=
  nloop_fix_terminates cfg cat P path.length fuel _ (nInit_inv path) (Nat.le_refl _)
    (Nat.lt_of_lt_of_le (nMeasure_init path) hf)

/-- The driver's fuel is never exhausted for `fix`: the numeral plugin never answers `HANG`, … -/
theorem join_numeric_total (cfg : NCfg) (cat : List Nat) (P : List Char → POut) (path : List Node) :
    joinNumeric .fix cfg cat P path ≠ .fuel :=
  joinNumeric_fix_ne_fuel cfg cat P path

/-- … and neither does any configured stack of plugins. -/
theorem rewrite_stack_total (cat : List Nat) (P : List Char → POut) (pls : List Plugin)
    (path : List Node) : rewriteAll .fix cat P pls path ≠ .fuel :=
  rewriteAll_fix_ne_fuel cat P pls path

/-- The loop invariant assumed by `numeric_rewrite_terminates` holds initially and is preserved by
every iteration of the repaired loop, which also never lengthens the path. -/
theorem numeric_invariant (cfg : NCfg) (cat : List Nat) (P : List Char → POut) (path : List Node)
    (st st' : NState) :
    NInv (nInit path) ∧
      (NInv st → nstep .fix cfg cat P st = .ok st' → NInv st' ∧ st'.path.length ≤ st.path.length) :=
  ⟨nInit_inv path, fun hinv h => ⟨(nstep_fix_progress h hinv).1, (nstep_fix_progress h hinv).2.1⟩⟩

/-! ### the merged token is a new word; A/B splitting after the plugins (oracle clause `split-of-merged`) -/

/-- Every token that the configured stack puts in place of a block is a NEW word (`NewWord`): no A
units, no B units, no word structure, no synonym groups, no dictionary-form reference, connection ids
`u16::MAX`, cost `i16::MAX` — for every stack, path, parser, class table; and the blocks are as in
`tokens_kept_or_merged`. -/
theorem merged_token_is_new_word (v : NVariant) (cat : List Nat) (P : List Char → POut) (pls : List Plugin)
    (path q : List Node) (h : rewriteAll v cat P pls path = .ok q) :
    ∃ bs : List (List Node), bs.flatten = path ∧ Aligned (fun _ m => NewWord m) bs q :=
  ((rewriteAll_coarsens v cat P pls path q h).mono (fun _ _ hr => hr.2)).aligned

/-- `split_path` keeps a merged token whole in every mode, whatever `NodeSplitIterator` would yield. -/
theorem merged_token_kept_whole (U : Mode → Node → List Node) (md : Mode) (f l : Node) (blk : List Node)
    (nf : Option (List Char)) (posId : Nat) :
    splitNode U md (mergedNode f l blk nf) = [mergedNode f l blk nf] ∧
      splitNode U md (mergedOovNode f l blk posId) = [mergedOovNode f l blk posId] := by
  cases md <;> exact ⟨rfl, rfl⟩

/-- `do_tokenize` from the best path on (plugin loop, then `split_path`), for every mode: the result is
the rewritten path split block by block — a token the plugins KEPT (its block is the token itself) is
split exactly as `split_path` splits it in the un-rewritten path, a token the plugins MADE stays one
token. -/
theorem split_after_rewrite (v : NVariant) (cat : List Nat) (P : List Char → POut)
    (U : Mode → Node → List Node) (pls : List Plugin) (md : Mode) (path r : List Node)
    (h : analyse v cat P U pls md path = .ok r) :
    ∃ q bs, rewriteAll v cat P pls path = .ok q ∧ bs.flatten = path ∧
      Aligned (RS (prescribed pls)) bs q ∧ r = splitAligned U md bs q := by
  unfold analyse at h
  split at h
  · rename_i q hq
    cases h
    obtain ⟨bs, e, ha⟩ := (rewriteAll_coarsens v cat P pls path q hq).aligned
    exact ⟨q, bs, hq, e, ha, splitPath_of_aligned U md (RS_newWord _) bs q ha⟩
  all_goals cases h

/-- The oracle's clause `split-of-merged` as a theorem: every token of the mode-A/B result WITH the
plugins is a token of the mode-C result with the plugins, or a token of the mode-A/B result WITHOUT them
(namely a unit of a word that the plugins kept): a merged token is never cut and no token is invented. -/
theorem split_of_merged (v : NVariant) (cat : List Nat) (P : List Char → POut)
    (U : Mode → Node → List Node) (pls : List Plugin) (md : Mode) (path r : List Node)
    (h : analyse v cat P U pls md path = .ok r) :
    ∃ q, analyse v cat P U pls .C path = .ok q ∧
      ∀ t ∈ r, t ∈ q ∨ (t ∈ splitPath U md path ∧ ∃ n ∈ path, n ∈ q ∧ t ∈ splitNode U md n) := by
  unfold analyse at h ⊢
  split at h
  · rename_i q hq
    cases h
    refine ⟨q, rfl, ?_⟩
    exact splitPath_mem_of_coarsens U md (RS_newWord _) (rewriteAll_coarsens v cat P pls path q hq)
  all_goals cases h

/-! ### the katakana joiner: start-of-run rule, NOOOVBOW, `minLength` -/

/-- The decision of `JoinKatakanaOovPlugin::rewrite_gen` at index `i`: whenever it joins `[b, e)` the
path reads `pre ++ skipped ++ blk ++ post` with `blk = path[b..e)` and
* `skipped ++ blk` is the MAXIMAL run of katakana nodes (by `cat_of_range`) around `i`: the last node
  of `pre` and the first node of `post`, if any, are not katakana (start-of-run rule);
* `skipped` = the leading nodes of the run whose first character is NOOOVBOW; the joined block begins
  with the first node that may begin an OOV word;
* at least two nodes are joined;
* the node at `i` lies in the run and is OOV or shorter than `minLength` (the trigger). -/
theorem katakana_join_decision (cfg : KCfg) (cat : List Nat) (path : List Node) (i : Nat) (node : Node)
    (b e : Nat) (hn : path[i]? = some node) (h : kstep cfg cat path i node = .ok (.join b e)) :
    ∃ pre skipped blk post, path = pre ++ skipped ++ blk ++ post ∧
      b = pre.length + skipped.length ∧ e = b + blk.length ∧ 2 ≤ blk.length ∧ block path b e = blk ∧
      (∀ n ∈ skipped, isKatakana cat n = .ok true ∧ canOovBow cat n = .ok false) ∧
      (∀ n ∈ blk, isKatakana cat n = .ok true) ∧
      (∀ x, blk.head? = some x → canOovBow cat x = .ok true) ∧
      (∀ x, pre.getLast? = some x → isKatakana cat x = .ok false) ∧
      (∀ x, post.head? = some x → isKatakana cat x = .ok false) ∧
      pre.length ≤ i ∧ i < e ∧ (isOov node = true ∨ isShorter cfg node = .ok true) :=
  kstep_join_spec cfg cat path i node b e hn h

/-- … and through the whole loop (any fuel, any start index): in the partition of the input into blocks,
every merged block consists of at least two nodes that are ALL katakana, and the merged token begins
with a character that may begin an OOV word (never NOOOVBOW); it carries the configured POS, normalised
and dictionary form = surface, and is a new word (`RKc` = `RK` + the class facts). -/
theorem katakana_merged_block_classes (cfg : KCfg) (cat : List Nat) (fuel : Nat) (path : List Node)
    (i : Nat) (q : List Node) (h : kloop cfg cat fuel path i = .ok q) :
    ∃ bs : List (List Node), bs.flatten = path ∧ Aligned (RKc cfg cat) bs q :=
  (kloop_coarsens_cat cfg cat fuel path i q h).aligned

/-- `minLength`: a path without OOV nodes in which every node has at least `minLength` characters is
returned unchanged, whatever the classes are (dictionary words are joined only when they are shorter
than `minLength`; in particular `minLength = 0` joins OOV runs only). -/
theorem katakana_min_length_unchanged (cfg : KCfg) (cat : List Nat) (path : List Node)
    (h : ∀ n ∈ path, isOov n = false ∧ n.b ≤ n.e ∧ cfg.minLength ≤ n.e - n.b) :
    joinKatakana cfg cat path = .ok path :=
  kloop_unchanged_of_no_candidate cfg cat path h _ 0 (by simp [kFuel])

/-! ### order of the plugins -/

/-- The plugins run in configured order: a stack `p1 ++ p2` is `p1` followed by `p2` on its result
(errors, panics and `HANG` of `p1` end the run). -/
theorem stack_applies_in_order (v : NVariant) (cat : List Nat) (P : List Char → POut)
    (p1 p2 : List Plugin) (path : List Node) :
    rewriteAll v cat P (p1 ++ p2) path = (rewriteAll v cat P p1 path).bind (rewriteAll v cat P p2) :=
  rewriteAll_append v cat P p1 p2 path

/-! ### counterexamples: what the code as it is does *not* satisfy -/

/-- lexicon row `7` (class NUMERIC) whose normalised form is `,` -/
def n7 : Node :=
  { b := 0, e := 1, bb := 0, eb := 1, wid := 5, tc := 10, left := 0, right := 0, cost := 10,
    pos := 1, hwl := 1, dfw := -1, aSplit := [], bSplit := [], wStruct := [], syn := [],
    surface := ['7'], norm := [','], reading := [], dform := [] }

/-- what the real parser reports for a string beginning with `,` (hook output `2c:0:2:0:`) -/
def pComma : List Char → POut := fun _ => { n := 0, err := E_COMMA, done := false, norm := [] }

def stuck : NState :=
  { path := [n7], i := -1, beginIdx := -1, comma := false, period := true, acc := [','] }

/-- `rewrite_terminates` is FALSE for the numeral loop of the pinned tree (variant `cur`): on the
one-token path `7 ⇒ ","` the loop returns to the same state for ever (no amount of fuel suffices),
so no token list is produced.  The full statement that would be wanted —
`∀ path, ∃ fuel, nloop .cur … fuel (nInit path) ≠ .fuel` — is refuted by this witness.  Reproduced on
the unrepaired implementation: directed cases 0–3 of the harness (`HANG`). -/
theorem numeric_rewrite_diverges_counterexample :
    ∀ fuel, nloop .cur { numPos := 1, enableNormalize := true } [NUMERIC] pComma fuel (nInit [n7]) = .fuel := by
  have step0 : nstep .cur { numPos := 1, enableNormalize := true } [NUMERIC] pComma (nInit [n7]) = .ok stuck := by
    decide
  have step1 : nstep .cur { numPos := 1, enableNormalize := true } [NUMERIC] pComma stuck = .ok stuck := by
    decide
  have loop1 : ∀ fuel, nloop .cur { numPos := 1, enableNormalize := true } [NUMERIC] pComma fuel stuck = .fuel := by
    intro fuel
    induction fuel with
    | zero => rfl
    | succ f ih =>
      unfold nloop
      rw [if_pos (by decide), step1]
      exact ih
  intro fuel
  cases fuel with
  | zero => rfl
  | succ f =>
    unfold nloop
    rw [if_pos (by decide), step0]
    exact loop1 f

/-- The same witness after the repair (variant `fix`): the second COMMA error finds the flag already
clear, the run is closed instead of restarted, and the path is returned as it is — the node `7 ⇒ ","`
is not a numeral the parser accepts, so nothing is joined. -/
theorem numeric_rewrite_witness_after_fix :
    joinNumeric .fix { numPos := 1, enableNormalize := true } [NUMERIC] pComma [n7] = .ok [n7] := by
  decide

/-! #### F3: the numeral joiner is not idempotent (text `1,234,5.5`, harness directed cases 17/18) -/

def f3o1 : Node :=
  { b := 0, e := 1, bb := 0, eb := 1, wid := 4026531841, tc := 3232, left := 3, right := 0, cost := 3183,
    pos := 1, hwl := 0, dfw := 0, aSplit := [], bSplit := [], wStruct := [], syn := [],
    surface := ['1'], norm := [], reading := [], dform := [] }
def f3c1 : Node :=
  { f3o1 with b := 1, e := 2, bb := 1, eb := 2, wid := 4026531843, tc := 7531, left := 2, right := 3,
              cost := 4269, pos := 3, surface := [','] }
def f3o234 : Node := { f3o1 with b := 2, e := 5, bb := 2, eb := 5, tc := 10730, surface := ['2', '3', '4'] }
def f3c2 : Node := { f3c1 with b := 5, e := 6, bb := 5, eb := 6, tc := 15029 }
def f3d5a : Node :=
  { f3o1 with b := 6, e := 7, bb := 6, eb := 7, wid := 7, tc := 16021, left := 2, right := 3, cost := 973,
              hwl := 1, dfw := -1, surface := ['5'] }
def f3pd : Node := { f3c1 with b := 7, e := 8, bb := 7, eb := 8, tc := 20309, surface := ['.'] }
def f3d5b : Node := { f3d5a with b := 8, e := 9, bb := 8, eb := 9, tc := 21301 }
def f3path : List Node := [f3o1, f3c1, f3o234, f3c2, f3d5a, f3pd, f3d5b]
def f3cat : List Nat := [16, 1, 16, 16, 16, 1, 16, 1, 16]
/-- the real parser's outcomes (hook `verif_parse`) for every string the two runs ask for -/
def f3P : List Char → POut := fun s =>
  if s = "1".toList then { n := 1, err := 0, done := true, norm := "1".toList }
  else if s = "1,".toList then { n := 2, err := 2, done := false, norm := "1".toList }
  else if s = "1,234".toList then { n := 5, err := 0, done := true, norm := "1234".toList }
  else if s = "1,234,".toList then { n := 6, err := 2, done := false, norm := "1234".toList }
  else if s = "1,234,5".toList then { n := 7, err := 2, done := false, norm := "12345".toList }
  else if s = "1,234,5.".toList then { n := 7, err := 2, done := false, norm := [] }
  else if s = "234".toList then { n := 3, err := 0, done := true, norm := "234".toList }
  else if s = "5".toList then { n := 1, err := 0, done := true, norm := "5".toList }
  else if s = "5.".toList then { n := 2, err := 1, done := false, norm := "5".toList }
  else if s = "5.5".toList then { n := 3, err := 0, done := true, norm := "5.5".toList }
  else missing
def f3m55 : Node := mergedNode f3d5a f3d5b [f3d5a, f3pd, f3d5b] (some "5.5".toList)
def f3m1234 : Node := mergedNode f3o1 f3o234 [f3o1, f3c1, f3o234] (some "1234".toList)

/-- Idempotence ("running a plugin on its own output changes nothing") is FALSE for the numeral joiner,
both variants, both `enableNormalize` values.  The full statement that would be wanted —
`joinNumeric v cfg cat P path = .ok q → joinNumeric v cfg cat P q = .ok q` — is refuted by the text
`1,234,5.5` (`1|,|234|,|5|.|5`): in the first run the `.` is rejected with a COMMA error (the group `5` has
one digit) while `comma_as_digit` is set, so the run restarts without separators and `1`, `234` stay
apart while `5.5` is joined: `1|,|234|,|5.5` (5 tokens).  In the second run `5.5` is one non-numeric
token (the class of `.` is not numeric), the run `1,234,` ends there with a pending COMMA error after a
trailing `,`, the trailing-separator rule applies and `1,234` is joined: `1,234|,|5.5` (3 tokens).
Reproduced on the implementation (oracle key `c14:not-idempotent:numeric`, known finding F3). -/
theorem numeric_not_idempotent_counterexample (v : NVariant) (en : Bool) :
    ∃ q q', joinNumeric v { numPos := 1, enableNormalize := en } f3cat f3P f3path = .ok q ∧
      joinNumeric v { numPos := 1, enableNormalize := en } f3cat f3P q = .ok q' ∧
      q.length = 5 ∧ q'.length = 3 := by
  cases en
  · exact ⟨[f3o1, f3c1, f3o234, f3c2, mergedNode f3d5a f3d5b [f3d5a, f3pd, f3d5b] none],
      [mergedNode f3o1 f3o234 [f3o1, f3c1, f3o234] none, f3c2,
        mergedNode f3d5a f3d5b [f3d5a, f3pd, f3d5b] none], by cases v <;> decide, by cases v <;> decide, rfl, rfl⟩
  · exact ⟨[f3o1, f3c1, f3o234, f3c2, f3m55], [f3m1234, f3c2, f3m55],
      by cases v <;> decide, by cases v <;> decide, rfl, rfl⟩

/-- token `一` (class KANJI|KANJINUMERIC, numeral POS 1, word id 16, normalised form = surface) -/
def nIchi : Node :=
  { b := 0, e := 1, bb := 0, eb := 3, wid := 16, tc := 1652, left := 1, right := 0, cost := 1384,
    pos := 1, hwl := 3, dfw := -1, aSplit := [], bSplit := [], wStruct := [], syn := [7, 9],
    surface := ['一'], norm := [], reading := ['イ', 'チ'], dform := [] }

/-- the real parser on `一`: accepted, `done()`, rendering `1` -/
def pIchi : List Char → POut := fun _ => { n := 1, err := 0, done := true, norm := ['1'] }

def mIchi : Node :=
  { nIchi with wid := WID_INVALID, left := 65535, right := 65535, cost := 32767, syn := [],
               surface := ['一'], norm := ['1'], reading := ['イ', 'チ'], dform := [] }

/-- Clause "tokens that are not part of a merge are reported unchanged" is FALSE with
`enableNormalize = true`: the single token `一`, merged with no neighbour, comes back with the same
range but another word id (invalid ⇒ reported as OOV), another normalised form and without its
synonym ids.  The repair of F2 does not touch this (it holds for both variants). -/
theorem single_numeral_rebuilt_counterexample (v : NVariant) :
    joinNumeric v { numPos := 1, enableNormalize := true } [260] pIchi [nIchi] = .ok [mIchi] ∧
      mIchi ≠ nIchi ∧ (mIchi.b, mIchi.e, mIchi.bb, mIchi.eb) = (nIchi.b, nIchi.e, nIchi.bb, nIchi.eb) ∧
      isOov mIchi = true ∧ isOov nIchi = false := by
  cases v <;> decide

/-- … and TRUE with `enableNormalize = false` (and always for the katakana plugin): every replaced
block has at least two tokens (`RN`, `RK` carry `2 ≤ blk.length`), so a token that is not merged
with a neighbour is kept identically.  Instance: a one-token path is returned as it is, for every
parser and every class table. -/
theorem single_token_unchanged_without_normalize (v : NVariant) (numPos : Nat) (cat : List Nat)
    (P : List Char → POut) (n : Node) (q : List Node)
    (h : joinNumeric v { numPos := numPos, enableNormalize := false } cat P [n] = .ok q) : q = [n] := by
  have hc := nloop_coarsens v _ cat P _ _ q h
  simp only [nInit] at hc
  generalize hp : [n] = p at hc
  cases hc with
  | nil => cases hp
  | keep n' h' =>
    cases hp
    rw [h'.nil_iff.mp rfl]
  | merge blk m hs hr h' =>
    exfalso
    have h2 := hr.2.2.2.1 rfl
    have := congrArg List.length hp
    simp only [List.length_append, List.length_cons, List.length_nil] at this
    omega

/-! ### non-vacuity -/

def dA : Node :=
  { b := 0, e := 1, bb := 0, eb := 1, wid := 3, tc := 5, left := 1, right := 1, cost := 5, pos := 1,
    hwl := 1, dfw := -1, aSplit := [], bSplit := [], wStruct := [], syn := [], surface := ['1'], norm := [],
    reading := [], dform := [] }
def dB : Node := { dA with b := 1, e := 2, bb := 1, eb := 2, wid := 4, tc := 9, surface := ['2'] }
def dX : Node := { dA with b := 2, e := 3, bb := 2, eb := 5, wid := 9, tc := 20, pos := 0, surface := ['あ'] }
/-- a parser that accepts everything and renders it unchanged -/
def pAll : List Char → POut := fun s => { n := s.length, err := 0, done := true, norm := s }

/-- the hypotheses of `join_numeric_coarsens`, `boundaries_subset`, `text_preserved` are satisfiable
with a genuine merge: `1|2|あ` becomes `12|あ`, contiguous before and after. -/
def m12 : Node := mergedNode dA dB [dA, dB] none
example (v : NVariant) :
    joinNumeric v { numPos := 1, enableNormalize := false } [16, 16, 64] pAll [dA, dB, dX] = .ok [m12, dX] ∧
    m12.surface = ['1', '2'] ∧ (m12.b, m12.e) = (0, 2) ∧ m12.pos = 1 ∧ m12.e = dX.b := by
  cases v <;> decide

/-- the hypotheses of `numeric_rewrite_terminates` are satisfiable: the initial state of a
three-token path satisfies the invariant, and its measure is below the driver's fuel -/
example : NInv (nInit [dA, dB, dX]) ∧ (nInit [dA, dB, dX]).path.length ≤ 3 ∧
    nMeasure 3 (nInit [dA, dB, dX]) < nFuel [dA, dB, dX] :=
  ⟨nInit_inv _, Nat.le_refl _, nMeasure_init _⟩

/-- … and so is a state in the middle of a run with one flag already cleared (`1|2|あ`, run started
at node 0, index at node 1, `comma_as_digit` false) -/
example : NInv { path := [dA, dB, dX], i := 1, beginIdx := 0, comma := false, period := true, acc := ['1', '2'] } := by
  simp only [NInv]; omega

/-- the restart that the repair keeps: on `1|0|,|,|2` (the second comma is rejected with COMMA while
`comma_as_digit` is still set) both variants go back to the start of the run with the flag cleared,
close the run `10` at the first comma and join it; the results are identical. -/
def dZ : Node := { dA with b := 1, e := 2, bb := 1, eb := 2, wid := 6, tc := 9, surface := ['0'] }
def cC1 : Node := { dA with b := 2, e := 3, bb := 2, eb := 3, wid := 7, tc := 12, pos := 3, surface := [','] }
def cC2 : Node := { cC1 with b := 3, e := 4, bb := 3, eb := 4, tc := 15 }
def dTwo : Node := { dA with b := 4, e := 5, bb := 4, eb := 5, wid := 4, tc := 19, surface := ['2'] }
/-- the real parser's outcomes on the strings this path makes the plugin ask for -/
def pTen : List Char → POut := fun s =>
  if s = ['1'] then { n := 1, err := 0, done := true, norm := ['1'] }
  else if s = ['1', '0'] then { n := 2, err := 0, done := true, norm := ['1', '0'] }
  else if s = ['1', '0', ','] then { n := 3, err := E_COMMA, done := false, norm := [] }
  else if s = ['1', '0', ',', ','] then { n := 3, err := E_COMMA, done := false, norm := [] }
  else if s = ['2'] then { n := 1, err := 0, done := true, norm := ['2'] }
  else missing
def sRestart : NState :=
  { path := [dA, dZ, cC1, cC2, dTwo], i := 2, beginIdx := 0, comma := true, period := true,
    acc := ['1', '0', ','] }
example (v : NVariant) :
    nstep v { numPos := 1, enableNormalize := false } [16, 16, 64, 64, 16] pTen sRestart =
      .ok { sRestart with i := -1, beginIdx := -1, comma := false, acc := ['1', '0', ',', ','] } ∧
    joinNumeric v { numPos := 1, enableNormalize := false } [16, 16, 64, 64, 16] pTen
      [dA, dZ, cC1, cC2, dTwo] = .ok [mergedNode dA dZ [dA, dZ] none, cC1, cC2, dTwo] := by
  cases v <;> decide

example : Contig [dA, dB, dX] ∧ Contig [m12, dX] := ⟨⟨rfl, rfl, rfl, rfl, trivial⟩, ⟨rfl, rfl, trivial⟩⟩

def kA : Node :=
  { b := 0, e := 1, bb := 0, eb := 3, wid := 4026531840, tc := 7, left := 1, right := 1, cost := 7,
    pos := 0, hwl := 0, dfw := 0, aSplit := [], bSplit := [], wStruct := [], syn := [], surface := ['ア'], norm := [],
    reading := [], dform := [] }
def kI : Node := { kA with b := 1, e := 2, bb := 3, eb := 6, tc := 14, surface := ['イ'] }
def kA2 : Node := { kA with b := 2, e := 3, bb := 2, eb := 5 }
def kI2 : Node := { kI with b := 3, e := 4, bb := 5, eb := 8 }
def mAI : Node := mergedOovNode kA kI [kA, kI] 5

/-- the hypotheses of `join_katakana_coarsens` / `katakana_terminates` are satisfiable with a genuine
merge: two one-character katakana OOV nodes become one token with the configured POS 5. -/
example : joinKatakana { oovPos := 5, minLength := 0 } [128, 128] [kA, kI] = .ok [mAI] ∧
    mAI.surface = ['ア', 'イ'] ∧ (mAI.b, mAI.e, mAI.bb, mAI.eb) = (0, 2, 0, 6) ∧ mAI.pos = 5 ∧
    [kA, kI].length - 0 < kFuel [kA, kI] := by decide

/-- a stack of both plugins on a mixed path: `1|2|ア|イ` becomes `12|アイ` -/
example (v : NVariant) : rewriteAll v [16, 16, 128, 128] pAll
      [.numeric { numPos := 1, enableNormalize := true }, .katakana { oovPos := 5, minLength := 0 }]
      [dA, dB, kA2, kI2] =
    .ok [mergedNode dA dB [dA, dB] (some ['1', '2']), mergedOovNode kA2 kI2 [kA2, kI2] 5] := by
  cases v <;> decide

/-! ### second round: order of the plugins, idempotence instances, split stage, katakana decisions -/

/-- The order of the two plugins matters in general (so `stack_applies_in_order` is not vacuous): with a
character that is NUMERIC and KATAKANA at once (`0x0032 KATAKANA` in char.def, class mask 144) the path
`1|2|ア` becomes `1|2ア` under katakana-then-numeral and `12|ア` under numeral-then-katakana. -/
theorem plugin_order_matters_counterexample (v : NVariant) :
    rewriteAll v [16, 144, 128] pAll
        [.katakana { oovPos := 5, minLength := 0 }, .numeric { numPos := 1, enableNormalize := false }]
        [dA, dB, kA2] = .ok [dA, mergedOovNode dB kA2 [dB, kA2] 5] ∧
    rewriteAll v [16, 144, 128] pAll
        [.numeric { numPos := 1, enableNormalize := false }, .katakana { oovPos := 5, minLength := 0 }]
        [dA, dB, kA2] = .ok [m12, kA2] := by
  cases v <;> decide

/-- Idempotence of the katakana joiner is NOT proved (full statement:
`joinKatakana cfg cat path = .ok q → joinKatakana cfg cat q = .ok q`); it is checked by the oracle
(`c14:not-idempotent:katakana`, stacks `KK` with equal settings) and by correspondence.  Instances:
a run with a leading NOOOVBOW node (`ー|ア|イ` → `ー|アイ`, second run unchanged) and the plain run. -/
def kBar : Node := { kA with surface := ['ー'] }
def kA1 : Node := { kA with b := 1, e := 2, bb := 3, eb := 6 }
def kI1 : Node := { kI with b := 2, e := 3, bb := 6, eb := 9 }
example : joinKatakana { oovPos := 5, minLength := 0 } [1073741952, 128, 128] [kBar, kA1, kI1] =
      .ok [kBar, mergedOovNode kA1 kI1 [kA1, kI1] 5] ∧
    joinKatakana { oovPos := 5, minLength := 0 } [1073741952, 128, 128] [kBar, mergedOovNode kA1 kI1 [kA1, kI1] 5] =
      .ok [kBar, mergedOovNode kA1 kI1 [kA1, kI1] 5] ∧
    joinKatakana { oovPos := 5, minLength := 0 } [128, 128] [mAI] = .ok [mAI] := by decide

/-- the hypotheses of `katakana_join_decision` are satisfiable, with a skipped NOOOVBOW node: at index 0
of `ー|ア|イ` the joiner decides to join `[1, 3)` -/
example : [kBar, kA1, kI1][0]? = some kBar ∧
    kstep { oovPos := 5, minLength := 0 } [1073741952, 128, 128] [kBar, kA1, kI1] 0 kBar = .ok (.join 1 3) := by
  decide

/-- the hypothesis of `katakana_min_length_unchanged` is satisfiable: two dictionary words `アイ`, `ウ`
(not OOV) with `minLength = 1` — and it is sharp: with `minLength = 2` the one-character word triggers
the join of the whole run -/
def wAI : Node := { kA with e := 2, eb := 6, wid := 21, surface := ['ア', 'イ'] }
def wU : Node := { kA with b := 2, e := 3, bb := 6, eb := 9, wid := 22, surface := ['ウ'] }
example : (∀ n ∈ [wAI, wU], isOov n = false ∧ n.b ≤ n.e ∧ 1 ≤ n.e - n.b) ∧
    joinKatakana { oovPos := 5, minLength := 1 } [128, 128, 128] [wAI, wU] = .ok [wAI, wU] ∧
    joinKatakana { oovPos := 5, minLength := 2 } [128, 128, 128] [wAI, wU] =
      .ok [mergedOovNode wAI wU [wAI, wU] 5] := by decide

/-- the split stage: `二十|ア|イ` where `二十` has the A units `[1, 2]`; the un-rewritten path splits it in
mode A (into whatever `NodeSplitIterator` yields, here `uNi`, `uJu`), the katakana join `アイ` stays whole;
and a joined numeral `二十|三` → `二十三` is one token in mode A although its head `二十` has units
(what seeded change C14b breaks).  Hypotheses of `split_after_rewrite` / `split_of_merged`. -/
def nNiju : Node := { dA with e := 2, eb := 6, wid := 30, hwl := 6, aSplit := [1, 2], surface := ['二', '十'] }
def uNi : Node := { dA with eb := 3, wid := 1, tc := 2147483647, left := 65535, right := 65535, cost := 32767, surface := ['二'] }
def uJu : Node := { uNi with b := 1, e := 2, bb := 3, eb := 6, wid := 2, surface := ['十'] }
def nSan : Node := { dA with b := 2, e := 3, bb := 6, eb := 9, wid := 31, surface := ['三'] }
def kA3 : Node := { kA with b := 2, e := 3, bb := 6, eb := 9 }
def kI3 : Node := { kI with b := 3, e := 4, bb := 9, eb := 12 }
def uTab : Mode → Node → List Node := fun _ n => if n = nNiju then [uNi, uJu] else []
example (v : NVariant) :
    analyse v [256, 256, 128, 128] pAll uTab [.katakana { oovPos := 5, minLength := 0 }] .A [nNiju, kA3, kI3] =
      .ok [uNi, uJu, mergedOovNode kA3 kI3 [kA3, kI3] 5] ∧
    analyse v [256, 256, 256] pAll uTab [.numeric { numPos := 1, enableNormalize := false }] .A [nNiju, nSan] =
      .ok [mergedNode nNiju nSan [nNiju, nSan] none] ∧
    analyse v [256, 256, 256] pAll uTab [] .A [nNiju, nSan] = .ok [uNi, uJu, nSan] := by
  cases v <;> decide

/-- Observation about `concat_nodes` (no clause of C14 is violated; reproduced on the implementation,
distribution key `observation:merged-form-drops-part`): normalised, reading and dictionary form of the
joined token are concatenations of the RAW `WordInfoData` fields, in which "same as the surface" is
stored as the empty string.  With `enableNormalize = false`, `一` (lexicon normalised form `1`) followed
by a `二` whose normalised form is its surface is joined into a token whose `normalized_form()` is `1`,
not `1二`: the part that is "same as the surface" is dropped. -/
def oIchi : Node := { nIchi with norm := ['1'], syn := [] }
def oNi : Node := { nIchi with b := 1, e := 2, bb := 3, eb := 6, wid := 17, tc := 3000, surface := ['二'], reading := [], syn := [] }
example (v : NVariant) :
    ∃ m, joinNumeric v { numPos := 1, enableNormalize := false } [260, 260] pAll [oIchi, oNi] = .ok [m] ∧
      normForm m = ['1'] ∧ normForm oIchi ++ normForm oNi = ['1', '二'] ∧ m.surface = ['一', '二'] :=
  ⟨mergedNode oIchi oNi [oIchi, oNi] none, by cases v <;> decide, by decide, by decide, by decide⟩


/-! ### third round: the numeral joiner's gate; idempotence of the katakana joiner; the mechanism of F3 -/

/-- `JoinNumericPlugin::concat`, the gate in front of every numeral merge: a run whose FIRST node does not carry
the numeral POS is left as it is (whatever the parser says, however long the run is); with the numeral POS at
the head a run of more than one node is `concat_nodes` on the whole run. -/
theorem numeral_gate (cfg : NCfg) (P : List Char → POut) (path : List Node) (b e : Nat) (acc : List Char)
    (f : Node) (hf : path[b]? = some f) :
    (f.pos ≠ cfg.numPos → nconcat cfg P path b e acc = .ok path) ∧
      (f.pos = cfg.numPos → 1 < e - b → nconcat cfg P path b e acc =
        concatNodes path b e (if cfg.enableNormalize then some (P acc).norm else none)) :=
  ⟨nconcat_gate_closed cfg P path b e acc f hf, nconcat_gate_open cfg P path b e acc f hf⟩

/-- `merged_numeral_pos`: EVERY token the numeral joiner makes has exactly the configured numeral POS id — for
every path, class table, parser behaviour, setting, both loop variants, every amount of fuel and every
intermediate loop state: a token of the result is a token of the input (kept identically), or it spans a
block of input tokens whose FIRST token carries the numeral POS (the gate), carries that POS itself
(`concat_nodes` copies the POS of the first token) and has no word id.
(Seeded change C14c — gate on ANY node of the run, POS still copied from the head — falsifies `m.pos = cfg.numPos`:
`any_gate_breaks_merged_pos_counterexample`.) -/
theorem merged_numeral_pos (v : NVariant) (cfg : NCfg) (cat : List Nat) (P : List Char → POut)
    (fuel : Nat) (st : NState) (q : List Node) (h : nloop v cfg cat P fuel st = .ok q) :
    ∀ m ∈ q, m ∈ st.path ∨ (m.pos = cfg.numPos ∧ m.wid = WID_INVALID ∧
      ∃ pre blk post f, st.path = pre ++ blk ++ post ∧ Spans blk m ∧ blk.head? = some f ∧ f.pos = cfg.numPos) := by
  intro m hm
  rcases (nloop_coarsens v cfg cat P fuel st q h).classify m hm with h1 | ⟨pre, blk, post, e, hs, hr⟩
  · exact .inl h1
  · obtain ⟨f, hf, hp⟩ := hr.2.1
    exact .inr ⟨hr.1, hr.2.2.1, pre, blk, post, f, e, hs, hf, hp⟩

/-- … in particular for the plugin as it is called (`joinNumeric` = the loop from the initial state). -/
theorem merged_numeral_pos_plugin (v : NVariant) (cfg : NCfg) (cat : List Nat) (P : List Char → POut)
    (path q : List Node) (h : joinNumeric v cfg cat P path = .ok q) :
    ∀ m ∈ q, m ∈ path ∨ (m.pos = cfg.numPos ∧ m.wid = WID_INVALID) := by
  intro m hm
  rcases merged_numeral_pos v cfg cat P _ _ q h m hm with h1 | ⟨h1, h2, _⟩
  · exact .inl h1
  · exact .inr ⟨h1, h2⟩

/-- The gate, for the whole loop: a path WITHOUT any token of the numeral POS is returned unchanged (every joined
block is headed by such a token), whatever its character classes are — digits that are proper nouns, OOV digits
with another POS, separators. -/
theorem no_numeral_no_join (v : NVariant) (cfg : NCfg) (cat : List Nat) (P : List Char → POut)
    (path q : List Node) (hno : ∀ n ∈ path, n.pos ≠ cfg.numPos)
    (h : joinNumeric v cfg cat P path = .ok q) : q = path :=
  (nloop_coarsens v cfg cat P _ _ q h).eq_of_no_witness (RN_head_witness cfg) hno

/-- `24` (a proper noun, POS 5, class NUMERIC) followed by the numeral `7` (POS 1) -/
def g24 : Node := { dA with e := 2, eb := 2, wid := 40, pos := 5, hwl := 2, surface := ['2', '4'] }
def g7 : Node := { dA with b := 2, e := 3, bb := 2, eb := 3, wid := 41, tc := 9, surface := ['7'] }

/-- The gate must test the node the POS is copied from.  With the gate of seeded change C14c (`nconcatAny`: ANY
node of the run is a numeral) the run `24|7` is joined and the joined token has the POS of `24` (5), not the
numeral POS (1): `merged_numeral_pos` fails for that variant; the code as it is leaves the run alone. -/
theorem any_gate_breaks_merged_pos_counterexample :
    ∃ m, nconcatAny { numPos := 1, enableNormalize := false } pAll [g24, g7] 0 2 ['2', '4', '7'] = .ok [m] ∧
      m.pos = 5 ∧ m.pos ≠ 1 ∧
      nconcat { numPos := 1, enableNormalize := false } pAll [g24, g7] 0 2 ['2', '4', '7'] = .ok [g24, g7] ∧
      (∀ v, joinNumeric v { numPos := 1, enableNormalize := false } [16, 16, 16] pAll [g24, g7] = .ok [g24, g7]) :=
  ⟨mergedNode g24 g7 [g24, g7] none, by decide, by decide, by decide, by decide, fun v => by cases v <;> decide⟩

/-- the hypothesis of `no_numeral_no_join` is satisfiable on a path of digits (and sharp: with a numeral at the
head the same digits are joined) -/
example : (∀ n ∈ [g24, { g7 with pos := 0 }], n.pos ≠ ({ numPos := 1, enableNormalize := false } : NCfg).numPos) ∧
    (∀ v, joinNumeric v { numPos := 1, enableNormalize := false } [16, 16, 16] pAll [{ g24 with pos := 1 }, g7] =
      .ok [mergedNode { g24 with pos := 1 } g7 [{ g24 with pos := 1 }, g7] none]) :=
  ⟨by decide, fun v => by cases v <;> decide⟩

/-- `set_up`: an absent `enableNormalize` means `true` (the driver's field `N::<pos>`) -/
example : enableNormalizeOf none = true ∧ enableNormalizeOf (some false) = false := ⟨rfl, rfl⟩

/-! #### idempotence of the katakana joiner -/

/-- One iteration of `JoinKatakanaOovPlugin::rewrite_gen` on a MAXIMAL katakana run, as an equation (it covers the
join and the no-join outcome, so it is the converse of `katakana_join_decision` as well): if the path reads
`pre ++ s ++ t ++ post` where the node before and the node after `s ++ t` are not katakana, `s ++ t` are all
katakana, `s` are the leading NOOOVBOW-initial nodes and `t` begins with a node that may begin an OOV word, then at
every index of the run the loop joins exactly `t` iff the node at the index is OOV or shorter than `minLength` and
`t` has more than one node; otherwise it moves on. -/
theorem katakana_step_on_run (cfg : KCfg) (cat : List Nat) (pre s t post : List Node) (k : Nat) (node : Node)
    (hpre : ∀ x, pre.getLast? = some x → isKatakana cat x = .ok false)
    (hs : ∀ n ∈ s, isKatakana cat n = .ok true ∧ canOovBow cat n = .ok false)
    (ht : ∀ n ∈ t, isKatakana cat n = .ok true)
    (hth : ∀ x, t.head? = some x → canOovBow cat x = .ok true)
    (hpost : ∀ x, post.head? = some x → isKatakana cat x = .ok false)
    (hk : (s ++ t)[k]? = some node) :
    kstep cfg cat (pre ++ s ++ t ++ post) (pre.length + k) node =
      (if isOov node then Outcome.ok true else isShorter cfg node).bind fun cand =>
        if !cand then .ok .next
        else if t.length > 1 then .ok (.join (pre.length + s.length) (pre.length + s.length + t.length))
        else .ok .next :=
  kstep_on_run cfg cat pre s t post k node hpre hs ht hth hpost hk

/-- IDEMPOTENCE of the katakana joiner: running it on its own output changes nothing — for every class table,
setting and every path whose nodes are well-formed and ordered (`KWF`: `n.b ≤ n.e` for every node and
`a.b ≤ c.e` for every node `c` after `a`; every contiguous path is, `katakana_idempotent_contig`).
Loop invariant: all indices left of the scan index are settled (`kstep = next`) in the CURRENT path; a join
re-establishes it (`Rewrite.join_settled`: left of the maximal run nothing changes — `kstep` is local —, the
skipped NOOOVBOW nodes and the joined token form a run whose joinable part has one node, the node after it is
not katakana). -/
theorem katakana_idempotent (cfg : KCfg) (cat : List Nat) (path q : List Node) (hwf : KWF path)
    (h : joinKatakana cfg cat path = .ok q) : joinKatakana cfg cat q = .ok q :=
  joinKatakana_idempotent cfg cat path q hwf h

/-- … at the level of the loop: from ANY state (fuel, scan index) whose left part is settled, the result is a
fixed point of the loop from every index. -/
theorem katakana_loop_idempotent (cfg : KCfg) (cat : List Nat) (fuel : Nat) (path : List Node) (i : Nat)
    (q : List Node) (hwf : KWF path) (hset : ∀ j < i, Settled cfg cat path j)
    (h : kloop cfg cat fuel path i = .ok q) :
    ∀ fuel' i', q.length - i' < fuel' → kloop cfg cat fuel' q i' = .ok q :=
  kloop_idempotent cfg cat fuel path i q hwf hset h

/-- … for the paths the tokenizer produces: tokens touch and none has a negative length. -/
theorem katakana_idempotent_contig (cfg : KCfg) (cat : List Nat) (path q : List Node) (hc : Contig path)
    (hb : ∀ n ∈ path, n.b ≤ n.e) (h : joinKatakana cfg cat path = .ok q) : joinKatakana cfg cat q = .ok q :=
  joinKatakana_idempotent_of_contig cfg cat path q hc hb h

/-- two one-character katakana nodes in the wrong order: `[5,6)` before `[1,2)` -/
def kFar : Node := { kA with b := 5, e := 6, bb := 15, eb := 18, wid := 21 }
def kNear : Node := { kA with b := 1, e := 2, bb := 16, eb := 19, wid := 22 }

/-- The order hypothesis of `katakana_idempotent` cannot be dropped IN THE MODEL: the first run never evaluates
`num_codepts()` of the token it has just made (`i = begin + 1; i += 1`), the second run does.  On the ill-ordered
path `[5,6) [1,2)` (never produced by the tokenizer) the joined token has `begin = 5 > end = 2`; it is not OOV
(`minLength` triggered the join), so the second run computes `end - begin` in `usize`: a panic. -/
theorem katakana_idempotent_needs_order_counterexample :
    ∃ q, joinKatakana { oovPos := 5, minLength := 3 } [0, 128, 0, 0, 0, 128] [kFar, kNear] = .ok q ∧
      joinKatakana { oovPos := 5, minLength := 3 } [0, 128, 0, 0, 0, 128] q = .panic ∧
      ¬ KWF [kFar, kNear] := by
  refine ⟨[mergedOovNode kFar kNear [kFar, kNear] 5], by decide, by decide, ?_⟩
  intro h
  have := h.2
  simp [kFar, kNear, kA] at this

/-- the hypotheses of `katakana_idempotent` are satisfiable with a genuine merge and a skipped NOOOVBOW node -/
example : KWF [kBar, kA1, kI1] ∧ joinKatakana { oovPos := 5, minLength := 0 } [1073741952, 128, 128] [kBar, kA1, kI1] =
      .ok [kBar, mergedOovNode kA1 kI1 [kA1, kI1] 5] := by
  refine ⟨⟨by decide, ?_⟩, by decide⟩
  simp [kBar, kA1, kI1, kA, kI]

/-! #### the mechanism of F3 (numeral joiner not idempotent) -/

/-- First half of the mechanism: a token joined by `concat_nodes` whose range covers a node that is NOT numeric by
class (a separator `.` or `,` accepted by its normalised form) is itself not numeric by class
(`cat_of_range` = AND over all characters), for every class table: in a later run of the plugin it is no
candidate any more (unless its normalised form is a bare separator) — it ENDS the candidate run before it. -/
theorem merged_separator_token_not_numeric (cat : List Nat) (f l : Node) (blk : List Node)
    (nf : Option (List Char)) (n : Node) (c c' : Nat) (h1 : f.b ≤ n.b) (h2 : n.b < n.e) (h3 : n.e ≤ l.e)
    (hc : catOfRange cat (mergedNode f l blk nf).b (mergedNode f l blk nf).e = some c)
    (hc' : catOfRange cat n.b n.e = some c') (hn : isNumericCat c' = false) : isNumericCat c = false :=
  mergedNode_not_numeric cat f l blk nf n c c' h1 h2 h3 hc hc' hn

/-- Second half: WHEN a run of the plugin shortens the path.  Sufficient condition, for every parser behaviour,
class table, setting and both loop variants: the path begins with a candidate run `R` of at least two nodes headed by
a numeral, followed by a `,` that the parser accepts but after which it is not `done()` with a pending COMMA error,
followed by a node `m` that is NOT a candidate (not numeric by class, normalised form not an armed separator) —
then the trailing-separator rule joins `R` and the result is shorter than the input.
This is what happens in the SECOND run on the F3 witness (`numeric_second_run_changes_witness`): `m` is the
token `5.5` made by the first run (`merged_separator_token_not_numeric`), whereas in the FIRST run the same
position was held by the candidates `5|.|5`, the candidate run went on, the `.` was rejected with a COMMA error and
the whole run was re-scanned with the commas demoted.
PARTIAL: the full statement wanted is an equivalence — `joinNumeric v cfg cat P q = .ok q' → (q' ≠ q ↔ C q)` for a
condition `C` on the first run's output `q`; proved here is one direction for one shape of `C` (run at the head
of the path, COMMA; the closing step `Rewrite.nstep_close_sep` covers POINT as well).  The converse cannot hold for
an arbitrary parser `P`: with `enableNormalize` the second run feeds the parser the RENDERINGS made by the first
run, about which nothing is known for an arbitrary `P`; for the real parser it is C15's subject. -/
theorem numeric_run_before_opaque_token_is_joined_partial (v : NVariant) (cfg : NCfg) (cat : List Nat)
    (P : List Char → POut) (R : List Node) (c m : Node) (rest : List Node) (ct : Nat)
    (hR : 2 ≤ R.length) (hpos : ∀ f, R.head? = some f → f.pos = cfg.numPos)
    (hcand : ∀ n ∈ R ++ [c], ∃ ctn, catOfRange cat n.b n.e = some ctn ∧ isCand true true ctn (normForm n) = true)
    (hc : normForm c = [','])
    (hacc : ∀ k, k < (R ++ [c]).length →
      ¬ (P (accOf ((R ++ [c]).take (k + 1)))).n < (accOf ((R ++ [c]).take (k + 1))).length)
    (hdone : (P (accOf (R ++ [c]))).done = false) (herr : (P (accOf (R ++ [c]))).err = E_COMMA)
    (hm : catOfRange cat m.b m.e = some ct) (hmc : isCand true true ct (normForm m) = false)
    (q' : List Node) (h : joinNumeric v cfg cat P (R ++ c :: m :: rest) = .ok q') :
    q'.length < (R ++ c :: m :: rest).length :=
  joinNumeric_shrinks v cfg cat P R c m rest ct hR hpos hcand hc hacc hdone herr hm hmc q' h

/-- The F3 witness as an instance (also the non-vacuity of every hypothesis above: `Rewrite.f3_second_run_hyps`):
the output `1|,|234|,|5.5` of the first run satisfies the condition with `R = 1|,|234`, `m = 5.5`, so EVERY
successful second run returns fewer than 5 tokens — it is not the first run's output —, and `5.5` is not numeric by
class because it covers the `.`. -/
theorem numeric_second_run_changes_witness (v : NVariant) (q' : List Node)
    (h : joinNumeric v { numPos := 1, enableNormalize := true } wf3cat wf3P
      [wf3o1, wf3c1, wf3o234, wf3c2, wf3m55] = .ok q') :
    q'.length < 5 ∧ q' ≠ [wf3o1, wf3c1, wf3o234, wf3c2, wf3m55] ∧
      (∀ c, catOfRange wf3cat wf3m55.b wf3m55.e = some c → isNumericCat c = false) ∧
      [wf3o1, wf3c1, wf3o234, wf3c2, wf3m55] = [f3o1, f3c1, f3o234, f3c2, f3m55] :=
  ⟨f3_second_run_shrinks v q' h, f3_second_run_changes v q' h, fun c hc => f3_m55_not_numeric c hc, rfl⟩


/-- Observation about `rewrite_gen` (no clause of C14 is violated; reproduced on the implementation by the directed
cases 25/26, distribution key `observation:closed-gate-rescan`): `i = begin_idx + 1` is executed also when `concat`
did nothing because the gate was closed.  The index then goes BACK to the node after the head, that node is skipped
and the rest of the run is scanned again as a run of its own: `24|7|5|3|あ` (`24` a proper noun) becomes `24|7|53|あ`
— `7` stays alone, `5|3` are joined —, while the same digits at the end of the text (tail case, no re-scan) stay
`24|7|5|3`. -/
def g5 : Node := { dA with b := 3, e := 4, bb := 3, eb := 4, wid := 42, tc := 12, surface := ['5'] }
def g3 : Node := { dA with b := 4, e := 5, bb := 4, eb := 5, wid := 43, tc := 15, surface := ['3'] }
def gX : Node := { dA with b := 5, e := 6, bb := 5, eb := 8, wid := 9, tc := 20, pos := 0, surface := ['あ'] }
example (v : NVariant) :
    joinNumeric v { numPos := 1, enableNormalize := false } [16, 16, 16, 16, 16, 64] pAll [g24, g7, g5, g3, gX] =
      .ok [g24, g7, mergedNode g5 g3 [g5, g3] none, gX] ∧
    joinNumeric v { numPos := 1, enableNormalize := false } [16, 16, 16, 16, 16] pAll [g24, g7, g5, g3] =
      .ok [g24, g7, g5, g3] := by
  cases v <;> decide


/-! ### towards commutation of the two plugins: each loop can be cut at a node that is inert for it

Full statement wanted (NOT proved): if no node of the path is both katakana and a numeral candidate (and joined
tokens inherit that: contiguous path, no joined katakana token whose surface is a bare separator), then
`rewriteAll v cat P [.numeric n, .katakana k] path = rewriteAll v cat P [.katakana k, .numeric n] path`.
Proved are the two LOCALITY theorems it reduces to (an induction over the alternating segments of the path and the
class facts of joined tokens — `merged_separator_token_not_numeric`, `katakana_merged_block_classes` — remain):
the katakana joiner works segment by segment between non-katakana nodes, the numeral joiner works segment by
segment between nodes that reset it, and what it does left of such a node does not depend on which node it is. -/

/-- The katakana joiner can be cut at any node that is not katakana: the result on `A ++ x :: B` is the result on
`A`, then `x`, then the result on `B` — errors and panics included (`Outcome.bind`), every class table and setting.
(`x.b ≤ x.e`: `num_codepts()` of `x` is evaluated.) -/
theorem katakana_cut_at_non_katakana (cfg : KCfg) (cat : List Nat) (A B : List Node) (x : Node)
    (hx : isKatakana cat x = .ok false) (hxe : x.b ≤ x.e) :
    joinKatakana cfg cat (A ++ x :: B) =
      (joinKatakana cfg cat A).bind fun a => (joinKatakana cfg cat B).bind fun b => .ok (a ++ x :: b) :=
  joinKatakana_split cfg cat A B x hx hxe

/-- The numeral joiner (repaired loop) can be cut at any node that RESETS it (`Resets`: not numeric by class, normalised
form neither `,` nor `.` — it closes the open run and re-arms both flags): the result on `A ++ x :: B` is the
result on `A ++ [x]` followed by the result on `B`, for every class table, setting and every parser that rejects a
separator as first character (`SepNotFirst`; the real parser does). -/
theorem numeral_cut_at_resetting_node (cfg : NCfg) (cat : List Nat) (P : List Char → POut) (hP : SepNotFirst P)
    (A B : List Node) (x : Node) (hx : Resets cat x) (a b : List Node)
    (ha : joinNumeric .fix cfg cat P (A ++ [x]) = .ok a) (hb : joinNumeric .fix cfg cat P B = .ok b) :
    joinNumeric .fix cfg cat P (A ++ x :: B) = .ok (a ++ b) :=
  joinNumeric_split cfg cat P hP A B x hx a b ha hb

/-- … for BOTH loop variants with explicit fuel (the loop itself, not the driver's fuel). -/
theorem numeral_loop_cut_at_resetting_node (v : NVariant) (cfg : NCfg) (cat : List Nat) (P : List Char → POut)
    (hP : SepNotFirst P) (A B : List Node) (x : Node) (hx : Resets cat x) (a b : List Node) (F1 F2 : Nat)
    (ha : nloop v cfg cat P F1 (nInit (A ++ [x])) = .ok a) (hb : nloop v cfg cat P F2 (nInit B) = .ok b) :
    nloop v cfg cat P (F1 + F2) (nInit (A ++ x :: B)) = .ok (a ++ b) :=
  nloop_split v cfg cat P hP A B x hx a b F1 F2 ha hb

/-- … and what the numeral joiner does LEFT of a resetting node does not depend on which resetting node follows
(a katakana token or the token the katakana joiner puts in its place). -/
theorem numeral_left_part_independent_of_reset (cfg : NCfg) (cat : List Nat) (P : List Char → POut)
    (hP : SepNotFirst P) (A : List Node) (x : Node) (hx : Resets cat x) (a : List Node)
    (ha : joinNumeric .fix cfg cat P (A ++ [x]) = .ok a) :
    ∃ a0, a = a0 ++ [x] ∧ ∀ x', Resets cat x' → joinNumeric .fix cfg cat P (A ++ [x']) = .ok (a0 ++ [x']) :=
  joinNumeric_reset_last cfg cat P hP A x hx a ha

/-- `SepNotFirst` cannot be dropped: with a parser that ACCEPTS a lone `,` (not `done()`, COMMA error) the run `,`
is closed at the resetting node `x` by the trailing-separator rule with an EMPTY range (`concat(begin, i - 1)`,
`i - 1 = begin`), nothing is joined, and `i = begin_idx + 2` puts the index one node PAST `x`: on `,|x|1|2` the `1`
is never examined and `1|2` stay apart (4 tokens), although `,|x` alone gives 2 tokens and `1|2` alone is joined
to 1.  (The real parser rejects a leading separator, so the implementation never gets there.) -/
theorem numeral_cut_needs_sep_not_first_counterexample :
    Resets cxCat (cxNode 1 ['x']) ∧
    cxLen (joinNumeric .fix cxCfg cxCat cxP ([cxNode 0 [',']] ++ [cxNode 1 ['x']])) = some 2 ∧
    cxLen (joinNumeric .fix cxCfg cxCat cxP [cxNode 2 ['1'], cxNode 3 ['2']]) = some 1 ∧
    cxLen (joinNumeric .fix cxCfg cxCat cxP
      ([cxNode 0 [',']] ++ cxNode 1 ['x'] :: [cxNode 2 ['1'], cxNode 3 ['2']])) = some 4 ∧ ¬ SepNotFirst cxP :=
  ⟨joinNumeric_split_counterexample.1, joinNumeric_split_counterexample.2.1, joinNumeric_split_counterexample.2.2.1,
    joinNumeric_split_counterexample.2.2.2, fun h => absurd h.1 (by decide)⟩

/-- the hypotheses are satisfiable: `あ` (class 64) resets the numeral loop and is not katakana, the witness parser
rejects a leading separator; `1|2|あ|1|2` is joined on both sides of `あ` -/
example : Resets [16, 16, 64] dX ∧ isKatakana [16, 16, 64] dX = .ok false ∧ dX.b ≤ dX.e ∧ SepNotFirst f3P :=
  ⟨⟨64, by decide, by decide, by decide, by decide⟩, by decide, by decide, by decide, by decide⟩

/-! ### fourth round (depth): index safety — the plugin stack never panics on a path that tiles the text

Every index operation of `JoinNumericPlugin::rewrite_gen` / `concat`, `JoinKatakanaOovPlugin::rewrite_gen`,
`concat_nodes`, `concat_oov_nodes` is an explicit outcome of the model: `path[i]`, `path[i as usize - 1]`,
`path[len - 1]`, `path[begin]`, `path[end - 1]` (`none => .panic`), `i as usize` for a negative `i`, `end - begin` in
`concat` (usize; NEW in this round: `nconcat`'s branch `e < b`), `end_bytes - beg_bytes` (usize), the `u16` sum of the
head-word lengths, `mod_cat[range]` / `mod_cat[offset]` (`catOfRange`, `canOovBow`), `num_codepts() = end - begin`
(`isShorter`), `begin >= end => Err(InvalidRange)`; `path.drain(begin + 1..end)` is shown to be in range whenever it
is reached (`concat_drain_in_range`).  Not modelled as outcomes (identities on the reachable domain): the casts
`path.len() as i32`, `begin() as u16` (a path has at most 65535 nodes and the offsets come from `u16` fields).

`Tiles cat nb path` (Proofs/RewriteSafe.lean; C01's `PathOk` on the C14 node type): adjacent nodes touch in
characters and bytes, every node covers at least one character of the text (`cat` = its class table), byte ranges
are not reversed, the path begins at `(0, 0)` and ends at `(cat.length, nb)`, and the head-word lengths of the whole
path add up to less than 65536 (the sum of the lengths of the head words of the tokens of ONE text of at most 49149
bytes).  `Safe` is `Tiles` without the two end conditions. -/

/-- **The plugin stack never panics.**  For every path that tiles the text, every stack of the two plugins with any
settings, every parser behaviour and BOTH variants of the numeral loop: `rewriteAll` is not a panic — it is `ok`, the
documented `Err(InvalidRange)`, or (variant `cur` only, finding F2) out of fuel. -/
theorem rewrite_stack_never_panics (v : NVariant) (cat : List Nat) (P : List Char → POut) (pls : List Plugin)
    (nb : Nat) (path : List Node) (ht : Tiles cat nb path) : rewriteAll v cat P pls path ≠ .panic := by
  intro h
  rcases rewriteAll_safe v cat P pls path ht.safe with h' | h' | ⟨q, hq, _⟩ <;> rw [h] at * <;> contradiction

/-- … and for the repaired loop (`fix`, the code as it is now) the outcome is `ok` with a path that tiles the text
again, or `Err(InvalidRange)`: C03's hypothesis `hrew` and C01's `hrew`/`hkeep` for a rewrite built from this model. -/
theorem rewrite_stack_ok_or_invalid_range (cat : List Nat) (P : List Char → POut) (pls : List Plugin)
    (nb : Nat) (path : List Node) (ht : Tiles cat nb path) :
    (∃ q, rewriteAll .fix cat P pls path = .ok q ∧ Tiles cat nb q) ∨ rewriteAll .fix cat P pls path = .err := by
  rcases rewriteAll_safe .fix cat P pls path ht.safe with h | h | ⟨q, hq, _⟩
  · exact absurd h (rewriteAll_fix_ne_fuel cat P pls path)
  · exact .inr h
  · exact .inl ⟨q, hq, rewriteAll_tiles .fix cat P pls nb path q ht hq⟩

/-- A successful run of any stack (either variant) keeps the tiling: in particular every byte range of the result
lies inside the text and is not reversed, so slicing the text by a node's byte range cannot fail. -/
theorem rewrite_keeps_tiling (v : NVariant) (cat : List Nat) (P : List Char → POut) (pls : List Plugin) (nb : Nat)
    (path q : List Node) (ht : Tiles cat nb path) (h : rewriteAll v cat P pls path = .ok q) :
    Tiles cat nb q ∧ ∀ m ∈ q, m.b < m.e ∧ m.e ≤ cat.length ∧ m.bb ≤ m.eb ∧ m.eb ≤ nb := by
  have hq := rewriteAll_tiles v cat P pls nb path q ht h
  refine ⟨hq, fun m hm => ?_⟩
  obtain ⟨h1, h2, h3⟩ := hq.safe.rng m hm
  refine ⟨h1, h2, h3, ?_⟩
  -- the end of `m` is at most the end of the last node
  obtain ⟨pre, post, rfl⟩ := List.append_of_mem hm
  cases hpost : lastE (m :: post) with
  | none => simp [lastE] at hpost
  | some y =>
    have hl : lastE (pre ++ m :: post) = some y := by
      rw [lastE_append_of_ne_nil pre (by simp)]; exact hpost
    have hy := hq.last y hl
    have hc : Contig (m :: post) := ((contig_append_iff pre (m :: post)).mp hq.safe.contig).2.1
    have := chain_span (m :: post) (m.b, m.bb) y hc
      (fun n hn => ⟨(hq.safe.rng n (by simp [List.mem_cons.mp hn |>.elim (fun h => Or.inr (Or.inl h)) (fun h => Or.inr (Or.inr h))])).1,
        (hq.safe.rng n (by simp [List.mem_cons.mp hn |>.elim (fun h => Or.inr (Or.inl h)) (fun h => Or.inr (Or.inr h))])).2.2⟩)
      (by simp [firstB]) hpost
    -- m.eb ≤ (end of the chain) = nb
    rw [hy] at this
    cases post with
    | nil =>
      simp only [lastE, List.getLast?_singleton, Option.map_some, Option.some.injEq] at hpost
      rw [hy] at hpost
      simp only [Prod.mk.injEq] at hpost
      omega
    | cons b r =>
      have hl' : lastE (b :: r) = some y := by
        have := lastE_append_of_ne_nil [m] (b := b :: r) (by simp)
        simp only [List.singleton_append] at this
        rw [← this]; exact hpost
      have := chain_span (b :: r) (b.b, b.bb) y hc.2.2
        (fun n hn => ⟨(hq.safe.rng n (by simp [List.mem_cons.mp hn |>.elim (fun h => Or.inr (Or.inr (Or.inl h))) (fun h => Or.inr (Or.inr (Or.inr h)))])).1,
          (hq.safe.rng n (by simp [List.mem_cons.mp hn |>.elim (fun h => Or.inr (Or.inr (Or.inl h))) (fun h => Or.inr (Or.inr (Or.inr h)))])).2.2⟩)
        (by simp [firstB]) hl'
      have e2 := hc.2.1
      rw [hy] at this
      simp only at this
      omega

/-- The numeral loop from ANY loop state with the invariant `NInv2` (`-1 ≤ i`, `begin_idx ≤ i`, `i < len` while a run
is open) on a safe path, any fuel, any parser, both variants: never a panic; `ok` results are safe paths. -/
theorem numeric_loop_never_panics (v : NVariant) (cfg : NCfg) (cat : List Nat) (P : List Char → POut) (fuel : Nat)
    (st : NState) (hs : Safe cat st.path) (hinv : NInv2 st) :
    nloop v cfg cat P fuel st ≠ .panic ∧ ∀ q, nloop v cfg cat P fuel st = .ok q → Safe cat q := by
  rcases nloop_safe v cfg cat P fuel st hs hinv with h | h | ⟨q, hq, hsq⟩
  · rw [h]; exact ⟨by simp, by simp⟩
  · rw [h]; exact ⟨by simp, by simp⟩
  · rw [hq]; exact ⟨by simp, fun q' h' => by cases h'; exact hsq⟩

/-- `InvalidRange` comes only from the trailing-separator rule with an EMPTY range: `concat` on `[b, e]` with
`b ≤ e ≤ len` of a safe path is `ok` (safe, not longer) unless `b = e`. -/
theorem numeral_concat_never_panics (cfg : NCfg) (cat : List Nat) (P : List Char → POut) (path : List Node)
    (hs : Safe cat path) (b e : Nat) (hb : b < path.length) (hbe : b ≤ e) (he : e ≤ path.length) (acc : List Char) :
    (nconcat cfg P path b e acc = .err ∧ b = e) ∨
      ∃ q, nconcat cfg P path b e acc = .ok q ∧ Safe cat q ∧ q.length ≤ path.length :=
  nconcat_safe cfg P hs b e hb hbe he acc

/-- The katakana joiner on a safe path always returns `ok` — no panic, no `InvalidRange`, within the driver's fuel —
and the result is safe. -/
theorem join_katakana_never_fails (cfg : KCfg) (cat : List Nat) (path : List Node) (hs : Safe cat path) :
    ∃ q, joinKatakana cfg cat path = .ok q ∧ Safe cat q := by
  rcases kloop_safe cfg cat (kFuel path) path 0 hs with h | h
  · exact absurd h (kloop_terminates cfg cat _ path 0 (by unfold kFuel; omega))
  · exact h

/-- Both concatenation functions on a non-empty block `[b, e)` inside a safe path succeed: `path[end - 1]`,
`path[begin]`, `end_bytes - beg_bytes` and the `u16` sum of head-word lengths are all in range. -/
theorem concat_never_panics (cat : List Nat) (path : List Node) (hs : Safe cat path) (b e : Nat) (hbe : b < e)
    (he : e ≤ path.length) (nf : Option (List Char)) (posId : Nat) :
    (∃ q, concatNodes path b e nf = .ok q ∧ Safe cat q) ∧ (∃ q, concatOovNodes path b e posId = .ok q ∧ Safe cat q) :=
  ⟨concatNodes_safe hs b e hbe he nf, concatOovNodes_safe hs b e hbe he posId⟩

/-- `path.drain(begin + 1..end)` is in range whenever either concatenation function reaches it (`begin + 1 ≤ end ≤
len`), and the new length is `len - (end - (begin + 1))`: the model's `take b ++ m :: drop e` loses nothing. -/
theorem concat_drain_in_range (path q : List Node) (b e : Nat) (nf : Option (List Char)) (posId : Nat) :
    (concatNodes path b e nf = .ok q → b + 1 ≤ e ∧ e ≤ path.length ∧ q.length = path.length - (e - (b + 1))) ∧
    (concatOovNodes path b e posId = .ok q → b + 1 ≤ e ∧ e ≤ path.length ∧ q.length = path.length - (e - (b + 1))) :=
  ⟨drain_in_range, drain_in_range_oov⟩

/-- The driver's per-run outcome classes (op `plug`) end in exactly `rewriteAll`. -/
theorem trace_is_rewrite_all (v : NVariant) (cat : List Nat) (P : List Char → POut) (pls : List Plugin)
    (path : List Node) : (rewriteTrace v cat P pls path).2 = rewriteAll v cat P pls path :=
  rewriteTrace_snd v cat P pls path

/-! #### the hypothesis cannot be dropped: each index operation does fail off the tiling (model = implementation,
directed cases of op `plug`) -/

def sA : Node := { dA with hwl := 1 }
def sB : Node := { dB with hwl := 1 }

/-- Without the tiling every panic outcome is reachable (the same inputs make the real code panic, op `plug`):
a node that ends beyond the text (`mod_cat[range]`), head-word lengths that add up to 65536 (`u16`), a reversed byte
range (`end_bytes - beg_bytes`), a reversed character range under the katakana joiner (`num_codepts()`), and the
`usize` subtraction in `concat` for `end < begin` (not reachable from `rewrite_gen`: `NInv2`). -/
theorem never_panics_needs_tiling_counterexample (v : NVariant) :
    joinNumeric v { numPos := 1, enableNormalize := false } [16, 16] pAll [sA, { sB with e := 3 }] = .panic ∧
    joinNumeric v { numPos := 1, enableNormalize := false } [16, 16] pAll
      [{ sA with hwl := 40000 }, { sB with hwl := 25536 }] = .panic ∧
    joinNumeric v { numPos := 1, enableNormalize := false } [16, 16] pAll [{ sA with bb := 7 }, sB] = .panic ∧
    joinKatakana { oovPos := 5, minLength := 1 } [128, 128] [{ kA with b := 2, e := 1, wid := 3 }] = .panic ∧
    nconcat { numPos := 1, enableNormalize := false } pAll [sA, sB] 1 0 [] = .panic := by
  cases v <;> decide

/-- non-vacuity: `Tiles` / `Safe` / `NInv2` are inhabited (the path `1|2|あ` over 3 characters / 5 bytes), and the
stack N,K on it is `ok` -/
example : Tiles [16, 16, 64] 5 [dA, dB, dX] ∧ NInv2 (nInit [dA, dB, dX]) := by
  refine ⟨⟨⟨⟨rfl, rfl, rfl, rfl, trivial⟩, ?_, by decide⟩, ?_, ?_, by simp⟩, nInit_inv2 _⟩
  · intro n hn
    simp only [List.mem_cons, List.not_mem_nil, or_false] at hn
    rcases hn with rfl | rfl | rfl <;> decide
  · intro x hx; simp only [firstB, List.head?_cons, Option.map_some, Option.some.injEq] at hx; rw [← hx]; rfl
  · intro x hx; rw [← Option.some.inj hx]; rfl

/-- The `u16` hypothesis of `Tiles` from per-node facts: if every node's head-word length is at most its byte length
(`head_word_length` IS the byte length of the trie key of a dictionary word resp. of the surface of an OOV node; the
harness checks `hwl ≤ eb - bb` on every node of every analysed path, key `c14:assumption:hwl-le-bytes`) and the
lookup text has fewer than 65536 bytes (`resolve_edits`' guard, C07), then a contiguous path over the text tiles it. -/
theorem tiles_from_node_bounds (cat : List Nat) (nb : Nat) (path : List Node) (hc : Contig path)
    (hr : ∀ n ∈ path, n.b < n.e ∧ n.e ≤ cat.length ∧ n.bb ≤ n.eb ∧ n.hwl ≤ n.eb - n.bb)
    (hf : ∀ x, firstB path = some x → x = (0, 0)) (hl : ∀ x, lastE path = some x → x = (cat.length, nb))
    (he : path = [] → cat = [] ∧ nb = 0) (hnb : nb < 65536) : Tiles cat nb path :=
  tiles_of_node_bounds cat nb path hc hr hf hl he hnb

/-! #### `Err(InvalidRange)` is unreachable for the real parser -/

/-- **The plugin stack always succeeds** on a path that tiles the text when the parser rejects `,` and `.` as the first
character of a number (`SepNotFirst`, true of the real `NumericParser`: the harness ships its answers for `,` and `.`
whenever a separator node exists): repaired loop — `ok` with a path that tiles the text again, no panic, no
`InvalidRange`, within the driver's fuel.  With this the plugin stage of `do_tokenize` cannot fail at all (C03). -/
theorem rewrite_stack_always_ok (cat : List Nat) (P : List Char → POut) (hP : SepNotFirst P) (pls : List Plugin)
    (nb : Nat) (path : List Node) (ht : Tiles cat nb path) :
    ∃ q, rewriteAll .fix cat P pls path = .ok q ∧ Tiles cat nb q := by
  rcases rewriteAll_ok .fix cat P hP pls path ht.safe with h | ⟨q, hq, _⟩
  · exact absurd h (rewriteAll_fix_ne_fuel cat P pls path)
  · exact ⟨q, hq, rewriteAll_tiles .fix cat P pls nb path q ht hq⟩

/-- … for both variants and loop level: from any loop state with the invariants (`NInv2`, and `NOne`: while the open run
is ONE node the parser has accepted exactly that node's normalised form) the numeral loop is out of fuel (variant `cur`,
F2) or `ok`. -/
theorem numeric_loop_never_invalid_range (v : NVariant) (cfg : NCfg) (cat : List Nat) (P : List Char → POut)
    (hP : SepNotFirst P) (fuel : Nat) (st : NState) (hs : Safe cat st.path) (hinv : NInv2 st) (hone : NOne P st) :
    nloop v cfg cat P fuel st = .fuel ∨ ∃ q, nloop v cfg cat P fuel st = .ok q ∧ Safe cat q :=
  nloop_ok v cfg cat P hP fuel st hs hinv hone

/-- `SepNotFirst` cannot be dropped: with a parser that ACCEPTS a lone `,` (pending COMMA error) and `enableNormalize`,
the path `,|x` (it tiles a 2-character text; the `,` carries the numeral part of speech) makes the trailing-separator
rule call `concat_nodes(path, 0, 0, ..)`: `Err(InvalidRange)`, both variants. -/
theorem invalid_range_needs_accepting_parser_counterexample (v : NVariant) :
    joinNumeric v { cxCfg with enableNormalize := true } cxCat cxP [cxNode 0 [','], cxNode 1 ['x']] = .err ∧
      ¬ SepNotFirst cxP := by
  refine ⟨by cases v <;> decide, fun h => absurd h.1 (by decide)⟩

/-- non-vacuity of `NOne` and `SepNotFirst` -/
example : NOne f3P (nInit f3path) ∧ SepNotFirst f3P := ⟨nInit_one f3P f3path, by decide, by decide⟩

/-! #### commutation of the two plugins -/

/-- **Commutation, PARTIAL.**  Full statement wanted: `rewriteAll v cat P [N, K] path = rewriteAll v cat P [K, N] path`
whenever no node of `path` is both katakana by class and a numeral candidate (numeric by class, or an armed separator).
Proved: the instance in which the numeral joiner has nothing to join — no token of the path carries the numeral part of
speech and the katakana joiner's `oovPOS` is not the numeral one: when both orders succeed they return the same path,
namely the katakana joiner's result (the numeral joiner is the identity before it, `no_numeral_no_join`, and after it,
because every token the katakana joiner makes carries `oovPOS`).
MISSING for the full statement, on top of the locality theorems `katakana_cut_at_non_katakana` and
`numeral_cut_at_resetting_node`: (a) `joinKatakana` is the identity on a list without katakana nodes and `joinNumeric` on
a list of resetting nodes, as EQUATIONS of outcomes (here only for `ok` results); (b) the numeral joiner maps katakana-free
lists to katakana-free lists (`cat_of_range` is an AND over the joined range, as in `merged_separator_token_not_numeric`)
and the katakana joiner maps resetting nodes to resetting nodes; (c) the induction over the alternating segments.
When the side condition fails the statement is false: `plugin_order_matters_counterexample`. -/
theorem plugins_commute_partial (v : NVariant) (cat : List Nat) (P : List Char → POut) (n : NCfg) (k : KCfg)
    (path r r' : List Node) (hno : ∀ x ∈ path, x.pos ≠ n.numPos) (hpos : k.oovPos ≠ n.numPos)
    (h1 : rewriteAll v cat P [.numeric n, .katakana k] path = .ok r)
    (h2 : rewriteAll v cat P [.katakana k, .numeric n] path = .ok r') :
    r = r' ∧ joinKatakana k cat path = .ok r :=
  commute_of_no_numeral v cat P n k path r r' hno hpos h1 h2

/-- the hypotheses are satisfiable with a real join: `ア|イ` (POS 0, numeral POS 1, `oovPOS` 5) is joined to `アイ` in
both orders -/
example (v : NVariant) :
    (∀ x ∈ [kA, kI], x.pos ≠ ({ numPos := 1, enableNormalize := false } : NCfg).numPos) ∧
    rewriteAll v [128, 128] pAll [.numeric { numPos := 1, enableNormalize := false },
      .katakana { oovPos := 5, minLength := 0 }] [kA, kI] = .ok [mAI] ∧
    rewriteAll v [128, 128] pAll [.katakana { oovPos := 5, minLength := 0 },
      .numeric { numPos := 1, enableNormalize := false }] [kA, kI] = .ok [mAI] := by
  cases v <;> decide

end C14
