import Sudachi.Proofs.Numeric
import Sudachi.Proofs.NumericLang
import Sudachi.Proofs.NumericValue
import Sudachi.Proofs.NumericDenote
import Sudachi.Proofs.NumericClear
import Sudachi.Proofs.RewriteNumericRun
import Sudachi.Proofs.RewriteNumericTrace
import Sudachi.Proofs.RewriteNumericSplit
/-!
# C15 — joined numerals are normalised to their decimal value

Model: `Numeric.SN` (`StringNumber`), `Numeric.Parser` (`NumericParser`), `Numeric.rewrite`
(`JoinNumericPlugin::rewrite_gen`, the property's first transcription, op `pipeline`) and
`RewriteNumeric.joinNumeral` (C14's transcription of the plugin run with this parser model, op `pipe`;
the theorems about the joined TOKEN at the end of this file are about it), tied to the Rust code on every run by the correspondence check
(every string over the 28-symbol numeral alphabet up to length 4, value-driven numerals, the plugin
on real dictionaries).  `Numeric.parse text = some s` means: every character is accepted, `done()`
returns true and the normalised form is `s`.

Reference notation (`Proofs/Numeric.lean`): a written digit `Dg` (ASCII or kanji glyph), an integer
part `IntPart` (plain digits, or a first group and three-digit groups separated by `,`), optional
fraction.  `canonDigits`/`canonInt` are the decimal renderings (separators removed, ASCII digits,
leading zeros of plain digit strings kept), `trimZeros` drops trailing fractional zeros and
`fracPart` drops the point when nothing is left.

The model carries one switch per repair of the findings F1–F6 (`Numeric.Variant`): `Variant.pinned`
is the code as pinned, `Variant.repaired` the code after `fix_F1.patch` … `fix_F6.patch`; the harness
names the variant of the tree it is linked against on every case line.  Theorems that hold for every
variant are stated with `(v : Variant)`; a theorem that needs a repair names the switch it needs.

Full statement of the property's first clause (`parse_render`): for every numeral AST `a` built from
digits, separators, a fraction and the units 十百千万億兆 that is well-formed (`Numeral.WF`) and whose
terms fit positionally (`Numeral.Fits`), `parse (render a) = some (canon a)`, the normal form read
back as a decimal is the value of `a` (sum of coefficient × unit), and it is in canonical form.
PROVED in full, for EVERY variant (`parse_render_units`, `normal_form_value`, `normal_form_shape`;
`Proofs/NumericValue.lean` = digit content of `shift_scale`/`add`/`normalize_scale`/`to_string` and
the forward simulation, `Proofs/NumericDenote.lean` = values); the unit-free special cases
`parse_render_digits`, `parse_render_grouped`, `parse_render_decimal` are kept.  What the repair F5
changes is only the rendering: for the pinned code the normal form of a numeral with units keeps the
leading zeros of a coefficient below one (`parse_render_counterexample_leading_zero`, F5), its VALUE
is right for every variant; with repair F5 it has no leading zero.  Together with `reject_malformed`:
the repaired parser accepts exactly the renderings of well-formed fitting numerals
(`accepted_iff_wellformed`).

The parser object is reused inside a sentence (`clear()` before every run): `clear_is_new`,
`reused_parser_is_fresh`.

Full statement of the second clause (`reject_malformed`): if `parse text = some s` then `text` is
`render a` for some well-formed AST `a` (so a malformed grouping is never joined into a value).
This is FALSE for the pinned code (counterexample theorems F1–F4, and F6 at the plugin) and PROVED
for the repaired code (`reject_malformed`): the AST obeys the separator rules in every written
number, has no dangling point, every large unit has something in front of it, the large units
strictly decrease and the terms fit positionally (`Numeral.WF`, `Numeral.Fits`; the small units of a
group then strictly decrease, `wellformed_small_units_decrease`).  Each of the four near-miss
families is also rejected wherever it occurs in a text by its own repair alone (`reject_*_anywhere`).
The near-miss families that are rejected by every variant are `reject_dangling_point`,
`reject_bad_last_group`, `reject_leading_separator`.
-/
namespace C15
open Numeric

/-- Clause 1, plain digit strings (ASCII, kanji or mixed digits, any length, leading zeros kept):
the normalised form is the ASCII digit string. -/
theorem parse_render_digits (v : Variant) (ds : List Dg) (hne : ds ≠ []) :
    parse v (renderDigits ds) = some (canonDigits ds) :=
  parse_digits v ds hne

/-- Clause 1, integers with thousands separators: a first group of 1–3 digits that is not all zeros
and any number of three-digit groups; the separators are removed.  (`gs = []` is the plain case.) -/
theorem parse_render_grouped (v : Variant) (i : IntPart) (hwf : i.WF) :
    parse v (renderInt i) = some (canonInt i) :=
  parse_int v i hwf

/-- Clause 1, decimals: integer part as above, a point and at least one fraction digit; trailing
fractional zeros are dropped, and the point too when the fraction is all zeros. -/
theorem parse_render_decimal (v : Variant) (i : IntPart) (hwf : i.WF) (fs : List Dg) (hfs : fs ≠ []) :
    parse v (renderInt i ++ '.' :: renderDigits fs) =
      some (canonInt i ++ fracPart (trimZeros (canonDigits fs))) :=
  Numeric.parse_decimal v i hwf fs hfs

/-- Clause 1, unit notation, decided instances (the unit-test numerals and one numeral per
combination rule); the general theorem is `parse_render_units` below. -/
theorem parse_render_units_instances (v : Variant) (hv : v = Variant.pinned ∨ v = Variant.repaired) :
    parse v "千三百二十七".toList = some "1327".toList ∧
    parse v "千十七".toList = some "1017".toList ∧
    parse v "三兆2千億千三百二十七万一四.〇五".toList = some "3200013270014.05".toList ∧
    parse v "1.5百万1.5千20".toList = some "1501520".toList ∧
    parse v "259万2,300".toList = some "2592300".toList ∧
    parse v "200000000000000000000万".toList = some "2000000000000000000000000".toList ∧
    parse v "一億〇五".toList = some "100000005".toList ∧
    parse v "1.23456万".toList = some "12345.6".toList := by
  rcases hv with rfl | rfl <;>
    refine ⟨by decide, by decide, by decide, by decide, by decide, by decide, by decide, by decide⟩

/-- Clause 1 fails for a coefficient below one in front of a unit: the value is right but the
rendering keeps the integer zero (finding F5). -/
theorem parse_render_counterexample_leading_zero :
    parse .pinned "0.1万".toList = some "01000".toList ∧ parse .pinned "0.5百".toList = some "050".toList := by
  refine ⟨by decide, by decide⟩

/-- Clause 2, dangling point: an integer part followed by a point and nothing else is never
accepted. -/
theorem reject_dangling_point (v : Variant) (i : IntPart) (hwf : i.WF) :
    parse v (renderInt i ++ ['.']) = none := by
  obtain ⟨_, _, _, p4, p5, _, p7, _, p9, _, _⟩ := intState_props i hwf
  have hf := feed_int v i hwf ['.']
  have hpt : (intState i).append v '.' = (true, (intState i).pushPoint) := by
    apply append_point v _ p7 _ p4 p5
    rcases p9 with h | h
    · exact Or.inl h
    · right
      simp [Parser.checkComma, p7, h.1, h.2, p5]
  simp only [Parser.feed, hpt] at hf
  exact parse_none_of_done_false v _ _ _ hf (done_hanging v _ (by simp [Parser.pushPoint]))

/-- Clause 2, bad last group: a well-formed integer part followed by a separator and a group that
does not have exactly three digits (including the empty group, i.e. a trailing separator) is never
accepted. -/
theorem reject_bad_last_group (v : Variant) (i : IntPart) (hwf : i.WF) (g : List Dg) (hg : g.length ≠ 3) :
    parse v (renderInt i ++ ',' :: renderDigits g) = none := by
  obtain ⟨_, _, _, _, _, _, _, p8, _, _, _⟩ := intState_props i hwf
  have hf := feed_int v i hwf (',' :: renderDigits g)
  cases hc : (intState i).checkComma v with
  | false =>
    simp only [Parser.feed, append_comma_reject v _ hc] at hf
    exact parse_none_of_reject v _ _ _ hf
  | true =>
    simp only [Parser.feed, append_comma v _ hc] at hf
    rw [feed_digits] at hf
    obtain ⟨_, _, _, _, _, s6, _, s8⟩ := pushDigits_tmp_scale g (intState i).pushComma
    apply parse_none_of_done_false v _ _ _ hf
    apply done_bad_group
    · cases g with
      | nil => simpa [Parser.pushDigits, Parser.pushComma] using p8
      | cons a b => exact (pushDigits_flags (a :: b) (by simp) _).2
    · rw [s6]; rfl
    · rw [s8]; simpa [Parser.pushComma] using hg

/-- Clause 2, a numeral never starts with a separator. -/
theorem reject_leading_separator (v : Variant) (rest : List Char) :
    parse v ('.' :: rest) = none ∧ parse v (',' :: rest) = none := by
  constructor
  · apply parse_none_of_reject v _ 0 { Parser.new with hasHangingPoint := true, err := .point }
    simp [Parser.feed, Parser.append, Parser.new]
  · apply parse_none_of_reject v _ 0 { Parser.new with err := .comma }
    simp [Parser.feed, Parser.append, Parser.new, Parser.checkComma]

/-- Clause 2 is violated by the code as it is: separators inside the fraction are accepted
(finding F1). -/
theorem reject_malformed_counterexample_comma_in_fraction :
    parse .pinned "1.5,000".toList = some "1.5".toList ∧ parse .pinned "7.,227".toList = some "7.227".toList := by
  refine ⟨by decide, by decide⟩

/-- Clause 2 violated: a dangling point directly before a unit is accepted once a digit follows
(finding F2). -/
theorem reject_malformed_counterexample_point_before_unit :
    parse .pinned "1.千5".toList = some "1005".toList := by decide

/-- Clause 2 violated: a bad last separator group directly before a unit is accepted (finding F3). -/
theorem reject_malformed_counterexample_comma_before_unit :
    parse .pinned "1,千".toList = some "1000".toList ∧ parse .pinned "1,00万".toList = some "1000000".toList := by
  refine ⟨by decide, by decide⟩

/-- Clause 2 violated: large units out of order are accepted when the digits do not overlap
(finding F4). -/
theorem reject_malformed_counterexample_unit_order :
    parse .pinned "十万一万".toList = some "110000".toList ∧
      parse .pinned "千万百万".toList = some "11000000".toList := by
  refine ⟨by decide, by decide⟩

/-- the un-joined path of the text `7十九三.`: five one-character nodes, all tagged as numerals -/
def f6Path : List Node :=
  [⟨0, 1, ['7'], [], true⟩, ⟨1, 2, ['十'], [], true⟩, ⟨2, 3, ['九'], [], true⟩, ⟨3, 4, ['三'], [], true⟩,
   ⟨4, 5, ['.'], [], true⟩]

/-- Clause 2 violated at the plugin: `7十九三` is malformed (the terms overlap) and `done()` fails,
but because a point follows, the error state is POINT and the plugin joins the four characters into
one token whose normalised form is "0" — a wrong value (finding F6). -/
theorem reject_malformed_counterexample_trailing_separator :
    (match rewrite .pinned true [1, 2, 2, 2, 0] f6Path with
      | .ok p => p.map (fun n => (n.b, n.e, n.norm))
      | _ => []) = [(0, 4, ['0']), (4, 5, ['.'])] := by decide

/-- the same malformed numeral without the trailing point is left alone -/
theorem trailing_separator_contrast (v : Variant) (hv : v = Variant.pinned ∨ v = Variant.repaired) :
    (match rewrite v true [1, 2, 2, 2] (f6Path.take 4) with
      | .ok p => p.map (fun n => (n.b, n.e, n.norm))
      | _ => []) = [(0, 1, ['7']), (1, 2, ['十']), (2, 3, ['九']), (3, 4, ['三'])] := by
  rcases hv with rfl | rfl <;> decide

/-! ## the repaired parser -/

/-- **Clause 2, full statement, repaired code** (it only needs the repairs F1–F4): whatever the
parser accepts is the rendering of a numeral AST that is well-formed — every written number obeys
the separator rules (`IntPart.WF`: first group of 1–3 digits that is not all zeros, then groups of
exactly three; a fraction has digits and no separators; no dangling point — there is no AST for
it), every large unit has a coefficient or small-unit terms in front of it, the large units
strictly decrease — and whose terms fit positionally (`Numeral.Fits`: each term lies entirely in
the decimal positions the previous one leaves free, inside a group and from group to group).
(The empty text is the rendering of the empty numeral; the plugin never parses an empty run.) -/
theorem reject_malformed (v : Variant) (h1 : v.f1 = true) (h2 : v.f2 = true) (h3 : v.f3 = true)
    (h4 : v.f4 = true) (text s : List Char) (h : parse v text = some s) :
    ∃ a : Numeral, a.WF ∧ a.Fits ∧ render a = text :=
  accepted_wellformed v h1 h2 h3 h4 text s h

/-- a consequence of `Numeral.Fits`: inside every group the small units strictly decrease -/
theorem wellformed_small_units_decrease (a : Numeral) (hw : a.WF) (hf : a.Fits) :
    (∀ t ∈ a.larges, (t.1.smalls.map (fun x => x.2.exp)).Pairwise (· > ·)) ∧
    (a.rest.smalls.map (fun x => x.2.exp)).Pairwise (· > ·) := by
  constructor
  · intro t ht
    have hfit := hf.1 t ht
    simp only [groupSpans] at hfit
    have : Fit (smallSpans t.1.smalls) := by
      cases hl : t.1.last with
      | none => simpa [hl, lastSpans] using hfit
      | some r => rw [hl] at hfit; exact ((fit_snoc _ _).1 hfit).1
    exact fit_small_order _ (hw.1 t ht).1.1 this
  · have hfit := hf.2.1
    simp only [groupSpans] at hfit
    have : Fit (smallSpans a.rest.smalls) := by
      cases hl : a.rest.last with
      | none => simpa [hl, lastSpans] using hfit
      | some r => rw [hl] at hfit; exact ((fit_snoc _ _).1 hfit).1
    exact fit_small_order _ hw.2.2.1 this

/-- Clause 2, family F1, for every instance and wherever it occurs (repair F1 alone): after a point
and any fraction digits a thousands separator is never accepted. -/
theorem reject_comma_in_fraction_anywhere (v : Variant) (hv : v.f1 = true) (pre : List Char) (fs : List Dg)
    (post : List Char) : parse v (pre ++ '.' :: (renderDigits fs ++ ',' :: post)) = none :=
  reject_comma_in_fraction_any v hv pre fs post

/-- Clause 2, family F2 (repair F2 alone): a unit directly after a point is never accepted. -/
theorem reject_point_before_unit_anywhere (v : Variant) (hv : v.f2 = true) (pre : List Char) (c : Char)
    (hc : IsUnit c) (post : List Char) : parse v (pre ++ '.' :: c :: post) = none :=
  reject_point_before_unit_any v hv pre c hc post

/-- Clause 2, family F3 (repair F3 alone): a unit directly after a separator group that does not
have exactly three digits (the empty group included) is never accepted. -/
theorem reject_open_group_before_unit_anywhere (v : Variant) (hv : v.f3 = true) (pre : List Char)
    (g : List Dg) (hg : g.length ≠ 3) (c : Char) (hc : IsUnit c) (post : List Char) :
    parse v (pre ++ ',' :: (renderDigits g ++ c :: post)) = none :=
  reject_open_group_before_unit_any v hv pre g hg c hc post

/-- Clause 2, family F4 (repair F4 alone): a large unit that is not smaller than the previous large
unit (`mid` is whatever stands between them) is never accepted. -/
theorem reject_large_unit_order_anywhere (v : Variant) (hv : v.f4 = true) (pre mid post : List Char)
    (U1 U2 : LargeU) (hle : U1.exp ≤ U2.exp) (hmid : ∀ c ∈ mid, ∀ U : LargeU, U.char ≠ c) :
    parse v (pre ++ U1.char :: (mid ++ U2.char :: post)) = none :=
  reject_large_unit_order_any v hv pre mid post U1 U2 hle hmid

/-- Clause 1, rendering (repair F5 alone): the normal form of an accepted numeral that contains a
unit has no leading zero — it is `0`, starts with a non-zero digit, or starts with `0.`. -/
theorem unit_normal_form_no_leading_zero (v : Variant) (hv : v.f5 = true) (text s : List Char)
    (h : parse v text = some s) (hu : ∃ c ∈ text, IsUnit c) : NoLeadingZero s :=
  unit_no_leading_zero v hv text s h hu

/-- F6 at the parser (repair F6 alone): `done()` sets the error state POINT/COMMA only when both
final additions succeeded, i.e. when `total` holds the value of what was read — the condition under
which the plugin may join the prefix in front of a trailing separator. -/
theorem done_error_state_sound (v : Variant) (hv : v.f6 = true) (q : Parser) (he : q.err = .none)
    (h : (q.done v).2.err ≠ .none) :
    (q.subtotal.add q.tmp).1 = true ∧ (q.total.add (q.subtotal.add q.tmp).2.1).1 = true :=
  done_error_sums_ok v hv q he h

/-- the witnesses of F1–F6 on the repaired code: F1–F4 are no longer accepted, the F5 numerals are
rendered without the leading zero, and the plugin leaves the overlapping numeral in front of the
trailing point alone (F6) -/
theorem repaired_witnesses :
    parse .repaired "1.5,000".toList = none ∧ parse .repaired "7.,227".toList = none ∧
    parse .repaired "1.千5".toList = none ∧
    parse .repaired "1,千".toList = none ∧ parse .repaired "1,00万".toList = none ∧
    parse .repaired "十万一万".toList = none ∧ parse .repaired "千万百万".toList = none ∧
    parse .repaired "0.1万".toList = some "1000".toList ∧ parse .repaired "0.5百".toList = some "50".toList ∧
    (match rewrite .repaired true [1, 2, 2, 2, 0] f6Path with
      | .ok p => p.map (fun n => (n.b, n.e, n.norm))
      | _ => []) = [(0, 1, ['7']), (1, 2, ['十']), (2, 3, ['九']), (3, 4, ['三']), (4, 5, ['.'])] := by
  refine ⟨by decide, by decide, by decide, by decide, by decide, by decide, by decide, by decide, by decide,
    by decide⟩

/-- the last two repairs taken alone on their witnesses (F1–F4 alone: the `_anywhere` theorems) -/
theorem single_repair_witnesses :
    parse { Variant.pinned with f5 := true } "0.1万".toList = some "1000".toList ∧
    (match rewrite { Variant.pinned with f6 := true } true [1, 2, 2, 2, 0] f6Path with
      | .ok p => p.map (fun n => (n.b, n.e, n.norm))
      | _ => []) = [(0, 1, ['7']), (1, 2, ['十']), (2, 3, ['九']), (3, 4, ['三']), (4, 5, ['.'])] := by
  refine ⟨by decide, by decide⟩


/-! ## unit notation: the value half (every variant) -/

/-- **Clause 1, full statement** (was `parse_render_units_partial`): every well-formed numeral AST
`a` (digits in any script, thousands separators, fraction, small units 十百千 with or without
coefficient, large units 万億兆, coefficients with fractions such as `1.5百万`) whose terms fit
positionally is accepted — every character, and `done()` — and its normal form is `canon v a`:
`to_string` of the digits of the terms written at their decimal positions with the gaps filled with
zeros (`numeralPN`, `PN.render`), and with repair F5 the leading zeros stripped when a unit was
written.  Holds for EVERY variant (pinned included); no restriction on the magnitude. -/
theorem parse_render_units (v : Variant) (a : Numeral) (hw : a.WF) (hf : a.Fits) :
    parse v (render a) = some (canon v a) :=
  parse_render_canon v a hw hf

/-- **Clause 1, the value**: the normal form, read back as a decimal (`decimalOf`: digits before
and after the point), is the value of the numeral — the sum over its groups of (sum of
coefficient × small unit, plus the plain number) × large unit, a unit without coefficient counting
as 1 (`Numeral.value`; `Dec.eqv` = the same rational `m / 10^k`).  Every variant: repair F5 changes
the rendering, not the value — this is the part of the clause that survives for the pinned code. -/
theorem normal_form_value (v : Variant) (a : Numeral) (hw : a.WF) (hf : a.Fits) :
    ∃ s, parse v (render a) = some s ∧ (decimalOf s).eqv a.value :=
  ⟨canon v a, parse_render_canon v a hw hf, canon_value v a hw hf⟩

/-- **Clause 1, canonical form**, stated exactly as the code renders: (1) a numeral WITHOUT units is
rendered as the written number — all integer digits (leading zeros KEPT), separators removed,
trailing fraction zeros dropped and the point too when nothing is left — for every variant; (2) with
repair F5 a numeral WITH a unit has no leading zero (`0`, a non-zero first digit, or `0.`…);
(3) for the pinned code a numeral with a unit is `to_string` of the positional number as it is
(leading zeros of a coefficient below one kept: finding F5); in all cases the fraction is the
`fracPart (trimZeros …)` of `PN.render`. -/
theorem normal_form_shape (v : Variant) (a : Numeral) :
    (a.hasUnit = false → canon v a = match a.rest.last with
      | none => ['0']
      | some r => canonInt r.int ++ fracPart (trimZeros (canonDigits r.frac))) ∧
    (v.f5 = true → a.hasUnit = true → NoLeadingZero (canon v a)) ∧
    (v.f5 = false → canon v a = PN.renderO (numeralPN a)) := by
  refine ⟨canon_plain v a, fun hv hu => canon_units v hv a hu, ?_⟩
  intro h5
  simp [canon, h5]

/-- **accepted ⇔ well-formed** (repaired code; `⇒` is `reject_malformed` and needs F1–F4, `⇐` holds
for every variant): the parser accepts a text exactly when it is the rendering of a well-formed
numeral whose terms fit, and then the normal form is `canon` of ANY such numeral -/
theorem accepted_iff_wellformed (v : Variant) (h1 : v.f1 = true) (h2 : v.f2 = true) (h3 : v.f3 = true)
    (h4 : v.f4 = true) (text : List Char) :
    (∃ s, parse v text = some s) ↔ ∃ a : Numeral, a.WF ∧ a.Fits ∧ render a = text := by
  constructor
  · rintro ⟨s, hs⟩
    exact accepted_wellformed v h1 h2 h3 h4 text s hs
  · rintro ⟨a, hw, hf, rfl⟩
    exact ⟨canon v a, parse_render_canon v a hw hf⟩

/-- Denotation of `shift_scale`: a `StringNumber` that holds the positional number `x` (digits `ds`,
last digit at the decimal position `ex`; `SN.Rep` abstracts from the scale/point encoding) holds
`x` moved up by `e` positions afterwards, and that is `x × 10^e`. -/
theorem shift_scale_denotation (s : SN) (x : PN) (e : Nat) (h : s.Rep x) :
    (s.shiftScale e).Rep (x.shift e) ∧ (x.shift e).val.eqv (x.val.shl e) :=
  ⟨rep_shift s x e h, val_shift x e⟩

/-- Denotation of `add` for two non-zero numbers: it succeeds EXACTLY when the second number lies
entirely in the positions the first leaves free (`y.hi ≤ x.ex`, the condition of `add_good`); then
the result holds the digits of the first, the zeros of the gap and the digits of the second — and
that is the SUM; the argument, normalised by `int_length`, still holds its number. -/
theorem add_denotation (a b : SN) (x y : PN) (ha : a.Rep x) (hb : b.Rep y) :
    ((a.add b).1 = true ↔ y.hi ≤ x.ex) ∧
    (y.hi ≤ x.ex → (a.add b).2.1.Rep (x.join y) ∧ (a.add b).2.2.Rep y ∧ (x.join y).val.eqv (x.val.add y.val)) := by
  have h1 := (add_good a b ha.1 hb.1).1
  rw [rep_hi b y hb, ha.2.2.2] at h1
  refine ⟨h1, fun hfit => ?_⟩
  obtain ⟨_, k2, k3⟩ := rep_add a b x y ha hb hfit
  exact ⟨k2, k3, val_join x y hfit⟩

/-- Denotation of `normalize_scale`: the number held does not change; afterwards there is no point,
or no scale and the point strictly inside the digits. -/
theorem normalize_scale_denotation (s : SN) (x : PN) (h : s.Rep x) :
    s.normalizeScale.Rep x ∧
    (s.normalizeScale.point = none ∨
      ∃ p, s.normalizeScale.point = some p ∧ s.normalizeScale.scale = 0 ∧ 1 ≤ p ∧ p < s.sig.length) :=
  ⟨rep_normalize s x h, normalize_form s h.1⟩

/-- Denotation of `to_string`: the rendering of the number held (`PN.render`: zeros up to the units,
or the point before the fraction digits with trailing zeros — and then the point — dropped; no
panic), and the rendering read back is the value of the number. -/
theorem to_string_denotation (s : SN) (x : PN) (h : s.Rep x) (hd : Digits x.ds) :
    s.toStr = some x.render ∧ (decimalOf x.render).eqv x.val := by
  refine ⟨rep_toStr s x h (fun c hc => digit_ne_point c (hd c hc)), decimalOf_render x hd ?_⟩
  rw [← rep_hi s x h]
  exact good_hi_pos s h.1

/-! ## the parser object is reused: `clear()` -/

/-- **`clear()` restores the initial state**: whatever texts the parser went through (accepted or
rejected characters, `done()`, `get_normalized()` with its write-back into `total`), after `clear()`
it is `NumericParser::new()`, field by field.  (Hypothesis: the parser did not panic — the
model-only mark `bad` of a `usize` underflow; `clear()` keeps the mark: `Numeric.clear_anyBad`.) -/
theorem clear_is_new (p : Parser) (h : p.anyBad = false) : p.clear = Parser.new :=
  Numeric.clear_is_new p h

/-- **a reused parser behaves like a new one** (the observation tied by the hook `verif_parse_seq`):
any sequence of texts sent through ONE parser with `clear()` in between is observed exactly like
each text through a fresh parser; a panic of one of them is a panic of the sequence. -/
theorem reused_parser_is_fresh (v : Variant) (ts : List (List Char)) :
    verifParseSeq v ts = Wire.allSome (ts.map (verifParse v)) :=
  seq_is_fresh v ts

/-! non-vacuity of the hypotheses -/

/-- the repaired variant has the four switches `reject_malformed` asks for, and there are accepted
texts with units (`1.5百万1.5千20`) -/
example : Variant.repaired.f1 = true ∧ Variant.repaired.f2 = true ∧ Variant.repaired.f3 = true ∧
    Variant.repaired.f4 = true ∧ Variant.repaired.f5 = true ∧ Variant.repaired.f6 = true ∧
    parse .repaired "1.5百万1.5千20".toList = some "1501520".toList := by
  refine ⟨rfl, rfl, rfl, rfl, rfl, rfl, by decide⟩

/-- `1.5百万1.5千20` as an AST: one large group `1.5百` before 万, then `1.5千` and `20`; it is
well-formed, fits, and renders to the text -/
def exUnits : Numeral :=
  let r15 : Run := ⟨⟨[⟨false, 1⟩], []⟩, [⟨false, 5⟩]⟩
  ⟨[(⟨[(some r15, .hundred)], none⟩, .man)], ⟨[(some r15, .thousand)], some ⟨⟨[⟨false, 2⟩, ⟨false, 0⟩], []⟩, []⟩⟩⟩

example : render exUnits = "1.5百万1.5千20".toList ∧ exUnits.Fits := by
  refine ⟨by decide, ?_, ?_, ?_⟩
  · intro t ht
    simp only [exUnits, List.mem_singleton] at ht
    subst ht
    simp [groupSpans, smallSpans, lastSpans, Fit]
  · simp [exUnits, groupSpans, smallSpans, lastSpans, termSpan, Fit, Run.il, Run.fl, IntPart.len, SmallU.exp]
  · simp [exUnits, largeSpans, groupSpans, smallSpans, lastSpans, termSpan, Fit, spanOf, Run.il, Run.fl,
      IntPart.len, SmallU.exp, LargeU.exp]

example : exUnits.WF := by
  refine ⟨?_, by simp [exUnits], ?_, ?_⟩
  · intro t ht
    simp only [exUnits, List.mem_singleton] at ht
    subst ht
    refine ⟨⟨?_, trivial⟩, Or.inl (by simp)⟩
    intro x hx
    simp only [List.mem_singleton] at hx
    subst hx
    exact ⟨by simp, by simp, by simp⟩
  · intro x hx
    simp only [exUnits, List.mem_singleton] at hx
    subst hx
    exact ⟨by simp, by simp, by simp⟩
  · exact ⟨by simp [exUnits], by simp [exUnits], by simp [exUnits]⟩

/-- units exist; a large unit that is not smaller; text between two large units without a large unit -/
example : IsUnit '千' ∧ IsUnit '万' ∧ LargeU.man.exp ≤ LargeU.man.exp ∧ LargeU.man.exp ≤ LargeU.oku.exp ∧
    (∀ c ∈ ['一'], ∀ U : LargeU, U.char ≠ c) := by
  refine ⟨Or.inl ⟨.thousand, rfl⟩, Or.inr ⟨.man, rfl⟩, by decide, by decide, ?_⟩
  intro c hc U
  simp only [List.mem_singleton] at hc
  subst hc
  cases U <;> decide

/-- a parser state in which `done()` (repaired) reports POINT: after `6.` -/
example : ((Parser.new.feed .repaired "6.".toList 0).2.2.done .repaired).2.err = .point ∧
    (Parser.new.feed .repaired "6.".toList 0).2.2.err = .none := by
  refine ⟨by decide, by decide⟩

/-- a text with a unit that is accepted by the variant with repair F5 alone -/
example : parse { Variant.pinned with f5 := true } "0.5百".toList = some "50".toList ∧
    (∃ c ∈ "0.5百".toList, IsUnit c) := by
  refine ⟨by decide, '百', by decide, Or.inl ⟨.hundred, rfl⟩⟩


/-- `exUnits` (`1.5百万1.5千20`, well-formed and fitting, see below): its normal form in both
variants, its value 1501520, it has units -/
example : canon .repaired exUnits = "1501520".toList ∧ canon .pinned exUnits = "1501520".toList ∧
    exUnits.value.eqv ⟨1501520, 0⟩ ∧ exUnits.hasUnit = true := by
  refine ⟨by decide, by decide, ?_, rfl⟩
  unfold Dec.eqv
  decide

/-- `0.1万` as an AST: where the variants differ (F5) — the rendering, not the value (1000) -/
def exTenth : Numeral :=
  ⟨[(⟨[], some ⟨⟨[⟨false, 0⟩], []⟩, [⟨false, 1⟩]⟩⟩, .man)], ⟨[], none⟩⟩

example : render exTenth = "0.1万".toList ∧ canon .pinned exTenth = "01000".toList ∧
    canon .repaired exTenth = "1000".toList ∧ (decimalOf (canon .pinned exTenth)).eqv exTenth.value ∧
    (decimalOf (canon .repaired exTenth)).eqv exTenth.value ∧ exTenth.value.eqv ⟨1000, 0⟩ := by
  refine ⟨by decide, by decide, by decide, ?_, ?_, ?_⟩ <;> (unfold Dec.eqv; decide)

/-- a numeral without units (`007.50`): hypothesis of `normal_form_shape` (1) -/
example : (⟨[], ⟨[], some ⟨⟨[⟨false, 0⟩, ⟨false, 0⟩, ⟨true, 7⟩], []⟩, [⟨false, 5⟩, ⟨false, 0⟩]⟩⟩⟩ : Numeral).hasUnit = false ∧
    canon .repaired ⟨[], ⟨[], some ⟨⟨[⟨false, 0⟩, ⟨false, 0⟩, ⟨true, 7⟩], []⟩, [⟨false, 5⟩, ⟨false, 0⟩]⟩⟩⟩ = "007.5".toList := by
  refine ⟨rfl, by decide⟩

/-- a `StringNumber` that holds a positional number: `1.5` with scale 3 (that is 1500) holds the
digits `15` with the last digit at position 2; the digit `2` at position 0 fits below it -/
example : SN.Rep { sig := "15".toList, scale := 3, point := some 1 } ⟨"15".toList, 2⟩ ∧
    SN.Rep { sig := "2".toList } ⟨"2".toList, 0⟩ ∧ (⟨"2".toList, 0⟩ : PN).hi ≤ (⟨"15".toList, 2⟩ : PN).ex ∧
    Digits ['1', '5'] := by
  refine ⟨⟨⟨by decide, ?_⟩, rfl, rfl, by decide⟩, ⟨⟨by decide, ?_⟩, rfl, rfl, by decide⟩, by decide, ?_⟩
  · intro p hp
    simp only [Option.some.injEq] at hp
    subst hp
    exact ⟨by decide, by decide⟩
  · intro p hp; cases hp
  · intro c hc
    simp only [List.mem_cons, List.not_mem_nil, or_false] at hc
    rcases hc with rfl | rfl
    · exact ⟨1, rfl⟩
    · exact ⟨5, rfl⟩

/-- a parser that has been used (`1万` with `done()`) is not the new parser, did not panic, and
`clear()` makes it the new parser -/
example : ((Parser.new.feed .repaired "1万".toList 0).2.2.done .repaired).2.anyBad = false ∧
    ((Parser.new.feed .repaired "1万".toList 0).2.2.done .repaired).2 ≠ Parser.new ∧
    ((Parser.new.feed .repaired "1万".toList 0).2.2.done .repaired).2.clear = Parser.new := by
  refine ⟨by decide, by decide, by decide⟩

/-- the C15b sentence at the parser: a unit numeral, `clear()`, a zero-led digit string -/
example : verifParseSeq .repaired ["三千".toList, "007".toList] =
    some [(2, 0, true, "3000".toList), (3, 0, true, "007".toList)] := by decide


/-- `12,345` -/
def ex12345 : IntPart := ⟨[⟨false, 1⟩, ⟨false, 2⟩], [[⟨false, 3⟩, ⟨true, 4⟩, ⟨false, 5⟩]]⟩

example : ex12345.WF ∧ renderInt ex12345 = "12,3四5".toList ∧ canonInt ex12345 = "12345".toList := by
  refine ⟨⟨by decide, fun _ => ⟨by decide, by decide⟩, by decide⟩, by decide, by decide⟩

example : ([⟨false, 0⟩, ⟨true, 7⟩] : List Dg) ≠ [] ∧
    renderDigits [⟨false, 0⟩, ⟨true, 7⟩] = "0七".toList ∧ canonDigits [⟨false, 0⟩, ⟨true, 7⟩] = "07".toList := by
  refine ⟨by decide, by decide, by decide⟩

/-- `12,345.60` ↦ `12345.6`, `12,345.00` ↦ `12345` -/
example : canonInt ex12345 ++ fracPart (trimZeros (canonDigits [⟨false, 6⟩, ⟨false, 0⟩])) = "12345.6".toList ∧
    canonInt ex12345 ++ fracPart (trimZeros (canonDigits [⟨false, 0⟩, ⟨false, 0⟩])) = "12345".toList := by
  refine ⟨by decide, by decide⟩

/-- a group length that is not three exists (the hypothesis of `reject_bad_last_group`) -/
example : ([⟨false, 0⟩, ⟨false, 0⟩] : List Dg).length ≠ 3 := by decide


/-! # The joined TOKEN (`Model/RewriteNumeric.lean`, op `pipe`)

The property speaks about the token, not about the parser.  `RewriteNumeric.joinNumeral v nv cfg cat path`
is `Rewrite.joinNumeric` (the transcription of `rewrite_gen` / `concat` / `concat_nodes` of property
C14) run with the parser model of this property as its parser.  Paths are taken AS GIVEN: "not
shadowed by a longer dictionary word" is a statement about the lattice / Viterbi (C02) and is outside;
so is "the dictionary tags digits and units as numerals" — here: the first node of the run has the
numeral part of speech (the plugin's own gate, `C14.numeral_gate`), the nodes are numeral candidates
by CHARACTER CLASS (NUMERIC / KANJINUMERIC) or separators by normalised form, which is what the code
tests.  The characters the plugin feeds are the NORMALISED forms of the nodes (`１` is fed as `1`), so
"the surface is the rendering of the AST" is stated on the concatenated normalised forms (`accOf`).
The theorems about well-formed runs are for the repaired loop (`NVariant.fix`, landed `8ae89d4`; the
locality theorem `Rewrite.joinNumeric_split` they use needs termination) and for EVERY parser
variant; `malformed_run_never_gets_a_value` needs the parser repairs F1–F4 (it uses the simulation
behind `reject_malformed`) and F6 (the back-off). -/

open RewriteNumeric
open Rewrite (NCfg NVariant Resets accOf mergedNode normForm catSurface joinNumeric_split
  joinNumeric_reset_last E_COMMA E_POINT)

/-- **clause 1 on the token, run between two non-numeral nodes**: `A ++ [x]` is what precedes, `x` and
`y` are nodes that are no numeral candidates under any flags (`Resets`: no numeric class, not `,`/`.`),
`f :: R` is a run that writes the well-formed numeral `a` (`NumeralRun`), `B` is what follows `y`.
Then the run becomes exactly ONE token `numeralTok` (range = union of the run, numeral part of speech,
normalised form `canon v a` = the decimal value by `normal_form_value`; a single node whose form
already is `canon` is kept as it is), and everything outside is what the joiner makes of `A ++ [x]`
and of `B` on their own — in particular `x` and `y` stay. -/
theorem numeral_run_joined (v : Variant) (cfg : NCfg) (cat : List Nat) (A B : List Rewrite.Node) (x y f : Rewrite.Node)
    (R : List Rewrite.Node) (a : Numeral) (hrun : NumeralRun cfg cat f R a) (hx : Resets cat x) (hy : Resets cat y)
    (l r : List Rewrite.Node) (hl : joinNumeral v .fix cfg cat (A ++ [x]) = .ok l)
    (hr : joinNumeral v .fix cfg cat B = .ok r) :
    joinNumeral v .fix cfg cat (A ++ x :: (f :: R ++ y :: B)) = .ok (l ++ numeralTok cfg v f R a :: y :: r) ∧
      ∃ l0, l = l0 ++ [x] := by
  obtain ⟨hok, htok⟩ := runOK_of_numeralRun v cfg cat f R a hrun
  have hP := numericP_sepNotFirst v
  have h1 := joinNumeric_run_reset cfg cat (numericP v) f R y hok hy
  have h2 := joinNumeric_split cfg cat (numericP v) hP (f :: R) B y hy _ r h1 hr
  have h3 := joinNumeric_split cfg cat (numericP v) hP A (f :: R ++ y :: B) x hx l _ hl h2
  obtain ⟨l0, hl0, _⟩ := joinNumeric_reset_last cfg cat (numericP v) hP A x hx l hl
  refine ⟨?_, l0, hl0⟩
  unfold joinNumeral
  rw [h3, htok]
  simp

/-- the same with the run at the START of the text -/
theorem numeral_run_joined_at_text_start (v : Variant) (cfg : NCfg) (cat : List Nat) (B : List Rewrite.Node) (y f : Rewrite.Node)
    (R : List Rewrite.Node) (a : Numeral) (hrun : NumeralRun cfg cat f R a) (hy : Resets cat y)
    (r : List Rewrite.Node) (hr : joinNumeral v .fix cfg cat B = .ok r) :
    joinNumeral v .fix cfg cat (f :: R ++ y :: B) = .ok (numeralTok cfg v f R a :: y :: r) := by
  obtain ⟨hok, htok⟩ := runOK_of_numeralRun v cfg cat f R a hrun
  have h1 := joinNumeric_run_reset cfg cat (numericP v) f R y hok hy
  have h2 := joinNumeric_split cfg cat (numericP v) (numericP_sepNotFirst v) (f :: R) B y hy _ r h1 hr
  unfold joinNumeral
  rw [h2, htok]
  simp

/-- the same with the run at the END of the text -/
theorem numeral_run_joined_at_text_end (v : Variant) (cfg : NCfg) (cat : List Nat) (A : List Rewrite.Node) (x f : Rewrite.Node)
    (R : List Rewrite.Node) (a : Numeral) (hrun : NumeralRun cfg cat f R a) (hx : Resets cat x)
    (l : List Rewrite.Node) (hl : joinNumeral v .fix cfg cat (A ++ [x]) = .ok l) :
    joinNumeral v .fix cfg cat (A ++ x :: (f :: R)) = .ok (l ++ [numeralTok cfg v f R a]) := by
  obtain ⟨hok, htok⟩ := runOK_of_numeralRun v cfg cat f R a hrun
  have h1 := joinNumeric_run_end cfg cat (numericP v) f R hok
  have h3 := joinNumeric_split cfg cat (numericP v) (numericP_sepNotFirst v) A (f :: R) x hx l _ hl h1
  unfold joinNumeral
  rw [h3, htok]

/-- the same when the run is the whole text -/
theorem numeral_run_joined_whole_text (v : Variant) (cfg : NCfg) (cat : List Nat) (f : Rewrite.Node)
    (R : List Rewrite.Node) (a : Numeral) (hrun : NumeralRun cfg cat f R a) :
    joinNumeral v .fix cfg cat (f :: R) = .ok [numeralTok cfg v f R a] := by
  obtain ⟨hok, htok⟩ := runOK_of_numeralRun v cfg cat f R a hrun
  unfold joinNumeral
  rw [joinNumeric_run_end cfg cat (numericP v) f R hok, htok]

/-- the fields of the joined token: range = union of the run, part of speech of the first node; with
`enableNormalize` the stored normalised form is `canon v a` (or the single node already has it) -/
theorem numeral_token_fields (cfg : NCfg) (v : Variant) (f : Rewrite.Node) (R : List Rewrite.Node) (a : Numeral) :
    (numeralTok cfg v f R a).b = f.b ∧ (numeralTok cfg v f R a).e = (lastOf f R).e ∧
    (numeralTok cfg v f R a).pos = f.pos ∧
    (cfg.enableNormalize = true →
      ((R ≠ [] ∨ canon v a ≠ normForm f) → (numeralTok cfg v f R a).norm = canon v a ∧
        (numeralTok cfg v f R a).surface = catSurface (f :: R)) ∧
      (¬ (R ≠ [] ∨ canon v a ≠ normForm f) → numeralTok cfg v f R a = f ∧ normForm f = canon v a)) := by
  have hl : R = [] → lastOf f R = f := by intro h; subst h; rfl
  unfold numeralTok
  refine ⟨?_, ?_, ?_, ?_⟩
  · repeat' split
    all_goals rfl
  · repeat' split
    all_goals first | rfl | (simp_all)
  · repeat' split
    all_goals rfl
  · intro hen
    rw [if_pos hen]
    constructor
    · intro h
      rw [if_pos h]
      exact ⟨rfl, rfl⟩
    · intro h
      rw [if_neg h]
      refine ⟨rfl, ?_⟩
      have : ¬ canon v a ≠ normForm f := fun hh => h (.inr hh)
      exact (Classical.not_not.mp this).symm

/-- one join that carries a VALUE: the block `blk` of the path writes a well-formed numeral `a` whose
terms fit, and is replaced by ONE token whose stored normalised form is `canon v a` — the value of
exactly the joined span -/
def ValueJoin (v : Variant) (p p' : List Rewrite.Node) : Prop :=
  ∃ pre blk post f l a, p = pre ++ blk ++ post ∧ blk ≠ [] ∧ Numeral.WF a ∧ Numeral.Fits a ∧
    render a = accOf blk ∧ p' = pre ++ mergedNode f l blk (some (canon v a)) :: post

/-- **clause 2 on the token, FULL** (parser repairs F1–F4 and F6; every loop variant, EVERY path, every
class table, `enableNormalize`): whatever the joiner joins, it joins by `ValueJoin` steps — every token
it makes covers exactly the rendering of a well-formed numeral and carries ITS `canon` (never the
value of a different numeral, never a malformed grouping: by `accepted_iff_wellformed` a span with a
bad separator group, a dangling point or units out of order has no such AST).  This includes the
trailing-separator back-off (`done()` failed with the error of the LAST node of the run, which is
split off): the joined prefix is a well-formed numeral of its own and the rendering the parser holds
after the separator is the `canon` of that prefix (`Numeric.done_without_sep`, needs F6 — for the
pinned code it is false: `reject_malformed_counterexample_trailing_separator`).  Runs that are not
well-formed are therefore left as they are or joined over well-formed sub-spans only; which
sub-spans is decided by the loop and shown on the witnesses below. -/
theorem malformed_run_never_gets_a_value (v : Variant) (h1 : v.f1 = true) (h2 : v.f2 = true)
    (h3 : v.f3 = true) (h4 : v.f4 = true) (h6 : v.f6 = true) (nv : NVariant) (cfg : NCfg)
    (hen : cfg.enableNormalize = true) (cat : List Nat) (path q : List Rewrite.Node)
    (h : joinNumeral v nv cfg cat path = .ok q) :
    Steps (ValueJoin v) path q := by
  refine (joinNumeric_trace nv cfg cat (numericP v) path q h).mono ?_
  rintro p p' ⟨pre, blk, post, f, l, tail, hp, hne, hp', _, hacc, ht⟩
  rw [if_pos hen] at hp'
  have key : ∀ n q', Parser.new.feed v (accOf blk) 0 = (n, true, q') → (q'.done v).1 = true →
      ∃ a : Numeral, a.WF ∧ a.Fits ∧ render a = accOf blk ∧ (numericP v (accOf blk)).norm = canon v a := by
    intro n q' hf hdq
    obtain ⟨a, hw, hfit, hr⟩ := wellformed_of_feed_done v h1 h2 h3 h4 _ n q' hf hdq
    refine ⟨a, hw, hfit, hr, ?_⟩
    have hpc := parse_render_canon v a hw hfit
    rw [hr] at hpc
    exact (numericP_of_parse v _ _ hpc).2.2.2
  rcases ht with ⟨rfl, hd⟩ | ⟨rfl, _, _, he⟩ | ⟨rfl, _, _, he⟩
  · obtain ⟨n, q', hf, hdq⟩ := numericP_done_inv v _ hd
    obtain ⟨a, hw, hfit, hr, hn⟩ := key n q' hf hdq
    rw [List.append_nil, hn] at hp'
    exact ⟨pre, blk, post, f, l, a, hp, hne, hw, hfit, hr, hp'⟩
  · obtain ⟨n, q', hf, hdq, hnorm⟩ := numericP_backoff v h6 (accOf blk) ',' E_COMMA (.inl ⟨rfl, rfl⟩) hacc he
    obtain ⟨a, hw, hfit, hr, hn⟩ := key n q' hf hdq
    rw [← hnorm, hn] at hp'
    exact ⟨pre, blk, post, f, l, a, hp, hne, hw, hfit, hr, hp'⟩
  · obtain ⟨n, q', hf, hdq, hnorm⟩ := numericP_backoff v h6 (accOf blk) '.' E_POINT (.inr ⟨rfl, rfl⟩) hacc he
    obtain ⟨a, hw, hfit, hr, hn⟩ := key n q' hf hdq
    rw [← hnorm, hn] at hp'
    exact ⟨pre, blk, post, f, l, a, hp, hne, hw, hfit, hr, hp'⟩

/-- one join without `enableNormalize`: at least two nodes, the stored forms are concatenated
(`mergedNode … none`: `norm := blk.flatMap (·.norm)`), no rendering of the parser is written -/
def PlainJoin (p p' : List Rewrite.Node) : Prop :=
  ∃ pre blk post f l, p = pre ++ blk ++ post ∧ 2 ≤ blk.length ∧ p' = pre ++ mergedNode f l blk none :: post ∧
    (mergedNode f l blk none).norm = blk.flatMap (·.norm)

/-- **`enableNormalize = false`** (every parser variant, loop variant, path): the joiner only ever
replaces a block of AT LEAST TWO nodes by a token whose stored normalised form is the concatenation
of the stored forms of the block; a single node is never touched and no value is ever written.
(The stored form of a dictionary word is EMPTY when it equals the headword, so the joined token of
`３万９` reads `39`: report, disagreement 1 — outside the property, which speaks about normalisation
enabled.) -/
theorem normalize_disabled_keeps_forms (v : Variant) (nv : NVariant) (cfg : NCfg)
    (hen : cfg.enableNormalize = false) (cat : List Nat) (path q : List Rewrite.Node)
    (h : joinNumeral v nv cfg cat path = .ok q) : Steps PlainJoin path q := by
  refine (joinNumeric_trace nv cfg cat (numericP v) path q h).mono ?_
  rintro p p' ⟨pre, blk, post, f, l, tail, hp, _, hp', h2, _, _⟩
  rw [hen] at hp'
  exact ⟨pre, blk, post, f, l, hp, h2 hen, hp', rfl⟩

/-- a one-character node at character `b` (bytes = characters here), part of speech `pos` -/
def tk (b : Nat) (s : String) (pos : Nat) : Rewrite.Node :=
  { b := b, e := b + 1, bb := b, eb := b + 1, wid := b, tc := 0, left := 0, right := 0, cost := 0, pos := pos,
    hwl := 1, dfw := -1, aSplit := [], bSplit := [], wStruct := [], syn := [], surface := s.toList, norm := [],
    reading := [], dform := [] }

/-- numeral part of speech 1, `enableNormalize` -/
def wcfg : NCfg := { numPos := 1, enableNormalize := true }
/-- one node per string; `円` is a noun (0), everything else is tagged as a numeral (1) -/
def wpath (ss : List String) : List Rewrite.Node := (ss.zipIdx).map fun (s, i) => tk i s (if s = "円" then 0 else 1)

/-- **what the code does with the malformed groupings of the property text** (and contrasts), decided on
the model; class masks: 16 NUMERIC, 256 KANJINUMERIC, 0 for separators and `円` -/
theorem malformed_run_witnesses :
    -- `12,34円`: bad last group, detected by `done()` (COMMA), the node before `円` is no separator: untouched
    joinNumeral .repaired .fix wcfg [16, 16, 0, 16, 16, 0] (wpath ["1", "2", ",", "3", "4", "円"]) =
      .ok (wpath ["1", "2", ",", "3", "4", "円"]) ∧
    -- `12,345円` (contrast): one token 12345
    joinNumeral .repaired .fix wcfg [16, 16, 0, 16, 16, 16, 0] (wpath ["1", "2", ",", "3", "4", "5", "円"]) =
      .ok [mergedNode (tk 0 "1" 1) (tk 5 "5" 1) (wpath ["1", "2", ",", "3", "4", "5"]) (some "12345".toList), tk 6 "円" 0] ∧
    -- `1.` at the end of the text: dangling point (POINT), back-off to `1`, whose form already is `1`: untouched
    joinNumeral .repaired .fix wcfg [16, 0] (wpath ["1", "."]) = .ok (wpath ["1", "."]) ∧
    -- `12.円`: back-off joins the well-formed prefix `12` (form 12), the point stays a token
    joinNumeral .repaired .fix wcfg [16, 16, 0, 0] (wpath ["1", "2", ".", "円"]) =
      .ok [mergedNode (tk 0 "1" 1) (tk 1 "2" 1) (wpath ["1", "2"]) (some "12".toList), tk 2 "." 1, tk 3 "円" 0] ∧
    -- `1.2.3`: the second point is rejected by `append` (POINT): the run is restarted with the point no longer a
    -- digit; `1`, `2`, `3` are runs of their own: all five tokens stay
    joinNumeral .repaired .fix wcfg [16, 0, 16, 0, 16] (wpath ["1", ".", "2", ".", "3"]) =
      .ok (wpath ["1", ".", "2", ".", "3"]) ∧
    -- `百万十億`: `億` after `万` is rejected by `append` without an error state (repair F4): the run is dropped,
    -- nothing is joined — not even the well-formed prefix `百万十`
    joinNumeral .repaired .fix wcfg [256, 256, 256, 256] (wpath ["百", "万", "十", "億"]) =
      .ok (wpath ["百", "万", "十", "億"]) ∧
    -- (the pinned parser rejects `億` here as well: the terms overlap)
    joinNumeral .pinned .fix wcfg [256, 256, 256, 256] (wpath ["百", "万", "十", "億"]) =
      .ok (wpath ["百", "万", "十", "億"]) ∧
    -- `十万一万` (units out of order, no overlap): untouched with repair F4; the pinned parser (finding F4) makes ONE
    -- token with the value 110000
    joinNumeral .repaired .fix wcfg [256, 256, 256, 256] (wpath ["十", "万", "一", "万"]) =
      .ok (wpath ["十", "万", "一", "万"]) ∧
    joinNumeral .pinned .fix wcfg [256, 256, 256, 256] (wpath ["十", "万", "一", "万"]) =
      .ok [mergedNode (tk 0 "十" 1) (tk 3 "万" 1) (wpath ["十", "万", "一", "万"]) (some "110000".toList)] ∧
    -- `百万` alone: one token 1000000
    joinNumeral .repaired .fix wcfg [256, 256] (wpath ["百", "万"]) =
      .ok [mergedNode (tk 0 "百" 1) (tk 1 "万" 1) (wpath ["百", "万"]) (some "1000000".toList)] := by
  refine ⟨by decide, by decide, by decide, by decide, by decide, by decide, by decide, by decide, by decide, by decide⟩

/-! non-vacuity of the hypotheses of the token theorems -/

/-- a `NumeralRun`: the nodes `1` `2` (class NUMERIC, numeral part of speech) write the numeral `12` -/
example : ∃ a, NumeralRun wcfg [16, 16, 0] (tk 0 "1" 1) [tk 1 "2" 1] a := by
  obtain ⟨a, hw, hf, hr⟩ := accepted_wellformed .repaired rfl rfl rfl rfl "12".toList "12".toList (by decide)
  refine ⟨a, ⟨?_, by rw [hr]; decide, hw, hf, rfl, by decide, by decide⟩⟩
  intro n hn
  simp only [List.mem_cons, List.mem_nil_iff, or_false] at hn
  rcases hn with rfl | rfl <;> exact ⟨16, by decide, .inl (by decide)⟩

/-- a node that resets the loop (`円`: no numeric class, not a separator), a context the joiner leaves
alone, and the theorem applied: `12円` becomes `12` `円` -/
example : Resets [16, 16, 0] (tk 2 "円" 0) ∧
    joinNumeral .repaired .fix wcfg [16, 16, 0] [] = .ok [] ∧
    joinNumeral .repaired .fix wcfg [16, 16, 0] (wpath ["1", "2", "円"]) =
      .ok [mergedNode (tk 0 "1" 1) (tk 1 "2" 1) (wpath ["1", "2"]) (some "12".toList), tk 2 "円" 0] := by
  refine ⟨⟨0, by decide, by decide, by decide, by decide⟩, by decide, by decide⟩

/-- `enableNormalize` on and off: off, `12円` is joined with the concatenated stored forms (empty here:
the stored form of a word that equals its headword is empty, so the token reads its surface `12`),
and the single node `十` is not re-normalised to `10` as it is with the setting on -/
example : wcfg.enableNormalize = true ∧ ({ wcfg with enableNormalize := false } : NCfg).enableNormalize = false ∧
    joinNumeral .repaired .fix { wcfg with enableNormalize := false } [16, 16, 0] (wpath ["1", "2", "円"]) =
      .ok [mergedNode (tk 0 "1" 1) (tk 1 "2" 1) (wpath ["1", "2"]) none, tk 2 "円" 0] ∧
    joinNumeral .repaired .fix { wcfg with enableNormalize := false } [256] (wpath ["十"]) = .ok (wpath ["十"]) ∧
    joinNumeral .repaired .fix wcfg [256] (wpath ["十"]) =
      .ok [mergedNode (tk 0 "十" 1) (tk 0 "十" 1) (wpath ["十"]) (some "10".toList)] := by
  refine ⟨rfl, rfl, by decide, by decide, by decide⟩

/-! ## the joined numeral and the split stage (modes A and B, `split_into`)

`split_path` runs AFTER the path-rewrite plugins and `Morpheme::split_into` splits a morpheme of the
mode-C result on demand; both read the split lists the node carries (`Model/RewriteNumericSplit.lean`:
`toSplit`, then C09's `Split.splitPath` / `Split.splitInto`).  The node `concat_nodes` builds has none. -/

open RewriteNumericSplit in
/-- **C15 and the split modes.**  The token the joiner makes of a numeral run when it REBUILDS it
(`enableNormalize` and: more than one node, or a single node whose form is not yet `canon v a` — a
numeral that is ONE dictionary word such as `百万` included) carries no split units, for EVERY
dictionary (`cx.lex` arbitrary: numeral words may declare any units), every offset table, every mode:

* its stored normalised form is `canon v a`;
* `split_path` returns it unchanged inside any path (the sides are split on their own) — on C09's nodes
  and on the tokens C15 observes;
* `split_into` reports that nothing was split, the harness reads the token itself. -/
theorem joined_numeral_survives_split_modes (cfg : NCfg) (v : Variant) (f : Rewrite.Node) (R : List Rewrite.Node)
    (a : Numeral) (hen : cfg.enableNormalize = true) (hre : R ≠ [] ∨ canon v a ≠ normForm f)
    (cx : Split.Ctx) (norms : List (List Char)) (m : Split.Mode) :
    let t := numeralTok cfg v f R a
    t.aSplit = [] ∧ t.bSplit = [] ∧ t.norm = canon v a ∧
    Split.splitPath cx m [toSplit t] = .ok [toSplit t] ∧
    (∀ A A' B B', Split.splitPathGo cx m A = .ok A' → Split.splitPathGo cx m B = .ok B' →
      Split.splitPathGo cx m (A ++ toSplit t :: B) = .ok (A' ++ toSplit t :: B')) ∧
    (∀ P tp Q tq, splitToks cx norms m P = .ok tp → splitToks cx norms m Q = .ok tq →
      splitToks cx norms m (P ++ t :: Q) = .ok (tp ++ keepTok t :: tq)) ∧
    Split.splitInto cx m (toSplit t) = .ok (false, []) ∧
    splitIntoTok cx norms m t = .ok [keepTok t] := by
  intro t
  have ht : t = mergedNode f (lastOf f R) (f :: R) (some (canon v a)) := by
    show numeralTok cfg v f R a = _
    unfold numeralTok
    rw [if_pos hen, if_pos hre]
  have hA : t.aSplit = [] := by rw [ht]; rfl
  have hB : t.bSplit = [] := by rw [ht]; rfl
  have hns : Split.numSplits (toSplit t) m = 0 := by
    cases m <;> simp [Split.numSplits, Split.splitsOf, toSplit, hA, hB]
  have hle : Split.numSplits (toSplit t) m ≤ 1 := by rw [hns]; exact Nat.zero_le 1
  have hsi : Split.splitInto cx m (toSplit t) = .ok (false, []) := by simp [Split.splitInto, hns]
  refine ⟨hA, hB, by rw [ht]; rfl, ?_, ?_, ?_, hsi, ?_⟩
  · unfold Split.splitPath
    split
    · rfl
    · exact RewriteNumericSplit.splitPathGo_keeps cx m (toSplit t) hle [] [] rfl [] [] rfl
  · intro A A' B B' h1 h2
    exact RewriteNumericSplit.splitPathGo_keeps cx m (toSplit t) hle B B' h2 A A' h1
  · intro P tp Q tq h1 h2
    exact RewriteNumericSplit.splitToks_keeps cx norms m t (.inr hle) Q tq h2 P tp h1
  · simp [splitIntoTok, hsi]

/-- the numeral word `百万` as ONE dictionary word (word 2, units 百 = word 0 and 万 = word 1 in modes A and B) -/
def wHyakuman : Rewrite.Node :=
  { b := 0, e := 2, bb := 0, eb := 6, wid := 2, tc := 0, left := 0, right := 0, cost := 0, pos := 1, hwl := 6, dfw := -1,
    aSplit := [0, 1], bSplit := [0, 1], wStruct := [0, 1], syn := [], surface := "百万".toList, norm := [],
    reading := [], dform := [] }
/-- the numeral word `10` as ONE dictionary word (word 2, units `1` = word 0 and `0` = word 1) -/
def wTen : Rewrite.Node :=
  { wHyakuman with eb := 2, hwl := 2, surface := "10".toList }
/-- the lexicons of the two witnesses and the offset tables of the two texts -/
def cxHyakuman : Split.Ctx := ⟨.cur, [[⟨3, [], []⟩, ⟨3, [], []⟩, ⟨6, [0, 1], [0, 1]⟩]], Split.Subset.all, [0, 0, 0, 1, 1, 1, 2], [0, 3, 6]⟩
def cxTen : Split.Ctx := ⟨.cur, [[⟨1, [], []⟩, ⟨1, [], []⟩, ⟨2, [0, 1], [0, 1]⟩]], Split.Subset.all, [0, 1, 2], [0, 1, 2]⟩

open RewriteNumericSplit in
/-- non-vacuity of `joined_numeral_survives_split_modes` on the code path the seeded change edits: the
single node `百万` (stored form `百万` ≠ `1000000`) is rebuilt, and the rebuilt token is one token with the
form `1000000` in modes C, A, B and under `split_into` — although the dictionary word declares 百/万 -/
example :
    joinNumeral .repaired .fix wcfg [256, 256] [wHyakuman] =
      .ok [mergedNode wHyakuman wHyakuman [wHyakuman] (some "1000000".toList)] ∧
    (∀ m, splitToks cxHyakuman ["百".toList, "万".toList, "百万".toList] m
        [mergedNode wHyakuman wHyakuman [wHyakuman] (some "1000000".toList)] = .ok [⟨0, 2, "1000000".toList⟩]) ∧
    (∀ m, splitIntoToks cxHyakuman ["百".toList, "万".toList, "百万".toList] m
        [mergedNode wHyakuman wHyakuman [wHyakuman] (some "1000000".toList)] = .ok [⟨0, 2, "1000000".toList⟩]) ∧
    -- what the split stage would do with the dictionary node itself (kept by the seeded fast path)
    splitToks cxHyakuman ["百".toList, "万".toList, "百万".toList] .A [wHyakuman] =
      .ok [⟨0, 1, "百".toList⟩, ⟨1, 2, "万".toList⟩] := by
  refine ⟨by decide, ?_, ?_, by decide⟩
  · intro m; cases m <;> decide
  · intro m; cases m <;> decide

open RewriteNumericSplit in
/-- **the hypothesis `R ≠ [] ∨ canon v a ≠ normForm f` cannot be dropped — the unchanged code violates the
property there.**  A numeral that is ONE dictionary word with split units whose stored form ALREADY is the
decimal rendering (`10`, units `1`/`0`): `concat` skips the rebuild (`end - begin > 1 || normalized_form !=
word_info.normalized_form()`), the dictionary node keeps its split lists, and modes A and B and
`split_into` take the numeral apart: two tokens `1`, `0` instead of one token `10` (mode C: one token). -/
theorem kept_numeral_word_is_split_counterexample :
    joinNumeral .repaired .fix wcfg [16, 16] [wTen] = .ok [wTen] ∧
    splitToks cxTen ["1".toList, "0".toList, "10".toList] .C [wTen] = .ok [⟨0, 2, "10".toList⟩] ∧
    splitToks cxTen ["1".toList, "0".toList, "10".toList] .A [wTen] = .ok [⟨0, 1, "1".toList⟩, ⟨1, 2, "0".toList⟩] ∧
    splitToks cxTen ["1".toList, "0".toList, "10".toList] .B [wTen] = .ok [⟨0, 1, "1".toList⟩, ⟨1, 2, "0".toList⟩] ∧
    splitIntoToks cxTen ["1".toList, "0".toList, "10".toList] .A [wTen] = .ok [⟨0, 1, "1".toList⟩, ⟨1, 2, "0".toList⟩] := by
  refine ⟨by decide, by decide, by decide, by decide, by decide⟩

end C15
