import Sudachi.Proofs.Numeric
/-!
# C15 — joined numerals are normalised to their decimal value

Model: `Numeric.SN` (`StringNumber`), `Numeric.Parser` (`NumericParser`), `Numeric.rewrite`
(`JoinNumericPlugin::rewrite_gen`), tied to the Rust code on every run by the correspondence check
(every string over the 28-symbol numeral alphabet up to length 4, value-driven numerals, the plugin
on real dictionaries).  `Numeric.parse text = some s` means: every character is accepted, `done()`
returns true and the normalised form is `s`.

Reference notation (`Proofs/Numeric.lean`): a written digit `Dg` (ASCII or kanji glyph), an integer
part `IntPart` (plain digits, or a first group and three-digit groups separated by `,`), optional
fraction.  `canonDigits`/`canonInt` are the decimal renderings (separators removed, ASCII digits,
leading zeros of plain digit strings kept), `trimZeros` drops trailing fractional zeros and
`fracPart` drops the point when nothing is left.

Full statement of the property's first clause (`parse_render`): for every numeral AST `a` built from
digits, separators, a fraction and the units 十百千万億兆, `parse (render a) = some (canon a)`.
It is proved below for all ASTs WITHOUT units (`parse_render_digits`, `parse_render_grouped`,
`parse_render_decimal`); for unit notation only instances are proved (`parse_render_units_partial`)
and the clause is FALSE for coefficients below one (`parse_render_counterexample_leading_zero`).

Full statement of the second clause (`reject_malformed`): if `parse text = some s` then `text` is
`render a` for some AST `a` (so a malformed grouping is never joined into a value).  This is FALSE
for the code as it is (five counterexample theorems); the near-miss families that ARE rejected for
every instance are `reject_dangling_point`, `reject_bad_last_group`, `reject_leading_separator`
(`reject_malformed_partial` family).
-/
namespace C15
open Numeric

/-- Clause 1, plain digit strings (ASCII, kanji or mixed digits, any length, leading zeros kept):
the normalised form is the ASCII digit string. -/
theorem parse_render_digits (ds : List Dg) (hne : ds ≠ []) :
    parse (renderDigits ds) = some (canonDigits ds) :=
  parse_digits ds hne

/-- Clause 1, integers with thousands separators: a first group of 1–3 digits that is not all zeros
and any number of three-digit groups; the separators are removed.  (`gs = []` is the plain case.) -/
theorem parse_render_grouped (i : IntPart) (hwf : i.WF) : parse (renderInt i) = some (canonInt i) :=
  parse_int i hwf

/-- Clause 1, decimals: integer part as above, a point and at least one fraction digit; trailing
fractional zeros are dropped, and the point too when the fraction is all zeros. -/
theorem parse_render_decimal (i : IntPart) (hwf : i.WF) (fs : List Dg) (hfs : fs ≠ []) :
    parse (renderInt i ++ '.' :: renderDigits fs) =
      some (canonInt i ++ fracPart (trimZeros (canonDigits fs))) :=
  Numeric.parse_decimal i hwf fs hfs

/-- Clause 1, unit notation — PARTIAL: only these instances (the unit-test numerals and one numeral
per combination rule: small units, large units, coefficient with fraction, zeros between units, a
25-digit value) are proved; the general theorem over all unit ASTs is not.  The remaining
combinations are covered by the exhaustive correspondence (all strings up to length 4/5) and the
value-driven oracle. -/
theorem parse_render_units_partial :
    parse "千三百二十七".toList = some "1327".toList ∧
    parse "千十七".toList = some "1017".toList ∧
    parse "三兆2千億千三百二十七万一四.〇五".toList = some "3200013270014.05".toList ∧
    parse "1.5百万1.5千20".toList = some "1501520".toList ∧
    parse "259万2,300".toList = some "2592300".toList ∧
    parse "200000000000000000000万".toList = some "2000000000000000000000000".toList ∧
    parse "一億〇五".toList = some "100000005".toList ∧
    parse "1.23456万".toList = some "12345.6".toList := by
  refine ⟨by decide, by decide, by decide, by decide, by decide, by decide, by decide, by decide⟩

/-- Clause 1 fails for a coefficient below one in front of a unit: the value is right but the
rendering keeps the integer zero (finding F5). -/
theorem parse_render_counterexample_leading_zero :
    parse "0.1万".toList = some "01000".toList ∧ parse "0.5百".toList = some "050".toList := by
  refine ⟨by decide, by decide⟩

/-- Clause 2, dangling point: an integer part followed by a point and nothing else is never
accepted. -/
theorem reject_dangling_point (i : IntPart) (hwf : i.WF) : parse (renderInt i ++ ['.']) = none := by
  obtain ⟨_, _, _, p4, p5, _, p7, _, p9, _⟩ := intState_props i hwf
  have hf := feed_int i hwf ['.']
  have hpt : (intState i).append '.' = (true, (intState i).pushPoint) := by
    apply append_point _ p7 _ p4 p5
    rcases p9 with h | h
    · exact Or.inl h
    · right
      simp [Parser.checkComma, p7, h.1, h.2]
  simp only [Parser.feed, hpt] at hf
  exact parse_none_of_done_false _ _ _ hf (done_hanging _ (by simp [Parser.pushPoint]))

/-- Clause 2, bad last group: a well-formed integer part followed by a separator and a group that
does not have exactly three digits (including the empty group, i.e. a trailing separator) is never
accepted. -/
theorem reject_bad_last_group (i : IntPart) (hwf : i.WF) (g : List Dg) (hg : g.length ≠ 3) :
    parse (renderInt i ++ ',' :: renderDigits g) = none := by
  obtain ⟨_, _, _, _, _, _, _, p8, _, _⟩ := intState_props i hwf
  have hf := feed_int i hwf (',' :: renderDigits g)
  cases hc : (intState i).checkComma with
  | false =>
    simp only [Parser.feed, append_comma_reject _ hc] at hf
    exact parse_none_of_reject _ _ _ hf
  | true =>
    simp only [Parser.feed, append_comma _ hc] at hf
    rw [feed_digits] at hf
    obtain ⟨_, _, _, _, _, s6, _, s8⟩ := pushDigits_tmp_scale g (intState i).pushComma
    apply parse_none_of_done_false _ _ _ hf
    apply done_bad_group
    · cases g with
      | nil => simpa [Parser.pushDigits, Parser.pushComma] using p8
      | cons a b => exact (pushDigits_flags (a :: b) (by simp) _).2
    · rw [s6]; rfl
    · rw [s8]; simpa [Parser.pushComma] using hg

/-- Clause 2, a numeral never starts with a separator. -/
theorem reject_leading_separator (rest : List Char) :
    parse ('.' :: rest) = none ∧ parse (',' :: rest) = none := by
  constructor
  · apply parse_none_of_reject _ 0 { Parser.new with hasHangingPoint := true, err := .point }
    simp [Parser.feed, Parser.append, Parser.new]
  · apply parse_none_of_reject _ 0 { Parser.new with err := .comma }
    simp [Parser.feed, Parser.append, Parser.new, Parser.checkComma]

/-- Clause 2 is violated by the code as it is: separators inside the fraction are accepted
(finding F1). -/
theorem reject_malformed_counterexample_comma_in_fraction :
    parse "1.5,000".toList = some "1.5".toList ∧ parse "7.,227".toList = some "7.227".toList := by
  refine ⟨by decide, by decide⟩

/-- Clause 2 violated: a dangling point directly before a unit is accepted once a digit follows
(finding F2). -/
theorem reject_malformed_counterexample_point_before_unit :
    parse "1.千5".toList = some "1005".toList := by decide

/-- Clause 2 violated: a bad last separator group directly before a unit is accepted (finding F3). -/
theorem reject_malformed_counterexample_comma_before_unit :
    parse "1,千".toList = some "1000".toList ∧ parse "1,00万".toList = some "1000000".toList := by
  refine ⟨by decide, by decide⟩

/-- Clause 2 violated: large units out of order are accepted when the digits do not overlap
(finding F4). -/
theorem reject_malformed_counterexample_unit_order :
    parse "十万一万".toList = some "110000".toList ∧ parse "千万百万".toList = some "11000000".toList := by
  refine ⟨by decide, by decide⟩

/-- the un-joined path of the text `7十九三.`: five one-character nodes, all tagged as numerals -/
def f6Path : List Node :=
  [⟨0, 1, ['7'], [], true⟩, ⟨1, 2, ['十'], [], true⟩, ⟨2, 3, ['九'], [], true⟩, ⟨3, 4, ['三'], [], true⟩,
   ⟨4, 5, ['.'], [], true⟩]

/-- Clause 2 violated at the plugin: `7十九三` is malformed (the terms overlap) and `done()` fails,
but because a point follows, the error state is POINT and the plugin joins the four characters into
one token whose normalised form is "0" — a wrong value (finding F6). -/
theorem reject_malformed_counterexample_trailing_separator :
    (match rewrite true [1, 2, 2, 2, 0] f6Path with
      | .ok p => p.map (fun n => (n.b, n.e, n.norm))
      | _ => []) = [(0, 4, ['0']), (4, 5, ['.'])] := by decide

/-- the same malformed numeral without the trailing point is left alone -/
theorem trailing_separator_contrast :
    (match rewrite true [1, 2, 2, 2] (f6Path.take 4) with
      | .ok p => p.map (fun n => (n.b, n.e, n.norm))
      | _ => []) = [(0, 1, ['7']), (1, 2, ['十']), (2, 3, ['九']), (3, 4, ['三'])] := by decide

/-! non-vacuity of the hypotheses -/

/-- `12,345` -/
def ex12345 : IntPart := ⟨[⟨false, 1⟩, ⟨false, 2⟩], [[⟨false, 3⟩, ⟨true, 4⟩, ⟨false, 5⟩]]⟩

example : ex12345.WF ∧ renderInt ex12345 = "12,3四5".toList ∧ canonInt ex12345 = "12345".toList := by
  refine ⟨⟨by decide, fun _ => ⟨by decide, by decide⟩, by decide⟩, by decide, by decide⟩

example : ([⟨false, 0⟩, ⟨true, 7⟩] : List Dg) ≠ [] ∧
    renderDigits [⟨false, 0⟩, ⟨true, 7⟩] = "0七".toList ∧ canonDigits [⟨false, 0⟩, ⟨true, 7⟩] = "07".toList := by
  refine ⟨by decide, by decide, by decide⟩

/-- `12,345.60` ↦ `12345.6`, `12,345.00` ↦ `12345` -/
example : canonInt ex12345 ++ fracPart (trimZeros (canonDigits [⟨false, 6⟩, ⟨false, 0⟩])) = "12345.6".toList ∧
    canonInt ex12345 ++ fracPart (trimZeros (canonDigits [⟨false, 0⟩, ⟨false, 0⟩])) = "12345".toList := by
  refine ⟨by decide, by decide⟩

/-- a group length that is not three exists (the hypothesis of `reject_bad_last_group`) -/
example : ([⟨false, 0⟩, ⟨false, 0⟩] : List Dg).length ≠ 3 := by decide

end C15
