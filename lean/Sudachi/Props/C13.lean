import Sudachi.Proofs.Oov
/-!
# C13 — Unknown-word candidates follow the character-class definition

Model: `Sudachi/Model/Oov.lean` (+ the definition-file readers in `Model/OovIO.lean`).  Character
classes are the C17 model.  Quantifiers: every list of per-character class sets (`cats`), every
provider configuration, every offset / created mask.
-/
namespace C13
open Oov

/-! ## clause "the class run (the maximal stretch, determined left to right from the start of the text,
over which consecutive characters keep a class in common)" -/

/-- Full statement for the forward pass (the candidate repair, `variant=fwd`): for every text the
run table equals the declarative left-to-right runs. -/
theorem continuity_eq_spec (cats : List Nat) : fillCatContinuityForward cats = runsSpec cats :=
  forward_eq_spec cats

/-- `continuity_eq_spec` is **false for the code that exists** (D11).  Witness: `👍🏻漢` under the shipped
char.def — DEFAULT, ALL|NOOOVBOW, KANJI.  The backward pass narrows `ALL ∩ KANJI` first and then finds
nothing in common with DEFAULT: `[1,2,1]`, i.e. the emoji is cut from its modifier; the left-to-right
runs are `[2,1,1]`. -/
theorem continuity_eq_spec_counterexample :
    fillCatContinuityBackward [1, 2147483647, 4] = [1, 2, 1] ∧ runsSpec [1, 2147483647, 4] = [2, 1, 1] ∧
    ¬ (∀ cats, fillCatContinuityBackward cats = runsSpec cats) := by
  have hs : runsSpec [1, 2147483647, 4] = [2, 1, 1] := by
    simp [runsSpec, runLen, largestCommon, hasCommon, countdown]
  refine ⟨by decide, hs, fun h => ?_⟩
  have := h [1, 2147483647, 4]
  rw [hs] at this
  revert this; decide

/-- … while the same two characters alone form one run under the current code: what follows the
modifier decides whether the emoji keeps it. -/
theorem context_dependence_counterexample :
    fillCatContinuityBackward [1, 2147483647] = [2, 1] ∧
    (fillCatContinuityBackward ([1, 2147483647] ++ [4])).take 2 ≠ fillCatContinuityBackward [1, 2147483647] := by
  decide

/-- Clause "a base character is never separated from following combining marks or modifiers merely
because of what follows them" — full statement for the forward pass: whether a run ends after character
`i` (`[i] = 1`) is the same in a text `xs` and in `xs` followed by anything, for every `i` that is not the
last character of `xs` (appending text can only extend the last run).  False for the code that exists:
`context_dependence_counterexample`. -/
theorem no_split_by_context (xs ys : List Nat) (i : Nat) (hi : i + 1 < xs.length) :
    (fillCatContinuityForward xs)[i]? = some 1 ↔ (fillCatContinuityForward (xs ++ ys))[i]? = some 1 :=
  forward_boundary_stable xs ys i hi

/-- the word-start table of the code that exists deviates from the documented meaning of NOOOVBOW2
("this and next characters cannot be the beginning of an OOV word") after two consecutive NOOOVBOW2
characters: KATAKANA, ALL|NOOOVBOW2, KATAKANA|NOOOVBOW2, KANJI — the last character may start a word. -/
theorem word_start_after_consecutive_noovbow2_counterexample :
    bowTable [128, 3221225471, 2147483776, 4] = [true, false, false, true] ∧ 2147483776 &&& NOOOVBOW2 ≠ 0 := by
  decide

/-- the repaired word-start table (`InputBuffer::build` after the fix): the example above no longer
lets the last character start a word -/
theorem word_start_after_consecutive_noovbow2_fixed :
    bowTableFix [128, 3221225471, 2147483776, 4] = [true, false, false, false] := by
  decide

/-- **NOOOVBOW2 means "this and the next character cannot start a word"** — for the repaired code, for
every text: a NOOOVBOW2 character is never a word start, and neither is the character after it. -/
theorem noovbow2_bans_this_and_next (cats : List Nat) (i : Nat) (c : Nat)
    (hc : cats[i]? = some c) (h2 : c &&& NOOOVBOW2 ≠ 0) :
    (bowTableFix cats)[i]? = some false ∧ (i + 1 < cats.length → (bowTableFix cats)[i + 1]? = some false) := by
  -- generalise over the scanner state
  have key : ∀ (cats : List Nat) (nb : Bool) (prev : Nat) (i : Nat) (c : Nat), cats[i]? = some c → c &&& NOOOVBOW2 ≠ 0 →
      (bowGoV true cats nb prev)[i]? = some false ∧
      (i + 1 < cats.length → (bowGoV true cats nb prev)[i + 1]? = some false) := by
    intro cats
    induction cats with
    | nil => intro nb prev i c hc; simp at hc
    | cons x rest ih =>
      intro nb prev i c hc h2
      cases i with
      | zero =>
        have hx : x = c := by simpa using hc
        subst hx
        -- the character itself is banned; the state handed on has next_bow = false
        have hstate : ∀ (l : List Nat) (p : Nat), 0 < l.length → (bowGoV true l false p)[0]? = some false := by
          intro l p hl
          cases l with
          | nil => simp at hl
          | cons y ys => simp [bowGoV]
        cases nb with
        | false =>
          have hz : (x &&& NOOOVBOW2 == 0) = false := by simpa using h2
          simp only [bowGoV, Bool.not_false, if_true, hz]
          refine ⟨by simp, fun hlt => ?_⟩
          have : 0 < rest.length := by simpa using hlt
          simpa using hstate rest x this
        | true =>
          simp only [bowGoV, Bool.not_true, Bool.false_eq_true, if_false, h2, ne_eq, not_false_eq_true, if_true]
          refine ⟨by simp, fun hlt => ?_⟩
          have : 0 < rest.length := by simpa using hlt
          simpa using hstate rest x this
      | succ j =>
        have hc' : rest[j]? = some c := by simpa using hc
        -- whatever branch is taken for `x`, the tail is scanned by `bowGoV true rest _ x`
        have htail : ∃ nb', bowGoV true (x :: rest) nb prev = (bowGoV true (x :: rest) nb prev).head! :: bowGoV true rest nb' x := by
          simp only [bowGoV]
          split
          · exact ⟨_, rfl⟩
          · split
            · exact ⟨_, rfl⟩
            · split
              · exact ⟨_, rfl⟩
              · split <;> exact ⟨_, rfl⟩
        obtain ⟨nb', hnb⟩ := htail
        rw [hnb]
        have := ih nb' x j c hc' h2
        refine ⟨by simpa using this.1, fun hlt => ?_⟩
        have hlt' : j + 1 < rest.length := by simpa using hlt
        simpa using this.2 hlt'
  exact key cats true 0 i c hc h2

/-- What `runsSpec` denotes, part 1: the run that starts a text is at least one character, lies inside
the text, keeps a class in common (whenever the first character has a class at all — always the case for
a loaded table, C17), and is maximal: no longer prefix keeps a class in common. -/
theorem runLen_is_maximal_common_prefix (c : Nat) (rest : List Nat) (hc : c ≠ 0) :
    1 ≤ runLen (c :: rest) ∧ runLen (c :: rest) ≤ (c :: rest).length ∧
    hasCommon ((c :: rest).take (runLen (c :: rest))) = true ∧
    ∀ j, runLen (c :: rest) < j → j ≤ (c :: rest).length → hasCommon ((c :: rest).take j) = false := by
  refine ⟨largestCommon_pos _ _, ?_, ?_, ?_⟩
  · have := largestCommon_le (c :: rest) (c :: rest).length
    simp only [runLen, List.length_cons] at *; omega
  · apply largestCommon_common
    refine ⟨1, Nat.le_refl 1, by simp, ?_⟩
    simpa [hasCommon] using hc
  · intro j h1 h2; exact largestCommon_maximal _ _ _ h1 h2

/-- part 2: runs are laid out left to right from the start of the text, each position holding the
distance to the end of its run. -/
theorem runsSpec_unfold (c : Nat) (rest : List Nat) :
    runsSpec (c :: rest) = countdown (runLen (c :: rest)) ++ runsSpec ((c :: rest).drop (runLen (c :: rest))) := by
  have h := largestCommon_pos (c :: rest) (c :: rest).length
  rw [runsSpec]
  congr 1
  unfold runLen at *
  obtain ⟨k, hk⟩ : ∃ k, largestCommon (c :: rest) (c :: rest).length = k + 1 :=
    ⟨largestCommon (c :: rest) (c :: rest).length - 1, by omega⟩
  rw [hk]; simp

/-- non-vacuity of `hc` and a run longer than one character: あ(HIRAGANA) ́(ALL|NOOOVBOW) ア(KATAKANA) -/
example : (64 : Nat) ≠ 0 ∧ runsSpec [64, 2147483647, 128] = [2, 1, 1] ∧
    fillCatContinuityForward [64, 2147483647, 128] = [2, 1, 1] := by
  refine ⟨by decide, ?_, ?_⟩
  · simp [runsSpec, runLen, largestCommon, hasCommon, countdown]
  · simp [fillCatContinuityForward, scan, countdown]

end C13

namespace C13
open Oov

/-! ## clause "for each class of the character that is always invoked, or invoked because no candidate
exists yet at that position, a grouped candidate spanning the class run and candidates of 1..n characters
within the run, each with the ids, cost and part of speech of the unknown-word definition" -/

/-- Full statement (set equality with the definition).  Whenever the MeCab provider answers at `offset`,
a node is returned **iff** it is prescribed (`Oov.MecabSpec`) for one of the classes of the character
(`flagsIter` = the classes in the order `CategoryType::iter` visits them): behaviour line `ci` of the
class, always invoked or nothing created yet, an unknown-word line `d` of the class, and either the grouped
candidate `[offset, offset+run)` or a candidate of `i ∈ 1..length` characters clipped to the text and not
longer than the run (one less when grouping); ids, cost, POS are those of `d`.  `charLen` is the run length
the buffer reports (`continuity_eq_spec` says which runs those are). -/
theorem mecab_candidates_spec (cfg : MecabCfg) (buf : Buf) (offset created : Nat) (nodes : List Node)
    (h : mecabProvide cfg buf offset created = .ok nodes) :
    ∃ charLen cat, buf.cont[offset]? = some charLen ∧ buf.cats[offset]? = some cat ∧
      ∀ x, x ∈ nodes ↔
        (charLen ≠ 0 ∧ ∃ ct ∈ flagsIter cat, MecabSpec cfg buf.chars.length offset charLen created ct x) :=
  mecabProvide_spec cfg buf offset created nodes h

/-- every MeCab candidate carries the ids, cost and POS of a definition line and is marked OOV -/
theorem mecab_candidate_fields (cfg : MecabCfg) (n offset charLen created ct : Nat) (x : Node)
    (h : MecabSpec cfg n offset charLen created ct x) :
    ∃ ci oovs d, findKey ct cfg.cats = some ci ∧ findKey ci.ctype cfg.oovs = some oovs ∧ d ∈ oovs ∧
      x.b = offset ∧ x.l = d.l ∧ x.r = d.r ∧ x.c = d.c ∧ x.pos = d.pos ∧ x.oov = true := by
  obtain ⟨ci, oovs, d, h1, _, h3, h4, h5⟩ := h
  refine ⟨ci, oovs, d, h1, h3, h4, ?_⟩
  rcases h5 with ⟨_, rfl⟩ | ⟨i, _, _, _, rfl⟩ <;> simp [mkNode]

/-- non-vacuity: ALPHA `1 1 2` with one line, text `ab` + hiragana: at offset 0 (run 2) the grouped
candidate and the one-character candidate (the budget shrinks by one because of grouping). -/
example :
    mecabProvide ⟨[(32, ⟨32, true, true, 2⟩)], [(32, [⟨1, 2, 100, 0⟩])]⟩ ⟨[97, 98, 12354], [32, 32, 64], [2, 1, 1], [true, false, true]⟩ 0 0
      = .ok [⟨0, 2, 1, 2, 100, true, 0⟩, ⟨0, 1, 1, 2, 100, true, 0⟩] := by
  decide

/-! ## clause "the fallback provider adds one candidate reaching to the next permissible word start
exactly when nothing else was produced" -/

/-- Full statement.  Inside the text the Simple provider returns nothing when something was created, and
exactly one node `[offset, offset+k)` when nothing was, where `k` is characterised by `NextStart`: at least
one character, no character strictly inside may start a word, and the node ends at the end of the text or at
a character that may start a word. -/
theorem simple_iff_empty (cfg : SimpleCfg) (buf : Buf) (offset created : Nat) (ho : offset < buf.bow.length) :
    (created ≠ 0 → simpleProvide cfg buf offset created = .ok []) ∧
    (created = 0 → ∃ k, NextStart buf.bow offset k ∧
      simpleProvide cfg buf offset created = .ok [⟨offset, offset + k, cfg.l, cfg.r, cfg.c, true, cfg.pos⟩]) :=
  simpleProvide_spec cfg buf offset created ho

example : simpleProvide ⟨1, 2, 3, 4⟩ ⟨[97, 769, 98], [32, 2147483647, 32], [3, 2, 1], [true, false, true]⟩ 0 0
    = .ok [⟨0, 2, 1, 2, 3, true, 4⟩] := by decide

/-! ## clause "created-length bitset lets providers see what exists (exact below 64, conservative above)" -/

/-- Full statement.  With the mask the builder maintains (`addAll 0 nodes` = one bit per node length,
saturating at 64): `No` is sound for every length; below 64 the three answers are exact; `Maybe` is only
given for lengths ≥ 64 and only if a node of length ≥ 64 exists. -/
theorem created_sound (nodes : List Node) (len : Nat) :
    (hasWord (addAll 0 nodes) len = .no → ∀ x ∈ nodes, x.e - x.b ≠ len) ∧
    (1 ≤ len → len < 64 → (∀ x ∈ nodes, 1 ≤ x.e - x.b) →
      ((hasWord (addAll 0 nodes) len = .yes ↔ ∃ x ∈ nodes, x.e - x.b = len) ∧
       (hasWord (addAll 0 nodes) len = .no ↔ ∀ x ∈ nodes, x.e - x.b ≠ len) ∧
       hasWord (addAll 0 nodes) len ≠ .maybe)) ∧
    (hasWord (addAll 0 nodes) len = .maybe → 64 ≤ len ∧ ∃ x ∈ nodes, 64 ≤ x.e - x.b) :=
  ⟨hasWord_no_sound nodes len, fun h1 h2 h3 => hasWord_exact_below_64 nodes len h1 h2 h3, hasWord_maybe nodes len⟩

/-- … and the regex provider, which falls back to a scan of the buffer for `Maybe`, never adds a node that
ends where an existing node of the position ends — for any length, saturated or not. -/
theorem regex_never_duplicates (cfg : RegexCfg) (buf : Buf) (offset : Nat) (existing new : List Node)
    (hb : ∀ x ∈ existing, x.b = offset ∧ x.b < x.e)
    (h : regexProvide cfg buf offset (addAll 0 existing) existing = .ok new) :
    ∀ y ∈ new, ∀ x ∈ existing, x.e ≠ y.e :=
  regexProvide_no_duplicate cfg buf offset existing new hb h

/-- non-vacuity of the saturated case: a word of 70 characters exists, a match of 64 is `Maybe` -/
example : hasWord (addAll 0 [⟨0, 70, 0, 0, 0, false, 0⟩]) 64 = .maybe ∧
    hasWord (addAll 0 [⟨0, 70, 0, 0, 0, false, 0⟩]) 63 = .no ∧
    (∀ x ∈ [(⟨0, 70, 0, 0, 0, false, 0⟩ : Node)], x.b = 0 ∧ x.b < x.e) := by decide

/-! ## clause "every reachable position has a candidate" -/

/-- Full statement for one position of the builder loop (`stepAt` is run exactly at the positions with a
previous node): whenever the step succeeds it has inserted at least one node, and with the fallback
(Simple) provider configured last it never returns `EosBosDisconnect` — whatever the other providers,
the dictionary words and the character classes (NOOOVBOW/NOOOVBOW2 included) are. -/
theorem every_position_has_candidate (ps : List Provider) (lex : List Word) (buf : Buf) (offset : Nat) :
    (∀ nodes, stepAt ps lex buf offset = .ok nodes → nodes ≠ []) ∧
    (∀ cfg, ps.getLast? = some (.simple cfg) → ∀ k, stepAt ps lex buf offset ≠ .err k) :=
  ⟨fun nodes h => stepAt_nonempty ps lex buf offset nodes h,
   fun cfg hl k => stepAt_no_disconnect ps cfg lex buf offset hl k⟩

/-- Full statement wanted: `buildLattice` never returns `EosBosDisconnect` when a fallback is configured.
Proved: the position loop never does.  Missing: that the node ending furthest reaches the end of the text,
so that `connect_eos` finds a predecessor (needs `e ≤ n` for every provider's nodes, i.e. bounds on the run
table; covered by the oracle `disconnect-with-fallback` on the implementation). -/
theorem lattice_never_disconnects_partial (ps : List Provider) (cfg : SimpleCfg) (lex : List Word) (buf : Buf)
    (hlast : ps.getLast? = some (.simple cfg)) (k : String) :
    buildFrom ps lex buf (List.range buf.chars.length) [] ≠ .err k :=
  buildFrom_no_disconnect ps cfg lex buf hlast _ [] k

/-- non-vacuity: MeCab first, Simple last, on the D11 witness; and without a fallback the loop can fail. -/
example : ([Provider.mecab ⟨[], []⟩, Provider.simple ⟨0, 0, 0, 3⟩]).getLast? = some (.simple ⟨0, 0, 0, 3⟩) ∧
    stepAt [Provider.mecab ⟨[], []⟩, Provider.simple ⟨0, 0, 0, 3⟩] [] ⟨[128077, 127995, 28450], [1, 2147483647, 4], [1, 2, 1], [true, false, true]⟩ 1
      = .ok [⟨1, 2, 0, 0, 0, true, 3⟩] ∧
    stepAt [Provider.mecab ⟨[], []⟩] [] ⟨[128077, 127995, 28450], [1, 2147483647, 4], [1, 2, 1], [true, false, true]⟩ 1
      = .err "Disconnect" := by decide

/-! ## clause "OOV morphemes report is_oov, dictionary -1, the configured part of speech and the normalised
text as their forms" -/

/-- Full statement.  A morpheme built from an OOV node `[b,e)` whose word id is `WordId::oov(pos)` reports
is_oov, dictionary −1, POS id `pos`, and surface (of the word info) = normalized form = dictionary form =
reading form = the slice `[b,e)` of the *normalised* text. -/
theorem oov_fields (chars : List Nat) (b e pos : Nat) (hpos : pos < 65536) :
    oovInfo chars b e (wordIdOov pos) =
      { isOov := true, dictionaryId := -1, posId := pos, surface := (chars.take e).drop b,
        normalizedForm := (chars.take e).drop b, dictionaryForm := (chars.take e).drop b,
        readingForm := (chars.take e).drop b } := by
  obtain ⟨h1, _, h3⟩ := wid_oov pos hpos
  simp [oovInfo, h1, h3]

/-- the providers mark every node OOV with their configured POS, so `oov_fields` applies to all of them -/
theorem provider_nodes_are_oov (cfg : SimpleCfg) (rcfg : RegexCfg) (buf : Buf) (o c : Nat) (ex nodes : List Node) :
    (simpleProvide cfg buf o c = .ok nodes → ∀ x ∈ nodes, x.oov = true ∧ x.pos = cfg.pos) ∧
    (regexProvide rcfg buf o c ex = .ok nodes → ∀ x ∈ nodes, x.oov = true ∧ x.pos = rcfg.pos) := by
  constructor
  · intro h
    unfold simpleProvide at h
    split at h
    · cases h; simp
    · split at h
      · cases h
      · cases h; simp
  · intro h
    unfold regexProvide at h
    split at h
    · cases h
    · cases h; simp
    · unfold regexCore at h
      split at h
      · cases h
      · split at h
        · cases h; simp
        · split at h
          · split at h
            · cases h; simp
            · cases h
          · split at h
            · cases h; simp
            · cases h; simp [regexNode]
            · split at h <;> cases h <;> simp [regexNode]

example : oovInfo [65, 98, 12354] 0 2 (wordIdOov 5) =
    { isOov := true, dictionaryId := -1, posId := 5, surface := [65, 98], normalizedForm := [65, 98],
      dictionaryForm := [65, 98], readingForm := [65, 98] } := by decide

end C13
