import Sudachi.Proofs.OovLattice
import Sudachi.Proofs.OovIter
import Sudachi.Proofs.OovRead
import Sudachi.Proofs.OovTables
/-!
# C13 — Unknown-word candidates follow the character-class definition

Model: `Sudachi/Model/Oov.lean` (+ the definition-file readers in `Model/OovIO.lean`); lemmas in `Proofs/Oov.lean`,
`Proofs/OovLattice.lean`, `Proofs/OovIter.lean` (class iteration, per-class limit, failing runs), `Proofs/OovRead.lean` (readers).  Character
classes are the C17 model.  Quantifiers: every list of per-character class sets (`cats`), every
provider configuration, every offset / created mask.
-/
namespace C13
open Oov

/-! ## clause "the class run (the maximal stretch, determined left to right from the start of the text,
over which consecutive characters keep a class in common)" -/

/-- Full statement for the forward pass (the candidate repair, `variant=fwd`): for every text the
run table equals the declarative left-to-right runs. -/
theorem continuity_eq_spec (cats : List Nat) : fillCatContinuityForward cats = runsSpec cats :=
  forward_eq_spec cats

/-- `continuity_eq_spec` is **false for the code that exists** (D11).  Witness: `👍🏻漢` under the shipped
char.def — DEFAULT, ALL|NOOOVBOW, KANJI.  The backward pass narrows `ALL ∩ KANJI` first and then finds
nothing in common with DEFAULT: `[1,2,1]`, i.e. the emoji is cut from its modifier; the left-to-right
runs are `[2,1,1]`. -/
theorem continuity_eq_spec_counterexample :
    fillCatContinuityBackward [1, 2147483647, 4] = [1, 2, 1] ∧ runsSpec [1, 2147483647, 4] = [2, 1, 1] ∧
    ¬ (∀ cats, fillCatContinuityBackward cats = runsSpec cats) := by
  have hs : runsSpec [1, 2147483647, 4] = [2, 1, 1] := by
    simp [runsSpec, runLen, largestCommon, hasCommon, countdown]
  refine ⟨by decide, hs, fun h => ?_⟩
  have := h [1, 2147483647, 4]
  rw [hs] at this
  revert this; decide

/-- … while the same two characters alone form one run under the current code: what follows the
modifier decides whether the emoji keeps it. -/
theorem context_dependence_counterexample :
    fillCatContinuityBackward [1, 2147483647] = [2, 1] ∧
    (fillCatContinuityBackward ([1, 2147483647] ++ [4])).take 2 ≠ fillCatContinuityBackward [1, 2147483647] := by
  decide

/-- Clause "a base character is never separated from following combining marks or modifiers merely
because of what follows them" — full statement for the forward pass: whether a run ends after character
`i` (`[i] = 1`) is the same in a text `xs` and in `xs` followed by anything, for every `i` that is not the
last character of `xs` (appending text can only extend the last run).  False for the code that exists:
`context_dependence_counterexample`. -/
theorem no_split_by_context (xs ys : List Nat) (i : Nat) (hi : i + 1 < xs.length) :
    (fillCatContinuityForward xs)[i]? = some 1 ↔ (fillCatContinuityForward (xs ++ ys))[i]? = some 1 :=
  forward_boundary_stable xs ys i hi

/-- the word-start table of the code that exists deviates from the documented meaning of NOOOVBOW2
("this and next characters cannot be the beginning of an OOV word") after two consecutive NOOOVBOW2
characters: KATAKANA, ALL|NOOOVBOW2, KATAKANA|NOOOVBOW2, KANJI — the last character may start a word. -/
theorem word_start_after_consecutive_noovbow2_counterexample :
    bowTable [128, 3221225471, 2147483776, 4] = [true, false, false, true] ∧ 2147483776 &&& NOOOVBOW2 ≠ 0 := by
  decide

/-- the repaired word-start table (`InputBuffer::build` after the fix): the example above no longer
lets the last character start a word -/
theorem word_start_after_consecutive_noovbow2_fixed :
    bowTableFix [128, 3221225471, 2147483776, 4] = [true, false, false, false] := by
  decide

/-- **NOOOVBOW2 means "this and the next character cannot start a word"** — for the repaired code, for
every text: a NOOOVBOW2 character is never a word start, and neither is the character after it. -/
theorem noovbow2_bans_this_and_next (cats : List Nat) (i : Nat) (c : Nat)
    (hc : cats[i]? = some c) (h2 : c &&& NOOOVBOW2 ≠ 0) :
    (bowTableFix cats)[i]? = some false ∧ (i + 1 < cats.length → (bowTableFix cats)[i + 1]? = some false) := by
  -- generalise over the scanner state
  have key : ∀ (cats : List Nat) (nb : Bool) (prev : Nat) (i : Nat) (c : Nat), cats[i]? = some c → c &&& NOOOVBOW2 ≠ 0 →
      (bowGoV true cats nb prev)[i]? = some false ∧
      (i + 1 < cats.length → (bowGoV true cats nb prev)[i + 1]? = some false) := by
    intro cats
    induction cats with
    | nil => intro nb prev i c hc; simp at hc
    | cons x rest ih =>
      intro nb prev i c hc h2
      cases i with
      | zero =>
        have hx : x = c := by simpa using hc
        subst hx
        -- the character itself is banned; the state handed on has next_bow = false
        have hstate : ∀ (l : List Nat) (p : Nat), 0 < l.length → (bowGoV true l false p)[0]? = some false := by
          intro l p hl
          cases l with
          | nil => simp at hl
          | cons y ys => simp [bowGoV]
        cases nb with
        | false =>
          have hz : (x &&& NOOOVBOW2 == 0) = false := by simpa using h2
          simp only [bowGoV, Bool.not_false, if_true, hz]
          refine ⟨by simp, fun hlt => ?_⟩
          have : 0 < rest.length := by simpa using hlt
          simpa using hstate rest x this
        | true =>
          simp only [bowGoV, Bool.not_true, Bool.false_eq_true, if_false, h2, ne_eq, not_false_eq_true, if_true]
          refine ⟨by simp, fun hlt => ?_⟩
          have : 0 < rest.length := by simpa using hlt
          simpa using hstate rest x this
      | succ j =>
        have hc' : rest[j]? = some c := by simpa using hc
        -- whatever branch is taken for `x`, the tail is scanned by `bowGoV true rest _ x`
        have htail : ∃ nb', bowGoV true (x :: rest) nb prev = (bowGoV true (x :: rest) nb prev).head! :: bowGoV true rest nb' x := by
          simp only [bowGoV]
          split
          · exact ⟨_, rfl⟩
          · split
            · exact ⟨_, rfl⟩
            · split
              · exact ⟨_, rfl⟩
              · split <;> exact ⟨_, rfl⟩
        obtain ⟨nb', hnb⟩ := htail
        rw [hnb]
        have := ih nb' x j c hc' h2
        refine ⟨by simpa using this.1, fun hlt => ?_⟩
        have hlt' : j + 1 < rest.length := by simpa using hlt
        simpa using this.2 hlt'
  exact key cats true 0 i c hc h2

/-- What `runsSpec` denotes, part 1: the run that starts a text is at least one character, lies inside
the text, keeps a class in common (whenever the first character has a class at all — always the case for
a loaded table, C17), and is maximal: no longer prefix keeps a class in common. -/
theorem runLen_is_maximal_common_prefix (c : Nat) (rest : List Nat) (hc : c ≠ 0) :
    1 ≤ runLen (c :: rest) ∧ runLen (c :: rest) ≤ (c :: rest).length ∧
    hasCommon ((c :: rest).take (runLen (c :: rest))) = true ∧
    ∀ j, runLen (c :: rest) < j → j ≤ (c :: rest).length → hasCommon ((c :: rest).take j) = false := by
  refine ⟨largestCommon_pos _ _, ?_, ?_, ?_⟩
  · have := largestCommon_le (c :: rest) (c :: rest).length
    simp only [runLen, List.length_cons] at *; omega
  · apply largestCommon_common
    refine ⟨1, Nat.le_refl 1, by simp, ?_⟩
    simpa [hasCommon] using hc
  · intro j h1 h2; exact largestCommon_maximal _ _ _ h1 h2

/-- part 2: runs are laid out left to right from the start of the text, each position holding the
distance to the end of its run. -/
theorem runsSpec_unfold (c : Nat) (rest : List Nat) :
    runsSpec (c :: rest) = countdown (runLen (c :: rest)) ++ runsSpec ((c :: rest).drop (runLen (c :: rest))) := by
  have h := largestCommon_pos (c :: rest) (c :: rest).length
  rw [runsSpec]
  congr 1
  unfold runLen at *
  obtain ⟨k, hk⟩ : ∃ k, largestCommon (c :: rest) (c :: rest).length = k + 1 :=
    ⟨largestCommon (c :: rest) (c :: rest).length - 1, by omega⟩
  rw [hk]; simp

/-- non-vacuity of `hc` and a run longer than one character: あ(HIRAGANA) ́(ALL|NOOOVBOW) ア(KATAKANA) -/
example : (64 : Nat) ≠ 0 ∧ runsSpec [64, 2147483647, 128] = [2, 1, 1] ∧
    fillCatContinuityForward [64, 2147483647, 128] = [2, 1, 1] := by
  refine ⟨by decide, ?_, ?_⟩
  · simp [runsSpec, runLen, largestCommon, hasCommon, countdown]
  · simp [fillCatContinuityForward, scan, countdown]

end C13

namespace C13
open Oov

/-! ## clause "for each class of the character that is always invoked, or invoked because no candidate
exists yet at that position, a grouped candidate spanning the class run and candidates of 1..n characters
within the run, each with the ids, cost and part of speech of the unknown-word definition" -/

/-- Full statement (set equality with the definition).  Whenever the MeCab provider answers at `offset`,
a node is returned **iff** it is prescribed (`Oov.MecabSpec`) for one of the classes of the character
(`flagsIter` = the classes in the order `CategoryType::iter` visits them): behaviour line `ci` of the
class, always invoked or nothing created yet, an unknown-word line `d` of the class, and either the grouped
candidate `[offset, offset+run)` or a candidate of `i ∈ 1..length` characters clipped to the text and not
longer than the run (one less when grouping); ids, cost, POS are those of `d`.  `charLen` is the run length
the buffer reports (`continuity_eq_spec` says which runs those are). -/
theorem mecab_candidates_spec (cfg : MecabCfg) (buf : Buf) (offset created : Nat) (nodes : List Node)
    (h : mecabProvide cfg buf offset created = .ok nodes) :
    ∃ charLen cat, buf.cont[offset]? = some charLen ∧ buf.cats[offset]? = some cat ∧
      ∀ x, x ∈ nodes ↔
        (charLen ≠ 0 ∧ ∃ ct ∈ flagsIter cat, MecabSpec cfg buf.chars.length offset charLen created ct x) :=
  mecabProvide_spec cfg buf offset created nodes h

/-- every MeCab candidate carries the ids, cost and POS of a definition line and is marked OOV -/
theorem mecab_candidate_fields (cfg : MecabCfg) (n offset charLen created ct : Nat) (x : Node)
    (h : MecabSpec cfg n offset charLen created ct x) :
    ∃ ci oovs d, findKey ct cfg.cats = some ci ∧ findKey ci.ctype cfg.oovs = some oovs ∧ d ∈ oovs ∧
      x.b = offset ∧ x.l = d.l ∧ x.r = d.r ∧ x.c = d.c ∧ x.pos = d.pos ∧ x.oov = true := by
  obtain ⟨ci, oovs, d, h1, _, h3, h4, h5⟩ := h
  refine ⟨ci, oovs, d, h1, h3, h4, ?_⟩
  rcases h5 with ⟨_, rfl⟩ | ⟨i, _, _, _, rfl⟩ <;> simp [mkNode]

/-- non-vacuity: ALPHA `1 1 2` with one line, text `ab` + hiragana: at offset 0 (run 2) the grouped
candidate and the one-character candidate (the budget shrinks by one because of grouping). -/
example :
    mecabProvide ⟨[(32, ⟨32, true, true, 2⟩)], [(32, [⟨1, 2, 100, 0⟩])], false⟩ ⟨[97, 98, 12354], [32, 32, 64], [2, 1, 1], [true, false, true]⟩ 0 0
      = .ok [⟨0, 2, 1, 2, 100, true, 0⟩, ⟨0, 1, 1, 2, 100, true, 0⟩] := by
  decide

/-! ## clause "the fallback provider adds one candidate reaching to the next permissible word start
exactly when nothing else was produced" -/

/-- Full statement.  Inside the text the Simple provider returns nothing when something was created, and
exactly one node `[offset, offset+k)` when nothing was, where `k` is characterised by `NextStart`: at least
one character, no character strictly inside may start a word, and the node ends at the end of the text or at
a character that may start a word. -/
theorem simple_iff_empty (cfg : SimpleCfg) (buf : Buf) (offset created : Nat) (ho : offset < buf.bow.length) :
    (created ≠ 0 → simpleProvide cfg buf offset created = .ok []) ∧
    (created = 0 → ∃ k, NextStart buf.bow offset k ∧
      simpleProvide cfg buf offset created = .ok [⟨offset, offset + k, cfg.l, cfg.r, cfg.c, true, cfg.pos⟩]) :=
  simpleProvide_spec cfg buf offset created ho

example : simpleProvide ⟨1, 2, 3, 4⟩ ⟨[97, 769, 98], [32, 2147483647, 32], [3, 2, 1], [true, false, true]⟩ 0 0
    = .ok [⟨0, 2, 1, 2, 3, true, 4⟩] := by decide

/-! ## clause "created-length bitset lets providers see what exists (exact below 64, conservative above)" -/

/-- Full statement.  With the mask the builder maintains (`addAll 0 nodes` = one bit per node length,
saturating at 64): `No` is sound for every length; below 64 the three answers are exact; `Maybe` is only
given for lengths ≥ 64 and only if a node of length ≥ 64 exists. -/
theorem created_sound (nodes : List Node) (len : Nat) :
    (hasWord (addAll 0 nodes) len = .no → ∀ x ∈ nodes, x.e - x.b ≠ len) ∧
    (1 ≤ len → len < 64 → (∀ x ∈ nodes, 1 ≤ x.e - x.b) →
      ((hasWord (addAll 0 nodes) len = .yes ↔ ∃ x ∈ nodes, x.e - x.b = len) ∧
       (hasWord (addAll 0 nodes) len = .no ↔ ∀ x ∈ nodes, x.e - x.b ≠ len) ∧
       hasWord (addAll 0 nodes) len ≠ .maybe)) ∧
    (hasWord (addAll 0 nodes) len = .maybe → 64 ≤ len ∧ ∃ x ∈ nodes, 64 ≤ x.e - x.b) :=
  ⟨hasWord_no_sound nodes len, fun h1 h2 h3 => hasWord_exact_below_64 nodes len h1 h2 h3, hasWord_maybe nodes len⟩

/-- … and the regex provider, which falls back to a scan of the buffer for `Maybe`, never adds a node that
ends where an existing node of the position ends — for any length, saturated or not. -/
theorem regex_never_duplicates (cfg : RegexCfg) (buf : Buf) (offset : Nat) (existing new : List Node)
    (hb : ∀ x ∈ existing, x.b = offset ∧ x.b < x.e)
    (h : regexProvide cfg buf offset (addAll 0 existing) existing = .ok new) :
    ∀ y ∈ new, ∀ x ∈ existing, x.e ≠ y.e :=
  regexProvide_no_duplicate cfg buf offset existing new hb h

/-- non-vacuity of the saturated case: a word of 70 characters exists, a match of 64 is `Maybe` -/
example : hasWord (addAll 0 [⟨0, 70, 0, 0, 0, false, 0⟩]) 64 = .maybe ∧
    hasWord (addAll 0 [⟨0, 70, 0, 0, 0, false, 0⟩]) 63 = .no ∧
    (∀ x ∈ [(⟨0, 70, 0, 0, 0, false, 0⟩ : Node)], x.b = 0 ∧ x.b < x.e) := by decide

/-! ## clause "every reachable position has a candidate" -/

/-- Full statement for one position of the builder loop (`stepAt` is run exactly at the positions with a
previous node): whenever the step succeeds it has inserted at least one node, and with the fallback
(Simple) provider configured last it never returns `EosBosDisconnect` — whatever the other providers,
the dictionary words and the character classes (NOOOVBOW/NOOOVBOW2 included) are. -/
theorem every_position_has_candidate (ps : List Provider) (lex : List Word) (buf : Buf) (offset : Nat) :
    (∀ nodes, stepAt ps lex buf offset = .ok nodes → nodes ≠ []) ∧
    (∀ cfg, ps.getLast? = some (.simple cfg) → ∀ k, stepAt ps lex buf offset ≠ .err k) :=
  ⟨fun nodes h => stepAt_nonempty ps lex buf offset nodes h,
   fun cfg hl k => stepAt_no_disconnect ps cfg lex buf offset hl k⟩

/-- non-vacuity: MeCab first, Simple last, on the D11 witness; and without a fallback the loop can fail. -/
example : ([Provider.mecab ⟨[], [], false⟩, Provider.simple ⟨0, 0, 0, 3⟩]).getLast? = some (.simple ⟨0, 0, 0, 3⟩) ∧
    stepAt [Provider.mecab ⟨[], [], false⟩, Provider.simple ⟨0, 0, 0, 3⟩] [] ⟨[128077, 127995, 28450], [1, 2147483647, 4], [1, 2, 1], [true, false, true]⟩ 1
      = .ok [⟨1, 2, 0, 0, 0, true, 3⟩] ∧
    stepAt [Provider.mecab ⟨[], [], false⟩] [] ⟨[128077, 127995, 28450], [1, 2147483647, 4], [1, 2, 1], [true, false, true]⟩ 1
      = .err "Disconnect" := by decide

/-! ## clause "OOV morphemes report is_oov, dictionary -1, the configured part of speech and the normalised
text as their forms" -/

/-- Full statement.  A morpheme built from an OOV node `[b,e)` whose word id is `WordId::oov(pos)` reports
is_oov, dictionary −1, POS id `pos`, and surface (of the word info) = normalized form = dictionary form =
reading form = the slice `[b,e)` of the *normalised* text. -/
theorem oov_fields (chars : List Nat) (b e pos : Nat) (hpos : pos < 65536) :
    oovInfo chars b e (wordIdOov pos) =
      { isOov := true, dictionaryId := -1, posId := pos, surface := (chars.take e).drop b,
        normalizedForm := (chars.take e).drop b, dictionaryForm := (chars.take e).drop b,
        readingForm := (chars.take e).drop b } := by
  obtain ⟨h1, _, h3⟩ := wid_oov pos hpos
  simp [oovInfo, h1, h3]

/-- the providers mark every node OOV with their configured POS, so `oov_fields` applies to all of them -/
theorem provider_nodes_are_oov (cfg : SimpleCfg) (rcfg : RegexCfg) (buf : Buf) (o c : Nat) (ex nodes : List Node) :
    (simpleProvide cfg buf o c = .ok nodes → ∀ x ∈ nodes, x.oov = true ∧ x.pos = cfg.pos) ∧
    (regexProvide rcfg buf o c ex = .ok nodes → ∀ x ∈ nodes, x.oov = true ∧ x.pos = rcfg.pos) := by
  constructor
  · intro h
    unfold simpleProvide at h
    split at h
    · cases h; simp
    · split at h
      · cases h
      · cases h; simp
  · intro h
    unfold regexProvide at h
    split at h
    · cases h
    · cases h; simp
    · unfold regexCore at h
      split at h
      · cases h
      · split at h
        · cases h; simp
        · split at h
          · split at h
            · cases h; simp
            · cases h
          · split at h
            · cases h; simp
            · cases h; simp [regexNode]
            · split at h <;> cases h <;> simp [regexNode]

example : oovInfo [65, 98, 12354] 0 2 (wordIdOov 5) =
    { isOov := true, dictionaryId := -1, posId := 5, surface := [65, 98], normalizedForm := [65, 98],
      dictionaryForm := [65, 98], readingForm := [65, 98] } := by decide

end C13

namespace C13
open Oov

/-! ## clause "every reachable position has a candidate" — the lattice as a whole -/

/-- Every buffer the model builds — whichever run computation (backward, forward, declarative) and word-start
variant — is well formed: one class set, run length and word-start flag per character, every run length at
least 1 and inside the text.  This discharges the hypothesis `buf.WF` of the theorems below for every case the
driver answers. -/
theorem built_buffer_well_formed (v : Variant) (bowFix : Bool) (tab : List (Nat × Nat)) (chars : List Nat) (buf : Buf)
    (h : mkBufV v bowFix tab chars = some buf) : buf.WF :=
  mkBufV_wf v bowFix tab chars buf h

/-- **Full statement** (was `lattice_never_disconnects_partial`): with the fallback (Simple) provider configured
last, `build_lattice` never returns `EosBosDisconnect` (nor any other `Err`) — neither from the position loop
nor from `connect_eos` —, whatever the other providers, the dictionary and the classes are. -/
theorem lattice_never_disconnects (ps : List Provider) (cfg : SimpleCfg) (lex : List Word) (buf : Buf) (hwf : buf.WF)
    (hlast : ps.getLast? = some (.simple cfg)) (k : String) : buildLattice ps lex buf ≠ .err k := by
  unfold buildLattice
  intro h
  cases hb : buildFrom ps lex buf (List.range buf.chars.length) [] with
  | err k' => exact buildFrom_no_disconnect ps cfg lex buf hlast _ [] k' hb
  | panic w => simp [hb] at h
  | ok nodes =>
    simp only [hb] at h
    rw [List.range_eq_range'] at hb
    obtain ⟨_, _, q, hq1, hq2, hq3⟩ :=
      buildFrom_inv ps lex buf hwf buf.chars.length 0 [] nodes (by omega) (latInv_init _) hb
    have : q = buf.chars.length := by omega
    subst this
    simp [hq3] at h

/-- the loop alone, for ANY buffer (well formed or not): no `Err` with the fallback last -/
theorem position_loop_never_disconnects (ps : List Provider) (cfg : SimpleCfg) (lex : List Word) (buf : Buf)
    (hlast : ps.getLast? = some (.simple cfg)) (k : String) :
    buildFrom ps lex buf (List.range buf.chars.length) [] ≠ .err k :=
  buildFrom_no_disconnect ps cfg lex buf hlast _ [] k

/-- **Full statement over the finished lattice**, for every provider list (fallback or not): whenever
`build_lattice` succeeds, (1) every node is non-empty, ends inside the text and begins at a position with a
previous node (`has_previous_node`: position 0 or the end of a node), (2) every position before the end of the
text that has a previous node has at least one candidate, (3) the end of the text has a previous node. -/
theorem every_reachable_position_has_candidate (ps : List Provider) (lex : List Word) (buf : Buf) (hwf : buf.WF)
    (nodes : List Node) (h : buildLattice ps lex buf = .ok nodes) :
    (∀ x ∈ nodes, x.b < x.e ∧ x.e ≤ buf.chars.length ∧ reachable nodes x.b = true) ∧
    (∀ p, p < buf.chars.length → reachable nodes p = true → ∃ x ∈ nodes, x.b = p) ∧
    reachable nodes buf.chars.length = true := by
  unfold buildLattice at h
  cases hb : buildFrom ps lex buf (List.range buf.chars.length) [] with
  | err k' => simp [hb] at h
  | panic w => simp [hb] at h
  | ok nodes' =>
    simp only [hb] at h
    split at h
    · rename_i hr
      cases h
      rw [List.range_eq_range'] at hb
      obtain ⟨h1, h2, _⟩ := buildFrom_inv ps lex buf hwf buf.chars.length 0 [] nodes (by omega) (latInv_init _) hb
      exact ⟨fun x hx => ⟨(h1 x hx).2.1, (h1 x hx).2.2.1, (h1 x hx).2.2.2⟩, h2, hr⟩
    · cases h

/-- non-vacuity: the D11 witness buffer is well formed, MeCab + Simple build its lattice -/
example : (⟨[128077, 127995, 28450], [1, 2147483647, 4], [2, 1, 1], [true, false, true]⟩ : Buf).WF :=
  ⟨rfl, rfl, rfl, by
    intro i c h
    match i, h with
    | 0, h => cases h; decide
    | 1, h => cases h; decide
    | 2, h => cases h; decide
    | n + 3, h => simp at h⟩

example : buildLattice [Provider.mecab ⟨[], [], false⟩, Provider.simple ⟨0, 0, 0, 3⟩] []
    ⟨[128077, 127995, 28450], [1, 2147483647, 4], [2, 1, 1], [true, false, true]⟩
      = .ok [⟨0, 2, 0, 0, 0, true, 3⟩, ⟨2, 3, 0, 0, 0, true, 3⟩] := by decide

/-! ## clause "providers skipped at no-word-start characters; last provider re-invoked if nothing exists":
WHICH positions call the providers, in which order, with what -/

/-- The recorded builder (the one whose `provide_oov` calls the driver prints and the harness observes on the real
`build_lattice` through wrapped providers) is the builder of the theorems: forgetting the calls gives
`stepAt` / `buildLattice`. -/
theorem recorded_builder_is_builder (ps : List Provider) (lex : List Word) (buf : Buf) :
    (∀ o, (stepAtT ps lex buf o).mapO (·.nodes) = stepAt ps lex buf o) ∧
    (buildLatticeT ps lex buf).mapO Prod.fst = buildLattice ps lex buf :=
  ⟨stepAtT_nodes ps lex buf, buildLatticeT_nodes ps lex buf⟩

/-- **Full statement**: what a successful step at position `o` inserts.  The decision whether the provider list is
run is taken on the CLASS of the character at `o` (`asksProviders cat` = `cat ∩ {NOOOVBOW, NOOOVBOW2} = ∅`) — not
on `can_bow(o)`.
* class allows: dictionary words, then the outputs of the provider list in order (`provider_stack_order` says with
  which arguments); no extra call is made and something was produced;
* class forbids and a dictionary word exists: exactly the dictionary words, no provider is called;
* class forbids and no dictionary word: exactly what the LAST provider returns for an empty mask and an empty buffer
  (non-empty, otherwise the step fails) — whichever provider that is. -/
theorem position_candidates_spec (ps : List Provider) (lex : List Word) (buf : Buf) (o : Nat) (t : PosTrace)
    (h : stepAtT ps lex buf o = .ok t) :
    ∃ cat, buf.cats[o]? = some cat ∧ t.asked = asksProviders cat ∧ t.lexN = lexNodes lex buf o ∧ t.nodes ≠ [] ∧
      (asksProviders cat = true →
        (∃ st', provideAllT ps 0 buf o (addAll 0 t.lexN, t.lexN) = .ok (st', t.calls)) ∧
        t.fb = none ∧ t.nodes = t.lexN ++ outsOf t.calls) ∧
      (asksProviders cat = false → t.lexN ≠ [] → t.calls = [] ∧ t.fb = none ∧ t.nodes = t.lexN) ∧
      (asksProviders cat = false → t.lexN = [] → t.calls = [] ∧
        ∃ p c, ps.getLast? = some p ∧ t.fb = some c ∧ c.idx = ps.length - 1 ∧ c.offset = o ∧ c.created = 0 ∧ c.pre = 0 ∧
          provide p buf o 0 [] = .ok t.nodes ∧ c.out = t.nodes) := by
  have hnodes : t.nodes ≠ [] := by
    have := stepAtT_nodes ps lex buf o
    rw [h] at this
    exact stepAt_nonempty ps lex buf o t.nodes this.symm
  obtain ⟨cat, hcat, _, hasked, hlex, hloop, hnot, hne, hnil⟩ := stepAtT_spec ps lex buf o t h
  refine ⟨cat, hcat, hasked, hlex, hnodes, ?_, ?_, ?_⟩
  · intro ha
    have ha' : t.asked = true := by rw [hasked]; exact ha
    exact ⟨hloop ha', fallback_redundant_when_asked ps lex buf o t h ha'⟩
  · intro ha hl
    have ha' : t.asked = false := by rw [hasked]; exact ha
    have hc := hnot ha'
    have : t.lexN ++ outsOf t.calls ≠ [] := by rw [hc]; simpa [outsOf] using hl
    obtain ⟨h1, h2⟩ := hne this
    exact ⟨hc, h1, by rw [h2, hc]; simp [outsOf]⟩
  · intro ha hl
    have ha' : t.asked = false := by rw [hasked]; exact ha
    have hc := hnot ha'
    have : t.lexN ++ outsOf t.calls = [] := by rw [hc, hl]; rfl
    obtain ⟨p, c, h1, h2, h3, h4, h5, h6, h7, _, h9⟩ := hnil this
    exact ⟨hc, p, c, h1, h2, h3, h4, h5, h6, by rw [h9]; exact h7, h9.symm⟩

/-- **Full statement over the provider list** (order of the providers): when the provider list is run at a position
with dictionary words `lexN`, every configured provider is called exactly once, in the configured order; the call of
a provider sees as `other_words` the mask of the lengths of the dictionary words and of everything the EARLIER
providers pushed, and as `result` exactly those nodes; the final mask/buffer are those of all nodes together. -/
theorem provider_stack_order (ps : List Provider) (buf : Buf) (o : Nat) (lexN : List Node) (st' : Nat × List Node)
    (calls : List Call) (h : provideAllT ps 0 buf o (addAll 0 lexN, lexN) = .ok (st', calls)) :
    calls.map (·.idx) = List.range ps.length ∧
    st' = (addAll 0 (lexN ++ outsOf calls), lexN ++ outsOf calls) ∧
    ∀ before c after, calls = before ++ c :: after →
      c.idx = before.length ∧ c.offset = o ∧
      c.created = addAll 0 (lexN ++ outsOf before) ∧ c.pre = (lexN ++ outsOf before).length ∧
      ∃ p, ps[c.idx]? = some p ∧ provide p buf o (addAll 0 (lexN ++ outsOf before)) (lexN ++ outsOf before) = .ok c.out := by
  obtain ⟨_, hst, hsplit⟩ := provideAllT_spec ps 0 buf o _ st' calls h
  refine ⟨by rw [provideAllT_idx ps 0 buf o _ st' calls h, List.range_eq_range'], by rw [hst, addAll_append], ?_⟩
  intro before c after hc
  obtain ⟨p, hp, hidx, hoff, hcr, hpre, hprov⟩ := hsplit before c after hc
  simp only [Nat.zero_add] at hidx
  simp only [← addAll_append] at hcr hprov
  exact ⟨hidx, hoff, hcr, hpre, p, by rw [hidx]; exact hp, hprov⟩

/-- **Full statement** ("invoked because no candidate exists yet at that position", across providers): for the call `c`
of a provider in the list, with `prior` = the dictionary words and everything earlier providers pushed,
* Simple: returns nothing if `prior` is non-empty; if `prior` is empty, exactly one node reaching to the next
  permissible word start;
* MeCab: exactly the nodes prescribed for the classes of the character, where a class that is not "always invoked"
  contributes only if `prior` is empty (`MecabSpec` with `prior.length` in the place of the mask);
* Regex: never a node that ends where a node of `prior` ends. -/
theorem invoke_only_when_nothing_created (ps : List Provider) (buf : Buf) (o : Nat) (lexN : List Node) (st' : Nat × List Node)
    (calls before after : List Call) (c : Call) (h : provideAllT ps 0 buf o (addAll 0 lexN, lexN) = .ok (st', calls))
    (hc : calls = before ++ c :: after) :
    (∀ cfg, ps[c.idx]? = some (.simple cfg) →
      (lexN ++ outsOf before ≠ [] → c.out = []) ∧
      (lexN ++ outsOf before = [] → o < buf.bow.length →
        ∃ k, NextStart buf.bow o k ∧ c.out = [⟨o, o + k, cfg.l, cfg.r, cfg.c, true, cfg.pos⟩])) ∧
    (∀ cfg, ps[c.idx]? = some (.mecab cfg) →
      ∃ charLen cat, buf.cont[o]? = some charLen ∧ buf.cats[o]? = some cat ∧
        ∀ x, x ∈ c.out ↔ (charLen ≠ 0 ∧ ∃ ct ∈ flagsIter cat,
          MecabSpec cfg buf.chars.length o charLen (lexN ++ outsOf before).length ct x)) ∧
    (∀ cfg, ps[c.idx]? = some (.regex cfg) → (∀ x ∈ lexN ++ outsOf before, x.b = o ∧ x.b < x.e) →
      ∀ y ∈ c.out, ∀ x ∈ lexN ++ outsOf before, x.e ≠ y.e) := by
  obtain ⟨_, _, hsplit⟩ := provider_stack_order ps buf o lexN st' calls h
  obtain ⟨_, _, _, _, p, hp, hprov⟩ := hsplit before c after hc
  have hz : addAll 0 (lexN ++ outsOf before) = 0 ↔ (lexN ++ outsOf before).length = 0 := by
    rw [addAll_zero_iff]; exact List.length_eq_zero_iff.symm
  refine ⟨?_, ?_, ?_⟩
  · intro cfg hcfg
    rw [hcfg] at hp; cases hp
    constructor
    · intro hne
      have : addAll 0 (lexN ++ outsOf before) ≠ 0 := fun h0 => hne ((addAll_zero_iff _).mp h0)
      have h1 : simpleProvide cfg buf o (addAll 0 (lexN ++ outsOf before)) = .ok [] := by simp [simpleProvide, this]
      simp only [provide] at hprov
      rw [h1] at hprov; exact (Outcome.ok.inj hprov).symm
    · intro hnil ho
      obtain ⟨k, hk, hs⟩ := (simpleProvide_spec cfg buf o 0 ho).2 rfl
      rw [hnil] at hprov
      simp only [provide, addAll, List.foldl_nil] at hprov
      rw [hs] at hprov
      exact ⟨k, hk, (Outcome.ok.inj hprov).symm⟩
  · intro cfg hcfg
    rw [hcfg] at hp; cases hp
    simp only [provide] at hprov
    obtain ⟨charLen, cat, h1, h2, h3⟩ := mecabProvide_spec cfg buf o _ c.out hprov
    refine ⟨charLen, cat, h1, h2, fun x => ?_⟩
    rw [h3 x]
    constructor
    · rintro ⟨a, ct, hct, hs⟩
      exact ⟨a, ct, hct, (MecabSpec_created_congr cfg _ o charLen _ _ ct x hz).mp hs⟩
    · rintro ⟨a, ct, hct, hs⟩
      exact ⟨a, ct, hct, (MecabSpec_created_congr cfg _ o charLen _ _ ct x hz).mpr hs⟩
  · intro cfg hcfg hb
    rw [hcfg] at hp; cases hp
    simp only [provide] at hprov
    exact regexProvide_no_duplicate cfg buf o _ c.out hb hprov

/-- **The extra call of the last provider matters only where the loop was skipped**: at a position whose character's
class lets the provider list run, a successful step never contains the extra call (it would repeat a call that has
just returned nothing, and the step would fail). -/
theorem fallback_call_only_when_loop_skipped (ps : List Provider) (lex : List Word) (buf : Buf) (o : Nat) (t : PosTrace)
    (h : stepAtT ps lex buf o = .ok t) (hfb : t.fb ≠ none) : t.asked = false ∧ t.calls = [] ∧ t.lexN = [] := by
  obtain ⟨cat, _, hasked, _, _, h1, h2, h3⟩ := position_candidates_spec ps lex buf o t h
  cases ha : asksProviders cat with
  | true => exact absurd (h1 ha).2.1 hfb
  | false =>
    by_cases hl : t.lexN = []
    · exact ⟨by rw [hasked, ha], (h3 ha hl).1, hl⟩
    · exact absurd (h2 ha hl).2.1 hfb


/-! ## "positions that may not start a word are never reached" — what is true and what is not -/

/-- **True without class-driven providers**: when only dictionary words and the fallback (Simple) provider make
candidates, every node ends at the end of the text or at a character that may start a word — so a position where
`can_bow` is false never has a previous node (dictionary words are filtered by `can_bow(e.end)`, the fallback
reaches to the next permissible word start). -/
theorem only_word_starts_reached_by_words_and_fallback (ps : List Provider) (lex : List Word) (buf : Buf) (hwf : buf.WF)
    (hall : ∀ p ∈ ps, ∃ cfg, p = Provider.simple cfg) (nodes : List Node) (h : buildLattice ps lex buf = .ok nodes) :
    ∀ x ∈ nodes, x.e = buf.chars.length ∨ buf.bow[x.e]? = some true := by
  unfold buildLattice at h
  cases hb : buildFrom ps lex buf (List.range buf.chars.length) [] with
  | err k' => simp [hb] at h
  | panic w => simp [hb] at h
  | ok nodes' =>
    simp only [hb] at h
    split at h
    · cases h
      apply buildFrom_forall (fun x => x.e = buf.chars.length ∨ buf.bow[x.e]? = some true) ps lex buf _ [] nodes ?_ (by intro x hx; cases hx) hb
      intro p new hs
      have hp : p < buf.chars.length := by rw [← hwf.cats_len]; exact stepAt_index ps lex buf p new hs
      apply stepAt_forall (fun x => x.e = buf.chars.length ∨ buf.bow[x.e]? = some true) ps lex buf p new ?_ ?_ hs
      · intro x hx; exact lexNodes_end_bow lex buf p x hx hwf.bow_len
      · intro q hq c ex out hprov x hx
        obtain ⟨cfg, rfl⟩ := hall q hq
        exact (simpleProvide_ok cfg buf p c out hwf hp hprov x hx).2
    · cases h

/-- **False as soon as a class-driven provider is configured** — and the provider list IS run at such a position,
because the builder tests the class of the character, not `can_bow`.  Witness with the behaviour lines of the shipped
char.def (`ALPHA 1 1 0`, `GREEK 1 1 0`), text `a` U+200D `Ω` (ALPHA, ALL|NOOOVBOW2, GREEK): the grouped ALPHA candidate
covers `a` + joiner (class ALL keeps ALPHA in common), so position 2 has a previous node although `can_bow` is false
there (it follows a NOOOVBOW2 character); its class is GREEK, the providers are asked, MeCab answers: an OOV word begins
right after the joiner.  (Had the builder tested `can_bow`, the loop would have been skipped and the fallback node
`Ω` inserted instead — the mutation the harness is required to catch.) -/
theorem providers_asked_where_can_bow_is_false_counterexample :
    let buf : Buf := ⟨[97, 8205, 937], [32, 3221225471, 512], [2, 1, 1], [true, false, false]⟩
    let mecab : MecabCfg := ⟨[(32, ⟨32, true, true, 0⟩), (512, ⟨512, true, true, 0⟩)], [(32, [⟨1, 1, 100, 0⟩]), (512, [⟨2, 2, 200, 1⟩])], false⟩
    let ps := [Provider.mecab mecab, Provider.simple ⟨5, 5, 7000, 3⟩]
    bowTableFix buf.cats = buf.bow ∧ bowTable buf.cats = buf.bow ∧
    buf.bow[2]? = some false ∧
    stepAtT ps [] buf 2 = .ok ⟨2, true, [],
      [⟨0, 2, 0, 0, [⟨2, 3, 2, 2, 200, true, 1⟩]⟩, ⟨1, 2, 1, 1, []⟩], none, [⟨2, 3, 2, 2, 200, true, 1⟩]⟩ ∧
    buildLattice ps [] buf = .ok [⟨0, 2, 1, 1, 100, true, 0⟩, ⟨2, 3, 2, 2, 200, true, 1⟩] ∧
    ¬ (∀ x ∈ [(⟨0, 2, 1, 1, 100, true, 0⟩ : Node), ⟨2, 3, 2, 2, 200, true, 1⟩], x.e = 3 ∨ buf.bow[x.e]? = some true) := by
  decide

/-- the run table of the witness is the one the (forward) run computation gives -/
example : fillCatContinuityForward [32, 3221225471, 512] = [2, 1, 1] := by
  simp [fillCatContinuityForward, scan, countdown]

/-- the same for a letter that continues a word (`can_bow` false inside an ALPHA stretch): with one-character ALPHA
candidates (`ALPHA 1 0 1`) position 1 of `ab` is reached and the providers are asked there; and at a NOOOVBOW2
character that is reached (`a` U+200D with `ALPHA 1 0 1`) the loop is skipped and the LAST provider is called once with
an empty mask — here the fallback, which reaches to the end of the text. -/
theorem letter_continuation_and_joiner_example :
    let mecab : MecabCfg := ⟨[(32, ⟨32, true, false, 1⟩)], [(32, [⟨1, 1, 100, 0⟩])], false⟩
    let ps := [Provider.mecab mecab, Provider.simple ⟨5, 5, 7000, 3⟩]
    stepAtT ps [] ⟨[97, 98], [32, 32], [2, 1], [true, false]⟩ 1 =
      .ok ⟨1, true, [], [⟨0, 1, 0, 0, [⟨1, 2, 1, 1, 100, true, 0⟩]⟩, ⟨1, 1, 1, 1, []⟩], none, [⟨1, 2, 1, 1, 100, true, 0⟩]⟩ ∧
    stepAtT ps [] ⟨[97, 8205], [32, 3221225471], [2, 1], [true, false]⟩ 1 =
      .ok ⟨1, false, [], [], some ⟨1, 1, 0, 0, [⟨1, 2, 5, 5, 7000, true, 3⟩]⟩, [⟨1, 2, 5, 5, 7000, true, 3⟩]⟩ := by
  decide

end C13

namespace C13
open Oov

/-! ## "for each class of the character": which classes `CategoryType::iter` visits -/

/-- **Full statement for the named single classes** (was trusted): the iteration over the classes of a character
(`flagsIter`, the transcription of bitflags 2.5 `Flags::iter`, whose elements are the `ct` of `mecab_candidates_spec`)
visits DEFAULT … USER4 (bits 0–14), NOOOVBOW (bit 30) and NOOOVBOW2 (bit 31) exactly when the character has that
class — for every class set.  (Order of the visit, the composite key `ALL` and the left-over value: `class_iteration_order`
below.) -/
theorem class_iteration_visits_named_classes (cat i : Nat) (hi : i < 15 ∨ i = 30 ∨ i = 31) :
    2 ^ i ∈ flagsIter cat ↔ cat.testBit i = true :=
  flagsIter_named_bit cat i hi

/-- non-vacuity: KANJI|HIRAGANA visits KANJI (bit 2) and HIRAGANA (bit 6) in declaration order; a class-ALL
NOOOVBOW2 character (the joiner) visits the fifteen classes, NOOOVBOW2 and then `ALL` -/
example : flagsIter 68 = [4, 64] ∧
    flagsIter 3221225471 = [1, 2, 4, 8, 16, 32, 64, 128, 256, 512, 1024, 2048, 4096, 8192, 16384, 2147483648, 1073741823] := by
  decide

end C13

namespace C13
open Oov

/-! ## third round: the class iteration completely, the per-class length limit, the readers, failing runs -/

/-- **`CategoryType::iter` in closed form — order, composite key, left-over value** (were "by correspondence only").
For every 32-bit class set the iteration yields: the named single classes the set contains in ASCENDING BIT INDEX
(DEFAULT = bit 0 … USER4 = bit 14, NOOOVBOW = 30, NOOOVBOW2 = 31); then the composite key `ALL` iff the set contains all
thirty bits of `ALL`; and if it does not, the bits 15..29 that are set — they belong to no named single class and can
only come from a hex literal in char.def — as ONE final value.  This is the list of `ct` the MeCab provider visits, in
the order it visits them (`mecab_candidates_in_class_order`). -/
theorem class_iteration_order (cat : Nat) (h32 : cat < 2 ^ 32) :
    flagsIter cat =
      ((List.range 32).filter (fun i => cat.testBit i && (i < 15 || i == 30 || i == 31))).map (2 ^ ·) ++
      (if cat &&& ALL = ALL then [ALL] else if cat &&& unnamedMask = 0 then [] else [cat &&& unnamedMask]) := by
  rw [flagsIter_eq cat h32, namedBits_ascending, List.filter_filter]

/-- non-vacuity: a two-class set, a class-ALL mark, a set with an unnamed bit (KANJI|0x8000), only unnamed bits -/
example : (68 : Nat) < 2 ^ 32 ∧ flagsIter 68 = [4, 64] ∧ flagsIter (4 ||| 32768) = [4, 32768] ∧ flagsIter 98304 = [98304] ∧
    flagsIter 2147483647 = [1, 2, 4, 8, 16, 32, 64, 128, 256, 512, 1024, 2048, 4096, 8192, 16384, 1073741824, 1073741823] := by
  decide

/-- **The candidates come class by class, in that order**: inside the text the MeCab provider returns exactly the
concatenation, over the classes of the character in iteration order, of the candidates of each class. -/
theorem mecab_candidates_in_class_order (cfg : MecabCfg) (buf : Buf) (o created charLen cat : Nat)
    (h1 : buf.cont[o]? = some charLen) (h2 : buf.cats[o]? = some cat) (h0 : charLen ≠ 0) :
    mecabProvide cfg buf o created = .ok ((flagsIter cat).flatMap (mecabClass cfg buf.chars.length o charLen created)) := by
  simp [mecabProvide, h1, h2, h0]

/-- **Classes without a behaviour line: no candidates, no panic** (`None => continue`).  (1) Inside the text the provider
always answers `Ok` — for every class set, named or not; (2) a visited class without a `CLASS i g n` line contributes
nothing — in particular the left-over value of `class_iteration_order`, for which no line can be written by name;
(3) if no visited class has a line the answer is `Ok` without nodes. -/
theorem classes_without_behaviour_line (cfg : MecabCfg) (buf : Buf) (o created : Nat) :
    (o < buf.cont.length → o < buf.cats.length → ∃ nodes, mecabProvide cfg buf o created = .ok nodes) ∧
    (∀ n cl ct, findKey ct cfg.cats = none → mecabClass cfg n o cl created ct = []) ∧
    (∀ charLen cat, buf.cont[o]? = some charLen → buf.cats[o]? = some cat →
      (∀ ct ∈ flagsIter cat, findKey ct cfg.cats = none) → mecabProvide cfg buf o created = .ok []) :=
  ⟨fun h1 h2 => mecabProvide_total cfg buf o created h1 h2,
   fun n cl ct h => mecabClass_no_line cfg n o cl created ct h,
   fun charLen cat h1 h2 hno => mecabProvide_no_lines cfg buf o created charLen cat h1 h2 hno⟩

/-- non-vacuity: KANJI|0x8000 with a line for HIRAGANA only — the provider is asked inside the text and returns nothing -/
example : mecabProvide ⟨[(64, ⟨64, true, true, 2⟩)], [(64, [⟨1, 1, 5, 0⟩])], false⟩ ⟨[28450], [32772], [1], [true]⟩ 0 0 = .ok [] ∧
    (∀ ct ∈ flagsIter 32772, findKey ct [(64, (⟨64, true, true, 2⟩ : CatInfo))] = none) := by decide

/-- **The 1..n length limit is per class** (task (1); seeded change C13c moved it out of the per-class loop).
(a) The candidates of a class are a function of that class's OWN behaviour line and unknown-word lines: two
configurations that agree on them give the same candidates for the class, whatever they say about the other classes of
the character (GROUP of a lower-bit class included).  (b) A class that does NOT group and is invoked gets, for every
unknown-word line, the candidate spanning the whole run when LENGTH ≥ run and the run stays inside the text.  (c) A class
that groups gets the run-length candidate once (the grouped one); its 1..n candidates are strictly shorter. -/
theorem mecab_length_limit_is_per_class (cfg : MecabCfg) (n o cl created ct : Nat) :
    (∀ cfg' : MecabCfg, findKey ct cfg.cats = findKey ct cfg'.cats →
      (∀ ci, findKey ct cfg.cats = some ci → findKey ci.ctype cfg.oovs = findKey ci.ctype cfg'.oovs) →
      cfg.stopAtEnd = cfg'.stopAtEnd →
      mecabClass cfg n o cl created ct = mecabClass cfg' n o cl created ct) ∧
    (∀ ci oovs d, findKey ct cfg.cats = some ci → (ci.invoke = true ∨ created = 0) → ci.group = false →
      findKey ci.ctype cfg.oovs = some oovs → d ∈ oovs → 1 ≤ cl → cl ≤ ci.length → o + cl ≤ n →
      mkNode o (o + cl) d ∈ mecabClass cfg n o cl created ct) ∧
    (∀ ci x, findKey ct cfg.cats = some ci → ci.group = true → 1 ≤ cl → x ∈ mecabClass cfg n o cl created ct →
      x.b = o ∧ (x.e = o + cl ∨ x.e < o + cl)) :=
  ⟨fun cfg' h1 h2 h3 => mecabClass_congr cfg cfg' n o cl created ct h1 h2 h3,
   fun ci oovs d h1 h2 h3 h4 h5 h6 h7 h8 => mem_mecabClass_full_run cfg n o cl created ct ci oovs d h1 h2 h3 h4 h5 h6 h7 h8,
   fun ci x h1 h2 h3 h4 => mecabClass_grouped_lengths cfg n o cl created ct ci x h1 h2 h3 h4⟩

/-- the witness of the seeded change, kernel-checked: `HIRAGANA 0 1 2`, `KATAKANA 1 0 2`, U+30FC = HIRAGANA|KATAKANA, text
`ーー京`.  At offset 0 (run 2) the four prescribed candidates — HIRAGANA grouped `[0,2)` and `[0,1)` (its budget is run-1),
KATAKANA `[0,1)` AND `[0,2)` (its own budget is the run) —, at offset 1 (run 1) HIRAGANA grouped and KATAKANA `[1,2)`. -/
theorem mecab_mixed_group_example :
    let cfg : MecabCfg := ⟨[(64, ⟨64, false, true, 2⟩), (128, ⟨128, true, false, 2⟩), (4, ⟨4, false, false, 1⟩)],
      [(64, [⟨1, 1, 20000, 0⟩]), (128, [⟨2, 3, 100, 5⟩]), (4, [⟨4, 4, 300, 0⟩])], false⟩
    let buf : Buf := ⟨[12540, 12540, 20140], [192, 192, 4], [2, 1, 1], [true, true, true]⟩
    mecabProvide cfg buf 0 0 = .ok [⟨0, 2, 1, 1, 20000, true, 0⟩, ⟨0, 1, 1, 1, 20000, true, 0⟩,
                                    ⟨0, 1, 2, 3, 100, true, 5⟩, ⟨0, 2, 2, 3, 100, true, 5⟩] ∧
    mecabProvide cfg buf 1 0 = .ok [⟨1, 2, 1, 1, 20000, true, 0⟩, ⟨1, 2, 2, 3, 100, true, 5⟩] ∧
    fillCatContinuityForward buf.cats = buf.cont := by
  refine ⟨by decide, by decide, ?_⟩
  simp [fillCatContinuityForward, scan, countdown]

/-! ### the end of the text: candidates pushed more than once (finding) and the repair -/

/-- **Finding (pinned code)**: at the end of the text `char_distance` saturates, so `for i in 1..=LENGTH` keeps meeting the
test `sublength > llength` with the SAME `sublength` and pushes the last candidate again for every further `i`.  Witness
with the shipped line `KANJI 0 0 2` on a text that ends in a kanji (here the text `京`): the one-character candidate is
returned twice (with LENGTH = n, n times; with a large LENGTH the call does not return in reasonable time).  The repaired
loop (`stopAtEnd`, test `sublength > llength || sublength < i`) returns it once. -/
theorem mecab_text_end_duplicates_counterexample :
    mecabProvide ⟨[(4, ⟨4, false, false, 2⟩)], [(4, [⟨2, 2, 14657, 0⟩])], false⟩ ⟨[20140], [4], [1], [true]⟩ 0 0 =
      .ok [⟨0, 1, 2, 2, 14657, true, 0⟩, ⟨0, 1, 2, 2, 14657, true, 0⟩] ∧
    mecabProvide ⟨[(4, ⟨4, false, false, 2⟩)], [(4, [⟨2, 2, 14657, 0⟩])], true⟩ ⟨[20140], [4], [1], [true]⟩ 0 0 =
      .ok [⟨0, 1, 2, 2, 14657, true, 0⟩] := by
  decide

/-- **Full statement for the repaired loop**: the candidates of 1..n characters are, for every text, offset, budget and
LENGTH, exactly one candidate per unknown-word line for each length `i = 1 … min(LENGTH, budget, characters left)`, in
increasing order — "candidates of 1..n characters within the run", each once.  (The SET of candidates is the same for
both variants: `mecab_candidates_spec`, whose side condition for the repaired loop only excludes lengths the text does
not have, i.e. candidates that repeat a shorter one.) -/
theorem mecab_fix_each_length_once (oovs : List OovDef) (o n budget length : Nat) :
    lenLoop true oovs o n budget length 1 =
      (List.range' 1 (min length (min budget (n - o)))).flatMap (fun i => oovs.map (mkNode o (o + i))) := by
  have := lenLoop_stop_eq oovs o n budget length 1 (Nat.le_refl 1)
  simpa using this

/-! ### the definition-file readers (were "transcribed, validated by correspondence only") -/

/-- **`read_character_property` is total and equals the declarative description of char.def's behaviour lines.**
Every line is, on its own (`classifyProp`): skipped (blank, `#…`, a `0x…` range line), malformed (fewer than four
white-space separated columns, a class expression that is not names / hex literals joined by `|`, a LENGTH that is not
a `u32`), or one entry `CLASS INVOKE GROUP LENGTH` (flags set iff the column is exactly `1`, further columns ignored).
The reader returns a table **iff** no line is malformed and no class key is defined twice, and the table is then exactly
the entries in file order; otherwise it returns `Err` (nothing else can happen: the function is total).  `ws` is what
`str::trim` / `split_whitespace` treat as white space: the statement holds for every such predicate; the driver runs the
reader on the DECODED file (`linesU`: a line that is not UTF-8 is `Err`) with Unicode `White_Space` (`isWsU`). -/
theorem read_character_property_spec (ws : Char → Bool) (lines : List (List Char)) (T : List (Nat × CatInfo)) :
    readCharPropW ws lines [] = some T ↔
      (∀ l ∈ lines, classifyProp ws l ≠ .bad) ∧ T = lines.filterMap (entryOfProp ws) ∧ (T.map (·.1)).Nodup := by
  have := readCharProp_iff ws lines [] T (by simp)
  simpa using this

/-- **`read_oov` is total and equals the declarative description of unk.def.**  Every line is, on its own
(`classifyUnk`): skipped (blank, `#…`), malformed, or one entry `CLASS,LEFT,RIGHT,COST,POS×6[,…]`.  (1) The reader returns
a table iff no line is malformed, and then the table is the entries pushed in file order; (2) in that table the class keys
are pairwise different and every key holds the definitions of exactly the lines of that key, in file order (a key without
line is absent) — the `oovs` of `mecab_candidates_spec`; (3) an accepted line names a class that has a behaviour line, a
part of speech of the dictionary, and connection ids inside the matrix (strictly inside after the repair of D15b). -/
theorem read_oov_spec (ws : Char → Bool) (ge : Bool) (cats : List (Nat × CatInfo)) (pos : List (List (List Char))) (nl nr : Nat)
    (lines : List (List Char)) (T : List (Nat × List OovDef)) :
    (readOov ws ge cats pos nl nr lines [] = some T ↔
      (∀ l ∈ lines, classifyUnk ws ge cats pos nl nr l ≠ .bad) ∧
      T = pushAll (lines.filterMap (entryOfUnk ws ge cats pos nl nr)) []) ∧
    (readOov ws ge cats pos nl nr lines [] = some T →
      (T.map (·.1)).Nodup ∧
      ∀ k, findKey k T =
        (if (lines.filterMap (entryOfUnk ws ge cats pos nl nr)).filter (fun e => e.1 == k) = [] then none
         else some (((lines.filterMap (entryOfUnk ws ge cats pos nl nr)).filter (fun e => e.1 == k)).map (·.2)))) ∧
    (∀ l k d, classifyUnk ws ge cats pos nl nr l = .entry k d →
      (findKey k cats).isSome = true ∧ d.l ≤ nl ∧ d.r ≤ nr ∧ (ge = true → d.l < nl ∧ d.r < nr) ∧ d.pos < pos.length) := by
  refine ⟨readOov_iff ws ge cats pos nl nr lines [] T, ?_, fun l k d h => classifyUnk_entry ws ge cats pos nl nr l k d h⟩
  intro h
  obtain ⟨_, hT⟩ := (readOov_iff ws ge cats pos nl nr lines [] T).mp h
  subst hT
  refine ⟨nodup_keys_pushAll _ [] (by simp), fun k => ?_⟩
  rw [findKey_pushAll]
  simp [findKey]

/-- the column splitters of the two readers: `split_whitespace` yields non-empty white-space-free columns whose
concatenation is the line without its white space; `split(',')` yields at least one piece, no piece contains a comma, and
the pieces joined by commas are the line -/
theorem definition_columns_spec (ws : Char → Bool) (line : List Char) :
    ((∀ w ∈ wordsW ws line, w ≠ [] ∧ ∀ c ∈ w, ws c = false) ∧
      (wordsW ws line).flatten = line.filter (fun c => !ws c)) ∧
    (Wire.splitOn ',' line ≠ [] ∧ (∀ w ∈ Wire.splitOn ',' line, ',' ∉ w) ∧ joinSep ',' (Wire.splitOn ',' line) = line) :=
  ⟨words_spec ws line, splitOn_spec ',' line⟩

/-- non-vacuity of the reader specifications on concrete files, decoded as the driver does and read with Unicode white
space: a behaviour line with a hex-literal key, `+` sign, tab, U+3000 as a column separator, a comment and a range line;
a duplicate key is rejected; an unk.def with two lines of one class, CRLF, a hex key and an id equal to the matrix size
(accepted by the pinned `>`, rejected by the repaired `>=`); a line that is not UTF-8 makes the file unreadable -/
example :
    readCharPropW isWsU (lines "KANJI|0x4\t1 x +2 # c\n0x41 ALPHA\n\n  # c\nALL\u3000 0 1 0".toList) [] =
      some [(4, ⟨4, true, false, 2⟩), (1073741823, ⟨1073741823, false, true, 0⟩)] ∧
    readCharPropW isWsU (lines "KANJI 1 0 2\nKANJI|KANJI 0 0 0\n".toList) [] = none ∧
    readCharPropW isWsU (lines "KANJI 1 0 4294967296\n".toList) [] = none ∧
    readCharPropW Wire.isWs (lines "ALL\u3000 0 1 0".toList) [] = none := by
  decide

example :
    let cats : List (Nat × CatInfo) := [(4, ⟨4, true, false, 2⟩), (32, ⟨32, true, true, 0⟩)]
    let pos := [["N".toList, "a".toList, "*".toList, "*".toList, "*".toList, "*".toList]]
    readOov isWsU true cats pos 3 3 (lines "KANJI,1,2,-5,N,a,*,*,*,*\r\nALPHA,0,0,7,N,a,*,*,*,*,extra\n 0x4 ,+2,0,0,N,a,*,*,*,*\n".toList) [] =
      some [(4, [⟨1, 2, -5, 0⟩, ⟨2, 0, 0, 0⟩]), (32, [⟨0, 0, 7, 0⟩])] ∧
    readOov isWsU true cats pos 3 3 (lines "KANJI,3,0,0,N,a,*,*,*,*\n".toList) [] = none ∧
    (readOov isWsU false cats pos 3 3 (lines "KANJI,3,0,0,N,a,*,*,*,*\n".toList) []).isSome = true ∧
    linesU (bytesToChars [35, 32, 255, 10]) = none ∧ linesU (bytesToChars [35, 237, 160, 128]) = none ∧
    linesU (bytesToChars [35, 192, 128]) = none ∧ linesU (bytesToChars [35, 227, 129]) = none ∧
    linesU (bytesToChars [227, 128, 128, 13, 10, 240, 159, 145, 141]) = some [[Char.ofNat 12288], [Char.ofNat 128077]] := by
  decide

/-! ### runs that fail: the calls made before the failure are part of the answer -/

/-- **The builder whose answer includes the calls of a failing run is the builder of the theorems**: its outcome is
`buildLattice`'s for every input, and on success its calls are exactly those of the recorded builder `buildLatticeT`
(`recorded_builder_is_builder`).  The driver prints `buildLatticeP`. -/
theorem failing_run_trace_is_builder (ps : List Provider) (lex : List Word) (buf : Buf) :
    (buildLatticeP ps lex buf).2 = buildLattice ps lex buf ∧
    ∀ nodes tr, buildLatticeT ps lex buf = .ok (nodes, tr) → buildLatticeP ps lex buf = (allCalls tr, .ok nodes) :=
  ⟨buildLatticeP_outcome ps lex buf, fun nodes tr h => buildLatticeP_calls ps lex buf nodes tr h⟩

/-- **Full statement: what the trace of a failing run is.**  For a well-formed buffer `build_lattice` can only fail with
`EosBosDisconnect`; it fails inside the position loop, never in `connect_eos`, at a position `p` inside the text that has
no dictionary word; the calls reported are those of the earlier positions followed by the calls at `p`: the complete
provider list in configured order iff the class of the character let it run, each provider with an empty mask and an
empty buffer and without result, and finally the extra call of the last provider — again empty mask, empty buffer, no
result. -/
theorem failing_run_trace_spec (ps : List Provider) (lex : List Word) (buf : Buf) (hwf : buf.WF) (cs : List Call) (k : String)
    (h : buildLatticeP ps lex buf = (cs, .err k)) :
    k = "Disconnect" ∧
    ∃ p, p < buf.chars.length ∧ lexNodes lex buf p = [] ∧
      ∃ pre cat loop c, cs = pre ++ (loop ++ [c]) ∧ buf.cats[p]? = some cat ∧ c.idx = ps.length - 1 ∧
        loop.map (·.idx) = (if asksProviders cat then List.range ps.length else []) ∧
        ∀ x ∈ loop ++ [c], x.out = [] ∧ x.offset = p ∧ x.created = 0 ∧ x.pre = 0 := by
  obtain ⟨p, hp, pre, last, hcs, hstep⟩ := buildLatticeP_err ps lex buf hwf cs k h
  obtain ⟨hk, hlex, cat, loop, c, hcat, hlast, hidx, hloop, hall⟩ := stepAtP_err ps lex buf p last k hstep
  subst hlast
  exact ⟨hk, p, hp, hlex, pre, cat, loop, c, hcs, hcat, hidx, hloop, hall⟩

/-- non-vacuity of `hwf` for the buffer of the next example -/
example : (⟨[97, 12354, 28450], [32, 64, 4], [1, 1, 1], [true, true, true]⟩ : Buf).WF :=
  ⟨rfl, rfl, rfl, by
    intro i c h
    match i, h with
    | 0, h => cases h; decide
    | 1, h => cases h; decide
    | 2, h => cases h; decide
    | n + 3, h => simp at h⟩

/-- non-vacuity: MeCab as the only provider on `a` `あ` `漢` with lines for ALPHA and HIRAGANA only — the run fails at
position 2 after one fruitful call at 0, one at 1 and two fruitless calls at 2 -/
example :
    let cfg : MecabCfg := ⟨[(32, ⟨32, true, true, 0⟩), (64, ⟨64, false, false, 1⟩)], [(32, [⟨1, 1, 1, 0⟩]), (64, [⟨2, 2, 2, 0⟩])], false⟩
    let buf : Buf := ⟨[97, 12354, 28450], [32, 64, 4], [1, 1, 1], [true, true, true]⟩
    buildLatticeP [Provider.mecab cfg] [] buf =
      ([⟨0, 0, 0, 0, [⟨0, 1, 1, 1, 1, true, 0⟩]⟩, ⟨0, 1, 0, 0, [⟨1, 2, 2, 2, 2, true, 0⟩]⟩, ⟨0, 2, 0, 0, []⟩, ⟨0, 2, 0, 0, []⟩],
       .err "Disconnect") := by
  decide

/-! ## round e: the fallback length on the byte tables of a LONG-LIVED buffer (`Model/OovTables.lean`)

The theorems above speak about one built buffer with one value per character (`Buf`).  The Rust object is recycled and its
word-start table has one entry per byte; `get_word_candidate_length` looks it up through `mod_c2b`. -/

/-- Clause "reaching to the next permissible word start", for `get_word_candidate_length` as written (loop over the following
CHARACTERS, `can_bow(mod_c2b[i])`), on ANY contents of the tables - in particular whatever the bytes inside multi-byte characters
hold: if the look-up is defined at every character of the text (`built_tables_lookups_defined` for built tables), the function
returns `k ≥ 1` inside the text such that no character strictly between may start a word and character `idx + k` may, or is the
end of the text. -/
theorem word_candidate_length_spec (t : Tables) (idx : Nat) (h : idx < t.chars.length)
    (hdef : ∀ j, j < t.chars.length → ∃ b, t.canBowChar j = some b) :
    ∃ k, t.wordCandidateLength idx = some k ∧ 1 ≤ k ∧ idx + k ≤ t.chars.length ∧
      (∀ j, idx < j → j < idx + k → t.canBowChar j = some false) ∧
      (idx + k = t.chars.length ∨ t.canBowChar (idx + k) = some true) :=
  tables_wordCandidateLength_spec t idx h hdef

/-- non-vacuity, with STALE `true` bytes inside the characters (U+3091 U+30A1 U+3091: three bytes each, the small kana may not
start a word): the hypothesis holds and the answer is 2, the stale bytes are never read -/
example :
    let t : Tables := ⟨[12433, 12449, 12433], [0, 3, 6, 9], [0, 0, 0, 1, 1, 1, 2, 2, 2, 3],
      [true, true, true, false, true, true, true, true, true], [1, 1073741952, 1], [1, 1, 1]⟩
    (∀ j, j < t.chars.length → ∃ b, t.canBowChar j = some b) ∧ t.wordCandidateLength 0 = some 2 := by
  refine ⟨?_, by decide⟩
  intro j hj
  have : j = 0 ∨ j = 1 ∨ j = 2 := by simp at hj; omega
  rcases this with h | h | h <;> subst h <;> simp [Tables.canBowChar, Tables.canBow]

/-- The reset/build discipline (`reset`: every table `clear()`ed; `build`: `mod_bow.resize(len, false)` + one write per character
start, `mod_cat.push`, `mod_cat_continuity.resize(len, 1)` + every index written): one analysis on an object that holds ANY previous
table contents leaves exactly the tables a new object gets. -/
theorem build_ignores_previous_tables (v : Variant) (bowFix : Bool) (t : Tables) (chars cats : List Nat) :
    t.next v bowFix chars cats = Tables.empty.next v bowFix chars cats := rfl

/-- … and those tables are the per-character buffer of the theorems above spread over the bytes: `mod_cat`, `mod_cat_continuity` are
`buf.cats`, `buf.cont`; `mod_bow` is `buf.bow` at the character starts and `false` inside the characters (`bowBytes`, what the driver
prints as `bow=`). `build` does not panic (no write out of range). -/
theorem recycled_build_is_fresh_buffer (v : Variant) (bowFix : Bool) (tab : List (Nat × Nat)) (chars : List Nat) (buf : Buf)
    (hb : mkBufV v bowFix tab chars = some buf) (t : Tables) :
    t.next v bowFix chars buf.cats = some
      { chars := buf.chars, c2b := c2bFrom 0 chars, b2c := b2cFrom 0 chars ++ [(chars.length - 1) + 1],
        bow := bowBytes buf.chars buf.bow, cat := buf.cats, cont := buf.cont } := by
  unfold mkBufV at hb
  cases hc : Wire.allSome (chars.map (CharCat.lookup tab)) with
  | none => simp [hc] at hb
  | some cats =>
    simp only [hc, Option.some.injEq] at hb
    subst hb
    have hl : cats.length = chars.length := by have := allSome_length _ _ hc; simpa using this
    exact next_eq v bowFix t chars cats hl

example : (⟨[97], [0, 1], [0, 1], [true], [32], [1]⟩ : Tables).next .forward true [12433, 12449, 12433] [1, 1073741952, 1]
    = Tables.empty.next .forward true [12433, 12449, 12433] [1, 1073741952, 1] := rfl

/-- the look-ups of `word_candidate_length_spec` are defined on the tables of every built text, and they are the word-start flags
`build` computed for the characters -/
theorem built_tables_lookups_defined (v : Variant) (bowFix : Bool) (t t' : Tables) (chars cats : List Nat)
    (h : cats.length = chars.length) (ht : t.next v bowFix chars cats = some t') :
    t'.chars = chars ∧ ∀ j, j < chars.length →
      t'.canBowChar j = (if bowFix then bowTableFix cats else bowTable cats)[j]? ∧ ∃ b, t'.canBowChar j = some b := by
  have hfl : (if bowFix then bowTableFix cats else bowTable cats).length = chars.length := by
    split <;> simp [bowTableFix, bowTable, bowGo, bowGoV_length, h]
  refine ⟨?_, ?_⟩
  · rw [next_eq v bowFix t chars cats h] at ht
    simp only [Option.some.injEq] at ht
    subst ht; rfl
  · intro j hj
    have e := next_canBowChar v bowFix t t' chars cats h ht j hj
    refine ⟨e, ?_⟩
    rw [e, List.getElem?_eq_getElem (by omega)]
    exact ⟨_, rfl⟩

/-- Clause "the fallback provider adds one candidate reaching to the next permissible word start exactly when nothing else was
produced", on a RECYCLED object: whatever the tables held before (`t` arbitrary), after `reset` + `build` of a text the Simple provider
asked inside the text returns nothing when something was created and otherwise exactly one node `[offset, offset + k)` with `k`
characterised by `NextStart` on the word-start flags of THIS text. -/
theorem simple_candidate_reaches_next_word_start (cfg : SimpleCfg) (v : Variant) (bowFix : Bool) (t : Tables) (chars cats : List Nat)
    (h : cats.length = chars.length) (offset : Nat) (ho : offset < chars.length) :
    ∃ t', t.next v bowFix chars cats = some t' ∧
      (∀ created, created ≠ 0 → simpleProvideT cfg t' offset created = .ok []) ∧
      ∃ k, NextStart (if bowFix then bowTableFix cats else bowTable cats) offset k ∧
        simpleProvideT cfg t' offset 0 = .ok [⟨offset, offset + k, cfg.l, cfg.r, cfg.c, true, cfg.pos⟩] := by
  have hfl : (if bowFix then bowTableFix cats else bowTable cats).length = chars.length := by
    split <;> simp [bowTableFix, bowTable, bowGo, bowGoV_length, h]
  refine ⟨_, next_eq v bowFix t chars cats h, ?_, ?_⟩
  · intro created hc; simp [simpleProvideT, hc]
  · obtain ⟨hch, hlook⟩ := built_tables_lookups_defined v bowFix t _ chars cats h (next_eq v bowFix t chars cats h)
    obtain ⟨k, h1, h2, h3, h4, h5⟩ := tables_wordCandidateLength_spec _ offset (by rw [hch]; exact ho)
      (by intro j hj; rw [hch] at hj; exact (hlook j hj).2)
    rw [hch] at h3 h5
    refine ⟨k, ⟨h2, by omega, ?_, ?_⟩, by simp [simpleProvideT, h1]⟩
    · intro j hj1 hj2
      rw [← (hlook j (by omega)).1]; exact h4 j hj1 hj2
    · rcases h5 with h5 | h5
      · left; omega
      · by_cases hk : offset + k < chars.length
        · right; rw [← (hlook _ hk).1]; exact h5
        · left; omega

/-- non-vacuity: after the ten one-byte characters of `1234567890` the object analyses U+3091 U+30A1 U+3091 (classes DEFAULT,
KATAKANA|NOOOVBOW, DEFAULT): the fallback candidate at 0 spans the small kana -/
example :
    (Tables.empty.next .forward true [49, 50, 51, 52, 53, 54, 55, 56, 57, 48] [1, 1, 1, 1, 1, 1, 1, 1, 1, 1]).bind
      (fun t => (t.next .forward true [12433, 12449, 12433] [1, 1073741952, 1]).map
        (fun t' => (t'.bow, simpleProvideT ⟨1, 2, 3, 4⟩ t' 0 0)))
    = some ([true, false, false, false, false, false, true, false, false], .ok [⟨0, 2, 1, 2, 3, true, 4⟩]) := by
  decide

/-- Why the discipline matters (seeded change C13e, two edits that are each behaviour preserving): with a `reset` that keeps
`mod_bow`, `build` leaves the bytes INSIDE the multi-byte characters as the earlier text wrote them - here `true` at bytes 1, 2, 4, 5,
7, 8 after `1234567890`.  The function as written does not read them (answer 2, as `word_candidate_length_spec` says for any
contents); a byte-wise scan of the table (`iter().position`, mapped back with `mod_b2c`) is right on the tables of a cleared object
(2) and wrong on the stale ones: it answers 1, the base character is cut from the small kana. -/
theorem stale_word_start_bytes_counterexample :
    let first := Tables.empty.next .forward true [49, 50, 51, 52, 53, 54, 55, 56, 57, 48] [1, 1, 1, 1, 1, 1, 1, 1, 1, 1]
    let view := fun (t' : Tables) => (t'.bow, t'.wordCandidateLength 0, t'.wordCandidateLengthByteScan 0)
    (first.bind (fun t => (t.next .forward true [12433, 12449, 12433] [1, 1073741952, 1]).map view)
      = some ([true, false, false, false, false, false, true, false, false], some 2, some 2)) ∧
    (first.bind (fun t => (t.nextKeepBow .forward true [12433, 12449, 12433] [1, 1073741952, 1]).map view)
      = some ([true, true, true, false, true, true, true, true, true], some 2, some 1)) := by
  decide

/-- The first edit of C13e ALONE is harmless for the function as written - for every text and every previous contents: after a
`reset` that keeps `mod_bow`, `build` succeeds and `get_word_candidate_length` (character-wise look-up) still returns the distance to
the next permissible word start of THIS text.  Together with `stale_word_start_bytes_counterexample` (the byte-wise scan on the same
tables answers 1 instead of 2): each edit preserves the behaviour, the two together do not. -/
theorem fallback_length_immune_to_stale_bytes (v : Variant) (bowFix : Bool) (t : Tables) (chars cats : List Nat)
    (h : cats.length = chars.length) (idx : Nat) (hi : idx < chars.length) :
    ∃ t', t.nextKeepBow v bowFix chars cats = some t' ∧
      ∃ k, t'.wordCandidateLength idx = some k ∧ NextStart (if bowFix then bowTableFix cats else bowTable cats) idx k := by
  have hfl : (if bowFix then bowTableFix cats else bowTable cats).length = chars.length := by
    split <;> simp [bowTableFix, bowTable, bowGo, bowGoV_length, h]
  obtain ⟨t', ht, hch, hlook⟩ := nextKeepBow_canBowChar v bowFix t chars cats h
  refine ⟨t', ht, ?_⟩
  obtain ⟨k, h1, h2, h3, h4, h5⟩ := tables_wordCandidateLength_spec t' idx (by rw [hch]; exact hi)
    (by intro j hj; rw [hch] at hj; rw [hlook j hj, List.getElem?_eq_getElem (by omega)]; exact ⟨_, rfl⟩)
  rw [hch] at h3 h5
  refine ⟨k, h1, h2, by omega, ?_, ?_⟩
  · intro j hj1 hj2
    rw [← hlook j (by omega)]; exact h4 j hj1 hj2
  · rcases h5 with h5 | h5
    · left; omega
    · by_cases hk : idx + k < chars.length
      · right; rw [← hlook _ hk]; exact h5
      · left; omega

example :
    (Tables.empty.next .forward true [49, 50, 51, 52, 53, 54, 55, 56, 57, 48] [1, 1, 1, 1, 1, 1, 1, 1, 1, 1]).bind
      (fun t => (t.nextKeepBow .forward true [12433, 12449, 12433] [1, 1073741952, 1]).map (fun t' => t'.wordCandidateLength 0))
    = some (some 2) := by decide

end C13
