import Sudachi.Proofs.CharCat
/-!
# C17 — Character classes of a code point are the union of all definitions covering it

Model: `CharCat.compile` (`character_category.rs: compile`, `collect_boundaries`) and
`CharCat.lookup` (`get_category_types`), which calls `CharCat.bsearch`, a transcription of the
standard library's `slice::binary_search_by` (rustc 1.95.0, the toolchain the harness is built with);
its documented contract (`searchIdx`, a linear scan) is PROVED of it (`binary_search_contract`), not
assumed.  Quantifiers: every list of definition lines that loads (each `begin < end`, which the loader
enforces) and every code point.
-/
namespace C17
open CharCat

/-- Full statement.  For every loaded definition `rs` and every code point `x`, the class set
reported by bisection over the compiled table is the union of the classes of all lines covering
`x`, or DEFAULT when that union is empty. -/
theorem lookup_compile_eq_union (rs : List CatRange) (hwf : ∀ r ∈ rs, r.b < r.e) (x : Nat) :
    lookup (compile rs) x = some (spec rs x) := by
  rw [lookup_eq_denF _ (sinc_compile rs), compile_correct rs hwf]

/-- **Bisection meets its contract.**  On every strictly increasing slice the transcribed
`binary_search_by` loop (halving `size`, branch-free `base` update, final three-way comparison)
returns exactly the contract value: `Ok(i)` with `l[i] = x`, else `Err` of the insertion point. -/
theorem binary_search_contract (l : List Nat) (hs : SInc l) (x : Nat) :
    bsearch l x = some (searchIdx l x) :=
  bsearch_eq_searchIdx l hs x

/-- what the contract value is: the flag says whether `x` occurs, the index is the number of
elements smaller than `x` (so `l[i] = x` on a hit), for every strictly increasing slice -/
theorem binary_search_meaning (l : List Nat) (hs : SInc l) (x : Nat) :
    ∃ i b, bsearch l x = some (i, b) ∧ i ≤ l.length ∧ (b = true ↔ l[i]? = some x) ∧ (b = true ↔ x ∈ l) ∧
      (∀ j (h : j < l.length), j < i → l[j] < x) ∧ (∀ j (h : j < l.length), i ≤ j → x ≤ l[j]) := by
  -- the lower bound exists: take the length of the prefix of elements `< x`
  have key : ∀ (l : List Nat), SInc l → ∃ k, k ≤ l.length ∧
      (∀ j (h : j < l.length), j < k → l[j] < x) ∧ (∀ j (h : j < l.length), k ≤ j → x ≤ l[j]) := by
    intro l
    induction l with
    | nil => intro _; exact ⟨0, by simp, by intro j h; simp at h, by intro j h; simp at h⟩
    | cons a as ih =>
      intro hs
      by_cases ha : a < x
      · obtain ⟨k, hk, h1, h2⟩ := ih hs.tail
        refine ⟨k + 1, by simpa using hk, ?_, ?_⟩
        · intro j h hj
          cases j with
          | zero => simpa using ha
          | succ j' => simpa using h1 j' (by simpa using h) (by omega)
        · intro j h hj
          cases j with
          | zero => omega
          | succ j' => simpa using h2 j' (by simpa using h) (by omega)
      · refine ⟨0, by simp, by intro j h hj; omega, ?_⟩
        intro j h _
        cases j with
        | zero => simp; omega
        | succ j' =>
          have := hs.head_lt _ (List.getElem_mem (by simpa using h : j' < as.length))
          simp only [List.getElem_cons_succ]; omega
  obtain ⟨k, hk, h1, h2⟩ := key l hs
  refine ⟨k, decide (l[k]? = some x), ?_, hk, by simp, ?_, h1, h2⟩
  · rw [bsearch_eq_searchIdx l hs, searchIdx_eq l x k hk h1 h2]
  · simp only [decide_eq_true_eq]
    constructor
    · intro h; exact List.mem_of_getElem? h
    · intro hx
      obtain ⟨j, hj, rfl⟩ := List.getElem_of_mem hx
      by_cases hjk : j < k
      · have := h1 j hj hjk; omega
      · by_cases hjk' : j = k
        · subst hjk'; exact List.getElem?_eq_getElem hj
        · have hkl : k < l.length := by omega
          have := sinc_getElem l hs k j hj (by omega)
          have := h2 k hkl (Nat.le_refl _)
          omega

/-- memory safety of the two `get_unchecked` calls of `binary_search_by`: for ANY slice (sorted or
not) and any key the transcribed loop never reads outside the slice -/
theorem binary_search_in_range (l : List Nat) (x : Nat) : bsearch l x ≠ none :=
  bsearch_in_range l x

/-- `compile`'s own `boundaries.binary_search(&range.begin)`: for every loaded line the search over the
collected boundaries is a hit (the `panic!("there can not be not found boundaries")` arm is
unreachable) at the position holding `begin` — the position `applyRange` finds by scanning (it is
unique, the boundaries being strictly increasing). -/
theorem compile_search_hits (rs : List CatRange) (r : CatRange) (hr : r ∈ rs) :
    ∃ i, bsearch (collectBoundaries rs) r.b = some (i, true) ∧ (collectBoundaries rs)[i]? = some r.b := by
  obtain ⟨i, b, h1, _, h3, h4, _, _⟩ := binary_search_meaning (collectBoundaries rs) (sinc_collect rs) r.b
  have hb : b = true := h4.mpr ((mem_collect rs r.b).mpr ⟨r, hr, Or.inl rfl⟩)
  subst hb
  exact ⟨i, h1, h3.mp rfl⟩

/-- `spec` really is the union: a class bit is reported iff some covering line carries it
(when at least one class is carried at all). -/
theorem spec_is_union (rs : List CatRange) (x k : Nat) (hne : unionAt rs x ≠ 0) :
    (spec rs x).testBit k = rs.any (fun r => decide (r.b ≤ x ∧ x < r.e) && r.c.testBit k) := by
  simp [spec, hne, testBit_unionAt]

theorem spec_default (rs : List CatRange) (x : Nat) (h : unionAt rs x = 0) :
    spec rs x = DEFAULT := by
  simp [spec, h]

/-- Independence of order, duplication, overlap and adjacency: two definitions whose lines cover
every code point with the same classes report the same classes everywhere. -/
theorem order_independent (rs rs' : List CatRange)
    (hwf : ∀ r ∈ rs, r.b < r.e) (hwf' : ∀ r ∈ rs', r.b < r.e)
    (hsame : ∀ x k, rs.any (fun r => decide (r.b ≤ x ∧ x < r.e) && r.c.testBit k) =
                    rs'.any (fun r => decide (r.b ≤ x ∧ x < r.e) && r.c.testBit k)) (x : Nat) :
    lookup (compile rs) x = lookup (compile rs') x := by
  rw [lookup_compile_eq_union rs hwf, lookup_compile_eq_union rs' hwf']
  have hu : unionAt rs x = unionAt rs' x := by
    apply Nat.eq_of_testBit_eq
    intro k
    rw [testBit_unionAt, testBit_unionAt, hsame]
  simp [spec, hu]

/-- permutation of the lines is a special case -/
theorem perm_independent (rs rs' : List CatRange) (hp : rs.Perm rs')
    (hwf : ∀ r ∈ rs, r.b < r.e) (x : Nat) :
    lookup (compile rs) x = lookup (compile rs') x := by
  apply order_independent rs rs' hwf (fun r hr => hwf r (hp.mem_iff.mpr hr))
  intro y k
  rw [Bool.eq_iff_iff]
  simp only [List.any_eq_true]
  constructor
  · rintro ⟨r, hr, h⟩; exact ⟨r, hp.mem_iff.mp hr, h⟩
  · rintro ⟨r, hr, h⟩; exact ⟨r, hp.mem_iff.mpr hr, h⟩

/-- non-vacuity: the overlapping example of DESIGN §2.3 (NUMERIC 0x30..0x39, KANJI 0x35,
SYMBOL 0x3A..0x40) meets the hypothesis and yields the hand-computed table. -/
example : (∀ r ∈ [⟨48, 58, 16⟩, ⟨53, 54, 4⟩, (⟨58, 65, 8⟩ : CatRange)], r.b < r.e) ∧
    compile [⟨48, 58, 16⟩, ⟨53, 54, 4⟩, ⟨58, 65, 8⟩] = [(48, 1), (53, 16), (54, 20), (58, 16), (65, 8)] ∧
    lookup (compile [⟨48, 58, 16⟩, ⟨53, 54, 4⟩, ⟨58, 65, 8⟩]) 53 = some 20 := by
  refine ⟨by decide, by decide, by decide⟩

/-- non-vacuity of `binary_search_contract`: hits, misses below / between / above, odd and even
lengths, the one-element and the empty slice -/
example : SInc [48, 53, 54, 58, 65] ∧
    bsearch [48, 53, 54, 58, 65] 53 = some (1, true) ∧ bsearch [48, 53, 54, 58, 65] 65 = some (4, true) ∧
    bsearch [48, 53, 54, 58, 65] 0 = some (0, false) ∧ bsearch [48, 53, 54, 58, 65] 57 = some (3, false) ∧
    bsearch [48, 53, 54, 58, 65] 66 = some (5, false) ∧ bsearch [48, 53, 54, 58] 54 = some (2, true) ∧
    bsearch [7] 7 = some (0, true) ∧ bsearch [7] 9 = some (1, false) ∧ bsearch [] 9 = some (0, false) := by
  refine ⟨by simp [SInc], by decide, by decide, by decide, by decide, by decide, by decide, by decide, by decide, by decide⟩

end C17
