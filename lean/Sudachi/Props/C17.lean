import Sudachi.Proofs.CharCat
/-!
# C17 — Character classes of a code point are the union of all definitions covering it

Model: `CharCat.compile` (`character_category.rs: compile`, `collect_boundaries`) and
`CharCat.lookup` (`get_category_types`, with `slice::binary_search` entered by its contract
`searchIdx`).  Quantifiers: every list of definition lines that loads (each `begin < end`, which
the loader enforces) and every code point.
-/
namespace C17
open CharCat

/-- Full statement.  For every loaded definition `rs` and every code point `x`, the class set
reported by bisection over the compiled table is the union of the classes of all lines covering
`x`, or DEFAULT when that union is empty. -/
theorem lookup_compile_eq_union (rs : List CatRange) (hwf : ∀ r ∈ rs, r.b < r.e) (x : Nat) :
    lookup (compile rs) x = some (spec rs x) := by
  rw [lookup_eq_denF _ (sinc_compile rs), compile_correct rs hwf]

/-- `spec` really is the union: a class bit is reported iff some covering line carries it
(when at least one class is carried at all). -/
theorem spec_is_union (rs : List CatRange) (x k : Nat) (hne : unionAt rs x ≠ 0) :
    (spec rs x).testBit k = rs.any (fun r => decide (r.b ≤ x ∧ x < r.e) && r.c.testBit k) := by
  simp [spec, hne, testBit_unionAt]

theorem spec_default (rs : List CatRange) (x : Nat) (h : unionAt rs x = 0) :
    spec rs x = DEFAULT := by
  simp [spec, h]

/-- Independence of order, duplication, overlap and adjacency: two definitions whose lines cover
every code point with the same classes report the same classes everywhere. -/
theorem order_independent (rs rs' : List CatRange)
    (hwf : ∀ r ∈ rs, r.b < r.e) (hwf' : ∀ r ∈ rs', r.b < r.e)
    (hsame : ∀ x k, rs.any (fun r => decide (r.b ≤ x ∧ x < r.e) && r.c.testBit k) =
                    rs'.any (fun r => decide (r.b ≤ x ∧ x < r.e) && r.c.testBit k)) (x : Nat) :
    lookup (compile rs) x = lookup (compile rs') x := by
  rw [lookup_compile_eq_union rs hwf, lookup_compile_eq_union rs' hwf']
  have hu : unionAt rs x = unionAt rs' x := by
    apply Nat.eq_of_testBit_eq
    intro k
    rw [testBit_unionAt, testBit_unionAt, hsame]
  simp [spec, hu]

/-- permutation of the lines is a special case -/
theorem perm_independent (rs rs' : List CatRange) (hp : rs.Perm rs')
    (hwf : ∀ r ∈ rs, r.b < r.e) (x : Nat) :
    lookup (compile rs) x = lookup (compile rs') x := by
  apply order_independent rs rs' hwf (fun r hr => hwf r (hp.mem_iff.mpr hr))
  intro y k
  rw [Bool.eq_iff_iff]
  simp only [List.any_eq_true]
  constructor
  · rintro ⟨r, hr, h⟩; exact ⟨r, hp.mem_iff.mp hr, h⟩
  · rintro ⟨r, hr, h⟩; exact ⟨r, hp.mem_iff.mpr hr, h⟩

/-- non-vacuity: the overlapping example of DESIGN §2.3 (NUMERIC 0x30..0x39, KANJI 0x35,
SYMBOL 0x3A..0x40) meets the hypothesis and yields the hand-computed table. -/
example : (∀ r ∈ [⟨48, 58, 16⟩, ⟨53, 54, 4⟩, (⟨58, 65, 8⟩ : CatRange)], r.b < r.e) ∧
    compile [⟨48, 58, 16⟩, ⟨53, 54, 4⟩, ⟨58, 65, 8⟩] = [(48, 1), (53, 16), (54, 20), (58, 16), (65, 8)] ∧
    lookup (compile [⟨48, 58, 16⟩, ⟨53, 54, 4⟩, ⟨58, 65, 8⟩]) 53 = some 20 := by
  refine ⟨by decide, by decide, by decide⟩

end C17
