import Sudachi.Proofs.CharCat
import Sudachi.Proofs.CharCatIter
import Sudachi.Proofs.CharCatRead
/-!
# C17 — Character classes of a code point are the union of all definitions covering it

Model: `CharCat.compile` (`character_category.rs: compile`, `collect_boundaries`) and
`CharCat.lookup` (`get_category_types`), which calls `CharCat.bsearch`, a transcription of the
standard library's `slice::binary_search_by` (rustc 1.95.0, the toolchain the harness is built with);
its documented contract (`searchIdx`, a linear scan) is PROVED of it (`binary_search_contract`), not
assumed.  Quantifiers: every list of definition lines that loads (each `begin < end`, which the loader
enforces — now a theorem, `loaded_ranges_wellformed`) and every code point.

Depth round.  The READER is in the model byte for byte (`readDef`: `BufRead::lines`, UTF-8 validation,
`trim`/`split_whitespace` with Unicode White_Space, `split("..")`, `trim_start_matches("0x")`,
`u32::from_str_radix` with its error kinds, the `+ 1` overflow, the range checks, the comment cut and
`CategoryType::from_str` = the bitflags flag-expression parser) and so is `CharacterCategory::iter()`
(`iterRanges`); the theorems below the line `-- depth round` speak about them.
-/
namespace C17
open CharCat

/-- Full statement.  For every loaded definition `rs` and every code point `x`, the class set
reported by bisection over the compiled table is the union of the classes of all lines covering
`x`, or DEFAULT when that union is empty. -/
theorem lookup_compile_eq_union (rs : List CatRange) (hwf : ∀ r ∈ rs, r.b < r.e) (x : Nat) :
    lookup (compile rs) x = some (spec rs x) := by
  rw [lookup_eq_denF _ (sinc_compile rs), compile_correct rs hwf]

/-- **Bisection meets its contract.**  On every strictly increasing slice the transcribed
`binary_search_by` loop (halving `size`, branch-free `base` update, final three-way comparison)
returns exactly the contract value: `Ok(i)` with `l[i] = x`, else `Err` of the insertion point. -/
theorem binary_search_contract (l : List Nat) (hs : SInc l) (x : Nat) :
    bsearch l x = some (searchIdx l x) :=
  bsearch_eq_searchIdx l hs x

/-- what the contract value is: the flag says whether `x` occurs, the index is the number of
elements smaller than `x` (so `l[i] = x` on a hit), for every strictly increasing slice -/
theorem binary_search_meaning (l : List Nat) (hs : SInc l) (x : Nat) :
    ∃ i b, bsearch l x = some (i, b) ∧ i ≤ l.length ∧ (b = true ↔ l[i]? = some x) ∧ (b = true ↔ x ∈ l) ∧
      (∀ j (h : j < l.length), j < i → l[j] < x) ∧ (∀ j (h : j < l.length), i ≤ j → x ≤ l[j]) := by
  -- the lower bound exists: take the length of the prefix of elements `< x`
  have key : ∀ (l : List Nat), SInc l → ∃ k, k ≤ l.length ∧
      (∀ j (h : j < l.length), j < k → l[j] < x) ∧ (∀ j (h : j < l.length), k ≤ j → x ≤ l[j]) := by
    intro l
    induction l with
    | nil => intro _; exact ⟨0, by simp, by intro j h; simp at h, by intro j h; simp at h⟩
    | cons a as ih =>
      intro hs
      by_cases ha : a < x
      · obtain ⟨k, hk, h1, h2⟩ := ih hs.tail
        refine ⟨k + 1, by simpa using hk, ?_, ?_⟩
        · intro j h hj
          cases j with
          | zero => simpa using ha
          | succ j' => simpa using h1 j' (by simpa using h) (by omega)
        · intro j h hj
          cases j with
          | zero => omega
          | succ j' => simpa using h2 j' (by simpa using h) (by omega)
      · refine ⟨0, by simp, by intro j h hj; omega, ?_⟩
        intro j h _
        cases j with
        | zero => simp; omega
        | succ j' =>
          have := hs.head_lt _ (List.getElem_mem (by simpa using h : j' < as.length))
          simp only [List.getElem_cons_succ]; omega
  obtain ⟨k, hk, h1, h2⟩ := key l hs
  refine ⟨k, decide (l[k]? = some x), ?_, hk, by simp, ?_, h1, h2⟩
  · rw [bsearch_eq_searchIdx l hs, searchIdx_eq l x k hk h1 h2]
  · simp only [decide_eq_true_eq]
    constructor
    · intro h; exact List.mem_of_getElem? h
    · intro hx
      obtain ⟨j, hj, rfl⟩ := List.getElem_of_mem hx
      by_cases hjk : j < k
      · have := h1 j hj hjk; omega
      · by_cases hjk' : j = k
        · subst hjk'; exact List.getElem?_eq_getElem hj
        · have hkl : k < l.length := by omega
          have := sinc_getElem l hs k j hj (by omega)
          have := h2 k hkl (Nat.le_refl _)
          omega

/-- memory safety of the two `get_unchecked` calls of `binary_search_by`: for ANY slice (sorted or
not) and any key the transcribed loop never reads outside the slice -/
theorem binary_search_in_range (l : List Nat) (x : Nat) : bsearch l x ≠ none :=
  bsearch_in_range l x

/-- `compile`'s own `boundaries.binary_search(&range.begin)`: for every loaded line the search over the
collected boundaries is a hit (the `panic!("there can not be not found boundaries")` arm is
unreachable) at the position holding `begin` — the position `applyRange` finds by scanning (it is
unique, the boundaries being strictly increasing). -/
theorem compile_search_hits (rs : List CatRange) (r : CatRange) (hr : r ∈ rs) :
    ∃ i, bsearch (collectBoundaries rs) r.b = some (i, true) ∧ (collectBoundaries rs)[i]? = some r.b := by
  obtain ⟨i, b, h1, _, h3, h4, _, _⟩ := binary_search_meaning (collectBoundaries rs) (sinc_collect rs) r.b
  have hb : b = true := h4.mpr ((mem_collect rs r.b).mpr ⟨r, hr, Or.inl rfl⟩)
  subst hb
  exact ⟨i, h1, h3.mp rfl⟩

/-- `spec` really is the union: a class bit is reported iff some covering line carries it
(when at least one class is carried at all). -/
theorem spec_is_union (rs : List CatRange) (x k : Nat) (hne : unionAt rs x ≠ 0) :
    (spec rs x).testBit k = rs.any (fun r => decide (r.b ≤ x ∧ x < r.e) && r.c.testBit k) := by
  simp [spec, hne, testBit_unionAt]

theorem spec_default (rs : List CatRange) (x : Nat) (h : unionAt rs x = 0) :
    spec rs x = DEFAULT := by
  simp [spec, h]

/-- Independence of order, duplication, overlap and adjacency: two definitions whose lines cover
every code point with the same classes report the same classes everywhere. -/
theorem order_independent (rs rs' : List CatRange)
    (hwf : ∀ r ∈ rs, r.b < r.e) (hwf' : ∀ r ∈ rs', r.b < r.e)
    (hsame : ∀ x k, rs.any (fun r => decide (r.b ≤ x ∧ x < r.e) && r.c.testBit k) =
                    rs'.any (fun r => decide (r.b ≤ x ∧ x < r.e) && r.c.testBit k)) (x : Nat) :
    lookup (compile rs) x = lookup (compile rs') x := by
  rw [lookup_compile_eq_union rs hwf, lookup_compile_eq_union rs' hwf']
  have hu : unionAt rs x = unionAt rs' x := by
    apply Nat.eq_of_testBit_eq
    intro k
    rw [testBit_unionAt, testBit_unionAt, hsame]
  simp [spec, hu]

/-- permutation of the lines is a special case -/
theorem perm_independent (rs rs' : List CatRange) (hp : rs.Perm rs')
    (hwf : ∀ r ∈ rs, r.b < r.e) (x : Nat) :
    lookup (compile rs) x = lookup (compile rs') x := by
  apply order_independent rs rs' hwf (fun r hr => hwf r (hp.mem_iff.mpr hr))
  intro y k
  rw [Bool.eq_iff_iff]
  simp only [List.any_eq_true]
  constructor
  · rintro ⟨r, hr, h⟩; exact ⟨r, hp.mem_iff.mp hr, h⟩
  · rintro ⟨r, hr, h⟩; exact ⟨r, hp.mem_iff.mpr hr, h⟩

-- depth round ------------------------------------------------------------------------------------

/-- `unionAt` is empty exactly when every covering line has an empty class list -/
theorem union_empty_iff (rs : List CatRange) (x : Nat) :
    unionAt rs x = 0 ↔ ∀ r ∈ rs, r.b ≤ x ∧ x < r.e → r.c = 0 := by
  have key : ∀ (rs : List CatRange) (acc : Nat),
      unionFrom acc rs x = 0 ↔ acc = 0 ∧ ∀ r ∈ rs, r.b ≤ x ∧ x < r.e → r.c = 0 := by
    intro rs
    induction rs with
    | nil => intro acc; simp [unionFrom]
    | cons r rs ih =>
      intro acc
      simp only [unionFrom, List.foldl_cons] at ih ⊢
      rw [ih]
      by_cases h : r.b ≤ x ∧ x < r.e
      · simp only [h, and_self, if_true, Nat.or_eq_zero_iff, List.mem_cons, forall_eq_or_imp, forall_const]
        constructor
        · rintro ⟨⟨h1, h2⟩, h3⟩; exact ⟨h1, h2, h3⟩
        · rintro ⟨h1, h2, h3⟩; exact ⟨⟨h1, h2⟩, h3⟩
      · simp only [h, if_false, List.mem_cons, forall_eq_or_imp, false_implies, true_and]
  rw [unionAt_eq, key]; simp

/-- **`lookup_total`.**  Every code point gets an answer from the bisection (no panic, no index out of the
table), the answer is never the empty set, it is DEFAULT when no line covers the code point, and an answer
other than DEFAULT is witnessed by a covering line with a non-empty class list.  "DEFAULT exactly when no
line covers it" is the reading of the property for lines with non-empty class lists that do not name
DEFAULT themselves; the exact statement is the last clause (`default_does_not_mean_uncovered` shows the
two ways a covered code point is DEFAULT). -/
theorem lookup_total (rs : List CatRange) (hwf : ∀ r ∈ rs, r.b < r.e) (x : Nat) :
    ∃ c, lookup (compile rs) x = some c ∧ c ≠ 0 ∧
      ((∀ r ∈ rs, ¬ (r.b ≤ x ∧ x < r.e)) → c = DEFAULT) ∧
      (c ≠ DEFAULT → ∃ r ∈ rs, r.b ≤ x ∧ x < r.e ∧ r.c ≠ 0) ∧
      (c = DEFAULT ↔ (∀ r ∈ rs, r.b ≤ x ∧ x < r.e → r.c = 0) ∨ unionAt rs x = DEFAULT) := by
  refine ⟨spec rs x, lookup_compile_eq_union rs hwf x, ?_, ?_, ?_, ?_⟩
  · unfold spec; simp only; split <;> simp_all [DEFAULT]
  · intro h
    have : unionAt rs x = 0 := (union_empty_iff rs x).mpr (fun r hr hc => absurd hc (h r hr))
    simp [spec, this]
  · intro hc
    have hu : unionAt rs x ≠ 0 := by intro h; simp [spec, h] at hc
    rw [Ne, union_empty_iff] at hu
    simp only [Classical.not_forall] at hu
    obtain ⟨r, hr, hcov, hne⟩ := hu
    exact ⟨r, hr, hcov.1, hcov.2, hne⟩
  · rw [← union_empty_iff]
    unfold spec; simp only
    constructor
    · intro h; split at h
      · left; assumption
      · right; exact h
    · rintro (h | h)
      · simp [h]
      · simp [h, DEFAULT]

/-- a covered code point is DEFAULT when its lines carry no class (`0x30 #comment`) or name DEFAULT -/
theorem default_does_not_mean_uncovered :
    lookup (compile [⟨48, 49, 0⟩]) 48 = some DEFAULT ∧ lookup (compile [⟨48, 49, 1⟩]) 48 = some DEFAULT := by
  decide

/-- **The reader lets through proper ranges only**: every range of a file that loads has
`begin < end ≤ char::MAX` with both ends scalar values — the hypothesis `hwf` of the theorems above and the
reason why the `char::from_u32(..).unwrap()` calls of `iter()` cannot panic. -/
theorem loaded_ranges_wellformed (bytes : List Nat) (rs : List CatRange) (h : readDef bytes = .ok rs) :
    ∀ r ∈ rs, r.b < r.e ∧ isScalar r.b = true ∧ isScalar r.e = true ∧ r.e ≤ 0x10FFFF :=
  readDef_ok_wf bytes rs h

/-- the property for FILES: whatever bytes load, bisection over the compiled table reports the union of
the classes of the covering lines of that file, or DEFAULT -/
theorem loaded_file_lookup (bytes : List Nat) (rs : List CatRange) (h : readDef bytes = .ok rs) (x : Nat) :
    lookup (compile rs) x = some (spec rs x) :=
  lookup_compile_eq_union rs (fun r hr => (readDef_ok_wf bytes rs h r hr).1) x

/-- **Reader, clause 1: total, in order.**  The loop over the lines either accepts every line and then
yields exactly the ranges of the well-formed lines in file order (`lineRange` = the `(begin, end, classes)`
triple of a line, `none` for a skipped one), or it stops at the FIRST refused line and reports it with its
0-based line number; there is no third outcome. -/
theorem reader_total_in_order (ls : List (List Char)) (i : Nat) :
    ((∀ l ∈ ls, lineOk l) ∧ parseLinesFrom i ls = .ok (ls.filterMap lineRange)) ∨
    (∃ pre l post e, ls = pre ++ l :: post ∧ (∀ l' ∈ pre, lineOk l') ∧ parseLine l = .error e ∧
      parseLinesFrom i ls = .error (i + pre.length, e)) :=
  parseLinesFrom_total ls i

/-- **Reader, clause 2: bytes.**  `BufRead::lines` in front of the loop: when every segment is UTF-8 the
result is the loop on the decoded lines; the first segment that is not UTF-8 — if everything before it was
accepted — ends the load with an I/O error. -/
theorem reader_bytes (segs : List (List Nat × Bool)) (i : Nat) :
    (∀ ls : List (List Char), segs.map decodeSegment = ls.map some → readFrom i segs = parseLinesFrom i ls) ∧
    (∀ pre seg post, segs = pre ++ seg :: post → (∀ s ∈ pre, ∃ l, decodeSegment s = some l ∧ lineOk l) →
      decodeSegment seg = none → readFrom i segs = .error (i + pre.length, .io)) :=
  ⟨fun ls h => readFrom_eq_parseLinesFrom segs ls i h,
   fun pre seg post heq hpre hseg => by rw [heq]; exact readFrom_io pre seg post i hpre hseg⟩

/-- the two places where the loop body indexes / unwraps (`r[0]`, `elem.chars().next().unwrap()`) cannot
panic: the only panic of the reader is the `+ 1` on `0xFFFFFFFF` (debug build) -/
theorem reader_no_index_panic (line : List Char) : parseLine line ≠ .error .panicUnreachable :=
  parseLine_reachable line

/-- **`u32::from_str_radix(_, 16)`** (both number fields and the hex form of a class column): `Ok(n)` iff the
string, after one optional `+`, is a non-empty string of hex digits (either case, any number of leading
zeros) with positional value `n < 2³²` -/
theorem from_str_radix_spec (s : List Char) (n : Nat) :
    u32FromStrRadix16 s = .ok n ↔ afterSign s ≠ [] ∧ hexValue (afterSign s) 0 = some n ∧ n < 4294967296 :=
  u32FromStrRadix16_spec s n

/-- **Class names** (`CategoryType::from_str`, seeded C17b): `ALL` is the constant without the two
NOOOVBOW bits, not "every bit"; `A|B` is the union; a hex number is taken bit for bit -/
theorem all_is_without_noovbow :
    categoryFromStr "ALL".toList = some 0x3FFFFFFF ∧ (0x3FFFFFFF : Nat).testBit 30 = false ∧
    (0x3FFFFFFF : Nat).testBit 31 = false ∧
    categoryFromStr "ALL|NOOOVBOW".toList = some 0x7FFFFFFF ∧
    categoryFromStr "KANJI|ALPHA".toList = some 36 ∧ categoryFromStr "0x40".toList = some 64 ∧
    categoryFromStr "|".toList = none ∧ categoryFromStr "kanji".toList = none ∧ categoryFromStr "0x".toList = none := by
  decide

/-- **U+10FFFF can never be given a class**: a line containing it would need `end = 0x110000`, which the
reader refuses (`InvalidChar`); so for every file that loads the last scalar value is DEFAULT. -/
theorem max_scalar_never_covered (bytes : List Nat) (rs : List CatRange) (h : readDef bytes = .ok rs) :
    lookup (compile rs) 0x10FFFF = some DEFAULT := by
  rw [loaded_file_lookup bytes rs h]
  have : unionAt rs 0x10FFFF = 0 := by
    rw [union_empty_iff]
    intro r hr hc
    have := (readDef_ok_wf bytes rs h r hr).2.2.2
    omega
  simp [spec, this]

/-- **`iter()`, full statement.**  For every file that loads and has at least one range line, `iter()` does
not panic and yields consecutive HALF-OPEN ranges `start..end` running from 0 to `char::MAX` (`Chain`);
every code point below `char::MAX` lies in exactly one of them; the classes of a range are, for every code
point in it, the union of the classes of the covering lines or DEFAULT (what `get_category_types` reports);
neighbouring ranges carry the same classes only when these are DEFAULT (so for every other class set the
ranges are the MAXIMAL runs); and `char::MAX` itself lies in no range (it is DEFAULT by
`max_scalar_never_covered`). -/
theorem iter_ranges_spec (bytes : List Nat) (rs : List CatRange) (h : readDef bytes = .ok rs) (hne : rs ≠ []) :
    ∃ items, iterRanges (compile rs) = some items ∧ Chain 0 items charMax ∧
      (∀ x, x < charMax → countIn x items = 1) ∧
      (∀ it ∈ items, ∀ x, it.1 ≤ x → x < it.2.1 → it.2.2 = spec rs x) ∧
      AdjEqDef (items.map (·.2.2)) ∧
      countIn charMax items = 0 := by
  have hwf := readDef_ok_wf bytes rs h
  have hsc : ∀ b ∈ fsts (compile rs), isScalar b = true := by
    intro b hb
    obtain ⟨r, hr, hb'⟩ := mem_fsts_compile rs b hb
    rcases hb' with rfl | rfl
    · exact (hwf r hr).2.1
    · exact (hwf r hr).2.2.1
  obtain ⟨items, h1, h2, h3, h4⟩ := iterRanges_spec (compile rs) (compile_ne_nil rs hne) (sinc_compile rs) hsc
  refine ⟨items, h1, h2, fun x hx => countIn_chain h2 x (Nat.zero_le _) hx, ?_, ?_, countIn_above h2 _ (Nat.le_refl _)⟩
  · intro it hit x hx1 hx2
    rw [h3 it hit x hx1 hx2, compile_correct rs (fun r hr => (hwf r hr).1)]
  · rw [h4]; exact adjEqDef_compile rs

/-- **Finding (pinned code).**  A definition file without any range line (empty, comments only, a BOM in front
of its only line) loads, every code point is DEFAULT — and `iter()` panics on it
(`boundaries.last().unwrap()` on the empty vector; reached from `IgnoreYomiganaPlugin::set_up`). -/
theorem iter_empty_table_counterexample :
    readDef [] = .ok [] ∧ readDef [0x23, 0x61, 0x0A] = .ok [] ∧
    readDef [0xEF, 0xBB, 0xBF, 0x30, 0x78, 0x33, 0x30, 0x20, 0x30, 0x78, 0x31, 0x0A] = .ok [] ∧
    (∀ x, lookup (compile []) x = some DEFAULT) ∧ iterRanges (compile []) = none := by
  refine ⟨by rfl, by rfl, by rfl, fun x => by simp [compile, finalize, merge, setFirst, applyAll, initCats, collectBoundaries, lookup], by rfl⟩

/-- the delivered repair (`fix_iter_empty.patch`): one range `0..char::MAX` with DEFAULT on the empty table,
nothing changed on any other table -/
theorem iter_repaired_empty_table :
    iterRangesV .fix (compile []) = some [(0, charMax, DEFAULT)] ∧
    (∀ tab, tab ≠ [] → iterRangesV .fix tab = iterRangesV .cur tab) ∧
    (∀ tab, iterRangesV .cur tab = iterRanges tab) := by
  refine ⟨by rfl, ?_, ?_⟩
  · intro tab h; cases tab with
    | nil => exact absurd rfl h
    | cons p t => rfl
  · intro tab; cases tab <;> rfl

/-- the ranges of `iter()` are NOT always maximal: DEFAULT written out next to an empty class list
(`0x30 DEFAULT` / `0x31 #nothing`), or next to the uncovered rest, gives neighbouring DEFAULT ranges -/
theorem iter_not_maximal_counterexample :
    iterRanges (compile [⟨48, 49, 1⟩, ⟨49, 50, 0⟩]) = some [(0, 49, 1), (49, 50, 1), (50, charMax, 1)] := by
  decide

/-- **The classes the analyser gets (seeded round e).**  `InputBuffer::build` is the only place where the analyser
asks for the classes of the characters of a text.  For every definition file that loads and EVERY text: `build` does
not panic, its category column `mod_cat` has one entry per character, and `cat_at_char(i)` reports exactly the union of
the classes of the lines covering the i-th character (DEFAULT when none) - a function of that character and the file
alone, independent of the other characters of the text and of the position. -/
theorem buffer_categories_eq_union (bytes : List Nat) (rs : List CatRange) (h : readDef bytes = .ok rs)
    (text : List Nat) :
    ∃ mc, bufferCats (compile rs) text = some mc ∧ mc.length = text.length ∧
      ∀ (i : Nat) (hi : i < text.length), catAtChar mc i = some (spec rs text[i]) := by
  refine ⟨text.map (spec rs), bufferCats_eq_map _ _ (loaded_file_lookup bytes rs h) text, by simp, ?_⟩
  intro i hi
  simp [catAtChar, hi]

/-- corollary, the independence spelled out: the same character in two texts (or at two positions of one text) built
with the same loaded file is reported with the same classes -/
theorem buffer_categories_context_independent (bytes : List Nat) (rs : List CatRange) (h : readDef bytes = .ok rs)
    (t₁ t₂ mc₁ mc₂ : List Nat) (h₁ : bufferCats (compile rs) t₁ = some mc₁) (h₂ : bufferCats (compile rs) t₂ = some mc₂)
    (i j : Nat) (hi : i < t₁.length) (hj : j < t₂.length) (heq : t₁[i] = t₂[j]) :
    catAtChar mc₁ i = catAtChar mc₂ j := by
  obtain ⟨m₁, e₁, _, a₁⟩ := buffer_categories_eq_union bytes rs h t₁
  obtain ⟨m₂, e₂, _, a₂⟩ := buffer_categories_eq_union bytes rs h t₂
  rw [h₁] at e₁; rw [h₂] at e₂
  cases e₁; cases e₂
  rw [a₁ i hi, a₂ j hj, heq]

/-- `cat_of_range(s..e)` on a built buffer: for a non-empty range inside the text no panic, and the classes common
to the unions of the covering lines of the characters `s..e` (fold of `&` from `CategoryType::all()`); for the
one-character range `i..i+1` that is `ALL_BITS &&& (classes of character i)` -/
theorem buffer_range_eq_common (bytes : List Nat) (rs : List CatRange) (h : readDef bytes = .ok rs)
    (text mc : List Nat) (hb : bufferCats (compile rs) text = some mc) (s e : Nat) (hse : s < e) (he : e ≤ text.length) :
    catOfRange mc s e = some ((((text.drop s).take (e - s)).map (spec rs)).foldl (fun a b => a &&& b) ALL_BITS) := by
  have hm := bufferCats_eq_map _ _ (loaded_file_lookup bytes rs h) text
  rw [hb] at hm
  cases hm
  have h1 : ¬ e ≤ s := by omega
  have h2 : ¬ (text.map (spec rs)).length < e := by simp; omega
  simp only [catOfRange, h1, h2, if_false]
  rw [← List.map_drop, ← List.map_take]

/-- non-vacuity of the buffer theorems and the seeded change of round e in the kernel: with `0x41..0x5A ALPHA` and
`0x20000..0x2A6DF KANJI` the text `A U+20041` reports ALPHA then KANJI, the reversed text KANJI then ALPHA (a cache
keyed by the low 16 bits of the code point would answer ALPHA, ALPHA / KANJI, KANJI); the empty text; a range query -/
example :
    bufferCats (compile [⟨0x41, 0x5B, 32⟩, ⟨0x20000, 0x2A6E0, 4⟩]) [0x41, 0x20041] = some [32, 4] ∧
    bufferCats (compile [⟨0x41, 0x5B, 32⟩, ⟨0x20000, 0x2A6E0, 4⟩]) [0x20041, 0x41, 0x141, 0x20041] = some [4, 32, 1, 4] ∧
    bufferCats (compile [⟨0x41, 0x5B, 32⟩, ⟨0x20000, 0x2A6E0, 4⟩]) [] = some [] ∧
    catAtChar [32, 4] 1 = some 4 ∧ catAtChar [32, 4] 2 = none ∧
    catOfRange [36, 4, 32] 0 2 = some 4 ∧ catOfRange [36, 4, 32] 0 3 = some 0 ∧ catOfRange [36, 4, 32] 2 2 = some 0 ∧
    catOfRange [36, 4, 32] 2 4 = none := by
  refine ⟨by decide, by decide, by decide, by decide, by decide, by decide, by decide, by decide, by decide⟩

/-- non-vacuity of the hypothesis `readDef bytes = .ok rs` together with a text: the file `0x30 0x4` + LF -/
example : ∃ rs mc, readDef [0x30, 0x78, 0x33, 0x30, 0x20, 0x30, 0x78, 0x34, 0x0A] = .ok rs ∧
    bufferCats (compile rs) [0x30, 0x10030, 0x30] = some mc ∧ mc = [4, 1, 4] :=
  ⟨[⟨48, 49, 4⟩], [4, 1, 4], by rfl, by decide, rfl⟩

/-- non-vacuity of the reader theorems: lines in every accepted spelling, refused lines with their error -/
example :
    parseLine "0x0030..0x0039 NUMERIC".toList = .ok (some ⟨48, 58, 16⟩) ∧
    parseLine "　 0x+30..39..7\tKANJI|0x40 #c".toList = .ok (some ⟨48, 58, 68⟩) ∧
    parseLine "0x0x30 #nothing".toList = .ok (some ⟨48, 49, 0⟩) ∧
    parseLine "0X30 KANJI".toList = .ok none ∧ parseLine " # 0x30".toList = .ok none ∧
    parseLine "0x30".toList = .error .invalidFormat ∧
    parseLine "0x39..0x30 KANJI".toList = .error .invalidFormat ∧
    parseLine "0xD7FF KANJI".toList = .error (.invalidChar 0xD800) ∧
    parseLine "0x10FFFF KANJI".toList = .error (.invalidChar 0x110000) ∧
    parseLine "0x100000000 KANJI".toList = .error (.parseInt .posOverflow) ∧
    parseLine "0x KANJI".toList = .error (.parseInt .empty) ∧
    parseLine "0x30.. KANJI".toList = .error (.parseInt .empty) ∧
    parseLine "0x-30 KANJI".toList = .error (.parseInt .invalidDigit) ∧
    parseLine "0xFFFFFFFF KANJI".toList = .error .panicOverflow ∧
    parseLine "0x30 KANJII".toList = .error (.invalidType "KANJII".toList) := by
  refine ⟨by rfl, by rfl, by rfl, by rfl, by rfl, by rfl, by rfl, by rfl, by rfl, by rfl, by rfl, by rfl, by rfl, by rfl, by rfl⟩

/-- non-vacuity of `reader_bytes` / first-error order: CRLF, no final newline, a refused line before bytes
that are not UTF-8 and the other way round -/
example :
    readDef [0x30, 0x78, 0x33, 0x30, 0x20, 0x30, 0x78, 0x34, 0x0D, 0x0A, 0x30, 0x78, 0x33, 0x31, 0x20, 0x30, 0x78, 0x38]
      = .ok [⟨48, 49, 4⟩, ⟨49, 50, 8⟩] ∧
    readDef [0x30, 0x78, 0x33, 0x30, 0x0A, 0x23, 0xFF, 0x0A] = .error (0, .invalidFormat) ∧
    readDef [0x23, 0xFF, 0x0A, 0x30, 0x78, 0x33, 0x30, 0x0A] = .error (0, .io) ∧
    readDef [0x23, 0xED, 0xA0, 0x80, 0x0A] = .error (0, .io) ∧ readDef [0x23, 0xC0, 0x80] = .error (0, .io) := by
  refine ⟨by rfl, by rfl, by rfl, by rfl, by rfl⟩

/-- non-vacuity at the boundary values the seeded changes exposed: U+00FF/U+0100 (table size, `u8`),
U+FFFF/U+10000 (`u16`, 3/4-byte), the last coverable code point U+10FFFE and U+10FFFF, the surrogate gap
U+D7FF/U+E000 — hypotheses of `lookup_compile_eq_union` met, values as the union says -/
example :
    (∀ r ∈ [⟨0xC0, 0x100, 32⟩, (⟨0x100, 0x180, 512⟩ : CatRange)], r.b < r.e) ∧
    lookup (compile [⟨0xC0, 0x100, 32⟩, ⟨0x100, 0x180, 512⟩]) 0xFF = some 32 ∧
    lookup (compile [⟨0xC0, 0x100, 32⟩, ⟨0x100, 0x180, 512⟩]) 0x100 = some 512 ∧
    lookup (compile [⟨0xFFFF, 0x10000, 4⟩, ⟨0x10000, 0x10001, 32⟩]) 0xFFFF = some 4 ∧
    lookup (compile [⟨0xFFFF, 0x10000, 4⟩, ⟨0x10000, 0x10001, 32⟩]) 0x10000 = some 32 ∧
    lookup (compile [⟨0x10FFFE, 0x10FFFF, 4⟩]) 0x10FFFE = some 4 ∧
    lookup (compile [⟨0x10FFFE, 0x10FFFF, 4⟩]) 0x10FFFF = some 1 ∧
    lookup (compile [⟨0xD7FF, 0xE000, 32⟩]) 0xD7FE = some 1 ∧
    lookup (compile [⟨0xD7FF, 0xE000, 32⟩]) 0xD7FF = some 32 ∧
    lookup (compile [⟨0xD7FF, 0xE000, 32⟩]) 0xE000 = some 1 ∧
    iterRanges (compile [⟨0xD7FF, 0xE000, 32⟩]) = some [(0, 0xD7FF, 1), (0xD7FF, 0xE000, 32), (0xE000, 0x10FFFF, 1)] ∧
    iterRanges (compile [⟨0, 1, 2⟩]) = some [(0, 0, 1), (0, 1, 2), (1, 0x10FFFF, 1)] := by
  refine ⟨by decide, by decide, by decide, by decide, by decide, by decide, by decide, by decide, by decide, by decide, by decide, by decide⟩

/-- non-vacuity of `iter_ranges_spec`: a file that loads with one range line -/
example : ∃ rs, readDef [0x30, 0x78, 0x33, 0x30, 0x20, 0x30, 0x78, 0x34, 0x0A] = .ok rs ∧ rs ≠ [] :=
  ⟨[⟨48, 49, 4⟩], by rfl, by simp⟩

/-- non-vacuity: the overlapping example of DESIGN §2.3 (NUMERIC 0x30..0x39, KANJI 0x35,
SYMBOL 0x3A..0x40) meets the hypothesis and yields the hand-computed table. -/
example : (∀ r ∈ [⟨48, 58, 16⟩, ⟨53, 54, 4⟩, (⟨58, 65, 8⟩ : CatRange)], r.b < r.e) ∧
    compile [⟨48, 58, 16⟩, ⟨53, 54, 4⟩, ⟨58, 65, 8⟩] = [(48, 1), (53, 16), (54, 20), (58, 16), (65, 8)] ∧
    lookup (compile [⟨48, 58, 16⟩, ⟨53, 54, 4⟩, ⟨58, 65, 8⟩]) 53 = some 20 := by
  refine ⟨by decide, by decide, by decide⟩

/-- non-vacuity of `binary_search_contract`: hits, misses below / between / above, odd and even
lengths, the one-element and the empty slice -/
example : SInc [48, 53, 54, 58, 65] ∧
    bsearch [48, 53, 54, 58, 65] 53 = some (1, true) ∧ bsearch [48, 53, 54, 58, 65] 65 = some (4, true) ∧
    bsearch [48, 53, 54, 58, 65] 0 = some (0, false) ∧ bsearch [48, 53, 54, 58, 65] 57 = some (3, false) ∧
    bsearch [48, 53, 54, 58, 65] 66 = some (5, false) ∧ bsearch [48, 53, 54, 58] 54 = some (2, true) ∧
    bsearch [7] 7 = some (0, true) ∧ bsearch [7] 9 = some (1, false) ∧ bsearch [] 9 = some (0, false) := by
  refine ⟨by simp [SInc], by decide, by decide, by decide, by decide, by decide, by decide, by decide, by decide, by decide⟩

end C17
