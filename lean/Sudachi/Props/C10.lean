import Sudachi.Proofs.Recycle
/-!
# C10 — Results do not depend on what a tokenizer or result list processed before

Model: `Recycle` (`Model/Recycle.lean`): `StatefulTokenizer` + `InputBuffer` + `Lattice` + `MorphemeList`s as
one state with every recycled buffer explicit; operations are the literal buffer events of the Rust; what
is pushed is an abstract `Payload` (so the theorems hold for every dictionary, plugin stack and text).
`ObsEq` = what a caller can observe of a finished analysis (result path, every buffer field except the
private scratch string, subset, mode).  The theorems quantify over ARBITRARY prior working states, which
covers every history; the two buffers `reset` does not clear (`top_path_ids`, `replaces`) are empty
between calls by `analyse_keeps_invariant` / `fresh_invariant`.
-/
namespace C10
open Recycle

variable {E : Type}

/-- **reset_establishes / history independence, core statement.**  Take ANY two tokenizer working states
(any lattice rows, any stale input tables, any scratch contents, any OOV scratch - e.g. the state after an
arbitrary history and a freshly created tokenizer) that have the same mode and effective field subset, whose
result path is present in both or absent in both, and that agree on the two drain-maintained buffers.  Then
analysing the same text gives the same outcome (Ok / which error / panic) and, when Ok, the same observable
result.  Hypothesis `OffsetsInRange`: the position loop stays below the lattice size (`mod_c2b` has one entry
per character + sentinel; a payload fact established by `InputBuffer::build`, C08). -/
theorem reset_establishes (P : Payload E) (t t' : Tok E) (text : List E)
    (hrep : t.input.replaces = t'.input.replaces) (hids : t.topPathIds = t'.topPathIds)
    (hpath : t.topPath.isSome = t'.topPath.isSome) (hs : t.subset = t'.subset) (hm : t.mode = t'.mode)
    (hlen : OffsetsInRange P t text) :
    (t.analyse P text).2 = (t'.analyse P text).2 ∧
    ((t.analyse P text).2 = .ok → ObsEq (t.analyse P text).1 (t'.analyse P text).1) :=
  analyse_congr P t t' text hrep hids hpath hs hm hlen

/-- the invariant on the two buffers that `reset` leaves alone holds for a new tokenizer … -/
theorem fresh_invariant (m : Mode) (s : Option Subset) : Inv (Tok.freshFor (E := E) m s) := by
  cases s <;> exact ⟨rfl, rfl⟩

/-- … and is re-established by every analysis at every exit (Ok, `TooLong` at `start_build` or `commit`,
`Disconnect` in the loop or at EOS, error or panic after the path was taken). -/
theorem analyse_keeps_invariant (P : Payload E) (t : Tok E) (text : List E) (h : Inv t) :
    Inv (t.analyse P text).1 :=
  analyse_inv P t text h

/-- **history_independent** (for a tokenizer whose result path is present - see
`top_path_none_counterexample` for why this cannot be dropped).  A tokenizer in ANY working state `t` that
satisfies the invariant (every state reached by analyses does) reports for a text exactly what a tokenizer
created now with the same mode and the same effective subset reports.

Full statement of the property also covers `t.topPath = none` (after a failure behind `resolve_best_path`);
that part is `top_path_none_recovers` (non-empty normalised text) and is FALSE for an empty text. -/
theorem history_independent_partial (P : Payload E) (t : Tok E) (text : List E) (hinv : Inv t)
    (hpath : t.topPath.isSome = true) (hlen : OffsetsInRange P t text) :
    let fresh : Tok E := { Tok.create t.mode with subset := t.subset }
    (t.analyse P text).2 = (fresh.analyse P text).2 ∧
    ((t.analyse P text).2 = .ok → ObsEq (t.analyse P text).1 (fresh.analyse P text).1) := by
  intro fresh
  apply analyse_congr P t fresh text
  · rw [hinv.2]; rfl
  · rw [hinv.1]; rfl
  · rw [hpath]; rfl
  · rfl
  · rfl
  · exact hlen

/-- **failure_recoverable.**  After an analysis that failed with `TooLong` or `Disconnect` (both are raised
before the result path is taken) the tokenizer analyses the next text exactly as a new one. -/
theorem failure_recoverable (P P' : Payload E) (t : Tok E) (bad text : List E) (e : Err) (he : e ≠ .other)
    (hinv : Inv t) (hpath : t.topPath.isSome = true) (hfail : (t.analyse P bad).2 = .err e)
    (hlen : OffsetsInRange P' (t.analyse P bad).1 text) :
    let t1 := (t.analyse P bad).1
    let fresh : Tok E := { Tok.create t1.mode with subset := t1.subset }
    (t1.analyse P' text).2 = (fresh.analyse P' text).2 ∧
    ((t1.analyse P' text).2 = .ok → ObsEq (t1.analyse P' text).1 (fresh.analyse P' text).1) := by
  intro t1 fresh
  have hp : t1.topPath.isSome = true := by
    rw [analyse_err_keeps_path P t bad e he hfail]; exact hpath
  exact history_independent_partial P' t1 text (analyse_inv P t bad hinv) hp hlen

/-- **lattice_reset_clears_all_rows.**  `Lattice::reset` empties EVERY allocated row of the three parallel
vectors - also those at or above the new `size` - except for the BOS entry of `ends[0]`; no row is dropped. -/
theorem lattice_reset_clears_all_rows (P : Payload E) (l : Lattice E) (n k : Nat) :
    rowAt (Lattice.reset P l n).ends k = (if k = 0 then [P.bos] else []) ∧
    rowAt (Lattice.reset P l n).endsFull k = [] ∧
    rowAt (Lattice.reset P l n).indices k = [] ∧
    (Lattice.reset P l n).ends.length = max l.ends.length (n + 1) ∧
    (Lattice.reset P l n).size = n + 1 ∧ (Lattice.reset P l n).eos = none := by
  refine ⟨?_, rowAt_of_all_nil _ (resetVec_all_nil _ _) k, rowAt_of_all_nil _ (resetVec_all_nil _ _) k, ?_, rfl, rfl⟩
  · show rowAt (pushRow (resetVec l.ends (n + 1)) 0 P.bos) k = _
    by_cases hk : k = 0
    · subst hk
      have hlen := resetVec_length l.ends (n + 1)
      have hnil := resetVec_all_nil l.ends (n + 1)
      cases hr : resetVec l.ends (n + 1) with
      | nil => rw [hr] at hlen; simp at hlen; omega
      | cons r rs =>
        rw [hr] at hnil
        have : r = [] := hnil r (by simp)
        simp [pushRow, rowAt, this]
    · rw [rowAt_pushRow_ne _ _ _ _ hk, rowAt_of_all_nil _ (resetVec_all_nil _ _)]
      simp [hk]
  · show (pushRow (resetVec l.ends (n + 1)) 0 P.bos).length = _
    rw [pushRow_length, resetVec_length]

/-- the visible part of the lattice after `reset` is the same whatever the lattice held before -/
theorem lattice_reset_history_free (P : Payload E) (l l' : Lattice E) (n : Nat) :
    (Lattice.reset P l n).vis = (Lattice.reset P l' n).vis := by
  rw [Lattice.reset_vis, Lattice.reset_vis]

/-- **m2o_2 / modified_2 self-cleaning.**  The two buffers `InputBuffer::reset` deliberately skips never
influence an analysis: two buffers that differ only there have the same outcome of
`start_build; rewrite_input; build` and afterwards agree on every field but the private scratch string. -/
theorem scratch_buffers_self_cleaning (P : Payload E) (i : Input E) (junk2 junkMap : List E) :
    (Input.prepare P { i with modified2 := junk2, m2o2 := junkMap }).2 = (Input.prepare P i).2 ∧
    ((Input.prepare P i).2 = .ok →
      (Input.prepare P { i with modified2 := junk2, m2o2 := junkMap }).1.view = (Input.prepare P i).1.view) := by
  have h := Input.editView_prepare P { i with modified2 := junk2, m2o2 := junkMap } i rfl
  exact ⟨h.1, fun hok => h.2.2 (by rw [h.1]; exact hok)⟩

/-- **top_path_none_recovers.**  When the previous analysis failed after the path was taken (`top_path` is
`None`), an analysis that reaches `resolve_best_path` (non-empty normalised text) behaves exactly as with a
present, cleared path: `unwrap_or_else(Vec::new)` re-creates it. -/
theorem top_path_none_recovers (P : Payload E) (t : Tok E) :
    Tok.resolveAndRewrite P { t with topPath := none } = Tok.resolveAndRewrite P { t with topPath := some [] } := rfl

/-- `collect_results` moves exactly the tokenizer's path, input buffer and subset into the list, whatever
the list held (reused or cross-used list): nothing of the list's previous content survives in it. -/
theorem collect_transfers (w : World E) (j : Nat) (L : MList E) (p : Part E) (path : List E)
    (hL : w.lists[j]? = some L) (hp : w.parts[L.part]? = some p) (ht : w.tok.topPath = some path) :
    (w.collect j).2 = .ok ∧
    (w.collect j).1.lists = w.lists.set j { L with nodes := path } ∧
    (w.collect j).1.parts = w.parts.set L.part ⟨w.tok.input, w.tok.subset⟩ ∧
    (w.collect j).1.tok.input = p.input ∧ (w.collect j).1.tok.topPath = some L.nodes := by
  unfold World.collect
  simp [hL, hp, ht]

/-! ### the code as it stands violates the property: an Ok analysis whose result cannot be collected -/

/-- payload of an analysis of a one-character text that fails after `resolve_best_path` took the path
(e.g. `get_word_info_subset` → `Err`, or a panic in `split_path`) -/
def failingAfterTake : Payload Nat := Recycle.IO.payloadOf [] [[1]] true .fail 0 0 true
def plain : Payload Nat := Recycle.IO.plainPayload

/-- **top_path_none_counterexample** (negation of `history_independent` / "a failed analysis leaves the
tokenizer usable" on a concrete history).  History: `new list; analyse "a"` (fails after the path was taken);
`analyse ""`.  The second analysis returns Ok - as on a new tokenizer - but `top_path` is still `None`, so
`collect_results` panics (`self.top_path.as_mut().unwrap()`), whereas a new tokenizer collects an empty
result.  The model mirrors stateful_tokenizer.rs:107-110 (`reset` only clears an existing path), :124-126
(early `return Ok(())` for an empty text), :176 (`mem::replace(&mut self.top_path, None)`), :214 (`unwrap`). -/
theorem top_path_none_counterexample :
    let w0 : World Nat := (World.init .C).run [(plain, .newList)]
    let w1 := w0.run [(failingAfterTake, .analyse [1])]
    -- the failing analysis
    (w0.step failingAfterTake (.analyse [1])).2 = .err .other ∧
    -- then an empty text: Ok on both, …
    (w1.step plain (.analyse [])).2 = .ok ∧ (w0.step plain (.analyse [])).2 = .ok ∧
    -- … but only the fresh tokenizer's result can be collected
    ((w1.step plain (.analyse [])).1.collect 0).2 = .panic ∧
    ((w0.step plain (.analyse [])).1.collect 0).2 = .ok ∧
    (w1.step plain (.analyse [])).1.tok.topPath = none ∧ (w0.step plain (.analyse [])).1.tok.topPath = some [] := by
  decide

/-- set_subset then set_mode: the reused tokenizer's flag set is NOT a superset of the flag set of a new
tokenizer with the same mode and request (`HEAD_WORD_LENGTH` is missing).  Harmless in the code because the
word-info parser reads that light field whenever a split field is requested (C11); recorded because the
design's `subset_monotone` cannot be stated for flags. -/
theorem subset_monotone_counterexample :
    let req : Subset := { Subset.empty with pos := true }
    let reused : Tok Nat := ((Tok.create .C).setSubset req).setMode .A
    let fresh : Tok Nat := Tok.freshFor .A (some req)
    Subset.le fresh.subset reused.subset = false ∧
    Subset.le fresh.subset (reused.subset.union { Subset.empty with headLen := true }) = true := by
  decide

/-- mode changes only ever add flags -/
theorem set_mode_only_adds (t : Tok E) (m : Mode) : Subset.le t.subset (t.setMode m).subset = true := by
  cases m <;> simp [Tok.setMode, Subset.le, Subset.union, Subset.ofMode, Subset.empty]

/-- `set_subset` forgets every earlier request and mode-induced flag: the new subset is a function of the
current mode and the request only -/
theorem set_subset_history_free (t t' : Tok E) (s : Subset) (h : t.mode = t'.mode) :
    (t.setSubset s).subset = (t'.setSubset s).subset := by
  simp [Tok.setSubset, h]

/-! ### non-vacuity -/

/-- the hypotheses of `reset_establishes` / `history_independent_partial` / `failure_recoverable` are met by
a concrete history: a tokenizer that analysed a longer text (Ok), then a failing one (`Disconnect`), is in a
state with stale lattice rows and tables, satisfies `Inv`, keeps its path, and `OffsetsInRange` holds. -/
example :
    let P1 : Payload Nat := Recycle.IO.payloadOf [] [[1], [2], [3]] true (.path 3) 0 0 true
    let P2 : Payload Nat := Recycle.IO.payloadOf [] [[1], []] false .none 0 0 true
    let t0 : Tok Nat := Tok.create .C
    let t1 := (t0.analyse P1 [1, 1, 1]).1
    let t2 := (t1.analyse P2 [1, 1]).1
    (t0.analyse P1 [1, 1, 1]).2 = .ok ∧ (t1.analyse P2 [1, 1]).2 = .err .disconnect ∧
    (t2.topPathIds = [] ∧ t2.input.replaces = []) ∧ t2.topPath.isSome = true ∧ t2.lattice.ends.length = 4 ∧
    (Input.prepare P1 (t2.resetWith [1, 1, 1]).input).2 = .ok ∧
    (Input.prepare P1 (t2.resetWith [1, 1, 1]).input).1.modC2b.length - 1 ≤
      (Input.prepare P1 (t2.resetWith [1, 1, 1]).input).1.modChars.length := by
  decide

end C10
